(* C20I — proofs about the sampling model (C20I_Model.v).  Everything over Q, no axioms. *)
From Coq Require Import List ZArith QArith Qround Bool Lia Lqa Sorted Permutation.
From PV Require Import lib.Cases C20I_Model.
Import ListNotations.
Open Scope Q_scope.

(* ------------------------------------------------------------------ *)
(* booleans                                                            *)
(* ------------------------------------------------------------------ *)
Lemma Qltb_iff a b : Qltb a b = true <-> a < b.
Proof.
  unfold Qltb. rewrite negb_true_iff. split; intro H.
  - apply Qnot_le_lt. intro L. apply Qle_bool_iff in L. congruence.
  - destruct (Qle_bool b a) eqn:E; [|reflexivity]. apply Qle_bool_iff in E. lra.
Qed.
Lemma Qltb_false_iff a b : Qltb a b = false <-> b <= a.
Proof.
  unfold Qltb. rewrite negb_false_iff. apply Qle_bool_iff.
Qed.
Lemma Qle_bool_false_iff a b : Qle_bool a b = false <-> b < a.
Proof.
  split; intro H.
  - apply Qnot_le_lt. intro L. apply Qle_bool_iff in L. congruence.
  - destruct (Qle_bool a b) eqn:E; [|reflexivity]. apply Qle_bool_iff in E. lra.
Qed.

Lemma pymin_spec a b : (b < a /\ pymin a b = b) \/ (a <= b /\ pymin a b = a).
Proof.
  unfold pymin. destruct (Qltb b a) eqn:E.
  - left. apply Qltb_iff in E. auto.
  - right. apply Qltb_false_iff in E. auto.
Qed.
Lemma pymax_spec a b : (a < b /\ pymax a b = b) \/ (b <= a /\ pymax a b = a).
Proof.
  unfold pymax. destruct (Qltb a b) eqn:E.
  - left. apply Qltb_iff in E. auto.
  - right. apply Qltb_false_iff in E. auto.
Qed.
Lemma pymin_le_l a b : pymin a b <= a.
Proof. destruct (pymin_spec a b) as [[H ->]|[H ->]]; lra. Qed.
Lemma pymin_le_r a b : pymin a b <= b.
Proof. destruct (pymin_spec a b) as [[H ->]|[H ->]]; lra. Qed.
Lemma pymin_glb a b c : c <= a -> c <= b -> c <= pymin a b.
Proof. intros. destruct (pymin_spec a b) as [[H' ->]|[H' ->]]; lra. Qed.
Lemma pymax_ge_l a b : a <= pymax a b.
Proof. destruct (pymax_spec a b) as [[H ->]|[H ->]]; lra. Qed.
Lemma pymax_ge_r a b : b <= pymax a b.
Proof. destruct (pymax_spec a b) as [[H ->]|[H ->]]; lra. Qed.
Lemma pymax_lub a b c : a <= c -> b <= c -> pymax a b <= c.
Proof. intros. destruct (pymax_spec a b) as [[H' ->]|[H' ->]]; lra. Qed.

(* ------------------------------------------------------------------ *)
(* int(): truncation towards zero                                      *)
(* ------------------------------------------------------------------ *)
Lemma pyint_nonneg x : 0 <= x -> inject_Z (pyint x) <= x /\ x < inject_Z (pyint x) + 1.
Proof.
  intro H. unfold pyint. apply Qle_bool_iff in H. rewrite H. split.
  - apply Qfloor_le.
  - pose proof (Qlt_floor x) as L. rewrite inject_Z_plus in L. exact L.
Qed.
Lemma pyint_neg x : x < 0 -> x <= inject_Z (pyint x) /\ inject_Z (pyint x) < x + 1.
Proof.
  intro H. unfold pyint. apply Qle_bool_false_iff in H. rewrite H. split.
  - apply Qle_ceiling.
  - pose proof (Qceiling_lt x) as L. unfold Z.sub in L. rewrite inject_Z_plus in L.
    change (inject_Z (- (1))%Z) with (-(1)) in L. lra.
Qed.
(* the fractional part has the sign of x *)
Lemma frac_nonneg x : 0 <= x -> 0 <= x - inject_Z (pyint x) /\ x - inject_Z (pyint x) < 1.
Proof. intro H. destruct (pyint_nonneg x H). split; lra. Qed.
Lemma frac_neg x : x < 0 -> -(1) < x - inject_Z (pyint x) /\ x - inject_Z (pyint x) <= 0.
Proof. intro H. destruct (pyint_neg x H). split; lra. Qed.

Lemma inject_Z_lt_iff a b : (a < b)%Z <-> inject_Z a < inject_Z b.
Proof. rewrite Zlt_Qlt. reflexivity. Qed.
Lemma inject_Z_le_iff a b : (a <= b)%Z <-> inject_Z a <= inject_Z b.
Proof. rewrite Zle_Qle. reflexivity. Qed.

Lemma pyint_Z z : pyint (inject_Z z) = z.
Proof.
  unfold pyint. destruct (Qle_bool 0 (inject_Z z)); [apply Qfloor_Z|apply Qceiling_Z].
Qed.
Lemma pyint_sign_nonneg x : 0 <= x -> (0 <= pyint x)%Z.
Proof.
  intro H. destruct (pyint_nonneg x H) as [_ L].
  assert (inject_Z (-1) < inject_Z (pyint x)) as L'.
  { change (inject_Z (-1)) with (-(1)). lra. }
  apply inject_Z_lt_iff in L'. lia.
Qed.
Lemma pyint_neg_zero x : -(1) < x -> x < 0 -> pyint x = 0%Z.
Proof.
  intros H1 H2. destruct (pyint_neg x H2) as [A B].
  assert (inject_Z (-1) < inject_Z (pyint x)) as L1 by (change (inject_Z (-1)) with (-(1)); lra).
  assert (inject_Z (pyint x) < inject_Z 1) as L2 by (change (inject_Z 1) with 1; lra).
  apply inject_Z_lt_iff in L1, L2. lia.
Qed.
Lemma pyint_le_m1 x : x <= -(1) -> (pyint x <= -1)%Z.
Proof.
  intro H. assert (x < 0) as N by lra. destruct (pyint_neg x N) as [A B].
  assert (inject_Z (pyint x) < inject_Z 0) as L by (change (inject_Z 0) with 0; lra).
  apply inject_Z_lt_iff in L. lia.
Qed.

(* the range test on the truncated coordinate, as an interval of the coordinate itself *)
Lemma in_range_pyint x n :
  in_range (pyint x) (n - 1) = true <-> (2 <= n)%Z /\ -(1) < x /\ x < inject_Z (n - 1).
Proof.
  unfold in_range. rewrite andb_true_iff, Z.leb_le, Z.ltb_lt. split.
  - intros [L U]. split; [lia|].
    destruct (Qlt_le_dec x 0) as [N|P].
    + split.
      * destruct (Qlt_le_dec (-(1)) x) as [?|M]; [assumption|].
        pose proof (pyint_le_m1 x M). lia.
      * assert (0 < n - 1)%Z as Hn by lia. apply inject_Z_lt_iff in Hn.
        change (inject_Z 0) with 0 in Hn. lra.
    + split; [lra|]. destruct (pyint_nonneg x P) as [A B].
      assert (pyint x + 1 <= n - 1)%Z as Hn by lia. apply inject_Z_le_iff in Hn.
      rewrite inject_Z_plus in Hn. change (inject_Z 1) with 1 in Hn. lra.
  - intros (Hn & L & U).
    destruct (Qlt_le_dec x 0) as [N|P].
    + rewrite (pyint_neg_zero x L N). lia.
    + split; [apply pyint_sign_nonneg; assumption|].
      destruct (pyint_nonneg x P) as [A B].
      apply inject_Z_lt_iff. lra.
Qed.

(* ------------------------------------------------------------------ *)
(* specification vocabulary                                            *)
(* ------------------------------------------------------------------ *)
(* a 2-D array: every row has shape[1] entries *)
Definition rect (img : image) : Prop :=
  forall row, In row img -> Z.of_nat (length row) = shape1 img.
(* a plain ndarray: no masked pixel *)
Definition unmasked (img : image) : Prop :=
  forall row p, In row img -> In p row -> p <> None.
(* (i, j) is a pixel of the image *)
Definition inside (img : image) (j i : Z) : Prop :=
  (0 <= j < shape0 img)%Z /\ (0 <= i < shape1 img)%Z.

Lemma getpix_inside img j i :
  rect img -> unmasked img -> inside img j i -> exists v, getpix img j i = Some v.
Proof.
  intros R U [[Hj0 Hj1] [Hi0 Hi1]]. unfold getpix, shape0 in *.
  assert ((0 <=? j)%Z && (0 <=? i)%Z = true) as -> by (apply andb_true_iff; split; apply Z.leb_le; lia).
  destruct (nth_error img (Z.to_nat j)) as [row|] eqn:Er.
  - assert (In row img) as Hin by (eapply nth_error_In; eauto).
    destruct (nth_error row (Z.to_nat i)) as [p|] eqn:Ep.
    + destruct p as [v|]; [eauto|]. exfalso. eapply U; eauto. eapply nth_error_In; eauto.
    + exfalso. apply nth_error_None in Ep. specialize (R row Hin). lia.
  - exfalso. apply nth_error_None in Er. lia.
Qed.
Lemma getpix_some_inside img j i v :
  rect img -> getpix img j i = Some v -> inside img j i.
Proof.
  intros R. unfold getpix, inside, shape0.
  destruct ((0 <=? j)%Z && (0 <=? i)%Z) eqn:G; [|discriminate].
  apply andb_true_iff in G. destruct G as [Hj Hi]. apply Z.leb_le in Hj, Hi.
  destruct (nth_error img (Z.to_nat j)) as [row|] eqn:Er; [|discriminate].
  assert (In row img) as Hin by (eapply nth_error_In; eauto).
  destruct (nth_error row (Z.to_nat i)) as [p|] eqn:Ep; [|discriminate]. intros _.
  assert (nth_error img (Z.to_nat j) <> None) as A by congruence. apply nth_error_Some in A.
  assert (nth_error row (Z.to_nat i) <> None) as B by congruence. apply nth_error_Some in B.
  specialize (R row Hin). lia.
Qed.

(* ------------------------------------------------------------------ *)
(* (1) bilinear                                                        *)
(* ------------------------------------------------------------------ *)
Lemma bl_weights_sum fx fy :
  let '(w00, w10, w01, w11) := bl_weights fx fy in w00 + w10 + w01 + w11 == 1.
Proof. unfold bl_weights. ring. Qed.

Lemma bl_weights_nonneg fx fy :
  0 <= fx <= 1 -> 0 <= fy <= 1 ->
  let '(w00, w10, w01, w11) := bl_weights fx fy in
  0 <= w00 /\ 0 <= w10 /\ 0 <= w01 /\ 0 <= w11.
Proof. intros [? ?] [? ?]. unfold bl_weights. repeat split; nra. Qed.

(* what a successful bilinear read is made of *)
Lemma bilinear_xy_inv img x y v :
  bilinear_xy img x y = Some v ->
  let i := pyint x in
  let j := pyint y in
  let fx := x - inject_Z i in
  let fy := y - inject_Z j in
  i_range img i = true /\ j_range img j = true /\
  exists p00 p10 p01 p11,
    getpix img j i = Some p00 /\ getpix img (j + 1) i = Some p10 /\
    getpix img j (i + 1) = Some p01 /\ getpix img (j + 1) (i + 1) = Some p11 /\
    v = p00 * (1 - fx) * (1 - fy) + p10 * (1 - fx) * fy + p01 * fx * (1 - fy) + p11 * fy * fx.
Proof.
  unfold bilinear_xy. cbv zeta.
  destruct (i_range img (pyint x)) eqn:Ei; [|discriminate].
  destruct (j_range img (pyint y)) eqn:Ej; [|discriminate]. cbn [andb].
  destruct (getpix img (pyint y) (pyint x)) as [p00|]; [|discriminate].
  destruct (getpix img (pyint y + 1) (pyint x)) as [p10|]; [|discriminate].
  destruct (getpix img (pyint y) (pyint x + 1)) as [p01|]; [|discriminate].
  destruct (getpix img (pyint y + 1) (pyint x + 1)) as [p11|]; [|discriminate].
  intros [= <-]. repeat split. exists p00, p10, p01, p11. repeat split.
Qed.

(* sample = sum of weight * pixel with the weights of [bl_weights] *)
Lemma bilinear_is_weighted_sum img x y v :
  bilinear_xy img x y = Some v ->
  exists p00 p10 p01 p11,
    getpix img (pyint y) (pyint x) = Some p00 /\
    getpix img (pyint y + 1) (pyint x) = Some p10 /\
    getpix img (pyint y) (pyint x + 1) = Some p01 /\
    getpix img (pyint y + 1) (pyint x + 1) = Some p11 /\
    let '(w00, w10, w01, w11) :=
      bl_weights (x - inject_Z (pyint x)) (y - inject_Z (pyint y)) in
    v == w00 * p00 + w10 * p10 + w01 * p01 + w11 * p11.
Proof.
  intro H. apply bilinear_xy_inv in H. cbv zeta in H.
  destruct H as (_ & _ & p00 & p10 & p01 & p11 & A & B & C & D & ->).
  exists p00, p10, p01, p11. repeat split; try assumption. unfold bl_weights. ring.
Qed.

(* convex combination: for a point with non-negative coordinates the sample lies between the
   smallest and the largest of the four surrounding pixels *)
Lemma bilinear_convex img x y v lo hi :
  0 <= x -> 0 <= y ->
  bilinear_xy img x y = Some v ->
  (forall dj di p, (dj = 0 \/ dj = 1)%Z -> (di = 0 \/ di = 1)%Z ->
                   getpix img (pyint y + dj) (pyint x + di) = Some p -> lo <= p <= hi) ->
  lo <= v <= hi.
Proof.
  intros Hx Hy H Hb. apply bilinear_xy_inv in H. cbv zeta in H.
  destruct H as (_ & _ & p00 & p10 & p01 & p11 & A & B & C & D & ->).
  pose proof (frac_nonneg x Hx) as [Fx0 Fx1]. pose proof (frac_nonneg y Hy) as [Fy0 Fy1].
  set (fx := x - inject_Z (pyint x)) in *. set (fy := y - inject_Z (pyint y)) in *.
  assert (lo <= p00 <= hi) as [L00 U00].
  { apply (Hb 0%Z 0%Z); auto. rewrite !Z.add_0_r. exact A. }
  assert (lo <= p10 <= hi) as [L10 U10].
  { apply (Hb 1%Z 0%Z); auto. rewrite Z.add_0_r. exact B. }
  assert (lo <= p01 <= hi) as [L01 U01].
  { apply (Hb 0%Z 1%Z); auto. rewrite Z.add_0_r. exact C. }
  assert (lo <= p11 <= hi) as [L11 U11].
  { apply (Hb 1%Z 1%Z); auto. }
  assert (0 <= (1 - fx) * (1 - fy)) as W00 by nra.
  assert (0 <= (1 - fx) * fy) as W10 by nra.
  assert (0 <= fx * (1 - fy)) as W01 by nra.
  assert (0 <= fy * fx) as W11 by nra.
  split.
  - setoid_replace lo with (lo * ((1 - fx) * (1 - fy)) + lo * ((1 - fx) * fy)
                            + lo * (fx * (1 - fy)) + lo * (fy * fx)) by ring.
    setoid_replace (p00 * (1 - fx) * (1 - fy) + p10 * (1 - fx) * fy + p01 * fx * (1 - fy)
                    + p11 * fy * fx)
      with (p00 * ((1 - fx) * (1 - fy)) + p10 * ((1 - fx) * fy) + p01 * (fx * (1 - fy))
            + p11 * (fy * fx)) by ring.
    repeat apply Qplus_le_compat; apply Qmult_le_compat_r; assumption.
  - setoid_replace hi with (hi * ((1 - fx) * (1 - fy)) + hi * ((1 - fx) * fy)
                            + hi * (fx * (1 - fy)) + hi * (fy * fx)) by ring.
    setoid_replace (p00 * (1 - fx) * (1 - fy) + p10 * (1 - fx) * fy + p01 * fx * (1 - fy)
                    + p11 * fy * fx)
      with (p00 * ((1 - fx) * (1 - fy)) + p10 * ((1 - fx) * fy) + p01 * (fx * (1 - fy))
            + p11 * (fy * fx)) by ring.
    repeat apply Qplus_le_compat; apply Qmult_le_compat_r; assumption.
Qed.

(* every image of the form a + b*i + c*j + d*i*j (affine for d = 0) is reproduced exactly,
   wherever the sample is defined — also at the extrapolating points with -1 < x < 0 *)
Lemma bilinear_reproduces_bilinear img a b c d x y v :
  (forall j i p, getpix img j i = Some p ->
                 p == a + b * inject_Z i + c * inject_Z j + d * inject_Z i * inject_Z j) ->
  bilinear_xy img x y = Some v ->
  v == a + b * x + c * y + d * x * y.
Proof.
  intros Himg H. apply bilinear_xy_inv in H. cbv zeta in H.
  destruct H as (_ & _ & p00 & p10 & p01 & p11 & A & B & C & D & ->).
  apply Himg in A, B, C, D. rewrite A, B, C, D. rewrite !inject_Z_plus.
  change (inject_Z 1) with 1. ring.
Qed.
Lemma bilinear_reproduces_affine img a b c x y v :
  (forall j i p, getpix img j i = Some p -> p == a + b * inject_Z i + c * inject_Z j) ->
  bilinear_xy img x y = Some v ->
  v == a + b * x + c * y.
Proof.
  intros Himg H.
  rewrite (bilinear_reproduces_bilinear img a b c 0 x y v); [ring| |exact H].
  intros j i p Hp. rewrite (Himg j i p Hp). ring.
Qed.

(* exact at pixel centres *)
Lemma bilinear_exact_at_centre img i j v :
  bilinear_xy img (inject_Z i) (inject_Z j) = Some v ->
  exists p, getpix img j i = Some p /\ v == p.
Proof.
  intro H. apply bilinear_xy_inv in H. cbv zeta in H. rewrite !pyint_Z in H.
  destruct H as (_ & _ & p00 & p10 & p01 & p11 & A & B & C & D & ->).
  exists p00. split; [exact A|]. ring.
Qed.

(* when is the bilinear sample defined *)
Lemma i_range_iff img x :
  i_range img (pyint x) = true <->
  (2 <= shape1 img)%Z /\ -(1) < x /\ x < inject_Z (shape1 img - 1).
Proof. apply in_range_pyint. Qed.
Lemma j_range_iff img y :
  j_range img (pyint y) = true <->
  (2 <= shape0 img)%Z /\ -(1) < y /\ y < inject_Z (shape0 img - 1).
Proof. apply in_range_pyint. Qed.

(* the range test implies that the four pixels read are pixels of the image *)
Lemma range_cell_inside img i j :
  i_range img i = true -> j_range img j = true ->
  inside img j i /\ inside img (j + 1) i /\ inside img j (i + 1) /\ inside img (j + 1) (i + 1).
Proof.
  unfold i_range, j_range, in_range, inside. rewrite !andb_true_iff, !Z.leb_le, !Z.ltb_lt.
  intros [? ?] [? ?]. repeat split; lia.
Qed.

Lemma bilinear_defined_iff img x y :
  rect img -> unmasked img ->
  (bilinear_xy img x y <> None <->
   (2 <= shape1 img)%Z /\ (2 <= shape0 img)%Z /\
   -(1) < x /\ x < inject_Z (shape1 img - 1) /\ -(1) < y /\ y < inject_Z (shape0 img - 1)).
Proof.
  intros R U. split.
  - intro H. destruct (bilinear_xy img x y) as [v|] eqn:E; [|congruence].
    apply bilinear_xy_inv in E. cbv zeta in E. destruct E as (Ei & Ej & _).
    apply i_range_iff in Ei. apply j_range_iff in Ej. tauto.
  - intros (H1 & H0 & Hx1 & Hx2 & Hy1 & Hy2).
    assert (i_range img (pyint x) = true) as Ei by (apply i_range_iff; tauto).
    assert (j_range img (pyint y) = true) as Ej by (apply j_range_iff; tauto).
    destruct (range_cell_inside img _ _ Ei Ej) as (I00 & I10 & I01 & I11).
    destruct (getpix_inside img _ _ R U I00) as [p00 E00].
    destruct (getpix_inside img _ _ R U I10) as [p10 E10].
    destruct (getpix_inside img _ _ R U I01) as [p01 E01].
    destruct (getpix_inside img _ _ R U I11) as [p11 E11].
    unfold bilinear_xy. cbv zeta. rewrite Ei, Ej, E00, E10, E01, E11. cbn [andb]. discriminate.
Qed.

(* the last column / row: a point ON the last pixel column (x = shape[1]-1, inside the
   image) or beyond is never sampled, for either integrator *)
Lemma sample_beyond_last_column m img x y :
  inject_Z (shape1 img - 1) <= x -> sample_xy m img x y = None.
Proof.
  intro H. assert (i_range img (pyint x) = false) as E.
  { destruct (i_range img (pyint x)) eqn:E; [|reflexivity]. apply i_range_iff in E. lra. }
  destruct m; unfold sample_xy, nn_xy, bilinear_xy; cbv zeta; rewrite E; reflexivity.
Qed.
Lemma sample_beyond_last_row m img x y :
  inject_Z (shape0 img - 1) <= y -> sample_xy m img x y = None.
Proof.
  intro H. assert (j_range img (pyint y) = false) as E.
  { destruct (j_range img (pyint y)) eqn:E; [|reflexivity]. apply j_range_iff in E. lra. }
  destruct m; unfold sample_xy, nn_xy, bilinear_xy; cbv zeta; rewrite E, andb_false_r; reflexivity.
Qed.
Lemma sample_below_minus_one m img x y :
  x <= -(1) \/ y <= -(1) -> sample_xy m img x y = None.
Proof.
  intros [H|H].
  - assert (i_range img (pyint x) = false) as E.
    { destruct (i_range img (pyint x)) eqn:E; [|reflexivity]. apply i_range_iff in E. lra. }
    destruct m; unfold sample_xy, nn_xy, bilinear_xy; cbv zeta; rewrite E; reflexivity.
  - assert (j_range img (pyint y) = false) as E.
    { destruct (j_range img (pyint y)) eqn:E; [|reflexivity]. apply j_range_iff in E. lra. }
    destruct m; unfold sample_xy, nn_xy, bilinear_xy; cbv zeta; rewrite E, andb_false_r; reflexivity.
Qed.

(* a point with -1 < x < 0 passes the range test (int(x) = 0) with a NEGATIVE fraction: the
   weights leave [0, 1] and the sample leaves the range of the four pixels (extrapolation) *)
Definition ramp2 : image := [[Some 0; Some 1]; [Some 0; Some 1]].
Lemma bilinear_negative_fraction_witness :
  exists v, bilinear_xy ramp2 (-(1 # 2)) 0 = Some v /\ v == -(1 # 2) /\
            (forall j i p, getpix ramp2 j i = Some p -> 0 <= p <= 1).
Proof.
  eexists. split; [vm_compute; reflexivity|]. split; [reflexivity|].
  intros j i p. unfold getpix, ramp2.
  destruct ((0 <=? j)%Z && (0 <=? i)%Z); [|discriminate].
  destruct (Z.to_nat j) as [|[|[|n]]]; cbn [nth_error];
    destruct (Z.to_nat i) as [|[|[|k]]]; cbn [nth_error]; intros [= <-]; split; discriminate.
Qed.

(* ------------------------------------------------------------------ *)
(* (2) nearest neighbour (as coded)                                    *)
(* ------------------------------------------------------------------ *)
Lemma nn_xy_inv img x y v :
  nn_xy img x y = Some v ->
  i_range img (pyint x) = true /\ j_range img (pyint y) = true /\
  getpix img (pyint y) (pyint x) = Some v.
Proof.
  unfold nn_xy. cbv zeta.
  destruct (i_range img (pyint x)); [|discriminate].
  destruct (j_range img (pyint y)); [|discriminate]. cbn [andb]. auto.
Qed.

Lemma nn_defined_iff img x y :
  rect img -> unmasked img ->
  (nn_xy img x y <> None <->
   (2 <= shape1 img)%Z /\ (2 <= shape0 img)%Z /\
   -(1) < x /\ x < inject_Z (shape1 img - 1) /\ -(1) < y /\ y < inject_Z (shape0 img - 1)).
Proof.
  intros R U. split.
  - intro H. destruct (nn_xy img x y) as [v|] eqn:E; [|congruence].
    apply nn_xy_inv in E. destruct E as (Ei & Ej & _).
    apply i_range_iff in Ei. apply j_range_iff in Ej. tauto.
  - intros (H1 & H0 & Hx1 & Hx2 & Hy1 & Hy2).
    assert (i_range img (pyint x) = true) as Ei by (apply i_range_iff; tauto).
    assert (j_range img (pyint y) = true) as Ej by (apply j_range_iff; tauto).
    destruct (range_cell_inside img _ _ Ei Ej) as (I00 & _).
    destruct (getpix_inside img _ _ R U I00) as [p00 E00].
    unfold nn_xy. cbv zeta. rewrite Ei, Ej, E00. cbn [andb]. discriminate.
Qed.

(* the pixel read is NOT the nearest one when a fractional part exceeds 1/2:
   the centre of column int(x)+1 is strictly closer to x than the centre of column int(x) *)
Lemma nn_not_nearest_column x :
  0 <= x -> 1 # 2 < x - inject_Z (pyint x) ->
  Qabs' (x - inject_Z (pyint x + 1)) < Qabs' (x - inject_Z (pyint x)).
Proof.
  intros Hx Hf. destruct (frac_nonneg x Hx) as [F0 F1].
  rewrite inject_Z_plus. change (inject_Z 1) with 1.
  unfold Qabs'.
  destruct (Qle_bool 0 (x - (inject_Z (pyint x) + 1))) eqn:E1; [apply Qle_bool_iff in E1; lra|].
  destruct (Qle_bool 0 (x - inject_Z (pyint x))) eqn:E2; [|apply Qle_bool_false_iff in E2; lra].
  lra.
Qed.
(* and the index of the nearest centre (round half up) is int(x) + 1 there *)
Lemma round_half_up_above x :
  0 <= x -> 1 # 2 <= x - inject_Z (pyint x) -> round_half_up x = (pyint x + 1)%Z.
Proof.
  intros Hx Hf. destruct (frac_nonneg x Hx) as [F0 F1]. unfold round_half_up.
  pose proof (Qfloor_le (x + (1 # 2))) as A. pose proof (Qlt_floor (x + (1 # 2))) as B.
  rewrite inject_Z_plus in B. change (inject_Z 1) with 1 in B.
  assert (inject_Z (pyint x) < inject_Z (Qfloor (x + (1 # 2)))) as L1 by lra.
  assert (inject_Z (Qfloor (x + (1 # 2))) < inject_Z (pyint x + 2)) as L2.
  { rewrite inject_Z_plus. change (inject_Z 2) with 2. lra. }
  apply inject_Z_lt_iff in L1, L2. lia.
Qed.
Lemma round_half_up_below x :
  0 <= x -> x - inject_Z (pyint x) < 1 # 2 -> round_half_up x = pyint x.
Proof.
  intros Hx Hf. destruct (frac_nonneg x Hx) as [F0 F1]. unfold round_half_up.
  pose proof (Qfloor_le (x + (1 # 2))) as A. pose proof (Qlt_floor (x + (1 # 2))) as B.
  rewrite inject_Z_plus in B. change (inject_Z 1) with 1 in B.
  assert (inject_Z (pyint x - 1) < inject_Z (Qfloor (x + (1 # 2)))) as L1.
  { unfold Z.sub. rewrite inject_Z_plus. change (inject_Z (- (1))%Z) with (-(1)). lra. }
  assert (inject_Z (Qfloor (x + (1 # 2))) < inject_Z (pyint x + 1)) as L2.
  { rewrite inject_Z_plus. change (inject_Z 1) with 1. lra. }
  apply inject_Z_lt_iff in L1, L2. lia.
Qed.

(* the sample as coded against the sample at the nearest pixel *)
Lemma nn_reads_truncated_pixel img x y v :
  nn_xy img x y = Some v -> getpix img (pyint y) (pyint x) = Some v.
Proof. intro H. apply nn_xy_inv in H. tauto. Qed.
Lemma nn_nearest_differs img x y :
  0 <= x -> 0 <= y ->
  1 # 2 <= x - inject_Z (pyint x) -> 1 # 2 <= y - inject_Z (pyint y) ->
  nearest_pixel img x y = getpix img (pyint y + 1) (pyint x + 1).
Proof.
  intros. unfold nearest_pixel. rewrite !round_half_up_above by assumption. reflexivity.
Qed.
Lemma nn_agrees_below_half img x y v :
  0 <= x -> 0 <= y ->
  x - inject_Z (pyint x) < 1 # 2 -> y - inject_Z (pyint y) < 1 # 2 ->
  nn_xy img x y = Some v -> nearest_pixel img x y = Some v.
Proof.
  intros Hx Hy Fx Fy H. unfold nearest_pixel. rewrite !round_half_up_below by assumption.
  apply nn_reads_truncated_pixel. exact H.
Qed.
(* witness of the recorded finding *)
Definition diag3 : image :=
  [[Some 0; Some 1; Some 2]; [Some 10; Some 11; Some 12]; [Some 20; Some 21; Some 22]].
Lemma nn_refuted_witness :
  nn_xy diag3 (3 # 4) (3 # 4) = Some 0 /\ nearest_pixel diag3 (3 # 4) (3 # 4) = Some 11.
Proof. split; vm_compute; reflexivity. Qed.

(* ------------------------------------------------------------------ *)
(* the storage lists                                                   *)
(* ------------------------------------------------------------------ *)
Definition store_wf (st : store) : Prop :=
  length (s_angles st) = length (s_intens st) /\ length (s_radii st) = length (s_intens st).

Lemma store_results_wf st phi r v : store_wf st -> store_wf (store_results st phi r v).
Proof.
  intros [A B]. unfold store_wf, store_results. cbn [s_angles s_radii s_intens].
  rewrite !app_length. cbn [length]. lia.
Qed.

(* one integrate call: nothing happens, or exactly (phi, radius, sample) is appended *)
Lemma integrate_xy_cases m img st radius phi x y :
  (sample_xy m img x y = None /\ integrate_xy m img st radius phi x y = st) \/
  (exists v, sample_xy m img x y = Some v /\
             integrate_xy m img st radius phi x y = store_results st phi radius v).
Proof.
  unfold integrate_xy. destruct (sample_xy m img x y) as [v|]; [right; eauto|left; auto].
Qed.
Lemma integrate_xy_wf m img st radius phi x y :
  store_wf st -> store_wf (integrate_xy m img st radius phi x y).
Proof.
  intro W. destruct (integrate_xy_cases m img st radius phi x y) as [[_ ->]|(v & _ & ->)];
    [exact W|apply store_results_wf; exact W].
Qed.
Lemma integrate_out_of_range m img g st radius phi c s :
  sample_xy m img (fst (polar_xy g radius c s)) (snd (polar_xy g radius c s)) = None ->
  integrate m img g st radius phi c s = st.
Proof.
  unfold integrate. destruct (polar_xy g radius c s) as [x y]. cbn [fst snd].
  unfold integrate_xy. intros ->. reflexivity.
Qed.

Section Calls.
Variables cosf sinf : Q -> Q.
Variable m : mode.
Variable img : image.
Variable g : geom.

(* the sample of one (phi, radius) call *)
Definition call_sample (pr : Q * Q) : option Q :=
  sample_xy m img (fst (polar_xy g (snd pr) (cosf (fst pr)) (sinf (fst pr))))
                  (snd (polar_xy g (snd pr) (cosf (fst pr)) (sinf (fst pr)))).
(* the calls that produced a sample, with the sample *)
Fixpoint hits (calls : list (Q * Q)) : list (Q * Q * Q) :=
  match calls with
  | [] => []
  | pr :: rest => match call_sample pr with
                  | Some v => (fst pr, snd pr, v) :: hits rest
                  | None => hits rest
                  end
  end.

Lemma integrate_call st pr :
  integrate m img g st (snd pr) (fst pr) (cosf (fst pr)) (sinf (fst pr)) =
  match call_sample pr with
  | Some v => store_results st (fst pr) (snd pr) v
  | None => st
  end.
Proof.
  unfold integrate, call_sample.
  destruct (polar_xy g (snd pr) (cosf (fst pr)) (sinf (fst pr))) as [x y]. reflexivity.
Qed.

Lemma fold_calls_hits calls : forall st,
  let st' := fold_left (fun st pr => integrate m img g st (snd pr) (fst pr) (cosf (fst pr))
                                               (sinf (fst pr))) calls st in
  s_angles st' = s_angles st ++ map (fun t => fst (fst t)) (hits calls) /\
  s_radii st' = s_radii st ++ map (fun t => snd (fst t)) (hits calls) /\
  s_intens st' = s_intens st ++ map snd (hits calls).
Proof.
  induction calls as [|pr rest IH]; intro st; cbn [fold_left hits].
  - cbn [map]. rewrite !app_nil_r. auto.
  - rewrite integrate_call. destruct (call_sample pr) as [v|].
    + destruct (IH (store_results st (fst pr) (snd pr) v)) as (A & B & C).
      cbv zeta in *. rewrite A, B, C. unfold store_results. cbn [s_angles s_radii s_intens map fst snd].
      rewrite <- !app_assoc. auto.
    + apply IH.
Qed.

(* the three arrays after the walk: exactly the calls that produced a sample, in order, with
   the angle and radius that were passed to integrate *)
Lemma run_calls_hits calls :
  s_angles (run_calls cosf sinf m img g calls) = map (fun t => fst (fst t)) (hits calls) /\
  s_radii (run_calls cosf sinf m img g calls) = map (fun t => snd (fst t)) (hits calls) /\
  s_intens (run_calls cosf sinf m img g calls) = map snd (hits calls).
Proof. unfold run_calls. apply (fold_calls_hits calls empty_store). Qed.

Lemma run_calls_wf calls : store_wf (run_calls cosf sinf m img g calls).
Proof.
  destruct (run_calls_hits calls) as (A & B & C). unfold store_wf.
  rewrite A, B, C, !map_length. auto.
Qed.

Lemma hits_in calls t :
  In t (hits calls) ->
  In (fst t) calls /\ call_sample (fst t) = Some (snd t).
Proof.
  induction calls as [|pr rest IH]; cbn [hits]; [intros []|].
  destruct (call_sample pr) as [v|] eqn:E.
  - intros [<-|H].
    + cbn [fst snd]. split; [left; destruct pr; reflexivity|].
      destruct pr as [p r]. exact E.
    + destruct (IH H). split; [right|]; assumption.
  - intro H. destruct (IH H). split; [right|]; assumption.
Qed.
(* no sample is stored for an out-of-range call: every stored entry comes from a call whose
   position passed both range tests *)
Lemma hits_length_le calls : (length (hits calls) <= length calls)%nat.
Proof.
  induction calls as [|pr rest IH]; cbn [hits length]; [lia|].
  destruct (call_sample pr); cbn [length]; lia.
Qed.

(* the stored angles are a subsequence of the call angles: strictly increasing if those are *)
Lemma hits_angles_ge calls lo :
  (forall pr, In pr calls -> lo < fst pr) ->
  forall a, In a (map (fun t => fst (fst t)) (hits calls)) -> lo < a.
Proof.
  intros H a Ha. apply in_map_iff in Ha. destruct Ha as (t & <- & Ht).
  apply hits_in in Ht. destruct Ht as [Hin _]. destruct t as [[p r] v]. cbn [fst snd] in *.
  apply (H (p, r) Hin).
Qed.
Lemma hits_angles_sorted calls :
  StronglySorted Qlt (map fst calls) ->
  StronglySorted Qlt (map (fun t => fst (fst t)) (hits calls)).
Proof.
  induction calls as [|pr rest IH]; cbn [map hits]; intro S; [constructor|].
  inversion S as [|a l S' F]; subst.
  destruct (call_sample pr) as [v|]; [|apply IH; exact S'].
  cbn [map fst snd]. constructor; [apply IH; exact S'|].
  apply Forall_forall. intros a Ha.
  apply (hits_angles_ge rest (fst pr)); [|exact Ha].
  intros pr' Hin. rewrite Forall_forall in F. apply F. apply in_map. exact Hin.
Qed.

(* coordinates() recomputes, from the stored angle and radius, the position that was sampled *)
Lemma coordinates_hits calls :
  coordinates cosf sinf g (map (fun t => fst (fst t)) (hits calls))
                          (map (fun t => snd (fst t)) (hits calls)) =
  map (fun t => polar_xy g (snd (fst t)) (cosf (fst (fst t))) (sinf (fst (fst t)))) (hits calls).
Proof.
  induction (hits calls) as [|t l IH]; cbn [map coordinates]; [reflexivity|]. rewrite IH. reflexivity.
Qed.
End Calls.

(* ------------------------------------------------------------------ *)
(* (3a) initial polar angle                                            *)
(* ------------------------------------------------------------------ *)
Lemma bool_eq_iff (p q : bool) : (p = true <-> q = true) -> p = q.
Proof. destruct p, q; intuition congruence. Qed.
Lemma Qltb_comp a a' b b' : a == a' -> b == b' -> Qltb a b = Qltb a' b'.
Proof. intros Ha Hb. apply bool_eq_iff. rewrite !Qltb_iff, Ha, Hb. reflexivity. Qed.
Lemma Qle_bool_comp a a' b b' : a == a' -> b == b' -> Qle_bool a b = Qle_bool a' b'.
Proof. intros Ha Hb. apply bool_eq_iff. rewrite !Qle_bool_iff, Ha, Hb. reflexivity. Qed.
Lemma pymin_comp a a' b b' : a == a' -> b == b' -> pymin a b == pymin a' b'.
Proof.
  intros Ha Hb. unfold pymin. rewrite (Qltb_comp b b' a a' Hb Ha).
  destruct (Qltb b' a'); assumption.
Qed.
Lemma pymax_comp a a' b b' : a == a' -> b == b' -> pymax a b == pymax a' b'.
Proof.
  intros Ha Hb. unfold pymax. rewrite (Qltb_comp a a' b b' Ha Hb).
  destruct (Qltb a' b'); assumption.
Qed.
Lemma pymin_mono a a' b : a <= a' -> pymin a b <= pymin a' b.
Proof.
  intro H. apply pymin_glb.
  - pose proof (pymin_le_l a b). lra.
  - apply pymin_le_r.
Qed.
Lemma pymax_mono a a' b : a <= a' -> pymax a b <= pymax a' b.
Proof.
  intro H. apply pymax_lub.
  - pose proof (pymax_ge_l a' b). lra.
  - apply pymax_ge_r.
Qed.

Lemma sector_angular_width_bounds g : phi_min <= sector_angular_width g <= phi_max.
Proof.
  unfold sector_angular_width. split; [apply pymax_ge_r|].
  apply pymax_lub; [apply pymin_le_r|unfold phi_min, phi_max; lra].
Qed.
Lemma initial_polar_angle_bounds g : 1 # 40 <= initial_polar_angle g <= 1 # 10.
Proof.
  pose proof (sector_angular_width_bounds g) as [A B]. unfold initial_polar_angle, phi_min, phi_max in *.
  setoid_replace (sector_angular_width g / 2) with (sector_angular_width g * (1 # 2)) by field.
  split; lra.
Qed.

(* geometric growth: the angular width does not depend on sma (as long as sma*astep <= 3) *)
Lemma sector_angular_width_geometric g :
  g_lin g = false -> 0 < g_sma g -> g_sma g * g_astep g <= 3 ->
  sector_angular_width g == pymax (pymin (g_astep g) phi_max) phi_min.
Proof.
  intros Hl Hs H3. unfold sector_angular_width, inner_sma, bounding_ellipses. rewrite Hl.
  apply pymax_comp; [|reflexivity]. apply pymin_comp; [|reflexivity].
  set (d := g_sma g * (1 + g_astep g / 2) - g_sma g * (1 - g_astep g / 2)).
  assert (d == g_sma g * g_astep g) as Hd by (unfold d; field).
  destruct (pymin_spec d 3) as [[L ->]|[L ->]]; [lra|]. rewrite Hd. field. lra.
Qed.
(* linear growth: it is clamp(min(astep, 3) / sma) and so shrinks as sma grows *)
Lemma sector_angular_width_linear g :
  g_lin g = true ->
  sector_angular_width g == pymax (pymin (pymin (g_astep g) 3 / g_sma g) phi_max) phi_min.
Proof.
  intros Hl. unfold sector_angular_width, inner_sma, bounding_ellipses. rewrite Hl.
  apply pymax_comp; [|reflexivity]. apply pymin_comp; [|reflexivity].
  assert (pymin (g_sma g + g_astep g / 2 - (g_sma g - g_astep g / 2)) 3 == pymin (g_astep g) 3) as E.
  { apply pymin_comp; [field|reflexivity]. }
  rewrite E. reflexivity.
Qed.
Lemma sector_angular_width_linear_antitone x0 y0 eps astep sma sma' :
  0 <= astep -> 0 < sma -> sma <= sma' ->
  sector_angular_width (mkGeom x0 y0 sma' eps astep true)
  <= sector_angular_width (mkGeom x0 y0 sma eps astep true).
Proof.
  intros Ha Hs Hss. rewrite !sector_angular_width_linear by reflexivity. cbn [g_astep g_sma].
  apply pymax_mono, pymin_mono.
  assert (0 <= pymin astep 3) as Hp by (apply pymin_glb; lra).
  set (p := pymin astep 3) in *.
  apply Qle_shift_div_l; [lra|].
  setoid_replace (p / sma' * sma) with (p * (sma / sma')) by (field; lra).
  assert (sma / sma' <= 1) as H1 by (apply Qle_shift_div_r; lra).
  assert (0 <= sma / sma') as H0 by (apply Qle_shift_div_l; lra).
  nra.
Qed.

(* ------------------------------------------------------------------ *)
(* (3b) the walk                                                       *)
(* ------------------------------------------------------------------ *)
Lemma phi_step_le_half r : phi_step r <= 1 # 2.
Proof. apply pymin_le_r. Qed.
Lemma phi_step_pos r : 0 < r -> 0 < phi_step r.
Proof.
  intro H. unfold phi_step. assert (0 < 1 / r) as P by (apply Qlt_shift_div_l; lra).
  destruct (pymin_spec (1 / r) (1 # 2)) as [[_ ->]|[_ ->]]; lra.
Qed.
Lemma phi_step_ge r R : 0 < r -> r <= R -> pymin (1 / R) (1 # 2) <= phi_step r.
Proof.
  intros H0 H1. unfold phi_step. apply pymin_mono.
  apply Qle_shift_div_l; [lra|].
  setoid_replace (1 / R * r) with (r / R) by (field; lra).
  apply Qle_shift_div_r; lra.
Qed.

Section WalkProofs.
Variable rad : Q -> Q.
Variable stop : Q.
Variable R : Q.
Hypothesis rad_pos : forall phi, 0 < rad phi.
Hypothesis rad_le : forall phi, rad phi <= R.
Let mstep := pymin (1 / R) (1 # 2).

Lemma R_pos : 0 < R.
Proof. pose proof (rad_pos 0). pose proof (rad_le 0). lra. Qed.
Lemma mstep_pos : 0 < mstep.
Proof.
  pose proof R_pos. unfold mstep. assert (0 < 1 / R) by (apply Qlt_shift_div_l; lra).
  destruct (pymin_spec (1 / R) (1 # 2)) as [[_ ->]|[_ ->]]; lra.
Qed.

(* every angle handed to the integrator is at most 2*pi + phi_min *)
Lemma walk_le_stop fuel : forall phi r pr, In pr (walk rad stop fuel phi r) -> fst pr <= stop.
Proof.
  induction fuel as [|f IH]; intros phi r pr; cbn [walk]; [intros []|].
  destruct (Qle_bool phi stop) eqn:E; [|intros []].
  intros [<-|H]; [apply Qle_bool_iff in E; exact E|eapply IH; eauto].
Qed.
Lemma walk_ge_start fuel : forall phi r pr, 0 < r -> In pr (walk rad stop fuel phi r) -> phi <= fst pr.
Proof.
  induction fuel as [|f IH]; intros phi r pr Hr; cbn [walk]; [intros []|].
  destruct (Qle_bool phi stop); [|intros []].
  intros [<-|H]; [cbn [fst]; lra|].
  apply IH in H; [|apply rad_pos]. pose proof (phi_step_pos r Hr). lra.
Qed.
(* the radius of every call after the first is geometry.radius of its angle *)
Lemma walk_radius fuel : forall phi r pr,
  In pr (walk rad stop fuel phi r) -> pr = (phi, r) \/ snd pr = rad (fst pr).
Proof.
  induction fuel as [|f IH]; intros phi r pr; cbn [walk]; [intros []|].
  destruct (Qle_bool phi stop); [|intros []].
  intros [<-|H]; [left; reflexivity|]. right.
  destruct (IH _ _ _ H) as [->|E]; [reflexivity|exact E].
Qed.
(* strictly increasing angles *)
Lemma walk_sorted fuel : forall phi r, 0 < r ->
  StronglySorted Qlt (map fst (walk rad stop fuel phi r)).
Proof.
  induction fuel as [|f IH]; intros phi r Hr; cbn [walk]; [constructor|].
  destruct (Qle_bool phi stop); [|constructor]. cbn [map fst].
  constructor; [apply IH, rad_pos|].
  apply Forall_forall. intros a Ha. apply in_map_iff in Ha. destruct Ha as (pr & <- & Hin).
  apply walk_ge_start in Hin; [|apply rad_pos]. pose proof (phi_step_pos r Hr). lra.
Qed.
(* consecutive calls: phi' = phi + min(1/radius, 1/2), radius' = geometry.radius(phi') *)
Lemma walk_consecutive fuel : forall phi r l1 p1 r1 p2 r2 l2,
  walk rad stop fuel phi r = l1 ++ (p1, r1) :: (p2, r2) :: l2 ->
  p2 = p1 + phi_step r1 /\ r2 = rad p2.
Proof.
  induction fuel as [|f IH]; intros phi r l1 p1 r1 p2 r2 l2; cbn [walk].
  - destruct l1; discriminate.
  - destruct (Qle_bool phi stop); [|destruct l1; discriminate].
    destruct l1 as [|x l1]; cbn [app].
    + intros [= <- <- H]. destruct f as [|f']; cbn [walk] in H; [discriminate|].
      destruct (Qle_bool (phi + phi_step r) stop); [|discriminate].
      injection H as <- <- _. auto.
    + intros [= _ H]. eapply IH; eauto.
Qed.

(* bounded count: (n - 1) * min(1/R, 1/2) <= stop - phi0 *)
Lemma walk_length_le fuel : forall phi r, 0 < r -> r <= R -> phi <= stop ->
  inject_Z (Z.of_nat (length (walk rad stop fuel phi r))) * mstep <= stop - phi + mstep.
Proof.
  pose proof mstep_pos as MP.
  induction fuel as [|f IH]; intros phi r Hr HR Hphi; cbn [walk].
  - cbn [length Z.of_nat]. change (inject_Z 0) with 0. lra.
  - assert (Qle_bool phi stop = true) as E by (apply Qle_bool_iff; exact Hphi). rewrite E.
    cbn [length]. rewrite Nat2Z.inj_succ. unfold Z.succ. rewrite inject_Z_plus.
    change (inject_Z 1) with 1.
    pose proof (phi_step_ge r R Hr HR) as SG. fold mstep in SG.
    set (phi' := phi + phi_step r) in *.
    destruct (Qlt_le_dec stop phi') as [Hgt|Hle].
    + assert (walk rad stop f phi' (rad phi') = []) as ->.
      { destruct f; cbn [walk]; [reflexivity|].
        assert (Qle_bool phi' stop = false) as -> by (apply Qle_bool_false_iff; exact Hgt).
        reflexivity. }
      cbn [length Z.of_nat]. change (inject_Z 0) with 0. lra.
    + specialize (IH phi' (rad phi') (rad_pos phi') (rad_le phi') Hle). unfold phi' in *. lra.
Qed.

(* the real loop has no fuel: this much fuel is never exhausted *)
Lemma walk_fuel_enough fuel : forall phi r fuel', 0 < r -> r <= R ->
  stop - phi + mstep < inject_Z (Z.of_nat fuel) * mstep -> (fuel <= fuel')%nat ->
  walk rad stop fuel' phi r = walk rad stop fuel phi r.
Proof.
  pose proof mstep_pos as MP.
  induction fuel as [|f IH]; intros phi r fuel' Hr HR Hf Hle.
  - cbn [Z.of_nat] in Hf. change (inject_Z 0) with 0 in Hf.
    destruct fuel'; cbn [walk]; [reflexivity|].
    assert (Qle_bool phi stop = false) as -> by (apply Qle_bool_false_iff; lra). reflexivity.
  - destruct fuel' as [|f']; [lia|]. cbn [walk].
    destruct (Qle_bool phi stop); [|reflexivity]. f_equal.
    apply IH; [apply rad_pos|apply rad_le| |lia].
    rewrite Nat2Z.inj_succ in Hf. unfold Z.succ in Hf. rewrite inject_Z_plus in Hf.
    change (inject_Z 1) with 1 in Hf.
    pose proof (phi_step_ge r R Hr HR) as SG. fold mstep in SG. lra.
Qed.

(* with enough fuel the walk goes beyond the full circle: n/2 > stop - phi0, and the angle
   after the last call exceeds stop *)
Lemma walk_length_ge fuel : forall phi r, 0 < r -> r <= R -> phi <= stop ->
  stop - phi + mstep < inject_Z (Z.of_nat fuel) * mstep ->
  stop - phi < inject_Z (Z.of_nat (length (walk rad stop fuel phi r))) * (1 # 2).
Proof.
  pose proof mstep_pos as MP.
  induction fuel as [|f IH]; intros phi r Hr HR Hphi Hf.
  - cbn [Z.of_nat] in Hf. change (inject_Z 0) with 0 in Hf. lra.
  - cbn [walk]. assert (Qle_bool phi stop = true) as E by (apply Qle_bool_iff; exact Hphi).
    rewrite E. cbn [length]. rewrite Nat2Z.inj_succ. unfold Z.succ. rewrite inject_Z_plus.
    change (inject_Z 1) with 1.
    rewrite Nat2Z.inj_succ in Hf. unfold Z.succ in Hf. rewrite inject_Z_plus in Hf.
    change (inject_Z 1) with 1 in Hf.
    pose proof (phi_step_ge r R Hr HR) as SG. fold mstep in SG.
    pose proof (phi_step_le_half r) as SH.
    set (phi' := phi + phi_step r) in *.
    destruct (Qlt_le_dec stop phi') as [Hgt|Hle].
    + assert (0 <= inject_Z (Z.of_nat (length (walk rad stop f phi' (rad phi'))))) as P.
      { change 0 with (inject_Z 0). rewrite <- Zle_Qle. lia. }
      unfold phi' in *. lra.
    + assert (stop - phi' + mstep < inject_Z (Z.of_nat f) * mstep) as Hf' by (unfold phi'; lra).
      specialize (IH phi' (rad phi') (rad_pos phi') (rad_le phi') Hle Hf'). unfold phi' in *. lra.
Qed.
Lemma walk_covers fuel : forall phi r, 0 < r -> r <= R -> phi <= stop ->
  stop - phi + mstep < inject_Z (Z.of_nat fuel) * mstep ->
  exists l p rl, walk rad stop fuel phi r = l ++ [(p, rl)] /\ stop < p + phi_step rl.
Proof.
  pose proof mstep_pos as MP.
  induction fuel as [|f IH]; intros phi r Hr HR Hphi Hf.
  - cbn [Z.of_nat] in Hf. change (inject_Z 0) with 0 in Hf. lra.
  - cbn [walk]. assert (Qle_bool phi stop = true) as E by (apply Qle_bool_iff; exact Hphi).
    rewrite E.
    rewrite Nat2Z.inj_succ in Hf. unfold Z.succ in Hf. rewrite inject_Z_plus in Hf.
    change (inject_Z 1) with 1 in Hf.
    pose proof (phi_step_ge r R Hr HR) as SG. fold mstep in SG.
    set (phi' := phi + phi_step r) in *.
    destruct (Qlt_le_dec stop phi') as [Hgt|Hle].
    + assert (walk rad stop f phi' (rad phi') = []) as ->.
      { destruct f; cbn [walk]; [reflexivity|].
        assert (Qle_bool phi' stop = false) as -> by (apply Qle_bool_false_iff; exact Hgt).
        reflexivity. }
      exists [], phi, r. split; [reflexivity|exact Hgt].
    + assert (stop - phi' + mstep < inject_Z (Z.of_nat f) * mstep) as Hf' by (unfold phi'; lra).
      destruct (IH phi' (rad phi') (rad_pos phi') (rad_le phi') Hle Hf') as (l & p & rl & -> & Hc).
      exists ((phi, r) :: l), p, rl. split; [reflexivity|exact Hc].
Qed.
End WalkProofs.

(* the circle (eps = 0): radius = sma for every angle; the angles are phi0 + k*step and the
   count is floor((stop - phi0)/step) + 1 *)
Lemma walk_const_nth r0 stop fuel : forall phi k pr,
  nth_error (walk (fun _ => r0) stop fuel phi r0) k = Some pr ->
  fst pr == phi + inject_Z (Z.of_nat k) * phi_step r0 /\ snd pr = r0.
Proof.
  induction fuel as [|f IH]; intros phi k pr; cbn [walk]; [destruct k; discriminate|].
  destruct (Qle_bool phi stop); [|destruct k; discriminate].
  destruct k as [|k]; cbn [nth_error].
  - intros [= <-]. cbn [fst snd Z.of_nat]. change (inject_Z 0) with 0. split; [ring|reflexivity].
  - intro H. apply IH in H. destruct H as [H1 H2]. split; [|exact H2].
    rewrite H1, Nat2Z.inj_succ. unfold Z.succ. rewrite inject_Z_plus. change (inject_Z 1) with 1. ring.
Qed.

Lemma Qfloor_unique q z : inject_Z z <= q -> q < inject_Z z + 1 -> Qfloor q = z.
Proof.
  intros A B. pose proof (Qfloor_le q) as C. pose proof (Qlt_floor q) as D.
  rewrite inject_Z_plus in D. change (inject_Z 1) with 1 in D.
  assert (inject_Z (Qfloor q) < inject_Z (z + 1)) as L1.
  { rewrite inject_Z_plus. change (inject_Z 1) with 1. lra. }
  assert (inject_Z z < inject_Z (Qfloor q + 1)) as L2.
  { rewrite inject_Z_plus. change (inject_Z 1) with 1. lra. }
  apply inject_Z_lt_iff in L1, L2. lia.
Qed.

Lemma walk_const_count r0 stop fuel phi :
  0 < r0 -> phi <= stop ->
  stop - phi + phi_step r0 < inject_Z (Z.of_nat fuel) * phi_step r0 ->
  Z.of_nat (length (walk (fun _ => r0) stop fuel phi r0)) =
  (Qfloor ((stop - phi) / phi_step r0) + 1)%Z.
Proof.
  intros Hr Hphi Hf. pose proof (phi_step_pos r0 Hr) as SP.
  assert (pymin (1 / r0) (1 # 2) = phi_step r0) as Em by reflexivity.
  assert (forall p : Q, 0 < (fun _ : Q => r0) p) as RP by (intros; exact Hr).
  assert (forall p : Q, (fun _ : Q => r0) p <= r0) as RL by (intros; lra).
  destruct (walk_covers (fun _ => r0) stop r0 RP RL fuel phi r0 Hr (Qle_refl _) Hphi)
    as (l & p & rl & E & Hc); [rewrite Em; exact Hf|].
  set (n := length l).
  assert (nth_error (walk (fun _ => r0) stop fuel phi r0) n = Some (p, rl)) as Hn.
  { rewrite E. unfold n. rewrite nth_error_app2 by lia. rewrite Nat.sub_diag. reflexivity. }
  apply walk_const_nth in Hn. cbn [fst snd] in Hn. destruct Hn as [Hp ->].
  assert (p <= stop) as Hps.
  { apply (walk_le_stop (fun _ => r0) stop fuel phi r0 (p, r0)). rewrite E.
    apply in_or_app. right. left. reflexivity. }
  rewrite E, app_length. cbn [length]. fold n.
  assert (Qfloor ((stop - phi) / phi_step r0) = Z.of_nat n) as ->; [|lia].
  apply Qfloor_unique.
  - apply Qle_shift_div_l; [exact SP|]. lra.
  - apply Qlt_shift_div_r; [exact SP|]. lra.
Qed.

(* ------------------------------------------------------------------ *)
(* (3c) sigma clipping                                                 *)
(* ------------------------------------------------------------------ *)
Lemma sumQ_cons x l : sumQ (x :: l) == x + sumQ l.
Proof. unfold sumQ. cbn [fold_right]. apply Qred_correct. Qed.
Lemma ssd_cons m x l : ssd m (x :: l) == (x - m) * (x - m) + ssd m l.
Proof. unfold ssd. cbn [fold_right]. apply Qred_correct. Qed.
Lemma meanQ_eq l : meanQ l == sumQ l / lenQ l.
Proof. apply Qred_correct. Qed.
Lemma varQ_eq l : varQ l == ssd (meanQ l) l / lenQ l.
Proof. apply Qred_correct. Qed.
Lemma lenQ_cons (x : Q) l : lenQ (x :: l) == 1 + lenQ l.
Proof.
  unfold lenQ. cbn [length]. rewrite Nat2Z.inj_succ. unfold Z.succ.
  rewrite inject_Z_plus. ring.
Qed.
Lemma lenQ_nonneg (l : list Q) : 0 <= lenQ l.
Proof. unfold lenQ. change 0 with (inject_Z 0). rewrite <- Zle_Qle. lia. Qed.
Lemma lenQ_pos (l : list Q) : l <> [] -> 0 < lenQ l.
Proof.
  destruct l as [|x l]; [congruence|]. intros _. rewrite lenQ_cons.
  pose proof (lenQ_nonneg l). lra.
Qed.
Lemma ssd_nonneg m l : 0 <= ssd m l.
Proof.
  induction l as [|x l IH]; [unfold ssd; cbn; lra|]. rewrite ssd_cons.
  assert (H : 0 <= (x - m) * (x - m)) by (generalize (x - m); intros t; nra). lra.
Qed.
Lemma varQ_nonneg l : 0 <= varQ l.
Proof.
  rewrite varQ_eq. destruct l as [|x l].
  - unfold ssd, lenQ. cbn. unfold Qdiv, Qinv. cbn. lra.
  - pose proof (ssd_nonneg (meanQ (x :: l)) (x :: l)) as H.
    pose proof (lenQ_pos (x :: l) ltac:(discriminate)) as Hn.
    apply Qle_shift_div_l; [exact Hn|]. lra.
Qed.
Lemma varQ_len l : l <> [] -> lenQ l * varQ l == ssd (meanQ l) l.
Proof. intros Hn. rewrite varQ_eq. pose proof (lenQ_pos l Hn). field. lra. Qed.
Lemma sumQ_len_mean l : l <> [] -> sumQ l == lenQ l * meanQ l.
Proof. intros Hn. rewrite meanQ_eq. pose proof (lenQ_pos l Hn). field. lra. Qed.

(* affine maps *)
Lemma sumQ_map a b l : sumQ (map (fun v => a * v + b) l) == a * sumQ l + b * lenQ l.
Proof.
  induction l as [|x l IH]; cbn [map].
  - unfold sumQ, lenQ. cbn. ring.
  - rewrite !sumQ_cons, lenQ_cons, IH. ring.
Qed.
Lemma lenQ_map (f : Q -> Q) l : lenQ (map f l) = lenQ l.
Proof. unfold lenQ. rewrite map_length. reflexivity. Qed.
Lemma meanQ_map a b l : l <> [] -> meanQ (map (fun v => a * v + b) l) == a * meanQ l + b.
Proof.
  intro Hn. rewrite !meanQ_eq, sumQ_map, lenQ_map. pose proof (lenQ_pos l Hn). field. lra.
Qed.
Lemma ssd_map a b m m' l :
  m' == a * m + b -> ssd m' (map (fun v => a * v + b) l) == a * a * ssd m l.
Proof.
  intro Hm. induction l as [|x l IH]; cbn [map].
  - unfold ssd. cbn. ring.
  - rewrite !ssd_cons, IH, Hm. ring.
Qed.
Lemma varQ_map a b l : l <> [] -> varQ (map (fun v => a * v + b) l) == a * a * varQ l.
Proof.
  intro Hn. rewrite !varQ_eq, (ssd_map a b (meanQ l)), lenQ_map by (apply meanQ_map; exact Hn).
  pose proof (lenQ_pos l Hn). field. lra.
Qed.

(* constant lists *)
Definition allq (c : Q) (l : list Q) : Prop := forall v, In v l -> v == c.
Lemma sumQ_const c l : allq c l -> sumQ l == c * lenQ l.
Proof.
  induction l as [|x l IH]; intros H.
  - unfold sumQ, lenQ. cbn. ring.
  - rewrite sumQ_cons, lenQ_cons, IH, (H x (or_introl eq_refl)); [ring|].
    intros y Hy. apply H. now right.
Qed.
Lemma meanQ_const c l : l <> [] -> allq c l -> meanQ l == c.
Proof.
  intros Hn H. rewrite meanQ_eq, (sumQ_const c l H). pose proof (lenQ_pos l Hn). field. lra.
Qed.
Lemma ssd_const m c l : m == c -> allq c l -> ssd m l == 0.
Proof.
  intros Hm. induction l as [|x l IH]; intros H.
  - unfold ssd. cbn. ring.
  - rewrite ssd_cons, IH, (H x (or_introl eq_refl)), Hm; [ring|].
    intros y Hy. apply H. now right.
Qed.
Lemma varQ_const c l : l <> [] -> allq c l -> varQ l == 0.
Proof.
  intros Hn H. rewrite varQ_eq, (ssd_const _ c l (meanQ_const c l Hn H) H).
  pose proof (lenQ_pos l Hn). field. lra.
Qed.

(* the comparisons with sclip * std on squares *)
Lemma gt_sqrt_spec x s v2 r :
  0 <= r -> r * r == v2 -> (gt_sqrt x s v2 = true <-> s * r < x).
Proof.
  intros Hr Hv. unfold gt_sqrt. destruct (Qle_bool 0 s) eqn:Es.
  - apply Qle_bool_iff in Es. rewrite andb_true_iff, !Qltb_iff, <- Hv. split.
    + intros [Hx Hsq]. destruct (Qlt_le_dec (s * r) x) as [|Hle]; [assumption|]. exfalso.
      assert (x * x <= (s * r) * (s * r)) by nra. nra.
    + intros H. assert (0 <= s * r) by nra. split; [lra|nra].
  - apply Qle_bool_false_iff in Es. rewrite orb_true_iff, !Qltb_iff, <- Hv. split.
    + intros [Hx|Hsq]; [nra|].
      destruct (Qlt_le_dec (s * r) x) as [|Hle]; [assumption|]. exfalso.
      assert (s * r <= 0) by nra.
      assert ((s * r) * (s * r) <= x * x) by nra. nra.
    + intros H. destruct (Qlt_le_dec 0 x) as [|Hle]; [now left|right].
      assert (s * r <= 0) by nra. nra.
Qed.
Lemma ge_sqrt_spec x s v2 r :
  0 <= r -> r * r == v2 -> (ge_sqrt x s v2 = true <-> s * r <= x).
Proof.
  intros Hr Hv. unfold ge_sqrt. destruct (Qle_bool 0 s) eqn:Es.
  - apply Qle_bool_iff in Es. rewrite andb_true_iff, !Qle_bool_iff, <- Hv. split.
    + intros [Hx Hsq]. destruct (Qlt_le_dec x (s * r)) as [Hlt|]; [|assumption]. exfalso.
      assert (0 <= s * r) by nra.
      assert (x * x < (s * r) * (s * r)) by nra. nra.
    + intros H. assert (0 <= s * r) by nra. split; [lra|nra].
  - apply Qle_bool_false_iff in Es. rewrite orb_true_iff, !Qle_bool_iff, <- Hv. split.
    + intros [Hx|Hsq]; [nra|].
      destruct (Qlt_le_dec x (s * r)) as [Hlt|]; [|assumption]. exfalso.
      assert (s * r <= 0) by nra.
      assert ((s * r) * (s * r) < x * x) by nra. nra.
    + intros H. destruct (Qlt_le_dec x 0) as [Hlt|]; [right|now left].
      assert (s * r <= 0) by nra. nra.
Qed.
(* the test of _iter_sigma_clip, whenever np.std is rational *)
Lemma clip_keep_spec sclip m v2 v r :
  0 <= r -> r * r == v2 ->
  (clip_keep sclip m v2 v = true <-> m - sclip * r <= v /\ v < m + sclip * r).
Proof.
  intros Hr Hv. unfold clip_keep. rewrite andb_true_iff, !negb_true_iff.
  pose proof (gt_sqrt_spec (m - v) sclip v2 r Hr Hv) as G.
  pose proof (ge_sqrt_spec (v - m) sclip v2 r Hr Hv) as E.
  split.
  - intros [A B]. split.
    + destruct (Qlt_le_dec v (m - sclip * r)) as [L|]; [|assumption].
      assert (gt_sqrt (m - v) sclip v2 = true) by (apply G; lra). congruence.
    + destruct (Qlt_le_dec v (m + sclip * r)) as [|L]; [assumption|].
      assert (ge_sqrt (v - m) sclip v2 = true) by (apply E; lra). congruence.
  - intros [A B]. split.
    + apply not_true_is_false. intro X. apply G in X. lra.
    + apply not_true_is_false. intro X. apply E in X. lra.
Qed.

Lemma gt_sqrt_scale a x x' s v2 v2' :
  0 < a -> x' == a * x -> v2' == a * a * v2 -> gt_sqrt x' s v2' = gt_sqrt x s v2.
Proof.
  intros Ha Hx Hv. unfold gt_sqrt.
  assert (Hpos : Qltb 0 x' = Qltb 0 x).
  { apply bool_eq_iff. rewrite !Qltb_iff, Hx. split; intros H; nra. }
  assert (Haa : 0 < a * a) by nra.
  assert (H1 : Qltb (s * s * v2') (x' * x') = Qltb (s * s * v2) (x * x)).
  { apply bool_eq_iff. rewrite !Qltb_iff, Hx, Hv.
    setoid_replace (s * s * (a * a * v2)) with (a * a * (s * s * v2)) by ring.
    setoid_replace (a * x * (a * x)) with (a * a * (x * x)) by ring.
    exact (Qmult_lt_l _ _ _ Haa). }
  assert (H2 : Qltb (x' * x') (s * s * v2') = Qltb (x * x) (s * s * v2)).
  { apply bool_eq_iff. rewrite !Qltb_iff, Hx, Hv.
    setoid_replace (s * s * (a * a * v2)) with (a * a * (s * s * v2)) by ring.
    setoid_replace (a * x * (a * x)) with (a * a * (x * x)) by ring.
    exact (Qmult_lt_l _ _ _ Haa). }
  rewrite Hpos, H1, H2. reflexivity.
Qed.
Lemma ge_sqrt_scale a x x' s v2 v2' :
  0 < a -> x' == a * x -> v2' == a * a * v2 -> ge_sqrt x' s v2' = ge_sqrt x s v2.
Proof.
  intros Ha Hx Hv. unfold ge_sqrt.
  assert (Hpos : Qle_bool 0 x' = Qle_bool 0 x).
  { apply bool_eq_iff. rewrite !Qle_bool_iff, Hx. split; intros H; nra. }
  assert (Haa : 0 < a * a) by nra.
  assert (H1 : Qle_bool (s * s * v2') (x' * x') = Qle_bool (s * s * v2) (x * x)).
  { apply bool_eq_iff. rewrite !Qle_bool_iff, Hx, Hv.
    setoid_replace (s * s * (a * a * v2)) with (a * a * (s * s * v2)) by ring.
    setoid_replace (a * x * (a * x)) with (a * a * (x * x)) by ring.
    exact (Qmult_le_l _ _ _ Haa). }
  assert (H2 : Qle_bool (x' * x') (s * s * v2') = Qle_bool (x * x) (s * s * v2)).
  { apply bool_eq_iff. rewrite !Qle_bool_iff, Hx, Hv.
    setoid_replace (s * s * (a * a * v2)) with (a * a * (s * s * v2)) by ring.
    setoid_replace (a * x * (a * x)) with (a * a * (x * x)) by ring.
    exact (Qmult_le_l _ _ _ Haa). }
  rewrite Hpos, H1, H2. reflexivity.
Qed.
Lemma clip_keep_scale a b sclip m m' v2 v2' v :
  0 < a -> m' == a * m + b -> v2' == a * a * v2 ->
  clip_keep sclip m' v2' (a * v + b) = clip_keep sclip m v2 v.
Proof.
  intros Ha Hm Hv. unfold clip_keep.
  rewrite (gt_sqrt_scale a (m - v) (m' - (a * v + b)) sclip v2 v2' Ha) by (try assumption; rewrite Hm; ring).
  rewrite (ge_sqrt_scale a (v - m) (a * v + b - m') sclip v2 v2' Ha) by (try assumption; rewrite Hm; ring).
  reflexivity.
Qed.
Lemma clip_keep_comp sclip m m' v2 v2' v v' :
  m == m' -> v2 == v2' -> v == v' -> clip_keep sclip m v2 v = clip_keep sclip m' v2' v'.
Proof.
  intros Hm Hv2 Hv. unfold clip_keep.
  rewrite (gt_sqrt_scale 1 (m' - v') (m - v) sclip v2' v2) by (try lra; try (rewrite Hm, Hv; ring); rewrite Hv2; ring).
  rewrite (ge_sqrt_scale 1 (v' - m') (v - m) sclip v2' v2) by (try lra; try (rewrite Hm, Hv; ring); rewrite Hv2; ring).
  reflexivity.
Qed.

(* std = 0: lower = upper = mean, and  mean <= v < mean  is false: the value is REMOVED *)
Lemma clip_keep_zero_var sclip m v : v == m -> clip_keep sclip m 0 v = false.
Proof.
  intro Hv. rewrite (clip_keep_comp sclip m m 0 0 v m) by (try reflexivity; exact Hv).
  unfold clip_keep. apply andb_false_iff. right. apply negb_false_iff.
  unfold ge_sqrt. destruct (Qle_bool 0 sclip).
  - apply andb_true_iff. split; apply Qle_bool_iff; ring_simplify; lra.
  - apply orb_true_iff. left. apply Qle_bool_iff. ring_simplify. lra.
Qed.

(* clip_filter on lists of equal length *)
Lemma clip_filter_spec keep : forall a r v,
  length a = length v -> length r = length v ->
  let st := clip_filter keep a r v in
  s_intens st = filter keep v /\
  s_angles st = map fst (filter (fun p => keep (snd p)) (combine a v)) /\
  s_radii st = map fst (filter (fun p => keep (snd p)) (combine r v)).
Proof.
  induction a as [|ak a IH]; intros r v Ha Hr; cbv zeta.
  - destruct v; [|discriminate]. destruct r; [|discriminate]. cbn. auto.
  - destruct v as [|vk v]; [discriminate|]. destruct r as [|rk r]; [discriminate|].
    cbn [clip_filter filter combine snd]. injection Ha as Ha. injection Hr as Hr.
    destruct (IH r v Ha Hr) as (A & B & C). cbv zeta in *.
    destruct (keep vk); cbn [s_intens s_angles s_radii map fst]; rewrite ?A, ?B, ?C; auto.
Qed.
Lemma clip_filter_wf keep a r v :
  length a = length v -> length r = length v -> store_wf (clip_filter keep a r v).
Proof.
  intros Ha Hr. destruct (clip_filter_spec keep a r v Ha Hr) as (A & B & C). cbv zeta in *.
  unfold store_wf. rewrite A, B, C, !map_length.
  assert (forall (x : list Q), length x = length v ->
            length (filter (fun p => keep (snd p)) (combine x v)) = length (filter keep v)) as L.
  { clear. intros x. revert v. induction x as [|xk x IH]; intros [|vk v] H; try discriminate; [reflexivity|].
    cbn [combine filter snd]. injection H as H. destruct (keep vk); cbn [length]; rewrite (IH v H); reflexivity. }
  rewrite (L a Ha), (L r Hr). auto.
Qed.
Lemma clip_filter_ext keep keep' a r v :
  (forall x, In x v -> keep x = keep' x) -> clip_filter keep a r v = clip_filter keep' a r v.
Proof.
  revert r v. induction a as [|ak a IH]; intros r v H; [reflexivity|].
  destruct r as [|rk r]; [reflexivity|]. destruct v as [|vk v]; [reflexivity|].
  cbn [clip_filter]. rewrite (IH r v) by (intros x Hx; apply H; right; exact Hx).
  rewrite (H vk (or_introl eq_refl)). reflexivity.
Qed.
Lemma clip_filter_none keep a r v :
  (forall x, In x v -> keep x = false) -> clip_filter keep a r v = empty_store.
Proof.
  revert r v. induction a as [|ak a IH]; intros r v H; [reflexivity|].
  destruct r as [|rk r]; [reflexivity|]. destruct v as [|vk v]; [reflexivity|].
  cbn [clip_filter]. rewrite (IH r v) by (intros x Hx; apply H; right; exact Hx).
  rewrite (H vk (or_introl eq_refl)). reflexivity.
Qed.
Lemma clip_filter_all keep a r v :
  length a = length v -> length r = length v ->
  (forall x, In x v -> keep x = true) -> clip_filter keep a r v = mkStore a r v.
Proof.
  revert r v. induction a as [|ak a IH]; intros r v Ha Hr H.
  - destruct v; [|discriminate]. destruct r; [|discriminate]. reflexivity.
  - destruct v as [|vk v]; [discriminate|]. destruct r as [|rk r]; [discriminate|].
    injection Ha as Ha. injection Hr as Hr.
    cbn [clip_filter]. rewrite (IH r v Ha Hr) by (intros x Hx; apply H; right; exact Hx).
    rewrite (H vk (or_introl eq_refl)). reflexivity.
Qed.
Lemma clip_filter_map keep f a r v :
  clip_filter keep a r (map f v) =
  let st := clip_filter (fun x => keep (f x)) a r v in
  mkStore (s_angles st) (s_radii st) (map f (s_intens st)).
Proof.
  revert r v. induction a as [|ak a IH]; intros r v; [reflexivity|].
  destruct r as [|rk r]; [reflexivity|]. destruct v as [|vk v]; [reflexivity|].
  cbn [clip_filter map]. rewrite IH. cbv zeta.
  destruct (keep (f vk)); reflexivity.
Qed.

Lemma filter_length_le {A} (p : A -> bool) l : (length (filter p l) <= length l)%nat.
Proof. induction l as [|x l IH]; cbn [filter length]; [lia|]. destruct (p x); cbn [length]; lia. Qed.

Lemma iter_sigma_clip_wf sclip st : store_wf st -> store_wf (iter_sigma_clip sclip st).
Proof. intros [A B]. apply clip_filter_wf; assumption. Qed.
Lemma iter_sigma_clip_intens sclip st : store_wf st ->
  s_intens (iter_sigma_clip sclip st) =
  filter (clip_keep sclip (meanQ (s_intens st)) (varQ (s_intens st))) (s_intens st).
Proof. intros [A B]. apply (clip_filter_spec _ _ _ _ A B). Qed.
Lemma iter_sigma_clip_length_le sclip st : store_wf st ->
  (length (s_intens (iter_sigma_clip sclip st)) <= length (s_intens st))%nat.
Proof. intro W. rewrite iter_sigma_clip_intens by exact W. apply filter_length_le. Qed.

Lemma iter_n_wf n sclip : forall st, store_wf st -> store_wf (iter_n n sclip st).
Proof. induction n as [|n IH]; intros st W; cbn [iter_n]; [exact W|]. apply IH, iter_sigma_clip_wf, W. Qed.
Lemma iter_n_length_le n sclip : forall st, store_wf st ->
  (length (s_intens (iter_n n sclip st)) <= length (s_intens st))%nat.
Proof.
  induction n as [|n IH]; intros st W; cbn [iter_n]; [lia|].
  pose proof (IH _ (iter_sigma_clip_wf sclip st W)). pose proof (iter_sigma_clip_length_le sclip st W). lia.
Qed.
(* nclip <= 0: no clipping at all *)
Lemma sigma_clip_nonpos nclip sclip st : (nclip <= 0)%Z -> sigma_clip nclip sclip st = st.
Proof. intro H. unfold sigma_clip. destruct nclip; try lia; reflexivity. Qed.
(* exactly nclip iterations *)
Lemma sigma_clip_succ n sclip st :
  sigma_clip (Z.of_nat (S n)) sclip st = sigma_clip (Z.of_nat n) sclip (iter_sigma_clip sclip st).
Proof. unfold sigma_clip. rewrite !Nat2Z.id. reflexivity. Qed.
(* a fixpoint of one iteration is a fixpoint of all *)
Lemma iter_n_fixpoint n sclip st : iter_sigma_clip sclip st = st -> iter_n n sclip st = st.
Proof. intro H. induction n as [|n IH]; cbn [iter_n]; [reflexivity|]. rewrite H. exact IH. Qed.
Lemma iter_n_empty n sclip : iter_n n sclip empty_store = empty_store.
Proof. apply iter_n_fixpoint. reflexivity. Qed.

(* constant intensities: one iteration removes EVERYTHING, for every sclip *)
Lemma iter_sigma_clip_constant sclip st c :
  s_intens st <> [] -> allq c (s_intens st) -> iter_sigma_clip sclip st = empty_store.
Proof.
  intros Hn Hc. unfold iter_sigma_clip. apply clip_filter_none. intros x Hx.
  rewrite (clip_keep_comp sclip _ c _ 0 x x);
    [|apply meanQ_const; assumption|eapply varQ_const; eassumption|reflexivity].
  apply clip_keep_zero_var. apply Hc. exact Hx.
Qed.
Lemma sigma_clip_constant nclip sclip st c :
  (0 < nclip)%Z -> s_intens st <> [] -> allq c (s_intens st) ->
  sigma_clip nclip sclip st = empty_store.
Proof.
  intros Hn Hs Hc. unfold sigma_clip. destruct (Z.to_nat nclip) as [|n] eqn:E; [lia|].
  cbn [iter_n]. rewrite (iter_sigma_clip_constant sclip st c Hs Hc). apply iter_n_empty.
Qed.

(* non-constant intensities, sclip >= 1: one iteration keeps at least one value *)
Lemma exists_or_all_false {A} (p : A -> bool) l :
  (exists x, In x l /\ p x = true) \/ (forall x, In x l -> p x = false).
Proof.
  induction l as [|x l [(y & Hy & Hp)|IH]].
  - right. intros x [].
  - left. exists y. split; [now right|assumption].
  - destruct (p x) eqn:E.
    + left. exists x. split; [now left|assumption].
    + right. intros y [<-|Hy]; [assumption|now apply IH].
Qed.
Lemma ssd_ge m c l : (forall v, In v l -> c <= (v - m) * (v - m)) -> lenQ l * c <= ssd m l.
Proof.
  induction l as [|x l IH]; intro H.
  - unfold ssd, lenQ. cbn [fold_right length Z.of_nat]. change (inject_Z 0) with 0. lra.
  - rewrite ssd_cons, lenQ_cons. pose proof (H x (or_introl eq_refl)).
    assert (lenQ l * c <= ssd m l) by (apply IH; intros v Hv; apply H; now right). lra.
Qed.
Lemma ssd_gt_one m c l :
  (forall v, In v l -> c <= (v - m) * (v - m)) -> (exists v, In v l /\ c < (v - m) * (v - m)) ->
  lenQ l * c < ssd m l.
Proof.
  induction l as [|x l IH]; intros H (w & Hw & Hlt); [destruct Hw|].
  rewrite ssd_cons, lenQ_cons. pose proof (H x (or_introl eq_refl)).
  assert (forall v, In v l -> c <= (v - m) * (v - m)) as H' by (intros v Hv; apply H; now right).
  destruct Hw as [->|Hw].
  - pose proof (ssd_ge m c l H'). lra.
  - assert (lenQ l * c < ssd m l) by (apply IH; [exact H'|exists w; auto]). lra.
Qed.
Lemma sumQ_gt m l : l <> [] -> (forall v, In v l -> m < v) -> lenQ l * m < sumQ l.
Proof.
  induction l as [|x l IH]; [congruence|]. intros _ H.
  rewrite sumQ_cons, lenQ_cons. pose proof (H x (or_introl eq_refl)).
  destruct l as [|y l].
  - unfold sumQ, lenQ. cbn [fold_right length Z.of_nat]. change (inject_Z 0) with 0. lra.
  - assert (lenQ (y :: l) * m < sumQ (y :: l)).
    { apply IH; [discriminate|]. intros v Hv. apply H. now right. }
    lra.
Qed.

Lemma clip_keeps_one sclip l :
  1 <= sclip -> 0 < varQ l ->
  exists v, In v l /\ clip_keep sclip (meanQ l) (varQ l) v = true.
Proof.
  intros Hs Hvar.
  destruct (exists_or_all_false (clip_keep sclip (meanQ l) (varQ l)) l) as [H|H]; [exact H|].
  exfalso. set (m := meanQ l) in *. set (v2 := varQ l) in *.
  assert (l <> []) as Hn.
  { intros ->. unfold v2, varQ, ssd, lenQ in Hvar. cbn in Hvar. unfold Qlt in Hvar. cbn in Hvar. lia. }
  assert (Qle_bool 0 sclip = true) as Es by (apply Qle_bool_iff; lra).
  assert (1 <= sclip * sclip) as Hss by nra.
  assert (forall v, In v l ->
            (0 < m - v /\ v2 < (v - m) * (v - m)) \/ (0 <= v - m /\ v2 <= (v - m) * (v - m))) as Hrej.
  { intros v Hv. specialize (H v Hv). unfold clip_keep in H. apply andb_false_iff in H.
    destruct H as [H|H]; apply negb_false_iff in H.
    - left. unfold gt_sqrt in H. rewrite Es in H. apply andb_true_iff in H. destruct H as [H1 H2].
      apply Qltb_iff in H1, H2. split; [exact H1|].
      setoid_replace ((v - m) * (v - m)) with ((m - v) * (m - v)) by ring. nra.
    - right. unfold ge_sqrt in H. rewrite Es in H. apply andb_true_iff in H. destruct H as [H1 H2].
      apply Qle_bool_iff in H1, H2. split; [exact H1|]. nra. }
  assert (forall v, In v l -> v2 <= (v - m) * (v - m)) as Hall.
  { intros v Hv. destruct (Hrej v Hv) as [[_ ?]|[_ ?]]; lra. }
  (* nobody can be strictly outside: the squared deviations average to v2 *)
  assert (forall v, In v l -> m < v) as Habove.
  { intros v Hv. destruct (Hrej v Hv) as [[Hlt Hs2]|[Hge Hs2]].
    - exfalso. assert (lenQ l * v2 < ssd m l) as C.
      { apply ssd_gt_one; [exact Hall|]. exists v. auto. }
      unfold m, v2 in C. rewrite (varQ_len l Hn) in C. lra.
    - destruct (Qlt_le_dec m v) as [|Hle]; [assumption|]. exfalso.
      assert (v - m == 0) as Z by lra. rewrite Z in Hs2. lra. }
  pose proof (sumQ_gt m l Hn Habove) as C. unfold m in C. rewrite (sumQ_len_mean l Hn) in C. lra.
Qed.
Lemma iter_sigma_clip_nonempty sclip st :
  store_wf st -> 1 <= sclip -> 0 < varQ (s_intens st) ->
  s_intens (iter_sigma_clip sclip st) <> [].
Proof.
  intros W Hs Hv. rewrite iter_sigma_clip_intens by exact W.
  destruct (clip_keeps_one sclip (s_intens st) Hs Hv) as (v & Hin & Hk).
  intro E. assert (In v (filter (clip_keep sclip (meanQ (s_intens st)) (varQ (s_intens st))) (s_intens st))) as X.
  { apply filter_In. auto. }
  rewrite E in X. destruct X.
Qed.

(* affine equivariance: a > 0.  The same positions survive; the surviving intensities are
   the images of the surviving intensities *)
Definition map_intens (f : Q -> Q) (st : store) : store :=
  mkStore (s_angles st) (s_radii st) (map f (s_intens st)).
Lemma iter_sigma_clip_affine a b sclip st :
  0 < a ->
  iter_sigma_clip sclip (map_intens (fun v => a * v + b) st) =
  map_intens (fun v => a * v + b) (iter_sigma_clip sclip st).
Proof.
  intro Ha. unfold iter_sigma_clip, map_intens. cbn [s_angles s_radii s_intens].
  rewrite clip_filter_map. cbv zeta.
  destruct (s_intens st) as [|x l] eqn:E.
  - destruct (s_angles st) as [|? ?]; [reflexivity|]. destruct (s_radii st); reflexivity.
  - rewrite <- E.
    assert (s_intens st <> []) as Hn by (rewrite E; discriminate).
    rewrite (clip_filter_ext _ (clip_keep sclip (meanQ (s_intens st)) (varQ (s_intens st)))).
    + reflexivity.
    + intros v _. apply clip_keep_scale; [exact Ha|apply meanQ_map; exact Hn|apply varQ_map; exact Hn].
Qed.
Lemma iter_n_affine a b sclip n : forall st,
  0 < a ->
  iter_n n sclip (map_intens (fun v => a * v + b) st) =
  map_intens (fun v => a * v + b) (iter_n n sclip st).
Proof.
  induction n as [|n IH]; intros st Ha; cbn [iter_n]; [reflexivity|].
  rewrite iter_sigma_clip_affine by exact Ha. apply IH. exact Ha.
Qed.

(* 10 equal samples and one outlier, default sclip = 3: the first iteration removes the outlier,
   the second one everything *)
Definition flat_with_outlier : store :=
  let v := [0; 0; 0; 0; 0; 0; 0; 0; 0; 0; 11] in
  let k := map inject_Z (pyrange 0 11) in mkStore k k v.
Lemma sigma_clip_empties_witness :
  s_intens (sigma_clip 1 3 flat_with_outlier) = [0; 0; 0; 0; 0; 0; 0; 0; 0; 0] /\
  sigma_clip 2 3 flat_with_outlier = empty_store.
Proof. split; vm_compute; reflexivity. Qed.

(* ------------------------------------------------------------------ *)
(* (4) area integrators                                                *)
(* ------------------------------------------------------------------ *)
Lemma fold_left_Qplus l : forall a, fold_left Qplus l a == a + sumQ l.
Proof.
  induction l as [|x l IH]; intro a; cbn [fold_left].
  - unfold sumQ. cbn. ring.
  - rewrite IH, sumQ_cons. ring.
Qed.
Lemma sumQ_bounds lo hi l :
  (forall v, In v l -> lo <= v <= hi) -> lenQ l * lo <= sumQ l /\ sumQ l <= lenQ l * hi.
Proof.
  induction l as [|x l IH]; intro H.
  - unfold sumQ, lenQ. cbn [fold_right length Z.of_nat]. change (inject_Z 0) with 0. lra.
  - rewrite sumQ_cons, lenQ_cons. destruct (H x (or_introl eq_refl)).
    destruct IH as [A B]; [intros v Hv; apply H; now right|]. lra.
Qed.
(* the mean of a non-empty sample lies between its smallest and largest value *)
Lemma mean_value_bounds lo hi l :
  l <> [] -> (forall v, In v l -> lo <= v <= hi) -> lo <= mean_value l <= hi.
Proof.
  intros Hn H. unfold mean_value. pose proof (lenQ_pos l Hn) as P.
  destruct (sumQ_bounds lo hi l H) as [A B]. rewrite fold_left_Qplus.
  split.
  - apply Qle_shift_div_l; [exact P|]. lra.
  - apply Qle_shift_div_r; [exact P|]. lra.
Qed.

Lemma insert_sorted_in x l y : In y (insert_sorted x l) <-> y = x \/ In y l.
Proof.
  induction l as [|z l IH]; cbn [insert_sorted].
  - cbn. intuition.
  - destruct (Qle_bool x z); cbn [In]; [intuition|]. rewrite IH. intuition.
Qed.
Lemma sortQ_in l y : In y (sortQ l) <-> In y l.
Proof.
  induction l as [|x l IH]; cbn [sortQ fold_right]; [reflexivity|].
  fold (sortQ l). rewrite insert_sorted_in, IH. cbn [In]. intuition.
Qed.
Lemma insert_sorted_length x l : length (insert_sorted x l) = S (length l).
Proof.
  induction l as [|z l IH]; cbn [insert_sorted]; [reflexivity|].
  destruct (Qle_bool x z); cbn [length]; [reflexivity|]. rewrite IH. reflexivity.
Qed.
Lemma sortQ_length l : length (sortQ l) = length l.
Proof.
  induction l as [|x l IH]; cbn [sortQ fold_right]; [reflexivity|].
  fold (sortQ l). rewrite insert_sorted_length, IH. reflexivity.
Qed.
Lemma insert_sorted_sorted x l : StronglySorted Qle l -> StronglySorted Qle (insert_sorted x l).
Proof.
  induction l as [|z l IH]; intro S; cbn [insert_sorted].
  - constructor; [constructor|constructor].
  - inversion S as [|? ? S' F]; subst. destruct (Qle_bool x z) eqn:E.
    + apply Qle_bool_iff in E. constructor; [exact S|]. constructor; [exact E|].
      rewrite Forall_forall in *. intros y Hy. specialize (F y Hy). lra.
    + apply Qle_bool_false_iff in E. constructor; [apply IH; exact S'|].
      apply Forall_forall. intros y Hy. apply insert_sorted_in in Hy. destruct Hy as [->|Hy]; [lra|].
      rewrite Forall_forall in F. apply F, Hy.
Qed.
Lemma sortQ_sorted l : StronglySorted Qle (sortQ l).
Proof.
  induction l as [|x l IH]; cbn [sortQ fold_right]; [constructor|].
  fold (sortQ l). apply insert_sorted_sorted, IH.
Qed.
(* the median of the area integrator is one of the accumulated pixel values (the UPPER
   median for an even count: index int(npix / 2) of the sorted list) *)
Lemma median_value_in l : l <> [] -> In (median_value l) l.
Proof.
  intro Hn. unfold median_value. apply sortQ_in. apply nth_In. rewrite sortQ_length.
  destruct l as [|x l]; [congruence|]. cbn [length].
  apply Nat.div_lt; lia.
Qed.

Section AreaProofs.
Variable in_sector : Z -> Z -> bool.

Lemma zrange_in lo n z : In z (zrange lo n) <-> (lo <= z < lo + Z.of_nat n)%Z.
Proof.
  revert lo. induction n as [|n IH]; intro lo; cbn [zrange In]; [lia|].
  rewrite IH. lia.
Qed.
Lemma pyrange_in a b z : In z (pyrange a b) <-> (a <= z < b)%Z.
Proof. unfold pyrange. rewrite zrange_in. lia. Qed.

(* the accumulated values are exactly unmasked pixels of range(j1, j2) x range(i1, i2) that
   pass the sector test *)
Lemma sector_pixels_in img i1 j1 i2 j2 p :
  In p (sector_pixels in_sector img i1 j1 i2 j2) <->
  exists j i, (j1 <= j < j2)%Z /\ (i1 <= i < i2)%Z /\ in_sector i j = true /\
              getpix img j i = Some p.
Proof.
  unfold sector_pixels. rewrite in_flat_map. split.
  - intros (j & Hj & H). apply in_flat_map in H. destruct H as (i & Hi & H).
    apply pyrange_in in Hj, Hi. exists j, i.
    destruct (in_sector i j); [|destruct H].
    destruct (getpix img j i) as [q|]; [|destruct H]. destruct H as [<-|[]]. auto.
  - intros (j & i & Hj & Hi & Hs & Hp). exists j. split; [apply pyrange_in; exact Hj|].
    apply in_flat_map. exists i. split; [apply pyrange_in; exact Hi|]. rewrite Hs, Hp. left. reflexivity.
Qed.

(* behaviour of one call *)
Lemma area_integrate_cases median img g st radius phi c s vminx vminy vmaxx vmaxy :
  let i1 := (pyint vminx - 1)%Z in
  let j1 := (pyint vminy - 1)%Z in
  let i2 := (pyint vmaxx + 1)%Z in
  let j2 := (pyint vmaxy + 1)%Z in
  let acc := sector_pixels in_sector img i1 j1 i2 j2 in
  let res := area_integrate in_sector median img g st radius phi c s vminx vminy vmaxx vmaxy in
  (* a bounding-box corner fails a range test: nothing *)
  ((i_range img i1 && j_range img j1 && i_range img i2 && j_range img j2 = false) /\ res = st) \/
  (* at most 6 pixels in the sector: the bilinear sample, if there is one *)
  ((length acc <= 6)%nat /\
   ((sample_xy BL img (fst (polar_xy g radius c s)) (snd (polar_xy g radius c s)) = None /\ res = st) \/
    exists v, sample_xy BL img (fst (polar_xy g radius c s)) (snd (polar_xy g radius c s)) = Some v /\
              res = store_results st phi radius v)) \/
  (* more than 6: the mean / median of the accumulated pixels *)
  ((6 < length acc)%nat /\
   res = store_results st phi radius (if median then median_value acc else mean_value acc)).
Proof.
  cbv zeta. unfold area_integrate. destruct (polar_xy g radius c s) as [x y]. cbn [fst snd].
  unfold area_integrate_xy. cbv zeta.
  destruct (i_range img (pyint vminx - 1) && j_range img (pyint vminy - 1)
            && i_range img (pyint vmaxx + 1) && j_range img (pyint vmaxy + 1)) eqn:E;
    [|left; auto]. right.
  set (acc := sector_pixels in_sector img (pyint vminx - 1) (pyint vminy - 1) (pyint vmaxx + 1)
                            (pyint vmaxy + 1)).
  destruct (in_range (Z.of_nat (length acc)) 7) eqn:E7.
  - left. unfold in_range in E7. apply andb_true_iff in E7. destruct E7 as [_ E7].
    apply Z.ltb_lt in E7. split; [lia|].
    unfold integrate_xy. destruct (sample_xy BL img x y) as [v|].
    + right. exists v. split; reflexivity.
    + left. split; reflexivity.
  - right. unfold in_range in E7. apply andb_false_iff in E7.
    destruct E7 as [E7|E7]; [apply Z.leb_gt in E7; lia|]. apply Z.ltb_ge in E7. split; [lia|reflexivity].
Qed.

(* mean / median stay within the range of the image's pixel values *)
Lemma area_sample_bounds (median : bool) img i1 j1 i2 j2 lo hi :
  (6 < length (sector_pixels in_sector img i1 j1 i2 j2))%nat ->
  (forall j i p, getpix img j i = Some p -> lo <= p <= hi) ->
  let acc := sector_pixels in_sector img i1 j1 i2 j2 in
  lo <= (if median then median_value acc else mean_value acc) <= hi.
Proof.
  intros Hlen Hb. cbv zeta.
  set (acc := sector_pixels in_sector img i1 j1 i2 j2) in *.
  assert (acc <> []) as Hn by (intros E; rewrite E in Hlen; cbn in Hlen; lia).
  assert (forall v, In v acc -> lo <= v <= hi) as Hacc.
  { intros v Hv. apply sector_pixels_in in Hv. destruct Hv as (j & i & _ & _ & _ & Hp). eauto. }
  destruct median.
  - apply Hacc, median_value_in, Hn.
  - apply mean_value_bounds; assumption.
Qed.
End AreaProofs.

(* ------------------------------------------------------------------ *)
(* the whole extract                                                   *)
(* ------------------------------------------------------------------ *)
Lemma filter_combine_sorted (p : Q * Q -> bool) : forall a v,
  StronglySorted Qlt a -> StronglySorted Qlt (map fst (filter p (combine a v))).
Proof.
  induction a as [|ak a IH]; intros v S; [constructor|].
  destruct v as [|vk v]; [constructor|]. inversion S as [|? ? S' F]; subst.
  cbn [combine filter]. destruct (p (ak, vk)); [|apply IH; exact S'].
  cbn [map fst]. constructor; [apply IH; exact S'|].
  apply Forall_forall. intros x Hx. apply in_map_iff in Hx. destruct Hx as ([x' w] & <- & Hin).
  apply filter_In in Hin. destruct Hin as [Hin _]. apply in_combine_l in Hin.
  rewrite Forall_forall in F. apply F, Hin.
Qed.
Lemma iter_sigma_clip_sorted sclip st :
  store_wf st -> StronglySorted Qlt (s_angles st) ->
  StronglySorted Qlt (s_angles (iter_sigma_clip sclip st)).
Proof.
  intros [A B] S. unfold iter_sigma_clip.
  destruct (clip_filter_spec (clip_keep sclip (meanQ (s_intens st)) (varQ (s_intens st)))
              _ _ _ A B) as (_ & E & _). cbv zeta in E. rewrite E.
  apply filter_combine_sorted, S.
Qed.
Lemma iter_n_sorted n sclip : forall st,
  store_wf st -> StronglySorted Qlt (s_angles st) ->
  StronglySorted Qlt (s_angles (iter_n n sclip st)).
Proof.
  induction n as [|n IH]; intros st W S; cbn [iter_n]; [exact S|].
  apply IH; [apply iter_sigma_clip_wf, W|apply iter_sigma_clip_sorted; assumption].
Qed.

Section ExtractProofs.
Variables rad cosf sinf : Q -> Q.
Variable stop : Q.
Variable R : Q.
Hypothesis rad_pos : forall phi, 0 < rad phi.
Hypothesis rad_le : forall phi, rad phi <= R.

(* EllipseSample.extract(): angles strictly increasing, all three arrays of the same
   length (actual_points), actual_points <= total_points *)
Lemma extract_facts m img g fuel nclip sclip :
  let '(total, st) := extract rad cosf sinf stop m img g fuel nclip sclip in
  store_wf st /\ StronglySorted Qlt (s_angles st) /\ (length (s_intens st) <= total)%nat.
Proof.
  unfold extract.
  set (calls := walk rad stop fuel (initial_polar_angle g) (rad (initial_polar_angle g))).
  pose proof (run_calls_wf cosf sinf m img g calls) as W.
  destruct (run_calls_hits cosf sinf m img g calls) as (A & _ & C).
  assert (StronglySorted Qlt (s_angles (run_calls cosf sinf m img g calls))) as S.
  { rewrite A. apply hits_angles_sorted. apply (walk_sorted rad stop rad_pos). apply rad_pos. }
  unfold sigma_clip. split; [apply iter_n_wf, W|]. split; [apply iter_n_sorted; assumption|].
  pose proof (iter_n_length_le (Z.to_nat nclip) sclip _ W) as L.
  rewrite C, map_length in L. pose proof (hits_length_le cosf sinf m img g calls). lia.
Qed.

(* total_points: 2*(stop - phi0) < n <= (stop - phi0)/min(1/R, 1/2) + 1, phi0 in [1/40, 1/10] *)
Lemma extract_total_points m img g fuel nclip sclip :
  let phi0 := initial_polar_angle g in
  let mstep := pymin (1 / R) (1 # 2) in
  phi0 <= stop ->
  stop - phi0 + mstep < inject_Z (Z.of_nat fuel) * mstep ->
  let n := inject_Z (Z.of_nat (fst (extract rad cosf sinf stop m img g fuel nclip sclip))) in
  stop - phi0 < n * (1 # 2) /\ n * mstep <= stop - phi0 + mstep.
Proof.
  cbv zeta. intros Hphi Hf. unfold extract. cbn [fst]. split.
  - apply (walk_length_ge rad stop R rad_pos rad_le); [apply rad_pos|apply rad_le|exact Hphi|exact Hf].
  - apply (walk_length_le rad stop R rad_pos rad_le); [apply rad_pos|apply rad_le|exact Hphi].
Qed.
End ExtractProofs.

(* ------------------------------------------------------------------ *)
(* packaged statements for C20I_Properties                             *)
(* ------------------------------------------------------------------ *)
Lemma bilinear_negative_fraction_refuted_lemma :
  exists img x y v,
    bilinear_xy img x y = Some v /\
    (forall j i p, getpix img j i = Some p -> 0 <= p <= 1) /\ v < 0.
Proof.
  destruct bilinear_negative_fraction_witness as (v & H & E & B).
  exists ramp2, (-(1 # 2)), 0, v. split; [exact H|]. split; [exact B|]. rewrite E. reflexivity.
Qed.
Lemma nn_refuted_lemma :
  exists img x y v w, nn_xy img x y = Some v /\ nearest_pixel img x y = Some w /\ ~ v == w.
Proof.
  exists diag3, (3 # 4), (3 # 4), 0, 11. destruct nn_refuted_witness as [A B].
  split; [exact A|]. split; [exact B|]. discriminate.
Qed.
Lemma phi_step_bounds r R :
  0 < r -> r <= R -> pymin (1 / R) (1 # 2) <= phi_step r /\ phi_step r <= 1 # 2 /\ 0 < phi_step r.
Proof.
  intros H0 H1. split; [apply phi_step_ge; assumption|].
  split; [apply phi_step_le_half|apply phi_step_pos; exact H0].
Qed.
Lemma iter_n_lockstep n sclip st :
  store_wf st ->
  store_wf (iter_n n sclip st) /\ (length (s_intens (iter_n n sclip st)) <= length (s_intens st))%nat.
Proof. intros W. split; [apply iter_n_wf, W|apply iter_n_length_le, W]. Qed.
Lemma sigma_clip_never_empties_refuted_lemma :
  exists st, store_wf st /\ s_intens st <> [] /\ 0 < varQ (s_intens st) /\
             sigma_clip 2 3 st = empty_store.
Proof.
  exists flat_with_outlier. split; [split; reflexivity|]. split; [discriminate|].
  split; [reflexivity|]. exact (proj2 sigma_clip_empties_witness).
Qed.

(* convergence: an iteration that removes nothing is a fixpoint, every other one shortens the
   lists, so more iterations than samples change nothing *)
Lemma filter_length_eq_all {A} (p : A -> bool) l :
  length (filter p l) = length l -> forall x, In x l -> p x = true.
Proof.
  induction l as [|y l IH]; intros H x Hx; [destruct Hx|].
  cbn [filter] in H. destruct (p y) eqn:E.
  - cbn [length] in H. injection H as H. destruct Hx as [<-|Hx]; [exact E|apply IH; assumption].
  - pose proof (filter_length_le p l). cbn [length] in H. lia.
Qed.
Lemma iter_sigma_clip_same_length sclip st :
  store_wf st -> length (s_intens (iter_sigma_clip sclip st)) = length (s_intens st) ->
  iter_sigma_clip sclip st = st.
Proof.
  intros [A B] H. rewrite iter_sigma_clip_intens in H by (split; assumption).
  unfold iter_sigma_clip. rewrite clip_filter_all; [destruct st; reflexivity|exact A|exact B|].
  apply filter_length_eq_all. exact H.
Qed.
Lemma iter_n_converges sclip n : forall st,
  store_wf st -> (length (s_intens st) <= n)%nat ->
  iter_sigma_clip sclip (iter_n n sclip st) = iter_n n sclip st.
Proof.
  induction n as [|n IH]; intros st W L.
  - cbn [iter_n]. destruct W as [A B]. destruct st as [a r v]. cbn [s_angles s_radii s_intens] in *.
    destruct v; [|cbn in L; lia]. destruct a; [|discriminate]. destruct r; [|discriminate]. reflexivity.
  - cbn [iter_n]. pose proof (iter_sigma_clip_length_le sclip st W) as Hle.
    destruct (Nat.eq_dec (length (s_intens (iter_sigma_clip sclip st))) (length (s_intens st))) as [E|N].
    + rewrite (iter_sigma_clip_same_length sclip st W E).
      rewrite (iter_n_fixpoint n sclip st (iter_sigma_clip_same_length sclip st W E)).
      apply (iter_sigma_clip_same_length sclip st W E).
    + apply IH; [apply iter_sigma_clip_wf, W|lia].
Qed.
