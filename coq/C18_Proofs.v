(* C18 — proofs about the model of make_model_image (C18_Model.render).
   Plan: (1) python-dict algebra: re-assigning the mapped parameters overwrites everything a
   previous row wrote, so the parameter state used for a row is [rstate] (history free);
   (2) the loop is a fold of [paint] = "add the row's contribution on its window";
   (3) pixelwise, [paint] adds [term y x r]; (4) the window of overlap_slices(mode='trim') is
   exactly {pixels of the image whose centre lies in the model_shape box};
   (5) the property clauses follow from (3) by list algebra. *)
From Coq Require Import List ZArith Bool String Lia Permutation.
From PV Require Import lib.Cases C18_Model.
Import ListNotations.
Open Scope Z_scope.

(* ------------------------------------------------------------------ *)
(* 1. python dicts                                                     *)
(* ------------------------------------------------------------------ *)
Section Dict.
Context {V : Type}.
Implicit Types (s : dict V) (k : string) (v : V).

Lemma dset_keys_incl k v s K : incl K (map fst s) -> incl K (map fst (dset k v s)).
Proof.
  intros H x Hx. specialize (H x Hx). clear Hx.
  induction s as [|[k' v'] r IH]; [destruct H|]. cbn in *.
  destruct (String.eqb k k') eqn:E.
  - apply String.eqb_eq in E. subst. cbn. exact H.
  - cbn. destruct H as [H|H]; [left; exact H|right; auto].
Qed.

Lemma dset_keys_in k v s x : In x (map fst s) -> In x (map fst (dset k v s)).
Proof. intros H. apply (dset_keys_incl k v s [x]); [|left; reflexivity]. intros y [<-|[]]. exact H. Qed.

Lemma dset_dset_same k v v' s : dset k v (dset k v' s) = dset k v s.
Proof.
  induction s as [|[k' w] r IH]; cbn.
  - rewrite String.eqb_refl. reflexivity.
  - destruct (String.eqb k k') eqn:E; cbn.
    + rewrite String.eqb_refl. reflexivity.
    + rewrite E, IH. reflexivity.
Qed.

Lemma dset_comm k1 v1 k2 v2 s :
  k1 <> k2 -> In k1 (map fst s) -> dset k1 v1 (dset k2 v2 s) = dset k2 v2 (dset k1 v1 s).
Proof.
  intros Hne. induction s as [|[k w] r IH]; [intros []|]. intros Hin. cbn.
  destruct (String.eqb k2 k) eqn:E2; destruct (String.eqb k1 k) eqn:E1; cbn.
  - apply String.eqb_eq in E1, E2. congruence.
  - apply String.eqb_eq in E2. subst k.
    rewrite E1, String.eqb_refl. reflexivity.
  - apply String.eqb_eq in E1. subst k.
    rewrite String.eqb_refl, E2. reflexivity.
  - rewrite E1, E2. f_equal. apply IH. cbn in Hin. destruct Hin as [Hin|Hin]; [|exact Hin].
    apply String.eqb_neq in E1. congruence.
Qed.

Lemma dget_dset_same k v s : dget k (dset k v s) = Some v.
Proof.
  induction s as [|[k' w] r IH]; cbn.
  - rewrite String.eqb_refl. reflexivity.
  - destruct (String.eqb k k') eqn:E; cbn; [rewrite String.eqb_refl|rewrite E]; auto.
Qed.

Lemma dget_dset_other k k' v s : k' <> k -> dget k' (dset k v s) = dget k' s.
Proof.
  intros Hne. induction s as [|[k0 w] r IH]; cbn.
  - assert (String.eqb k' k = false) as -> by (apply String.eqb_neq; exact Hne). reflexivity.
  - destruct (String.eqb k k0) eqn:E; cbn.
    + apply String.eqb_eq in E. subst k0.
      assert (String.eqb k' k = false) as -> by (apply String.eqb_neq; exact Hne). reflexivity.
    + destruct (String.eqb k' k0); auto.
Qed.
End Dict.

Lemma smem_In s l : smem s l = true <-> In s l.
Proof.
  unfold smem. rewrite existsb_exists. split.
  - intros [x [Hx E]]. apply String.eqb_eq in E. subst. exact Hx.
  - intros H. exists s. split; [exact H|apply String.eqb_refl].
Qed.

(* ------------------------------------------------------------------ *)
(* 2. assign: the mapped parameters are overwritten                    *)
(* ------------------------------------------------------------------ *)
Section Assign.
Variable cols : list string.

Lemma assign_keys_incl m r st K : incl K (map fst st) -> incl K (map fst (assign m cols r st)).
Proof.
  unfold assign. revert st. induction m as [|kv m IH]; intros st H; cbn; [exact H|].
  apply IH, dset_keys_incl, H.
Qed.

Lemma assign_absorb_dset m r : forall st k v,
  In k (map fst m) -> incl (map fst m) (map fst st) ->
  assign m cols r (dset k v st) = assign m cols r st.
Proof.
  unfold assign. induction m as [|[k1 c1] m IH]; intros st k v Hin Hincl; [destruct Hin|].
  cbn [fold_left fst snd].
  destruct (String.eqb k k1) eqn:E.
  - apply String.eqb_eq in E. subst k1. rewrite dset_dset_same. reflexivity.
  - apply String.eqb_neq in E.
    assert (Hk1 : In k1 (map fst st)) by (apply Hincl; left; reflexivity).
    rewrite dset_comm by (congruence || assumption).
    apply IH.
    + cbn in Hin. destruct Hin as [Hin|Hin]; [congruence|exact Hin].
    + apply dset_keys_incl. intros x Hx. apply Hincl. right. exact Hx.
Qed.

(* any sequence of assignments to mapped keys is overwritten by a later [assign m] *)
Lemma assign_overwrite_gen m r r' : forall m2 st,
  incl (map fst m2) (map fst m) -> incl (map fst m) (map fst st) ->
  assign m cols r (assign m2 cols r' st) = assign m cols r st.
Proof.
  induction m2 as [|[k2 c2] m2 IH]; intros st H2 Hst; [reflexivity|].
  unfold assign at 2. cbn [fold_left fst snd]. fold (assign m2 cols r' (dset k2 (rget cols r' c2) st)).
  rewrite IH.
  - apply assign_absorb_dset; [apply H2; left; reflexivity|exact Hst].
  - intros x Hx. apply H2. right. exact Hx.
  - apply dset_keys_incl, Hst.
Qed.

Lemma assign_overwrite m r r' st :
  incl (map fst m) (map fst st) -> assign m cols r (assign m cols r' st) = assign m cols r st.
Proof. intros H. apply assign_overwrite_gen; [apply incl_refl|exact H]. Qed.
End Assign.

Lemma valid_map_keys c t m : valid_map c t m = true -> incl (map fst m) (map fst (pinit c)).
Proof.
  unfold valid_map. rewrite forallb_forall. intros H k Hk.
  apply in_map_iff in Hk. destruct Hk as [kv [<- Hkv]].
  specialize (H kv Hkv). apply andb_true_iff in H. destruct H as [H _].
  apply smem_In in H. exact H.
Qed.

(* ------------------------------------------------------------------ *)
(* 3. images                                                           *)
(* ------------------------------------------------------------------ *)
Lemma mapi_from_length {A B} (f : Z -> A -> B) l : forall i, List.length (mapi_from f i l) = List.length l.
Proof. induction l as [|a l IH]; intros i; cbn; [reflexivity|rewrite IH; reflexivity]. Qed.

Lemma mapi_from_nth {A B} (f : Z -> A -> B) l : forall i k d d',
  (k < List.length l)%nat -> nth k (mapi_from f i l) d = f (i + Z.of_nat k) (nth k l d').
Proof.
  induction l as [|a l IH]; intros i k d d' Hk; [cbn in Hk; lia|].
  destruct k as [|k]; cbn [mapi_from nth].
  - f_equal. lia.
  - cbn in Hk. rewrite (IH (i + 1) k d d') by lia. f_equal. lia.
Qed.

Lemma nth_repeat_lt {A} (a d : A) n k : (k < n)%nat -> nth k (repeat a n) d = a.
Proof. revert k; induction n as [|n IH]; intros k Hk; [lia|]. destruct k; cbn; [reflexivity|apply IH; lia]. Qed.

Lemma rect_row ny nx img k : rect ny nx img -> (k < List.length img)%nat ->
  List.length (nth k img []) = Z.to_nat nx.
Proof.
  intros [_ H] Hk. rewrite Forall_forall in H. apply H, nth_In, Hk.
Qed.

Lemma rect_zeros ny nx : rect ny nx (zeros ny nx).
Proof.
  unfold rect, zeros. split; [apply repeat_length|].
  apply Forall_forall. intros r Hr. apply repeat_spec in Hr. subst. apply repeat_length.
Qed.

Lemma pixel_zeros ny nx y x : 0 <= y < ny -> 0 <= x < nx -> pixel (zeros ny nx) y x = 0.
Proof.
  intros Hy Hx. unfold pixel, zeros.
  rewrite (nth_repeat_lt _ _ (Z.to_nat ny)) by lia.
  apply nth_repeat_lt. lia.
Qed.

Definition in_w (w : window) (y x : Z) : bool :=
  let '((ylo, yhi), (xlo, xhi)) := w in in_rng ylo yhi y && in_rng xlo xhi x.

Lemma rect_add_window ny nx img w f : rect ny nx img -> rect ny nx (add_window img w f).
Proof.
  destruct w as [[ylo yhi] [xlo xhi]]. intros [Hl Hr]. unfold add_window. split.
  - rewrite mapi_from_length. exact Hl.
  - rewrite Forall_forall in *. intros r Hin.
    apply In_nth with (d := []) in Hin. destruct Hin as [k [Hk <-]].
    rewrite mapi_from_length in Hk.
    rewrite (mapi_from_nth _ img 0 k [] []) by exact Hk.
    assert (Hlen : List.length (nth k img []) = Z.to_nat nx) by (apply Hr, nth_In, Hk).
    destruct (in_rng ylo yhi (0 + Z.of_nat k)); [rewrite mapi_from_length|]; exact Hlen.
Qed.

Lemma pixel_add_window ny nx img w f y x :
  rect ny nx img -> 0 <= y < ny -> 0 <= x < nx ->
  pixel (add_window img w f) y x = pixel img y x + (if in_w w y x then f y x else 0).
Proof.
  destruct w as [[ylo yhi] [xlo xhi]]. intros Hrect Hy Hx.
  assert (Hky : (Z.to_nat y < List.length img)%nat) by (destruct Hrect as [-> _]; lia).
  assert (Hkx : (Z.to_nat x < List.length (nth (Z.to_nat y) img []))%nat)
    by (rewrite (rect_row ny nx) by assumption; lia).
  unfold pixel, add_window, in_w.
  rewrite (mapi_from_nth _ img 0 (Z.to_nat y) [] []) by exact Hky.
  replace (0 + Z.of_nat (Z.to_nat y)) with y by lia.
  destruct (in_rng ylo yhi y); cbn [andb].
  - rewrite (mapi_from_nth _ _ 0 (Z.to_nat x) 0 0) by exact Hkx.
    replace (0 + Z.of_nat (Z.to_nat x)) with x by lia.
    destruct (in_rng xlo xhi x); lia.
  - lia.
Qed.

(* two rectangular images with the same pixels are equal *)
Lemma image_ext ny nx a b : rect ny nx a -> rect ny nx b ->
  (forall y x, 0 <= y < ny -> 0 <= x < nx -> pixel a y x = pixel b y x) -> a = b.
Proof.
  intros Ha Hb H. apply (nth_ext a b [] []).
  - destruct Ha as [-> _], Hb as [-> _]. reflexivity.
  - intros k Hk.
    assert (Hk' : (k < List.length b)%nat) by (destruct Ha as [Ea _], Hb as [Eb _]; lia).
    assert (Hkz : 0 <= Z.of_nat k < ny) by (destruct Ha as [Ea _]; lia).
    apply (nth_ext _ _ 0 0).
    + rewrite (rect_row ny nx a), (rect_row ny nx b) by assumption. reflexivity.
    + intros j Hj. rewrite (rect_row ny nx a) in Hj by assumption.
      specialize (H (Z.of_nat k) (Z.of_nat j) Hkz ltac:(lia)).
      unfold pixel in H. rewrite !Nat2Z.id in H. exact H.
Qed.

Lemma combine_nth_lt {A B} (a : list A) (b : list B) k da db :
  (k < List.length a)%nat -> (k < List.length b)%nat ->
  nth k (combine a b) (da, db) = (nth k a da, nth k b db).
Proof.
  revert b k; induction a as [|x a IH]; intros [|y b] k Ha Hb; cbn in *; try lia.
  destruct k; [reflexivity|apply IH; lia].
Qed.

Section Zip.
Variable op : Z -> Z -> Z.
Definition zip_image (a b : image) : image :=
  map (fun ab => map (fun vw => op (fst vw) (snd vw)) (combine (fst ab) (snd ab))) (combine a b).

Lemma rect_zip ny nx a b : rect ny nx a -> rect ny nx b -> rect ny nx (zip_image a b).
Proof.
  intros Ha Hb. unfold zip_image. split.
  - rewrite map_length, combine_length. destruct Ha as [-> _], Hb as [-> _]. lia.
  - apply Forall_forall. intros r Hr. apply in_map_iff in Hr. destruct Hr as [[ra rb] [<- Hin]].
    cbn [fst snd]. rewrite map_length, combine_length.
    destruct Ha as [_ Ha], Hb as [_ Hb]. rewrite Forall_forall in Ha, Hb.
    rewrite (Ha ra), (Hb rb); [lia| |].
    + apply in_combine_r in Hin. exact Hin.
    + apply in_combine_l in Hin. exact Hin.
Qed.

Lemma pixel_zip ny nx a b y x : rect ny nx a -> rect ny nx b -> 0 <= y < ny -> 0 <= x < nx ->
  pixel (zip_image a b) y x = op (pixel a y x) (pixel b y x).
Proof.
  intros Ha Hb Hy Hx. unfold pixel, zip_image.
  assert (Hka : (Z.to_nat y < List.length a)%nat) by (destruct Ha as [-> _]; lia).
  assert (Hkb : (Z.to_nat y < List.length b)%nat) by (destruct Hb as [-> _]; lia).
  set (g := fun ab : list Z * list Z => map (fun vw => op (fst vw) (snd vw)) (combine (fst ab) (snd ab))).
  assert (E : nth (Z.to_nat y) (map g (combine a b)) [] = g (nth (Z.to_nat y) a [], nth (Z.to_nat y) b [])).
  { rewrite <- (combine_nth_lt a b _ [] []) by assumption.
    rewrite (nth_indep _ [] (g ([], []))) by (rewrite map_length, combine_length; lia).
    apply map_nth. }
  rewrite E. unfold g. cbn [fst snd].
  set (ra := nth (Z.to_nat y) a []). set (rb := nth (Z.to_nat y) b []).
  assert (Hxa : (Z.to_nat x < List.length ra)%nat) by (unfold ra; rewrite (rect_row ny nx) by assumption; lia).
  assert (Hxb : (Z.to_nat x < List.length rb)%nat) by (unfold rb; rewrite (rect_row ny nx) by assumption; lia).
  set (h := fun vw : Z * Z => op (fst vw) (snd vw)).
  rewrite (nth_indep _ 0 (h (0, 0))) by (rewrite map_length, combine_length; lia).
  rewrite map_nth, combine_nth_lt by assumption. reflexivity.
Qed.
End Zip.

Lemma sub_image_zip a b : sub_image a b = zip_image Z.sub a b.
Proof. reflexivity. Qed.
Lemma img_add_zip a b : img_add a b = zip_image Z.add a b.
Proof. reflexivity. Qed.

(* ------------------------------------------------------------------ *)
(* 4. the window of overlap_slices(mode='trim')                        *)
(* ------------------------------------------------------------------ *)
Lemma cdiv16_le a k : cdiv a 16 <= k <-> a <= 16 * k.
Proof.
  unfold cdiv.
  pose proof (Z.div_mod (- a) 16 ltac:(lia)) as E.
  pose proof (Z.mod_pos_bound (- a) 16 ltac:(lia)) as B.
  lia.
Qed.

(* [e_min pos8 sh <= k < e_min pos8 sh + sh] iff the centre of pixel k lies in the box *)
Lemma e_min_box pos8 sh k : e_min pos8 sh <= k < e_min pos8 sh + sh <-> in_box pos8 sh k.
Proof.
  unfold in_box, e_min.
  pose proof (cdiv16_le (2 * pos8 - 8 * sh) k) as H1.
  pose proof (cdiv16_le (2 * pos8 - 8 * sh) (k - sh)) as H2.
  lia.
Qed.

Lemma in_boxb_spec pos8 sh k : in_boxb pos8 sh k = true <-> in_box pos8 sh k.
Proof. unfold in_boxb, in_box. lia. Qed.

Lemma in_rng_spec lo hi i : in_rng lo hi i = true <-> lo <= i < hi.
Proof. unfold in_rng. lia. Qed.

Definition box_hit (ny nx : Z) (sh : Z * Z) (y8 x8 y x : Z) : Prop :=
  0 <= y < ny /\ 0 <= x < nx /\ in_box y8 (fst sh) y /\ in_box x8 (snd sh) x.

Lemma overlap_some ny nx sh y8 x8 w :
  overlap_slices ny nx sh y8 x8 = Some w ->
  forall y x, in_w w y x = true <-> box_hit ny nx sh y8 x8 y x.
Proof.
  destruct sh as [shy shx]. unfold overlap_slices, box_hit. cbn [fst snd].
  intros H y x. rewrite <- !e_min_box.
  set (ymin := e_min y8 shy) in *. set (xmin := e_min x8 shx) in *.
  destruct (_ || _ || (_ || _)) eqn:E1; [discriminate|].
  destruct ((ny <=? ymin) || (nx <=? xmin)) eqn:E2; [discriminate|].
  destruct (_ || _) eqn:E3 in H; [discriminate|].
  injection H as <-. unfold in_w. rewrite andb_true_iff, !in_rng_spec. lia.
Qed.

Lemma overlap_none ny nx sh y8 x8 :
  overlap_slices ny nx sh y8 x8 = None -> forall y x, ~ box_hit ny nx sh y8 x8 y x.
Proof.
  destruct sh as [shy shx]. unfold overlap_slices, box_hit. cbn [fst snd].
  intros H y x. rewrite <- !e_min_box.
  set (ymin := e_min y8 shy) in *. set (xmin := e_min x8 shx) in *.
  destruct (_ || _ || (_ || _)) eqn:E1; [lia|].
  destruct ((ny <=? ymin) || (nx <=? xmin)) eqn:E2; [lia|].
  destruct (_ || _) eqn:E3 in H; [|discriminate]. lia.
Qed.

(* a returned window is never empty: some pixel of the image is covered (for a
   non-negative model_shape; a negative entry in a 2-D model_shape column gives an empty
   slice that the code "renders" without effect) *)
Lemma overlap_some_nonempty ny nx sh y8 x8 w :
  0 <= ny -> 0 <= nx -> 0 <= fst sh -> 0 <= snd sh ->
  overlap_slices ny nx sh y8 x8 = Some w -> exists y x, box_hit ny nx sh y8 x8 y x.
Proof.
  intros Hny Hnx Hsy Hsx H. pose proof (overlap_some _ _ _ _ _ _ H) as Hw.
  destruct sh as [shy shx]. cbn [fst snd] in Hsy, Hsx. unfold overlap_slices in H.
  set (ymin := e_min y8 shy) in *. set (xmin := e_min x8 shx) in *.
  destruct (_ || _ || (_ || _)) eqn:E1; [discriminate|].
  destruct ((ny <=? ymin) || (nx <=? xmin)) eqn:E2; [discriminate|].
  destruct (_ || _) eqn:E3 in H; [discriminate|].
  injection H as <-.
  exists (Z.max 0 ymin), (Z.max 0 xmin). apply Hw.
  unfold in_w. rewrite andb_true_iff, !in_rng_spec. lia.
Qed.

(* ------------------------------------------------------------------ *)
(* 5. the loop                                                         *)
(* ------------------------------------------------------------------ *)
Lemma zsum_app a b : zsum (a ++ b) = zsum a + zsum b.
Proof. induction a as [|x a IH]; cbn; [reflexivity|]. unfold zsum in *. cbn. rewrite IH. lia. Qed.

Lemma zsum_map_perm {A} (f : A -> Z) l l' : Permutation l l' -> zsum (map f l) = zsum (map f l').
Proof.
  induction 1 as [|x l l' _ IH|x y l|l l' l'' _ IH1 _ IH2]; unfold zsum in *; cbn; lia.
Qed.

Section Loop.
Variable ev : pstate -> Z -> Z -> Z.
Variable bbox_shape : option Z -> pstate -> Z * Z.
Variable ev_unit : pstate -> option Z.

Notation rstate := (rstate).
Notation shape_of := (shape_of bbox_shape).
Notation term := (term ev bbox_shape).
Notation in_windowb := (in_windowb bbox_shape).
Notation in_window := (in_window bbox_shape).
Notation overlaps := (overlaps bbox_shape).
Notation render := (render ev bbox_shape ev_unit).
Notation units_uniform := (units_uniform ev_unit).

(* one iteration of the loop, as a function of the image only *)
Definition paint (c : config) (t : table) (img : image) (r : row) : image :=
  match overlap_slices (ny c) (nx c) (shape_of c t r) (row_y8 c t r) (row_x8 c t r) with
  | None => img
  | Some w => add_window img w (fun y x => ev (rstate c t r) y x + bkg_of t r)
  end.
Definition image_of (c : config) (t : table) (l : list row) : image :=
  fold_left (paint c t) l (zeros (ny c) (nx c)).
Definition unit_of (c : config) (t : table) (l : list row) : option Z :=
  match l with [] => None | r :: _ => ev_unit (rstate c t r) end.

Lemma in_windowb_spec c t r y x : in_windowb c t r y x = true <-> in_window c t r y x.
Proof.
  unfold C18_Model.in_windowb, C18_Model.in_window.
  rewrite !andb_true_iff, !in_rng_spec, !in_boxb_spec. tauto.
Qed.

Lemma rect_paint c t img r : rect (ny c) (nx c) img -> rect (ny c) (nx c) (paint c t img r).
Proof. intros H. unfold paint. destruct (overlap_slices _ _ _ _ _); [apply rect_add_window|]; exact H. Qed.

Lemma rect_fold_paint c t l : forall img, rect (ny c) (nx c) img -> rect (ny c) (nx c) (fold_left (paint c t) l img).
Proof. induction l as [|r l IH]; intros img H; cbn; [exact H|apply IH, rect_paint, H]. Qed.

Lemma rect_image_of c t l : rect (ny c) (nx c) (image_of c t l).
Proof. apply rect_fold_paint, rect_zeros. Qed.

Lemma pixel_paint c t img r y x : rect (ny c) (nx c) img -> 0 <= y < ny c -> 0 <= x < nx c ->
  pixel (paint c t img r) y x = pixel img y x + term c t y x r.
Proof.
  intros Hrect Hy Hx. unfold paint, C18_Model.term.
  destruct (overlap_slices _ _ _ _ _) as [w|] eqn:E.
  - rewrite (pixel_add_window (ny c) (nx c)) by assumption.
    pose proof (overlap_some _ _ _ _ _ _ E y x) as Hw.
    assert (Hb : in_w w y x = in_windowb c t r y x).
    { apply eq_true_iff_eq. rewrite Hw, in_windowb_spec. reflexivity. }
    rewrite Hb. reflexivity.
  - pose proof (overlap_none _ _ _ _ _ E y x) as Hn.
    destruct (in_windowb c t r y x) eqn:Eb; [|lia].
    apply in_windowb_spec in Eb. contradiction.
Qed.

Lemma pixel_fold_paint c t l y x : forall img, rect (ny c) (nx c) img -> 0 <= y < ny c -> 0 <= x < nx c ->
  pixel (fold_left (paint c t) l img) y x = pixel img y x + zsum (map (term c t y x) l).
Proof.
  induction l as [|r l IH]; intros img Hrect Hy Hx; cbn [fold_left map].
  - unfold zsum. cbn. lia.
  - rewrite IH by (try apply rect_paint; assumption).
    rewrite pixel_paint by assumption. unfold zsum. cbn. lia.
Qed.

Lemma pixel_image_of c t l y x : 0 <= y < ny c -> 0 <= x < nx c ->
  pixel (image_of c t l) y x = zsum (map (term c t y x) l).
Proof.
  intros Hy Hx. unfold image_of. rewrite pixel_fold_paint by (try apply rect_zeros; assumption).
  rewrite pixel_zeros by assumption. lia.
Qed.

(* ----- the loop state: the model copy never leaks parameters between rows ----- *)
Definition good (c : config) (t : table) (st : pstate) : Prop :=
  incl (map fst (build_map c t)) (map fst st) /\
  forall r, assign (build_map c t) (colnames t) r st = rstate c t r.

Lemma good_init c t : valid_map c t (build_map c t) = true -> good c t (pinit c).
Proof. intros H. split; [apply valid_map_keys with (t := t), H|reflexivity]. Qed.

Lemma good_step c t st r : good c t st -> good c t (assign (build_map c t) (colnames t) r st).
Proof.
  intros [Hk Hs]. split.
  - apply assign_keys_incl, Hk.
  - intros r'. rewrite assign_overwrite by exact Hk. apply Hs.
Qed.

Definition acc_img (a : nat * pstate * image * option Z) : image := snd (fst a).
Definition acc_unit (a : nat * pstate * image * option Z) : option Z := snd a.

Lemma step_eq c t pre suf r st img u : rows t = pre ++ r :: suf -> good c t st ->
  step ev bbox_shape ev_unit c t (build_map c t) (map rshape (rows t))
       (if has_bkg_col t then map rbkg (rows t) else repeat 0 (List.length (rows t)))
       (List.length pre, st, img, u) r
  = (S (List.length pre), rstate c t r, paint c t img r,
     if Nat.eqb (List.length pre) 0 then ev_unit (rstate c t r) else u).
Proof.
  intros Hrows Hgood.
  assert (Hst : assign (build_map c t) (colnames t) r st = rstate c t r) by apply Hgood.
  assert (Hshape : (if has_shape_col t then nth (List.length pre) (map rshape (rows t)) (0, 0)
                    else match mshape c with
                         | None => bbox_shape (bfactor c) (rstate c t r)
                         | Some s => s end) = shape_of c t r).
  { unfold C18_Model.shape_of. destruct (has_shape_col t); [|reflexivity].
    rewrite Hrows, map_app, app_nth2 by (rewrite map_length; lia).
    rewrite map_length, Nat.sub_diag. reflexivity. }
  assert (Hbkg : nth (List.length pre)
                   (if has_bkg_col t then map rbkg (rows t) else repeat 0 (List.length (rows t))) 0
                 = bkg_of t r).
  { unfold bkg_of. destruct (has_bkg_col t).
    - rewrite Hrows, map_app, app_nth2 by (rewrite map_length; lia).
      rewrite map_length, Nat.sub_diag. reflexivity.
    - apply nth_repeat_lt. rewrite Hrows, app_length. cbn. lia. }
  unfold step. cbv zeta. rewrite Hst, Hshape, Hbkg.
  fold (row_y8 c t r). fold (row_x8 c t r). unfold paint.
  destruct (overlap_slices (ny c) (nx c) (shape_of c t r) (row_y8 c t r) (row_x8 c t r)); reflexivity.
Qed.

Lemma fold_step c t :
  forall suf pre st img u, rows t = pre ++ suf -> good c t st ->
  let a := fold_left (step ev bbox_shape ev_unit c t (build_map c t) (map rshape (rows t))
                        (if has_bkg_col t then map rbkg (rows t) else repeat 0 (List.length (rows t))))
                     suf (List.length pre, st, img, u) in
  acc_img a = fold_left (paint c t) suf img /\
  acc_unit a = match pre, suf with [], r :: _ => ev_unit (rstate c t r) | _, _ => u end.
Proof.
  induction suf as [|r suf IH]; intros pre st img u Hrows Hgood.
  - cbn. split; [reflexivity|destruct pre; reflexivity].
  - cbn [fold_left]. rewrite (step_eq c t pre suf r st img u Hrows Hgood).
    assert (Hrows' : rows t = (pre ++ [r]) ++ suf) by (rewrite <- app_assoc; exact Hrows).
    assert (Hgood' : good c t (rstate c t r)).
    { destruct Hgood as [Hk Hs]. rewrite <- (Hs r). apply good_step. split; assumption. }
    assert (Hlen : S (List.length pre) = List.length (pre ++ [r])) by (rewrite app_length; cbn; lia).
    rewrite Hlen.
    specialize (IH (pre ++ [r]) (rstate c t r) (paint c t img r)
                   (if Nat.eqb (List.length pre) 0 then ev_unit (rstate c t r) else u) Hrows' Hgood').
    cbv zeta in IH. destruct IH as [IH1 IH2]. split; [exact IH1|].
    rewrite IH2. destruct pre as [|p pre]; cbn; [reflexivity|].
    destruct (pre ++ [r]) eqn:Ep; [destruct pre; discriminate|reflexivity].
Qed.

(* the whole function in closed form *)
Lemma render_eq c t :
  render c t = if accepted c t then Img (unit_of c t (rows t)) (image_of c t (rows t)) else Err.
Proof.
  unfold C18_Model.render, accepted. cbv zeta.
  destruct (valid_map c t (build_map c t)) eqn:Ev; cbn [negb andb]; [|reflexivity].
  destruct (negb (has_shape_col t) && negb (has_bbox c) && match mshape c with None => true | Some _ => false end);
    cbn [negb]; [reflexivity|].
  pose proof (fold_step c t (rows t) [] (pinit c)
                (zeros (ny c) (nx c)) None eq_refl (good_init c t Ev)) as H.
  cbv zeta in H. cbn [List.length] in H.
  destruct (fold_left _ (rows t) _) as [[[i st] img] u].
  unfold acc_img, acc_unit in H. cbn [fst snd] in H. destruct H as [-> ->].
  unfold image_of, unit_of. destruct (rows t); reflexivity.
Qed.

Lemma render_with_rows c t l :
  render c (with_rows t l) = if accepted c t then Img (unit_of c t l) (image_of c t l) else Err.
Proof. rewrite render_eq. reflexivity. Qed.

Lemma with_rows_id t : with_rows t (rows t) = t.
Proof. destruct t; reflexivity. Qed.

(* ------------------------------------------------------------------ *)
(* 6. the property clauses                                             *)
(* ------------------------------------------------------------------ *)

(* accepted / rejected *)
Lemma render_err_iff c t : render c t = Err <-> accepted c t = false.
Proof. rewrite render_eq. destruct (accepted c t); split; congruence. Qed.

Lemma accepted_spec c t : accepted c t = true <->
  (forall k col, In (k, col) (build_map c t) -> In k (pnames c) /\ In col (colnames t)) /\
  (has_shape_col t = true \/ has_bbox c = true \/ mshape c <> None).
Proof.
  unfold accepted, valid_map. rewrite andb_true_iff, forallb_forall, negb_true_iff. split.
  - intros [H1 H2]. split.
    + intros k col Hin. specialize (H1 _ Hin). cbn in H1. apply andb_true_iff in H1.
      rewrite !smem_In in H1. exact H1.
    + destruct (has_shape_col t); [left; reflexivity|]. destruct (has_bbox c); [right; left; reflexivity|].
      destruct (mshape c); [right; right; discriminate|discriminate].
  - intros [H1 H2]. split.
    + intros [k col] Hin. cbn. rewrite andb_true_iff, !smem_In. apply H1, Hin.
    + destruct (has_shape_col t), (has_bbox c), (mshape c); cbn; try reflexivity.
      destruct H2 as [H2|[H2|H2]]; congruence.
Qed.

Lemma render_rect c t u img : render c t = Img u img -> rect (ny c) (nx c) img.
Proof.
  rewrite render_eq. destruct (accepted c t); [|discriminate]. intros [= _ <-]. apply rect_image_of.
Qed.

(* superposition *)
Lemma superposition c t u img : render c t = Img u img ->
  forall y x, 0 <= y < ny c -> 0 <= x < nx c -> pixel img y x = zsum (map (term c t y x) (rows t)).
Proof.
  rewrite render_eq. destruct (accepted c t); [|discriminate]. intros [= _ <-] y x Hy Hx.
  apply pixel_image_of; assumption.
Qed.

(* row order *)
Lemma image_of_perm c t l l' : Permutation l l' -> image_of c t l = image_of c t l'.
Proof.
  intros HP. apply (image_ext (ny c) (nx c)); try apply rect_image_of.
  intros y x Hy Hx. rewrite !pixel_image_of by assumption. apply zsum_map_perm, HP.
Qed.

Lemma same_frame t t' : colnames t' = colnames t -> has_shape_col t' = has_shape_col t ->
  has_bkg_col t' = has_bkg_col t -> t' = with_rows t (rows t').
Proof. destruct t, t'; cbn; intros -> -> ->; reflexivity. Qed.

Lemma row_order c t t' u img :
  colnames t' = colnames t -> has_shape_col t' = has_shape_col t -> has_bkg_col t' = has_bkg_col t ->
  Permutation (rows t) (rows t') ->
  render c t = Img u img ->
  exists u', render c t' = Img u' img /\ (units_uniform c t -> u' = u).
Proof.
  intros H1 H2 H3 HP. rewrite (same_frame t t' H1 H2 H3), render_with_rows, render_eq.
  destruct (accepted c t); [|discriminate]. intros [= <- <-].
  exists (unit_of c t (rows t')). split.
  - f_equal. symmetry. apply image_of_perm, HP.
  - intros HU. unfold unit_of. destruct (rows t') as [|r' l'] eqn:E'.
    + apply Permutation_sym, Permutation_nil in HP. rewrite HP. reflexivity.
    + destruct (rows t) as [|r l] eqn:E; [apply Permutation_nil in HP; discriminate|].
      apply HU; rewrite E; [|left; reflexivity].
      apply (Permutation_in r' (Permutation_sym HP)). left. reflexivity.
Qed.

(* concatenation *)
Lemma image_of_app c t a b : image_of c t (a ++ b) = img_add (image_of c t a) (image_of c t b).
Proof.
  apply (image_ext (ny c) (nx c)).
  - apply rect_image_of.
  - rewrite img_add_zip. apply rect_zip; apply rect_image_of.
  - intros y x Hy Hx. rewrite img_add_zip.
    rewrite (pixel_zip Z.add (ny c) (nx c)) by (try apply rect_image_of; assumption).
    rewrite !pixel_image_of by assumption. rewrite map_app. apply zsum_app.
Qed.

Lemma concat c t a b u img : render c (with_rows t (a ++ b)) = Img u img ->
  exists ua ia ub ib, render c (with_rows t a) = Img ua ia /\ render c (with_rows t b) = Img ub ib /\
                      img = img_add ia ib.
Proof.
  rewrite !render_with_rows. destruct (accepted c t); [|discriminate]. intros [= _ <-].
  do 4 eexists. split; [reflexivity|]. split; [reflexivity|]. apply image_of_app.
Qed.

(* rows that do not overlap *)
Lemma overlaps_false_term c t r : overlaps c t r = false -> forall y x, term c t y x r = 0.
Proof.
  unfold C18_Model.overlaps, C18_Model.term. intros H y x.
  destruct (overlap_slices _ _ _ _ _) eqn:E; [discriminate|].
  destruct (in_windowb c t r y x) eqn:Eb; [|reflexivity].
  apply in_windowb_spec in Eb. exfalso. exact (overlap_none _ _ _ _ _ E y x Eb).
Qed.

Lemma overlaps_iff c t r : 0 <= ny c -> 0 <= nx c -> 0 <= fst (shape_of c t r) -> 0 <= snd (shape_of c t r) ->
  (overlaps c t r = true <-> exists y x, in_window c t r y x).
Proof.
  intros Hny Hnx Hsy Hsx.
  unfold C18_Model.overlaps. destruct (overlap_slices _ _ _ _ _) as [w|] eqn:E; split.
  - intros _. exact (overlap_some_nonempty _ _ _ _ _ _ Hny Hnx Hsy Hsx E).
  - reflexivity.
  - discriminate.
  - intros [y [x H]]. exfalso. exact (overlap_none _ _ _ _ _ E y x H).
Qed.

Lemma zsum_filter_terms c t y x l :
  zsum (map (term c t y x) (filter (overlaps c t) l)) = zsum (map (term c t y x) l).
Proof.
  induction l as [|r l IH]; [reflexivity|]. cbn [filter].
  destruct (overlaps c t r) eqn:E; unfold zsum in *; cbn; [rewrite IH; reflexivity|].
  rewrite (overlaps_false_term c t r E). lia.
Qed.

Lemma image_of_filter c t l : image_of c t (filter (overlaps c t) l) = image_of c t l.
Proof.
  apply (image_ext (ny c) (nx c)); try apply rect_image_of.
  intros y x Hy Hx. rewrite !pixel_image_of by assumption. apply zsum_filter_terms.
Qed.

Lemma skipped c t u img : render c t = Img u img ->
  exists u', render c (with_rows t (filter (overlaps c t) (rows t))) = Img u' img /\
             (units_uniform c t -> filter (overlaps c t) (rows t) <> [] -> u' = u).
Proof.
  rewrite render_with_rows, render_eq. destruct (accepted c t); [|discriminate]. intros [= <- <-].
  eexists. split; [rewrite image_of_filter; reflexivity|].
  intros HU Hne. unfold unit_of.
  destruct (filter (overlaps c t) (rows t)) as [|r' l'] eqn:E'; [congruence|].
  assert (Hin : In r' (rows t)).
  { assert (H : In r' (filter (overlaps c t) (rows t))) by (rewrite E'; left; reflexivity).
    apply filter_In in H. apply H. }
  destruct (rows t) as [|r l] eqn:E; [destruct Hin|].
  apply HU; rewrite E; [exact Hin|left; reflexivity].
Qed.

Lemma skipped_insert c t a r b u img : overlaps c t r = false ->
  render c (with_rows t (a ++ r :: b)) = Img u img ->
  exists u', render c (with_rows t (a ++ b)) = Img u' img.
Proof.
  intros Hno. rewrite !render_with_rows. destruct (accepted c t); [|discriminate]. intros [= _ <-].
  eexists. f_equal.
  apply (image_ext (ny c) (nx c)); try apply rect_image_of.
  intros y x Hy Hx. rewrite !pixel_image_of by assumption.
  rewrite !map_app, !zsum_app. cbn [map].
  change (zsum (term c t y x r :: map (term c t y x) b))
    with (term c t y x r + zsum (map (term c t y x) b)).
  rewrite (overlaps_false_term c t r Hno). lia.
Qed.

(* units *)
Lemma units c t u img : render c t = Img u img -> units_uniform c t ->
  forall r, In r (rows t) -> u = ev_unit (rstate c t r).
Proof.
  rewrite render_eq. destruct (accepted c t); [|discriminate]. intros [= <- _] HU r Hin.
  unfold unit_of. destruct (rows t) as [|r0 l] eqn:E; [destruct Hin|].
  apply HU; rewrite E; [left; reflexivity|exact Hin].
Qed.

Lemma units_first c t u img r l : render c t = Img u img -> rows t = r :: l -> u = ev_unit (rstate c t r).
Proof.
  rewrite render_eq. destruct (accepted c t); [|discriminate]. intros [= <- _] ->. reflexivity.
Qed.

(* residual *)
Lemma residual_spec c t data res : rect (ny c) (nx c) data ->
  residual ev bbox_shape ev_unit c t data = Some res ->
  rect (ny c) (nx c) res /\
  exists u img, render c t = Img u img /\
    forall y x, 0 <= y < ny c -> 0 <= x < nx c ->
      pixel res y x = pixel data y x - pixel img y x /\
      pixel res y x = pixel data y x - zsum (map (term c t y x) (rows t)).
Proof.
  intros Hd. unfold residual. destruct (render c t) as [|u img] eqn:E; [discriminate|]. intros [= <-].
  pose proof (render_rect c t u img E) as Hi. rewrite sub_image_zip. split.
  - apply rect_zip; assumption.
  - exists u, img. split; [reflexivity|]. intros y x Hy Hx.
    rewrite (pixel_zip Z.sub (ny c) (nx c)) by assumption.
    rewrite (superposition c t u img E y x Hy Hx). split; reflexivity.
Qed.

Lemma residual_none_iff c t data : residual ev bbox_shape ev_unit c t data = None <-> render c t = Err.
Proof. unfold residual. destruct (render c t); split; congruence. Qed.

(* translation covariance *)
Lemma in_box_shift pos8 sh k d : in_box (pos8 + 8 * d) sh (k + d) <-> in_box pos8 sh k.
Proof. unfold in_box. lia. Qed.

Lemma shift c t c' t' (f : row -> row) dy dx :
  rows t' = map f (rows t) ->
  (forall r, In r (rows t) ->
     row_y8 c' t' (f r) = row_y8 c t r + 8 * dy /\ row_x8 c' t' (f r) = row_x8 c t r + 8 * dx /\
     shape_of c' t' (f r) = shape_of c t r /\ bkg_of t' (f r) = bkg_of t r /\
     forall y x, ev (rstate c' t' (f r)) (y + dy) (x + dx) = ev (rstate c t r) y x) ->
  forall u img u' img', render c t = Img u img -> render c' t' = Img u' img' ->
  forall y x, 0 <= y < ny c -> 0 <= x < nx c -> 0 <= y + dy < ny c' -> 0 <= x + dx < nx c' ->
    pixel img' (y + dy) (x + dx) = pixel img y x.
Proof.
  intros Hrows Hf u img u' img' E E' y x Hy Hx Hy' Hx'.
  rewrite (superposition c t u img E y x Hy Hx), (superposition c' t' u' img' E' _ _ Hy' Hx').
  rewrite Hrows, map_map. f_equal. apply map_ext_in. intros r Hin.
  destruct (Hf r Hin) as (Ey & Ex & Es & Eb & Ee).
  unfold C18_Model.term.
  assert (Hw : in_windowb c' t' (f r) (y + dy) (x + dx) = in_windowb c t r y x).
  { apply eq_true_iff_eq. rewrite !in_windowb_spec. unfold C18_Model.in_window.
    rewrite Ey, Ex, Es, !in_box_shift. tauto. }
  rewrite Hw, Ee, Eb. reflexivity.
Qed.

End Loop.

(* ------------------------------------------------------------------ *)
(* 7. the polynomial test model is translation covariant; witnesses    *)
(* ------------------------------------------------------------------ *)
Lemma poly_ev_shift mode st st' dy dx :
  pval 0 st' = pval 0 st -> pval 3 st' = pval 3 st -> pval 4 st' = pval 4 st -> pval 5 st' = pval 5 st ->
  pval 1 st' = pval 1 st + 8 * dx -> pval 2 st' = pval 2 st + 8 * dy ->
  forall y x, poly_ev mode st' (y + dy) (x + dx) = poly_ev mode st y x.
Proof.
  intros H0 H3 H4 H5 H1 H2 y x. unfold poly_ev. f_equal. f_equal.
  apply flat_map_ext. intros oy. apply map_ext. intros ox.
  unfold poly_point. rewrite H0, H1, H2, H3, H4, H5.
  replace (8 * (x + dx) + ox - (pval 1 st + 8 * dx)) with (8 * x + ox - pval 1 st) by lia.
  replace (8 * (y + dy) + oy - (pval 2 st + 8 * dy)) with (8 * y + oy - pval 2 st) by lia.
  reflexivity.
Qed.

Module Witness.
Definition names : list string := ["flux"; "x_0"; "y_0"; "tx"; "ty"; "q"; "r"]%string.
Definition cfg (ny nx : Z) (ms : option (Z * Z)) : config :=
  {| ny := ny; nx := nx; pinit := combine names [8; 0; 0; 8; -8; 4; 8]; has_bbox := true;
     x_name := "x_0"; y_name := "y_0"; pmap := None; mshape := ms; bfactor := None |}.
Definition tbl (l : list (list Z)) : table :=
  {| colnames := ["x_0"; "y_0"; "flux"]%string; has_shape_col := false; has_bkg_col := true;
     rows := map (fun v => {| rvals := v; rshape := (0, 0); rbkg := 65536 |}) l |}.
(* shift a row by (dy, dx) pixels: x_0 is column 0, y_0 column 1 *)
Definition shift_row (dy dx : Z) (r : row) : row :=
  match rvals r with
  | x :: y :: rest => {| rvals := x + 8 * dx :: y + 8 * dy :: rest; rshape := rshape r; rbkg := rbkg r |}
  | _ => r
  end.
(* two sources, one of them clipped by the lower-left corner; 3x3 windows; 5x6 image *)
Definition c1 := cfg 5 6 (Some (3, 3)).
Definition t1 := tbl [[4; 0; 16]; [28; 20; -8]].
Definition t1s := with_rows t1 (map (shift_row 1 2) (rows t1)).
End Witness.

Lemma witness_shift_hyps :
  forall r, In r (rows Witness.t1) ->
     row_y8 (with_shape Witness.c1 7 9) Witness.t1s (Witness.shift_row 1 2 r) = row_y8 Witness.c1 Witness.t1 r + 8 * 1 /\
     row_x8 (with_shape Witness.c1 7 9) Witness.t1s (Witness.shift_row 1 2 r) = row_x8 Witness.c1 Witness.t1 r + 8 * 2 /\
     shape_of poly_bbox (with_shape Witness.c1 7 9) Witness.t1s (Witness.shift_row 1 2 r)
       = shape_of poly_bbox Witness.c1 Witness.t1 r /\
     bkg_of Witness.t1s (Witness.shift_row 1 2 r) = bkg_of Witness.t1 r /\
     forall y x, poly_ev 2 (rstate (with_shape Witness.c1 7 9) Witness.t1s (Witness.shift_row 1 2 r)) (y + 1) (x + 2)
                 = poly_ev 2 (rstate Witness.c1 Witness.t1 r) y x.
Proof.
  intros r Hin. cbn in Hin. destruct Hin as [<-|[<-|[]]].
  - do 4 (split; [vm_compute; reflexivity|]). apply poly_ev_shift; vm_compute; reflexivity.
  - do 4 (split; [vm_compute; reflexivity|]). apply poly_ev_shift; vm_compute; reflexivity.
Qed.

(* ------------------------------------------------------------------ *)
(* 8. the unrepaired loop: whenever it returns, it returns the same image *)
(* ------------------------------------------------------------------ *)
Lemma overlap_orig_none arr ny nx sh y8 x8 :
  overlap_slices_orig arr ny nx sh y8 x8 = OvNone -> overlap_slices ny nx sh y8 x8 = None.
Proof.
  unfold overlap_slices_orig. destruct sh as [shy shx]. cbn [fst snd].
  destruct (overlap_slices ny nx (shy, shx) y8 x8) as [w|] eqn:E; [|reflexivity].
  unfold overlap_slices in E. cbv zeta in E.
  destruct arr; [|discriminate].
  destruct (e_min y8 shy + shy <? 0) eqn:A1.
  - intros _. cbn [orb] in E. discriminate.
  - destruct (e_min y8 shy + shy =? 0); [discriminate|].
    destruct (e_min x8 shx + shx <? 0) eqn:A2.
    + intros _. cbn [orb andb] in E. discriminate.
    + destruct (e_min x8 shx + shx =? 0); discriminate.
Qed.

Lemma overlap_orig_some arr ny nx sh y8 x8 w :
  overlap_slices_orig arr ny nx sh y8 x8 = OvSome w -> overlap_slices ny nx sh y8 x8 = Some w.
Proof.
  unfold overlap_slices_orig.
  destruct (overlap_slices ny nx sh y8 x8) as [w'|].
  - destruct arr; [|intros [= ->]; reflexivity].
    destruct (_ <? 0); [discriminate|]. destruct (_ =? 0); [discriminate|].
    destruct (_ <? 0); [discriminate|]. destruct (_ =? 0); [discriminate|].
    intros [= ->]. reflexivity.
  - destruct arr; [|discriminate].
    destruct (_ <? 0); [discriminate|]. destruct (_ =? 0); [discriminate|].
    destruct (_ <? 0); [discriminate|]. destruct (_ =? 0); discriminate.
Qed.

Section Orig.
Variable ev : pstate -> Z -> Z -> Z.
Variable bbox_shape : option Z -> pstate -> Z * Z.
Variable ev_unit : pstate -> option Z.
Variable c : config.
Variable t : table.
Variable m : dict string.
Variable shapes : list (Z * Z).
Variable bkgs : list Z.
Notation sorig := (step_orig ev bbox_shape ev_unit c t m shapes bkgs).
Notation snew := (step ev bbox_shape ev_unit c t m shapes bkgs).

Lemma fold_orig_none l : fold_left sorig l None = None.
Proof. induction l as [|r l IH]; [reflexivity|exact IH]. Qed.

Lemma fold_orig_agrees l : forall i st img u u0 i' st' img' u',
  fold_left sorig l (Some (i, st, img, u)) = Some (i', st', img', u') ->
  acc_img (fold_left snew l (i, st, img, u0)) = img'.
Proof.
  induction l as [|r l IH]; intros i st img u u0 i' st' img' u' H.
  - cbn in H. injection H as _ _ <- _. reflexivity.
  - cbn [fold_left] in *.
    unfold step_orig at 2 in H. unfold step at 2. cbv zeta in *.
    set (sta := assign m (colnames t) r st) in *.
    set (sh := if has_shape_col t then nth i shapes (0, 0)
               else match mshape c with None => bbox_shape (bfactor c) sta | Some s => s end) in *.
    destruct (overlap_slices_orig _ (ny c) (nx c) sh (pget (y_name c) sta) (pget (x_name c) sta)) as [| |w] eqn:E.
    + rewrite fold_orig_none in H. discriminate.
    + rewrite (overlap_orig_none _ _ _ _ _ _ E). eapply IH, H.
    + rewrite (overlap_orig_some _ _ _ _ _ _ _ E).
      destruct (ev_unit sta) as [un|] eqn:Eu.
      * destruct (if Nat.eqb i 0 then Some un else u) eqn:Eu'.
        -- eapply IH, H.
        -- rewrite fold_orig_none in H. discriminate.
      * eapply IH, H.
Qed.
End Orig.

Lemma render_orig_agrees ev bbox_shape ev_unit c t u img :
  render_orig ev bbox_shape ev_unit c t = Img u img ->
  exists u', render ev bbox_shape ev_unit c t = Img u' img.
Proof.
  unfold render_orig. destruct (accepted c t) eqn:Ea; cbn [negb]; [|discriminate].
  destruct (fold_left _ (rows t) _) as [[[[i st] img'] u']|] eqn:E; [|discriminate].
  intros [= <- <-].
  pose proof (fold_orig_agrees ev bbox_shape ev_unit c t _ _ _ (rows t) _ _ _ _ None _ _ _ _ E) as H.
  unfold C18_Model.render. cbv zeta.
  unfold accepted in Ea. apply andb_true_iff in Ea. destruct Ea as [Ev Es].
  rewrite Ev. cbn [negb]. apply negb_true_iff in Es. rewrite Es.
  destruct (fold_left _ (rows t) (0%nat, pinit c, zeros (ny c) (nx c), None)) as [[[i2 st2] img2] u2].
  unfold acc_img in H. cbn [fst snd] in H. subst img2. eexists. reflexivity.
Qed.
