(* C01 -- TRANSLATOR TIE.  gen/Gen_bbox.v and gen/Gen_apcore.v are REGENERATED from the current source
   text of photutils/aperture/bounding_box.py and photutils/aperture/core.py on every run
   (harness/translate_all.py, harness/py2coq.py); they are not committed.  This committed file proves,
   for ALL inputs, that every regenerated definition equals the hand-written model function of
   C01_Model.v the property theorems are about, and then restates the main C01 theorems for the
   regenerated definitions.  A behaviour-changing edit of the Python source breaks a proof here; a
   harmless rewrite still proves (the tactics only unfold, split on conditions and call lia / lra / ring)
   or fails closed.

   Representation: an object argument is one argument per field (a BoundingBox b is passed as
   ixmin b, ixmax b, iymin b, iymax b and returned as [ofbox b]); a function that can raise returns
   [res T].  BoundingBox.__init__ (not in the hand-written model: the model builds boxes with [mkbox])
   is specified here by [box_init]. *)
From Coq Require Import ZArith QArith Qround Qabs Qminmax List Bool String Lia Lqa ZifyBool.
From PV Require Import lib.Cases lib.PyGen C01_Model C01_Proofs gen.Gen_bbox gen.Gen_apcore.
Import ListNotations.
Open Scope Z_scope.

(* ---------- BoundingBox.__init__ ---------- *)
Definition box_valid (b : box) : bool := (ixmin b <=? ixmax b) && (iymin b <=? iymax b).
Definition box_init (b : box) : res (Z * Z * Z * Z) :=
  if box_valid b then Ok (ofbox b) else Raise ValueError.

Ltac unfold_gen :=
  unfold gen_bbox_and, gen_bbox_or, gen_bbox_intersection, gen_bbox_union, gen_from_float, gen_bbox_init,
         gen_get_overlap_slices, gen_bbox_shape, gen_bbox_extent, gen_bbox_center.
Ltac unfold_model :=
  unfold box_init, box_valid, ofbox, overlap_slices, box_union, box_inter, from_float, box_shape, centered_edges, half;
  cbn [ixmin ixmax iymin iymax].

(* the constructor accepts exactly ixmin <= ixmax, iymin <= iymax and stores the four integers *)
Theorem gen_bbox_init_eq : forall a b c d, gen_bbox_init a b c d = box_init (mkbox a b c d).
Proof. intros. unfold_gen. unfold_model. if_split; z_leaf. Qed.

Lemma mkbox_eq a b c d a' b' c' d' : a = a' -> b = b' -> c = c' -> d = d' -> mkbox a b c d = mkbox a' b' c' d'.
Proof. intros; subst; reflexivity. Qed.
Lemma res4_eta (r : res (Z * Z * Z * Z)) :
  match r with Raise e => Raise e | Ok (a, b, c, d) => Ok (a, b, c, d) end = r.
Proof. destruct r as [[[[? ?] ?] ?]|]; reflexivity. Qed.

(* ---------- from_float ---------- *)
Theorem gen_from_float_eq : forall xmin xmax ymin ymax,
  gen_from_float xmin xmax ymin ymax = box_init (from_float xmin xmax ymin ymax).
Proof.
  intros. unfold gen_from_float. cbv zeta. rewrite gen_bbox_init_eq, res4_eta.
  apply (f_equal box_init). unfold from_float, half. apply mkbox_eq; qz_scalar.
Qed.

Lemma from_float_valid xmin xmax ymin ymax :
  (xmin <= xmax)%Q -> (ymin <= ymax)%Q -> box_valid (from_float xmin xmax ymin ymax) = true.
Proof.
  intros Hx Hy. unfold box_valid, from_float, half; cbn [ixmin ixmax iymin iymax].
  assert (F : forall a b : Q, (a <= b)%Q -> Qfloor (a + (1 # 2)) <= Qceiling (b + (1 # 2))).
  { intros a b Hab. rewrite Zle_Qle.
    pose proof (Qfloor_le (a + (1 # 2))). pose proof (Qle_ceiling (b + (1 # 2))). lra. }
  apply andb_true_intro; split; apply Z.leb_le; apply F; assumption.
Qed.

Print Assumptions from_float_valid.

(* for a rectangle xmin <= xmax, ymin <= ymax the classmethod returns the model's box *)
Theorem gen_from_float_ok : forall xmin xmax ymin ymax, (xmin <= xmax)%Q -> (ymin <= ymax)%Q ->
  gen_from_float xmin xmax ymin ymax = Ok (ofbox (from_float xmin xmax ymin ymax)).
Proof.
  intros. rewrite gen_from_float_eq. unfold box_init. rewrite from_float_valid by assumption. reflexivity.
Qed.

(* ---------- shape / extent / center ---------- *)
Theorem gen_bbox_shape_eq : forall b, gen_bbox_shape (ixmin b) (ixmax b) (iymin b) (iymax b) = box_shape b.
Proof. intros. unfold_gen. unfold_model. z_leaf. Qed.

(* extent = the pixel-edge rectangle (ixmin - 1/2, ixmax - 1/2, iymin - 1/2, iymax - 1/2), i.e. the
   model's centered_edges for position (0, 0) *)
Definition q4_eq (a b : Q * Q * Q * Q) : Prop :=
  let '(a1, a2, a3, a4) := a in let '(b1, b2, b3, b4) := b in (a1 == b1 /\ a2 == b2 /\ a3 == b3 /\ a4 == b4)%Q.
Theorem gen_bbox_extent_eq : forall b,
  q4_eq (gen_bbox_extent (ixmin b) (ixmax b) (iymin b) (iymax b)) (centered_edges b 0 0).
Proof. intros. unfold_gen. unfold_model. unfold q4_eq. repeat split; ring. Qed.

(* center = midpoint of the extent, in (y, x) order *)
Theorem gen_bbox_center_mid : forall b,
  let '(cy, cx) := gen_bbox_center (ixmin b) (ixmax b) (iymin b) (iymax b) in
  let '(x0, x1, y0, y1) := gen_bbox_extent (ixmin b) (ixmax b) (iymin b) (iymax b) in
  (cx == (x0 + x1) / 2 /\ cy == (y0 + y1) / 2)%Q.
Proof.
  intros. unfold_gen. split; rewrite inject_Z_plus, inject_Z_sub; field.
Qed.

(* ---------- get_overlap_slices ---------- *)
Definition slices_pair (o : option ((zslc * zslc) * (zslc * zslc))) :
  option (zslc * zslc) * option (zslc * zslc) :=
  match o with None => (None, None) | Some (l, s) => (Some l, Some s) end.

Theorem gen_get_overlap_slices_eq : forall b ny nx,
  gen_get_overlap_slices (ixmin b) (ixmax b) (iymin b) (iymax b) ny nx = slices_pair (overlap_slices b ny nx).
Proof. intros. unfold_gen. unfold_model. unfold slices_pair. if_split; z_leaf. Qed.

(* ---------- union / intersection, | and & ---------- *)
Theorem gen_bbox_union_eq : forall a b,
  gen_bbox_union (ixmin a) (ixmax a) (iymin a) (iymax a) (ixmin b) (ixmax b) (iymin b) (iymax b)
  = box_init (box_union a b).
Proof.
  intros. unfold gen_bbox_union. cbv zeta. rewrite gen_bbox_init_eq, res4_eta.
  apply (f_equal box_init). unfold box_union. apply mkbox_eq; lia.
Qed.

Theorem gen_bbox_union_ok : forall a b, box_valid a = true -> box_valid b = true ->
  gen_bbox_union (ixmin a) (ixmax a) (iymin a) (iymax a) (ixmin b) (ixmax b) (iymin b) (iymax b)
  = Ok (ofbox (box_union a b)).
Proof.
  intros a b Ha Hb. rewrite gen_bbox_union_eq. revert Ha Hb. unfold_model. intros Ha Hb. if_split; z_leaf.
Qed.

Theorem gen_bbox_intersection_eq : forall a b,
  gen_bbox_intersection (ixmin a) (ixmax a) (iymin a) (iymax a) (ixmin b) (ixmax b) (iymin b) (iymax b)
  = Ok (option_map ofbox (box_inter a b)).
Proof.
  intros. unfold gen_bbox_intersection. cbv zeta. rewrite gen_bbox_init_eq. unfold_model.
  if_split; cbn [option_map ofbox ixmin ixmax iymin iymax]; z_leaf.
Qed.

Theorem gen_bbox_or_eq : forall a b,
  gen_bbox_or (ixmin a) (ixmax a) (iymin a) (iymax a) (ixmin b) (ixmax b) (iymin b) (iymax b)
  = box_init (box_union a b).
Proof. intros. unfold gen_bbox_or. rewrite gen_bbox_union_eq. apply res4_eta. Qed.

Theorem gen_bbox_and_eq : forall a b,
  gen_bbox_and (ixmin a) (ixmax a) (iymin a) (iymax a) (ixmin b) (ixmax b) (iymin b) (iymax b)
  = Ok (option_map ofbox (box_inter a b)).
Proof.
  intros. unfold gen_bbox_and. rewrite gen_bbox_intersection_eq.
  destruct (box_inter a b) as [[? ? ? ?]|]; reflexivity.
Qed.

(* ---------- PixelAperture._translate_mask_mode ---------- *)
Open Scope string_scope.
(* the model's integer code of a mode string; 3 = any other string *)
Definition mode_code (m : string) : Z :=
  if String.eqb m "center" then 0 else if String.eqb m "subpixel" then 1 else if String.eqb m "exact" then 2 else 3.
Definition mode_result (o : option (bool * Z)) : res (Z * Z) :=
  match o with
  | None => Raise ValueError
  | Some (use_exact, s) => Ok ((if use_exact then 1 else 0), s)
  end.

Theorem gen_translate_mask_mode_eq : forall mode subpixels rectangle,
  gen_translate_mask_mode mode subpixels rectangle
  = mode_result (translate_mode (mode_code mode) subpixels rectangle).
Proof.
  intros. unfold gen_translate_mask_mode, mode_code, translate_mode, mode_result.
  s_split; destruct rectangle; cbn; if_split; first [reflexivity | discriminate | lia].
Qed.
Close Scope string_scope.

(* ====================================================================================== *)
(* The main C01 theorems, restated for the REGENERATED definitions                         *)
(* ====================================================================================== *)

(* 1. from_float returns the smallest integer pixel box containing the float rectangle *)
Theorem gen_from_float_minimal : forall xmin xmax ymin ymax, (xmin <= xmax)%Q -> (ymin <= ymax)%Q ->
  exists i0 i1 j0 j1, gen_from_float xmin xmax ymin ymax = Ok (i0, i1, j0, j1) /\
  ((inject_Z i0 - half <= xmin /\ xmax <= inject_Z i1 - half /\
    inject_Z j0 - half <= ymin /\ ymax <= inject_Z j1 - half)%Q /\
   (forall a0 a1 c0 c1 : Z,
     (inject_Z a0 - half <= xmin)%Q -> (xmax <= inject_Z a1 - half)%Q ->
     (inject_Z c0 - half <= ymin)%Q -> (ymax <= inject_Z c1 - half)%Q ->
     a0 <= i0 /\ i1 <= a1 /\ c0 <= j0 /\ j1 <= c1)).
Proof.
  intros xmin xmax ymin ymax Hx Hy.
  exists (ixmin (from_float xmin xmax ymin ymax)), (ixmax (from_float xmin xmax ymin ymax)),
         (iymin (from_float xmin xmax ymin ymax)), (iymax (from_float xmin xmax ymin ymax)).
  split; [apply gen_from_float_ok; assumption | exact (from_float_smallest xmin xmax ymin ymax)].
Qed.

(* a degenerate rectangle (xmax < xmin by a pixel or more) is rejected by the constructor *)
Theorem gen_from_float_rejects : forall xmin xmax ymin ymax,
  box_valid (from_float xmin xmax ymin ymax) = false ->
  gen_from_float xmin xmax ymin ymax = Raise ValueError.
Proof. intros * H. rewrite gen_from_float_eq. unfold box_init. rewrite H. reflexivity. Qed.

(* 2. get_overlap_slices: (None, None) iff box and image share no pixel *)
Theorem gen_overlap_slices_none_iff : forall (b : box) (ny nx : Z),
  ixmin b < ixmax b -> iymin b < iymax b ->
  (gen_get_overlap_slices (ixmin b) (ixmax b) (iymin b) (iymax b) ny nx = (None, None)
   <-> forall y x, ~ (in_box b y x /\ in_img ny nx y x)).
Proof.
  intros b ny nx Hx Hy. rewrite gen_get_overlap_slices_eq, <- (overlap_none b ny nx Hx Hy).
  destruct (overlap_slices b ny nx) as [[l s]|]; cbn; split; intro H; try reflexivity; discriminate.
Qed.

(* otherwise slices_large enumerates exactly the common pixels and slices_small the same pixels
   relative to the box origin, both inside the arrays they index *)
Theorem gen_overlap_slices_exact : forall (b : box) ny nx ly0 ly1 lx0 lx1 sy0 sy1 sx0 sx1,
  gen_get_overlap_slices (ixmin b) (ixmax b) (iymin b) (iymax b) ny nx
    = (Some ((ly0, ly1), (lx0, lx1)), Some ((sy0, sy1), (sx0, sx1))) ->
  (forall y x, (ly0 <= y < ly1 /\ lx0 <= x < lx1) <-> (in_box b y x /\ in_img ny nx y x)) /\
  sy0 = ly0 - iymin b /\ sy1 = ly1 - iymin b /\ sx0 = lx0 - ixmin b /\ sx1 = lx1 - ixmin b /\
  0 <= ly0 /\ ly1 <= ny /\ 0 <= lx0 /\ lx1 <= nx /\
  0 <= sy0 /\ sy1 <= iymax b - iymin b /\ 0 <= sx0 /\ sx1 <= ixmax b - ixmin b /\
  (ixmin b < ixmax b -> iymin b < iymax b -> ly0 < ly1 /\ lx0 < lx1).
Proof.
  intros * H. rewrite gen_get_overlap_slices_eq in H. apply overlap_some.
  destruct (overlap_slices b ny nx) as [[l s]|]; cbn in H; [|discriminate].
  injection H as -> ->. reflexivity.
Qed.

(* the two results are None together *)
Theorem gen_overlap_slices_both_or_none : forall b ny nx,
  let r := gen_get_overlap_slices (ixmin b) (ixmax b) (iymin b) (iymax b) ny nx in
  (fst r = None <-> snd r = None).
Proof.
  intros. subst r. rewrite gen_get_overlap_slices_eq.
  destruct (overlap_slices b ny nx) as [[l s]|]; cbn; split; intro; try reflexivity; discriminate.
Qed.

(* 3. union is the smallest box containing both; intersection holds exactly the common pixels *)
Theorem gen_union_smallest : forall a b, box_valid a = true -> box_valid b = true ->
  exists u, gen_bbox_union (ixmin a) (ixmax a) (iymin a) (iymax a) (ixmin b) (ixmax b) (iymin b) (iymax b)
            = Ok (ofbox u) /\
  (forall y x, in_box a y x \/ in_box b y x -> in_box u y x) /\
  (forall c, ixmin a < ixmax a -> iymin a < iymax a -> ixmin b < ixmax b -> iymin b < iymax b ->
     (forall y x, in_box a y x \/ in_box b y x -> in_box c y x) ->
     ixmin c <= ixmin u /\ ixmax u <= ixmax c /\ iymin c <= iymin u /\ iymax u <= iymax c).
Proof.
  intros a b Ha Hb. exists (box_union a b). split; [apply gen_bbox_union_ok; assumption|].
  exact (union_smallest a b).
Qed.

Theorem gen_intersection_common_pixels : forall a b,
  exists r, gen_bbox_intersection (ixmin a) (ixmax a) (iymin a) (iymax a) (ixmin b) (ixmax b) (iymin b) (iymax b)
            = Ok (option_map ofbox r) /\
  match r with
  | Some i => forall y x, in_box i y x <-> (in_box a y x /\ in_box b y x)
  | None => forall y x, ~ (in_box a y x /\ in_box b y x)
  end.
Proof.
  intros a b. exists (box_inter a b). split; [apply gen_bbox_intersection_eq | exact (intersection_exact a b)].
Qed.

(* 5. 'center' is 'subpixel' with subpixels = 1; for rectangles 'exact' is 'subpixel' with 32 *)
Theorem gen_center_is_subpixel_one : forall s rect,
  gen_translate_mask_mode "center" s rect = gen_translate_mask_mode "subpixel" 1 rect.
Proof.
  intros. rewrite !gen_translate_mask_mode_eq. change (mode_code "center") with 0. change (mode_code "subpixel") with 1.
  rewrite center_is_subpixel_1_any. reflexivity.
Qed.

Theorem gen_rectangle_exact_is_subpixel_32 : forall s,
  gen_translate_mask_mode "exact" s true = gen_translate_mask_mode "subpixel" 32 true.
Proof.
  intros. rewrite !gen_translate_mask_mode_eq. change (mode_code "exact") with 2. change (mode_code "subpixel") with 1.
  rewrite rectangle_exact_is_subpixel_32. reflexivity.
Qed.

(* an unknown mode string, or subpixels <= 0 in 'subpixel' mode, raises ValueError -- never UnboundLocalError *)
Theorem gen_translate_mask_mode_errors : forall mode s rect e,
  gen_translate_mask_mode mode s rect = Raise e -> e = ValueError.
Proof.
  intros * H. rewrite gen_translate_mask_mode_eq in H.
  destruct (translate_mode (mode_code mode) s rect) as [[u z]|]; cbn in H; congruence.
Qed.

Print Assumptions gen_bbox_init_eq.
Print Assumptions mkbox_eq.
Print Assumptions res4_eta.
Print Assumptions gen_from_float_eq.
Print Assumptions gen_from_float_ok.
Print Assumptions gen_bbox_shape_eq.
Print Assumptions gen_bbox_extent_eq.
Print Assumptions gen_bbox_center_mid.
Print Assumptions gen_get_overlap_slices_eq.
Print Assumptions gen_bbox_union_eq.
Print Assumptions gen_bbox_union_ok.
Print Assumptions gen_bbox_intersection_eq.
Print Assumptions gen_bbox_or_eq.
Print Assumptions gen_bbox_and_eq.
Print Assumptions gen_translate_mask_mode_eq.
Print Assumptions gen_from_float_minimal.
Print Assumptions gen_from_float_rejects.
Print Assumptions gen_overlap_slices_none_iff.
Print Assumptions gen_overlap_slices_exact.
Print Assumptions gen_overlap_slices_both_or_none.
Print Assumptions gen_union_smallest.
Print Assumptions gen_intersection_common_pixels.
Print Assumptions gen_center_is_subpixel_one.
Print Assumptions gen_rectangle_exact_is_subpixel_32.
Print Assumptions gen_translate_mask_mode_errors.
