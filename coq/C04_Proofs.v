From Coq Require Import List Arith ZArith Bool Lia Relations Sorted Permutation.
From PV Require Import lib.Cases lib.Conn C04_Model.
Import ListNotations.

(* ---------- generic list facts ---------- *)
Lemma count_occ_positions (l : list nat) x :
  count_occ Nat.eq_dec l x = length (filter (fun i => nth i l 0 =? x) (seq 0 (length l))).
Proof.
  induction l as [|a l IH] using rev_ind; [reflexivity|].
  rewrite count_occ_app, app_length. cbn [length]. rewrite Nat.add_1_r, seq_S, filter_app, app_length.
  f_equal.
  - rewrite IH. f_equal. apply filter_ext_in. intros i Hi. apply in_seq in Hi.
    rewrite app_nth1 by lia. reflexivity.
  - cbn. rewrite app_nth2, Nat.sub_diag by lia. cbn.
    destruct (Nat.eq_dec a x) as [->|Hne].
    + rewrite Nat.eqb_refl. reflexivity.
    + apply Nat.eqb_neq in Hne. rewrite Hne. reflexivity.
Qed.

Lemma NoDup_filter_seq f a n : NoDup (filter f (seq a n)).
Proof. apply NoDup_filter, seq_NoDup. Qed.

Lemma same_elems_length (l1 l2 : list nat) :
  NoDup l1 -> NoDup l2 -> (forall x, In x l1 <-> In x l2) -> length l1 = length l2.
Proof. intros H1 H2 H. apply Permutation_length, NoDup_Permutation; auto. Qed.

Lemma sorted_filter_seq f a n : StronglySorted lt (filter f (seq a n)).
Proof.
  revert a; induction n as [|n IH]; intros a; cbn; [constructor|].
  destruct (f a).
  - constructor; [apply IH|]. apply Forall_forall. intros x Hx.
    apply filter_In in Hx. destruct Hx as [Hx _]. apply in_seq in Hx. lia.
  - apply IH.
Qed.

Lemma index_of_lt x l : In x l -> index_of x l < length l.
Proof.
  induction l as [|a l IH]; [intros []|]. intros Hin. cbn.
  destruct (a =? x) eqn:E; [lia|]. apply Nat.eqb_neq in E.
  destruct Hin as [->|Hin]; [congruence|]. specialize (IH Hin). lia.
Qed.

Lemma index_of_nth x l : In x l -> nth (index_of x l) l 0 = x.
Proof.
  induction l as [|a l IH]; [intros []|]. intros Hin. cbn.
  destruct (a =? x) eqn:E; [apply Nat.eqb_eq in E; auto|]. apply Nat.eqb_neq in E.
  destruct Hin as [->|Hin]; [congruence|auto].
Qed.

Lemma index_of_inj x y l : In x l -> In y l -> index_of x l = index_of y l -> x = y.
Proof. intros Hx Hy E. rewrite <- (index_of_nth x l Hx), <- (index_of_nth y l Hy), E. reflexivity. Qed.

Lemma index_of_nth_nodup i l : NoDup l -> i < length l -> index_of (nth i l 0) l = i.
Proof.
  revert i; induction l as [|a l IH]; intros i Hnd Hi; [cbn in Hi; lia|].
  inversion Hnd as [|? ? Hnotin Hnd']; subst. destruct i as [|i]; cbn.
  - rewrite Nat.eqb_refl. reflexivity.
  - cbn in Hi. destruct (a =? nth i l 0) eqn:E.
    + apply Nat.eqb_eq in E. exfalso. apply Hnotin. rewrite E. apply nth_In. lia.
    + f_equal. apply IH; auto. lia.
Qed.

Lemma index_of_mono x y l : StronglySorted lt l -> In x l -> In y l ->
  (x < y <-> index_of x l < index_of y l).
Proof.
  induction l as [|a l IH]; [intros _ []|]. intros Hs Hx Hy.
  inversion Hs as [|? ? Hs' Hall]; subst. rewrite Forall_forall in Hall. cbn.
  destruct (Nat.eqb_spec a x) as [Ex|Ex], (Nat.eqb_spec a y) as [Ey|Ey]; subst.
  - lia.
  - destruct Hy as [Hy|Hy]; [congruence|]. specialize (Hall _ Hy). lia.
  - destruct Hx as [Hx|Hx]; [congruence|]. specialize (Hall _ Hx). lia.
  - destruct Hx as [Hx|Hx]; [congruence|]. destruct Hy as [Hy|Hy]; [congruence|].
    rewrite (IH Hs' Hx Hy). lia.
Qed.

(* ---------- the detection model ---------- *)
Section DetectProofs.
Variables (ny nx : nat) (conn8 : bool) (npix : nat) (fgl : list bool).
Notation n := (npx ny nx).
Notation fg := (fg fgl).
Notation adj := (adj nx conn8).
Notation nbrs := (nbrs ny nx conn8).

Lemma absdiff_sym a b : absdiff a b = absdiff b a.
Proof. unfold absdiff. destruct (a <=? b) eqn:E1, (b <=? a) eqn:E2;
  try apply Nat.leb_le in E1; try apply Nat.leb_le in E2;
  try apply Nat.leb_gt in E1; try apply Nat.leb_gt in E2; lia. Qed.

Lemma adj_sym p q : adj p q = adj q p.
Proof. unfold C04_Model.adj. rewrite (absdiff_sym (p / nx)), (absdiff_sym (p mod nx)), (Nat.eqb_sym p q). reflexivity. Qed.

Lemma in_nbrs p q : In q (nbrs p) <-> q < n /\ adj p q = true.
Proof. unfold C04_Model.nbrs. rewrite filter_In, in_seq. intuition lia. Qed.

Lemma nbrs_lt p q : p < n -> In q (nbrs p) -> q < n.
Proof. intros _ H. apply in_nbrs in H. tauto. Qed.
Lemma nbrs_sym p q : p < n -> q < n -> In q (nbrs p) -> In p (nbrs q).
Proof. intros Hp Hq H. apply in_nbrs in H. apply in_nbrs. rewrite adj_sym. tauto. Qed.

(* The specification: 4-/8-connected components of the foreground *)
Definition pedge (a b : nat) := a < n /\ b < n /\ fg a = true /\ fg b = true /\ adj a b = true.
Definition pconn := clos_refl_trans nat pedge.
Definition comp_size (p k : nat) :=
  exists S, NoDup S /\ (forall q, In q S <-> q < n /\ pconn p q) /\ length S = k.

Lemma pedge_edge a b : pedge a b <-> edge n fg nbrs a b.
Proof. unfold pedge, edge. rewrite in_nbrs. tauto. Qed.
Lemma pconn_conn a b : pconn a b <-> conn n fg nbrs a b.
Proof. unfold pconn, conn. split; induction 1 as [x y H| |x y z _ IH1 _ IH2];
  try (apply rt_step, pedge_edge, H); try apply rt_refl; eapply rt_trans; eauto. Qed.

Lemma pconn_sym a b : pconn a b -> pconn b a.
Proof. rewrite !pconn_conn. apply conn_sym. apply nbrs_sym. Qed.

Lemma pconn_fg a b : pconn a b -> fg a = true -> fg b = true.
Proof. induction 1 as [x y H| |x y z _ IH1 _ IH2]; auto. destruct H as (_ & _ & _ & H & _). auto. Qed.

Lemma comp_size_unique p k k' : comp_size p k -> comp_size p k' -> k = k'.
Proof. intros (S & N1 & H1 & <-) (S' & N2 & H2 & <-). apply same_elems_length; auto.
  intros x. rewrite H1, H2. tauto. Qed.

Section WithLab.
Variable lab : list nat.
Hypothesis Hc : components n fg nbrs = Some lab.

Let Hfix : Inv n fg nbrs lab /\ step n fg nbrs lab = lab.
Proof. apply components_correct; [apply nbrs_lt|auto]. Qed.

Lemma lab_length : length lab = n.
Proof. destruct Hfix as [[H _] _]. exact H. Qed.

Lemma lab_facts p : p < n ->
   (get lab p = 0 <-> fg p = false) /\
   (fg p = true -> exists r, get lab p = S r /\ pconn p r /\ r <= p /\
        (forall q, q < n -> pconn p q -> r <= q)) /\
   (forall q, q < n -> fg p = true -> fg q = true -> (get lab p = get lab q <-> pconn p q)).
Proof.
  intros Hp. destruct Hfix as [HI Hf].
  destruct (fixpoint_correct n fg nbrs nbrs_sym lab HI Hf p Hp) as (A & B & C).
  split; [exact A|]. split.
  - intros F. destruct (B F) as (r & E & Cr & Hmin). exists r. split; [auto|]. split; [apply pconn_conn; auto|].
    split; [apply Hmin; auto; apply rt_refl|]. intros q Hq Hpq. apply Hmin; auto. apply pconn_conn; auto.
  - intros q Hq F Fq. rewrite pconn_conn. apply C; auto.
Qed.

Lemma lab_conn p q : pconn p q -> get lab p = get lab q.
Proof. destruct Hfix as [_ Hf]. rewrite pconn_conn. apply fix_conn; auto. apply nbrs_sym. Qed.

Lemma lab_root p r : p < n -> get lab p = S r -> r < n /\ get lab r = S r /\ pconn p r /\ fg p = true /\ fg r = true.
Proof.
  intros Hp E. destruct (lab_facts p Hp) as (A & B & _).
  assert (F : fg p = true). { destruct (fg p) eqn:F; auto. destruct A as [_ A]. rewrite A in E by auto. discriminate. }
  destruct (B F) as (r' & E' & Cr & Hle & _). assert (r' = r) by congruence. subst r'.
  split; [lia|]. split; [rewrite <- E; symmetry; apply lab_conn; auto|]. split; [auto|]. split; [auto|].
  eapply pconn_fg; eauto.
Qed.

Lemma comp_size_lab p : p < n -> fg p = true -> comp_size p (size lab (get lab p)).
Proof.
  intros Hp F. exists (filter (fun q => get lab q =? get lab p) (seq 0 n)).
  split; [apply NoDup_filter_seq|]. split.
  - intros q. rewrite filter_In, in_seq, Nat.eqb_eq. split.
    + intros [Hq E]. split; [lia|]. destruct (lab_facts p Hp) as (A & _ & C).
      assert (Fq : fg q = true).
      { destruct (fg q) eqn:Fq; auto. destruct (lab_facts q ltac:(lia)) as ((_ & A') & _).
        rewrite A' in E by auto. symmetry in E. apply A in E. congruence. }
      apply C; auto; lia.
    + intros [Hq Cq]. split; [lia|]. symmetry. apply lab_conn; auto.
  - unfold size. rewrite count_occ_positions, lab_length. reflexivity.
Qed.

Lemma keepl_spec p : p < n ->
  (keepl npix lab (get lab p) = true <-> fg p = true /\ exists k, comp_size p k /\ npix <= k).
Proof.
  intros Hp. unfold keepl. rewrite andb_true_iff, negb_true_iff, Nat.eqb_neq, Nat.leb_le.
  destruct (lab_facts p Hp) as (A & _ & _). split.
  - intros [H0 Hs]. assert (F : fg p = true). { destruct (fg p); auto. exfalso. apply H0, A. reflexivity. }
    split; [auto|]. eexists; split; [apply comp_size_lab; auto|auto].
  - intros [F (k & Hk & Hle)]. split.
    + intros E. apply A in E. congruence.
    + rewrite (comp_size_unique _ _ _ (comp_size_lab p Hp F) Hk). exact Hle.
Qed.

Notation roots := (roots ny nx npix lab).
Notation relabel := (relabel ny nx npix lab).

Lemma in_roots r : In r roots <-> r < n /\ get lab r = S r /\ keepl npix lab (S r) = true.
Proof. unfold C04_Model.roots. rewrite filter_In, in_seq, andb_true_iff, Nat.eqb_eq. intuition lia. Qed.

Lemma kept_root p : p < n -> keepl npix lab (get lab p) = true ->
  exists r, get lab p = S r /\ In r roots /\ r <= p /\ pconn p r.
Proof.
  intros Hp K. pose proof K as K'. apply keepl_spec in K' as [F _]; auto.
  destruct (lab_facts p Hp) as (_ & B & _). destruct (B F) as (r & E & Cr & Hle & _).
  exists r. split; [auto|]. destruct (lab_root p r Hp E) as (Hr & Er & _).
  split; [|auto]. apply in_roots. rewrite E in K. auto.
Qed.

Lemma relabel_nonzero p : p < n ->
  (relabel p <> 0 <-> fg p = true /\ exists k, comp_size p k /\ npix <= k).
Proof.
  intros Hp. rewrite <- keepl_spec by auto. unfold C04_Model.relabel.
  destruct (keepl npix lab (get lab p)); split; intros H; auto; try discriminate; try congruence.
Qed.

Lemma relabel_same p q : p < n -> q < n -> relabel p <> 0 -> relabel q <> 0 ->
  (relabel p = relabel q <-> pconn p q).
Proof.
  intros Hp Hq Np Nq. pose proof Np as Fp. pose proof Nq as Fq.
  apply relabel_nonzero in Fp as [Fp _]; auto. apply relabel_nonzero in Fq as [Fq _]; auto.
  destruct (lab_facts p Hp) as (_ & _ & C). rewrite <- (C q Hq Fp Fq).
  unfold C04_Model.relabel in *.
  destruct (keepl npix lab (get lab p)) eqn:Kp; [|congruence].
  destruct (keepl npix lab (get lab q)) eqn:Kq; [|congruence].
  destruct (kept_root p Hp Kp) as (rp & Ep & Rp & _). destruct (kept_root q Hq Kq) as (rq & Eq & Rq & _).
  rewrite Ep, Eq. cbn [pred]. split.
  - intros [= E]. f_equal. eapply index_of_inj; eauto.
  - intros [= ->]. reflexivity.
Qed.

Lemma relabel_le p : p < n -> relabel p <= length roots.
Proof.
  intros Hp. unfold C04_Model.relabel. destruct (keepl npix lab (get lab p)) eqn:K; [|lia].
  destruct (kept_root p Hp K) as (r & E & R & _). rewrite E. cbn [pred]. apply index_of_lt in R. lia.
Qed.

Lemma relabel_onto k : 1 <= k <= length roots -> exists p, p < n /\ relabel p = k /\
   (forall q, q < n -> relabel q = k -> p <= q).
Proof.
  intros Hk. set (r := nth (k - 1) roots 0).
  assert (R : In r roots) by (apply nth_In; lia).
  pose proof R as R'. apply in_roots in R' as (Hr & Er & K).
  assert (Erel : relabel r = k).
  { unfold C04_Model.relabel. rewrite Er, K. cbn [pred]. unfold r.
    rewrite index_of_nth_nodup; [lia|apply NoDup_filter_seq|lia]. }
  exists r. split; [auto|]. split; [auto|].
  intros q Hq Eq. assert (Nq : relabel q <> 0) by lia. assert (Nr : relabel r <> 0) by lia.
  assert (C : pconn r q). { apply relabel_same; auto. congruence. }
  destruct (lab_facts r Hr) as (_ & B & _).
  assert (Fr : fg r = true). { apply relabel_nonzero in Nr; tauto. }
  destruct (B Fr) as (r' & E' & _ & _ & Hmin). assert (r' = r) by congruence. subst r'.
  apply Hmin; auto.
Qed.

Lemma first_is_root p : p < n -> relabel p <> 0 ->
  (forall q, q < n -> relabel q = relabel p -> p <= q) -> In p roots /\ relabel p = S (index_of p roots).
Proof.
  intros Hp Np Hfirst. unfold C04_Model.relabel in *.
  destruct (keepl npix lab (get lab p)) eqn:K; [|congruence].
  destruct (kept_root p Hp K) as (r & E & R & Hle & C).
  pose proof R as R'. apply in_roots in R' as (Hr & Er & Kr).
  assert (p <= r). { apply Hfirst; auto. rewrite Er, Kr, E. reflexivity. }
  assert (p = r) by lia. subst r. rewrite E. cbn [pred]. auto.
Qed.

Lemma relabel_order p q : p < n -> q < n -> relabel p <> 0 -> relabel q <> 0 ->
  (forall p', p' < n -> relabel p' = relabel p -> p <= p') ->
  (forall q', q' < n -> relabel q' = relabel q -> q <= q') ->
  (p < q <-> relabel p < relabel q).
Proof.
  intros Hp Hq Np Nq Fp Fq.
  destruct (first_is_root p Hp Np Fp) as [Rp ->]. destruct (first_is_root q Hq Nq Fq) as [Rq ->].
  rewrite (index_of_mono p q roots); [lia|apply sorted_filter_seq|auto|auto].
Qed.
End WithLab.

(* ---------- statements about [detect] ---------- *)
Notation detect := (detect ny nx conn8 npix fgl).

Lemma detect_not_fuel : detect <> Fuel.
Proof.
  unfold C04_Model.detect.
  destruct (components_total n fg nbrs) as [l ->].
  destruct (forallb _ _); discriminate.
Qed.

Lemma get_out lab p : p < n -> nth p (map (relabel ny nx npix lab) (seq 0 n)) 0 = relabel ny nx npix lab p.
Proof. intros Hp. apply nth_map_seq. exact Hp. Qed.

Definition qualifies (p : nat) := fg p = true /\ exists k, comp_size p k /\ npix <= k.

Lemma detect_seg out : detect = Seg out ->
  length out = n /\
  (forall p, p < n -> (nth p out 0 <> 0 <-> qualifies p)) /\
  (forall p q, p < n -> q < n -> nth p out 0 <> 0 -> nth q out 0 <> 0 ->
      (nth p out 0 = nth q out 0 <-> pconn p q)) /\
  (exists N, (forall p, p < n -> nth p out 0 <= N) /\
      forall k, 1 <= k <= N -> exists p, p < n /\ nth p out 0 = k) /\
  (forall p q, p < n -> q < n -> nth p out 0 <> 0 -> nth q out 0 <> 0 ->
      (forall p', p' < n -> nth p' out 0 = nth p out 0 -> p <= p') ->
      (forall q', q' < n -> nth q' out 0 = nth q out 0 -> q <= q') ->
      (p < q <-> nth p out 0 < nth q out 0)).
Proof.
  unfold C04_Model.detect. destruct (components n fg nbrs) as [lab|] eqn:Hc; [|discriminate].
  destruct (forallb _ _); [discriminate|]. intros [= <-].
  split; [rewrite map_length, seq_length; reflexivity|].
  split; [intros p Hp; rewrite get_out by auto; apply relabel_nonzero; auto|].
  split; [intros p q Hp Hq; rewrite !get_out by auto; apply relabel_same; auto|].
  split.
  - exists (length (roots ny nx npix lab)). split.
    + intros p Hp. rewrite get_out by auto. apply relabel_le; auto.
    + intros k Hk. destruct (relabel_onto lab Hc k Hk) as (p & Hp & E & _). exists p. rewrite get_out by auto. auto.
  - intros p q Hp Hq. rewrite !get_out by auto. intros Np Nq Fp Fq. apply relabel_order; auto.
    + intros p' Hp'. specialize (Fp p' Hp'). rewrite !get_out in Fp by auto. exact Fp.
    + intros q' Hq'. specialize (Fq q' Hq'). rewrite !get_out in Fq by auto. exact Fq.
Qed.

Lemma detect_nodet : detect = NoDet <-> (forall p, p < n -> ~ qualifies p).
Proof.
  unfold C04_Model.detect. destruct (components_total n fg nbrs) as [lab Hc]. rewrite Hc.
  destruct (forallb (Nat.eqb 0) (map (relabel ny nx npix lab) (seq 0 n))) eqn:E.
  - split; [intros _|reflexivity]. intros p Hp Q. rewrite forallb_forall in E.
    apply (relabel_nonzero lab Hc p Hp) in Q. apply Q.
    specialize (E (relabel ny nx npix lab p)). symmetry. apply Nat.eqb_eq, E.
    apply in_map, in_seq. lia.
  - split; [discriminate|]. intros H. exfalso.
    assert (forallb (Nat.eqb 0) (map (relabel ny nx npix lab) (seq 0 n)) = true); [|congruence].
    apply forallb_forall. intros x Hx. apply in_map_iff in Hx as (p & <- & Hp). apply in_seq in Hp.
    apply Nat.eqb_eq. destruct (Nat.eq_dec (relabel ny nx npix lab p) 0) as [->|Hne]; [reflexivity|].
    exfalso. apply (H p ltac:(lia)). apply (relabel_nonzero lab Hc p); [lia|auto].
Qed.

(* every foreground pixel has a well-defined component size: [qualifies] is never
   vacuous *)
Lemma comp_size_exists p : p < n -> fg p = true -> exists k, comp_size p k /\ 1 <= k.
Proof.
  intros Hp F. destruct (components_total n fg nbrs) as [lab Hc].
  exists (size lab (get lab p)). split; [apply comp_size_lab; auto|].
  destruct (comp_size_lab lab Hc p Hp F) as (S & _ & HS & <-).
  assert (In p S) by (apply HS; split; [auto|apply rt_refl]). destruct S; [contradiction|cbn; lia].
Qed.
End DetectProofs.

(* ---------- threshold / mask foreground ---------- *)
Lemma fg_of_spec data thr mask p :
  nth_error (fg_of data thr mask) p = Some true <->
  exists d t, nth_error data p = Some (Some d) /\ nth_error thr p = Some (Some t) /\
              nth_error mask p = Some false /\ (t < d)%Z.
Proof.
  unfold fg_of. revert thr mask p. induction data as [|d0 data IH]; intros thr mask p.
  - cbn. destruct p; cbn; split; try discriminate; intros (d & t & H & _); discriminate.
  - destruct thr as [|t0 thr]; [cbn; destruct p; cbn; split; try discriminate; intros (d & t & _ & H & _); discriminate|].
    destruct mask as [|m0 mask]; [cbn; destruct p; cbn; split; try discriminate; intros (d & t & _ & _ & H & _); discriminate|].
    destruct p as [|p]; cbn [combine map nth_error].
    + split.
      * destruct d0 as [d|], t0 as [t|]; try discriminate. intros [= E].
        apply andb_true_iff in E as [E1 E2]. apply Z.ltb_lt in E1. apply negb_true_iff in E2. subst.
        exists d, t. auto.
      * intros (d & t & [= ->] & [= ->] & [= ->] & Hlt). apply Z.ltb_lt in Hlt. rewrite Hlt. reflexivity.
    + apply IH.
Qed.
