(* C19 — radial profiles and curves of growth are consistent with aperture photometry.
   Property theorems only; each is closed by [exact] of a lemma of C19_Proofs.

   Vocabulary (C19_Model / C19_Proofs).  Images are flattened (p = y*nx + x); a pixel is
   [option Z] (None = NaN/inf).  [photometry data err umask apers] is ProfileBase._photometry
   over the nested apertures; an aperture is AZero (radius 0), AOff (no overlap: NaN) or
   [AW w] with full-image integer weights w = S * (to_mask weights).  [aw a] gives the
   weights as a function of the pixel index (None for AOff).
   [pix_masked data err umask p] = caller's mask OR data non-finite OR error non-finite.
   [usum data err umask w f] = sum over the pixels p of the image with [pix_masked p = false]
   of [w p * f p]  (the mask-weighted sum of f over the unmasked data);  [dval data p] is the
   pixel value, [esq err p] the squared error.  [zq S x] = x / S.
   [wf] = the shapes agree and the weights are >= 0.
   A float array element is [option Q] (None = NaN); an element (c, v) of profile_error
   stands for c * sqrt v.  [veq]/[eeq]/[obs_eq] are equality of such elements / arrays up to
   Qeq.  The state machine is the one of the REPAIRED code (variant [fixed] = HEAD +
   fixes/C09-2 (data_profile = raw / normalization_value, a plain property) + fixes/C19-1 +
   fixes/C19-2); [head_code_refuted] shows what HEAD does. *)
From Coq Require Import ZArith QArith List Bool Lia.
From PV Require Import lib.Cases C19_Model C19_Proofs.
Import ListNotations.
Local Open Scope Z_scope.

(* ---- automatic masking: mask | non-finite data | non-finite error -------------------- *)
Theorem compute_mask_is_union : forall data err umask,
  (forall e, err = Some e -> length e = length data) ->
  (forall m, umask = Some m -> length m = length data) ->
  length (compute_mask data err umask) = npix data /\
  forall p, (p < npix data)%nat ->
    nth p (compute_mask data err umask) false =
      (match umask with Some m => nth p m false | None => false end
       || nonfin (nth p data None)
       || match err with Some e => nonfin (nth p e None) | None => false end).
Proof. exact P_mask_is_union. Qed.
Print Assumptions compute_mask_is_union.

(* ---- CurveOfGrowth.profile / area at radius i = circular-aperture sum / overlap area of
        the unmasked data (always finite when the aperture overlaps the image) ----------- *)
Theorem cog_is_aperture_sum : forall S data err umask apers i a,
  wf data err umask apers -> nth_error apers i = Some a ->
  let ph := photometry data err umask apers in
  nth_error (cog_profile S ph) i =
    Some (option_map (fun w => zq S (usum data err umask w (dval data))) (aw a)) /\
  nth_error (cog_area S ph) i =
    Some (option_map (fun w => zq S (usum data err umask w (fun _ => 1))) (aw a)).
Proof. exact P_cog_is_aperture_sum. Qed.
Print Assumptions cog_is_aperture_sum.

(* ---- RadialProfile.profile = (difference of consecutive aperture sums) /
        (difference of overlap areas); both differences are the sums over the annulus
        weights w_{i+1} - w_i; NaN iff the area difference is 0 or an aperture is off ------ *)
Theorem radial_is_diff_quotient : forall S data err umask apers i a b,
  wf data err umask apers -> nth_error apers i = Some a -> nth_error apers (Datatypes.S i) = Some b ->
  let ph := photometry data err umask apers in
  match aw a, aw b with
  | Some wa, Some wb =>
      let dw := fun p => wb p - wa p in
      let df := usum data err umask dw (dval data) in
      let da := usum data err umask dw (fun _ => 1) in
      df = usum data err umask wb (dval data) - usum data err umask wa (dval data) /\
      da = usum data err umask wb (fun _ => 1) - usum data err umask wa (fun _ => 1) /\
      nth_error (rad_profile ph) i = Some (if da =? 0 then None else Some (inject_Z df / inject_Z da)%Q) /\
      nth_error (rad_area S ph) i = Some (Some (zq S da))
  | _, _ => nth_error (rad_profile ph) i = Some None /\ nth_error (rad_area S ph) i = Some None
  end.
Proof. exact P_radial_is_diff_quotient. Qed.
Print Assumptions radial_is_diff_quotient.

(* ---- errors propagated in quadrature ------------------------------------------------- *)
Theorem errors_in_quadrature : forall S data err umask apers i a,
  wf data err umask apers -> 0 < S -> nth_error apers i = Some a ->
  let ph := photometry data err umask apers in
  nth_error (cog_perr S true ph) i =
    Some (option_map (fun w => (1%Q, zq S (usum data err umask w (esq err)))) (aw a)) /\
  forall b, nth_error apers (Datatypes.S i) = Some b ->
    match aw a, aw b with
    | Some wa, Some wb =>
        let dw := fun p => wb p - wa p in
        let da := usum data err umask dw (fun _ => 1) in
        let dv := usum data err umask dw (esq err) in
        dv = usum data err umask wb (esq err) - usum data err umask wa (esq err) /\
        if (da =? 0) || (dv <? 0) then nth_error (rad_perr S true ph) i = Some None
        else exists c v, nth_error (rad_perr S true ph) i = Some (Some (c, v)) /\
                         (c * c * v == zq S dv / (zq S da * zq S da))%Q
    | _, _ => nth_error (rad_perr S true ph) i = Some None
    end.
Proof. exact P_errors_in_quadrature. Qed.
Print Assumptions errors_in_quadrature.

(* ---- a constant image yields that constant in every bin with non-zero area ------------- *)
Theorem constant_image_constant_profile : forall S data err umask apers c,
  wf data err umask apers ->
  (forall p, (p < npix data)%nat -> pix_masked data err umask p = false -> dval data p = c) ->
  let ph := photometry data err umask apers in
  (forall i q, nth_error (rad_profile ph) i = Some (Some q) -> (q == inject_Z c)%Q) /\
  (forall i a b wa wb, nth_error apers i = Some a -> nth_error apers (Datatypes.S i) = Some b ->
     aw a = Some wa -> aw b = Some wb ->
     usum data err umask (fun p => wb p - wa p) (fun _ => 1) <> 0 ->
     exists q, nth_error (rad_profile ph) i = Some (Some q) /\ (q == inject_Z c)%Q) /\
  (forall i a w, nth_error apers i = Some a -> aw a = Some w ->
     exists f ar, nth_error (cog_profile S ph) i = Some (Some f) /\
                  nth_error (cog_area S ph) i = Some (Some ar) /\ (f == inject_Z c * ar)%Q).
Proof. exact P_constant_image. Qed.
Print Assumptions constant_image_constant_profile.

(* ---- non-negative data: non-decreasing curve of growth.
        PARTIAL: assumes the weights of the two apertures are monotone in the radius
        (wa p <= wb p), which is a fact about the geometry kernels (C01), checked by the
        harness on every generated object ------------------------------------------------- *)
Theorem nonneg_data_monotone_cog_partial : forall S data err umask apers,
  wf data err umask apers ->
  forall i j a b wa wb, 0 < S ->
  (forall p, (p < npix data)%nat -> pix_masked data err umask p = false -> 0 <= dval data p) ->
  nth_error apers i = Some a -> nth_error apers j = Some b ->
  aw a = Some wa -> aw b = Some wb -> (forall p, wa p <= wb p) ->
  exists x y, nth_error (cog_profile S (photometry data err umask apers)) i = Some (Some x) /\
              nth_error (cog_profile S (photometry data err umask apers)) j = Some (Some y) /\ (x <= y)%Q.
Proof. exact cog_monotone. Qed.
Print Assumptions nonneg_data_monotone_cog_partial.

(* ---- normalize followed by unnormalize restores every array, whenever each array was
        first read: for EVERY history [ops] before, every method [m], every interleaved list
        of reads [rs1], [rs2] and every array [a] (first read possibly inside ops, rs1, rs2
        or only now) ------------------------------------------------------------------------ *)
Theorem normalize_unnormalize_id : forall raw_p raw_e raw_d ops m rs1 rs2 a,
  Forall is_read rs1 -> Forall is_read rs2 ->
  veq (nv (fst (run fixed raw_p raw_e raw_d (ops ++ ONorm m :: rs1 ++ OUnnorm :: rs2) init))) (Some 1%Q) /\
  obs_eq (read_after raw_p raw_e raw_d (ops ++ ONorm m :: rs1 ++ OUnnorm :: rs2) a)
         (fresh raw_p raw_e raw_d a).
Proof. exact normalize_unnormalize_restores. Qed.
Print Assumptions normalize_unnormalize_id.

(* stronger: after ANY history all arrays are the fresh ones over one common non-zero number,
   which is normalization_value; no array's value depends on when it was first read *)
Theorem reads_scaled_by_normalization_value : forall raw_p raw_e raw_d ops,
  exists q, ~ (q == 0)%Q /\ veq (nv (fst (run fixed raw_p raw_e raw_d ops init))) (Some q) /\
            forall a, obs_eq (read_after raw_p raw_e raw_d ops a) (fresh_over raw_p raw_e raw_d q a).
Proof. exact reads_consistent. Qed.
Print Assumptions reads_scaled_by_normalization_value.

(* calc_ee_at_radius / calc_radius_at_ee are reads too ([is_read] covers them, so they may be
   interleaved anywhere in the histories above); after ANY history both work on the current
   profile = fresh profile / normalization_value (observation [OI p] / [ORc p]: the profile the
   interpolator is built on; [OErr]: a NaN knot makes PchipInterpolator raise) *)
Theorem interpolators_follow_current_profile : forall raw_p raw_e raw_d ops,
  exists q p, ~ (q == 0)%Q /\ veq (nv (fst (run fixed raw_p raw_e raw_d ops init))) (Some q) /\
              lveq p (map (vdiv (Some q)) raw_p) /\
              snd (step fixed raw_p raw_e raw_d ORi (fst (run fixed raw_p raw_e raw_d ops init))) = ORc p /\
              (snd (step fixed raw_p raw_e raw_d OEe (fst (run fixed raw_p raw_e raw_d ops init))) = OI p \/
               (snd (step fixed raw_p raw_e raw_d OEe (fst (run fixed raw_p raw_e raw_d ops init))) = OErr /\
                all_some p = None)).
Proof. exact interpolators_see_current_profile. Qed.
Print Assumptions interpolators_follow_current_profile.

(* the three defects of /repo HEAD, on the faithful model of HEAD (witnesses replayed on the
   implementation by the harness: signatures ...data_profile-first-read-order,
   ...non-finite-normalization, ...monotone-prefix-last-point) *)
Theorem head_code_refuted :
  get_d head (Some [Some 3%Q])
        (fst (run head [Some 2%Q] [] (Some [Some 3%Q]) [ONorm NMax; ORead ADp; OUnnorm] init))
    = [Some (6 # 1)%Q] /\
  get_d head (Some [Some 3%Q])
        (fst (run head [None] [] (Some [Some 3%Q]) [ORead ADp; ONorm NMax; OUnnorm] init))
    = [None] /\
  (forall ys, (prefix_len fixed (map Some ys) < length ys)%nat ->
              Datatypes.S (prefix_len head (map Some ys)) = prefix_len fixed (map Some ys)).
Proof. exact P_head_refuted. Qed.
Print Assumptions head_code_refuted.

(* ---- the prefix kept by calc_radius_at_ee is the maximal strictly increasing one ---------- *)
Theorem monotone_prefix_is_maximal : forall ys,
  let k := prefix_len fixed (map Some ys) in
  (k <= length ys)%nat /\ (1 <= length ys -> 1 <= k)%nat /\
  strictly_inc (firstn k ys) /\
  ((k < length ys)%nat -> (1 <= k)%nat /\ (nth k ys 0 <= nth (k - 1) ys 0)%Q).
Proof. exact prefix_len_spec. Qed.
Print Assumptions monotone_prefix_is_maximal.

(* ---- the encircled-energy interpolators invert each other at the sampled radii on the
        monotone part.  PARTIAL: PchipInterpolator is a parameter assumed to interpolate its
        knots (first hypothesis); everything else (prefix, lengths, error branches) is the
        model of the code ------------------------------------------------------------------ *)
Theorem ee_interpolators_inverse_on_monotone_part_partial :
  forall (pchip : list Q -> list Q -> Q -> val),
  (forall xs ys i x, strictly_inc xs -> length xs = length ys -> (i < length xs)%nat ->
                     (x == nth i xs 0)%Q -> veq (pchip xs ys x) (Some (nth i ys 0%Q))) ->
  forall radius ys, strictly_inc radius -> length radius = length ys ->
  forall i, (2 <= prefix_len fixed (map Some ys))%nat -> (i < prefix_len fixed (map Some ys))%nat ->
  (forall e, calc_ee_at_radius pchip radius (map Some ys) (nth i radius 0%Q) = EVal (Some e) ->
     exists v, calc_radius_at_ee pchip fixed radius (map Some ys) e = EVal v /\ veq v (Some (nth i radius 0%Q))) /\
  (forall r, calc_radius_at_ee pchip fixed radius (map Some ys) (nth i ys 0%Q) = EVal (Some r) ->
     exists v, calc_ee_at_radius pchip radius (map Some ys) r = EVal v /\ veq v (Some (nth i ys 0%Q))) /\
  (exists e, calc_ee_at_radius pchip radius (map Some ys) (nth i radius 0%Q) = EVal (Some e)) /\
  (exists r, calc_radius_at_ee pchip fixed radius (map Some ys) (nth i ys 0%Q) = EVal (Some r)).
Proof. exact ee_inverse. Qed.
Print Assumptions ee_interpolators_inverse_on_monotone_part_partial.

(* ---- integer translation / change of frame: if a second frame shows the same unmasked
        weighted pixels under an index map sigma (e.g. image, mask, error and aperture
        weights shifted together by whole pixels, the frame padded or cropped outside the
        apertures), every photometric quantity — hence every profile array — is unchanged -- *)
Theorem profile_shift : forall sigma data err umask apers data' err' umask' apers',
  wf data err umask apers -> wf data' err' umask' apers' ->
  Forall2 (aper_reindexes sigma data err umask data' err' umask') apers apers' ->
  photometry data err umask apers = photometry data' err' umask' apers'.
Proof. exact photometry_reindex. Qed.
Print Assumptions profile_shift.

(* ======================= non-vacuity: concrete instances ================================ *)
(* a 1x4 image [2; NaN; 3; 5], caller mask on the last pixel, errors [1;1;2;1], S = 4,
   apertures: radius 0, weights [4;4;0;0], weights [4;4;4;2] *)
Definition ex_data : list (option Z) := [Some 2; None; Some 3; Some 5].
Definition ex_err := Some [Some 1; Some 1; Some 2; Some 1].
Definition ex_mask := Some [false; false; false; true].
Definition ex_apers := [AZero; AW [4; 4; 0; 0]; AW [4; 4; 4; 2]].

Example ex_wf : wf ex_data ex_err ex_mask ex_apers.
Proof.
  split; [intros e [= <-]; reflexivity|]. split; [intros m [= <-]; reflexivity|].
  intros w [H|[H|[H|[]]]]; try discriminate; injection H as <-; (split; [reflexivity|]);
    intros [|[|[|[|[|p]]]]]; cbn; lia.
Qed.
Example ex_mask_value : compute_mask ex_data ex_err ex_mask = [false; true; false; true].
Proof. vm_compute. reflexivity. Qed.
Example ex_photometry :
  photometry ex_data ex_err ex_mask ex_apers =
  [(Some 0, Some 0, Some 0); (Some 8, Some 4, Some 4); (Some 20, Some 20, Some 8)].
Proof. vm_compute. reflexivity. Qed.
(* radial profile: bins (8-0)/(4-0) = 2 and (20-8)/(8-4) = 3 *)
Example ex_radial :
  all2 (vclose true) (rad_profile (photometry ex_data ex_err ex_mask ex_apers)) [Some 2%Q; Some 3%Q] = true.
Proof. vm_compute. reflexivity. Qed.
(* weights are monotone in the radius here, data >= 0 on the unmasked pixels: 0 <= 2 <= 5 *)
Example ex_cog :
  all2 (vclose true) (cog_profile 4 (photometry ex_data ex_err ex_mask ex_apers)) [Some 0%Q; Some 2%Q; Some 5%Q] = true.
Proof. vm_compute. reflexivity. Qed.

(* the repaired machine on the HEAD counterexamples: data_profile comes back as 3 *)
Example ex_fixed_restores :
  all2 (vclose true)
       (get_d fixed (Some [Some 3%Q])
          (fst (run fixed [Some 2%Q] [] (Some [Some 3%Q]) [ONorm NMax; ORead ADp; OUnnorm] init)))
       [Some 3%Q] = true /\
  all2 (vclose true)
       (get_d fixed (Some [Some 3%Q])
          (fst (run fixed [None] [] (Some [Some 3%Q]) [ORead ADp; ONorm NMax; OUnnorm] init)))
       [Some 3%Q] = true.
Proof. split; vm_compute; reflexivity. Qed.

(* the hypothesis on pchip is satisfiable: a table lookup of the knots satisfies it *)
Example ex_pchip_hypothesis_satisfiable :
  forall xs ys i x, strictly_inc xs -> length xs = length ys -> (i < length xs)%nat ->
                    (x == nth i xs 0)%Q -> veq (knot_lookup xs ys x) (Some (nth i ys 0%Q)).
Proof. exact knot_lookup_knots. Qed.
(* a curve with a non-monotone tail: monotone part = first 3 points (HEAD keeps 2) *)
Example ex_prefix :
  prefix_len fixed (map Some [3; 27; 99; 97; 73]%Q) = 3%nat /\
  prefix_len head (map Some [3; 27; 99; 97; 73]%Q) = 2%nat /\
  calc_radius_at_ee knot_lookup fixed [1; 2; 3; 4; 5]%Q (map Some [3; 27; 99; 97; 73]%Q) 99 = EVal (Some 3%Q) /\
  calc_radius_at_ee knot_lookup head [1; 2; 3; 4; 5]%Q (map Some [3; 27; 99; 97; 73]%Q) 99 = EVal None.
Proof. repeat split; vm_compute; reflexivity. Qed.

(* a genuine translation: the 1x2 frame [7; 9] with weights [1; 2] seen in a 1x4 frame
   [NaN; 7; 9; 5] with weights [0; 1; 2; 0] under sigma p = p + 1 *)
Example ex_shift :
  photometry [Some 7; Some 9] None None [AZero; AW [1; 2]] =
  photometry [None; Some 7; Some 9; Some 5] None None [AZero; AW [0; 1; 2; 0]].
Proof. exact ex_shift_proof. Qed.
