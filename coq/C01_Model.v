(* C01 — model of aperture masks: BoundingBox (from_float, get_overlap_slices, union,
   intersection), PixelAperture._centered_edges / _translate_mask_mode, the
   'center'/'subpixel' kernels (the _overlap_single_subpixel loops and the _overlap_grid drivers
   with their bounding-box / "well within" / "fully outside" fast paths) of the three shape
   families and the annulus subtraction of the MaskMixin.to_mask methods.
   Real scalars are exact rationals (Q): every finite double is a dyadic rational, so the
   harness passes the exact value of each float argument.  The 'exact' area kernels (sqrt,
   asin) are not modelled here. *)
From Coq Require Import ZArith QArith Qround Qabs Qminmax Qreduction List Bool Lia.
From PV Require Import lib.Cases.
Import ListNotations.
Open Scope Q_scope.

Definition half : Q := 1 # 2.

(* ---------- bounding_box.py ---------- *)
Record box := mkbox { ixmin : Z; ixmax : Z; iymin : Z; iymax : Z }.

(* BoundingBox.from_float: floor(xmin + 0.5), ceil(xmax + 0.5), ... *)
Definition from_float (xmin xmax ymin ymax : Q) : box :=
  mkbox (Qfloor (xmin + half)) (Qceiling (xmax + half))
        (Qfloor (ymin + half)) (Qceiling (ymax + half)).

Definition box_shape (b : box) : Z * Z := ((iymax b - iymin b)%Z, (ixmax b - ixmin b)%Z).

(* BoundingBox.get_overlap_slices(shape): ((ly0, ly1), (lx0, lx1)), ((sy0, sy1), (sx0, sx1)) *)
Definition zslc := (Z * Z)%type.
Definition overlap_slices (b : box) (ny nx : Z) : option ((zslc * zslc) * (zslc * zslc)) :=
  let xmin := ixmin b in let xmax := ixmax b in let ymin := iymin b in let ymax := iymax b in
  if ((nx <=? xmin) || (ny <=? ymin) || (xmax <=? 0) || (ymax <=? 0)
      || (ny <=? 0) || (nx <=? 0))%Z then None     (* last two: fixes/C01-1 (zero-size image) *)
  else Some (((Z.max ymin 0, Z.min ymax ny), (Z.max xmin 0, Z.min xmax nx)),
             ((Z.max (- ymin) 0, Z.min (ymax - ymin) (ny - ymin)),
              (Z.max (- xmin) 0, Z.min (xmax - xmin) (nx - xmin))))%Z.

Definition box_union (a b : box) : box :=
  mkbox (Z.min (ixmin a) (ixmin b)) (Z.max (ixmax a) (ixmax b))
        (Z.min (iymin a) (iymin b)) (Z.max (iymax a) (iymax b)).
Definition box_inter (a b : box) : option box :=
  let x0 := Z.max (ixmin a) (ixmin b) in let x1 := Z.min (ixmax a) (ixmax b) in
  let y0 := Z.max (iymin a) (iymin b) in let y1 := Z.min (iymax a) (iymax b) in
  if ((x1 <? x0) || (y1 <? y0))%Z then None else Some (mkbox x0 x1 y0 y1).

(* ---------- core.py ---------- *)
(* PixelAperture._translate_mask_mode; mode: 0 center, 1 subpixel, 2 exact.
   Returns (use_exact, subpixels); None = ValueError *)
Definition translate_mode (mode : Z) (subpixels : Z) (rectangle : bool) : option (bool * Z) :=
  if negb ((mode =? 0) || (mode =? 1) || (mode =? 2))%Z then None else
  let '(mode, subpixels) := if rectangle && (mode =? 2)%Z then (1%Z, 32%Z) else (mode, subpixels) in
  if ((mode =? 1) && (subpixels <=? 0))%Z then None else
  if (mode =? 0)%Z then Some (false, 1%Z)
  else if (mode =? 1)%Z then Some (false, subpixels)
  else Some (true, 1%Z).

(* PixelAperture._centered_edges: (xmin, xmax, ymin, ymax) relative to the position *)
Definition centered_edges (b : box) (px py : Q) : Q * Q * Q * Q :=
  (inject_Z (ixmin b) - half - px, inject_Z (ixmax b) - half - px,
   inject_Z (iymin b) - half - py, inject_Z (iymax b) - half - py).

(* ---------- geometry kernels: strict "centre inside" predicates ---------- *)
Inductive shape :=
| Circle (r : Q)
| Ellipse (a b c s : Q)       (* semi-axes, cos theta, sin theta *)
| Rect (w h c s : Q).         (* full width/height, cos theta, sin theta *)

Definition Qltb (a b : Q) : bool := negb (Qle_bool b a).

(* the test of the innermost loop body of the three _single_subpixel kernels *)
Definition inside (sh : shape) (x y : Q) : bool :=
  match sh with
  | Circle r => Qltb (x * x + y * y) (r * r)
  | Ellipse a b c s =>
      let xt := y * s + x * c in let yt := y * c - x * s in
      Qltb (xt * xt / (a * a) + yt * yt / (b * b)) 1
  | Rect w h c s =>
      let xt := y * s + x * c in let yt := y * c - x * s in
      Qltb (Qabs xt) (w / 2) && Qltb (Qabs yt) (h / 2)
  end.

(* the quantities whose sign decides [inside] (used to skip float-undecidable ties) *)
Definition margins (sh : shape) (x y : Q) : list Q :=
  match sh with
  | Circle r => [x * x + y * y - r * r]
  | Ellipse a b c s =>
      let xt := y * s + x * c in let yt := y * c - x * s in
      [xt * xt / (a * a) + yt * yt / (b * b) - 1]
  | Rect w h c s =>
      let xt := y * s + x * c in let yt := y * c - x * s in
      [Qabs xt - w / 2; Qabs yt - h / 2]
  end.

(* --- the _overlap_single_subpixel loops, as written:
         x = x0 - 0.5*dx
         for i in range(subpixels):
             x += dx; y = y0 - 0.5*dy
             for j in range(subpixels):
                 y += dy
                 if <inside>: frac += 1
     [Qred] (here and in the drivers) only normalises a fraction (Qred q == q) so that the
     numerals stay small under vm_compute; the result is frac (the weight is
     frac / (subpixels*subpixels)) *)
Fixpoint loop_y (sh : shape) (n : nat) (x y dy : Q) (frac : Z) : Z :=
  match n with
  | O => frac
  | S n' => let y' := Qred (y + dy) in
            loop_y sh n' x y' dy (if inside sh x y' then (frac + 1)%Z else frac)
  end.
Fixpoint loop_x (sh : shape) (n ny : nat) (x dx y0 dy : Q) (frac : Z) : Z :=
  match n with
  | O => frac
  | S n' => let x' := Qred (x + dx) in
            loop_x sh n' ny x' dx y0 dy (loop_y sh ny x' (y0 - half * dy) dy frac)
  end.
Definition single_subpixel (sh : shape) (x0 y0 x1 y1 : Q) (s : Z) : Z :=
  let dx := Qred ((x1 - x0) / inject_Z s) in
  let dy := Qred ((y1 - y0) / inject_Z s) in
  loop_x sh (Z.to_nat s) (Z.to_nat s) (Qred (x0 - half * dx)) dx (Qred y0) dy 0%Z.

(* --- specification side: the explicit set of sub-pixel centres of the pixel
       [x0,x1] x [y0,y1] and the number of them inside the shape *)
Definition sub_coord (x0 x1 : Q) (s : Z) (i : nat) : Q :=
  x0 + (inject_Z (Z.of_nat i) + half) * ((x1 - x0) / inject_Z s).
Definition sub_centres (x0 y0 x1 y1 : Q) (s : Z) : list (Q * Q) :=
  flat_map (fun i => map (fun j => (sub_coord x0 x1 s i, sub_coord y0 y1 s j)) (seq 0 (Z.to_nat s)))
           (seq 0 (Z.to_nat s)).
Definition subpix_count (sh : shape) (x0 y0 x1 y1 : Q) (s : Z) : Z :=
  Z.of_nat (length (filter (fun p => inside sh (fst p) (snd p)) (sub_centres x0 y0 x1 y1 s))).
(* is every deciding quantity of the pixel further than tol from 0 ? *)
Definition decided (tol : Q) (sh : shape) (x0 y0 : Q) (s : Z) : bool :=
  forallb (fun p => forallb (fun m => Qltb tol (Qabs m)) (margins sh (fst p) (snd p)))
          (sub_centres x0 y0 (x0 + 1) (y0 + 1) s).

(* --- the _overlap_grid drivers (use_exact = 0).  [pr] is pixel_radius = 0.5*sqrt(dx*dx+dy*dy);
       tests on d = sqrt(pxcen^2 + pycen^2) are written on squares *)
Definition in_skip_box (r dx dy pxmin pymin : Q) : bool :=
  Qltb (- r - half * dx) (pxmin + dx) && Qltb pxmin (r + half * dx) &&
  Qltb (- r - half * dy) (pymin + dy) && Qltb pymin (r + half * dy).

Definition cell (sh : shape) (pr dx dy pxmin pymin : Q) (s : Z) : Z :=
  let pxmax := pxmin + dx in let pymax := pymin + dy in
  match sh with
  | Circle r =>
      if in_skip_box r dx dy pxmin pymin then
        let pxcen := pxmin + dx * half in let pycen := pymin + dy * half in
        let d2 := pxcen * pxcen + pycen * pycen in
        if Qltb 0 (r - pr) && Qltb d2 ((r - pr) * (r - pr)) then (s * s)%Z     (* d < r - pixel_radius: 1.0 *)
        else if Qltb 0 (r + pr) && Qltb d2 ((r + pr) * (r + pr))               (* d < r + pixel_radius *)
             then single_subpixel sh pxmin pymin pxmax pymax s
             else 0%Z
      else 0%Z
  | Ellipse a b _ _ =>
      if in_skip_box (Qmax a b) dx dy pxmin pymin then single_subpixel sh pxmin pymin pxmax pymax s
      else 0%Z
  | Rect _ _ _ _ => single_subpixel sh pxmin pymin pxmax pymax s
  end.

Definition overlap_grid (sh : shape) (pr xmin xmax ymin ymax : Q) (nx ny s : Z) : list (list Z) :=
  let dx := Qred ((xmax - xmin) / inject_Z nx) in
  let dy := Qred ((ymax - ymin) / inject_Z ny) in
  map (fun j => map (fun i => cell sh pr dx dy (Qred (xmin + inject_Z (Z.of_nat i) * dx))
                                               (Qred (ymin + inject_Z (Z.of_nat j) * dy)) s)
                    (seq 0 (Z.to_nat nx)))
      (seq 0 (Z.to_nat ny)).

(* the double 0.5*sqrt(1.0*1.0 + 1.0*1.0) *)
Definition pixel_radius : Q := 6369051672525773 # 9007199254740992.

(* MaskMixin.to_mask for one shape: grid over the bbox with the centred edges *)
Definition mask_counts (sh : shape) (b : box) (px py : Q) (s : Z) : list (list Z) :=
  let '(xmin, xmax, ymin, ymax) := centered_edges b px py in
  overlap_grid sh pixel_radius xmin xmax ymin ymax (ixmax b - ixmin b) (iymax b - iymin b) s.

Definition grid {A} (f : Q -> Q -> A) (b : box) (px py : Q) : list (list A) :=
  let '(xmin, _, ymin, _) := centered_edges b px py in
  map (fun j => map (fun i => f (xmin + inject_Z (Z.of_nat i)) (ymin + inject_Z (Z.of_nat j)))
                    (seq 0 (Z.to_nat (ixmax b - ixmin b))))
      (seq 0 (Z.to_nat (iymax b - iymin b))).
Definition mask_decided (tol : Q) (sh : shape) (b : box) (px py : Q) (s : Z) : list (list bool) :=
  grid (fun x0 y0 => decided tol sh x0 y0 s) b px py.

(* annulus: outer mask minus inner mask, same grid *)
Definition map2 {A B C} (f : A -> B -> C) (l1 : list A) (l2 : list B) : list C :=
  map (fun p => f (fst p) (snd p)) (combine l1 l2).
Definition img_sub (a b : list (list Z)) := map2 (map2 Z.sub) a b.
Definition img_and (a b : list (list bool)) := map2 (map2 andb) a b.

(* ---------- extents (_xy_extents / _calc_extents) ---------- *)
(* exact squares of the extents of each family; the implementation's float extents
   (ex, ey) must satisfy ex^2 ~ x2, ey^2 ~ y2 *)
Definition extents_sq (sh : shape) : Q * Q :=
  match sh with
  | Circle r => (r * r, r * r)
  | Ellipse a b c s => (a * c * (a * c) + b * s * (b * s), a * s * (a * s) + b * c * (b * c))
  | Rect w h c s =>
      let hw := w / 2 in let hh := h / 2 in
      let x := Qmax (Qabs (hw * c - hh * s)) (Qabs (hw * c + hh * s)) in
      let y := Qmax (Qabs (hw * s + hh * c)) (Qabs (hw * s - hh * c)) in
      (x * x, y * y)
  end.
Definition close_sq (e e2 rel : Q) : bool := Qle_bool (Qabs (e * e - e2)) (rel * e2) && Qle_bool 0 e.

(* the float (cos, sin) pair is a unit vector up to rounding; this is the hypothesis under
   which the ellipse driver's bounding-circle skip is sound (see C01_Proofs.ell_cell_sound) *)
Definition rot_ok (sh : shape) : bool :=
  match sh with
  | Circle r => Qle_bool 0 r
  | Ellipse a b c s =>
      let r := Qmax a b in
      Qltb 0 a && Qltb 0 b && Qle_bool (r * r) ((c * c + s * s) * ((r + half) * (r + half)))
  | Rect w h c s => Qle_bool (Qabs (c * c + s * s - 1)) (1 # 1000000000000)
  end.

(* ---------- correspondence ---------- *)
Inductive case :=
| CMask (outer : shape) (inner : option shape) (px py ex ey : Q) (mode subpixels : Z)
        (rect : bool) (tol : option Q)
        (bbox : Z * Z * Z * Z)                  (* impl .bbox: ixmin ixmax iymin iymax *)
        (counts : option (list (list Z)))       (* impl weights * s^2 (None: exact mode) *)
| CSlices (b : Z * Z * Z * Z) (ny nx : Z)
          (exp : option ((zslc * zslc) * (zslc * zslc)))
| CUnion (a b r : Z * Z * Z * Z)
| CInter (a b : Z * Z * Z * Z) (r : option (Z * Z * Z * Z))
| CFromFloat (xmin xmax ymin ymax : Q) (r : Z * Z * Z * Z).

Definition tobox (t : Z * Z * Z * Z) : box := let '(a, b, c, d) := t in mkbox a b c d.
Definition ofbox (b : box) : Z * Z * Z * Z := (ixmin b, ixmax b, iymin b, iymax b).
Definition z4_eqb (a b : Z * Z * Z * Z) : bool :=
  let '(a1, a2, a3, a4) := a in let '(b1, b2, b3, b4) := b in
  ((a1 =? b1) && (a2 =? b2) && (a3 =? b3) && (a4 =? b4))%Z.
Definition zslc_eqb (a b : zslc) := ((fst a =? fst b) && (snd a =? snd b))%Z.
Definition slc4_eqb (a b : (zslc * zslc) * (zslc * zslc)) : bool :=
  zslc_eqb (fst (fst a)) (fst (fst b)) && zslc_eqb (snd (fst a)) (snd (fst b)) &&
  zslc_eqb (fst (snd a)) (fst (snd b)) && zslc_eqb (snd (snd a)) (snd (snd b)).

(* compare only decided pixels *)
Definition cmp_row (d : list bool) (m e : list Z) : bool :=
  (length m =? length e)%nat && (length d =? length e)%nat &&
  forallb (fun t => let '(dd, (a, b)) := t in negb dd || (a =? b)%Z) (combine d (combine m e)).
Definition cmp_img (d : list (list bool)) (m e : list (list Z)) : bool :=
  (length m =? length e)%nat && (length d =? length e)%nat &&
  forallb (fun t => let '(dd, (a, b)) := t in cmp_row dd a b) (combine d (combine m e)).

Definition model_mask (outer : shape) (inner : option shape) (px py ex ey : Q) (s : Z) :=
  let b := from_float (px - ex) (px + ex) (py - ey) (py + ey) in
  let mo := mask_counts outer b px py s in
  (b, match inner with None => mo | Some sh => img_sub mo (mask_counts sh b px py s) end).

Definition check_case (c : case) : bool :=
  match c with
  | CMask outer inner px py ex ey mode subpixels rect tol bbox counts =>
      let b := from_float (px - ex) (px + ex) (py - ey) (py + ey) in
      let '(x2, y2) := extents_sq outer in
      close_sq ex x2 (1 # 1000000000000) && close_sq ey y2 (1 # 1000000000000) &&
      rot_ok outer && match inner with None => true | Some sh => rot_ok sh end &&
      z4_eqb (ofbox b) bbox &&
      match translate_mode mode subpixels rect, counts with
      | Some (false, s), Some e =>
          let m := snd (model_mask outer inner px py ex ey s) in
          let d := match tol with
                   | None => map (map (fun _ => true)) m
                   | Some t =>
                       let d0 := mask_decided t outer b px py s in
                       match inner with None => d0 | Some sh => img_and d0 (mask_decided t sh b px py s) end
                   end in
          cmp_img d m e
      | Some (true, _), None => true
      | _, _ => false
      end
  | CSlices b ny nx exp =>
      match overlap_slices (tobox b) ny nx, exp with
      | None, None => true
      | Some a, Some e => slc4_eqb a e
      | _, _ => false
      end
  | CUnion a b r => z4_eqb (ofbox (box_union (tobox a) (tobox b))) r
  | CInter a b r =>
      match box_inter (tobox a) (tobox b), r with
      | None, None => true
      | Some x, Some y => z4_eqb (ofbox x) y
      | _, _ => false
      end
  | CFromFloat xmin xmax ymin ymax r => z4_eqb (ofbox (from_float xmin xmax ymin ymax)) r
  end.

Definition model_out (c : case) :=
  match c with
  | CMask outer inner px py ex ey mode subpixels rect tol bbox counts =>
      match translate_mode mode subpixels rect with
      | Some (false, s) => Some (model_mask outer inner px py ex ey s)
      | _ => None
      end
  | _ => None
  end.
