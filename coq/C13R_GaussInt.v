(* C13R_GaussInt.v -- the Gaussian integral  int_{-oo}^{+oo} exp(-x^2) dx = sqrt(pi)
   over Coq's Reals with Coquelicot (which does not provide it), and its affine variants.
   Proof: the classical argument without polar coordinates,
      F(t) = (int_0^t exp(-x^2) dx)^2 + int_0^1 exp(-t^2 (1+x^2)) / (1+x^2) dx
   has derivative 0 (differentiation under the integral sign + linear substitution),
   F(0) = atan 1 = pi/4, and the second term is squeezed by exp(-t^2). *)
From Coq Require Import Reals Lra.
Set Warnings "-ambiguous-paths".
From Coquelicot Require Import Coquelicot.
Set Warnings "ambiguous-paths".
Open Scope R_scope.

Definition gexp (x : R) : R := exp (- x ^ 2).

Lemma gexp_pos x : 0 < gexp x.
Proof. apply exp_pos. Qed.

Lemma gexp_le_1 x : gexp x <= 1.
Proof.
  unfold gexp. rewrite <- exp_0.
  assert (H := pow2_ge_0 x).
  destruct (Req_dec (x ^ 2) 0) as [E|E].
  - rewrite E, Ropp_0. right. reflexivity.
  - left. apply exp_increasing. lra.
Qed.

Lemma gexp_even x : gexp (- x) = gexp x.
Proof. unfold gexp. f_equal. ring. Qed.

Lemma gexp_continuous x : continuous gexp x.
Proof.
  apply (ex_derive_continuous gexp). unfold gexp. auto_derive. exact I.
Qed.

Lemma gexp_ex_RInt a b : ex_RInt gexp a b.
Proof. apply (ex_RInt_continuous gexp). intros z _. apply gexp_continuous. Qed.

(* G t = int_0^t exp(-x^2) dx *)
Definition G (t : R) : R := RInt gexp 0 t.

Lemma G_is_RInt t : is_RInt gexp 0 t (G t).
Proof. apply (RInt_correct gexp). apply gexp_ex_RInt. Qed.

Lemma G_derive t : is_derive G t (gexp t).
Proof.
  apply (is_derive_RInt gexp G 0 t).
  - apply filter_forall. intro b. apply G_is_RInt.
  - apply gexp_continuous.
Qed.

Lemma G_0 : G 0 = 0.
Proof. unfold G. apply (RInt_point 0 gexp). Qed.

Lemma G_nonneg t : 0 <= t -> 0 <= G t.
Proof.
  intro Ht. apply (RInt_ge_0 gexp 0 t Ht (gexp_ex_RInt 0 t)).
  intros x _. left. apply gexp_pos.
Qed.

(* the parameter integral *)
Definition hfun (t x : R) : R := exp (- t ^ 2 * (1 + x ^ 2)) / (1 + x ^ 2).
Definition H (t : R) : R := RInt (hfun t) 0 1.

Lemma one_plus_sq_pos x : 0 < 1 + x ^ 2.
Proof. generalize (pow2_ge_0 x). lra. Qed.

Lemma hfun_derive_t t x :
  is_derive (fun u => hfun u x) t (- 2 * t * exp (- t ^ 2 * (1 + x ^ 2))).
Proof.
  unfold hfun. assert (P := one_plus_sq_pos x). auto_derive.
  - simpl in *. lra.
  - simpl in *. field. lra.
Qed.

Lemma hfun_continuous_x t x : continuous (hfun t) x.
Proof.
  apply (ex_derive_continuous (hfun t)). unfold hfun. assert (P := one_plus_sq_pos x).
  auto_derive. simpl in *. lra.
Qed.

Lemma hfun_ex_RInt t a b : ex_RInt (hfun t) a b.
Proof. apply (ex_RInt_continuous (hfun t)). intros z _. apply hfun_continuous_x. Qed.

Lemma continuity_2d_pt_comp1 (h : R -> R) (g : R -> R -> R) x y :
  continuity_2d_pt g x y -> continuous h (g x y) ->
  continuity_2d_pt (fun u v => h (g u v)) x y.
Proof.
  intros Cg Ch. apply continuity_2d_pt_filterlim. apply continuity_2d_pt_filterlim in Cg.
  eapply filterlim_comp; [exact Cg | exact Ch].
Qed.

Definition dhfun (t x : R) : R := - 2 * t * exp (- t ^ 2 * (1 + x ^ 2)).

Lemma dhfun_continuity_2d t x : continuity_2d_pt dhfun t x.
Proof.
  unfold dhfun.
  apply (continuity_2d_pt_ext (fun u v => (- 2 * u) * exp (- (u * u) * (1 + v * v)))).
  { intros u v. f_equal. f_equal. ring. }
  apply (continuity_2d_pt_mult (fun u v => - 2 * u) (fun u v => exp (- (u * u) * (1 + v * v)))).
  - apply (continuity_2d_pt_mult (fun _ _ => - 2) (fun u _ => u)).
    + apply continuity_2d_pt_const.
    + apply continuity_2d_pt_id1.
  - apply (continuity_2d_pt_comp1 exp (fun u v => - (u * u) * (1 + v * v))).
    + apply (continuity_2d_pt_mult (fun u v => - (u * u)) (fun u v => 1 + v * v)).
      * apply (continuity_2d_pt_opp (fun u v => u * u)).
        apply (continuity_2d_pt_mult (fun u _ => u) (fun u _ => u)); apply continuity_2d_pt_id1.
      * apply (continuity_2d_pt_plus (fun _ _ => 1) (fun u v => v * v)).
        -- apply continuity_2d_pt_const.
        -- apply (continuity_2d_pt_mult (fun _ v => v) (fun _ v => v)); apply continuity_2d_pt_id2.
    + apply (ex_derive_continuous exp). auto_derive. exact I.
Qed.

Lemma hfun_Derive_t t x : Derive (fun u => hfun u x) t = dhfun t x.
Proof. apply is_derive_unique. apply hfun_derive_t. Qed.

Lemma H_derive_raw t : is_derive H t (RInt (fun x => dhfun t x) 0 1).
Proof.
  assert (D := is_derive_RInt_param hfun 0 1 t).
  unfold H.
  replace (RInt (fun x => dhfun t x) 0 1) with (RInt (fun x => Derive (fun u => hfun u x) t) 0 1).
  - apply D.
    + apply filter_forall. intros t' x _. eexists. apply hfun_derive_t.
    + intros x _.
      apply (continuity_2d_pt_ext dhfun).
      * intros u v. symmetry. apply hfun_Derive_t.
      * apply dhfun_continuity_2d.
    + apply filter_forall. intros t'. apply hfun_ex_RInt.
  - apply RInt_ext. intros x _. apply hfun_Derive_t.
Qed.

(* int_0^1 dhfun t x dx = - 2 exp(-t^2) G t   (substitution u = t x) *)
Lemma dhfun_RInt t : RInt (fun x => dhfun t x) 0 1 = - 2 * gexp t * G t.
Proof.
  apply is_RInt_unique.
  apply (is_RInt_ext (fun x => scal (- 2 * gexp t) (scal t (gexp (t * x + 0))))).
  { intros x _. unfold dhfun, gexp, scal; simpl; unfold mult; simpl.
    replace (- (t * (t * 1)) * (1 + x * (x * 1))) with (- (t * (t * 1)) + - ((t * x + 0) * ((t * x + 0) * 1))) by ring.
    rewrite exp_plus. ring. }
  apply (is_RInt_scal (fun x => scal t (gexp (t * x + 0))) 0 1 (- 2 * gexp t) (G t)).
  apply (is_RInt_comp_lin gexp t 0 0 1 (G t)).
  replace (t * 0 + 0) with 0 by ring. replace (t * 1 + 0) with t by ring.
  apply G_is_RInt.
Qed.

Lemma H_derive t : is_derive H t (- 2 * gexp t * G t).
Proof. rewrite <- dhfun_RInt. apply H_derive_raw. Qed.

(* F = G^2 + H is constant *)
Definition F (t : R) : R := G t ^ 2 + H t.

Lemma F_derive t : is_derive F t 0.
Proof.
  unfold F.
  assert (DG := G_derive t). assert (DH := H_derive t).
  auto_derive.
  - split; [eexists; exact DG | split; [eexists; exact DH | exact I]].
  - change (Derive (fun x : R => G x) t) with (Derive G t). change (Derive (fun x : R => H x) t) with (Derive H t). rewrite (is_derive_unique _ _ _ DG), (is_derive_unique _ _ _ DH). simpl. ring.
Qed.

Lemma F_const t : F t = F 0.
Proof.
  assert (I : is_RInt (fun _ : R => 0) 0 t (F t - F 0)).
  { apply (is_RInt_derive F (fun _ => 0)).
    - intros x _. apply F_derive.
    - intros x _. apply continuous_const. }
  assert (Z : is_RInt (fun _ : R => 0) 0 t (scal (t - 0) 0)) by apply (is_RInt_const 0 t 0).
  assert (E := is_RInt_unique _ _ _ _ I). rewrite (is_RInt_unique _ _ _ _ Z) in E.
  unfold scal in E; simpl in E; unfold mult in E; simpl in E. lra.
Qed.

(* F 0 = int_0^1 1/(1+x^2) dx = atan 1 = pi/4 *)
Lemma H_0 : H 0 = PI / 4.
Proof.
  unfold H. apply is_RInt_unique.
  apply (is_RInt_ext (fun x => / (1 + x ^ 2))).
  { intros x _. unfold hfun. replace (- 0 ^ 2 * (1 + x ^ 2)) with 0 by ring.
    rewrite exp_0. unfold Rdiv. symmetry. apply Rmult_1_l. }
  replace (PI / 4) with (atan 1 - atan 0) by (rewrite atan_1, atan_0; ring).
  apply (is_RInt_derive atan (fun x => / (1 + x ^ 2))).
  - intros x _. auto_derive; [exact I|]. simpl. field. generalize (one_plus_sq_pos x). simpl. lra.
  - intros x _. apply (ex_derive_continuous (fun x => / (1 + x ^ 2))).
    auto_derive. generalize (one_plus_sq_pos x). simpl. lra.
Qed.

Lemma F_value t : G t ^ 2 + H t = PI / 4.
Proof.
  change (F t = PI / 4). rewrite F_const. unfold F. rewrite G_0, H_0. ring.
Qed.

(* the remainder term is squeezed:  0 <= H t <= exp(-t^2) *)
Lemma hfun_bounds t x : 0 <= hfun t x <= gexp t.
Proof.
  unfold hfun, gexp. assert (P := one_plus_sq_pos x).
  assert (X := pow2_ge_0 x). assert (T := pow2_ge_0 t).
  assert (E0 := exp_pos (- t ^ 2 * (1 + x ^ 2))).
  assert (E1 : exp (- t ^ 2 * (1 + x ^ 2)) <= exp (- t ^ 2)).
  { destruct (Req_dec (t ^ 2 * x ^ 2) 0) as [Z|Z].
    - right. f_equal. lra.
    - left. apply exp_increasing.
      assert (0 <= t ^ 2 * x ^ 2) by (apply Rmult_le_pos; assumption). lra. }
  split.
  - left. apply Rdiv_lt_0_compat; assumption.
  - apply (Rmult_le_reg_r (1 + x ^ 2)); [exact P|].
    replace (exp (- t ^ 2 * (1 + x ^ 2)) / (1 + x ^ 2) * (1 + x ^ 2))
      with (exp (- t ^ 2 * (1 + x ^ 2))) by (field; lra).
    assert (E2 := exp_pos (- t ^ 2)). nra.
Qed.

Lemma H_bounds t : 0 <= H t <= gexp t.
Proof.
  unfold H. split.
  - apply (RInt_ge_0 (hfun t) 0 1); [lra | apply hfun_ex_RInt |].
    intros x _. apply hfun_bounds.
  - replace (gexp t) with (RInt (fun _ => gexp t) 0 1).
    + apply (RInt_le (hfun t) (fun _ => gexp t) 0 1); [lra | apply hfun_ex_RInt | |].
      * apply ex_RInt_const.
      * intros x _. apply hfun_bounds.
    + rewrite RInt_const. unfold scal; simpl; unfold mult; simpl. ring.
Qed.

Lemma gexp_lim_p : is_lim gexp p_infty 0.
Proof.
  unfold gexp.
  apply (is_lim_comp (fun y => exp y) (fun x => - x ^ 2) p_infty 0 m_infty).
  - exact is_lim_exp_m.
  - intros P [M HM]. exists (Rmax 1 (- M)). intros x Hx. apply HM.
    assert (H1 : 1 < x) by (eapply Rle_lt_trans; [apply Rmax_l | exact Hx]).
    assert (H2 : - M < x) by (eapply Rle_lt_trans; [apply Rmax_r | exact Hx]).
    nra.
  - exists 0. intros x _ E. discriminate E.
Qed.

Lemma H_lim_p : is_lim H p_infty 0.
Proof.
  apply (is_lim_le_le_loc (fun _ => 0) gexp H p_infty 0).
  - exists 0. intros t _. apply H_bounds.
  - apply is_lim_const.
  - apply gexp_lim_p.
Qed.

Lemma G_sqrt_form t : 0 <= t -> G t = sqrt (PI / 4 - H t).
Proof.
  intro Ht. assert (V := F_value t). assert (N := G_nonneg t Ht).
  replace (PI / 4 - H t) with (G t ^ 2) by lra.
  simpl. rewrite Rmult_1_r. symmetry. apply sqrt_square, N.
Qed.

(* int_0^{+oo} exp(-x^2) dx = sqrt(pi) / 2 *)
Lemma G_lim_p : is_lim G p_infty (sqrt PI / 2).
Proof.
  apply (is_lim_ext_loc (fun t => sqrt (PI / 4 - H t))).
  { exists 0. intros t Ht. symmetry. apply G_sqrt_form. lra. }
  replace (sqrt PI / 2) with (sqrt (PI / 4 - 0)).
  - apply (is_lim_comp_continuous (fun t => PI / 4 - H t) sqrt p_infty (PI / 4 - 0)).
    + apply (is_lim_minus' (fun _ => PI / 4) H p_infty (PI / 4) 0).
      * apply is_lim_const.
      * apply H_lim_p.
    + apply continuous_sqrt.
  - rewrite Rminus_0_r. rewrite sqrt_div_alt by lra.
    replace 4 with (2 * 2) by ring. rewrite sqrt_square by lra. reflexivity.
Qed.

(* ------------------------------------------------------------------ *)
(* generic tools                                                        *)
(* ------------------------------------------------------------------ *)
Lemma null_derive_const (f : R -> R) :
  (forall x, is_derive f x 0) -> forall t, f t = f 0.
Proof.
  intros D t.
  assert (I : is_RInt (fun _ : R => 0) 0 t (f t - f 0)).
  { apply (is_RInt_derive f (fun _ => 0)).
    - intros x _. apply D.
    - intros x _. apply continuous_const. }
  assert (Z : is_RInt (fun _ : R => 0) 0 t (scal (t - 0) 0)) by apply (is_RInt_const 0 t 0).
  assert (E := is_RInt_unique _ _ _ _ I). rewrite (is_RInt_unique _ _ _ _ Z) in E.
  unfold scal in E; simpl in E; unfold mult in E; simpl in E. lra.
Qed.

(* improper integral from an antiderivative with limits at both ends *)
Lemma is_RInt_gen_prim {Fa Fb : (R -> Prop) -> Prop} {FFa : Filter Fa} {FFb : Filter Fb}
  (f Pr : R -> R) (la lb : R) :
  (forall x, is_derive Pr x (f x)) -> (forall x, continuous f x) ->
  filterlim Pr Fa (locally la) -> filterlim Pr Fb (locally lb) ->
  is_RInt_gen f Fa Fb (lb - la).
Proof.
  intros DF Cf La Lb P HP.
  assert (HP' : filter_prod Fa Fb (fun ab => P (Pr (snd ab) - Pr (fst ab)))).
  { unfold Rminus.
    refine (@filterlim_comp_2 _ _ _ _ (filter_prod Fa Fb) (locally lb) (locally (- la))
              (locally (lb + - la)) _
              (fun ab => Pr (snd ab)) (fun ab => - Pr (fst ab)) Rplus _ _ _ P HP).
    - eapply filterlim_comp; [apply filterlim_snd | exact Lb].
    - eapply filterlim_comp; [eapply filterlim_comp; [apply filterlim_fst | exact La]|].
      apply (filterlim_opp la).
    - exact (filterlim_plus lb (- la)). }
  unfold filtermapi. eapply filter_imp; [|exact HP'].
  intros [a b] HPab. simpl in *. exists (Pr b - Pr a). split; [|exact HPab].
  apply (is_RInt_derive Pr f); intros x _; [apply DF | apply Cf].
Qed.

(* ------------------------------------------------------------------ *)
(* G is odd; limit at -oo; strictly increasing                          *)
(* ------------------------------------------------------------------ *)
Lemma G_odd t : G (- t) = - G t.
Proof.
  assert (K : forall x, is_derive (fun x => G (- x) + G x) x 0).
  { intro x. assert (D1 := G_derive (- x)). assert (D2 := G_derive x).
    auto_derive.
    - split; [eexists; exact D1 | split; [eexists; exact D2 | exact I]].
    - change (Derive (fun x0 : R => G x0) (- x)) with (Derive G (- x)).
      change (Derive (fun x0 : R => G x0) x) with (Derive G x).
      rewrite (is_derive_unique _ _ _ D1), (is_derive_unique _ _ _ D2), gexp_even. ring. }
  assert (E := null_derive_const _ K t). simpl in E.
  rewrite Ropp_0, G_0 in E. lra.
Qed.

Lemma G_lim_m : is_lim G m_infty (- (sqrt PI / 2)).
Proof.
  apply (is_lim_ext (fun t => - G (- t))).
  { intro t. rewrite G_odd. ring. }
  apply (is_lim_opp (fun t => G (- t)) m_infty (sqrt PI / 2)).
  intros P HP. destruct (G_lim_p P HP) as [M HM].
  exists (- M). intros x Hx. apply HM. lra.
Qed.

Lemma G_increasing a b : a < b -> G a < G b.
Proof.
  intro Hab.
  assert (I : is_RInt gexp a b (G b - G a)).
  { apply (is_RInt_derive G gexp); intros x _; [apply G_derive | apply gexp_continuous]. }
  assert (0 < RInt gexp a b).
  { replace 0 with (RInt (fun _ => 0) a b)
      by (rewrite RInt_const; unfold scal; simpl; unfold mult; simpl; ring).
    apply (RInt_lt (fun _ => 0) gexp a b Hab).
    - intros x _. apply gexp_continuous.
    - intros x _. apply continuous_const.
    - intros x _. apply gexp_pos. }
  rewrite (is_RInt_unique _ _ _ _ I) in H0. lra.
Qed.

Lemma G_lt_limit t : G t < sqrt PI / 2.
Proof.
  (* G t < G (t+1) <= limit *)
  assert (S := G_increasing t (t + 1) ltac:(lra)).
  assert (L : G (t + 1) <= sqrt PI / 2); [|lra].
  apply (is_lim_le_loc (fun _ => G (t + 1)) G p_infty (G (t + 1)) (sqrt PI / 2)).
  - exists (t + 1). intros x Hx. left. apply G_increasing, Hx.
  - apply is_lim_const.
  - apply G_lim_p.
Qed.

(* ------------------------------------------------------------------ *)
(* the Gaussian integral and its affine family                          *)
(* ------------------------------------------------------------------ *)
Theorem gaussian_integral :
  is_RInt_gen gexp (Rbar_locally m_infty) (Rbar_locally p_infty) (sqrt PI).
Proof.
  replace (sqrt PI) with (sqrt PI / 2 - - (sqrt PI / 2)) by field.
  apply (is_RInt_gen_prim gexp G).
  - apply G_derive.
  - apply gexp_continuous.
  - exact G_lim_m.
  - exact G_lim_p.
Qed.

Theorem gaussian_integral_half :
  is_RInt_gen gexp (at_point 0) (Rbar_locally p_infty) (sqrt PI / 2).
Proof.
  replace (sqrt PI / 2) with (sqrt PI / 2 - 0) by ring.
  apply (is_RInt_gen_prim gexp G).
  - apply G_derive.
  - apply gexp_continuous.
  - intros P HP. unfold filtermap, at_point. rewrite G_0.
    apply (locally_singleton _ _ HP).
  - exact G_lim_p.
Qed.

(* exp (- k (x - m)^2), k > 0: antiderivative G (sqrt k (x - m)) / sqrt k *)
Definition gauss1 (k m x : R) : R := exp (- k * (x - m) ^ 2).
Definition gauss1_prim (k m x : R) : R := G (sqrt k * (x - m)) / sqrt k.

Lemma gauss1_prim_derive k m x : 0 < k -> is_derive (gauss1_prim k m) x (gauss1 k m x).
Proof.
  intro Hk. assert (S := sqrt_lt_R0 k Hk). assert (Q : sqrt k * sqrt k = k) by (apply sqrt_sqrt; lra).
  unfold gauss1_prim, gauss1.
  assert (D := G_derive (sqrt k * (x + - m))).
  auto_derive.
  - eexists; exact D.
  - change (Derive (fun x0 : R => G x0)) with (Derive G).
    rewrite (is_derive_unique _ _ _ D). unfold gexp.
    replace (- (sqrt k * (x + - m)) ^ 2) with (- (sqrt k * sqrt k) * (x - m) ^ 2) by ring.
    rewrite Q. field. lra.
Qed.

Lemma gauss1_continuous k m x : continuous (gauss1 k m) x.
Proof.
  apply (ex_derive_continuous (gauss1 k m)). unfold gauss1. auto_derive. exact I.
Qed.

Lemma gauss1_prim_lim_p k m :
  0 < k -> is_lim (gauss1_prim k m) p_infty (sqrt PI / 2 / sqrt k).
Proof.
  intro Hk. assert (S := sqrt_lt_R0 k Hk). unfold gauss1_prim.
  apply (is_lim_ext (fun x => / sqrt k * G (sqrt k * (x - m)))).
  { intro x. unfold Rdiv. ring. }
  replace (Finite (sqrt PI / 2 / sqrt k)) with (Rbar_mult (/ sqrt k) (Finite (sqrt PI / 2)))
    by (simpl; f_equal; field; lra).
  apply (is_lim_scal_l (fun x => G (sqrt k * (x - m)))).
  intros P HP. destruct (G_lim_p P HP) as [M HM].
  exists (M / sqrt k + m). intros x Hx. apply HM.
  assert (M / sqrt k < x - m) by lra.
  apply (Rmult_lt_compat_l (sqrt k)) in H0; [|exact S].
  replace (sqrt k * (M / sqrt k)) with M in H0 by (field; lra). exact H0.
Qed.

Lemma gauss1_prim_lim_m k m :
  0 < k -> is_lim (gauss1_prim k m) m_infty (- (sqrt PI / 2 / sqrt k)).
Proof.
  intro Hk. assert (S := sqrt_lt_R0 k Hk). unfold gauss1_prim.
  apply (is_lim_ext (fun x => / sqrt k * G (sqrt k * (x - m)))).
  { intro x. unfold Rdiv. ring. }
  replace (Finite (- (sqrt PI / 2 / sqrt k)))
    with (Rbar_mult (/ sqrt k) (Finite (- (sqrt PI / 2))))
    by (simpl; f_equal; field; lra).
  apply (is_lim_scal_l (fun x => G (sqrt k * (x - m)))).
  intros P HP. destruct (G_lim_m P HP) as [M HM].
  exists (M / sqrt k + m). intros x Hx. apply HM.
  assert (x - m < M / sqrt k) by lra.
  apply (Rmult_lt_compat_l (sqrt k)) in H0; [|exact S].
  replace (sqrt k * (M / sqrt k)) with M in H0 by (field; lra). exact H0.
Qed.

Lemma sqrt_pi_over k : 0 < k -> sqrt PI / 2 / sqrt k - - (sqrt PI / 2 / sqrt k) = sqrt (PI / k).
Proof.
  intro Hk. assert (S := sqrt_lt_R0 k Hk).
  rewrite sqrt_div_alt by exact Hk. field. lra.
Qed.

Theorem gauss1_integral k m :
  0 < k ->
  is_RInt_gen (gauss1 k m) (Rbar_locally m_infty) (Rbar_locally p_infty) (sqrt (PI / k)).
Proof.
  intro Hk. rewrite <- (sqrt_pi_over k Hk).
  apply (is_RInt_gen_prim (gauss1 k m) (gauss1_prim k m)).
  - intro x. apply gauss1_prim_derive, Hk.
  - apply gauss1_continuous.
  - apply gauss1_prim_lim_m, Hk.
  - apply gauss1_prim_lim_p, Hk.
Qed.

(* bounded intervals: closed form through G *)
Lemma gauss1_RInt k m a b :
  0 < k -> is_RInt (gauss1 k m) a b (gauss1_prim k m b - gauss1_prim k m a).
Proof.
  intro Hk. apply (is_RInt_derive (gauss1_prim k m) (gauss1 k m)); intros x _.
  - apply gauss1_prim_derive, Hk.
  - apply gauss1_continuous.
Qed.
