(* C11 — proofs about the Background2D model (C11_Model.v).
   Part 1: box geometry (partition of the image, the index arithmetic of the four code
           paths selects exactly the block of a mesh cell).
   Part 2: statistics bookkeeping (exclusion rule, mask blindness, non-empty kept boxes).
   Part 3: rational min/max/clip, the IDW fill, the median filter, the final image.
   Part 4: the pipeline theorems (shape, coverage fill, range, constant image,
           shift/scale equivariance under hypotheses on the library numerics). *)
From Coq Require Import List Arith ZArith QArith Bool Lia Lqa Permutation Setoid Morphisms.
From PV Require Import lib.Cases C11_Model.
Import ListNotations.
Open Scope nat_scope.

(* ================================================================== *)
(* Part 0: generic list / image facts                                   *)
(* ================================================================== *)
Lemma mk2_length {A} h w (f : nat -> nat -> A) : length (mk2 h w f) = h.
Proof. unfold mk2. now rewrite map_length, seq_length. Qed.

Lemma map_seq_nth {A} (g : nat -> A) n d k : k < n -> nth k (map g (seq 0 n)) d = g k.
Proof.
  intros H. rewrite nth_indep with (d' := g 0) by (now rewrite map_length, seq_length).
  rewrite (map_nth g (seq 0 n) 0 k), seq_nth by exact H. reflexivity.
Qed.

Lemma mk2_row {A} h w (f : nat -> nat -> A) y :
  y < h -> nth y (mk2 h w f) [] = map (fun x => f y x) (seq 0 w).
Proof. intros Hy. unfold mk2. now rewrite map_seq_nth. Qed.

Lemma mk2_get {A} (d : A) h w f y x : y < h -> x < w -> get2 d (mk2 h w f) y x = f y x.
Proof.
  intros Hy Hx. unfold get2. rewrite mk2_row by exact Hy. now rewrite map_seq_nth.
Qed.

Lemma mk2_row_length {A} h w (f : nat -> nat -> A) r : In r (mk2 h w f) -> length r = w.
Proof.
  unfold mk2. intros H. apply in_map_iff in H as (y & <- & _).
  now rewrite map_length, seq_length.
Qed.

Lemma mk2_width {A} h w (f : nat -> nat -> A) : 0 < h -> width (mk2 h w f) = w.
Proof.
  intros Hh. unfold width. apply mk2_row_length with (h := h) (f := f).
  destruct h; [lia|]. unfold mk2. cbn. now left.
Qed.

Lemma mk2_ext {A} h w (f g : nat -> nat -> A) :
  (forall y x, y < h -> x < w -> f y x = g y x) -> mk2 h w f = mk2 h w g.
Proof.
  intros H. unfold mk2. apply map_ext_in. intros y Hy. apply in_seq in Hy.
  apply map_ext_in. intros x Hx. apply in_seq in Hx. apply H; lia.
Qed.

Lemma mk2_in {A} h w (f : nat -> nat -> A) v :
  In v (concat (mk2 h w f)) -> exists y x, y < h /\ x < w /\ v = f y x.
Proof.
  intros H. apply in_concat in H as (r & Hr & Hv). unfold mk2 in Hr.
  apply in_map_iff in Hr as (y & <- & Hy). apply in_map_iff in Hv as (x & <- & Hx).
  apply in_seq in Hy. apply in_seq in Hx. exists y, x. repeat split; lia.
Qed.

Lemma mk2_in_conv {A} h w (f : nat -> nat -> A) y x :
  y < h -> x < w -> In (f y x) (concat (mk2 h w f)).
Proof.
  intros Hy Hx. apply in_concat. exists (map (fun x => f y x) (seq 0 w)). split.
  - unfold mk2. apply in_map_iff. exists y. split; [reflexivity|apply in_seq; lia].
  - apply in_map_iff. exists x. split; [reflexivity|apply in_seq; lia].
Qed.

Lemma map_map_mk2 {A B} (g : A -> B) h w f :
  map (map g) (mk2 h w f) = mk2 h w (fun y x => g (f y x)).
Proof. unfold mk2. rewrite map_map. apply map_ext. intros y. now rewrite map_map. Qed.

Lemma NoDup_app_intro {A} (l1 l2 : list A) :
  NoDup l1 -> NoDup l2 -> (forall a, In a l1 -> ~ In a l2) -> NoDup (l1 ++ l2).
Proof.
  induction l1 as [|a l1 IH]; intros H1 H2 H; [exact H2|].
  cbn. inversion H1; subst. constructor.
  - rewrite in_app_iff. intros [Hin|Hin]; [tauto|]. apply (H a); [now left|exact Hin].
  - apply IH; auto. intros b Hb. apply H. now right.
Qed.

(* flat_map over a product with a jointly injective pairing function has no duplicates *)
Lemma NoDup_flat_map_pair {A B C} (h : A -> B -> C) la lb :
  NoDup la -> NoDup lb ->
  (forall a b a' b', h a b = h a' b' -> a = a' /\ b = b') ->
  NoDup (flat_map (fun a => map (fun b => h a b) lb) la).
Proof.
  intros Ha Hb Hinj. induction la as [|a la IH]; cbn; [constructor|].
  inversion Ha; subst. apply NoDup_app_intro.
  - apply FinFun.Injective_map_NoDup; [|exact Hb].
    intros b b' E. now apply Hinj in E.
  - now apply IH.
  - intros c Hc Hc'. apply in_map_iff in Hc as (b & <- & _).
    apply in_flat_map in Hc' as (a' & Ha' & Hc'). apply in_map_iff in Hc' as (b' & E & _).
    apply Hinj in E as [-> _]. contradiction.
Qed.

Lemma flat_map_pair_length {A B C} (h : A -> B -> C) la lb :
  length (flat_map (fun a => map (fun b => h a b) lb) la) = length la * length lb.
Proof.
  induction la as [|a la IH]; cbn; [reflexivity|]. now rewrite app_length, map_length, IH.
Qed.

(* ================================================================== *)
(* Part 1: geometry                                                     *)
(* ================================================================== *)
Lemma div_eq_iff b y i : 0 < b -> (y / b = i <-> i * b <= y /\ y < (i + 1) * b).
Proof.
  intros Hb. split.
  - intros <-. split.
    + rewrite Nat.mul_comm. apply Nat.mul_div_le. lia.
    + replace ((y / b + 1) * b) with (b * S (y / b)) by lia.
      apply Nat.mul_succ_div_gt. lia.
  - intros [H1 H2]. symmetry. apply Nat.div_unique with (r := y - i * b); lia.
Qed.

(* the 1-D picture: mesh index i along an axis of length n with box b covers
   [i*b, i*b+b) for a core box and [(n/b)*b, n) for the extra (padded) box *)
Definition seg (n b i y : nat) : Prop :=
  if i <? n / b then i * b <= y < i * b + b else (n / b) * b <= y < n.
Definition nmesh (n b : nat) : nat := n / b + (if (n / b) * b <? n then 1 else 0).

Lemma seg_spec n b i y :
  0 < b -> i < nmesh n b -> (seg n b i y <-> y < n /\ y / b = i).
Proof.
  intros Hb Hi. unfold seg, nmesh in *.
  assert (Hle : n / b * b <= n) by (rewrite Nat.mul_comm; apply Nat.mul_div_le; lia).
  assert (Hgt : n < (n / b + 1) * b).
  { replace ((n / b + 1) * b) with (b * S (n / b)) by lia. apply Nat.mul_succ_div_gt. lia. }
  rewrite div_eq_iff by exact Hb.
  destruct (i <? n / b) eqn:Ei.
  - apply Nat.ltb_lt in Ei. split; [|lia]. intros H. split; [|lia].
    assert ((i + 1) * b <= n / b * b) by (apply Nat.mul_le_mono_r; lia). lia.
  - apply Nat.ltb_ge in Ei. destruct (n / b * b <? n) eqn:En.
    + assert (i = n / b) by lia. subst i. lia.
    + lia.
Qed.

Lemma nmesh_y ny by_ : nmy ny by_ = nmesh ny by_.
Proof. reflexivity. Qed.
Lemma nmesh_x nx bx : nmx nx bx = nmesh nx bx.
Proof. reflexivity. Qed.

Lemma nmesh_pos n b : 0 < b -> 0 < n -> 0 < nmesh n b.
Proof.
  intros Hb Hn. unfold nmesh. destruct (n / b * b <? n) eqn:E; [lia|].
  apply Nat.ltb_ge in E. destruct (n / b) eqn:D; [cbn in E; lia|lia].
Qed.

Section GeoProofs.
Variables (ny nx by_ bx : nat).
Hypothesis Hby : 0 < by_.
Hypothesis Hbx : 0 < bx.

Lemma in_core i j y x :
  In (y, x) (core_coords by_ bx i j) <->
  (i * by_ <= y < i * by_ + by_) /\ (j * bx <= x < j * bx + bx).
Proof.
  unfold core_coords. rewrite in_flat_map. split.
  - intros (dy & Hdy & H). apply in_map_iff in H as (dx & E & Hdx).
    apply in_seq in Hdy, Hdx. inversion E; subst. lia.
  - intros [Hy Hx]. exists (y - i * by_). split; [apply in_seq; lia|].
    apply in_map_iff. exists (x - j * bx). split; [f_equal; lia|apply in_seq; lia].
Qed.

Lemma in_row j y x :
  In (y, x) (row_coords ny by_ bx j) <->
  (y1 ny by_ <= y < y1 ny by_ + (ny - y1 ny by_)) /\ (j * bx <= x < j * bx + bx).
Proof.
  unfold row_coords. rewrite in_flat_map. split.
  - intros (dx & Hdx & H). apply in_map_iff in H as (r & E & Hr).
    apply in_seq in Hdx, Hr. inversion E; subst. lia.
  - intros [Hy Hx]. exists (x - j * bx). split; [apply in_seq; lia|].
    apply in_map_iff. exists (y - y1 ny by_). split; [f_equal; lia|apply in_seq; lia].
Qed.

Lemma in_col i y x :
  In (y, x) (col_coords nx by_ bx i) <->
  (i * by_ <= y < i * by_ + by_) /\ (x1 nx bx <= x < x1 nx bx + (nx - x1 nx bx)).
Proof.
  unfold col_coords. rewrite in_flat_map. split.
  - intros (c & Hc & H). apply in_map_iff in H as (dy & E & Hdy).
    apply in_seq in Hc, Hdy. inversion E; subst. lia.
  - intros [Hy Hx]. exists (x - x1 nx bx). split; [apply in_seq; lia|].
    apply in_map_iff. exists (y - i * by_). split; [f_equal; lia|apply in_seq; lia].
Qed.

Lemma in_crn y x :
  In (y, x) (crn_coords ny nx by_ bx) <->
  (y1 ny by_ <= y < y1 ny by_ + (ny - y1 ny by_)) /\ (x1 nx bx <= x < x1 nx bx + (nx - x1 nx bx)).
Proof.
  unfold crn_coords. rewrite in_flat_map. split.
  - intros (r & Hr & H). apply in_map_iff in H as (c & E & Hc).
    apply in_seq in Hr, Hc. inversion E; subst. lia.
  - intros [Hy Hx]. exists (y - y1 ny by_). split; [apply in_seq; lia|].
    apply in_map_iff. exists (x - x1 nx bx). split; [f_equal; lia|apply in_seq; lia].
Qed.

Lemma y1_le : y1 ny by_ <= ny.
Proof. unfold y1, nby. rewrite Nat.mul_comm. apply Nat.mul_div_le. lia. Qed.
Lemma x1_le : x1 nx bx <= nx.
Proof. unfold x1, nbx. rewrite Nat.mul_comm. apply Nat.mul_div_le. lia. Qed.

(* whichever of the four code paths computes cell (i,j), the coordinates it gathers are
   exactly the pixels of the 1-D segments i (rows) and j (columns) *)
Lemma in_cell_seg i j y x :
  In (y, x) (cell_coords ny nx by_ bx i j) <-> seg ny by_ i y /\ seg nx bx j x.
Proof.
  pose proof y1_le as Hy1. pose proof x1_le as Hx1.
  unfold cell_coords, seg. fold (nby ny by_) (nbx nx bx).
  destruct (i <? nby ny by_), (j <? nbx nx bx).
  - apply in_core.
  - rewrite in_col. unfold x1 in *. lia.
  - rewrite in_row. unfold y1 in *. lia.
  - rewrite in_crn. unfold y1, x1 in *. lia.
Qed.

(* mesh_cell_is_block *)
Lemma cell_coords_spec i j y x :
  i < nmy ny by_ -> j < nmx nx bx ->
  (In (y, x) (cell_coords ny nx by_ bx i j) <->
   y < ny /\ x < nx /\ y / by_ = i /\ x / bx = j).
Proof.
  intros Hi Hj. rewrite in_cell_seg.
  rewrite (seg_spec ny by_ i y Hby Hi), (seg_spec nx bx j x Hbx Hj). tauto.
Qed.

Lemma cell_coords_NoDup i j : NoDup (cell_coords ny nx by_ bx i j).
Proof.
  unfold cell_coords.
  destruct (i <? nby ny by_), (j <? nbx nx bx);
    [unfold core_coords|unfold col_coords|unfold row_coords|unfold crn_coords];
    (apply NoDup_flat_map_pair; [apply seq_NoDup|apply seq_NoDup|]);
    intros a b a' b' E; inversion E; lia.
Qed.

(* the mesh index of a pixel *)
Lemma pixel_cell_in_mesh y x :
  y < ny -> x < nx -> y / by_ < nmy ny by_ /\ x / bx < nmx nx bx.
Proof.
  intros Hy Hx. change (nmy ny by_) with (nmesh ny by_). change (nmx nx bx) with (nmesh nx bx).
  unfold nmesh.
  assert (A : forall n b v, 0 < b -> v < n -> v / b < n / b + (if n / b * b <? n then 1 else 0)).
  { intros n b v Hb Hv.
    assert (v / b <= n / b) by (apply Nat.div_le_mono; lia).
    destruct (n / b * b <? n) eqn:E; [lia|]. apply Nat.ltb_ge in E.
    assert (n = n / b * b).
    { assert (n / b * b <= n) by (rewrite Nat.mul_comm; apply Nat.mul_div_le; lia). lia. }
    apply Nat.div_lt_upper_bound; lia. }
  split; apply A; assumption.
Qed.

(* boxes_partition_image: every pixel of the image lies in exactly one mesh cell's
   coordinate list, exactly once; and mesh cells contain nothing but image pixels *)
Lemma boxes_partition y x :
  y < ny -> x < nx ->
  exists i j, i < nmy ny by_ /\ j < nmx nx bx /\
    In (y, x) (cell_coords ny nx by_ bx i j) /\
    NoDup (cell_coords ny nx by_ bx i j) /\
    forall i' j', i' < nmy ny by_ -> j' < nmx nx bx ->
      In (y, x) (cell_coords ny nx by_ bx i' j') -> i' = i /\ j' = j.
Proof.
  intros Hy Hx. destruct (pixel_cell_in_mesh y x Hy Hx) as [Hi Hj].
  exists (y / by_), (x / bx). repeat split; try assumption.
  - apply cell_coords_spec; auto.
  - apply cell_coords_NoDup.
  - apply cell_coords_spec in H1; auto. lia.
  - apply cell_coords_spec in H1; auto. lia.
Qed.

Lemma cell_coords_in_image i j c :
  i < nmy ny by_ -> j < nmx nx bx ->
  In c (cell_coords ny nx by_ bx i j) -> fst c < ny /\ snd c < nx.
Proof.
  intros Hi Hj H. destruct c as [y x]. apply cell_coords_spec in H; auto. cbn. lia.
Qed.

(* the row-major enumeration of the block of mesh cell (i,j) *)
Definition block_rows (i : nat) : list nat :=
  seq (i * by_) (Nat.min ((i + 1) * by_) ny - i * by_).
Definition block_cols (j : nat) : list nat :=
  seq (j * bx) (Nat.min ((j + 1) * bx) nx - j * bx).
Definition block_coords (i j : nat) : list (nat * nat) :=
  flat_map (fun y => map (fun x => (y, x)) (block_cols j)) (block_rows i).

Lemma in_block i j y x :
  In (y, x) (block_coords i j) <->
  (i * by_ <= y < Nat.min ((i + 1) * by_) ny) /\ (j * bx <= x < Nat.min ((j + 1) * bx) nx).
Proof.
  unfold block_coords, block_rows, block_cols. rewrite in_flat_map. split.
  - intros (y' & Hy' & H). apply in_map_iff in H as (x' & E & Hx').
    apply in_seq in Hy', Hx'. inversion E; subst. lia.
  - intros [Hy Hx]. exists y. split; [apply in_seq; lia|].
    apply in_map_iff. exists x. split; [reflexivity|apply in_seq; lia].
Qed.

Lemma block_NoDup i j : NoDup (block_coords i j).
Proof.
  unfold block_coords. apply NoDup_flat_map_pair; try apply seq_NoDup.
  intros a b a' b' E. now inversion E.
Qed.

(* the coordinates gathered by the code for cell (i,j) are a rearrangement of the
   pixels of the block rows [i*by, min((i+1)*by, ny)) x cols [j*bx, min((j+1)*bx, nx)) *)
Lemma cell_is_block i j :
  i < nmy ny by_ -> j < nmx nx bx ->
  Permutation (cell_coords ny nx by_ bx i j) (block_coords i j).
Proof.
  intros Hi Hj. apply NoDup_Permutation.
  - apply cell_coords_NoDup.
  - apply block_NoDup.
  - intros [y x]. rewrite cell_coords_spec, in_block by assumption.
    rewrite !div_eq_iff by assumption. lia.
Qed.

Lemma block_length i j :
  length (block_coords i j) =
  (Nat.min ((i + 1) * by_) ny - i * by_) * (Nat.min ((j + 1) * bx) nx - j * bx).
Proof.
  unfold block_coords, block_rows, block_cols.
  now rewrite flat_map_pair_length, !seq_length.
Qed.

(* a padded (edge) cell has fewer real pixels than the full box, never more *)
Lemma cell_length_le i j :
  i < nmy ny by_ -> j < nmx nx bx ->
  length (cell_coords ny nx by_ bx i j) <= by_ * bx.
Proof.
  intros Hi Hj. rewrite (Permutation_length (cell_is_block i j Hi Hj)), block_length.
  apply Nat.mul_le_mono; lia.
Qed.
End GeoProofs.

(* ================================================================== *)
(* Part 2: statistics bookkeeping                                       *)
(* ================================================================== *)
Lemma Qlt_bool_iff a b : Qlt_bool a b = true <-> (a < b)%Q.
Proof.
  unfold Qlt_bool. rewrite negb_true_iff. split.
  - intros H. apply Qnot_le_lt. intros Hle. apply Qle_bool_iff in Hle. congruence.
  - intros H. destruct (Qle_bool b a) eqn:E; [|reflexivity].
    apply Qle_bool_iff in E. exfalso. revert E. now apply Qlt_not_le.
Qed.

Lemma goodvals_app l1 l2 : goodvals (l1 ++ l2) = goodvals l1 ++ goodvals l2.
Proof. unfold goodvals. now rewrite flat_map_app. Qed.

Lemma goodvals_map f l :
  goodvals (map (option_map f) l) = map f (goodvals l).
Proof.
  unfold goodvals. induction l as [|[v|] l IH]; cbn; [reflexivity| |exact IH]. now rewrite IH.
Qed.

Lemma goodvals_length_le l : length (goodvals l) <= length l.
Proof. unfold goodvals. induction l as [|[v|] l IH]; cbn; lia. Qed.

Lemma forallb_map {A B} (g : A -> B) (f : B -> bool) l :
  forallb f (map g l) = forallb (fun a => f (g a)) l.
Proof. induction l as [|a l IH]; cbn; [reflexivity|now rewrite IH]. Qed.

Lemma forallb_ext' {A} (f g : A -> bool) l : (forall a, f a = g a) -> forallb f l = forallb g l.
Proof. intros H. induction l as [|a l IH]; cbn; [reflexivity|now rewrite H, IH]. Qed.

Section StatProofs.
Variables (ny nx by_ bx : nat).
Hypothesis Hby : 0 < by_.
Hypothesis Hbx : 0 < bx.
Variable data : img (option Z).
Variables mask cov : img bool.
Variable p : Q.
Variables est rms : list Z -> Q.
Variable clip : list Z -> list Z.

Notation H_ := (nmy ny by_).
Notation W_ := (nmx nx bx).
Notation cell := (cell_coords ny nx by_ bx).
Notation bvals := (box_vals data mask cov clip).
Notation bstat := (box_stat by_ bx data mask cov p est rms clip).

(* the exclusion rule of the (repaired) code, in the documented form:
   excluded iff the box has no good pixel, or fewer good pixels than
   (1 - p/100) * box_npixels  —  the FULL box size by*bx whatever the cell *)
Lemma excluded_iff n :
  excluded by_ bx p n = true <->
  n = 0 \/ (inject_Z (Z.of_nat n) < (1 - p / 100) * inject_Z (Z.of_nat (by_ * bx)))%Q.
Proof.
  unfold excluded, good_thr, box_npixels. rewrite orb_true_iff, Qlt_bool_iff, Nat.eqb_eq. tauto.
Qed.

(* the same rule as a statement about the masked fraction: more than p percent of the
   full box is masked (or everything) *)
Lemma excluded_iff_masked_fraction n :
  excluded by_ bx p n = true <->
  n = 0 \/ (p / 100 * inject_Z (Z.of_nat (by_ * bx)) <
            inject_Z (Z.of_nat (by_ * bx)) - inject_Z (Z.of_nat n))%Q.
Proof.
  rewrite excluded_iff.
  set (N := inject_Z (Z.of_nat (by_ * bx))). set (g := inject_Z (Z.of_nat n)).
  assert (E : ((1 - p / 100) * N == N - p / 100 * N)%Q) by field.
  rewrite E. split; (intros [H|H]; [now left|right]); lra.
Qed.

Lemma kept_nonempty n : excluded by_ bx p n = false -> 0 < n.
Proof.
  unfold excluded. rewrite orb_false_iff. intros [_ H]. apply Nat.eqb_neq in H. lia.
Qed.

Lemma box_stat_excluded coords :
  excluded by_ bx p (length (bvals coords)) = true ->
  bstat coords = (None, None, length (bvals coords)).
Proof. intros H. unfold box_stat. now rewrite H. Qed.

Lemma box_stat_kept coords :
  excluded by_ bx p (length (bvals coords)) = false ->
  bstat coords = (Some (est (bvals coords)), Some (rms (bvals coords)), length (bvals coords)).
Proof. intros H. unfold box_stat. now rewrite H. Qed.

Lemma bkg_stats_mk2 :
  bkg_stats ny nx by_ bx data mask cov p est rms clip =
  mk2 H_ W_ (fun i j => fst (fst (bstat (cell i j)))).
Proof. unfold bkg_stats, stat_mesh. now rewrite map_map_mk2. Qed.
Lemma rms_stats_mk2 :
  rms_stats ny nx by_ bx data mask cov p est rms clip =
  mk2 H_ W_ (fun i j => snd (fst (bstat (cell i j)))).
Proof. unfold rms_stats, stat_mesh. now rewrite map_map_mk2. Qed.
Lemma ngood_mesh_mk2 :
  ngood_mesh ny nx by_ bx data mask cov p est rms clip =
  mk2 H_ W_ (fun i j => snd (bstat (cell i j))).
Proof. unfold ngood_mesh, stat_mesh. now rewrite map_map_mk2. Qed.
Lemma nan_mask_mk2 :
  nan_mask ny nx by_ bx data mask cov p est rms clip =
  mk2 H_ W_ (fun i j => excluded by_ bx p (length (bvals (cell i j)))).
Proof.
  unfold nan_mask. rewrite bkg_stats_mk2, map_map_mk2. apply mk2_ext. intros i j _ _.
  unfold box_stat. now destruct (excluded by_ bx p (length (bvals (cell i j)))).
Qed.
Lemma all_excluded_nan :
  all_excluded ny nx by_ bx data mask cov p est rms clip =
  forallb (forallb (fun b : bool => b)) (nan_mask ny nx by_ bx data mask cov p est rms clip).
Proof.
  unfold all_excluded, nan_mask. rewrite forallb_map. apply forallb_ext'. intros r.
  now rewrite forallb_map.
Qed.

(* exclusion_rule, cell by cell *)
Lemma mesh_cell_rule i j :
  i < H_ -> j < W_ ->
  let vals := bvals (cell i j) in
  let n := length vals in
  get2 0 (ngood_mesh ny nx by_ bx data mask cov p est rms clip) i j = n /\
  (get2 None (bkg_stats ny nx by_ bx data mask cov p est rms clip) i j = None <->
     n = 0 \/ (inject_Z (Z.of_nat n) < (1 - p / 100) * inject_Z (Z.of_nat (by_ * bx)))%Q) /\
  (get2 None (rms_stats ny nx by_ bx data mask cov p est rms clip) i j = None <->
     get2 None (bkg_stats ny nx by_ bx data mask cov p est rms clip) i j = None) /\
  (get2 false (nan_mask ny nx by_ bx data mask cov p est rms clip) i j = true <->
     get2 None (bkg_stats ny nx by_ bx data mask cov p est rms clip) i j = None) /\
  (get2 None (bkg_stats ny nx by_ bx data mask cov p est rms clip) i j <> None ->
     0 < n /\
     get2 None (bkg_stats ny nx by_ bx data mask cov p est rms clip) i j = Some (est vals) /\
     get2 None (rms_stats ny nx by_ bx data mask cov p est rms clip) i j = Some (rms vals)).
Proof.
  intros Hi Hj vals n.
  rewrite ngood_mesh_mk2, bkg_stats_mk2, rms_stats_mk2, nan_mask_mk2, !mk2_get by assumption.
  fold vals. fold n. rewrite <- excluded_iff.
  unfold box_stat. fold vals. fold n.
  destruct (excluded by_ bx p n) eqn:E; cbn.
  - repeat split; auto; try congruence.
  - repeat split; auto; try congruence. now apply kept_nonempty.
Qed.

(* the values a cell's statistics see are the unmasked finite pixels of its coordinate
   list, in the order of that list, then clipped *)
Lemma pix_some y x v :
  pix data mask cov y x = Some v <->
  get2 false mask y x = false /\ get2 false cov y x = false /\ get2 None data y x = Some v.
Proof.
  unfold pix, masked. destruct (get2 false mask y x), (get2 false cov y x); cbn;
    intuition congruence.
Qed.
End StatProofs.

(* mask_blind at the level of the statistics: two images that agree on every pixel that is
   neither masked nor coverage-masked give the same mesh statistics *)
Section MaskBlind.
Variables (ny nx by_ bx : nat).
Hypothesis Hby : 0 < by_.
Hypothesis Hbx : 0 < bx.
Variables data data' : img (option Z).
Variables mask cov : img bool.
Variable p : Q.
Variables est rms : list Z -> Q.
Variable clip : list Z -> list Z.
Hypothesis Hagree : forall y x, y < ny -> x < nx ->
  get2 false mask y x = false -> get2 false cov y x = false ->
  get2 None data y x = get2 None data' y x.

Lemma pix_agree y x : y < ny -> x < nx -> pix data mask cov y x = pix data' mask cov y x.
Proof.
  intros Hy Hx. unfold pix, masked.
  destruct (get2 false mask y x) eqn:E1, (get2 false cov y x) eqn:E2; cbn; auto.
Qed.

Lemma stat_mesh_blind :
  stat_mesh ny nx by_ bx data mask cov p est rms clip =
  stat_mesh ny nx by_ bx data' mask cov p est rms clip.
Proof.
  unfold stat_mesh. apply mk2_ext. intros i j Hi Hj.
  unfold box_stat, box_vals.
  replace (map (fun c => pix data' mask cov (fst c) (snd c)) (cell_coords ny nx by_ bx i j))
    with (map (fun c => pix data mask cov (fst c) (snd c)) (cell_coords ny nx by_ bx i j)).
  - reflexivity.
  - apply map_ext_in. intros c Hc.
    destruct (cell_coords_in_image ny nx by_ bx Hby Hbx i j c Hi Hj Hc). now apply pix_agree.
Qed.
End MaskBlind.

(* ================================================================== *)
(* Part 3: rational min / max / clip                                    *)
(* ================================================================== *)
Open Scope Q_scope.

Lemma Qle_bool_false a b : Qle_bool a b = false -> b < a.
Proof.
  intros H. apply Qnot_le_lt. intros Hle. apply Qle_bool_iff in Hle. congruence.
Qed.

Lemma qmin2_cases a b : (qmin2 a b = a /\ a <= b) \/ (qmin2 a b = b /\ b <= a).
Proof.
  unfold qmin2. destruct (Qle_bool a b) eqn:E.
  - left. split; [reflexivity|now apply Qle_bool_iff].
  - right. split; [reflexivity|]. apply Qlt_le_weak. now apply Qle_bool_false.
Qed.
Lemma qmax2_cases a b : (qmax2 a b = b /\ a <= b) \/ (qmax2 a b = a /\ b <= a).
Proof.
  unfold qmax2. destruct (Qle_bool a b) eqn:E.
  - left. split; [reflexivity|now apply Qle_bool_iff].
  - right. split; [reflexivity|]. apply Qlt_le_weak. now apply Qle_bool_false.
Qed.

Lemma fold_qmin2_spec r : forall a,
  In (fold_left qmin2 r a) (a :: r) /\ forall x, In x (a :: r) -> fold_left qmin2 r a <= x.
Proof.
  induction r as [|b r IH]; intros a; cbn [fold_left].
  - split; [now left|]. intros x [<-|[]]. apply Qle_refl.
  - destruct (IH (qmin2 a b)) as [Hin Hle]. split.
    + destruct Hin as [E|Hin]; [|right; now right].
      rewrite <- E. destruct (qmin2_cases a b) as [[-> _]|[-> _]]; [now left|right; now left].
    + intros x Hx.
      assert (Hm : fold_left qmin2 r (qmin2 a b) <= qmin2 a b) by (apply Hle; now left).
      destruct Hx as [<-|[<-|Hx]].
      * eapply Qle_trans; [exact Hm|]. destruct (qmin2_cases a b) as [[-> H]|[-> H]];
          [apply Qle_refl|exact H].
      * eapply Qle_trans; [exact Hm|]. destruct (qmin2_cases a b) as [[-> H]|[-> H]];
          [exact H|apply Qle_refl].
      * apply Hle. now right.
Qed.
Lemma fold_qmax2_spec r : forall a,
  In (fold_left qmax2 r a) (a :: r) /\ forall x, In x (a :: r) -> x <= fold_left qmax2 r a.
Proof.
  induction r as [|b r IH]; intros a; cbn [fold_left].
  - split; [now left|]. intros x [<-|[]]. apply Qle_refl.
  - destruct (IH (qmax2 a b)) as [Hin Hle]. split.
    + destruct Hin as [E|Hin]; [|right; now right].
      rewrite <- E. destruct (qmax2_cases a b) as [[-> _]|[-> _]]; [right; now left|now left].
    + intros x Hx.
      assert (Hm : qmax2 a b <= fold_left qmax2 r (qmax2 a b)) by (apply Hle; now left).
      destruct Hx as [<-|[<-|Hx]].
      * eapply Qle_trans; [|exact Hm]. destruct (qmax2_cases a b) as [[-> H]|[-> H]];
          [exact H|apply Qle_refl].
      * eapply Qle_trans; [|exact Hm]. destruct (qmax2_cases a b) as [[-> H]|[-> H]];
          [apply Qle_refl|exact H].
      * apply Hle. now right.
Qed.

Lemma qminl_in l : l <> [] -> In (qminl l) l.
Proof. destruct l as [|a r]; [congruence|]. intros _. apply fold_qmin2_spec. Qed.
Lemma qmaxl_in l : l <> [] -> In (qmaxl l) l.
Proof. destruct l as [|a r]; [congruence|]. intros _. apply fold_qmax2_spec. Qed.
Lemma qminl_le l x : In x l -> qminl l <= x.
Proof. destruct l as [|a r]; [intros []|]. apply fold_qmin2_spec. Qed.
Lemma qmaxl_ge l x : In x l -> x <= qmaxl l.
Proof. destruct l as [|a r]; [intros []|]. apply fold_qmax2_spec. Qed.
Lemma qminl_le_qmaxl l : qminl l <= qmaxl l.
Proof.
  destruct l as [|a r]; [apply Qle_refl|].
  eapply Qle_trans; [apply qminl_le|apply qmaxl_ge]; now left.
Qed.

(* np.clip(v, lo, hi) for lo <= hi *)
Lemma clipq_range lo hi v : lo <= hi -> lo <= clipq lo hi v /\ clipq lo hi v <= hi.
Proof.
  intros H. unfold clipq. destruct (Qle_bool v lo) eqn:E1; [split; [apply Qle_refl|exact H]|].
  destruct (Qle_bool hi v) eqn:E2; [split; [exact H|apply Qle_refl]|].
  apply Qle_bool_false in E1, E2. split; now apply Qlt_le_weak.
Qed.
Lemma clipq_inside lo hi v : lo <= v -> v <= hi -> clipq lo hi v == v.
Proof.
  intros H1 H2. unfold clipq. destruct (Qle_bool v lo) eqn:E1.
  - apply Qle_bool_iff in E1. now apply Qle_antisym.
  - destruct (Qle_bool hi v) eqn:E2; [|reflexivity].
    apply Qle_bool_iff in E2. now apply Qle_antisym.
Qed.

(* all elements == c *)
Definition allq (c : Q) (l : list Q) : Prop := forall v, In v l -> v == c.
Lemma qminl_const c l : l <> [] -> allq c l -> qminl l == c.
Proof. intros Hn H. apply H. now apply qminl_in. Qed.
Lemma qmaxl_const c l : l <> [] -> allq c l -> qmaxl l == c.
Proof. intros Hn H. apply H. now apply qmaxl_in. Qed.

Lemma somes_in {A} (l : list (option A)) v : In v (somes l) <-> In (Some v) l.
Proof.
  unfold somes. rewrite in_flat_map. split.
  - intros ([w|] & Hin & H); cbn in H; [|destruct H]. destruct H as [->|[]]. exact Hin.
  - intros H. exists (Some v). split; [exact H|now left].
Qed.

(* ================================================================== *)
(* Part 4a: shapes and stage lemmas (IDW fill, median filter, image)    *)
(* ================================================================== *)
Definition shape {A} (h w : nat) (m : img A) : Prop :=
  length m = h /\ forall r, In r m -> length r = w.

Lemma shape_mk2 {A} h w (f : nat -> nat -> A) : shape h w (mk2 h w f).
Proof. split; [apply mk2_length|apply mk2_row_length]. Qed.
Lemma shape_width {A} h w (m : img A) : shape h w m -> (0 < h)%nat -> width m = w.
Proof.
  intros [Hl Hr] Hh. unfold width. destruct m as [|r m]; [cbn in Hl; lia|]. apply Hr. now left.
Qed.

Lemma forallb_false_ex {A} (f : A -> bool) l :
  forallb f l = false -> exists a, In a l /\ f a = false.
Proof.
  induction l as [|a l IH]; cbn; [discriminate|]. destruct (f a) eqn:E.
  - intros H. destruct (IH H) as (b & Hb & Hf). exists b. split; [now right|exact Hf].
  - intros _. exists a. split; [now left|exact E].
Qed.

Lemma mk2_forallb_false {A} (g : A -> bool) h w f :
  forallb (forallb g) (mk2 h w f) = false ->
  exists i j, (i < h)%nat /\ (j < w)%nat /\ g (f i j) = false.
Proof.
  intros H. apply forallb_false_ex in H as (r & Hr & H).
  apply forallb_false_ex in H as (v & Hv & H).
  unfold mk2 in Hr. apply in_map_iff in Hr as (i & <- & Hi). apply in_map_iff in Hv as (j & <- & Hj).
  apply in_seq in Hi, Hj. exists i, j. repeat split; try lia. exact H.
Qed.

Section StageProofs.
Variable idw : img (option Q) -> nat -> nat -> Q.
Variable median : list Q -> Q.
Variables (fy fx : nat).
Variable fthr : option Q.
Hypothesis Hfy : (0 < fy)%nat.
Hypothesis Hfx : (0 < fx)%nat.

Lemma interp_grid_mk2 h w f :
  (0 < h)%nat ->
  interp_grid idw (mk2 h w f) =
  mk2 h w (fun i j => match f i j with
                      | Some v => v
                      | None => clipq (qminl (somes (concat (mk2 h w f))))
                                      (qmaxl (somes (concat (mk2 h w f)))) (idw (mk2 h w f) i j)
                      end).
Proof.
  intros Hh. unfold interp_grid. rewrite mk2_length, mk2_width by exact Hh.
  apply mk2_ext. intros i j Hi Hj. now rewrite mk2_get.
Qed.

Lemma interp_grid_shape h w g : shape h w g -> (0 < h)%nat -> shape h w (interp_grid idw g).
Proof.
  intros Hs Hh. unfold interp_grid. rewrite (shape_width h w g Hs Hh).
  destruct Hs as [-> _]. apply shape_mk2.
Qed.

(* every value of the filled grid lies within the range of the good (non-NaN) cells *)
Lemma interp_grid_range h w f i j :
  (0 < h)%nat -> (i < h)%nat -> (j < w)%nat ->
  let good := somes (concat (mk2 h w f)) in
  qminl good <= get2 0 (interp_grid idw (mk2 h w f)) i j <= qmaxl good.
Proof.
  intros Hh Hi Hj good. rewrite interp_grid_mk2, mk2_get by assumption. fold good.
  destruct (f i j) as [v|] eqn:E.
  - assert (In v good) by (apply somes_in; rewrite <- E; now apply mk2_in_conv).
    split; [now apply qminl_le|now apply qmaxl_ge].
  - apply clipq_range, qminl_le_qmaxl.
Qed.

(* kept cells are not touched by the fill *)
Lemma interp_grid_kept h w f i j v :
  (0 < h)%nat -> (i < h)%nat -> (j < w)%nat -> f i j = Some v ->
  get2 0 (interp_grid idw (mk2 h w f)) i j = v.
Proof. intros Hh Hi Hj E. rewrite interp_grid_mk2, mk2_get by assumption. now rewrite E. Qed.

Lemma window_in H W (m : img Q) i j v :
  In v (window fy fx H W m i j) -> exists y x, (y < H)%nat /\ (x < W)%nat /\ v = get2 0 m y x.
Proof.
  unfold window. intros Hin. apply in_flat_map in Hin as (y & Hy & Hin).
  apply in_map_iff in Hin as (x & <- & Hx). apply in_seq in Hy, Hx.
  exists y, x. repeat split; lia.
Qed.

Lemma window_center H W (m : img Q) i j :
  (i < H)%nat -> (j < W)%nat -> In (get2 0 m i j) (window fy fx H W m i j).
Proof.
  intros Hi Hj. unfold window. apply in_flat_map. exists i.
  assert (fy / 2 < fy)%nat by (apply Nat.div_lt; lia).
  assert (fx / 2 < fx)%nat by (apply Nat.div_lt; lia).
  split; [apply in_seq; lia|]. apply in_map_iff. exists j. split; [reflexivity|apply in_seq; lia].
Qed.

Lemma filter_grid_shape h w minb sel m :
  shape h w m -> (0 < h)%nat -> shape h w (filter_grid median fy fx fthr minb sel m).
Proof.
  intros Hs Hh. unfold filter_grid, full_filter, selective_filter.
  rewrite (shape_width h w m Hs Hh). destruct Hs as [Hl Hr]. rewrite Hl.
  destruct ((fy =? 1)%nat && (fx =? 1)%nat); [now split|].
  destruct fthr as [t|]; [destruct (Qlt_bool t minb)|]; apply shape_mk2.
Qed.

(* a pointwise invariant of a grid (all values satisfy P) survives the filter if the
   median of a non-empty window of P-values is a P-value *)
Lemma filter_grid_pointwise (P : Q -> Prop) h w minb sel f :
  (0 < h)%nat ->
  (forall l, l <> [] -> (forall v, In v l -> P v) -> P (median l)) ->
  (forall i j, (i < h)%nat -> (j < w)%nat -> P (f i j)) ->
  forall i j, (i < h)%nat -> (j < w)%nat ->
    P (get2 0 (filter_grid median fy fx fthr minb sel (mk2 h w f)) i j).
Proof.
  intros Hh Hmed HP i j Hi Hj.
  assert (Hwin : P (median (window fy fx h w (mk2 h w f) i j))).
  { apply Hmed.
    - intros E. pose proof (window_center h w (mk2 h w f) i j Hi Hj) as Hc. rewrite E in Hc.
      destruct Hc.
    - intros v Hv. apply window_in in Hv as (y & x & Hy & Hx & ->). rewrite mk2_get by assumption.
      now apply HP. }
  unfold filter_grid, full_filter, selective_filter.
  rewrite mk2_length, mk2_width by exact Hh.
  destruct ((fy =? 1)%nat && (fx =? 1)%nat).
  { rewrite mk2_get by assumption. now apply HP. }
  destruct fthr as [t|]; [destruct (Qlt_bool t minb)|]; rewrite mk2_get by assumption; auto.
  destruct (Qlt_bool t (get2 0 sel i j)); auto. rewrite mk2_get by assumption. now apply HP.
Qed.
End StageProofs.

Section ImageProofs.
Variables (ny nx : nat).
Variable cov : img bool.
Variable fill : Q.
Variable do_clip : bool.
Variable interp : img Q -> nat -> nat -> Q.

Lemma calc_image_shape m : shape ny nx (calc_image ny nx cov fill do_clip interp m).
Proof. apply shape_mk2. Qed.

(* coverage_is_fill_exactly *)
Lemma calc_image_cov m y x d :
  (y < ny)%nat -> (x < nx)%nat -> get2 false cov y x = true ->
  get2 d (calc_image ny nx cov fill do_clip interp m) y x = fill.
Proof. intros Hy Hx Hc. unfold calc_image. rewrite mk2_get by assumption. now rewrite Hc. Qed.

(* with clip=True every pixel outside the coverage mask lies within the range of the mesh *)
Lemma calc_image_range m y x d :
  do_clip = true -> (y < ny)%nat -> (x < nx)%nat -> get2 false cov y x = false ->
  qminl (concat m) <= get2 d (calc_image ny nx cov fill do_clip interp m) y x <= qmaxl (concat m).
Proof.
  intros -> Hy Hx Hc. unfold calc_image. rewrite mk2_get by assumption. rewrite Hc.
  destruct (Qeq_bool (qmaxl (concat m)) (qminl (concat m))).
  - split; [apply Qle_refl|apply qminl_le_qmaxl].
  - apply clipq_range, qminl_le_qmaxl.
Qed.

(* a constant mesh gives a constant map (the ptp == 0 branch), whatever the interpolator *)
Lemma calc_image_const c m y x d :
  concat m <> [] -> allq c (concat m) ->
  (y < ny)%nat -> (x < nx)%nat -> get2 false cov y x = false ->
  get2 d (calc_image ny nx cov fill do_clip interp m) y x == c.
Proof.
  intros Hn Hall Hy Hx Hc. unfold calc_image. rewrite mk2_get by assumption. rewrite Hc.
  pose proof (qminl_const c _ Hn Hall) as Hlo. pose proof (qmaxl_const c _ Hn Hall) as Hhi.
  assert (E : Qeq_bool (qmaxl (concat m)) (qminl (concat m)) = true).
  { apply Qeq_bool_iff. now rewrite Hlo, Hhi. }
  rewrite E. exact Hlo.
Qed.
End ImageProofs.

(* ================================================================== *)
(* Part 4b: the pipeline                                                *)
(* ================================================================== *)
Lemma clipbox_pos b n : (0 < b)%nat -> (0 < n)%nat -> (0 < clipbox b n <= n)%nat.
Proof. intros Hb Hn. unfold clipbox. destruct (n <? b)%nat eqn:E; [lia|]. apply Nat.ltb_ge in E. lia. Qed.

Lemma nmy_pos ny b : (0 < b)%nat -> (0 < ny)%nat -> (0 < nmy ny b)%nat.
Proof. apply nmesh_pos. Qed.
Lemma nmx_pos nx b : (0 < b)%nat -> (0 < nx)%nat -> (0 < nmx nx b)%nat.
Proof. apply nmesh_pos. Qed.

Lemma concat_mk2_nonempty {A} h w (f : nat -> nat -> A) :
  (0 < h)%nat -> (0 < w)%nat -> concat (mk2 h w f) <> [].
Proof.
  intros Hh Hw E. assert (Hin : In (f 0%nat 0%nat) (concat (mk2 h w f))) by now apply mk2_in_conv.
  rewrite E in Hin. destruct Hin.
Qed.

Section PipeProofs.
Variables (ny nx by0 bx0 : nat).
Hypothesis Hny : (0 < ny)%nat.
Hypothesis Hnx : (0 < nx)%nat.
Hypothesis Hby0 : (0 < by0)%nat.
Hypothesis Hbx0 : (0 < bx0)%nat.
Variable data : img (option Z).
Variables mask cov : img bool.
Variable p : Q.
Variables est rms : list Z -> Q.
Variable clip : list Z -> list Z.
Variable idw : img (option Q) -> nat -> nat -> Q.
Variable median : list Q -> Q.
Variables (fy fx : nat) (fthr : option Q).
Hypothesis Hfy : (0 < fy)%nat.
Hypothesis Hfx : (0 < fx)%nat.
Variables (fill : Q) (do_clip : bool).
Variable interp : img Q -> nat -> nat -> Q.

Notation by_ := (clipbox by0 ny).
Notation bx := (clipbox bx0 nx).
Notation H_ := (nmy ny by_).
Notation W_ := (nmx nx bx).
Notation cell := (cell_coords ny nx by_ bx).
Notation bvals := (box_vals data mask cov clip).
Notation bs := (bkg_stats ny nx by_ bx data mask cov p est rms clip).
Notation rs := (rms_stats ny nx by_ bx data mask cov p est rms clip).
Notation fb := (fun i j => fst (fst (box_stat by_ bx data mask cov p est rms clip (cell i j)))).
Notation fr := (fun i j => snd (fst (box_stat by_ bx data mask cov p est rms clip (cell i j)))).
Notation b2d := (background2d ny nx by0 bx0 data mask cov p est rms clip idw median fy fx fthr
                              fill do_clip interp).

Lemma by_pos : (0 < by_)%nat. Proof. now apply clipbox_pos. Qed.
Lemma bx_pos : (0 < bx)%nat. Proof. now apply clipbox_pos. Qed.
Lemma H_pos : (0 < H_)%nat. Proof. apply nmy_pos; [apply by_pos|exact Hny]. Qed.
Lemma W_pos : (0 < W_)%nat. Proof. apply nmx_pos; [apply bx_pos|exact Hnx]. Qed.

Lemma b2d_maps np nm bm rm b r :
  b2d = Maps np nm bm rm b r ->
  all_excluded ny nx by_ bx data mask cov p est rms clip = false /\
  np = ngood_mesh ny nx by_ bx data mask cov p est rms clip /\
  nm = nan_mask ny nx by_ bx data mask cov p est rms clip /\
  bm = filter_grid median fy fx fthr (qminl (somes (concat bs))) (interp_grid idw bs) (interp_grid idw bs) /\
  rm = filter_grid median fy fx fthr (qminl (somes (concat bs))) (interp_grid idw bs) (interp_grid idw rs) /\
  b = calc_image ny nx cov fill do_clip interp bm /\
  r = calc_image ny nx cov fill do_clip interp rm.
Proof.
  unfold background2d.
  destruct (all_excluded ny nx by_ bx data mask cov p est rms clip); [discriminate|].
  intros E. inversion E; subst. repeat split; reflexivity.
Qed.

Lemma b2d_allexcluded :
  b2d = AllExcluded <-> all_excluded ny nx by_ bx data mask cov p est rms clip = true.
Proof.
  unfold background2d.
  destruct (all_excluded ny nx by_ bx data mask cov p est rms clip); split; congruence.
Qed.

(* the error is raised iff every box is excluded by the rule *)
Lemma all_excluded_iff :
  all_excluded ny nx by_ bx data mask cov p est rms clip = true <->
  forall i j, (i < H_)%nat -> (j < W_)%nat ->
    excluded by_ bx p (length (bvals (cell i j))) = true.
Proof.
  rewrite all_excluded_nan, nan_mask_mk2. split.
  - intros H i j Hi Hj. rewrite forallb_forall in H.
    assert (Hr : In (nth i (mk2 H_ W_ (fun i j => excluded by_ bx p (length (bvals (cell i j))))) [])
                    (mk2 H_ W_ (fun i j => excluded by_ bx p (length (bvals (cell i j)))))).
    { apply nth_In. now rewrite mk2_length. }
    specialize (H _ Hr). rewrite mk2_row in H by exact Hi. rewrite forallb_forall in H.
    apply (H (excluded by_ bx p (length (bvals (cell i j))))).
    apply in_map_iff. exists j. split; [reflexivity|apply in_seq; lia].
  - intros H. apply forallb_forall. intros r Hr. apply forallb_forall. intros v Hv.
    unfold mk2 in Hr. apply in_map_iff in Hr as (i & <- & Hi). apply in_map_iff in Hv as (j & <- & Hj).
    apply in_seq in Hi, Hj. apply H; lia.
Qed.

Lemma bs_shape : shape H_ W_ bs.
Proof. rewrite bkg_stats_mk2. apply shape_mk2. Qed.
Lemma rs_shape : shape H_ W_ rs.
Proof. rewrite rms_stats_mk2. apply shape_mk2. Qed.

(* output_shape *)
Lemma b2d_shape np nm bm rm b r :
  b2d = Maps np nm bm rm b r ->
  shape ny nx b /\ shape ny nx r /\
  shape H_ W_ bm /\ shape H_ W_ rm /\ shape H_ W_ np /\ shape H_ W_ nm.
Proof.
  intros E. apply b2d_maps in E as (_ & -> & -> & -> & -> & -> & ->).
  pose proof H_pos as HH.
  assert (Hb : shape H_ W_ (interp_grid idw bs)) by (apply interp_grid_shape; [apply bs_shape|exact HH]).
  assert (Hr : shape H_ W_ (interp_grid idw rs)) by (apply interp_grid_shape; [apply rs_shape|exact HH]).
  split; [apply shape_mk2|]. split; [apply shape_mk2|].
  split; [now apply filter_grid_shape|]. split; [now apply filter_grid_shape|].
  split; [rewrite ngood_mesh_mk2|rewrite nan_mask_mk2]; apply shape_mk2.
Qed.

(* coverage_is_fill_exactly *)
Lemma b2d_cov_fill np nm bm rm b r y x d :
  b2d = Maps np nm bm rm b r ->
  (y < ny)%nat -> (x < nx)%nat -> get2 false cov y x = true ->
  get2 d b y x = fill /\ get2 d r y x = fill.
Proof.
  intros E Hy Hx Hc. apply b2d_maps in E as (_ & _ & _ & _ & _ & -> & ->).
  split; now apply calc_image_cov.
Qed.

(* within_mesh_range (clip=True, the default of BkgZoomInterpolator) *)
Lemma b2d_range np nm bm rm b r y x d :
  b2d = Maps np nm bm rm b r -> do_clip = true ->
  (y < ny)%nat -> (x < nx)%nat -> get2 false cov y x = false ->
  (qminl (concat bm) <= get2 d b y x <= qmaxl (concat bm)) /\
  (qminl (concat rm) <= get2 d r y x <= qmaxl (concat rm)).
Proof.
  intros E Hc Hy Hx Hcov. apply b2d_maps in E as (_ & _ & _ & _ & _ & -> & ->).
  split; now apply calc_image_range.
Qed.

(* mesh cells: with filter_size = (1,1) the mesh is the estimator of the box where the
   box is kept, and a value within the range of the kept boxes where it is excluded *)
Lemma b2d_mesh_unfiltered np nm bm rm b r i j :
  b2d = Maps np nm bm rm b r -> fy = 1%nat -> fx = 1%nat ->
  (i < H_)%nat -> (j < W_)%nat ->
  let vals := bvals (cell i j) in
  get2 0%nat np i j = length vals /\
  get2 false nm i j = excluded by_ bx p (length vals) /\
  (excluded by_ bx p (length vals) = false ->
     vals <> [] /\ get2 0 bm i j = est vals /\ get2 0 rm i j = rms vals) /\
  (qminl (somes (concat bs)) <= get2 0 bm i j <= qmaxl (somes (concat bs))) /\
  (qminl (somes (concat rs)) <= get2 0 rm i j <= qmaxl (somes (concat rs))).
Proof.
  intros E Efy Efx Hi Hj vals. apply b2d_maps in E as (_ & -> & -> & -> & -> & _ & _).
  unfold filter_grid. rewrite Efy, Efx. cbn [Nat.eqb andb].
  rewrite ngood_mesh_mk2, nan_mask_mk2, !mk2_get by assumption. fold vals.
  rewrite bkg_stats_mk2, rms_stats_mk2.
  pose proof H_pos as HH.
  split; [unfold box_stat; fold vals; now destruct (excluded by_ bx p (length vals))|].
  split; [reflexivity|].
  split; [|split; apply interp_grid_range; assumption].
  intros En. split; [|split].
  - apply kept_nonempty in En; [|apply by_pos|apply bx_pos]. intros Ev. rewrite Ev in En. cbn in En. lia.
  - apply interp_grid_kept; try assumption. unfold box_stat. fold vals. now rewrite En.
  - apply interp_grid_kept; try assumption. unfold box_stat. fold vals. now rewrite En.
Qed.
End PipeProofs.

(* mask_blind: the whole result depends on the data only through the pixels that are
   neither masked nor coverage-masked *)
Section PipeBlind.
Variables (ny nx by0 bx0 : nat).
Hypothesis Hny : (0 < ny)%nat.
Hypothesis Hnx : (0 < nx)%nat.
Hypothesis Hby0 : (0 < by0)%nat.
Hypothesis Hbx0 : (0 < bx0)%nat.
Variables data data' : img (option Z).
Variables mask cov : img bool.
Hypothesis Hagree : forall y x, (y < ny)%nat -> (x < nx)%nat ->
  get2 false mask y x = false -> get2 false cov y x = false ->
  get2 None data y x = get2 None data' y x.

Lemma b2d_mask_blind p est rms clip idw median fy fx fthr fill do_clip interp :
  background2d ny nx by0 bx0 data mask cov p est rms clip idw median fy fx fthr fill do_clip interp =
  background2d ny nx by0 bx0 data' mask cov p est rms clip idw median fy fx fthr fill do_clip interp.
Proof.
  unfold background2d, all_excluded, nan_mask, ngood_mesh, bkg_stats, rms_stats.
  rewrite (stat_mesh_blind ny nx (clipbox by0 ny) (clipbox bx0 nx)
             (by_pos ny by0 Hny Hby0) (bx_pos nx bx0 Hnx Hbx0) data data' mask cov p est rms clip Hagree).
  reflexivity.
Qed.
End PipeBlind.

(* ================================================================== *)
(* Part 4c: a constant image is reproduced exactly                      *)
(* ================================================================== *)
Lemma goodvals_in l v : In v (goodvals l) <-> In (Some v) l.
Proof.
  unfold goodvals. rewrite in_flat_map. split.
  - intros ([w|] & Hin & H); cbn in H; [|destruct H]. destruct H as [->|[]]. exact Hin.
  - intros H. exists (Some v). split; [exact H|now left].
Qed.

Lemma clipq_const lo hi v c : lo == c -> hi == c -> clipq lo hi v == c.
Proof.
  intros Hlo Hhi.
  assert (Hle : lo <= hi) by (rewrite Hlo, Hhi; apply Qle_refl).
  destruct (clipq_range lo hi v Hle) as [H1 H2]. apply Qle_antisym.
  - now rewrite <- Hhi.
  - now rewrite <- Hlo.
Qed.

Lemma shape_concat_in {A} (d : A) h w m v :
  shape h w m -> In v (concat m) ->
  exists i j, (i < h)%nat /\ (j < w)%nat /\ v = get2 d m i j.
Proof.
  intros [Hl Hr] Hin. apply in_concat in Hin as (r & Hrm & Hv).
  destruct (In_nth m r [] Hrm) as (i & Hi & Ei).
  destruct (In_nth r v d Hv) as (j & Hj & Ej).
  exists i, j. rewrite <- Hl, <- (Hr r Hrm). repeat split; try assumption.
  unfold get2. now rewrite Ei, Ej.
Qed.

Lemma shape_concat_nonempty {A} h w (m : img A) :
  shape h w m -> (0 < h)%nat -> (0 < w)%nat -> concat m <> [].
Proof.
  intros [Hl Hr] Hh Hw. destruct m as [|r m]; [cbn in Hl; lia|].
  assert (length r = w) by (apply Hr; now left). destruct r as [|a r]; [cbn in *; lia|].
  cbn. discriminate.
Qed.

Section PipeConst.
Variables (ny nx by0 bx0 : nat).
Hypothesis Hny : (0 < ny)%nat.
Hypothesis Hnx : (0 < nx)%nat.
Hypothesis Hby0 : (0 < by0)%nat.
Hypothesis Hbx0 : (0 < bx0)%nat.
Variable data : img (option Z).
Variables mask cov : img bool.
Variable p : Q.
Variables est rms : list Z -> Q.
Variable clip : list Z -> list Z.
Variable idw : img (option Q) -> nat -> nat -> Q.
Variable median : list Q -> Q.
Variables (fy fx : nat) (fthr : option Q).
Hypothesis Hfy : (0 < fy)%nat.
Hypothesis Hfx : (0 < fx)%nat.
Variables (fill : Q) (do_clip : bool).
Variable interp : img Q -> nat -> nat -> Q.
Variable c : Z.
(* every pixel that is not masked / coverage-masked / non-finite has the value c *)
Hypothesis Hconst : forall y x, (y < ny)%nat -> (x < nx)%nat ->
  pix data mask cov y x = None \/ pix data mask cov y x = Some c.
(* sigma clipping only removes values *)
Hypothesis Hclip : forall l v, In v (clip l) -> In v l.
(* the estimators return the constant / zero on a non-empty constant sample *)
Hypothesis Hest : forall l, l <> [] -> (forall v, In v l -> v = c) -> est l == inject_Z c.
Hypothesis Hrms : forall l, l <> [] -> (forall v, In v l -> v = c) -> rms l == 0.
(* the window median of a non-empty constant sample is the constant *)
Hypothesis Hmed : forall q l, l <> [] -> allq q l -> median l == q.

Notation by_ := (clipbox by0 ny).
Notation bx := (clipbox bx0 nx).
Notation H_ := (nmy ny by_).
Notation W_ := (nmx nx bx).
Notation cell := (cell_coords ny nx by_ bx).
Notation bvals := (box_vals data mask cov clip).
Notation bstat := (box_stat by_ bx data mask cov p est rms clip).
Notation bs := (bkg_stats ny nx by_ bx data mask cov p est rms clip).
Notation rs := (rms_stats ny nx by_ bx data mask cov p est rms clip).

Lemma vals_const i j v :
  (i < H_)%nat -> (j < W_)%nat -> In v (bvals (cell i j)) -> v = c.
Proof.
  intros Hi Hj Hin. unfold box_vals in Hin. apply Hclip, goodvals_in in Hin.
  apply in_map_iff in Hin as (yx & E & Hyx).
  destruct (cell_coords_in_image ny nx by_ bx (by_pos ny by0 Hny Hby0) (bx_pos nx bx0 Hnx Hbx0)
              i j yx Hi Hj Hyx) as [Hy Hx].
  destruct (Hconst _ _ Hy Hx) as [E'|E']; congruence.
Qed.

(* generic: a mesh of optional values that are all == q (with at least one present) is
   filled, filtered and upscaled to the constant q *)
Lemma const_chain (q : Q) (f : nat -> nat -> option Q) (sel : img Q) minb y x d :
  (forall i j v, (i < H_)%nat -> (j < W_)%nat -> f i j = Some v -> v == q) ->
  (exists i j, (i < H_)%nat /\ (j < W_)%nat /\ f i j <> None) ->
  let m := filter_grid median fy fx fthr minb sel (interp_grid idw (mk2 H_ W_ f)) in
  (forall i j, (i < H_)%nat -> (j < W_)%nat -> get2 0 m i j == q) /\
  ((y < ny)%nat -> (x < nx)%nat -> get2 false cov y x = false ->
     get2 d (calc_image ny nx cov fill do_clip interp m) y x == q).
Proof.
  intros Hq (i0 & j0 & Hi0 & Hj0 & Hsome) m.
  pose proof (H_pos ny by0 Hny Hby0) as HH. pose proof (W_pos nx bx0 Hnx Hbx0) as HW.
  set (good := somes (concat (mk2 H_ W_ f))).
  assert (Hgood : allq q good).
  { intros v Hv. apply somes_in, mk2_in in Hv as (i & j & Hi & Hj & E). symmetry in E. eauto. }
  assert (Hne : good <> []).
  { destruct (f i0 j0) as [v|] eqn:E; [|congruence].
    assert (Hin : In v good) by (apply somes_in; rewrite <- E; now apply mk2_in_conv).
    intros E'. rewrite E' in Hin. destruct Hin. }
  assert (Hm : forall i j, (i < H_)%nat -> (j < W_)%nat -> get2 0 m i j == q).
  { unfold m. rewrite interp_grid_mk2 by exact HH.
    apply (filter_grid_pointwise median fy fx fthr Hfy Hfx (fun v => v == q)); try assumption.
    - intros l Hl Hall. now apply Hmed.
    - intros i j Hi Hj. fold good. destruct (f i j) as [v|] eqn:E; [eauto|].
      apply clipq_const; [now apply qminl_const|now apply qmaxl_const]. }
  split; [exact Hm|]. intros Hy Hx Hc.
  assert (Hsh : shape H_ W_ m).
  { unfold m. apply filter_grid_shape; [|exact HH]. apply interp_grid_shape; [apply shape_mk2|exact HH]. }
  apply calc_image_const; try assumption.
  - now apply (shape_concat_nonempty H_ W_).
  - intros v Hv. destruct (shape_concat_in 0 H_ W_ m v Hsh Hv) as (i & j & Hi & Hj & ->). now apply Hm.
Qed.

(* constant_image_exact *)
Lemma b2d_constant np nm bm rm b r :
  background2d ny nx by0 bx0 data mask cov p est rms clip idw median fy fx fthr fill do_clip interp
    = Maps np nm bm rm b r ->
  (forall i j, (i < H_)%nat -> (j < W_)%nat ->
     get2 0 bm i j == inject_Z c /\ get2 0 rm i j == 0) /\
  (forall y x d, (y < ny)%nat -> (x < nx)%nat ->
     if get2 false cov y x then get2 d b y x = fill /\ get2 d r y x = fill
     else get2 d b y x == inject_Z c /\ get2 d r y x == 0).
Proof.
  intros E. pose proof E as E0.
  apply (b2d_maps ny nx by0 bx0) in E as (Hall & _ & _ & -> & -> & -> & ->).
  pose proof (by_pos ny by0 Hny Hby0) as Hby. pose proof (bx_pos nx bx0 Hnx Hbx0) as Hbx.
  (* at least one kept cell *)
  unfold all_excluded in Hall. rewrite bkg_stats_mk2 in Hall.
  apply mk2_forallb_false in Hall as (i0 & j0 & Hi0 & Hj0 & Hk).
  assert (Hkept : forall i j, (i < H_)%nat -> (j < W_)%nat ->
            fst (fst (bstat (cell i j))) <> None \/ snd (fst (bstat (cell i j))) <> None ->
            bvals (cell i j) <> [] /\
            fst (fst (bstat (cell i j))) = Some (est (bvals (cell i j))) /\
            snd (fst (bstat (cell i j))) = Some (rms (bvals (cell i j)))).
  { intros i j Hi Hj Hs. unfold box_stat in *.
    destruct (excluded by_ bx p (length (bvals (cell i j)))) eqn:Ex; cbn in *; [tauto|].
    split; [|split; reflexivity]. apply kept_nonempty in Ex; try assumption.
    intros Ev. rewrite Ev in Ex. cbn in Ex. lia. }
  assert (Hk0 : fst (fst (bstat (cell i0 j0))) <> None).
  { intros Ek. rewrite Ek in Hk. discriminate. }
  destruct (Hkept i0 j0 Hi0 Hj0 (or_introl Hk0)) as (_ & _ & Hr0).
  rewrite bkg_stats_mk2, rms_stats_mk2.
  split.
  - intros i j Hi Hj. split.
    + apply (const_chain (inject_Z c) _ _ _ 0%nat 0%nat 0); try assumption.
      * intros i' j' v Hi' Hj' Ev.
        destruct (Hkept i' j' Hi' Hj') as (Hne & Eb & _); [left; congruence|].
        rewrite Eb in Ev. inversion Ev; subst. apply Hest; [exact Hne|].
        intros w Hw. now apply (vals_const i' j').
      * exists i0, j0. auto.
    + apply (const_chain 0 _ _ _ 0%nat 0%nat 0); try assumption.
      * intros i' j' v Hi' Hj' Ev.
        destruct (Hkept i' j' Hi' Hj') as (Hne & _ & Er); [right; congruence|].
        rewrite Er in Ev. inversion Ev; subst. apply Hrms; [exact Hne|].
        intros w Hw. now apply (vals_const i' j').
      * exists i0, j0. repeat split; try assumption. rewrite Hr0. discriminate.
  - intros y x d Hy Hx. destruct (get2 false cov y x) eqn:Hc.
    + split; now apply calc_image_cov.
    + split.
      * apply (const_chain (inject_Z c)); try assumption.
        -- intros i' j' v Hi' Hj' Ev.
           destruct (Hkept i' j' Hi' Hj') as (Hne & Eb & _); [left; congruence|].
           rewrite Eb in Ev. inversion Ev; subst. apply Hest; [exact Hne|].
           intros w Hw. now apply (vals_const i' j').
        -- exists i0, j0. auto.
      * apply (const_chain 0); try assumption.
        -- intros i' j' v Hi' Hj' Ev.
           destruct (Hkept i' j' Hi' Hj') as (Hne & _ & Er); [right; congruence|].
           rewrite Er in Ev. inversion Ev; subst. apply Hrms; [exact Hne|].
           intros w Hw. now apply (vals_const i' j').
        -- exists i0, j0. repeat split; try assumption. rewrite Hr0. discriminate.
Qed.
End PipeConst.

(* ================================================================== *)
(* Part 4d: the concrete estimators of the correspondence satisfy the    *)
(*          hypotheses of the constant-image theorem                     *)
(* ================================================================== *)
Lemma fold_add_acc l a : fold_left Z.add l a = (a + fold_left Z.add l 0)%Z.
Proof.
  revert a. induction l as [|x l IH]; intros a; cbn [fold_left]; [lia|].
  rewrite (IH (a + x)%Z), (IH (0 + x)%Z). lia.
Qed.
Lemma zsum_cons x l : zsum (x :: l) = (x + zsum l)%Z.
Proof. unfold zsum. cbn [fold_left]. rewrite fold_add_acc. lia. Qed.

Lemma zsum_const c l : (forall v, In v l -> v = c) -> zsum l = (c * Z.of_nat (length l))%Z.
Proof.
  induction l as [|x l IH]; intros H; [cbn; lia|].
  rewrite zsum_cons, IH by (intros v Hv; apply H; now right).
  rewrite (H x) by now left. cbn [length]. lia.
Qed.
Lemma zsum_sq_const c l :
  (forall v, In v l -> v = c) -> zsum (map (fun x => x * x)%Z l) = (c * c * Z.of_nat (length l))%Z.
Proof.
  induction l as [|x l IH]; intros H; [cbn; lia|].
  cbn [map]. rewrite zsum_cons, IH by (intros v Hv; apply H; now right).
  rewrite (H x) by now left. cbn [length]. lia.
Qed.

Lemma pos_of_nat_Z n : (n <> 0)%nat -> Z.pos (Pos.of_nat n) = Z.of_nat n.
Proof. intros H. rewrite <- positive_nat_Z, Nat2Pos.id by exact H. reflexivity. Qed.

Lemma qmean_const c l : l <> [] -> (forall v, In v l -> v = c) -> qmean l == inject_Z c.
Proof.
  intros Hn H. unfold qmean. rewrite (zsum_const c l H). unfold Qeq, inject_Z. cbn [Qnum Qden].
  rewrite pos_of_nat_Z by (destruct l; [congruence|cbn; lia]). lia.
Qed.
Lemma qvar_const c l : l <> [] -> (forall v, In v l -> v = c) -> qvar l == 0.
Proof.
  intros Hn H. unfold qvar. rewrite (zsum_const c l H), (zsum_sq_const c l H).
  unfold Qeq. cbn [Qnum Qden]. lia.
Qed.

Lemma qinsert_in a l x : In x (qinsert a l) -> x = a \/ In x l.
Proof.
  induction l as [|b l IH]; cbn [qinsert].
  - intros [<-|[]]. now left.
  - destruct (Qle_bool a b).
    + intros [<-|H]; [now left|now right].
    + intros [<-|H]; [right; now left|]. destruct (IH H); [now left|right; now right].
Qed.
Lemma qinsert_length a l : length (qinsert a l) = S (length l).
Proof.
  induction l as [|b l IH]; cbn [qinsert length]; [reflexivity|].
  destruct (Qle_bool a b); cbn [length]; now rewrite ?IH.
Qed.
Lemma qsort_cons a l : qsort (a :: l) = qinsert a (qsort l).
Proof. reflexivity. Qed.
Lemma qsort_in l x : In x (qsort l) -> In x l.
Proof.
  induction l as [|a l IH]; [auto|]. rewrite qsort_cons. intros H.
  apply qinsert_in in H as [->|H]; [now left|right; auto].
Qed.
Lemma qsort_length l : length (qsort l) = length l.
Proof. induction l as [|a l IH]; [reflexivity|]. rewrite qsort_cons, qinsert_length, IH. reflexivity. Qed.

Lemma qmedian_const q l : l <> [] -> allq q l -> qmedian l == q.
Proof.
  intros Hn H. unfold qmedian.
  assert (Hlen : (0 < length (qsort l))%nat).
  { rewrite qsort_length. destruct l; [congruence|cbn; lia]. }
  assert (Hnth : forall k, (k < length (qsort l))%nat -> nth k (qsort l) 0 == q).
  { intros k Hk. apply H, qsort_in, nth_In, Hk. }
  assert (Hhalf : (length (qsort l) / 2 < length (qsort l))%nat) by (apply Nat.div_lt; lia).
  destruct (Nat.even (length (qsort l))).
  - rewrite (Hnth (length (qsort l) / 2 - 1)%nat), (Hnth (length (qsort l) / 2)%nat) by lia. field.
  - now apply Hnth.
Qed.
Lemma qmedianZ_const c l : l <> [] -> (forall v, In v l -> v = c) -> qmedianZ l == inject_Z c.
Proof.
  intros Hn H. unfold qmedianZ. apply qmedian_const.
  - destruct l; [congruence|discriminate].
  - intros v Hv. apply in_map_iff in Hv as (z & <- & Hz). now rewrite (H z Hz).
Qed.
Lemma est_of_const estk c l :
  l <> [] -> (forall v, In v l -> v = c) -> est_of estk l == inject_Z c.
Proof.
  intros Hn H. unfold est_of. destruct (estk =? 0)%Z; [now apply qmean_const|now apply qmedianZ_const].
Qed.

(* ================================================================== *)
(* Part 5: shift / scale equivariance, relationally                      *)
(*   arel a b u v  :=  v == a*u + b   (a > 0)                            *)
(* ================================================================== *)
Definition arel (a b u v : Q) : Prop := v == a * u + b.
Inductive orel (R : Q -> Q -> Prop) : option Q -> option Q -> Prop :=
| orel_none : orel R None None
| orel_some u v : R u v -> orel R (Some u) (Some v).
Definition irel {A B} (R : A -> B -> Prop) (m : img A) (m' : img B) : Prop :=
  Forall2 (Forall2 R) m m'.

Lemma Forall2_map_same {A B C} (R : B -> C -> Prop) (f : A -> B) (g : A -> C) l :
  (forall x, In x l -> R (f x) (g x)) -> Forall2 R (map f l) (map g l).
Proof.
  induction l as [|x l IH]; intros H; cbn; constructor.
  - apply H. now left.
  - apply IH. intros y Hy. apply H. now right.
Qed.
Lemma Forall2_flat_map_same {A B C} (R : B -> C -> Prop) (f : A -> list B) (g : A -> list C) l :
  (forall x, In x l -> Forall2 R (f x) (g x)) -> Forall2 R (flat_map f l) (flat_map g l).
Proof.
  induction l as [|x l IH]; intros H; cbn; [constructor|]. apply Forall2_app.
  - apply H. now left.
  - apply IH. intros y Hy. apply H. now right.
Qed.
Lemma Forall2_concat {A B} (R : A -> B -> Prop) m m' :
  Forall2 (Forall2 R) m m' -> Forall2 R (concat m) (concat m').
Proof. induction 1; cbn; [constructor|now apply Forall2_app]. Qed.
Lemma Forall2_somes R l l' : Forall2 (orel R) l l' -> Forall2 R (somes l) (somes l').
Proof.
  unfold somes. induction 1 as [|o o' l l' Ho _ IH]; cbn; [constructor|].
  destruct Ho; cbn; [exact IH|now constructor].
Qed.
Lemma Forall2_nonempty {A B} (R : A -> B -> Prop) l l' : Forall2 R l l' -> l <> [] -> l' <> [].
Proof. destruct 1; [congruence|discriminate]. Qed.

Lemma mk2_irel {A B} (R : A -> B -> Prop) h w f g :
  (forall i j, (i < h)%nat -> (j < w)%nat -> R (f i j) (g i j)) -> irel R (mk2 h w f) (mk2 h w g).
Proof.
  intros H. unfold irel, mk2. apply Forall2_map_same. intros i Hi. apply in_seq in Hi.
  apply Forall2_map_same. intros j Hj. apply in_seq in Hj. apply H; lia.
Qed.

Section AffineOrder.
Variables a b : Q.
Hypothesis Ha : 0 < a.

Lemma aff_le u v : Qle_bool (a * u + b) (a * v + b) = Qle_bool u v.
Proof.
  destruct (Qle_bool u v) eqn:E.
  - apply Qle_bool_iff in E. apply Qle_bool_iff. nra.
  - apply Qle_bool_false in E. destruct (Qle_bool (a * u + b) (a * v + b)) eqn:E'; [|reflexivity].
    apply Qle_bool_iff in E'. exfalso. nra.
Qed.

Lemma arel_le u u' v v' : arel a b u u' -> arel a b v v' -> Qle_bool u' v' = Qle_bool u v.
Proof. unfold arel. intros -> ->. apply aff_le. Qed.
Lemma arel_lt u u' v v' : arel a b u u' -> arel a b v v' -> Qlt_bool u' v' = Qlt_bool u v.
Proof. intros Hu Hv. unfold Qlt_bool. now rewrite (arel_le v v' u u'). Qed.
Lemma arel_eqb u u' v v' : arel a b u u' -> arel a b v v' -> Qeq_bool u' v' = Qeq_bool u v.
Proof.
  unfold arel. intros -> ->. destruct (Qeq_bool u v) eqn:E.
  - apply Qeq_bool_iff in E. apply Qeq_bool_iff. now rewrite E.
  - destruct (Qeq_bool (a * u + b) (a * v + b)) eqn:E'; [|reflexivity].
    apply Qeq_bool_iff in E'. assert (u == v) by nra. apply Qeq_bool_iff in H. congruence.
Qed.

Lemma arel_qmin2 u u' v v' : arel a b u u' -> arel a b v v' -> arel a b (qmin2 u v) (qmin2 u' v').
Proof. intros Hu Hv. unfold qmin2. rewrite (arel_le u u' v v' Hu Hv). now destruct (Qle_bool u v). Qed.
Lemma arel_qmax2 u u' v v' : arel a b u u' -> arel a b v v' -> arel a b (qmax2 u v) (qmax2 u' v').
Proof. intros Hu Hv. unfold qmax2. rewrite (arel_le u u' v v' Hu Hv). now destruct (Qle_bool u v). Qed.

Lemma arel_fold (op : Q -> Q -> Q) :
  (forall u u' v v', arel a b u u' -> arel a b v v' -> arel a b (op u v) (op u' v')) ->
  forall r r', Forall2 (arel a b) r r' -> forall x x', arel a b x x' ->
  arel a b (fold_left op r x) (fold_left op r' x').
Proof. intros Hop r r' H. induction H; intros x0 x0' Hx; cbn [fold_left]; auto. Qed.

Lemma arel_qminl l l' : Forall2 (arel a b) l l' -> l <> [] -> arel a b (qminl l) (qminl l').
Proof.
  destruct 1 as [|x x' r r' Hx Hr]; [congruence|]. intros _. cbn [qminl].
  apply arel_fold; auto using arel_qmin2.
Qed.
Lemma arel_qmaxl l l' : Forall2 (arel a b) l l' -> l <> [] -> arel a b (qmaxl l) (qmaxl l').
Proof.
  destruct 1 as [|x x' r r' Hx Hr]; [congruence|]. intros _. cbn [qmaxl].
  apply arel_fold; auto using arel_qmax2.
Qed.

Lemma arel_clipq lo lo' hi hi' v v' :
  arel a b lo lo' -> arel a b hi hi' -> arel a b v v' -> arel a b (clipq lo hi v) (clipq lo' hi' v').
Proof.
  intros Hlo Hhi Hv. unfold clipq.
  rewrite (arel_le v v' lo lo' Hv Hlo), (arel_le hi hi' v v' Hhi Hv).
  destruct (Qle_bool v lo); [exact Hlo|]. now destruct (Qle_bool hi v).
Qed.
End AffineOrder.

(* hypotheses on the library numerics: each is equivariant under v -> a*v + b, a > 0 *)
Definition idw_equivariant (idw : img (option Q) -> nat -> nat -> Q) : Prop :=
  forall a b, 0 < a -> forall g g', irel (orel (arel a b)) g g' -> somes (concat g) <> [] ->
  forall i j, arel a b (idw g i j) (idw g' i j).
Definition median_equivariant (median : list Q -> Q) : Prop :=
  forall a b, 0 < a -> forall l l', Forall2 (arel a b) l l' -> l <> [] ->
  arel a b (median l) (median l').
Definition interp_equivariant (interp : img Q -> nat -> nat -> Q) : Prop :=
  forall a b, 0 < a -> forall m m', irel (arel a b) m m' -> concat m <> [] ->
  forall y x, arel a b (interp m y x) (interp m' y x).

Section StageRel.
Variable idw : img (option Q) -> nat -> nat -> Q.
Variable median : list Q -> Q.
Variable interp : img Q -> nat -> nat -> Q.
Hypothesis Hidw : idw_equivariant idw.
Hypothesis Hmed : median_equivariant median.
Hypothesis Hint : interp_equivariant interp.
Variables (fy fx : nat).
Hypothesis Hfy : (0 < fy)%nat.
Hypothesis Hfx : (0 < fx)%nat.

Lemma good_rel a b h w f f' :
  (forall i j, (i < h)%nat -> (j < w)%nat -> orel (arel a b) (f i j) (f' i j)) ->
  Forall2 (arel a b) (somes (concat (mk2 h w f))) (somes (concat (mk2 h w f'))).
Proof. intros H. apply Forall2_somes, Forall2_concat, mk2_irel, H. Qed.

Lemma interp_grid_rel a b h w f f' :
  0 < a -> (0 < h)%nat ->
  (forall i j, (i < h)%nat -> (j < w)%nat -> orel (arel a b) (f i j) (f' i j)) ->
  somes (concat (mk2 h w f)) <> [] ->
  exists F F', interp_grid idw (mk2 h w f) = mk2 h w F /\ interp_grid idw (mk2 h w f') = mk2 h w F' /\
    forall i j, (i < h)%nat -> (j < w)%nat -> arel a b (F i j) (F' i j).
Proof.
  intros Ha Hh Hf Hne. rewrite !interp_grid_mk2 by exact Hh.
  eexists. eexists. split; [reflexivity|]. split; [reflexivity|].
  intros i j Hi Hj. cbv beta. pose proof (good_rel a b h w f f' Hf) as Hg.
  destruct (Hf i j Hi Hj) as [|u v Huv]; [|exact Huv].
  apply arel_clipq; try assumption.
  - now apply arel_qminl.
  - now apply arel_qmaxl.
  - apply Hidw; try assumption. apply mk2_irel, Hf.
Qed.

Lemma window_rel a b h w g g' i j :
  (forall i j, (i < h)%nat -> (j < w)%nat -> arel a b (g i j) (g' i j)) ->
  Forall2 (arel a b) (window fy fx h w (mk2 h w g) i j) (window fy fx h w (mk2 h w g') i j).
Proof.
  intros Hg. unfold window. apply Forall2_flat_map_same. intros y Hy. apply in_seq in Hy.
  apply Forall2_map_same. intros x Hx. apply in_seq in Hx.
  rewrite !mk2_get by lia. apply Hg; lia.
Qed.

(* selector (background) related by (a,b); filtered data related by (a2,b2) *)
Lemma filter_grid_rel a b a2 b2 h w (t t' : option Q) minb minb' s s' g g' :
  0 < a -> 0 < a2 -> (0 < h)%nat ->
  match t, t' with None, None => True | Some u, Some u' => arel a b u u' | _, _ => False end ->
  arel a b minb minb' ->
  (forall i j, (i < h)%nat -> (j < w)%nat -> arel a b (s i j) (s' i j)) ->
  (forall i j, (i < h)%nat -> (j < w)%nat -> arel a2 b2 (g i j) (g' i j)) ->
  irel (arel a2 b2) (filter_grid median fy fx t minb (mk2 h w s) (mk2 h w g))
                    (filter_grid median fy fx t' minb' (mk2 h w s') (mk2 h w g')).
Proof.
  intros Ha Ha2 Hh Ht Hmin Hs Hg.
  assert (Hwin : forall i j, (i < h)%nat -> (j < w)%nat ->
            arel a2 b2 (median (window fy fx h w (mk2 h w g) i j))
                       (median (window fy fx h w (mk2 h w g') i j))).
  { intros i j Hi Hj. apply Hmed; [exact Ha2|now apply window_rel|].
    intros E. pose proof (window_center fy fx Hfy Hfx h w (mk2 h w g) i j Hi Hj) as Hc.
    rewrite E in Hc. destruct Hc. }
  unfold filter_grid, full_filter, selective_filter.
  rewrite !mk2_length, !mk2_width by exact Hh.
  destruct ((fy =? 1)%nat && (fx =? 1)%nat); [now apply mk2_irel|].
  destruct t as [u|], t' as [u'|]; try contradiction; [|now apply mk2_irel].
  rewrite (arel_lt a b Ha u u' minb minb' Ht Hmin).
  destruct (Qlt_bool u minb); [now apply mk2_irel|].
  apply mk2_irel. intros i j Hi Hj. rewrite !mk2_get by assumption.
  rewrite (arel_lt a b Ha u u' (s i j) (s' i j) Ht (Hs i j Hi Hj)).
  destruct (Qlt_bool u (s i j)); auto.
Qed.

Lemma calc_image_rel a b ny nx cov fill do_clip m m' y x d :
  0 < a -> irel (arel a b) m m' -> concat m <> [] ->
  (y < ny)%nat -> (x < nx)%nat -> get2 false cov y x = false ->
  arel a b (get2 d (calc_image ny nx cov fill do_clip interp m) y x)
           (get2 d (calc_image ny nx cov fill do_clip interp m') y x).
Proof.
  intros Ha Hm Hne Hy Hx Hc. unfold calc_image. rewrite !mk2_get by assumption. rewrite Hc.
  pose proof (Forall2_concat _ _ _ Hm) as Hcc.
  pose proof (arel_qminl a b Ha _ _ Hcc Hne) as Hlo.
  pose proof (arel_qmaxl a b Ha _ _ Hcc Hne) as Hhi.
  rewrite (arel_eqb a b Ha _ _ _ _ Hhi Hlo).
  destruct (Qeq_bool (qmaxl (concat m)) (qminl (concat m))); [exact Hlo|].
  destruct do_clip.
  - apply arel_clipq; try assumption. now apply Hint.
  - now apply Hint.
Qed.
End StageRel.

Lemma get2_map_option (f : Z -> Z) (data : img (option Z)) y x :
  get2 None (map (map (option_map f)) data) y x = option_map f (get2 None data y x).
Proof.
  unfold get2.
  change (@nil (option Z)) with (map (option_map f) []) at 1. rewrite map_nth.
  change (@None Z) with (option_map f None) at 1. now rewrite map_nth.
Qed.

Lemma snd_box_stat by_ bx data mask cov p est rms clip coords :
  snd (box_stat by_ bx data mask cov p est rms clip coords) =
  length (box_vals data mask cov clip coords).
Proof. unfold box_stat. now destruct (excluded by_ bx p (length (box_vals data mask cov clip coords))). Qed.

Section PipeEquiv.
Variables (ny nx by0 bx0 : nat).
Hypothesis Hny : (0 < ny)%nat.
Hypothesis Hnx : (0 < nx)%nat.
Hypothesis Hby0 : (0 < by0)%nat.
Hypothesis Hbx0 : (0 < bx0)%nat.
Variable data : img (option Z).
Variables mask cov : img bool.
Variable p : Q.
Variables est rms : list Z -> Q.
Variable clip : list Z -> list Z.
Variable idw : img (option Q) -> nat -> nat -> Q.
Variable median : list Q -> Q.
Variables (fy fx : nat) (fthr : option Q).
Hypothesis Hfy : (0 < fy)%nat.
Hypothesis Hfx : (0 < fx)%nat.
Variables (fill : Q) (do_clip : bool).
Variable interp : img Q -> nat -> nat -> Q.
(* the transformation of the data: v -> k*v + c with k > 0 (in the integer scale of the model) *)
Variables k c : Z.
Hypothesis Hk : (0 < k)%Z.
Let f (v : Z) : Z := (k * v + c)%Z.
Let K : Q := inject_Z k.
Let C : Q := inject_Z c.
(* hypotheses on the numerics that are not modelled *)
Hypothesis Hclip : forall l, clip (map f l) = map f (clip l).
Hypothesis Hest : forall l, l <> [] -> est (map f l) == K * est l + C.
Hypothesis Hrms : forall l, l <> [] -> rms (map f l) == K * rms l.
Hypothesis Hidw : idw_equivariant idw.
Hypothesis Hmed : median_equivariant median.
Hypothesis Hint : interp_equivariant interp.

Let data' : img (option Z) := map (map (option_map f)) data.
Let fthr' : option Q := option_map (fun t => K * t + C) fthr.

Notation by_ := (clipbox by0 ny).
Notation bx := (clipbox bx0 nx).
Notation H_ := (nmy ny by_).
Notation W_ := (nmx nx bx).
Notation cell := (cell_coords ny nx by_ bx).

Lemma K_pos : 0 < K.
Proof. unfold K, Qlt, inject_Z. cbn. lia. Qed.

Lemma pix_equiv y x : pix data' mask cov y x = option_map f (pix data mask cov y x).
Proof. unfold pix. destruct (masked mask cov y x); [reflexivity|]. apply get2_map_option. Qed.

Lemma bvals_equiv coords :
  box_vals data' mask cov clip coords = map f (box_vals data mask cov clip coords).
Proof.
  unfold box_vals.
  replace (map (fun c0 => pix data' mask cov (fst c0) (snd c0)) coords)
    with (map (option_map f) (map (fun c0 => pix data mask cov (fst c0) (snd c0)) coords)).
  - now rewrite goodvals_map, Hclip.
  - rewrite map_map. apply map_ext. intros c0. now rewrite pix_equiv.
Qed.

Lemma nan_mask_equiv :
  nan_mask ny nx by_ bx data' mask cov p est rms clip = nan_mask ny nx by_ bx data mask cov p est rms clip.
Proof.
  rewrite !nan_mask_mk2. apply mk2_ext. intros i j _ _. now rewrite bvals_equiv, map_length.
Qed.
Lemma ngood_equiv :
  ngood_mesh ny nx by_ bx data' mask cov p est rms clip = ngood_mesh ny nx by_ bx data mask cov p est rms clip.
Proof.
  rewrite !ngood_mesh_mk2. apply mk2_ext. intros i j _ _.
  now rewrite !snd_box_stat, bvals_equiv, map_length.
Qed.
Lemma all_excluded_equiv :
  all_excluded ny nx by_ bx data' mask cov p est rms clip = all_excluded ny nx by_ bx data mask cov p est rms clip.
Proof. now rewrite !all_excluded_nan, nan_mask_equiv. Qed.

Lemma stat_equiv coords :
  orel (arel K C) (fst (fst (box_stat by_ bx data mask cov p est rms clip coords)))
                  (fst (fst (box_stat by_ bx data' mask cov p est rms clip coords))) /\
  orel (arel K 0) (snd (fst (box_stat by_ bx data mask cov p est rms clip coords)))
                  (snd (fst (box_stat by_ bx data' mask cov p est rms clip coords))).
Proof.
  unfold box_stat. rewrite bvals_equiv, map_length.
  destruct (excluded by_ bx p (length (box_vals data mask cov clip coords))) eqn:E; cbn.
  - split; constructor.
  - assert (Hne : box_vals data mask cov clip coords <> []).
    { unfold excluded in E. apply orb_false_iff in E as [_ E]. apply Nat.eqb_neq in E.
      intros E'. rewrite E' in E. now cbn in E. }
    split; constructor; unfold arel.
    + now apply Hest.
    + rewrite Hrms by exact Hne. ring.
Qed.

(* shift_scale_equivariant_partial *)
Lemma b2d_equivariant :
  (background2d ny nx by0 bx0 data mask cov p est rms clip idw median fy fx fthr fill do_clip interp
     = AllExcluded <->
   background2d ny nx by0 bx0 data' mask cov p est rms clip idw median fy fx fthr' fill do_clip interp
     = AllExcluded) /\
  forall np nm bm rm b r,
    background2d ny nx by0 bx0 data mask cov p est rms clip idw median fy fx fthr fill do_clip interp
      = Maps np nm bm rm b r ->
    exists bm' rm' b' r',
      background2d ny nx by0 bx0 data' mask cov p est rms clip idw median fy fx fthr' fill do_clip interp
        = Maps np nm bm' rm' b' r' /\
      irel (arel K C) bm bm' /\ irel (arel K 0) rm rm' /\
      forall y x d, (y < ny)%nat -> (x < nx)%nat ->
        if get2 false cov y x
        then (get2 d b y x = fill /\ get2 d b' y x = fill) /\ (get2 d r y x = fill /\ get2 d r' y x = fill)
        else arel K C (get2 d b y x) (get2 d b' y x) /\ arel K 0 (get2 d r y x) (get2 d r' y x).
Proof.
  split.
  { rewrite !b2d_allexcluded. now rewrite all_excluded_equiv. }
  intros np nm bm rm b r E.
  apply (b2d_maps ny nx by0 bx0) in E as (Hall & -> & -> & -> & -> & -> & ->).
  pose proof (H_pos ny by0 Hny Hby0) as HH. pose proof (W_pos nx bx0 Hnx Hbx0) as HW.
  pose proof K_pos as HK.
  unfold background2d. rewrite all_excluded_equiv, Hall, ngood_equiv, nan_mask_equiv.
  do 4 eexists. split; [reflexivity|].
  (* a kept cell exists *)
  pose proof Hall as Hall0. unfold all_excluded in Hall0. rewrite bkg_stats_mk2 in Hall0.
  apply mk2_forallb_false in Hall0 as (i0 & j0 & Hi0 & Hj0 & Hk0).
  rewrite !bkg_stats_mk2, !rms_stats_mk2.
  set (fb := fun i j => fst (fst (box_stat by_ bx data mask cov p est rms clip (cell i j)))).
  set (fb' := fun i j => fst (fst (box_stat by_ bx data' mask cov p est rms clip (cell i j)))).
  set (fr := fun i j => snd (fst (box_stat by_ bx data mask cov p est rms clip (cell i j)))).
  set (fr' := fun i j => snd (fst (box_stat by_ bx data' mask cov p est rms clip (cell i j)))).
  change (isnone (fb i0 j0) = false) in Hk0.
  assert (Hfb : forall i j, (i < H_)%nat -> (j < W_)%nat -> orel (arel K C) (fb i j) (fb' i j))
    by (intros i j _ _; apply stat_equiv).
  assert (Hfr : forall i j, (i < H_)%nat -> (j < W_)%nat -> orel (arel K 0) (fr i j) (fr' i j))
    by (intros i j _ _; apply stat_equiv).
  assert (Hneb : somes (concat (mk2 H_ W_ fb)) <> []).
  { destruct (fb i0 j0) as [v|] eqn:Ev; [|discriminate Hk0].
    assert (Hin : In v (somes (concat (mk2 H_ W_ fb)))) by (apply somes_in; rewrite <- Ev; now apply mk2_in_conv).
    intros E'. rewrite E' in Hin. destruct Hin. }
  assert (Hner : somes (concat (mk2 H_ W_ fr)) <> []).
  { assert (Er : fr i0 j0 <> None).
    { unfold fr, fb in *. unfold box_stat in *.
      destruct (excluded by_ bx p (length (box_vals data mask cov clip (cell i0 j0)))); cbn in *;
        [discriminate Hk0|discriminate]. }
    destruct (fr i0 j0) as [v|] eqn:Ev; [|congruence].
    assert (Hin : In v (somes (concat (mk2 H_ W_ fr)))) by (apply somes_in; rewrite <- Ev; now apply mk2_in_conv).
    intros E'. rewrite E' in Hin. destruct Hin. }
  destruct (interp_grid_rel idw Hidw K C H_ W_ fb fb' HK HH Hfb Hneb) as (F & F' & EF & EF' & HF).
  destruct (interp_grid_rel idw Hidw K 0 H_ W_ fr fr' HK HH Hfr Hner) as (G & G' & EG & EG' & HG).
  rewrite EF, EF', EG, EG'.
  assert (Hmin : arel K C (qminl (somes (concat (mk2 H_ W_ fb)))) (qminl (somes (concat (mk2 H_ W_ fb'))))).
  { apply arel_qminl; [exact HK|now apply good_rel|exact Hneb]. }
  assert (Hthr : match fthr, fthr' with
                 | None, None => True | Some u, Some u' => arel K C u u' | _, _ => False end).
  { unfold fthr'. destruct fthr; cbn; [unfold arel; reflexivity|exact I]. }
  pose proof (filter_grid_rel median Hmed fy fx Hfy Hfx K C K C H_ W_ fthr fthr' _ _ F F' F F'
                HK HK HH Hthr Hmin HF HF) as Hbm.
  pose proof (filter_grid_rel median Hmed fy fx Hfy Hfx K C K 0 H_ W_ fthr fthr' _ _ F F' G G'
                HK HK HH Hthr Hmin HF HG) as Hrm.
  split; [exact Hbm|]. split; [exact Hrm|].
  intros y x d Hy Hx. destruct (get2 false cov y x) eqn:Hc.
  - repeat split; now apply calc_image_cov.
  - split; apply (calc_image_rel interp Hint); try assumption.
    + apply (shape_concat_nonempty H_ W_); try assumption.
      apply filter_grid_shape; [apply shape_mk2|exact HH].
    + apply (shape_concat_nonempty H_ W_); try assumption.
      apply filter_grid_shape; [apply shape_mk2|exact HH].
Qed.
End PipeEquiv.

(* ================================================================== *)
(* Part 6: the hypotheses of Part 5 are satisfiable (concrete instances) *)
(* ================================================================== *)
Lemma zsum_affine k c l :
  zsum (map (fun v => k * v + c)%Z l) = (k * zsum l + c * Z.of_nat (length l))%Z.
Proof.
  induction l as [|x l IH]; [cbn; lia|]. cbn [map]. rewrite !zsum_cons, IH. cbn [length]. lia.
Qed.

Lemma qmean_equivariant k c l :
  l <> [] -> qmean (map (fun v => k * v + c)%Z l) == inject_Z k * qmean l + inject_Z c.
Proof.
  intros Hn. unfold qmean. rewrite map_length, zsum_affine.
  assert (Hl : (length l <> 0)%nat) by (destruct l; [congruence|cbn; lia]).
  unfold Qeq, Qplus, Qmult, inject_Z. cbn [Qnum Qden].
  rewrite !Pos2Z.inj_mul, !pos_of_nat_Z by exact Hl. ring.
Qed.

Lemma Forall2_qinsert a b x x' l l' :
  0 < a -> arel a b x x' -> Forall2 (arel a b) l l' ->
  Forall2 (arel a b) (qinsert x l) (qinsert x' l').
Proof.
  intros Ha Hx H. induction H as [|y y' l l' Hy Hl IH]; cbn [qinsert]; [now repeat constructor|].
  rewrite (arel_le a b Ha x x' y y' Hx Hy). destruct (Qle_bool x y); repeat constructor; auto.
Qed.
Lemma Forall2_qsort a b l l' :
  0 < a -> Forall2 (arel a b) l l' -> Forall2 (arel a b) (qsort l) (qsort l').
Proof.
  intros Ha H. induction H as [|y y' l l' Hy Hl IH]; [constructor|].
  rewrite !qsort_cons. now apply Forall2_qinsert.
Qed.
Lemma Forall2_nth_rel (R : Q -> Q -> Prop) l l' n d d' :
  Forall2 R l l' -> (n < length l)%nat -> R (nth n l d) (nth n l' d').
Proof.
  intros H. revert n. induction H as [|y y' l l' Hy Hl IH]; intros n Hn; [cbn in Hn; lia|].
  destruct n; [exact Hy|]. cbn. apply IH. cbn in Hn. lia.
Qed.

Lemma Forall2_len {A B} (R : A -> B -> Prop) l l' : Forall2 R l l' -> length l = length l'.
Proof. induction 1; cbn; congruence. Qed.

Lemma qmedian_equivariant : median_equivariant qmedian.
Proof.
  intros a b Ha l l' H Hn. unfold qmedian.
  pose proof (Forall2_qsort a b l l' Ha H) as Hs.
  rewrite <- (Forall2_len _ _ _ Hs).
  assert (Hlen : (0 < length (qsort l))%nat).
  { rewrite qsort_length. destruct l; [congruence|cbn; lia]. }
  assert (Hhalf : (length (qsort l) / 2 < length (qsort l))%nat) by (apply Nat.div_lt; lia).
  destruct (Nat.even (length (qsort l))).
  - pose proof (Forall2_nth_rel _ _ _ (length (qsort l) / 2 - 1)%nat 0 0 Hs ltac:(lia)) as H1.
    pose proof (Forall2_nth_rel _ _ _ (length (qsort l) / 2)%nat 0 0 Hs Hhalf) as H2.
    unfold arel in *. rewrite H1, H2. field.
  - now apply Forall2_nth_rel.
Qed.

(* nearest-good-cell fill and first-cell "upscaling": trivially equivariant stand-ins that
   show the hypotheses on IDW and zoom are satisfiable *)
Definition idw_first (g : img (option Q)) (_ _ : nat) : Q := hd 0 (somes (concat g)).
Definition interp_first (m : img Q) (_ _ : nat) : Q := hd 0 (concat m).

Lemma idw_first_equivariant : idw_equivariant idw_first.
Proof.
  intros a b Ha g g' H Hn i j. unfold idw_first.
  pose proof (Forall2_somes _ _ _ (Forall2_concat _ _ _ H)) as Hs.
  destruct Hs; [congruence|assumption].
Qed.
Lemma interp_first_equivariant : interp_equivariant interp_first.
Proof.
  intros a b Ha m m' H Hn y x. unfold interp_first.
  pose proof (Forall2_concat _ _ _ H) as Hs. destruct Hs; [congruence|assumption].
Qed.

(* ================================================================== *)
(* Part 7: remaining statements used by C11_Properties                   *)
(* ================================================================== *)
(* the unrepaired rule (ngood <= threshold) excludes a box without a single masked pixel
   when exclude_percentile = 0 — for every box size *)
Lemma unrepaired_rule_excludes_clean_box by_ bx :
  excluded_unrepaired by_ bx 0 (by_ * bx) = true /\
  ((0 < by_ * bx)%nat -> excluded by_ bx 0 (by_ * bx) = false).
Proof.
  split.
  - unfold excluded_unrepaired, good_thr, box_npixels. apply Qle_bool_iff.
    assert (E : (1 - 0 / 100) * inject_Z (Z.of_nat (by_ * bx)) == inject_Z (Z.of_nat (by_ * bx))) by field.
    rewrite E. apply Qle_refl.
  - intros Hpos. unfold excluded, good_thr, box_npixels. apply orb_false_iff. split.
    + unfold Qlt_bool. apply negb_false_iff, Qle_bool_iff.
      assert (E : (1 - 0 / 100) * inject_Z (Z.of_nat (by_ * bx)) == inject_Z (Z.of_nat (by_ * bx))) by field.
      rewrite E. apply Qle_refl.
    + apply Nat.eqb_neq. lia.
Qed.

Section FinitePre.
Variables (ny nx by0 bx0 : nat).
Hypothesis Hny : (0 < ny)%nat.
Hypothesis Hnx : (0 < nx)%nat.
Hypothesis Hby0 : (0 < by0)%nat.
Hypothesis Hbx0 : (0 < bx0)%nat.
Variable data : img (option Z).
Variables mask cov : img bool.
Variable p : Q.
Variables est rms : list Z -> Q.
Variable clip : list Z -> list Z.
Variable idw : img (option Q) -> nat -> nat -> Q.
Variable median : list Q -> Q.
Variables (fy fx : nat) (fthr : option Q).
Variables (fill : Q) (do_clip : bool).
Variable interp : img Q -> nat -> nat -> Q.
Notation by_ := (clipbox by0 ny).
Notation bx := (clipbox bx0 nx).

(* what "finite everywhere" rests on: whenever maps are produced, (1) at least one box is
   kept, so the IDW fill has a source and min/max of the kept boxes exist; (2) an estimator
   is only ever applied to a non-empty sample of finite, unmasked pixels; (3) every mesh
   cell and every map pixel is defined *)
Lemma b2d_finite_pre np nm bm rm b r :
  background2d ny nx by0 bx0 data mask cov p est rms clip idw median fy fx fthr fill do_clip interp
    = Maps np nm bm rm b r ->
  (exists i j, (i < nmy ny by_)%nat /\ (j < nmx nx bx)%nat /\
     excluded by_ bx p (length (box_vals data mask cov clip (cell_coords ny nx by_ bx i j))) = false) /\
  (forall i j, excluded by_ bx p (length (box_vals data mask cov clip (cell_coords ny nx by_ bx i j))) = false ->
     box_vals data mask cov clip (cell_coords ny nx by_ bx i j) <> []) /\
  (forall i j v, In v (goodvals (map (fun c => pix data mask cov (fst c) (snd c))
                                     (cell_coords ny nx by_ bx i j))) ->
     exists y x, In (y, x) (cell_coords ny nx by_ bx i j) /\
                 get2 false mask y x = false /\ get2 false cov y x = false /\
                 get2 None data y x = Some v) /\
  shape ny nx b /\ shape ny nx r /\ shape (nmy ny by_) (nmx nx bx) bm /\ shape (nmy ny by_) (nmx nx bx) rm.
Proof.
  intros E. pose proof E as E0.
  apply (b2d_maps ny nx by0 bx0) in E as (Hall & _).
  split; [|split; [|split]].
  - rewrite all_excluded_nan, nan_mask_mk2 in Hall.
    apply mk2_forallb_false in Hall as (i & j & Hi & Hj & H). exists i, j. auto.
  - intros i j Ex Ev. rewrite Ev in Ex. unfold excluded in Ex. cbn [length Nat.eqb] in Ex.
    now rewrite orb_true_r in Ex.
  - intros i j v Hv. apply goodvals_in, in_map_iff in Hv as ([y x] & Hp & Hin).
    cbn [fst snd] in Hp. apply pix_some in Hp. exists y, x. tauto.
  - eapply b2d_shape in E0; try eassumption. destruct E0 as (S1 & S2 & S3 & S4 & _). auto.
Qed.
End FinitePre.

(* constant_image_exact for the concrete estimators of the correspondence: Mean or Median
   background, Std RMS (its square), sigma_clip=None, the window median — no hypotheses on
   the IDW fill or on the zoom *)
Lemma b2d_constant_concrete ny nx by0 bx0 data mask cov p estk idw fy fx fthr fill do_clip interp c
      np nm bm rm b r :
  (0 < ny)%nat -> (0 < nx)%nat -> (0 < by0)%nat -> (0 < bx0)%nat -> (0 < fy)%nat -> (0 < fx)%nat ->
  (forall y x, (y < ny)%nat -> (x < nx)%nat ->
     pix data mask cov y x = None \/ pix data mask cov y x = Some c) ->
  background2d ny nx by0 bx0 data mask cov p (est_of estk) qvar noclip idw qmedian fy fx fthr
               fill do_clip interp = Maps np nm bm rm b r ->
  (forall i j, (i < nmy ny (clipbox by0 ny))%nat -> (j < nmx nx (clipbox bx0 nx))%nat ->
     get2 0 bm i j == inject_Z c /\ get2 0 rm i j == 0) /\
  (forall y x d, (y < ny)%nat -> (x < nx)%nat ->
     if get2 false cov y x then get2 d b y x = fill /\ get2 d r y x = fill
     else get2 d b y x == inject_Z c /\ get2 d r y x == 0).
Proof.
  intros Hny Hnx Hby0 Hbx0 Hfy Hfx Hconst E.
  eapply (b2d_constant ny nx by0 bx0 Hny Hnx Hby0 Hbx0 data mask cov p (est_of estk) qvar noclip
            idw qmedian fy fx fthr Hfy Hfx fill do_clip interp c Hconst); try exact E.
  - intros l v H. exact H.
  - intros l. apply est_of_const.
  - intros l. apply qvar_const.
  - intros q l. apply qmedian_const.
Qed.

(* mesh_cell_is_block, all facts about one cell together *)
Lemma mesh_cell_block_full ny nx by_ bx :
  (0 < by_)%nat -> (0 < bx)%nat -> forall i j, (i < nmy ny by_)%nat -> (j < nmx nx bx)%nat ->
  (forall y x, In (y, x) (cell_coords ny nx by_ bx i j) <->
     (i * by_ <= y < Nat.min ((i + 1) * by_) ny)%nat /\ (j * bx <= x < Nat.min ((j + 1) * bx) nx)%nat) /\
  NoDup (cell_coords ny nx by_ bx i j) /\
  Permutation (cell_coords ny nx by_ bx i j) (block_coords ny nx by_ bx i j) /\
  (length (cell_coords ny nx by_ bx i j) =
     (Nat.min ((i + 1) * by_) ny - i * by_) * (Nat.min ((j + 1) * bx) nx - j * bx))%nat /\
  (length (cell_coords ny nx by_ bx i j) <= by_ * bx)%nat.
Proof.
  intros Hby Hbx i j Hi Hj. pose proof (cell_is_block ny nx by_ bx Hby Hbx i j Hi Hj) as HP.
  split; [|split; [|split; [|split]]].
  - intros y x. rewrite <- in_block by assumption. split; intros H.
    + now apply (Permutation_in _ HP).
    + now apply (Permutation_in _ (Permutation_sym HP)).
  - now apply cell_coords_NoDup.
  - exact HP.
  - now rewrite (Permutation_length HP), block_length.
  - now apply cell_length_le.
Qed.
