(* C19 -- TRANSLATOR TIE.  gen/Gen_profiles.v is REGENERATED from the current source text of
   photutils/profiles/core.py (ProfileBase) and photutils/profiles/radial_profile.py on every run
   (harness/translate_all.py); it is not committed.  Tied here, for ALL finite values (a float argument is a
   finite real; NaN / inf results are the [None] cases of C19_Model.val and are outside the sort), to C19_Model.v:
     normalize: the test `normalization == 0 or not np.isfinite(normalization)`      = the Qeq_bool test of normalize
     normalize: normalization_value *= n; profile / n; profile_error / n              = vmul / vdiv / ediv (up to Qred)
     unnormalize: profile * nv; profile_error * nv; normalization_value = 1.0         = vmul / emul / Some 1
     _circular_apertures: `radius <= 0.0` (no aperture);  _photometry: the `aperture is None` branch gives
       ([0.0], [0.0], 0.0), otherwise do_photometry / area_overlap unchanged           = phot_one AZero
     RadialProfile.profile = _flux / area, profile_error = _fluxerr / area (elementwise) = quot / equot
   do_photometry(...) and area_overlap(...) are declared abstract arguments. *)
From Coq Require Import ZArith QArith Qabs Qround Qreduction List Bool Lia Lqa.
From PV Require Import lib.Cases lib.PyGen C19_Model gen.Gen_profiles.
Import ListNotations.
Open Scope Q_scope.

Definition oq_eq (a : val) (b : Q) : Prop := match a with Some r => r == b | None => False end.

(* ---------- normalize ---------- *)
Theorem gen_normalize_skipped_eq : forall q, gen_normalize_skipped q = Qeq_bool q 0.
Proof.
  intros. unfold gen_normalize_skipped. q_split; q_hyps; cbn;
    first [reflexivity | (exfalso; match goal with H : ~ _ == _ |- _ => apply H; lra end)].
Qed.

Theorem gen_normalize_apply_eq : forall p c rad nv n, Qeq_bool n 0 = false ->
  let '(nv', p', e') := gen_normalize_apply p c nv n in
  oq_eq (vmul (Some n) (Some nv)) nv' /\ oq_eq (vdiv (Some n) (Some p)) p' /\
  match ediv (Some n) (Some (c, rad)) with Some (c', rad') => c' == e' /\ rad' = rad | None => False end.
Proof.
  intros p c rad nv n Hn. unfold gen_normalize_apply, vmul, vdiv, ediv, oq_eq. cbv zeta. rewrite Hn.
  repeat split; rewrite Qred_correct; first [reflexivity | ring].
Qed.

(* the model's normalize, in terms of the regenerated test and update *)
Theorem gen_normalize_is_model : forall V raw_p raw_e raw_d m st q,
  (match m with NMax => nanmax (get_p raw_p st) | NSum => nansum (get_p raw_p st) end) = Some q ->
  (gen_normalize_skipped q = true -> normalize V raw_p raw_e raw_d m st = cache_p raw_p st) /\
  (gen_normalize_skipped q = false -> forall nv0, nv st = Some nv0 ->
     oq_eq (nv (normalize V raw_p raw_e raw_d m st)) (fst (fst (gen_normalize_apply 0 0 nv0 q)))).
Proof.
  intros V raw_p raw_e raw_d m st q Hq. rewrite gen_normalize_skipped_eq. unfold normalize. rewrite Hq. split.
  - intros ->. reflexivity.
  - intros E nv0 Hnv. rewrite E. unfold rescale, cache_p. cbn [nv]. rewrite Hnv.
    unfold vmul, oq_eq, gen_normalize_apply. cbn [fst]. rewrite Qred_correct. ring.
Qed.

(* ---------- unnormalize ---------- *)
Theorem gen_unnormalize_eq : forall p c rad nv,
  let '(nv', p', e') := gen_unnormalize p c nv in
  nv' == 1 /\ oq_eq (vmul (Some nv) (Some p)) p' /\
  match emul (Some nv) (Some (c, rad)) with Some (c', rad') => c' == e' /\ rad' = rad | None => False end.
Proof.
  intros. unfold gen_unnormalize, vmul, emul, oq_eq. cbv zeta.
  repeat split; try rewrite Qred_correct; first [reflexivity | ring].
Qed.

Theorem gen_unnormalize_resets_value : forall V raw_p raw_e raw_d st p c nv0,
  oq_eq (nv (unnormalize V raw_p raw_e raw_d st)) (fst (fst (gen_unnormalize p c nv0))).
Proof. intros. unfold unnormalize, rescale, gen_unnormalize, oq_eq. cbn. reflexivity. Qed.

(* normalize then unnormalize restores a profile value (n, nv non-zero): (p / n) * (nv * n) == p * nv *)
Theorem gen_normalize_unnormalize_roundtrip : forall p c nv n, ~ n == 0 ->
  let '(nv1, p1, c1) := gen_normalize_apply p c nv n in
  let '(_, p2, c2) := gen_unnormalize p1 c1 nv1 in
  p2 == p * nv /\ c2 == c * nv.
Proof. intros p c nv n Hn. unfold gen_normalize_apply, gen_unnormalize. cbv zeta. split; field; exact Hn. Qed.

(* ---------- radius-0 special case ---------- *)
Theorem gen_radius_has_no_aperture_iff : forall r, gen_radius_has_no_aperture r = true <-> r <= 0.
Proof. intros. unfold gen_radius_has_no_aperture. apply Qle_bool_iff. Qed.

Theorem gen_photometry_one_none : forall p0 p1 ao,
  gen_photometry_one None p0 p1 ao = ([0], [0], 0).
Proof. intros. reflexivity. Qed.

Theorem gen_photometry_one_some : forall a p0 p1 ao, gen_photometry_one (Some a) p0 p1 ao = (p0, p1, ao).
Proof. intros. reflexivity. Qed.

(* the model's AZero aperture is that branch: flux[0] = 0, fluxerr[0] = 0, area = 0 (scaled by any S <> 0) *)
Theorem gen_photometry_one_none_is_AZero : forall (S : Z) data err tm p0 p1 ao,
  let '(f, fe, a) := gen_photometry_one None p0 p1 ao in
  let '(mf, mv, ma) := phot_one data err tm AZero in
  oq_eq (option_map (zq S) mf) (hd 1 f) /\ oq_eq (option_map (zq S) mv) (hd 1 fe * hd 1 fe) /\
  oq_eq (option_map (zq S) ma) a.
Proof. intros. cbn. unfold zq. repeat split; unfold Qeq; cbn; ring. Qed.

(* ---------- RadialProfile.profile / profile_error ---------- *)
Lemma injZ_neq0 (z : Z) : z <> 0%Z -> ~ inject_Z z == 0.
Proof. intros H E. apply H. unfold Qeq in E. cbn in E. lia. Qed.

Theorem gen_radial_profile_elem_eq : forall (S f a : Z) q, S <> 0%Z ->
  quot (Some f) (Some a) = Some q -> gen_radial_profile_elem (zq S f) (zq S a) == q.
Proof.
  intros S f a q HS H. unfold quot in H. destruct (a =? 0)%Z eqn:E; [discriminate|].
  injection H as <-. unfold gen_radial_profile_elem, zq. apply Z.eqb_neq in E.
  field. split; apply injZ_neq0; assumption.
Qed.

(* profile_error = _fluxerr / area = (S / dA) * _fluxerr: the coefficient of the model's [equot] *)
Theorem gen_radial_profile_error_elem_eq : forall (S v a : Z) c rad (fluxerr : Q) e, S <> 0%Z ->
  equot S (Some v) (Some a) = Some (c, rad) ->
  gen_radial_profile_error_elem fluxerr (zq S a) (Some e) == c * fluxerr.
Proof.
  intros S v a c rad fluxerr e HS H. unfold equot in H.
  destruct ((a =? 0)%Z || (v <? 0)%Z) eqn:E; [discriminate|]. injection H as <- _.
  apply orb_false_iff in E. destruct E as [E _]. apply Z.eqb_neq in E.
  unfold gen_radial_profile_error_elem, zq. field. split; apply injZ_neq0; assumption.
Qed.

Theorem gen_radial_profile_error_no_error : forall fluxerr area,
  gen_radial_profile_error_elem fluxerr area None = fluxerr.
Proof. intros. reflexivity. Qed.

Print Assumptions gen_normalize_skipped_eq.
Print Assumptions gen_normalize_apply_eq.
Print Assumptions gen_normalize_is_model.
Print Assumptions gen_unnormalize_eq.
Print Assumptions gen_unnormalize_resets_value.
Print Assumptions gen_normalize_unnormalize_roundtrip.
Print Assumptions gen_radius_has_no_aperture_iff.
Print Assumptions gen_photometry_one_none.
Print Assumptions gen_photometry_one_some.
Print Assumptions gen_photometry_one_none_is_AZero.
Print Assumptions injZ_neq0.
Print Assumptions gen_radial_profile_elem_eq.
Print Assumptions gen_radial_profile_error_elem_eq.
Print Assumptions gen_radial_profile_error_no_error.
