(* C15 — results do not depend on how the same numbers are represented.

   Executable models (no proofs here) of
   1. photutils.utils._quantity_helpers.process_quantities
      (decision logic over a list of optional units; mirrors the code: length test,
      dict name -> unit over the non-None inputs, set of the dict values, raise when
      the set has more than one element, set.pop(), strip `.value` when a unit is present);
   2. numpy's result-type / loop-dtype selection for the binary ufuncs photutils
      applies to its inputs (add, subtract, multiply, true_divide, power, maximum/minimum)
      on the dtypes {bool, int8, uint16, int16, int32, int64, float32, float64}, including
      NEP-50 weak Python scalars, and the `same_kind` casting rule that decides whether
      an in-place ufunc call (`a op= b`, `np.op(a, b, out=a)`) succeeds;
   3. the `dtype.str[1:] == 'f8'` dispatch of photutils/utils/_stats.py;
   4. a small straight-line IR of array operations on tagged arrays (alias / copy / astype /
      conditional astype / Quantity conversion / binary op / in-place op / item assignment
      of NaN, constants, arrays / float-valued ufunc / dtype-preserving library kernel),
      its concrete semantics over an arbitrary value domain V (section variables for the
      arithmetic), and the dtype-only analysis obtained by running the same machine on
      V := unit.  The harness extracts IR programs from the CURRENT source of the anchored
      photutils functions (fail-closed `ast` walker) and asks Coq whether the analysis
      accepts them for every allowed combination of input dtypes. *)
From Coq Require Import ZArith List Bool Arith Lia.
From PV Require Import lib.Cases.
Import ListNotations.

(* ====================================================================== *)
(** * 1. process_quantities                                                *)
(* ====================================================================== *)
Definition unit_id := Z.
Definition ounit := option unit_id.            (* getattr(arr, 'unit', None) *)
(* an input: Python None, or an array with payload identifier v and unit attribute u *)
Definition arg := option (Z * ounit).

Definition ounit_eqb (a b : ounit) : bool :=
  match a, b with
  | None, None => true
  | Some x, Some y => Z.eqb x y
  | _, _ => false
  end.

(* Python dict (insertion ordered); assigning an existing key replaces its value *)
Fixpoint dict_set (k : Z) (u : ounit) (d : list (Z * ounit)) : list (Z * ounit) :=
  match d with
  | [] => [(k, u)]
  | (k', u') :: r => if Z.eqb k k' then (k, u) :: r else (k', u') :: dict_set k u r
  end.

(* all_units = {name: getattr(arr, 'unit', None) for arr, name in zip(values, names)
                if arr is not None} *)
Fixpoint build_units (values : list arg) (names : list Z) (d : list (Z * ounit))
  : list (Z * ounit) :=
  match values, names with
  | v :: vs, n :: ns =>
      build_units vs ns (match v with Some (_, u) => dict_set n u d | None => d end)
  | _, _ => d
  end.

(* set(...) : the distinct elements *)
Fixpoint py_set (l : list ounit) : list ounit :=
  match l with
  | [] => []
  | x :: r => if existsb (ounit_eqb x) r then py_set r else x :: py_set r
  end.

Inductive pq_res :=
  | PQ_LenError                       (* ValueError: number of values != number of names *)
  | PQ_Mixed                          (* ValueError: inputs must all have the same units *)
  | PQ_KeyError                       (* set().pop() when every input is None *)
  | PQ_Ok (vals : list arg) (u : ounit).

Definition strip (a : arg) : arg :=          (* val.value if val is not None else val *)
  match a with Some (v, _) => Some (v, None) | None => None end.

Definition process_quantities (values : list arg) (names : list Z) : pq_res :=
  if negb (Nat.eqb (length values) (length names)) then PQ_LenError else
  match py_set (map snd (build_units values names [])) with
  | [] => PQ_KeyError
  | [u] => match u with
           | None => PQ_Ok values None
           | Some _ => PQ_Ok (map strip values) u
           end
  | _ :: _ :: _ => PQ_Mixed
  end.

(* ====================================================================== *)
(** * 2. dtypes, promotion, loop dtype, same_kind casting                   *)
(* ====================================================================== *)
Inductive dt := DBool | DI8 | DU16 | DI16 | DI32 | DI64 | DF16 | DF32 | DF64.

Definition all_dt : list dt := [DBool; DI8; DU16; DI16; DI32; DI64; DF16; DF32; DF64].

Definition dt_eqb (a b : dt) : bool :=
  match a, b with
  | DBool, DBool | DI8, DI8 | DU16, DU16 | DI16, DI16 | DI32, DI32 | DI64, DI64
  | DF16, DF16 | DF32, DF32 | DF64, DF64 => true
  | _, _ => false
  end.

Definition is_float (d : dt) : bool := match d with DF16 | DF32 | DF64 => true | _ => false end.
Definition is_bool (d : dt) : bool := match d with DBool => true | _ => false end.
(* np.issubdtype(d, np.integer): bool is NOT an integer *)
Definition is_integer (d : dt) : bool :=
  match d with DI8 | DU16 | DI16 | DI32 | DI64 => true | _ => false end.

(* numpy kind order used by 'same_kind': b < u < i < f *)
Definition kind_rank (d : dt) : nat :=
  match d with
  | DBool => 0
  | DU16 => 1
  | DI8 | DI16 | DI32 | DI64 => 2
  | DF16 | DF32 | DF64 => 3
  end.

(* np.promote_types / np.result_type on arrays *)
Definition promote (a b : dt) : dt :=
  match a, b with
  | DBool, x | x, DBool => x
  | DF64, _ | _, DF64 => DF64
  | DF32, DI32 | DF32, DI64 | DI32, DF32 | DI64, DF32 => DF64
  | DF32, _ | _, DF32 => DF32
  | DF16, DI8 | DI8, DF16 | DF16, DF16 => DF16
  | DF16, DU16 | DF16, DI16 | DU16, DF16 | DI16, DF16 => DF32
  | DF16, _ | _, DF16 => DF64
  | DI64, _ | _, DI64 => DI64
  | DI32, _ | _, DI32 => DI32
  | DU16, DU16 => DU16
  | DU16, _ | _, DU16 => DI32
  | DI16, _ | _, DI16 => DI16
  | DI8, DI8 => DI8
  end.

(* the order induced by promotion (safe casting on this dtype set) *)
Definition dle (a b : dt) : bool := dt_eqb (promote a b) b.

(* operand dtype: an array (strong) or a Python scalar (weak, NEP 50) *)
Inductive odt := Strong (t : dt) | WeakBool | WeakInt | WeakFloat.

Definition result_type (a b : odt) : dt :=
  match a, b with
  | Strong x, Strong y => promote x y
  | Strong x, WeakBool | WeakBool, Strong x => x
  | Strong x, WeakInt | WeakInt, Strong x => if is_bool x then DI64 else x
  | Strong x, WeakFloat | WeakFloat, Strong x => if is_float x then x else DF64
  | WeakFloat, _ | _, WeakFloat => DF64
  | WeakInt, _ | _, WeakInt => DI64
  | WeakBool, WeakBool => DBool
  end.

Inductive binop := Add | Sub | Mul | TrueDiv | Pow | MaxMin.

(* dtype of the ufunc inner loop (= dtype of a freshly allocated result);
   None = TypeError, no loop (numpy boolean subtract) *)
Definition loop_dtype (op : binop) (a b : odt) : option dt :=
  let p := result_type a b in
  match op with
  | TrueDiv => Some (if is_float p then p else DF64)
  | Sub => if is_bool p then None else Some p
  | Pow => Some (if is_bool p then DI8 else p)
      (* np.power; note that the operator form `x ** 2` is np.square, which differs from
         np.power only on bool arrays (int8 instead of int64) *)
  | Add | Mul | MaxMin => Some p
  end.

(* can_cast(from, to, casting='same_kind') on this dtype set *)
Definition same_kind (from to : dt) : bool := kind_rank from <=? kind_rank to.

Inductive ip_res := IP_Ok | IP_CastError | IP_NoLoop.

(* a op= b   /   np.op(a, b, out=a) *)
Definition inplace (op : binop) (tgt : dt) (b : odt) : ip_res :=
  match loop_dtype op (Strong tgt) b with
  | None => IP_NoLoop
  | Some L => if same_kind L tgt then IP_Ok else IP_CastError
  end.

(* ====================================================================== *)
(** * 3. photutils/utils/_stats.py : dtype.str[1:] == 'f8'                  *)
(* ====================================================================== *)
Inductive byteorder := LittleE | BigE | NotApplicable.      (* '<', '>', '|' *)
Inductive kindchar := Kb | Ki | Ku | Kf.
Record dtype_str := { bo : byteorder; kc : kindchar; isz : nat }.  (* e.g. '<f8' *)

Definition kindchar_eqb (a b : kindchar) : bool :=
  match a, b with Kb, Kb | Ki, Ki | Ku, Ku | Kf, Kf => true | _, _ => false end.

Inductive backend := Bottleneck | Numpy.
(* `if args[0].dtype.str[1:] == 'f8'`: the first character (byte order) is dropped *)
Definition dtype_dispatch (s : dtype_str) : backend :=
  if kindchar_eqb (kc s) Kf && Nat.eqb (isz s) 8 then Bottleneck else Numpy.

Definition dtype_str_of (d : dt) (big : bool) : dtype_str :=
  let o := if big then BigE else LittleE in
  match d with
  | DBool => {| bo := NotApplicable; kc := Kb; isz := 1 |}
  | DI8 => {| bo := NotApplicable; kc := Ki; isz := 1 |}
  | DU16 => {| bo := o; kc := Ku; isz := 2 |}
  | DI16 => {| bo := o; kc := Ki; isz := 2 |}
  | DI32 => {| bo := o; kc := Ki; isz := 4 |}
  | DI64 => {| bo := o; kc := Ki; isz := 8 |}
  | DF16 => {| bo := o; kc := Kf; isz := 2 |}
  | DF32 => {| bo := o; kc := Kf; isz := 4 |}
  | DF64 => {| bo := o; kc := Kf; isz := 8 |}
  end.

(* ====================================================================== *)
(** * 4. straight-line array programs                                       *)
(* ====================================================================== *)
Definition var := nat.
Definition loc := nat.

Inductive operand :=
  | OVar (v : var)          (* a tracked array *)
  | OArr (t : dt)           (* an untracked array of known dtype (weights, masks, ...) *)
  | OPyBool | OPyInt | OPyFloat.   (* Python scalars *)

Inductive dpred := PIsInteger | PKindNotF.
(* np.issubdtype(x.dtype, np.integer)   /   x.dtype.kind != 'f' *)
Definition dpred_holds (p : dpred) (d : dt) : bool :=
  match p with PIsInteger => is_integer d | PKindNotF => negb (is_float d) end.

Inductive instr :=
  | IAlias (dst src : var)               (* np.asanyarray(x), x.value, x[slice], reshape: same buffer *)
  | ICopy (dst src : var)                (* x.copy(), np.array(x), x[bool_mask] *)
  | IAsType (dst src : var) (t : dt)     (* x.astype(t), np.asarray(x, dtype=t) : new buffer *)
  | ICondAsType (p : dpred) (x : var) (t : dt)   (* if p(x.dtype): x = x.astype(t) *)
  | IQuantity (dst src : var)            (* x << unit, u.Quantity(x): integers -> float64 copy;
                                            float (and bool) arrays are viewed *)
  | IBin (dst : var) (op : binop) (a b : operand)     (* dst = a op b *)
  | IInplace (op : binop) (tgt : var) (b : operand)   (* tgt op= b ; tgt[idx] op= b ; np.op(tgt,b,out=tgt) *)
  | ISetNaN (tgt : var)                  (* tgt[idx] = np.nan *)
  | ISetConst (tgt : var) (integral : bool)  (* tgt[idx] = Python number *)
  | ISetFrom (tgt : var) (src : operand)     (* tgt[idx] = array   (unsafe cast) *)
  | IFloatFun (dst src : var)            (* np.sqrt & co: float-valued unary ufunc *)
  | IReduce (src : var)                  (* np.sum / np.mean / nansum / ... (also the methods): the
                                            accumulator has the dtype of a float input (integers are
                                            widened to int64 / float64): a float16/float32 input is
                                            accumulated in float16/float32.  The scalar result is not
                                            tracked further *)
  | IKernel (dst src : var).             (* library routine returning real-valued results in
                                            the dtype of its input (ndimage.convolve,
                                            map_coordinates without output=) *)

Definition prog := list instr.

Inductive err := ECast | ENoLoop | ENaNToInt.

Inductive result (S : Type) := ROk (s : S) | RRaise (e : err) | RStuck.
Arguments ROk {S} s.
Arguments RRaise {S} e.
Arguments RStuck {S}.

Fixpoint lookup {A} (k : nat) (l : list (nat * A)) : option A :=
  match l with
  | [] => None
  | (k', x) :: r => if Nat.eqb k k' then Some x else lookup k r
  end.

Definition arith (op : binop) : bool :=
  match op with Add | Sub | Mul | Pow => true | TrueDiv | MaxMin => false end.

Section Machine.
  Variable V : Type.
  Variable fop : binop -> V -> V -> V.   (* the exact (real-number) result of the operation *)
  Variable wrap : dt -> V -> V.          (* what survives of a result computed in a dtype *)
  Variable cast : dt -> dt -> V -> V.    (* numpy's unsafe cast *)
  Variable ffun kfun : V -> V.
  Variable vnan : V.
  Variable oval : nat -> V.              (* value of the untracked operand used at step pc *)

  Record cell := { cdt : dt; cval : V }.
  Record state := { env : list (var * loc); heap : list (loc * cell);
                    next : loc; pc : nat; hz : nat; taint : list loc }.
  (* hz counts value hazards: arithmetic (add, subtract, multiply, power) carried out in any dtype other than float64
     (integers wrap; float16/float32 products and squares leave their range for values that
     are perfectly representable, so the result would depend on the input dtype),
     lossy stores into a non-float buffer, and stores into a `tainted` buffer.
     A buffer is tainted when a variable stays bound to it only because of the dtype
     (`if int: x = x.astype(float)` not taken; `x << unit` on a float array is a view):
     under another representation the variable would own a fresh copy, so writing through
     it would modify other arrays for some representations only. *)

  Definition get (s : state) (v : var) : option (loc * cell) :=
    match lookup v (env s) with
    | Some l => match lookup l (heap s) with Some c => Some (l, c) | None => None end
    | None => None
    end.

  Definition bump (b : bool) (s : state) : state :=
    {| env := env s; heap := heap s; next := next s; pc := pc s;
       hz := if b then S (hz s) else hz s; taint := taint s |}.
  Definition tick (s : state) : state :=
    {| env := env s; heap := heap s; next := next s; pc := S (pc s); hz := hz s;
       taint := taint s |}.
  (* bind dst to a fresh buffer holding c *)
  Definition alloc (dst : var) (c : cell) (s : state) : state :=
    {| env := (dst, next s) :: env s; heap := (next s, c) :: heap s;
       next := S (next s); pc := pc s; hz := hz s; taint := taint s |}.
  Definition bind (dst : var) (l : loc) (s : state) : state :=
    {| env := (dst, l) :: env s; heap := heap s; next := next s; pc := pc s; hz := hz s;
       taint := taint s |}.
  Definition tainted (l : loc) (s : state) : bool := existsb (Nat.eqb l) (taint s).
  Definition mark (l : loc) (s : state) : state :=
    {| env := env s; heap := heap s; next := next s; pc := pc s; hz := hz s;
       taint := l :: taint s |}.
  (* write c into buffer l (a hazard when l is tainted) *)
  Definition store (l : loc) (c : cell) (s : state) : state :=
    {| env := env s; heap := (l, c) :: heap s; next := next s; pc := pc s;
       hz := if tainted l s then S (hz s) else hz s; taint := taint s |}.

  (* dtype and value of an operand *)
  Definition operand_of (s : state) (o : operand) : option (odt * V) :=
    match o with
    | OVar v => match get s v with Some (_, c) => Some (Strong (cdt c), cval c) | None => None end
    | OArr t => Some (Strong t, oval (pc s))
    | OPyBool => Some (WeakBool, oval (pc s))
    | OPyInt => Some (WeakInt, oval (pc s))
    | OPyFloat => Some (WeakFloat, oval (pc s))
    end.

  Definition binval (op : binop) (L : dt) (x y : V) : V :=
    match op with MaxMin => fop MaxMin x y | _ => wrap L (fop op x y) end.

  (* result dtype of a float-valued unary ufunc (np.sqrt): the smallest float type that
     holds the input type *)
  Definition floatify (d : dt) : dt :=
    match d with
    | DBool | DI8 => DF16
    | DU16 | DI16 => DF32
    | DI32 | DI64 => DF64
    | DF16 | DF32 | DF64 => d
    end.

  Definition exec (i : instr) (s : state) : result state :=
    match i with
    | IAlias dst src =>
        match get s src with Some (l, _) => ROk (bind dst l s) | None => RStuck end
    | ICopy dst src =>
        match get s src with Some (_, c) => ROk (alloc dst c s) | None => RStuck end
    | IAsType dst src t =>
        match get s src with
        | Some (_, c) =>
            ROk (alloc dst {| cdt := t; cval := cast (cdt c) t (cval c) |}
                   (bump (negb (is_float t) && negb (dt_eqb (cdt c) t)) s))
        | None => RStuck
        end
    | ICondAsType p x t =>
        match get s x with
        | Some (l, c) =>
            if dpred_holds p (cdt c) then
              ROk (alloc x {| cdt := t; cval := cast (cdt c) t (cval c) |}
                     (bump (negb (is_float t) && negb (dt_eqb (cdt c) t)) s))
            else ROk (bind x l (mark l s))
        | None => RStuck
        end
    | IQuantity dst src =>
        match get s src with
        | Some (l, c) =>
            if is_float (cdt c) || is_bool (cdt c) then ROk (bind dst l (mark l s))
            else ROk (alloc dst {| cdt := DF64; cval := cast (cdt c) DF64 (cval c) |} s)
        | None => RStuck
        end
    | IBin dst op a b =>
        match operand_of s a, operand_of s b with
        | Some (da, xa), Some (db, xb) =>
            match loop_dtype op da db with
            | None => RRaise ENoLoop
            | Some L =>
                ROk (alloc dst {| cdt := L; cval := binval op L xa xb |}
                       (bump (arith op && negb (dt_eqb L DF64)) s))
            end
        | _, _ => RStuck
        end
    | IInplace op tgt b =>
        match get s tgt, operand_of s b with
        | Some (l, c), Some (db, xb) =>
            match loop_dtype op (Strong (cdt c)) db with
            | None => RRaise ENoLoop
            | Some L =>
                if same_kind L (cdt c) then
                  ROk (store l {| cdt := cdt c; cval := cast L (cdt c) (binval op L (cval c) xb) |}
                         (bump ((arith op && negb (dt_eqb L DF64))
                                || (negb (is_float (cdt c)) && negb (dt_eqb L (cdt c)))) s))
                else RRaise ECast
            end
        | _, _ => RStuck
        end
    | ISetNaN tgt =>
        match get s tgt with
        | Some (l, c) =>
            if is_float (cdt c) || is_bool (cdt c)     (* NaN -> True in a bool array: no error *)
            then ROk (store l {| cdt := cdt c; cval := vnan |} (bump (is_bool (cdt c)) s))
            else RRaise ENaNToInt
        | None => RStuck
        end
    | ISetConst tgt integral =>
        match get s tgt with
        | Some (l, c) =>
            ROk (store l {| cdt := cdt c;
                            cval := if integral then oval (pc s) else cast DF64 (cdt c) (oval (pc s)) |}
                   (bump (negb integral && negb (is_float (cdt c))) s))
        | None => RStuck
        end
    | ISetFrom tgt src =>
        match get s tgt, operand_of s src with
        | Some (l, c), Some (ds, xs) =>
            let d := match ds with Strong d => d | WeakBool => DBool | WeakInt => DI64
                                 | WeakFloat => DF64 end in
            ROk (store l {| cdt := cdt c; cval := cast d (cdt c) xs |}
                   (bump (negb (is_float (cdt c)) && negb (dt_eqb d (cdt c))) s))
        | _, _ => RStuck
        end
    | IFloatFun dst src =>
        match get s src with
        | Some (_, c) => ROk (alloc dst {| cdt := floatify (cdt c); cval := ffun (cval c) |} s)
        | None => RStuck
        end
    | IReduce src =>
        match get s src with
        | Some (_, c) => ROk (bump (is_float (cdt c) && negb (dt_eqb (cdt c) DF64)) s)
        | None => RStuck
        end
    | IKernel dst src =>
        match get s src with
        | Some (_, c) =>
            ROk (alloc dst {| cdt := cdt c; cval := wrap (cdt c) (kfun (cval c)) |}
                   (bump (negb (is_float (cdt c))) s))
        | None => RStuck
        end
    end.

  Definition step (i : instr) (s : state) : result state :=
    match exec i s with ROk s' => ROk (tick s') | r => r end.

  Fixpoint run (p : prog) (s : state) : result state :=
    match p with
    | [] => ROk s
    | i :: r => match step i s with ROk s' => run r s' | e => e end
    end.

  (* inputs: variable k is bound to buffer k holding (dtype, value) *)
  Fixpoint init_from (k : nat) (ins : list (dt * V)) : list (var * loc) * list (loc * cell) :=
    match ins with
    | [] => ([], [])
    | (d, v) :: r =>
        let '(e, h) := init_from (S k) r in
        ((k, k) :: e, (k, {| cdt := d; cval := v |}) :: h)
    end.
  Definition init (ins : list (dt * V)) : state :=
    let '(e, h) := init_from 0 ins in
    {| env := e; heap := h; next := length ins; pc := 0; hz := 0; taint := [] |}.

  Definition safe_result (r : result state) : bool :=
    match r with ROk s => Nat.eqb (hz s) 0 | _ => false end.
End Machine.

Arguments cdt {V} c.
Arguments cval {V} c.
Arguments env {V} s.
Arguments heap {V} s.
Arguments next {V} s.
Arguments pc {V} s.
Arguments hz {V} s.
Arguments taint {V} s.

(* ---------- the analysis = the same machine on V := unit (dtypes only) ---------- *)
Definition u_fop (_ : binop) (_ _ : unit) := tt.
Definition u_wrap (_ : dt) (_ : unit) := tt.
Definition u_cast (_ _ : dt) (_ : unit) := tt.
Definition u_fun (_ : unit) := tt.
Definition u_oval (_ : nat) := tt.

Definition arun (p : prog) (tags : list dt) : result (state unit) :=
  run unit u_fop u_wrap u_cast u_fun u_fun tt u_oval p (init unit (map (fun d => (d, tt)) tags)).

(* accepts p tags: from input dtypes `tags` no step raises, none is stuck, no value hazard *)
Definition accepts (p : prog) (tags : list dt) : bool := safe_result unit (arun p tags).

(* all n-tuples over `allowed` *)
Fixpoint tuples (n : nat) (allowed : list dt) : list (list dt) :=
  match n with
  | 0 => [[]]
  | S m => flat_map (fun t => map (cons t) (tuples m allowed)) allowed
  end.

Definition analyze (p : prog) (ninputs : nat) (allowed : list dt) : bool :=
  forallb (accepts p) (tuples ninputs allowed).

(* inputs with individual sets of possible dtypes (an input produced by another analysed function
   has the dtype that function returns; masks are bool; geometric weights are float64) *)
Fixpoint product (sets : list (list dt)) : list (list dt) :=
  match sets with
  | [] => [[]]
  | s :: r => flat_map (fun t => map (cons t) (product r)) s
  end.
Definition analyze_typed (p : prog) (sets : list (list dt)) : bool :=
  forallb (accepts p) (product sets).

(* the dtype variable v ends with, according to the analysis *)
Definition result_dtype (p : prog) (tags : list dt) (v : var) : option dt :=
  match arun p tags with
  | ROk s => match get unit s v with Some (_, c) => Some (cdt c) | None => None end
  | _ => None
  end.
Definition returns_dtype (p : prog) (sets : list (list dt)) (v : var) (d : dt) : bool :=
  forallb (fun tags => accepts p tags && opt_eqb dt_eqb (result_dtype p tags v) (Some d)) (product sets).

(* the dtypes the property lists for an input array (float64 reference, float32,
   int16/int64; uint16 and int32 (FITS BITPIX 32, big-endian) ride along) *)
Definition allowed_inputs : list dt := [DF64; DF32; DI16; DI64; DU16; DI32].

(* what the analysis says happens (for the harness: comparison with real numpy) *)
Inductive outcome := OOk (hazards : nat) (dtypes : list (option dt)) | ORaise (e : err) | OStuck.
Definition outcome_of (nvars : nat) (r : result (state unit)) : outcome :=
  match r with
  | ROk s => OOk (hz s) (map (fun v => match get unit s v with Some (_, c) => Some (cdt c) | None => None end)
                          (seq 0 nvars))
  | RRaise e => ORaise e
  | RStuck => OStuck
  end.

(* ====================================================================== *)
(** * 5. correspondence cases                                               *)
(* ====================================================================== *)
Definition odt_eqb (a b : odt) : bool :=
  match a, b with
  | Strong x, Strong y => dt_eqb x y
  | WeakBool, WeakBool | WeakInt, WeakInt | WeakFloat, WeakFloat => true
  | _, _ => false
  end.
Definition odt_opt_eqb := opt_eqb dt_eqb.
Definition ip_res_eqb (a b : ip_res) : bool :=
  match a, b with
  | IP_Ok, IP_Ok | IP_CastError, IP_CastError | IP_NoLoop, IP_NoLoop => true
  | _, _ => false
  end.
Definition err_eqb (a b : err) : bool :=
  match a, b with ECast, ECast | ENoLoop, ENoLoop | ENaNToInt, ENaNToInt => true | _, _ => false end.
Definition backend_eqb (a b : backend) : bool :=
  match a, b with Bottleneck, Bottleneck | Numpy, Numpy => true | _, _ => false end.
Definition arg_eqb (a b : arg) : bool :=
  opt_eqb (fun x y => Z.eqb (fst x) (fst y) && ounit_eqb (snd x) (snd y)) a b.
Definition pq_res_eqb (a b : pq_res) : bool :=
  match a, b with
  | PQ_LenError, PQ_LenError | PQ_Mixed, PQ_Mixed | PQ_KeyError, PQ_KeyError => true
  | PQ_Ok v u, PQ_Ok v' u' => list_eqb arg_eqb v v' && ounit_eqb u u'
  | _, _ => false
  end.
Definition outcome_eqb (a b : outcome) : bool :=
  match a, b with
  | OOk _ d, OOk _ d' => list_eqb odt_opt_eqb d d'
  | ORaise e, ORaise e' => err_eqb e e'
  | OStuck, OStuck => true
  | _, _ => false
  end.

Inductive case :=
  | CLoop (op : binop) (a b : odt) (expected : option dt)        (* dtype of `a op b` in numpy *)
  | CInplace (op : binop) (tgt : dt) (b : odt) (expected : ip_res)  (* what `a op= b` did *)
  | CCanCast (from to : dt) (expected : bool)                    (* np.can_cast(.., 'same_kind') *)
  | CPromote (a b expected : dt)                                 (* np.promote_types *)
  | CDispatch (d : dt) (big : bool) (s : dtype_str) (expected : backend)
      (* s = the real dtype.str; expected = which branch _dtype_dispatch took *)
  | CPQ (values : list arg) (names : list Z) (expected : pq_res)
  | CRun (p : prog) (tags : list dt) (nvars : nat) (expected : outcome)
      (* the IR program interpreted on real numpy arrays: exception kind / final dtypes
         (the hazard count of `expected` is not observable and is ignored) *)
  | CIndep (p : prog) (tags : list dt) (same : bool)
      (* same = the numpy run from dtypes `tags` ended with the same values as the all-float64
         run; must be true whenever the analysis accepts both *)
  | CReduce (d : dt) (narrow : bool)
      (* narrow = np.sum / np.mean of an array of dtype d returned a float16/float32 scalar *)
  | CObligation (p : prog) (ninputs : nat)                       (* per-run obligation *)
  | CObligationT (p : prog) (sets : list (list dt))              (* ... with per-input dtype sets *)
  | CReturns (p : prog) (sets : list (list dt)) (v : var) (d : dt).
      (* per-run obligation: accepted, and variable v (the returned array) always has dtype d *)

Definition dtype_str_eqb (a b : dtype_str) : bool :=
  match bo a, bo b with
  | LittleE, LittleE | BigE, BigE | NotApplicable, NotApplicable => true
  | _, _ => false
  end && kindchar_eqb (kc a) (kc b) && Nat.eqb (isz a) (isz b).

Definition check_case (c : case) : bool :=
  match c with
  | CLoop op a b e => odt_opt_eqb (loop_dtype op a b) e
  | CInplace op t b e => ip_res_eqb (inplace op t b) e
  | CCanCast f t e => Bool.eqb (same_kind f t) e
  | CPromote a b e => dt_eqb (promote a b) e
  | CDispatch d big s e => dtype_str_eqb (dtype_str_of d big) s && backend_eqb (dtype_dispatch s) e
  | CPQ v n e => pq_res_eqb (process_quantities v n) e
  | CRun p tags nv e => outcome_eqb (outcome_of nv (arun p tags)) e
  | CIndep p tags same =>
      implb (accepts p tags && accepts p (map (fun _ => DF64) tags)) same
  | CReduce d narrow => Bool.eqb (negb (accepts [IReduce 0] [d])) narrow
  | CObligation p n => analyze p n allowed_inputs
  | CObligationT p sets => analyze_typed p sets
  | CReturns p sets v d => returns_dtype p sets v d
  end.

Inductive model_answer :=
  | MLoop (r : option dt) | MInplace (r : ip_res) | MBool (b : bool) | MDt (d : dt)
  | MDispatch (s : dtype_str) (b : backend) | MPQ (r : pq_res) | MRun (o : outcome)
  | MRejected (tags : list (list dt)).
Definition model_out (c : case) : model_answer :=
  match c with
  | CLoop op a b _ => MLoop (loop_dtype op a b)
  | CInplace op t b _ => MInplace (inplace op t b)
  | CCanCast f t _ => MBool (same_kind f t)
  | CPromote a b _ => MDt (promote a b)
  | CDispatch d big _ _ => MDispatch (dtype_str_of d big) (dtype_dispatch (dtype_str_of d big))
  | CPQ v n _ => MPQ (process_quantities v n)
  | CRun p tags nv _ => MRun (outcome_of nv (arun p tags))
  | CIndep p tags _ => MBool (accepts p tags && accepts p (map (fun _ => DF64) tags))
  | CReduce d _ => MBool (negb (accepts [IReduce 0] [d]))
  | CObligation p n => MRejected (filter (fun t => negb (accepts p t)) (tuples n allowed_inputs))
  | CObligationT p sets => MRejected (filter (fun t => negb (accepts p t)) (product sets))
  | CReturns p sets v d =>
      MRejected (filter (fun t => negb (accepts p t && opt_eqb dt_eqb (result_dtype p t v) (Some d)))
                        (product sets))
  end.
