(* C17M -- a centre of mass lies in the box (stretch theorems supporting C17 "centroid_com = weighted
   mean" and C14 "the centroid lies within the kernel of a detected peak" for the image-moment
   centroids of StarFinder / IRAFStarFinder).
   Property theorems only; each is closed by [exact] of a lemma of C17M_Proofs.  All of them are over
   Z / Q / nat and print "Closed under the global context".

   Vocabulary.  A weighted point set is a list of (coordinate, weight) pairs; [wtot] = sum w,
   [wmom] = sum x*w, [cminZ]/[cmaxZ] = least / greatest coordinate ([wtotQ], [wmomQ], [cminQ], [cmaxQ]
   over Q).  [zfrac a b] = a / b as a rational.
   C17_Model.com returns [ComAt xn yn t], meaning the point (xn / t, yn / t), exact integer sums
   (C17_Properties.com_is_weighted_mean).  [rect ny nx im]: ny rows of nx pixels; [pixd]/[pixm]/[weight]
   as in C17_Proofs.  [nonneg_pixels data mask ny nx]: every unmasked finite pixel value is >= 0.
   [clip0 a] = a with negatives set to 0; [moment_centroid a] = (M01/M00, M10/M00) of [clip0 a]
   (photutils.utils._moments._moments(arr, 1) as used by StarFinder.cutout_centroid and
   IRAFStarFinder.cutout_centroid; [ComNaN] for M00 = 0); [add_origin x0 y0] adds the cutout origin
   (bbox_xmin / cutout_xorigin); [crop y0 y1 x0 x1 im] = im[y0:y1, x0:x1]; [axis_slices] is
   astropy.nddata.overlap_slices on one axis (C17_Model).

   Not covered here: float rounding of the two divisions and of the origin addition (the statements
   are about the exact quotients), and that the cutout handed to the moments is centred on a DETECTED
   peak (that is C14's find_peaks / _find_stars part). *)
From Coq Require Import List ZArith QArith Qminmax Bool Lia.
From PV Require Import lib.Cases C17_Model C17_Proofs C17M_Proofs.
Import ListNotations.
Open Scope Z_scope.

(* ================================================================== *)
(* B1  the weighted mean lies in the hull of the coordinates            *)
(* ================================================================== *)
(* cross-multiplied, no division, no positivity of the total needed: any bounds valid on the entries
   of POSITIVE weight bound the first moment *)
Theorem weighted_mean_bounds : forall (l : list (Z * Z)) lo hi,
  (forall p, In p l -> 0 <= snd p) ->
  (forall p, In p l -> 0 < snd p -> lo <= fst p <= hi) ->
  lo * wtot l <= wmom l <= hi * wtot l.
Proof. exact weighted_mean_bounds_Z. Qed.
Print Assumptions weighted_mean_bounds.

(* non-empty list, weights >= 0, positive total: min <= sum w*x / sum w <= max *)
Theorem weighted_mean_in_hull : forall l : list (Z * Z),
  l <> [] -> (forall p, In p l -> 0 <= snd p) -> 0 < wtot l ->
  (cminZ l * wtot l <= wmom l <= cmaxZ l * wtot l) /\
  (inject_Z (cminZ l) <= zfrac (wmom l) (wtot l) <= inject_Z (cmaxZ l))%Q.
Proof. exact weighted_mean_in_hull_Z. Qed.
Print Assumptions weighted_mean_in_hull.

(* [cminZ]/[cmaxZ] really are the extreme coordinates: bounds that are attained *)
Theorem hull_is_min_max : forall l : list (Z * Z),
  (forall p, In p l -> cminZ l <= fst p <= cmaxZ l) /\
  (l <> [] -> (exists p, In p l /\ fst p = cminZ l) /\ (exists p, In p l /\ fst p = cmaxZ l)).
Proof. exact hull_min_max_Z. Qed.
Print Assumptions hull_is_min_max.

(* strict on a side as soon as one entry of positive weight is strictly off that side *)
Theorem weighted_mean_strict : forall (l : list (Z * Z)) lo hi,
  (forall p, In p l -> 0 <= snd p) ->
  (forall p, In p l -> 0 < snd p -> lo <= fst p <= hi) ->
  ((exists p, In p l /\ 0 < snd p /\ lo < fst p) -> lo * wtot l < wmom l) /\
  ((exists p, In p l /\ 0 < snd p /\ fst p < hi) -> wmom l < hi * wtot l).
Proof. exact weighted_mean_strict_Z. Qed.
Print Assumptions weighted_mean_strict.

(* the same over rational coordinates and weights, with Qdiv *)
Theorem weighted_mean_bounds_rational : forall (l : list (Q * Q)) lo hi,
  (forall p, In p l -> (0 <= snd p)%Q) ->
  (forall p, In p l -> (0 < snd p)%Q -> (lo <= fst p <= hi)%Q) ->
  (lo * wtotQ l <= wmomQ l <= hi * wtotQ l)%Q.
Proof. exact weighted_mean_bounds_Q. Qed.
Print Assumptions weighted_mean_bounds_rational.

Theorem weighted_mean_in_hull_rational : forall l : list (Q * Q),
  l <> [] -> (forall p, In p l -> (0 <= snd p)%Q) -> (0 < wtotQ l)%Q ->
  (cminQ l * wtotQ l <= wmomQ l <= cmaxQ l * wtotQ l)%Q /\
  (cminQ l <= wmomQ l / wtotQ l <= cmaxQ l)%Q.
Proof. exact weighted_mean_in_hull_Q. Qed.
Print Assumptions weighted_mean_in_hull_rational.

Theorem hull_is_min_max_rational : forall l : list (Q * Q),
  (forall p, In p l -> (cminQ l <= fst p <= cmaxQ l)%Q) /\
  (l <> [] -> (exists p, In p l /\ (fst p == cminQ l)%Q) /\ (exists p, In p l /\ (fst p == cmaxQ l)%Q)).
Proof. exact hull_min_max_Q. Qed.
Print Assumptions hull_is_min_max_rational.

Theorem weighted_mean_strict_rational : forall (l : list (Q * Q)) lo hi,
  (forall p, In p l -> (0 <= snd p)%Q) ->
  (forall p, In p l -> (0 < snd p)%Q -> (lo <= fst p <= hi)%Q) ->
  ((exists p, In p l /\ (0 < snd p)%Q /\ (lo < fst p)%Q) -> (lo * wtotQ l < wmomQ l)%Q) /\
  ((exists p, In p l /\ (0 < snd p)%Q /\ (fst p < hi)%Q) -> (wmomQ l < hi * wtotQ l)%Q).
Proof. exact weighted_mean_strict_Q. Qed.
Print Assumptions weighted_mean_strict_rational.

(* ================================================================== *)
(* B2  centroid_com of non-negative data lies in the array               *)
(* ================================================================== *)
(* the image pixels as a weighted point set: the sums of com_is_weighted_mean are the [wtot]/[wmom]
   of [pixpts]; this is what instantiates B1 *)
Theorem com_sums_are_point_set_sums : forall ny nx (c w : nat -> nat -> Z),
  wtot (pixpts ny nx c w) = sum2 ny nx w /\
  wmom (pixpts ny nx c w) = sum2 ny nx (fun y x => c y x * w y x) /\
  forall p, In p (pixpts ny nx c w) <-> exists y x, (y < ny)%nat /\ (x < nx)%nat /\ p = (c y x, w y x).
Proof. exact pixpts_spec. Qed.
Print Assumptions com_sums_are_point_set_sums.

(* all unmasked finite pixels >= 0 and a centroid is returned (i.e. their total is non-zero): the
   total is > 0 and the centroid lies in the pixel-index box [0, nx-1] x [0, ny-1] *)
Theorem com_nonneg_in_array_box : forall data mask ny nx xn yn t,
  rect ny nx data -> mask_rect ny nx mask -> nonneg_pixels data mask ny nx ->
  com data mask = ComAt xn yn t ->
  0 < t /\ 0 <= xn <= (Z.of_nat nx - 1) * t /\ 0 <= yn <= (Z.of_nat ny - 1) * t.
Proof. exact com_in_array_box. Qed.
Print Assumptions com_nonneg_in_array_box.

Theorem com_nonneg_in_array_box_quotients : forall data mask ny nx xn yn t,
  rect ny nx data -> mask_rect ny nx mask -> nonneg_pixels data mask ny nx ->
  com data mask = ComAt xn yn t ->
  (0 <= zfrac xn t <= inject_Z (Z.of_nat nx - 1) /\ 0 <= zfrac yn t <= inject_Z (Z.of_nat ny - 1))%Q.
Proof. exact com_in_array_box_Q. Qed.
Print Assumptions com_nonneg_in_array_box_quotients.

(* conversely a positive total is what makes centroid_com return a point *)
Theorem com_positive_total_returns_point : forall data mask ny nx,
  rect ny nx data -> mask_rect ny nx mask -> 0 < sum2 ny nx (weight data mask) ->
  exists xn yn, com data mask = ComAt xn yn (sum2 ny nx (weight data mask)).
Proof. exact com_positive_total_returns. Qed.
Print Assumptions com_positive_total_returns_point.

(* B2 in one statement: unmasked finite pixels >= 0 with total > 0 => a point is returned, over that
   total, inside the pixel-index box *)
Theorem com_nonneg_positive_total_in_array_box : forall data mask ny nx,
  rect ny nx data -> mask_rect ny nx mask -> nonneg_pixels data mask ny nx ->
  0 < sum2 ny nx (weight data mask) ->
  exists xn yn t, com data mask = ComAt xn yn t /\ t = sum2 ny nx (weight data mask) /\
    0 <= xn <= (Z.of_nat nx - 1) * t /\ 0 <= yn <= (Z.of_nat ny - 1) * t /\
    (0 <= zfrac xn t <= inject_Z (Z.of_nat nx - 1) /\ 0 <= zfrac yn t <= inject_Z (Z.of_nat ny - 1))%Q.
Proof. exact com_positive_total_in_box. Qed.
Print Assumptions com_nonneg_positive_total_in_array_box.

(* sharper: the centroid lies in every box that contains the POSITIVE pixels (in particular in
   their bounding box) ... *)
Theorem com_nonneg_in_positive_bbox : forall data mask ny nx xn yn t xa xb ya yb,
  rect ny nx data -> mask_rect ny nx mask -> nonneg_pixels data mask ny nx ->
  (forall y x, (y < ny)%nat -> (x < nx)%nat -> 0 < weight data mask y x ->
               xa <= Z.of_nat x <= xb /\ ya <= Z.of_nat y <= yb) ->
  com data mask = ComAt xn yn t ->
  0 < t /\ xa * t <= xn <= xb * t /\ ya * t <= yn <= yb * t.
Proof. exact com_in_positive_bbox. Qed.
Print Assumptions com_nonneg_in_positive_bbox.

(* ... and strictly inside on every side off which a positive pixel lies (so strictly inside the
   bounding box of the positive pixels whenever they occupy more than one column / row) *)
Theorem com_nonneg_strictly_inside_positive_bbox : forall data mask ny nx xn yn t xa xb ya yb,
  rect ny nx data -> mask_rect ny nx mask -> nonneg_pixels data mask ny nx ->
  (forall y x, (y < ny)%nat -> (x < nx)%nat -> 0 < weight data mask y x ->
               xa <= Z.of_nat x <= xb /\ ya <= Z.of_nat y <= yb) ->
  com data mask = ComAt xn yn t ->
  ((exists y x, (y < ny)%nat /\ (x < nx)%nat /\ 0 < weight data mask y x /\ xa < Z.of_nat x) -> xa * t < xn) /\
  ((exists y x, (y < ny)%nat /\ (x < nx)%nat /\ 0 < weight data mask y x /\ Z.of_nat x < xb) -> xn < xb * t) /\
  ((exists y x, (y < ny)%nat /\ (x < nx)%nat /\ 0 < weight data mask y x /\ ya < Z.of_nat y) -> ya * t < yn) /\
  ((exists y x, (y < ny)%nat /\ (x < nx)%nat /\ 0 < weight data mask y x /\ Z.of_nat y < yb) -> yn < yb * t).
Proof. exact com_strictly_inside. Qed.
Print Assumptions com_nonneg_strictly_inside_positive_bbox.

(* ================================================================== *)
(* B3  image-moment centroid of the star finders (used by C14)           *)
(* ================================================================== *)
(* the moment centroid is centroid_com of the clipped cutout (same exact sums) *)
Theorem moment_centroid_is_com_of_clipped : forall a : img Z,
  moment_centroid a = com (someimg (clip0 a)) None.
Proof. exact moment_centroid_is_com. Qed.
Print Assumptions moment_centroid_is_com_of_clipped.

(* NaN exactly when the cutout has no positive pixel *)
Theorem moment_centroid_nan_iff_no_positive_pixel : forall ny nx (a : img Z),
  rect ny nx a ->
  (moment_centroid a = ComNaN <-> forall y x, (y < ny)%nat -> (x < nx)%nat -> nth x (nth y a []) 0 <= 0).
Proof. exact moment_centroid_nan_iff. Qed.
Print Assumptions moment_centroid_nan_iff_no_positive_pixel.

(* any cutout, any origin: the centroid + origin lies in the cutout's box in image coordinates *)
Theorem moment_centroid_within_cutout_box : forall ny nx (a : img Z) x0 y0 xn yn t,
  rect ny nx a -> add_origin x0 y0 (moment_centroid a) = ComAt xn yn t ->
  0 < t /\ x0 * t <= xn <= (x0 + Z.of_nat nx - 1) * t /\ y0 * t <= yn <= (y0 + Z.of_nat ny - 1) * t.
Proof. exact moment_centroid_in_image_box. Qed.
Print Assumptions moment_centroid_within_cutout_box.

Theorem moment_centroid_within_cutout_box_quotients : forall ny nx (a : img Z) x0 y0 xn yn t,
  rect ny nx a -> add_origin x0 y0 (moment_centroid a) = ComAt xn yn t ->
  (inject_Z x0 <= zfrac xn t <= inject_Z (x0 + Z.of_nat nx - 1) /\
   inject_Z y0 <= zfrac yn t <= inject_Z (y0 + Z.of_nat ny - 1))%Q.
Proof. exact moment_centroid_in_image_box_Q. Qed.
Print Assumptions moment_centroid_within_cutout_box_quotients.

(* IRAFStarFinder: kernel-sized cutout (2*yr+1, 2*xr+1) centred on the peak (xp, yp), origin
   (xp - xr, yp - yr); [a] is any array of that shape (whatever zero fill outside the frame, sky
   subtraction and kernel mask produced): |xcentroid - xp| <= xr and |ycentroid - yp| <= yr *)
Theorem moment_centroid_within_kernel_of_peak : forall (xr yr : nat) (a : img Z) xp yp xn yn t,
  rect (2 * yr + 1) (2 * xr + 1) a ->
  add_origin (xp - Z.of_nat xr) (yp - Z.of_nat yr) (moment_centroid a) = ComAt xn yn t ->
  0 < t /\ (xp - Z.of_nat xr) * t <= xn <= (xp + Z.of_nat xr) * t /\
           (yp - Z.of_nat yr) * t <= yn <= (yp + Z.of_nat yr) * t.
Proof. exact moment_centroid_in_kernel_box. Qed.
Print Assumptions moment_centroid_within_kernel_of_peak.

Theorem moment_centroid_within_kernel_of_peak_quotients : forall (xr yr : nat) (a : img Z) xp yp xn yn t,
  rect (2 * yr + 1) (2 * xr + 1) a ->
  add_origin (xp - Z.of_nat xr) (yp - Z.of_nat yr) (moment_centroid a) = ComAt xn yn t ->
  (inject_Z (xp - Z.of_nat xr) <= zfrac xn t <= inject_Z (xp + Z.of_nat xr) /\
   inject_Z (yp - Z.of_nat yr) <= zfrac yn t <= inject_Z (yp + Z.of_nat yr))%Q.
Proof. exact moment_centroid_in_kernel_box_Q. Qed.
Print Assumptions moment_centroid_within_kernel_of_peak_quotients.

(* StarFinder (cutout trimmed at the frame): for ANY window [y0,y1) x [x0,x1) inside the frame, the
   centroid of data[y0:y1, x0:x1] + (x0, y0) lies in the window, hence in the frame *)
Theorem trimmed_moment_centroid_within_window : forall ny nx (im : img Z) y0 y1 x0 x1 xn yn t,
  rect ny nx im -> 0 <= y0 <= y1 -> y1 <= Z.of_nat ny -> 0 <= x0 <= x1 -> x1 <= Z.of_nat nx ->
  add_origin x0 y0 (moment_centroid (crop y0 y1 x0 x1 im)) = ComAt xn yn t ->
  0 < t /\ x0 * t <= xn <= (x1 - 1) * t /\ y0 * t <= yn <= (y1 - 1) * t /\
  0 <= xn <= (Z.of_nat nx - 1) * t /\ 0 <= yn <= (Z.of_nat ny - 1) * t.
Proof. exact trimmed_centroid_in_window. Qed.
Print Assumptions trimmed_moment_centroid_within_window.

(* the window overlap_slices gives for an odd box 2r+1 centred on an integer position p on an axis
   of length n is [max 0 (p-r), min n (p+r+1)) *)
Theorem overlap_window_of_integer_peak : forall n r p,
  fst (axis_slices n (2 * r + 1) (inject_Z p)) = (Z.max 0 (p - r), Z.min n (p + r + 1)).
Proof. exact axis_slices_peak. Qed.
Print Assumptions overlap_window_of_integer_peak.

(* hence: kernel-sized cutout centred on a peak inside the frame, trimmed at the frame: the
   centroid lies in the kernel box of the peak clipped at the frame *)
Theorem trimmed_moment_centroid_within_clipped_kernel_of_peak :
  forall ny nx (im : img Z) (xr yr : nat) xp yp xn yn t,
  rect ny nx im -> 0 <= xp < Z.of_nat nx -> 0 <= yp < Z.of_nat ny ->
  let '(y0, y1) := fst (axis_slices (Z.of_nat ny) (2 * Z.of_nat yr + 1) (inject_Z yp)) in
  let '(x0, x1) := fst (axis_slices (Z.of_nat nx) (2 * Z.of_nat xr + 1) (inject_Z xp)) in
  add_origin x0 y0 (moment_centroid (crop y0 y1 x0 x1 im)) = ComAt xn yn t ->
  0 < t /\
  Z.max 0 (xp - Z.of_nat xr) * t <= xn <= Z.min (Z.of_nat nx - 1) (xp + Z.of_nat xr) * t /\
  Z.max 0 (yp - Z.of_nat yr) * t <= yn <= Z.min (Z.of_nat ny - 1) (yp + Z.of_nat yr) * t.
Proof. exact trimmed_centroid_in_clipped_kernel_box. Qed.
Print Assumptions trimmed_moment_centroid_within_clipped_kernel_of_peak.

(* ================================================================== *)
(* Examples: hypotheses satisfiable, statements not vacuous              *)
(* ================================================================== *)
(* B1: coordinates 2, 5, 9 with weights 1, 0, 3: mean 29/4 in [2, 9] *)
Definition ex_pts : list (Z * Z) := [(2, 1); (5, 0); (9, 3)].
Example ex_pts_hyps : ex_pts <> [] /\ (forall p, In p ex_pts -> 0 <= snd p) /\ 0 < wtot ex_pts.
Proof.
  split; [discriminate|]. split; [|reflexivity].
  intros p [<-|[<-|[<-|[]]]]; cbn; discriminate.
Qed.
Example ex_pts_values : (cminZ ex_pts, cmaxZ ex_pts, wmom ex_pts, wtot ex_pts) = (2, 9, 29, 4).
Proof. vm_compute. reflexivity. Qed.
Definition ex_ptsQ : list (Q * Q) := [((1 # 2)%Q, (1 # 3)%Q); ((-3 # 4)%Q, (2 # 3)%Q)].
Example ex_ptsQ_hyps : ex_ptsQ <> [] /\ (forall p, In p ex_ptsQ -> (0 <= snd p)%Q) /\ (0 < wtotQ ex_ptsQ)%Q.
Proof.
  split; [discriminate|]. split; [|reflexivity].
  intros p [<-|[<-|[]]]; cbn; discriminate.
Qed.

(* B2: a 2x3 image with a NaN, a masked negative pixel and non-negative unmasked values:
   weights [[1;0;2];[0;0;3]] -> x = (0*1 + 2*2 + 2*3)/6 = 10/6, y = 3/6 *)
Definition ex_data : img (option Z) := [[Some 1; None; Some 2]; [Some (-7); Some 0; Some 3]].
Definition ex_mask : option (img bool) := Some [[false; false; false]; [true; false; false]].
Example ex_com_hyps : rect 2 3 ex_data /\ mask_rect 2 3 ex_mask /\ nonneg_pixels ex_data ex_mask 2 3.
Proof.
  split; [split; [reflexivity|intros [|[|y]] Hy; [reflexivity|reflexivity|lia]]|].
  split; [split; [reflexivity|intros [|[|y]] Hy; [reflexivity|reflexivity|lia]]|].
  intros [|[|y]] [|[|[|x]]] v Hy Hx; try lia; cbn; intros Hm Hd; try discriminate;
    injection Hd as <-; discriminate.
Qed.
Example ex_com_value : com ex_data ex_mask = ComAt 10 3 6.
Proof. vm_compute. reflexivity. Qed.

(* B3: IRAF-style 3x3 cutout (xr = yr = 1) around the peak (10, 20), negatives clipped:
   clip0 = [[0;1;0];[2;5;0];[0;0;0]] -> M00 = 8, M01 = 6, M10 = 7; + origin (9, 19) *)
Definition ex_cut : img Z := [[-4; 1; 0]; [2; 5; -1]; [0; -3; 0]].
Example ex_cut_rect : rect (2 * 1 + 1) (2 * 1 + 1) ex_cut.
Proof. split; [reflexivity|]. intros [|[|[|y]]] Hy; try reflexivity. cbn in Hy. lia. Qed.
Example ex_cut_centroid :
  add_origin (10 - 1) (20 - 1) (moment_centroid ex_cut) = ComAt (6 + 9 * 8) (7 + 19 * 8) 8.
Proof. vm_compute. reflexivity. Qed.
(* StarFinder-style: 5x4 frame, 3x3 kernel box on the corner peak (0, 0) is trimmed to [0,2) x [0,2) *)
Example ex_trim_window :
  fst (axis_slices 4 (2 * 1 + 1) (inject_Z 0)) = (0, 2) /\ fst (axis_slices 5 (2 * 1 + 1) (inject_Z 4)) = (3, 5).
Proof. split; vm_compute; reflexivity. Qed.
Example ex_trim_centroid :
  add_origin 0 0 (moment_centroid (crop 0 2 0 2 [[9; 1; 0; 0]; [-2; 2; 0; 0]; [0; 0; 0; 0]; [0; 0; 0; 0]; [0; 0; 0; 7]]))
  = ComAt 3 2 12.
Proof. vm_compute. reflexivity. Qed.
