(* C10 — soundness of the may-alias analysis of C10_Model w.r.t. the heap semantics. *)
From Coq Require Import List Arith NArith Bool Lia.
From PV Require Import C10_Model.
Import ListNotations.

(* ---------------- sets of variables ---------------- *)
Lemma mem_In b l : mem b l = true <-> In b l.
Proof.
  unfold mem. rewrite existsb_exists. split.
  - intros [y [Hy He]]. apply Nat.eqb_eq in He. subst. exact Hy.
  - intros H. exists b. split; [exact H|apply Nat.eqb_refl].
Qed.

Lemma mem_false_In b l : mem b l = false <-> ~ In b l.
Proof.
  split.
  - intros H Hin. apply mem_In in Hin. congruence.
  - intros H. destruct (mem b l) eqn:E; [|reflexivity]. apply mem_In in E. contradiction.
Qed.

Lemma memv_In x l : memv x l = true <-> In x l.
Proof.
  unfold memv. rewrite existsb_exists. split.
  - intros [y [Hy He]]. apply N.eqb_eq in He. subst. exact Hy.
  - intros H. exists x. split; [exact H|apply N.eqb_refl].
Qed.

Lemma memv_false_In x l : memv x l = false <-> ~ In x l.
Proof.
  split.
  - intros H Hin. apply memv_In in Hin. congruence.
  - intros H. destruct (memv x l) eqn:E; [|reflexivity]. apply memv_In in E. contradiction.
Qed.

Definition ale (a b : astate) : Prop := forall x, aget a x = true -> aget b x = true.

Lemma ale_refl a : ale a a.
Proof. intros x H. exact H. Qed.
Lemma ale_trans a b c : ale a b -> ale b c -> ale a c.
Proof. intros H1 H2 x H. apply H2, H1, H. Qed.

Lemma aget_ajoin a b x : aget (ajoin a b) x = aget a x || aget b x.
Proof.
  unfold aget, ajoin.
  destruct (memv x a) eqn:Ea; cbn.
  - apply memv_In. apply in_or_app. left. apply memv_In. exact Ea.
  - destruct (memv x b) eqn:Eb.
    + apply memv_In. apply in_or_app. right. apply filter_In. split.
      * apply memv_In. exact Eb.
      * rewrite Ea. reflexivity.
    + apply memv_false_In. intros H. apply in_app_or in H. destruct H as [H|H].
      * apply memv_In in H. congruence.
      * apply filter_In in H. destruct H as [H _]. apply memv_In in H. congruence.
Qed.

Lemma ale_join_l a b : ale a (ajoin a b).
Proof. intros x H. rewrite aget_ajoin, H. reflexivity. Qed.
Lemma ale_join_r a b : ale b (ajoin a b).
Proof. intros x H. rewrite aget_ajoin, H. apply orb_true_r. Qed.
Lemma ale_join_lub a b c : ale a c -> ale b c -> ale (ajoin a b) c.
Proof.
  intros H1 H2 x H. rewrite aget_ajoin in H. apply orb_true_iff in H.
  destruct H as [H|H]; auto.
Qed.
Lemma ale_nil a : ale [] a.
Proof. intros x H. discriminate H. Qed.

Lemma aleb_ale a b : aleb a b = true -> ale a b.
Proof.
  unfold aleb, ale, aget. intros H x Hx. rewrite forallb_forall in H.
  apply H. apply memv_In. exact Hx.
Qed.

Lemma aget_aset a x t y : aget (aset a x t) y = if N.eqb y x then t else aget a y.
Proof.
  unfold aget, aset. destruct t.
  - cbn. destruct (N.eqb y x); reflexivity.
  - destruct (N.eqb y x) eqn:E.
    + apply memv_false_In. intros H. apply filter_In in H. destruct H as [_ H].
      rewrite E in H. discriminate H.
    + destruct (memv y a) eqn:Ea.
      * apply memv_In. apply filter_In. split; [apply memv_In; exact Ea|].
        rewrite E. reflexivity.
      * apply memv_false_In. intros H. apply filter_In in H. destruct H as [H _].
        apply memv_In in H. congruence.
Qed.

Lemma aget_cons x a y : aget (x :: a) y = N.eqb y x || aget a y.
Proof. reflexivity. Qed.

Lemma ale_cons x a : ale a (x :: a).
Proof. intros y H. rewrite aget_cons, H. apply orb_true_r. Qed.

Lemma ale_set_norm_acc A x t : ale (a_acc A) (a_acc (set_norm A x t)).
Proof. unfold set_norm; cbn. destruct t; [apply ale_cons|apply ale_refl]. Qed.

Lemma ale_set_norm_wf A x t : ale (a_norm A) (a_acc A) -> ale (a_norm (set_norm A x t)) (a_acc (set_norm A x t)).
Proof.
  intros Hw y H. unfold set_norm in H; cbn [a_norm] in H. rewrite aget_aset in H.
  unfold set_norm; cbn [a_acc].
  destruct (N.eqb y x) eqn:E.
  - subst t. rewrite aget_cons, E. reflexivity.
  - destruct t.
    + rewrite aget_cons, E. cbn. apply Hw. exact H.
    + apply Hw. exact H.
Qed.

(* ---------------- loop iteration ---------------- *)
Lemma loop_it_spec body A k : forall inv a0 A',
  ale a0 inv -> loop_it body A k inv = Some A' ->
  exists inv' B,
    ale a0 inv' /\
    body {| a_norm := inv'; a_acc := ajoin (a_acc A) inv'; a_brk := []; a_cnt := [];
            a_ret := a_ret A |} = Some B /\
    ale (ajoin (a_norm B) (a_cnt B)) inv' /\
    A' = {| a_norm := ajoin inv' (a_brk B); a_acc := ajoin (a_acc B) (a_brk B);
            a_brk := a_brk A; a_cnt := a_cnt A; a_ret := a_ret B |}.
Proof.
  induction k as [|k IH]; intros inv a0 A' Hle H; cbn in H; [discriminate H|].
  destruct (body _) as [B|] eqn:EB; [|discriminate H].
  destruct (aleb (ajoin (a_norm B) (a_cnt B)) inv) eqn:El.
  - injection H as <-. exists inv, B. repeat split; auto using aleb_ale.
  - eapply IH; [|exact H]. eapply ale_trans; [exact Hle|apply ale_join_l].
Qed.

(* ---------------- soundness ---------------- *)
Section Sound.
Variable P : buf -> bool.               (* the protected buffers *)

Definition touches (bs : list buf) : bool := existsb P bs.
Definition R (a : astate) (c : cstate) : Prop :=
  (forall x, touches (st c x) = true -> aget a x = true) /\
  (forall b, P b = true -> b < next c).
Definition untouched (c c' : cstate) : Prop := forall b, P b = true -> ver c' b = ver c b.

Lemma untouched_refl c : untouched c c.
Proof. intros b _. reflexivity. Qed.
Lemma untouched_trans c1 c2 c3 : untouched c1 c2 -> untouched c2 c3 -> untouched c1 c3.
Proof. intros H1 H2 b Hb. rewrite H2, H1; auto. Qed.

Lemma R_le a b c : ale a b -> R a c -> R b c.
Proof. intros Hle [H1 H2]. split; auto. Qed.

Lemma R_same a c c' : st c' = st c -> next c <= next c' -> R a c -> R a c'.
Proof.
  intros Hs Hn [H1 H2]. split.
  - rewrite Hs. exact H1.
  - intros b Hb. apply H2 in Hb. lia.
Qed.

Lemma R_assign a c x v t h n :
  R a c -> (touches v = true -> t = true) -> (forall b, P b = true -> b < n) ->
  R (aset a x t) {| st := upd (st c) x v; ver := h; next := n |}.
Proof.
  intros [H1 H2] Hv Hn. split; cbn; [|exact Hn].
  intros y Hy. rewrite aget_aset. unfold upd in Hy.
  destruct (N.eqb y x); auto.
Qed.

Lemma touches_app l1 l2 : touches (l1 ++ l2) = touches l1 || touches l2.
Proof. apply existsb_app. Qed.

Lemma reach_tainted a c xs :
  R a c -> touches (reach c xs) = true -> existsb (aget a) xs = true.
Proof.
  intros [H1 _]. induction xs as [|x xs IH]; cbn; intros H; [discriminate H|].
  unfold reach in H. cbn in H. rewrite touches_app in H. apply orb_true_iff in H.
  destruct H as [H|H].
  - rewrite (H1 _ H). reflexivity.
  - rewrite IH; [apply orb_true_r|exact H].
Qed.

Lemma fresh_not_protected a c : R a c -> P (next c) = false.
Proof.
  intros [_ H2]. destruct (P (next c)) eqn:E; [|reflexivity].
  apply H2 in E. lia.
Qed.

Lemma touches_fresh a c : R a c -> touches [next c] = false.
Proof. intros HR. unfold touches. cbn. rewrite (fresh_not_protected _ _ HR). reflexivity. Qed.

Lemma eval_sound a c e v n :
  R a c -> eval c e v n ->
  (touches v = true -> aeval a e = true) /\ (forall b, P b = true -> b < n) /\ next c <= n.
Proof.
  intros HR Hev. pose proof (touches_fresh _ _ HR) as Hf.
  assert (forall b, P b = true -> b < S (next c)) as HS
      by (intros b Hb; destruct HR as [_ H2]; apply H2 in Hb; lia).
  inversion Hev; subst.
  - split; [|split]; [|exact HS|lia]. intros T. congruence.
  - split; [|split]; [|apply HR|lia]. intros T. discriminate T.
  - split; [|split]; [|apply HR|lia]. cbn. apply HR.
  - split; [|split]; [|apply HR|lia]. cbn. apply HR.
  - split; [|split]; [|exact HS|lia]. intros T. congruence.
  - split; [|split]; [|exact HS|lia]. cbn. intros T.
    change (touches ([next c] ++ reach c xs) = true) in T. rewrite touches_app, Hf in T.
    eapply reach_tainted; [exact HR|exact T].
Qed.

Lemma bump_untouched h bs b : touches bs = false -> P b = true -> bump h bs b = h b.
Proof.
  intros Ht Hb. unfold bump. destruct (mem b bs) eqn:E; [|reflexivity].
  apply mem_In in E. exfalso.
  assert (touches bs = true) as T.
  { unfold touches. apply existsb_exists. exists b. split; assumption. }
  congruence.
Qed.

Definition wfA (A : ares) : Prop := ale (a_norm A) (a_acc A).
Definition mono (A A' : ares) : Prop :=
  ale (a_acc A) (a_acc A') /\ ale (a_brk A) (a_brk A') /\ ale (a_cnt A) (a_cnt A') /\
  (a_ret A = true -> a_ret A' = true) /\ wfA A'.
Definition post (A' : ares) (o : outcome) (c' : cstate) : Prop :=
  R (a_acc A') c' /\
  match o with
  | ONorm => R (a_norm A') c'
  | ORet v => touches v = true -> a_ret A' = true
  | OExn => True
  | OBrk => R (a_brk A') c'
  | OCnt => R (a_cnt A') c'
  end.

Lemma mono_refl A : wfA A -> mono A A.
Proof. intros H. repeat split; auto using ale_refl. Qed.

Lemma post_weaken A1 A' o c :
  post A1 o c ->
  ale (a_acc A1) (a_acc A') -> ale (a_norm A1) (a_norm A') ->
  ale (a_brk A1) (a_brk A') -> ale (a_cnt A1) (a_cnt A') ->
  (a_ret A1 = true -> a_ret A' = true) ->
  post A' o c.
Proof.
  intros [Ha Ho] H1 H2 H3 H4 H5. split; [eapply R_le; eauto|].
  destruct o; auto; eapply R_le; eauto.
Qed.

(* an outcome other than normal completion does not look at a_norm *)
Lemma post_lift A1 A' o c :
  o <> ONorm -> post A1 o c ->
  ale (a_acc A1) (a_acc A') ->
  ale (a_brk A1) (a_brk A') -> ale (a_cnt A1) (a_cnt A') ->
  (a_ret A1 = true -> a_ret A' = true) ->
  post A' o c.
Proof.
  intros Hn [Ha Ho] H1 H3 H4 H5. split; [eapply R_le; eauto|].
  destruct o; auto; try congruence; eapply R_le; eauto.
Qed.

Lemma post_exn A A' c : wfA A -> ale (a_acc A) (a_acc A') -> R (a_norm A) c -> post A' OExn c.
Proof.
  intros Hw Hle HR. split; [|exact I].
  eapply R_le; [|exact HR]. eapply ale_trans; eauto.
Qed.

Ltac exn A Hw HR :=
  split; [apply untouched_refl | apply post_exn with (A := A); [exact Hw | cbn | exact HR]].

Definition sound (s : stmt) : Prop :=
  forall fuel A A', wfA A -> analyze fuel s A = Some A' ->
    mono A A' /\
    forall c o c', R (a_norm A) c -> exec c s o c' -> untouched c c' /\ post A' o c'.

Lemma sound_skip : sound Skip.
Proof.
  intros fuel A A' Hw H. cbn in H. injection H as <-. split; [apply mono_refl; exact Hw|].
  intros c o c' HR Hx. inversion Hx; subst.
  - exn A Hw HR. apply ale_refl.
  - split; [apply untouched_refl|]. split; [eapply R_le; eauto|exact HR].
Qed.

Lemma sound_seq s1 s2 : sound s1 -> sound s2 -> sound (Seq s1 s2).
Proof.
  intros IH1 IH2 fuel A A' Hw H. cbn in H.
  destruct (analyze fuel s1 A) as [A1|] eqn:E1; [|discriminate H].
  destruct (IH1 _ _ _ Hw E1) as [[M1a [M1b [M1c [M1r M1w]]]] X1].
  destruct (IH2 _ _ _ M1w H) as [[M2a [M2b [M2c [M2r M2w]]]] X2].
  split.
  - repeat split; eauto using ale_trans.
  - intros c o c' HR Hx. inversion Hx; subst.
    + exn A Hw HR. eapply ale_trans; eauto.
    + match goal with He : exec c s1 ONorm _ |- _ =>
        destruct (X1 _ _ _ HR He) as [U1 [_ Pn]] end. cbn in Pn.
      match goal with He : exec _ s2 _ _ |- _ =>
        destruct (X2 _ _ _ Pn He) as [U2 P2] end.
      split; [eapply untouched_trans; eauto|exact P2].
    + match goal with He : exec c s1 _ _ |- _ =>
        destruct (X1 _ _ _ HR He) as [U1 P1] end.
      split; [exact U1|]. eapply post_lift; eauto.
Qed.

Lemma sound_assign x e : sound (Assign x e).
Proof.
  intros fuel A A' Hw H. cbn in H. injection H as <-. split.
  - unfold mono, wfA. repeat split; auto using ale_refl, ale_set_norm_acc.
    apply ale_set_norm_wf. exact Hw.
  - intros c o c' HR Hx. inversion Hx; subst.
    + exn A Hw HR. destruct (aeval (a_norm A) e); [apply ale_cons|apply ale_refl].
    + match goal with He : eval _ _ _ _ |- _ =>
        destruct (eval_sound _ _ _ _ _ HR He) as [Hv [Hn Hle]] end.
      split; [intros b _; reflexivity|].
      assert (R (aset (a_norm A) x (aeval (a_norm A) e))
                {| st := upd (st c) x v; ver := ver c; next := n |}) as HR'
          by (apply R_assign; auto).
      split; [|exact HR']. eapply R_le; [|exact HR'].
      apply (ale_set_norm_wf A x (aeval (a_norm A) e)). exact Hw.
Qed.

Lemma sound_inplace x : sound (InPlace x).
Proof.
  intros fuel A A' Hw H. cbn in H.
  destruct (aget (a_norm A) x) eqn:Eg; [discriminate H|]. injection H as <-.
  split; [apply mono_refl; exact Hw|].
  intros c o c' HR Hx. inversion Hx; subst.
  - exn A Hw HR. apply ale_refl.
  - assert (touches (st c x) = false) as Ht.
    { destruct (touches (st c x)) eqn:T; [|reflexivity].
      destruct HR as [H1 _]. apply H1 in T. congruence. }
    split.
    + intros b Hb. cbn. apply bump_untouched; assumption.
    + assert (R (a_norm A) {| st := st c; ver := bump (ver c) (st c x); next := next c |}) as HR'
          by (eapply R_same; [| |exact HR]; cbn; auto).
      split; [eapply R_le; eauto|exact HR'].
Qed.

Lemma sound_call x muts als : sound (Call x muts als).
Proof.
  intros fuel A A' Hw H. cbn in H.
  destruct (existsb (aget (a_norm A)) muts) eqn:Em; [discriminate H|]. injection H as <-.
  split.
  - unfold mono, wfA. repeat split; auto using ale_refl, ale_set_norm_acc.
    apply ale_set_norm_wf. exact Hw.
  - intros c o c' HR Hx. inversion Hx; subst.
    + exn A Hw HR. destruct (existsb (aget (a_norm A)) als); [apply ale_cons|apply ale_refl].
    + assert (touches (reach c muts) = false) as Ht.
      { destruct (touches (reach c muts)) eqn:T; [|reflexivity].
        apply (reach_tainted _ _ _ HR) in T. congruence. }
      split.
      * intros b Hb. cbn. apply bump_untouched; assumption.
      * assert (R (aset (a_norm A) x (existsb (aget (a_norm A)) als))
                  {| st := upd (st c) x v; ver := bump (ver c) (reach c muts);
                     next := S (next c) |}) as HR'.
        { apply R_assign; auto.
          - intros T. unfold touches in T. apply existsb_exists in T.
            destruct T as [b [Hb Pb]].
            match goal with Hv : forall b0, In b0 v -> _ |- _ =>
              destruct (Hv _ Hb) as [->|Hin] end.
            + rewrite (fresh_not_protected _ _ HR) in Pb. discriminate Pb.
            + eapply reach_tainted; [exact HR|].
              unfold touches. apply existsb_exists. exists b. split; assumption.
          - intros b Hb. destruct HR as [_ H2]. apply H2 in Hb. lia. }
        split; [|exact HR']. eapply R_le; [|exact HR'].
        apply (ale_set_norm_wf A x (existsb (aget (a_norm A)) als)). exact Hw.
Qed.

Lemma sound_if s1 s2 : sound s1 -> sound s2 -> sound (If s1 s2).
Proof.
  intros IH1 IH2 fuel A A' Hw H. cbn in H.
  destruct (analyze fuel s1 A) as [A1|] eqn:E1; [|discriminate H].
  destruct (IH1 _ _ _ Hw E1) as [[M1a [M1b [M1c [M1r M1w]]]] X1].
  remember {| a_norm := a_norm A; a_acc := a_acc A1; a_brk := a_brk A1;
              a_cnt := a_cnt A1; a_ret := a_ret A1 |} as A1' eqn:EA1.
  destruct (analyze fuel s2 A1') as [A2|] eqn:E2; [|discriminate H]. injection H as <-.
  assert (wfA A1') as Hw1 by (subst A1'; unfold wfA; cbn; eapply ale_trans; eauto).
  destruct (IH2 _ _ _ Hw1 E2) as [[M2a [M2b [M2c [M2r M2w]]]] X2].
  subst A1'. cbn in *.
  split.
  - unfold mono, wfA; cbn. repeat split; eauto using ale_trans.
    apply ale_join_lub; [|exact M2w]. eapply ale_trans; [exact M1w|exact M2a].
  - intros c o c' HR Hx. inversion Hx; subst.
    + exn A Hw HR. eapply ale_trans; eauto.
    + match goal with He : exec c s1 _ _ |- _ =>
        destruct (X1 _ _ _ HR He) as [U1 P1] end. split; [exact U1|].
      eapply post_weaken; [exact P1|..]; cbn; auto using ale_join_l.
    + match goal with He : exec c s2 _ _ |- _ =>
        destruct (X2 _ _ _ HR He) as [U2 P2] end. split; [exact U2|].
      eapply post_weaken; [exact P2|..]; cbn; auto using ale_refl, ale_join_r.
Qed.

Lemma sound_loop b : sound b -> sound (Loop b).
Proof.
  intros IH fuel A A' Hw H. cbn in H.
  destruct (loop_it_spec _ _ _ _ (a_norm A) _ (ale_refl _) H)
    as [inv [B [Hinv [EB [Hback ->]]]]].
  remember {| a_norm := inv; a_acc := ajoin (a_acc A) inv; a_brk := []; a_cnt := [];
              a_ret := a_ret A |} as A0 eqn:EA0.
  assert (wfA A0) as Hw0 by (subst A0; unfold wfA; cbn; apply ale_join_r).
  destruct (IH _ _ _ Hw0 EB) as [[Ma [Mb [Mc [Mr Mw]]]] X]. subst A0. cbn in *.
  assert (ale inv (a_acc B)) as HinvB
      by (eapply ale_trans; [apply ale_join_r|exact Ma]).
  split.
  - unfold mono, wfA; cbn. repeat split; auto using ale_refl.
    + eapply ale_trans; [|apply ale_join_l]. eapply ale_trans; [apply ale_join_l|exact Ma].
    + apply ale_join_lub; [|apply ale_join_r].
      eapply ale_trans; [exact HinvB|apply ale_join_l].
  - assert (forall c s o c', exec c s o c' -> s = Loop b -> R inv c ->
              untouched c c' /\
              post {| a_norm := ajoin inv (a_brk B); a_acc := ajoin (a_acc B) (a_brk B);
                      a_brk := a_brk A; a_cnt := a_cnt A; a_ret := a_ret B |} o c') as HL.
    { intros c s o c' Hx. induction Hx; intros Es HR; try discriminate Es.
      - split; [apply untouched_refl|]. split; [|exact I]. cbn.
        eapply R_le; [|exact HR]. eapply ale_trans; [exact HinvB|apply ale_join_l].
      - split; [apply untouched_refl|]. split; cbn.
        + eapply R_le; [|exact HR]. eapply ale_trans; [exact HinvB|apply ale_join_l].
        + eapply R_le; [|exact HR]. apply ale_join_l.
      - injection Es as ->. destruct (X _ _ _ HR Hx1) as [U1 [_ Pn]]. cbn in Pn.
        assert (R inv c1) as HR1.
        { eapply R_le; [|exact Pn]. eapply ale_trans; [apply ale_join_l|exact Hback]. }
        destruct (IHHx2 eq_refl HR1) as [U2 P2].
        split; [eapply untouched_trans; eauto|exact P2].
      - injection Es as ->. destruct (X _ _ _ HR Hx1) as [U1 [_ Pn]]. cbn in Pn.
        assert (R inv c1) as HR1.
        { eapply R_le; [|exact Pn]. eapply ale_trans; [apply ale_join_r|exact Hback]. }
        destruct (IHHx2 eq_refl HR1) as [U2 P2].
        split; [eapply untouched_trans; eauto|exact P2].
      - injection Es as ->. destruct (X _ _ _ HR Hx) as [U1 [Pa Pb]]. cbn in Pb.
        split; [exact U1|]. split; cbn.
        + eapply R_le; [|exact Pb]. apply ale_join_r.
        + eapply R_le; [|exact Pb]. apply ale_join_r.
      - injection Es as ->. destruct (X _ _ _ HR Hx) as [U1 [Pa Pb]]. cbn in Pb.
        split; [exact U1|]. split; cbn; [|exact Pb].
        eapply R_le; [|exact Pa]. apply ale_join_l.
      - injection Es as ->. destruct (X _ _ _ HR Hx) as [U1 [Pa _]].
        split; [exact U1|]. split; cbn; [|exact I].
        eapply R_le; [|exact Pa]. apply ale_join_l. }
    intros c o c' HR Hx. eapply HL; [exact Hx|reflexivity|].
    eapply R_le; [exact Hinv|exact HR].
Qed.

Lemma sound_try b h : sound b -> sound h -> sound (Try b h).
Proof.
  intros IHb IHh fuel A A' Hw H. cbn in H.
  remember {| a_norm := a_norm A; a_acc := a_norm A; a_brk := a_brk A; a_cnt := a_cnt A;
              a_ret := a_ret A |} as Ab eqn:EAb.
  destruct (analyze fuel b Ab) as [A1|] eqn:E1; [|discriminate H].
  assert (wfA Ab) as Hwb by (subst Ab; unfold wfA; cbn; apply ale_refl).
  destruct (IHb _ _ _ Hwb E1) as [[M1a [M1b [M1c [M1r M1w]]]] X1].
  remember {| a_norm := a_acc A1; a_acc := a_acc A1; a_brk := a_brk A1; a_cnt := a_cnt A1;
              a_ret := a_ret A1 |} as Ah eqn:EAh.
  destruct (analyze fuel h Ah) as [A2|] eqn:E2; [|discriminate H]. injection H as <-.
  assert (wfA Ah) as Hwh by (subst Ah; unfold wfA; cbn; apply ale_refl).
  destruct (IHh _ _ _ Hwh E2) as [[M2a [M2b [M2c [M2r M2w]]]] X2].
  subst Ab Ah. cbn in *.
  split.
  - unfold mono, wfA; cbn. repeat split; eauto using ale_trans, ale_join_l.
    apply ale_join_lub.
    + eapply ale_trans; [exact M1w|]. eapply ale_trans; [exact M2a|apply ale_join_r].
    + eapply ale_trans; [exact M2w|apply ale_join_r].
  - intros c o c' HR Hx. inversion Hx; subst.
    + exn A Hw HR. apply ale_join_l.
    + match goal with He : exec c b _ _ |- _ =>
        destruct (X1 _ _ _ HR He) as [U1 P1] end. split; [exact U1|].
      eapply post_weaken; [exact P1|..]; cbn; auto using ale_join_l.
      eapply ale_trans; [exact M2a|apply ale_join_r].
    + match goal with He : exec c b _ _ |- _ =>
        destruct (X1 _ _ _ HR He) as [U1 [Pa _]] end.
      match goal with He : exec _ h _ _ |- _ =>
        destruct (X2 _ _ _ Pa He) as [U2 P2] end.
      split; [eapply untouched_trans; eauto|].
      eapply post_weaken; [exact P2|..]; cbn; auto using ale_refl, ale_join_r.
Qed.

Lemma sound_scope x b : sound b -> sound (Scope x b).
Proof.
  intros IH fuel A A' Hw H. cbn in H.
  remember {| a_norm := a_norm A; a_acc := a_norm A; a_brk := []; a_cnt := [];
              a_ret := false |} as Ab eqn:EAb.
  destruct (analyze fuel b Ab) as [B|] eqn:EB; [|discriminate H]. injection H as <-.
  assert (wfA Ab) as Hwb by (subst Ab; unfold wfA; cbn; apply ale_refl).
  destruct (IH _ _ _ Hwb EB) as [[Ma [Mb [Mc [Mr Mw]]]] X]. subst Ab. cbn in *.
  split.
  - unfold mono, wfA; cbn. repeat split; auto using ale_refl, ale_join_l.
    eapply ale_trans; [apply ale_join_r|apply ale_join_r].
  - intros c o c' HR Hx. inversion Hx; subst.
    + exn A Hw HR. apply ale_join_l.
    + match goal with He : exec c b _ _ |- _ =>
        destruct (X _ _ _ HR He) as [U [Pa Pr]] end. cbn in Pr.
      split; [intros b0 Hb; cbn; apply U; exact Hb|].
      assert (R (aset (a_acc B) x (a_ret B)) (bind c1 x v)) as HR'.
      { unfold bind. apply R_assign; auto. destruct Pa as [_ H2]. exact H2. }
      split; cbn; [|exact HR'].
      eapply R_le; [|exact HR']. eapply ale_trans; [apply ale_join_r|apply ale_join_r].
    + match goal with He : exec c b _ _ |- _ =>
        destruct (X _ _ _ HR He) as [U [Pa _]] end.
      split; [intros b0 Hb; cbn; apply U; exact Hb|].
      assert (R (aset (a_acc B) x (a_ret B)) (bind c1 x [])) as HR'.
      { unfold bind. apply R_assign;
          [exact Pa|intros T; discriminate T|destruct Pa as [_ H2]; exact H2]. }
      split; cbn; [|exact HR'].
      eapply R_le; [|exact HR']. eapply ale_trans; [apply ale_join_r|apply ale_join_r].
    + match goal with He : exec c b _ _ |- _ =>
        destruct (X _ _ _ HR He) as [U [Pa _]] end. split; [exact U|].
      split; cbn; [|exact I].
      eapply R_le; [|exact Pa]. eapply ale_trans; [apply ale_join_l|apply ale_join_r].
Qed.

Lemma sound_return e : sound (Return e).
Proof.
  intros fuel A A' Hw H. cbn in H. injection H as <-. split.
  - unfold mono, wfA; cbn. repeat split; auto using ale_refl.
    intros ->. reflexivity.
  - intros c o c' HR Hx. inversion Hx; subst.
    + exn A Hw HR. apply ale_refl.
    + match goal with He : eval _ _ _ _ |- _ =>
        destruct (eval_sound _ _ _ _ _ HR He) as [Hv [Hn Hle]] end.
      split; [intros b _; reflexivity|]. split; cbn.
      * eapply R_le; [exact Hw|]. eapply R_same; [| |exact HR]; cbn; auto.
      * intros T. rewrite (Hv T). apply orb_true_r.
Qed.

Lemma sound_raise : sound Raise.
Proof.
  intros fuel A A' Hw H. cbn in H. injection H as <-. split; [apply mono_refl; exact Hw|].
  intros c o c' HR Hx. inversion Hx; subst; (exn A Hw HR; apply ale_refl).
Qed.

Lemma sound_break : sound Break.
Proof.
  intros fuel A A' Hw H. cbn in H. injection H as <-. split.
  - unfold mono, wfA; cbn. repeat split; auto using ale_refl, ale_join_l.
  - intros c o c' HR Hx. inversion Hx; subst.
    + exn A Hw HR. apply ale_refl.
    + split; [apply untouched_refl|]. split; cbn.
      * eapply R_le; eauto.
      * eapply R_le; [apply ale_join_r|exact HR].
Qed.

Lemma sound_continue : sound Continue.
Proof.
  intros fuel A A' Hw H. cbn in H. injection H as <-. split.
  - unfold mono, wfA; cbn. repeat split; auto using ale_refl, ale_join_l.
  - intros c o c' HR Hx. inversion Hx; subst.
    + exn A Hw HR. apply ale_refl.
    + split; [apply untouched_refl|]. split; cbn.
      * eapply R_le; eauto.
      * eapply R_le; [apply ale_join_r|exact HR].
Qed.

Lemma all_sound s : sound s.
Proof.
  induction s.
  - apply sound_skip.
  - apply sound_seq; assumption.
  - apply sound_assign.
  - apply sound_inplace.
  - apply sound_call.
  - apply sound_if; assumption.
  - apply sound_loop; assumption.
  - apply sound_try; assumption.
  - apply sound_scope; assumption.
  - apply sound_return.
  - apply sound_raise.
  - apply sound_break.
  - apply sound_continue.
Qed.

Lemma wfA_init params : wfA (init params).
Proof. unfold wfA, init; cbn. apply ale_refl. Qed.

(* accepted programs never write to a protected buffer, whatever the outcome *)
Lemma accepts_sound params s c o c' :
  accepts params s = true -> R params c -> exec c s o c' -> untouched c c'.
Proof.
  unfold accepts, analyze_prog. intros Ha HR Hx.
  destruct (analyze _ s (init params)) as [A'|] eqn:E; [|discriminate Ha].
  destruct (all_sound s _ _ _ (wfA_init params) E) as [_ X].
  destruct (X _ _ _ HR Hx) as [U _]. exact U.
Qed.

(* ... and when the analysis says "the result does not alias", a returned value reaches
   no protected buffer *)
Lemma ret_alias_sound params s c v c' :
  ret_may_alias params s = Some false -> R params c -> exec c s (ORet v) c' ->
  touches v = false.
Proof.
  unfold ret_may_alias, analyze_prog. intros Ha HR Hx.
  destruct (analyze _ s (init params)) as [A'|] eqn:E; [|discriminate Ha].
  injection Ha as Hr.
  destruct (all_sound s _ _ _ (wfA_init params) E) as [_ X].
  destruct (X _ _ _ HR Hx) as [_ [_ Pr]]. cbn in Pr.
  destruct (touches v) eqn:T; [|reflexivity]. rewrite Pr in Hr; [discriminate Hr|reflexivity].
Qed.
End Sound.

(* ---------------- the statement with the protected set spelled out ----------------
   protected = every buffer reachable from a parameter at entry.  Hypotheses on the entry
   state: non-parameter variables (locals, temporaries) hold no buffer of a parameter
   (in Python they are unbound), and the allocator's next buffer is new. *)
Definition entry_ok (params : list var) (c : cstate) : Prop :=
  (forall x, ~ In x params -> forall b, In b (st c x) -> ~ In b (reach c params)) /\
  (forall b, In b (reach c params) -> b < next c).

Lemma entry_R params c :
  entry_ok params c -> R (fun b => mem b (reach c params)) params c.
Proof.
  intros [H1 H2]. split.
  - intros x T. unfold touches in T. apply existsb_exists in T. destruct T as [b [Hb Pb]].
    apply mem_In in Pb. unfold aget. apply memv_In.
    destruct (in_dec N.eq_dec x params) as [Hi|Hn]; [exact Hi|].
    exfalso. exact (H1 _ Hn _ Hb Pb).
  - intros b Pb. apply mem_In in Pb. apply H2. exact Pb.
Qed.

Lemma params_unchanged_lemma params s c o c' :
  accepts params s = true -> entry_ok params c -> exec c s o c' ->
  forall x b, In x params -> In b (st c x) -> ver c' b = ver c b.
Proof.
  intros Ha He Hx x b Hin Hb.
  pose proof (accepts_sound (fun b => mem b (reach c params)) params s c o c' Ha
                (entry_R _ _ He) Hx) as U.
  apply U. apply mem_In. unfold reach. apply in_flat_map. exists x. split; assumption.
Qed.

Lemma result_fresh_lemma params s c v c' :
  ret_may_alias params s = Some false -> entry_ok params c -> exec c s (ORet v) c' ->
  forall x b, In x params -> In b (st c x) -> ~ In b v.
Proof.
  intros Ha He Hx x b Hin Hb Hv.
  pose proof (ret_alias_sound (fun b => mem b (reach c params)) params s c v c' Ha
                (entry_R _ _ He) Hx) as T.
  assert (touches (fun b => mem b (reach c params)) v = true) as T'.
  { unfold touches. apply existsb_exists. exists b. split; [exact Hv|].
    apply mem_In. unfold reach. apply in_flat_map. exists x. split; assumption. }
  congruence.
Qed.

(* ---------------- the semantics is not vacuous ----------------
   a write through a view of a parameter does change the parameter's buffer *)
Definition c_entry : cstate :=
  {| st := fun x => if N.eqb x 0 then [0] else []; ver := fun _ => 0; next := 1 |}.

Lemma view_write_changes :
  exists c', exec c_entry (Seq (Assign 1%N (EView 0%N)) (InPlace 1%N)) ONorm c' /\
             ver c' 0 <> ver c_entry 0.
Proof.
  eexists. split.
  - eapply XSeqN; [apply XAssign; apply EvView|apply XInPlace].
  - cbn. discriminate.
Qed.

Lemma entry_ok_c_entry : entry_ok [0%N] c_entry.
Proof.
  split.
  - intros x Hx b Hb. cbn in Hb. destruct (N.eqb x 0) eqn:E.
    + apply N.eqb_eq in E. exfalso. apply Hx. left. symmetry. exact E.
    + destruct Hb.
  - intros b Hb. cbn in Hb. destruct Hb as [<-|[]]. cbn. lia.
Qed.

(* the write of ProfileBase._compute_mask on the unrepaired code:  mask |= badmask *)
Definition compute_mask_defect : stmt :=
  Seq (Assign 3%N EFresh)                           (* badmask = ~np.isfinite(data) *)
  (Seq (If (InPlace 3%N) Skip)                      (* badmask |= ~np.isfinite(error) *)
  (Seq (If (Seq (InPlace 3%N) (InPlace 2%N))        (* badmask &= ~mask; mask |= badmask *)
           (Assign 2%N (EView 3%N)))                (* mask = badmask *)
       (Return (EView 2%N)))).

Definition c_three : cstate :=
  {| st := fun x => if N.eqb x 0 then [0] else if N.eqb x 1 then [1] else if N.eqb x 2 then [2] else [];
     ver := fun _ => 0; next := 3 |}.

Lemma entry_ok_c_three : entry_ok [0%N; 1%N; 2%N] c_three.
Proof.
  split.
  - intros x Hx b Hb. cbn in Hb.
    destruct (N.eqb x 0) eqn:E0; [apply N.eqb_eq in E0; exfalso; apply Hx; cbn; auto|].
    destruct (N.eqb x 1) eqn:E1; [apply N.eqb_eq in E1; exfalso; apply Hx; cbn; auto|].
    destruct (N.eqb x 2) eqn:E2; [apply N.eqb_eq in E2; exfalso; apply Hx; cbn; auto|].
    destruct Hb.
  - intros b Hb. cbn in Hb. cbn. lia.
Qed.

Lemma compute_mask_defect_refuted :
  accepts [0%N; 1%N; 2%N] compute_mask_defect = false /\
  exists c c' v, entry_ok [0%N; 1%N; 2%N] c /\ exec c compute_mask_defect (ORet v) c' /\
                 exists b, In b (st c 2%N) /\ ver c' b <> ver c b.
Proof.
  split; [vm_compute; reflexivity|].
  exists c_three. eexists. eexists. split; [exact entry_ok_c_three|split].
  - eapply XSeqN; [apply XAssign; apply EvFresh|].
    eapply XSeqN; [apply XIfR; apply XSkip|].
    eapply XSeqN; [apply XIfL; eapply XSeqN; [apply XInPlace|apply XInPlace]|].
    apply XReturn. apply EvView.
  - exists 2. split; [cbn; auto|cbn; discriminate].
Qed.

(* the repaired code: mask = mask | badmask *)
Definition compute_mask_fixed : stmt :=
  Seq (Assign 3%N EFresh)
  (Seq (If (InPlace 3%N) Skip)
  (Seq (If (Seq (InPlace 3%N) (Assign 2%N EFresh))
           (Assign 2%N (EView 3%N)))
       (Return (EView 2%N)))).

Lemma compute_mask_fixed_accepted :
  accepts [0%N; 1%N; 2%N] compute_mask_fixed = true /\
  ret_may_alias [0%N; 1%N; 2%N] compute_mask_fixed = Some false.
Proof. vm_compute. split; reflexivity. Qed.
