(* C03 -- detect_sources (the STABLE model C04_Model.detect, imported read-only) under the
   zero-padded embedding.  The proof uses only the specification theorems of C04 (detect_spec,
   detect_none_iff, detect_total, component sizes): the label array of the canvas is determined by
   them, pixel for pixel. *)
From Coq Require Import List Arith Bool Lia Relations.
From PV Require Import lib.Cases lib.Conn C03_Model C03_Proofs.
From PV Require Import C04_Model C04_Proofs.
Import ListNotations.

Section Sigma.
Variables (ny nx dy dx NY NX : nat).
Hypothesis (Hnx : 0 < nx) (HY : dy + ny <= NY) (HX : dx + nx <= NX).

(* raster index of the canvas pixel holding image pixel p *)
Definition sigma (p : nat) : nat := (p / nx + dy) * NX + (p mod nx + dx).

Lemma row_lt p : p < npx ny nx -> p / nx < ny.
Proof. unfold npx. intros H. apply Nat.div_lt_upper_bound; lia. Qed.
Lemma col_lt p : p mod nx < nx.
Proof. apply Nat.mod_upper_bound. lia. Qed.

Lemma sigma_div p : sigma p / NX = p / nx + dy.
Proof.
  pose proof (col_lt p). unfold sigma. symmetry.
  apply (Nat.div_unique _ NX (p / nx + dy) (p mod nx + dx)); lia.
Qed.
Lemma sigma_mod p : sigma p mod NX = p mod nx + dx.
Proof.
  pose proof (col_lt p). unfold sigma. symmetry.
  apply (Nat.mod_unique _ NX (p / nx + dy) (p mod nx + dx)); lia.
Qed.
Lemma sigma_lt p : p < npx ny nx -> sigma p < npx NY NX.
Proof.
  intros Hp. pose proof (row_lt p Hp). pose proof (col_lt p). unfold sigma, npx.
  assert ((p / nx + dy + 1) * NX <= NY * NX) by (apply Nat.mul_le_mono_r; lia). lia.
Qed.
Lemma sigma_mono p q : p < q -> sigma p < sigma q.
Proof.
  intros Hpq. pose proof (col_lt p). pose proof (col_lt q).
  pose proof (Nat.div_mod p nx ltac:(lia)) as Ep. pose proof (Nat.div_mod q nx ltac:(lia)) as Eq.
  unfold sigma.
  destruct (Nat.lt_trichotomy (p / nx) (q / nx)) as [Hlt|[Heq|Hgt]].
  - assert ((p / nx + dy + 1) * NX <= (q / nx + dy) * NX) by (apply Nat.mul_le_mono_r; lia). lia.
  - rewrite Heq in *. lia.
  - exfalso. assert (nx * (q / nx + 1) <= nx * (p / nx)) by (apply Nat.mul_le_mono_l; lia). lia.
Qed.
Lemma sigma_inj p q : sigma p = sigma q -> p = q.
Proof.
  intros E. destruct (Nat.lt_trichotomy p q) as [H|[H|H]]; [|exact H|];
    apply sigma_mono in H; lia.
Qed.
Lemma sigma_le p q : sigma p <= sigma q -> p <= q.
Proof.
  intros H. destruct (Nat.le_gt_cases p q) as [|Hgt]; [assumption|]. apply sigma_mono in Hgt. lia.
Qed.

Lemma absdiff_add a b k : absdiff (a + k) (b + k) = absdiff a b.
Proof.
  unfold absdiff. destruct (a <=? b) eqn:E1, (a + k <=? b + k) eqn:E2;
    try apply Nat.leb_le in E1; try apply Nat.leb_le in E2;
    try apply Nat.leb_gt in E1; try apply Nat.leb_gt in E2; lia.
Qed.

Lemma adj_sigma c p q : adj NX c (sigma p) (sigma q) = adj nx c p q.
Proof.
  unfold adj. rewrite !sigma_div, !sigma_mod, !absdiff_add.
  replace (sigma p =? sigma q) with (p =? q); [reflexivity|].
  destruct (p =? q) eqn:E.
  - apply Nat.eqb_eq in E. subst. symmetry. apply Nat.eqb_refl.
  - symmetry. apply Nat.eqb_neq. intros H. apply sigma_inj in H. apply Nat.eqb_neq in E. contradiction.
Qed.

(* ---------- the two foreground lists ---------- *)
Variables (c8 : bool) (npix : nat) (fgl fgl' : list bool).
Hypothesis Hfg_in : forall p, p < npx ny nx -> fg fgl' (sigma p) = fg fgl p.
Hypothesis Hfg_out : forall q, q < npx NY NX -> fg fgl' q = true -> exists p, p < npx ny nx /\ q = sigma p.

Notation pconn0 := (pconn ny nx c8 fgl).
Notation pconn1 := (pconn NY NX c8 fgl').

Lemma pconn_fwd p q : pconn0 p q -> p < npx ny nx -> pconn1 (sigma p) (sigma q).
Proof.
  induction 1 as [x y H| |x y z H1 IH1 H2 IH2]; intros Hp.
  - destruct H as (Hx & Hy & Fx & Fy & A). apply rt_step. unfold pedge.
    rewrite !Hfg_in, adj_sigma by assumption. repeat split; auto using sigma_lt.
  - apply rt_refl.
  - eapply rt_trans; [apply IH1; exact Hp|]. apply IH2.
    clear - H1 Hp. induction H1 as [x y H| |x y z H1 IH1 H2 IH2]; auto. destruct H as (_ & H & _). exact H.
Qed.

Lemma pconn_bwd a b : pconn1 a b -> forall p, p < npx ny nx -> a = sigma p ->
  exists q, q < npx ny nx /\ b = sigma q /\ pconn0 p q.
Proof.
  induction 1 as [x y H| |x y z H1 IH1 H2 IH2]; intros p Hp E.
  - destruct H as (Hx & Hy & Fx & Fy & A). destruct (Hfg_out y Hy Fy) as (q & Hq & ->). subst x.
    exists q. split; [exact Hq|]. split; [reflexivity|]. apply rt_step. unfold pedge.
    rewrite Hfg_in in Fx, Fy by assumption. rewrite adj_sigma in A. repeat split; assumption.
  - exists p. split; [exact Hp|]. split; [exact E|]. apply rt_refl.
  - destruct (IH1 p Hp E) as (q & Hq & Eq & C1). destruct (IH2 q Hq Eq) as (r & Hr & Er & C2).
    exists r. split; [exact Hr|]. split; [exact Er|]. eapply rt_trans; eauto.
Qed.

Lemma pconn_iff p q : p < npx ny nx -> q < npx ny nx -> (pconn0 p q <-> pconn1 (sigma p) (sigma q)).
Proof.
  intros Hp Hq. split; [intros H; apply pconn_fwd; assumption|].
  intros H. destruct (pconn_bwd _ _ H p Hp eq_refl) as (r & Hr & E & C). apply sigma_inj in E. subst. exact C.
Qed.

Lemma NoDup_map_sigma S : NoDup S -> NoDup (map sigma S).
Proof.
  induction 1 as [|x S Hx HS IH]; cbn; constructor; [|exact IH].
  intros Hin. apply in_map_iff in Hin. destruct Hin as (y & E & Hy). apply sigma_inj in E. subst. contradiction.
Qed.

Lemma comp_size_fwd p k : p < npx ny nx -> comp_size ny nx c8 fgl p k -> comp_size NY NX c8 fgl' (sigma p) k.
Proof.
  intros Hp (S & ND & HS & HL). exists (map sigma S). split; [apply NoDup_map_sigma; exact ND|].
  split; [|rewrite map_length; exact HL]. intros q'. rewrite in_map_iff. split.
  - intros (q & <- & Hq). apply HS in Hq. destruct Hq as [Hq C]. split; [apply sigma_lt; exact Hq|].
    apply pconn_fwd; assumption.
  - intros [Hq' C]. destruct (pconn_bwd _ _ C p Hp eq_refl) as (q & Hq & -> & C0).
    exists q. split; [reflexivity|]. apply HS. split; assumption.
Qed.

Lemma qualifies_iff p : p < npx ny nx ->
  (qualifies ny nx c8 npix fgl p <-> qualifies NY NX c8 npix fgl' (sigma p)).
Proof.
  intros Hp. unfold qualifies. rewrite Hfg_in by exact Hp. split.
  - intros [F (k & Ck & Hk)]. split; [exact F|]. exists k. split; [apply comp_size_fwd; assumption|exact Hk].
  - intros [F (k & Ck & Hk)]. split; [exact F|].
    destruct (comp_size_exists ny nx c8 fgl p Hp F) as (k0 & Ck0 & _).
    pose proof (comp_size_fwd p k0 Hp Ck0) as Ck0'.
    rewrite (comp_size_unique _ _ _ _ _ _ _ Ck Ck0') in Hk. exists k0. split; assumption.
Qed.

Lemma qualifies_out q : q < npx NY NX -> qualifies NY NX c8 npix fgl' q -> exists p, p < npx ny nx /\ q = sigma p.
Proof. intros Hq [F _]. apply Hfg_out; assumption. Qed.

(* ---------- least pixel of a label ---------- *)
Lemma least_with (P : nat -> Prop) (Pdec : forall m, {P m} + {~ P m}) n :
  P n -> exists m, P m /\ forall m', P m' -> m <= m'.
Proof.
  induction n as [n IH] using lt_wf_ind. intros Hn.
  assert (D : (exists m, m < n /\ P m) \/ forall m, m < n -> ~ P m).
  { clear IH Hn. induction n as [|n IHn]; [right; intros; lia|].
    destruct IHn as [(m & Hm & Pm)|Hnone]; [left; exists m; split; [lia|exact Pm]|].
    destruct (Pdec n) as [Pn|NPn]; [left; exists n; split; [lia|exact Pn]|].
    right. intros m Hm. destruct (Nat.eq_dec m n) as [->|]; [exact NPn|apply Hnone; lia]. }
  destruct D as [(m & Hm & Pm)|Hnone]; [exact (IH m Hm Pm)|].
  exists n. split; [exact Hn|]. intros m' Pm'. destruct (Nat.le_gt_cases n m'); [assumption|].
  exfalso. exact (Hnone m' ltac:(lia) Pm').
Qed.

(* ---------- the label arrays ---------- *)
Variables (out out' : list nat).
Hypothesis Hd : detect ny nx c8 npix fgl = Seg out.
Hypothesis Hd' : detect NY NX c8 npix fgl' = Seg out'.
Notation L p := (nth p out 0).
Notation L' q := (nth q out' 0).

Lemma first_pixel p : p < npx ny nx -> L p <> 0 ->
  exists p0, p0 < npx ny nx /\ L p0 = L p /\ forall r, r < npx ny nx -> L r = L p -> p0 <= r.
Proof.
  intros Hp Np.
  destruct (least_with (fun m => m < npx ny nx /\ L m = L p)
              (fun m => match lt_dec m (npx ny nx), Nat.eq_dec (L m) (L p) with
                        | left a, left b => left (conj a b)
                        | right a, _ => right (fun H => a (proj1 H))
                        | _, right b => right (fun H => b (proj2 H))
                        end) p (conj Hp eq_refl)) as (p0 & [H1 H2] & H3).
  exists p0. split; [exact H1|]. split; [exact H2|]. intros r Hr Er. apply H3. split; assumption.
Qed.

(* same label in [out] iff same label in [out'] (for labelled pixels) *)
Lemma same_label_iff p q : p < npx ny nx -> q < npx ny nx -> L p <> 0 -> L q <> 0 ->
  L' (sigma p) <> 0 /\ L' (sigma q) <> 0 /\ (L p = L q <-> L' (sigma p) = L' (sigma q)).
Proof.
  intros Hp Hq Np Nq.
  destruct (detect_seg _ _ _ _ _ _ Hd) as (_ & S2 & S3 & _).
  destruct (detect_seg _ _ _ _ _ _ Hd') as (_ & S2' & S3' & _).
  assert (Np' : L' (sigma p) <> 0) by (apply S2'; [apply sigma_lt; exact Hp|]; apply qualifies_iff; [exact Hp|]; apply S2; assumption).
  assert (Nq' : L' (sigma q) <> 0) by (apply S2'; [apply sigma_lt; exact Hq|]; apply qualifies_iff; [exact Hq|]; apply S2; assumption).
  split; [exact Np'|]. split; [exact Nq'|].
  rewrite (S3 p q Hp Hq Np Nq), (S3' _ _ (sigma_lt p Hp) (sigma_lt q Hq) Np' Nq'). apply pconn_iff; assumption.
Qed.

Lemma nonzero_back p : p < npx ny nx -> L' (sigma p) <> 0 -> L p <> 0.
Proof.
  intros Hp N'.
  destruct (detect_seg _ _ _ _ _ _ Hd) as (_ & S2 & _).
  destruct (detect_seg _ _ _ _ _ _ Hd') as (_ & S2' & _).
  apply S2; [exact Hp|]. apply qualifies_iff; [exact Hp|]. apply S2'; [apply sigma_lt; exact Hp|exact N'].
Qed.

Lemma labelled_in_window q : q < npx NY NX -> L' q <> 0 -> exists p, p < npx ny nx /\ q = sigma p.
Proof.
  intros Hq N'. destruct (detect_seg _ _ _ _ _ _ Hd') as (_ & S2' & _).
  apply qualifies_out; [exact Hq|]. apply S2'; assumption.
Qed.

(* first pixels correspond *)
Lemma first_pixel_sigma p0 : p0 < npx ny nx -> L p0 <> 0 ->
  (forall r, r < npx ny nx -> L r = L p0 -> p0 <= r) ->
  forall r', r' < npx NY NX -> L' r' = L' (sigma p0) -> sigma p0 <= r'.
Proof.
  intros Hp0 N0 Hmin r' Hr' E.
  destruct (same_label_iff p0 p0 Hp0 Hp0 N0 N0) as (N0' & _ & _).
  destruct (labelled_in_window r' Hr' ltac:(congruence)) as (r & Hr & ->).
  assert (Nr : L r <> 0) by (apply nonzero_back; [exact Hr|congruence]).
  destruct (same_label_iff r p0 Hr Hp0 Nr N0) as (_ & _ & Hiff).
  assert (p0 <= r) by (apply Hmin; [exact Hr|apply Hiff; exact E]).
  destruct (Nat.eq_dec p0 r) as [->|]; [lia|]. apply Nat.lt_le_incl, sigma_mono. lia.
Qed.

(* the labels agree: by strong induction on the label value, in both directions *)
Lemma labels_agree k : forall p, p < npx ny nx -> L p <> 0 ->
  (L p = k -> L' (sigma p) = k) /\ (L' (sigma p) = k -> L p = k).
Proof.
  induction k as [k IH] using lt_wf_ind. intros p Hp Np.
  destruct (detect_seg _ _ _ _ _ _ Hd) as (_ & S2 & S3 & (N & SB & SO) & S5).
  destruct (detect_seg _ _ _ _ _ _ Hd') as (_ & S2' & S3' & (N' & SB' & SO') & S5').
  destruct (same_label_iff p p Hp Hp Np Np) as (Np' & _ & _).
  (* generic step: if label A of p is k and label B of sigma p is k2 > k we get a contradiction;
     written once for each direction *)
  split.
  - intros Ek.
    destruct (Nat.lt_trichotomy (L' (sigma p)) k) as [Hlt|[Heq|Hgt]]; [|exact Heq|].
    + exfalso. destruct (IH (L' (sigma p)) Hlt p Hp Np) as [_ B]. specialize (B eq_refl). lia.
    + exfalso.
      (* a canvas pixel with label k *)
      destruct (SO' k) as (q' & Hq' & Eq').
      { split; [lia|]. specialize (SB' (sigma p) (sigma_lt p Hp)). lia. }
      destruct (labelled_in_window q' Hq' ltac:(lia)) as (q & Hq & ->).
      assert (Nq : L q <> 0) by (apply nonzero_back; [exact Hq|lia]).
      destruct (same_label_iff p q Hp Hq Np Nq) as (_ & Nq' & Hiff).
      destruct (Nat.lt_trichotomy (L q) k) as [Hlt|[Heq|Hgt2]].
      * destruct (IH (L q) Hlt q Hq Nq) as [A _]. specialize (A eq_refl). lia.
      * assert (L' (sigma p) = L' (sigma q)) by (apply Hiff; lia). lia.
      * (* L p = k < L q  but  L' (sigma q) = k < L' (sigma p) *)
        destruct (first_pixel p Hp Np) as (p0 & Hp0 & Ep0 & Mp0).
        destruct (first_pixel q Hq Nq) as (q0 & Hq0 & Eq0 & Mq0).
        assert (Np0 : L p0 <> 0) by congruence. assert (Nq0 : L q0 <> 0) by congruence.
        assert (Mp0' : forall r, r < npx ny nx -> L r = L p0 -> p0 <= r) by (intros r Hr Er; apply Mp0; [exact Hr|congruence]).
        assert (Mq0' : forall r, r < npx ny nx -> L r = L q0 -> q0 <= r) by (intros r Hr Er; apply Mq0; [exact Hr|congruence]).
        pose proof (proj2 (S5 p0 q0 Hp0 Hq0 Np0 Nq0 Mp0' Mq0') ltac:(lia)) as Hlt0.
        destruct (same_label_iff p0 p Hp0 Hp Np0 Np) as (Np0' & _ & Hi1).
        destruct (same_label_iff q0 q Hq0 Hq Nq0 Nq) as (Nq0' & _ & Hi2).
        pose proof (proj1 Hi1 Ep0) as E1. pose proof (proj1 Hi2 Eq0) as E2.
        pose proof (first_pixel_sigma p0 Hp0 Np0 Mp0') as F1.
        pose proof (first_pixel_sigma q0 Hq0 Nq0 Mq0') as F2.
        pose proof (proj1 (S5' (sigma p0) (sigma q0) (sigma_lt _ Hp0) (sigma_lt _ Hq0) Np0' Nq0' F1 F2)
                          (sigma_mono _ _ Hlt0)) as Hc.
        lia.
  - intros Ek.
    destruct (Nat.lt_trichotomy (L p) k) as [Hlt|[Heq|Hgt]]; [|exact Heq|].
    + exfalso. destruct (IH (L p) Hlt p Hp Np) as [A _]. specialize (A eq_refl). lia.
    + exfalso.
      destruct (SO k) as (q & Hq & Eq).
      { split; [lia|]. specialize (SB p Hp). lia. }
      assert (Nq : L q <> 0) by lia.
      destruct (same_label_iff p q Hp Hq Np Nq) as (_ & Nq' & Hiff).
      destruct (Nat.lt_trichotomy (L' (sigma q)) k) as [Hlt|[Heq|Hgt2]].
      * destruct (IH (L' (sigma q)) Hlt q Hq Nq) as [_ B]. specialize (B eq_refl). lia.
      * assert (L p = L q) by (apply Hiff; lia). lia.
      * (* L' (sigma p) = k < L' (sigma q)  but  L q = k < L p *)
        destruct (first_pixel p Hp Np) as (p0 & Hp0 & Ep0 & Mp0).
        destruct (first_pixel q Hq Nq) as (q0 & Hq0 & Eq0 & Mq0).
        assert (Np0 : L p0 <> 0) by congruence. assert (Nq0 : L q0 <> 0) by congruence.
        assert (Mp0' : forall r, r < npx ny nx -> L r = L p0 -> p0 <= r) by (intros r Hr Er; apply Mp0; [exact Hr|congruence]).
        assert (Mq0' : forall r, r < npx ny nx -> L r = L q0 -> q0 <= r) by (intros r Hr Er; apply Mq0; [exact Hr|congruence]).
        pose proof (proj2 (S5 q0 p0 Hq0 Hp0 Nq0 Np0 Mq0' Mp0') ltac:(lia)) as Hlt0.
        destruct (same_label_iff p0 p Hp0 Hp Np0 Np) as (Np0' & _ & Hi1).
        destruct (same_label_iff q0 q Hq0 Hq Nq0 Nq) as (Nq0' & _ & Hi2).
        pose proof (proj1 Hi1 Ep0) as E1. pose proof (proj1 Hi2 Eq0) as E2.
        pose proof (first_pixel_sigma p0 Hp0 Np0 Mp0') as F1.
        pose proof (first_pixel_sigma q0 Hq0 Nq0 Mq0') as F2.
        pose proof (proj1 (S5' (sigma q0) (sigma p0) (sigma_lt _ Hq0) (sigma_lt _ Hp0) Nq0' Np0' F2 F1)
                          (sigma_mono _ _ Hlt0)) as Hc.
        lia.
Qed.

Lemma label_transport p : p < npx ny nx -> L' (sigma p) = L p.
Proof.
  intros Hp. destruct (Nat.eq_dec (L p) 0) as [E0|N0].
  - destruct (Nat.eq_dec (L' (sigma p)) 0) as [E0'|N0']; [congruence|].
    exfalso. apply (nonzero_back p Hp N0'). exact E0.
  - apply (labels_agree (L p) p Hp N0). reflexivity.
Qed.

Lemma label_outside q : q < npx NY NX -> (forall p, p < npx ny nx -> q <> sigma p) -> L' q = 0.
Proof.
  intros Hq Hout. destruct (Nat.eq_dec (L' q) 0) as [|N0]; [assumption|].
  exfalso. destruct (labelled_in_window q Hq N0) as (p & Hp & ->). exact (Hout p Hp eq_refl).
Qed.
End Sigma.

(* ================================================================== *)
(* instantiation: the canvas foreground is the embedded foreground map *)
(* ================================================================== *)
Lemma nth_concat_rect {A} (d : A) NY NX (e : img A) y x :
  rect NY NX e -> y < NY -> x < NX -> nth (y * NX + x) (concat e) d = get d e y x.
Proof.
  intros [Hl Hr]. revert NY Hl y. induction Hr as [|r e Hlen Hr IH]; intros NY Hl y Hy Hx.
  - cbn in Hl. lia.
  - cbn [concat]. destruct y as [|y].
    + cbn [Nat.mul Nat.add]. rewrite app_nth1 by lia. reflexivity.
    + rewrite app_nth2 by (rewrite Hlen; cbn; lia).
      replace (S y * NX + x - length r) with (y * NX + x) by (rewrite Hlen; cbn; lia).
      cbn [length] in Hl. unfold get. cbn [nth]. apply (IH (length e) eq_refl y); lia.
Qed.

Lemma divmod_yx nx y x : x < nx -> (y * nx + x) / nx = y /\ (y * nx + x) mod nx = x.
Proof.
  intros Hx. split; symmetry.
  - apply (Nat.div_unique _ nx y x); lia.
  - apply (Nat.mod_unique _ nx y x); lia.
Qed.

Section Instance.
Variables (ny nx dy dx NY NX : nat) (c8 : bool) (npix : nat) (fg2 : img bool).
Hypothesis (Hr : rect ny nx fg2) (Hnx : 0 < nx) (HY : dy + ny <= NY) (HX : dx + nx <= NX).
Notation fgl := (concat fg2).
Notation fgl' := (concat (embed false dy dx NY NX fg2)).
Notation sg := (sigma nx dy dx NX).

Lemma sigma_yx y x : x < nx -> sg (y * nx + x) = (dy + y) * NX + (dx + x).
Proof. intros Hx. unfold sigma. destruct (divmod_yx nx y x Hx) as [-> ->]. lia. Qed.

Lemma fg_in p : p < npx ny nx -> fg fgl' (sg p) = fg fgl p.
Proof.
  intros Hp. pose proof (row_lt ny nx dy dx NY NX Hnx HY HX p Hp) as Hrow. pose proof (col_lt ny nx dy dx NY NX Hnx HY HX p) as Hcol.
  unfold fg.
  rewrite (Nat.div_mod p nx ltac:(lia)) at 2. rewrite (Nat.mul_comm nx (p / nx)).
  rewrite (nth_concat_rect false ny nx fg2 _ _ Hr Hrow Hcol).
  unfold sigma. replace (p / nx + dy) with (dy + p / nx) by lia. replace (p mod nx + dx) with (dx + p mod nx) by lia.
  rewrite (nth_concat_rect false NY NX _ _ _ (embed_rect false dy dx NY NX ny nx fg2 Hr HY HX)) by lia.
  destruct Hr as [Hl Hrows].
  apply get_embed_in; [lia|].
  rewrite Forall_forall in Hrows. rewrite (Hrows (nth (p / nx) fg2 [])); [exact Hcol|]. apply nth_In. lia.
Qed.

Lemma fg_out q : q < npx NY NX -> fg fgl' q = true -> exists p, p < npx ny nx /\ q = sg p.
Proof.
  intros Hq F. assert (HNX : 0 < NX) by lia.
  assert (Hy : q / NX < NY) by (apply Nat.div_lt_upper_bound; unfold npx in Hq; lia).
  assert (Hx : q mod NX < NX) by (apply Nat.mod_upper_bound; lia).
  pose proof (Nat.div_mod q NX ltac:(lia)) as Eq.
  unfold fg in F. rewrite Eq, (Nat.mul_comm NX) in F.
  rewrite (nth_concat_rect false NY NX _ _ _ (embed_rect false dy dx NY NX ny nx fg2 Hr HY HX) Hy Hx) in F.
  destruct (le_lt_dec dy (q / NX)) as [H1|H1]; [destruct (le_lt_dec (dy + ny) (q / NX)) as [H2|H2]|].
  2: destruct (le_lt_dec dx (q mod NX)) as [H3|H3]; [destruct (le_lt_dec (dx + nx) (q mod NX)) as [H4|H4]|].
  all: try (rewrite (get_embed_out false dy dx NY NX ny nx fg2) in F by (try assumption; lia); discriminate).
  exists ((q / NX - dy) * nx + (q mod NX - dx)). split.
  - unfold npx. assert ((q / NX - dy + 1) * nx <= ny * nx) by (apply Nat.mul_le_mono_r; lia). lia.
  - rewrite sigma_yx by lia. rewrite Eq at 1. 
    replace (dy + (q / NX - dy)) with (q / NX) by lia. replace (dx + (q mod NX - dx)) with (q mod NX) by lia. lia.
Qed.

Theorem detect_embed :
  match detect ny nx c8 npix fgl with
  | Seg out =>
      exists out', detect NY NX c8 npix fgl' = Seg out' /\ length out' = NY * NX /\
        (forall y x, y < ny -> x < nx -> nth ((dy + y) * NX + (dx + x)) out' 0 = nth (y * nx + x) out 0) /\
        (forall y x, y < NY -> x < NX -> ~ (dy <= y < dy + ny /\ dx <= x < dx + nx) -> nth (y * NX + x) out' 0 = 0)
  | NoDet => detect NY NX c8 npix fgl' = NoDet
  | Fuel => False
  end.
Proof.
  destruct (detect ny nx c8 npix fgl) as [| |out] eqn:Hd.
  - exact (detect_not_fuel _ _ _ _ _ Hd).
  - apply detect_nodet. intros q Hq Q.
    destruct (qualifies_out ny nx dy dx NY NX c8 npix fgl' fg_out q Hq Q) as (p & Hp & ->).
    apply (proj1 (detect_nodet _ _ _ _ _) Hd p Hp).
    apply (qualifies_iff ny nx dy dx NY NX Hnx HY HX c8 npix fgl fgl' fg_in fg_out p Hp). exact Q.
  - destruct (detect NY NX c8 npix fgl') as [| |out'] eqn:Hd'.
    + exfalso. exact (detect_not_fuel _ _ _ _ _ Hd').
    + exfalso. assert (Hno : detect ny nx c8 npix fgl = NoDet); [|congruence].
      apply detect_nodet. intros p Hp Q.
      apply (proj1 (detect_nodet _ _ _ _ _) Hd' (sg p) (sigma_lt ny nx dy dx NY NX Hnx HY HX p Hp)).
      apply (qualifies_iff ny nx dy dx NY NX Hnx HY HX c8 npix fgl fgl' fg_in fg_out p Hp). exact Q.
    + exists out'. split; [reflexivity|].
      split; [exact (proj1 (detect_seg _ _ _ _ _ _ Hd'))|]. split.
      * intros y x Hy Hx. rewrite <- sigma_yx by exact Hx.
        apply (label_transport ny nx dy dx NY NX Hnx HY HX c8 npix fgl fgl' fg_in fg_out out out' Hd Hd').
        unfold npx. assert ((y + 1) * nx <= ny * nx) by (apply Nat.mul_le_mono_r; lia). lia.
      * intros y x Hy Hx Hout.
        apply (label_outside ny nx dy dx NY NX c8 npix fgl' fg_out out' Hd').
        -- unfold npx. assert ((y + 1) * NX <= NY * NX) by (apply Nat.mul_le_mono_r; lia). lia.
        -- intros p Hp E. apply Hout.
           pose proof (row_lt ny nx dy dx NY NX Hnx HY HX p Hp). pose proof (col_lt ny nx dy dx NY NX Hnx HY HX p).
           assert (E1 : (y * NX + x) / NX = y /\ (y * NX + x) mod NX = x) by (apply divmod_yx; exact Hx).
           rewrite E in E1. rewrite (sigma_div ny nx dy dx NY NX Hnx HY HX), (sigma_mod ny nx dy dx NY NX Hnx HY HX) in E1. lia.
Qed.
End Instance.
