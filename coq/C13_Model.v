(* C13 — model of photutils.psf functional / image / gridded models.

   Part A (functional_models.py): the [evaluate] bodies of CircularGaussianSigmaPRF
   (1423-1455), CircularGaussianPRF (1181-1217), GaussianPRF (918-966), GaussianPSF
   (258-308), CircularGaussianPSF (605-638) and MoffatPSF (1766-1807) as expressions
   over Q, line by line (same let-structure, same operator precedence), with the
   library primitives as Section variables: [erf expf cosf sinf deg2rad powf : Q -> Q..]
   and the constants [sqrt2 = np.sqrt(2)], [f2s = GAUSSIAN_FWHM_TO_SIGMA], [pi = np.pi].
   Nothing is assumed about them here; the theorems state which facts they use.

   Part B (image_models.py:302-341, 256-277): ImagePSF.evaluate / _calc_bounding_box.
   Part C (gridded_models.py:219-243, 125-127, 381-388, 399-584): GriddedPSFModel
   _define_grid (lexsort), _xgrid/_ygrid (np.unique), _find_bounding_points
   (searchsorted-left, clip, Python negative-index wrap, np.where(...)[0][0]),
   _calc_bilinear_weights (REPAIRED code, fix C13-1: zero-width cells of one-row /
   one-column grids get unit width), _calc_interpolator (cache keyed by grid position),
   _calc_model_values (zero weights dropped), evaluate (index transform, fill).
   The cubic spline (scipy RectBivariateSpline, kx=ky=3, s=0) is a Section variable
   [spl data xi yi]; the only fact ever assumed of it is that it interpolates its knots.

   Values: Q.  [V = option Q], None = NaN.  [fillv : option V], None = fill_value None. *)
From Coq Require Import QArith Qround Qminmax ZArith List Bool.
From PV Require Import lib.Cases.
Import ListNotations.
Open Scope Q_scope.

Definition V := option Q.
Definition Qltb (a b : Q) : bool := negb (Qle_bool b a).
(* np.clip(v, lo, hi) = minimum(maximum(v, lo), hi) *)
Definition Qclip (v lo hi : Q) : Q := Qmin (Qmax v lo) hi.
Definition Zclip (v lo hi : Z) : Z := Z.min (Z.max v lo) hi.

(* ------------------------------------------------------------------ *)
(* Part A: analytic PRF / PSF models                                    *)
(* ------------------------------------------------------------------ *)
Section Analytic.
Variables (erf expf cosf sinf deg2rad : Q -> Q) (powf : Q -> Q -> Q).
Variables (sqrt2 f2s pi : Q).

Definition dpix : Q := 1 # 2.

(* CircularGaussianSigmaPRF.evaluate *)
Definition cgs_prf (x y flux x_0 y_0 sigma : Q) : Q :=
  flux / 4
  * ((erf ((x - x_0 + dpix) / (sqrt2 * sigma)) - erf ((x - x_0 - dpix) / (sqrt2 * sigma)))
     * (erf ((y - y_0 + dpix) / (sqrt2 * sigma)) - erf ((y - y_0 - dpix) / (sqrt2 * sigma)))).

(* CircularGaussianPRF.evaluate *)
Definition cg_prf (x y flux x_0 y_0 fwhm : Q) : Q :=
  let x0 := x - x_0 in
  let y0 := y - y_0 in
  let sigma := fwhm * f2s in
  flux / 4
  * ((erf ((x0 + dpix) / (sqrt2 * sigma)) - erf ((x0 - dpix) / (sqrt2 * sigma)))
     * (erf ((y0 + dpix) / (sqrt2 * sigma)) - erf ((y0 - dpix) / (sqrt2 * sigma)))).

(* GaussianPRF.evaluate with cost = c, sint = s *)
Definition g_prf_cs (x y flux x_0 y_0 x_fwhm y_fwhm c s : Q) : Q :=
  let x_sigma := x_fwhm * f2s in
  let y_sigma := y_fwhm * f2s in
  let dx := x - x_0 in
  let dy := y - y_0 in
  let cost := c in
  let sint := s in
  let x0 := dx * cost + dy * sint in
  let y0 := - dx * sint + dy * cost in
  flux / 4
  * ((erf ((x0 + dpix) / (sqrt2 * x_sigma)) - erf ((x0 - dpix) / (sqrt2 * x_sigma)))
     * (erf ((y0 + dpix) / (sqrt2 * y_sigma)) - erf ((y0 - dpix) / (sqrt2 * y_sigma)))).
Definition g_prf (x y flux x_0 y_0 x_fwhm y_fwhm theta : Q) : Q :=
  let theta := deg2rad theta in
  g_prf_cs x y flux x_0 y_0 x_fwhm y_fwhm (cosf theta) (sinf theta).

(* GaussianPSF.evaluate with cos(theta) = c, sin(theta) = s, sin(2 theta) = s2 *)
Definition g_psf_cs (x y flux x_0 y_0 x_fwhm y_fwhm c s s2 : Q) : Q :=
  let cost2 := c * c in
  let sint2 := s * s in
  let sin2t := s2 in
  let xstd := x_fwhm * f2s in
  let ystd := y_fwhm * f2s in
  let xstd2 := xstd * xstd in
  let ystd2 := ystd * ystd in
  let xdiff := x - x_0 in
  let ydiff := y - y_0 in
  let a := (1 # 2) * ((cost2 / xstd2) + (sint2 / ystd2)) in
  let b := (1 # 2) * ((sin2t / xstd2) - (sin2t / ystd2)) in
  let c := (1 # 2) * ((sint2 / xstd2) + (cost2 / ystd2)) in
  let amplitude := flux / (2 * pi * xstd * ystd) in
  amplitude * expf (- (a * (xdiff * xdiff)) - (b * xdiff * ydiff) - (c * (ydiff * ydiff))).
Definition g_psf (x y flux x_0 y_0 x_fwhm y_fwhm theta : Q) : Q :=
  let theta := deg2rad theta in
  g_psf_cs x y flux x_0 y_0 x_fwhm y_fwhm (cosf theta) (sinf theta) (sinf (2 * theta)).

(* CircularGaussianPSF.evaluate *)
Definition cg_psf (x y flux x_0 y_0 fwhm : Q) : Q :=
  let sigma2 := (fwhm * f2s) * (fwhm * f2s) in
  let amplitude := flux / (2 * pi * sigma2) in
  amplitude * expf (- (1 # 2) * ((x - x_0) * (x - x_0) + (y - y_0) * (y - y_0)) / sigma2).

(* MoffatPSF.evaluate *)
Definition moffat_psf (x y flux x_0 y_0 alpha beta : Q) : Q :=
  let amp := flux * (beta - 1) / (pi * (alpha * alpha)) in
  let r2 := (x - x_0) * (x - x_0) + (y - y_0) * (y - y_0) in
  amp * powf (1 + (r2 / (alpha * alpha))) (- beta).
End Analytic.

(* sums over integer windows: qsum f a n = f a + f (a+1) + ... + f (a+n-1) *)
Fixpoint qsum (f : Z -> Q) (a : Z) (n : nat) : Q :=
  match n with
  | O => 0
  | S n' => f a + qsum f (a + 1)%Z n'
  end.
Definition qsum2 (f : Q -> Q -> Q) (a : Z) (n : nat) (c : Z) (m : nat) : Q :=
  qsum (fun i => qsum (fun j => f (inject_Z i) (inject_Z j)) c m) a n.

(* ------------------------------------------------------------------ *)
(* shared list helpers                                                   *)
(* ------------------------------------------------------------------ *)
Definition nrows {A} (d : list (list A)) : Z := Z.of_nat (length d).
Definition ncols {A} (d : list (list A)) : Z := Z.of_nat (length (hd [] d)).
Definition pix (d : list (list Q)) (j i : Z) : Q := nth (Z.to_nat i) (nth (Z.to_nat j) d []) 0.
(* Python indexing with negative-index wrap *)
Definition pyget {A} (l : list A) (i : Z) (dflt : A) : A :=
  nth (Z.to_nat (if (i <? 0)%Z then Z.of_nat (length l) + i else i)%Z) l dflt.

Definition Qis_int (q : Q) : bool := (Qnum q mod Zpos (Qden q) =? 0)%Z.
(* invalid = (xi < 0) | (xi > nx - 1) | (yi < 0) | (yi > ny - 1) *)
Definition invalid (nx ny : Z) (xi yi : Q) : bool :=
  Qltb xi 0 || Qltb (inject_Z (nx - 1)) xi || Qltb yi 0 || Qltb (inject_Z (ny - 1)) yi.
Definition is_knot (nx ny : Z) (xi yi : Q) : bool :=
  Qis_int xi && Qis_int yi && negb (invalid nx ny xi yi).
(* a concrete knot-interpolating function (used to run the model and to show that the
   spline hypothesis is satisfiable): the data value at a knot, 0 elsewhere *)
Definition kspl (d : list (list Q)) (xi yi : Q) : Q :=
  if is_knot (ncols d) (nrows d) xi yi then pix d (Qfloor yi) (Qfloor xi) else 0.

(* ------------------------------------------------------------------ *)
(* Part B: ImagePSF                                                      *)
(* ------------------------------------------------------------------ *)
Section Image.
Variable spl : list (list Q) -> Q -> Q -> Q.
(* oversampling = (osy, osx) in (y, x) order; origin = (ox, oy) in (x, y) order *)
Definition ip_xi (osx : Z) (ox x x_0 : Q) : Q := inject_Z osx * (x - x_0) + ox.
Definition ip_yi (osy : Z) (oy y y_0 : Q) : Q := inject_Z osy * (y - y_0) + oy.
Definition ip_eval (data : list (list Q)) (osy osx : Z) (ox oy : Q) (fillv : option V)
           (x y flux x_0 y_0 : Q) : V :=
  let xi := ip_xi osx ox x x_0 in
  let yi := ip_yi osy oy y y_0 in
  let evaluated := flux * spl data xi yi in
  match fillv with
  | Some f => if invalid (ncols data) (nrows data) xi yi then f else Some evaluated
  | None => Some evaluated
  end.
End Image.
(* origin=None default: ((nx-1)/2, (ny-1)/2) *)
Definition default_origin (nx ny : Z) : Q * Q :=
  ((inject_Z nx - 1) / 2, (inject_Z ny - 1) / 2).
(* _calc_bounding_box -> ((ylo, yhi), (xlo, xhi)) *)
Definition ip_bbox (nx ny osy osx : Z) (ox oy x_0 y_0 : Q) : (Q * Q) * (Q * Q) :=
  let dy := inject_Z ny / 2 / inject_Z osy in
  let dx := inject_Z nx / 2 / inject_Z osx in
  let xshift := ((inject_Z nx - 1) / 2 - ox) / inject_Z osx in
  let yshift := ((inject_Z ny - 1) / 2 - oy) / inject_Z osy in
  ((y_0 - dy + yshift, y_0 + dy + yshift), (x_0 - dx + xshift, x_0 + dx + xshift)).

(* ------------------------------------------------------------------ *)
(* Part C: GriddedPSFModel                                               *)
(* ------------------------------------------------------------------ *)
Definition pos := (Q * Q)%type.                     (* (x, y) *)
Definition pos_eqb (p q : pos) : bool := Qeq_bool (fst p) (fst q) && Qeq_bool (snd p) (snd q).
(* np.lexsort((x, y)): by y, then x; stable *)
Definition pos_leb (p q : pos) : bool :=
  Qltb (snd p) (snd q) || (Qeq_bool (snd p) (snd q) && Qle_bool (fst p) (fst q)).
Fixpoint insert_by {A} (leb : A -> A -> bool) (a : A) (l : list A) : list A :=
  match l with
  | [] => [a]
  | b :: r => if leb a b then a :: b :: r else b :: insert_by leb a r
  end.
Definition sort_by {A} (leb : A -> A -> bool) (l : list A) : list A :=
  fold_right (insert_by leb) [] l.
(* np.unique: sorted, duplicates removed *)
Fixpoint dedup (l : list Q) : list Q :=
  match l with
  | a :: ((b :: _) as r) => if Qeq_bool a b then dedup r else a :: dedup r
  | _ => l
  end.
Definition unique (l : list Q) : list Q := dedup (sort_by Qle_bool l).
(* np.searchsorted(grid, v) (side='left'): number of entries < v *)
Definition searchsorted (grid : list Q) (v : Q) : Z :=
  Z.of_nat (length (filter (fun g => Qltb g v) grid)).
(* np.where(cond)[0][0] *)
Fixpoint find_first {A} (p : A -> bool) (l : list A) (i : Z) : Z :=
  match l with
  | [] => 0%Z
  | a :: r => if p a then i else find_first p r (i + 1)%Z
  end.

Record grid := {
  g_data : list (list (list Q));     (* stamps, lexsorted *)
  g_xypos : list pos;                 (* lexsorted grid positions *)
  g_xgrid : list Q;
  g_ygrid : list Q;
  g_osy : Z; g_osx : Z;
  g_fill : option V }.

(* __init__ / _define_grid *)
Definition mk_grid (stamps : list (list (list Q))) (xypos : list pos) (osy osx : Z)
           (fillv : option V) : grid :=
  let srt := sort_by (fun a b => pos_leb (fst a) (fst b)) (combine xypos stamps) in
  {| g_data := map snd srt; g_xypos := map fst srt;
     g_xgrid := unique (map fst xypos); g_ygrid := unique (map snd xypos);
     g_osy := osy; g_osx := osx; g_fill := fillv |}.

(* the lower index of the bracketing interval: clip(searchsorted - 1, 0, len - 2) *)
Definition bracket (gridv : list Q) (v : Q) : Z :=
  Zclip (searchsorted gridv v - 1) 0 (Z.of_nat (length gridv) - 2).

(* _find_bounding_points -> ((ll, lr, ul, ur), (x0, x1, y0, y1)) *)
Definition find_bounding_points (g : grid) (x y : Q) : (Z * Z * Z * Z) * (Q * Q * Q * Q) :=
  let xidx := bracket (g_xgrid g) x in
  let yidx := bracket (g_ygrid g) y in
  let x0 := pyget (g_xgrid g) xidx 0 in
  let x1 := pyget (g_xgrid g) (xidx + 1) 0 in
  let y0 := pyget (g_ygrid g) yidx 0 in
  let y1 := pyget (g_ygrid g) (yidx + 1) 0 in
  let at_ px py := find_first (fun p => pos_eqb p (px, py)) (g_xypos g) 0 in
  ((at_ x0 y0, at_ x1 y0, at_ x0 y1, at_ x1 y1), (x0, x1, y0, y1)).

(* _calc_bilinear_weights (repaired: zero-width cell -> unit width) *)
Definition bilinear_weights (xi yi : Q) (gxy : Q * Q * Q * Q) : list Q :=
  let '(x0, x1, y0, y1) := gxy in
  let xi := Qclip xi x0 x1 in
  let yi := Qclip yi y0 y1 in
  let x1 := if Qeq_bool x1 x0 then x0 + 1 else x1 in
  let y1 := if Qeq_bool y1 y0 then y0 + 1 else y1 in
  let norm := (x1 - x0) * (y1 - y0) in
  [ (x1 - xi) * (y1 - yi) / norm; (xi - x0) * (y1 - yi) / norm;
    (x1 - xi) * (yi - y0) / norm; (xi - x0) * (yi - y0) / norm ].

(* the interpolator cache: grid position -> index of the stamp the spline was built from *)
Definition cache := list (pos * Z).
Fixpoint cache_get (c : cache) (p : pos) : option Z :=
  match c with
  | [] => None
  | (q, k) :: r => if pos_eqb q p then Some k else cache_get r p
  end.
(* _calc_interpolator *)
Definition calc_interpolator (g : grid) (c : cache) (gidx : Z) : Z * cache :=
  let xypos := pyget (g_xypos g) gidx (0, 0) in
  match cache_get c xypos with
  | Some k => (k, c)
  | None => (gidx, c ++ [(xypos, gidx)])
  end.

Section Gridded.
Variable spl : list (list Q) -> Q -> Q -> Q.

Definition stamp (g : grid) (k : Z) : list (list Q) := pyget (g_data g) k [].
Definition g_nx (g : grid) : Z := ncols (hd [] (g_data g)).
Definition g_ny (g : grid) : Z := nrows (hd [] (g_data g)).

(* _calc_model_values: returns the four interpolator identities (stamp indices), the
   weights and the new cache *)
Definition prepare (g : grid) (c : cache) (x_0 y_0 : Q) : list (Z * Q) * cache :=
  let '((ll, lr, ul, ur), gxy) := find_bounding_points g x_0 y_0 in
  let '(i1, c1) := calc_interpolator g c ll in
  let '(i2, c2) := calc_interpolator g c1 lr in
  let '(i3, c3) := calc_interpolator g c2 ul in
  let '(i4, c4) := calc_interpolator g c3 ur in
  let weights := bilinear_weights x_0 y_0 gxy in
  (* idx = np.where(weights != 0) *)
  (filter (fun iw => negb (Qeq_bool (snd iw) 0)) (combine [i1; i2; i3; i4] weights), c4).

Definition model_values (g : grid) (iw : list (Z * Q)) (xi yi : Q) : Q :=
  fold_left (fun result '(k, w) => result + spl (stamp g k) xi yi * w) iw 0.

(* evaluate at one point, given the prepared interpolators/weights *)
Definition g_point (g : grid) (iw : list (Z * Q)) (flux x_0 y_0 : Q) (xy : Q * Q) : V :=
  let '(x, y) := xy in
  let xi := inject_Z (g_osx g) * (x - x_0) + (inject_Z (g_nx g) - 1) / 2 in
  let yi := inject_Z (g_osy g) * (y - y_0) + (inject_Z (g_ny g) - 1) / 2 in
  let evaluated := flux * model_values g iw xi yi in
  match g_fill g with
  | Some f => if invalid (g_nx g) (g_ny g) xi yi then f else Some evaluated
  | None => Some evaluated
  end.

(* GriddedPSFModel.evaluate on a list of points: values and the new cache *)
Definition g_eval (g : grid) (c : cache) (flux x_0 y_0 : Q) (pts : list (Q * Q)) : list V * cache :=
  let '(iw, c') := prepare g c x_0 y_0 in
  (map (g_point g iw flux x_0 y_0) pts, c').
End Gridded.

(* _calc_bounding_box of the gridded model *)
Definition g_bbox (g : grid) (x_0 y_0 : Q) : (Q * Q) * (Q * Q) :=
  let dy := inject_Z (nrows (hd [] (g_data g))) / 2 / inject_Z (g_osy g) in
  let dx := inject_Z (ncols (hd [] (g_data g))) / 2 / inject_Z (g_osx g) in
  ((y_0 - dy, y_0 + dy), (x_0 - dx, x_0 + dx)).

(* ------------------------------------------------------------------ *)
(* correspondence                                                         *)
(* ------------------------------------------------------------------ *)
(* what the implementation returned at one point: identical to fill_value (NaN-aware),
   a value on the exact lattice of the case, or some other finite value *)
Inductive obs := OFill | OVal (q : Q) | OOther.
Definition obs_is_fill (o : obs) : bool := match o with OFill => true | _ => false end.

Definition check_point (fillv : option V) (inv knot : bool) (v : V) (o : obs) : bool :=
  match fillv, inv with
  | Some _, true => obs_is_fill o
  | _, _ =>
      if knot then
        match v, o with
        | Some q, OVal q' => Qeq_bool q q'
        | Some q, OFill => match fillv with Some (Some f) => Qeq_bool q f | _ => false end
        | _, _ => false
        end
      else
        match fillv with
        | Some None => negb (obs_is_fill o)     (* a spline of finite data is never NaN *)
        | _ => true
        end
  end.

Definition zdata (d : list (list Z)) : list (list Q) := map (map inject_Z) d.
Definition qpair_eqb (a b : Q * Q) : bool := Qeq_bool (fst a) (fst b) && Qeq_bool (snd a) (snd b).
Definition bbox_eqb (a b : (Q * Q) * (Q * Q)) : bool :=
  qpair_eqb (fst a) (fst b) && qpair_eqb (snd a) (snd b).
Fixpoint all2 {A B} (f : A -> B -> bool) (a : list A) (b : list B) : bool :=
  match a, b with
  | [], [] => true
  | x :: a', y :: b' => f x y && all2 f a' b'
  | _, _ => false
  end.

(* ---- ImagePSF case: data, (osy, osx), origin (None = default), fill, params, points,
        observations, observed bounding box *)
Definition icase := (list (list Z) * (Z * Z) * option (Q * Q) * option V * (Q * Q * Q)
                     * list (Q * Q) * list obs * ((Q * Q) * (Q * Q)))%type.
Definition icheck (c : icase) : bool :=
  let '(d, (osy, osx), org, fillv, (flux, x_0, y_0), pts, os, bb) := c in
  let data := zdata d in
  let nx := ncols data in let ny := nrows data in
  let '(ox, oy) := match org with Some o => o | None => default_origin nx ny end in
  all2 (fun '(x, y) o =>
          let xi := ip_xi osx ox x x_0 in
          let yi := ip_yi osy oy y y_0 in
          check_point fillv (invalid nx ny xi yi) (is_knot nx ny xi yi)
                      (ip_eval kspl data osy osx ox oy fillv x y flux x_0 y_0) o) pts os
  && bbox_eqb (ip_bbox nx ny osy osx ox oy x_0 y_0) bb.
Definition imodel_out (c : icase) :=
  let '(d, (osy, osx), org, fillv, (flux, x_0, y_0), pts, os, bb) := c in
  let data := zdata d in
  let nx := ncols data in let ny := nrows data in
  let '(ox, oy) := match org with Some o => o | None => default_origin nx ny end in
  (map (fun '(x, y) => (ip_xi osx ox x x_0, ip_yi osy oy y y_0,
                        ip_eval kspl data osy osx ox oy fillv x y flux x_0 y_0)) pts,
   ip_bbox nx ny osy osx ox oy x_0 y_0).

(* ---- GriddedPSFModel case: stamps and positions in input order, oversampling, fill,
        a history of operations on the same model, final cache keys *)
Inductive gop :=
| GEval (flux x_0 y_0 : Q) (pts : list (Q * Q)) (os : list obs) (bb : (Q * Q) * (Q * Q))
| GCopy          (* model = model.copy(): shares data and cache *)
| GDeepcopy.     (* model = model.deepcopy(): equal data, equal cache *)
Definition gcase := (list (list (list Z)) * list (Q * Q) * (Z * Z) * option V
                     * list gop * list (Q * Q))%type.

Definition gstep (g : grid) (st : cache * bool) (op : gop) : cache * bool :=
  let '(c, ok) := st in
  match op with
  | GEval flux x_0 y_0 pts os bb =>
      let '(iw, c') := prepare g c x_0 y_0 in
      let nx := g_nx g in let ny := g_ny g in
      let good :=
        all2 (fun xy o =>
                let xi := inject_Z (g_osx g) * (fst xy - x_0) + (inject_Z nx - 1) / 2 in
                let yi := inject_Z (g_osy g) * (snd xy - y_0) + (inject_Z ny - 1) / 2 in
                check_point (g_fill g) (invalid nx ny xi yi) (is_knot nx ny xi yi)
                            (g_point kspl g iw flux x_0 y_0 xy) o) pts os
        && bbox_eqb (g_bbox g x_0 y_0) bb in
      (c', ok && good)
  | GCopy => (c, ok)
  | GDeepcopy => (c, ok)
  end.
Definition keys_subset (a b : list pos) : bool := forallb (fun p => existsb (pos_eqb p) b) a.
Definition gcheck (c : gcase) : bool :=
  let '(stamps, xypos, (osy, osx), fillv, ops, keys) := c in
  let g := mk_grid (map zdata stamps) xypos osy osx fillv in
  let '(cf, ok) := fold_left (gstep g) ops ([], true) in
  ok && keys_subset (map fst cf) keys && keys_subset keys (map fst cf)
  && (Z.of_nat (length cf) =? Z.of_nat (length keys))%Z.
Definition gmodel_out (c : gcase) :=
  let '(stamps, xypos, (osy, osx), fillv, ops, keys) := c in
  let g := mk_grid (map zdata stamps) xypos osy osx fillv in
  (g_xypos g, g_xgrid g, g_ygrid g,
   map (fun op => match op with
                  | GEval flux x_0 y_0 pts os bb =>
                      let '(iw, _) := prepare g [] x_0 y_0 in
                      Some (find_bounding_points g x_0 y_0, iw,
                            map (g_point kspl g iw flux x_0 y_0) pts)
                  | _ => None end) ops).

(* ---- analytic models with exact stand-ins for the primitives (the harness installs the
        same stand-ins in photutils.psf.functional_models before calling the models) *)
Definition erf_std (t : Q) : Q := Qclip t (-1) 1.
Definition exp_std (t : Q) : Q := Qclip (1 + t / 8) 0 1.
Definition cos_std (t : Q) : Q := 1 - t / 2.
Definition sin_std (t : Q) : Q := t / 4.
Definition deg2rad_std (t : Q) : Q := t / 8.
Definition sqrt2_std : Q := 2.
Definition f2s_std : Q := 1 # 2.
Definition pi_std : Q := 4.

(* kind: 0 CircularGaussianSigmaPRF, 1 CircularGaussianPRF, 2 GaussianPRF, 3 GaussianPSF,
   4 CircularGaussianPSF; params = flux, x_0, y_0, then the shape parameters *)
Definition acase := (Z * list Q * list (Q * Q) * list Q)%type.
Definition a_eval (kind : Z) (ps : list Q) (xy : Q * Q) : option Q :=
  let '(x, y) := xy in
  match kind, ps with
  | 0%Z, [flux; x_0; y_0; sigma] =>
      Some (cgs_prf erf_std sqrt2_std x y flux x_0 y_0 sigma)
  | 1%Z, [flux; x_0; y_0; fwhm] =>
      Some (cg_prf erf_std sqrt2_std f2s_std x y flux x_0 y_0 fwhm)
  | 2%Z, [flux; x_0; y_0; xf; yf; theta] =>
      Some (g_prf erf_std cos_std sin_std deg2rad_std sqrt2_std f2s_std x y flux x_0 y_0 xf yf theta)
  | 3%Z, [flux; x_0; y_0; xf; yf; theta] =>
      Some (g_psf exp_std cos_std sin_std deg2rad_std f2s_std pi_std x y flux x_0 y_0 xf yf theta)
  | 4%Z, [flux; x_0; y_0; fwhm] =>
      Some (cg_psf exp_std f2s_std pi_std x y flux x_0 y_0 fwhm)
  | _, _ => None
  end.
Definition acheck (c : acase) : bool :=
  let '(kind, ps, pts, vals) := c in
  all2 (fun xy v => match a_eval kind ps xy with Some m => Qeq_bool m v | None => false end) pts vals.
Definition amodel_out (c : acase) :=
  let '(kind, ps, pts, vals) := c in map (a_eval kind ps) pts.

(* ---- one case type for the harness *)
Inductive case := CImage (c : icase) | CGrid (c : gcase) | CAnalytic (c : acase).
Definition check_case (c : case) : bool :=
  match c with CImage c => icheck c | CGrid c => gcheck c | CAnalytic c => acheck c end.
