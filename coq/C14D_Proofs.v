(* C14D -- proofs about the per-source statistics of C14D_Model (all over Q / nat / Z:
   closed under the global context). *)
From Coq Require Import List Arith ZArith QArith Qabs Qminmax Qreduction Bool Lia Lqa Setoid Morphisms.
From PV Require Import C14D_Model.
Import ListNotations.
Open Scope Q_scope.

(* ================================================================== *)
(* 0. sums                                                              *)
(* ================================================================== *)
Lemma qsum_nil : qsum [] = 0.
Proof. reflexivity. Qed.
Lemma qsum_cons a l : qsum (a :: l) == a + qsum l.
Proof. unfold qsum; cbn [fold_right]. apply Qred_correct. Qed.
Global Opaque qsum.

Lemma qsum_app a b : qsum (a ++ b) == qsum a + qsum b.
Proof.
  induction a as [|x a IH]; cbn [app].
  - rewrite qsum_nil. ring.
  - rewrite !qsum_cons, IH. ring.
Qed.
Lemma qsum_rev l : qsum (rev l) == qsum l.
Proof.
  induction l as [|x l IH]; cbn [rev]; [reflexivity|].
  rewrite qsum_app, !qsum_cons, qsum_nil, IH. ring.
Qed.
Lemma qsum_map_ext {A} (f g : A -> Q) l :
  (forall a, In a l -> f a == g a) -> qsum (map f l) == qsum (map g l).
Proof.
  induction l as [|x l IH]; intros H; cbn [map]; [reflexivity|].
  rewrite !qsum_cons, (H x (or_introl eq_refl)), IH; [reflexivity|].
  intros a Ha; apply H; right; exact Ha.
Qed.
Lemma qsum_map_plus {A} (f g : A -> Q) l :
  qsum (map (fun a => f a + g a) l) == qsum (map f l) + qsum (map g l).
Proof.
  induction l as [|x l IH]; cbn [map]; [rewrite !qsum_nil; ring|].
  rewrite !qsum_cons, IH. ring.
Qed.
Lemma qsum_map_scale {A} (k : Q) (f : A -> Q) l :
  qsum (map (fun a => k * f a) l) == k * qsum (map f l).
Proof.
  induction l as [|x l IH]; cbn [map]; [rewrite !qsum_nil; ring|].
  rewrite !qsum_cons, IH. ring.
Qed.
Lemma qsum_map_zero {A} (l : list A) : qsum (map (fun _ => 0) l) == 0.
Proof.
  induction l as [|x l IH]; cbn [map]; [rewrite qsum_nil; reflexivity|].
  rewrite qsum_cons, IH. ring.
Qed.
Lemma qsum_map_const {A} (k : Q) (l : list A) :
  qsum (map (fun _ => k) l) == k * inject_Z (Z.of_nat (length l)).
Proof.
  induction l as [|x l IH]; [cbn [map length]; rewrite qsum_nil; cbn; ring|].
  cbn [map]. rewrite qsum_cons, IH. cbn [length]. rewrite Nat2Z.inj_succ.
  unfold Z.succ. rewrite inject_Z_plus. ring.
Qed.
Lemma qsum_map_le {A} (f g : A -> Q) l :
  (forall a, In a l -> f a <= g a) -> qsum (map f l) <= qsum (map g l).
Proof.
  induction l as [|x l IH]; intros H; cbn [map]; [rewrite qsum_nil; apply Qle_refl|].
  rewrite !qsum_cons. apply Qplus_le_compat; [apply H; left; reflexivity|].
  apply IH. intros a Ha; apply H; right; exact Ha.
Qed.
Lemma qsum_map_nonneg {A} (f : A -> Q) l :
  (forall a, In a l -> 0 <= f a) -> 0 <= qsum (map f l).
Proof.
  intros H. rewrite <- (qsum_map_zero l). apply qsum_map_le. exact H.
Qed.
(* a sum of non-negative terms is 0 only if every term is *)
Lemma qsum_map_zero_inv {A} (f : A -> Q) l :
  (forall a, In a l -> 0 <= f a) -> qsum (map f l) == 0 -> forall a, In a l -> f a == 0.
Proof.
  induction l as [|x l IH]; intros Hn Hs a Ha; [destruct Ha|].
  cbn [map] in Hs. rewrite qsum_cons in Hs.
  assert (H1 : 0 <= f x) by (apply Hn; left; reflexivity).
  assert (H2 : 0 <= qsum (map f l)) by (apply qsum_map_nonneg; intros b Hb; apply Hn; right; exact Hb).
  destruct Ha as [<-|Ha]; [lra|].
  apply IH; [intros b Hb; apply Hn; right; exact Hb|lra|exact Ha].
Qed.
Lemma qsum_map_abs {A} (f : A -> Q) l :
  Qabs (qsum (map f l)) <= qsum (map (fun a => Qabs (f a)) l).
Proof.
  induction l as [|x l IH]; cbn [map]; [rewrite qsum_nil; cbn; lra|].
  rewrite !qsum_cons. eapply Qle_trans; [apply Qabs_triangle|].
  apply Qplus_le_compat; [apply Qle_refl|exact IH].
Qed.
(* sum over the elements selected by a predicate *)
Lemma qsum_filter {A} (p : A -> bool) (f : A -> Q) l :
  qsum (map f (filter p l)) == qsum (map (fun a => if p a then f a else 0) l).
Proof.
  induction l as [|x l IH]; cbn [filter map]; [reflexivity|].
  destruct (p x); cbn [map]; rewrite !qsum_cons, IH; ring.
Qed.
Lemma qsum_flat_map {A} (g : A -> list Q) l :
  qsum (flat_map g l) == qsum (map (fun a => qsum (g a)) l).
Proof.
  induction l as [|x l IH]; cbn [flat_map map]; [reflexivity|].
  rewrite qsum_app, qsum_cons, IH. reflexivity.
Qed.

(* ---------- seq ---------- *)
Lemma skipn_seq k s n : skipn k (seq s n) = seq (s + k) (n - k).
Proof.
  revert s n; induction k as [|k IH]; intros s n.
  - rewrite Nat.add_0_r, Nat.sub_0_r. reflexivity.
  - destruct n as [|n]; [reflexivity|]. cbn [seq skipn]. rewrite IH.
    replace (S s + k)%nat with (s + S k)%nat by lia. reflexivity.
Qed.
Lemma firstn_seq k s n : firstn k (seq s n) = seq s (Nat.min k n).
Proof.
  revert s n; induction k as [|k IH]; intros s n; [reflexivity|].
  destruct n as [|n]; [reflexivity|]. cbn [seq firstn Nat.min]. rewrite IH. reflexivity.
Qed.
Lemma rev_seq n : rev (seq 0 n) = map (fun i => (n - 1 - i)%nat) (seq 0 n).
Proof.
  induction n as [|n IH]; [reflexivity|].
  rewrite seq_S, rev_app_distr. cbn [rev app Nat.add].
  rewrite IH. change (seq 0 n ++ [n]) with (seq 0 n ++ [(0 + n)%nat]). rewrite <- seq_S.
  cbn [seq map]. replace (S n - 1 - 0)%nat with n by lia. f_equal.
  rewrite <- seq_shift, map_map. apply map_ext_in. intros i Hi. apply in_seq in Hi. lia.
Qed.
(* a sum over i < n read backwards *)
Lemma qsum_seq_reflect (f : nat -> Q) n :
  qsum (map (fun i => f (n - 1 - i)%nat) (seq 0 n)) == qsum (map f (seq 0 n)).
Proof.
  rewrite <- (qsum_rev (map f (seq 0 n))), <- map_rev, rev_seq, map_map. reflexivity.
Qed.
(* a sum over a sub-range as a sum over the whole range with an indicator *)
Lemma qsum_seq_range (f : nat -> Q) a n N :
  (a + n <= N)%nat ->
  qsum (map f (seq a n))
  == qsum (map (fun i => if ((a <=? i) && (i <? a + n))%nat then f i else 0) (seq 0 N)).
Proof.
  intros H.
  replace (seq 0 N) with (seq 0 a ++ seq a n ++ seq (a + n) (N - (a + n))).
  2:{ rewrite <- seq_app. replace (seq 0 a) with (seq 0 a) by reflexivity.
      change a with (0 + a)%nat at 2. rewrite <- seq_app. f_equal. lia. }
  rewrite !map_app, !qsum_app.
  rewrite (qsum_map_ext _ (fun _ => 0) (seq 0 a)).
  2:{ intros i Hi. apply in_seq in Hi. destruct (a <=? i)%nat eqn:E; [apply Nat.leb_le in E; lia|reflexivity]. }
  rewrite (qsum_map_ext _ (fun _ => 0) (seq (a + n) _)).
  2:{ intros i Hi. apply in_seq in Hi. destruct (i <? a + n)%nat eqn:E; [apply Nat.ltb_lt in E; lia|].
      rewrite andb_false_r. reflexivity. }
  rewrite !qsum_map_zero.
  assert (E : qsum (map (fun i => if ((a <=? i) && (i <? a + n))%nat then f i else 0) (seq a n))
              == qsum (map f (seq a n))); [|rewrite E; ring].
  apply qsum_map_ext. intros i Hi. apply in_seq in Hi.
  assert (E1 : (a <=? i)%nat = true) by (apply Nat.leb_le; lia).
  assert (E2 : (i <? a + n)%nat = true) by (apply Nat.ltb_lt; lia).
  rewrite E1, E2. reflexivity.
Qed.

(* ---------- 2-D sums ---------- *)
Lemma sum2d_eq ny nx f :
  sum2d ny nx f = qsum (map (fun y => qsum (map (f y) (seq 0 nx))) (seq 0 ny)).
Proof. unfold sum2d, isum, tab. rewrite map_map. reflexivity. Qed.
Lemma isum_tab ny nx f : isum (tab ny nx f) = sum2d ny nx f.
Proof. reflexivity. Qed.

Lemma sum2d_ext ny nx f g :
  (forall y x, (y < ny)%nat -> (x < nx)%nat -> f y x == g y x) -> sum2d ny nx f == sum2d ny nx g.
Proof.
  intros H. rewrite !sum2d_eq. apply qsum_map_ext. intros y Hy. apply in_seq in Hy.
  apply qsum_map_ext. intros x Hx. apply in_seq in Hx. apply H; lia.
Qed.
Lemma sum2d_plus ny nx f g :
  sum2d ny nx (fun y x => f y x + g y x) == sum2d ny nx f + sum2d ny nx g.
Proof.
  rewrite !sum2d_eq, <- qsum_map_plus. apply qsum_map_ext. intros y _. apply qsum_map_plus.
Qed.
Lemma sum2d_scale ny nx k f :
  sum2d ny nx (fun y x => k * f y x) == k * sum2d ny nx f.
Proof.
  rewrite !sum2d_eq, <- qsum_map_scale. apply qsum_map_ext. intros y _. apply qsum_map_scale.
Qed.
Lemma sum2d_opp ny nx f : sum2d ny nx (fun y x => - f y x) == - sum2d ny nx f.
Proof.
  rewrite (sum2d_ext _ _ _ (fun y x => (-1) * f y x)); [rewrite sum2d_scale; ring|].
  intros; ring.
Qed.
Lemma sum2d_zero ny nx : sum2d ny nx (fun _ _ => 0) == 0.
Proof.
  rewrite sum2d_eq. rewrite (qsum_map_ext _ (fun _ => 0)); [apply qsum_map_zero|].
  intros y _. apply qsum_map_zero.
Qed.
Lemma sum2d_le ny nx f g :
  (forall y x, (y < ny)%nat -> (x < nx)%nat -> f y x <= g y x) -> sum2d ny nx f <= sum2d ny nx g.
Proof.
  intros H. rewrite !sum2d_eq. apply qsum_map_le. intros y Hy. apply in_seq in Hy.
  apply qsum_map_le. intros x Hx. apply in_seq in Hx. apply H; lia.
Qed.
Lemma sum2d_nonneg ny nx f :
  (forall y x, (y < ny)%nat -> (x < nx)%nat -> 0 <= f y x) -> 0 <= sum2d ny nx f.
Proof. intros H. rewrite <- (sum2d_zero ny nx). apply sum2d_le. exact H. Qed.
Lemma sum2d_zero_inv ny nx f :
  (forall y x, (y < ny)%nat -> (x < nx)%nat -> 0 <= f y x) -> sum2d ny nx f == 0 ->
  forall y x, (y < ny)%nat -> (x < nx)%nat -> f y x == 0.
Proof.
  intros Hn Hs y x Hy Hx. rewrite sum2d_eq in Hs.
  assert (Hrow : qsum (map (f y) (seq 0 nx)) == 0).
  { apply (qsum_map_zero_inv (fun y => qsum (map (f y) (seq 0 nx))) (seq 0 ny)); [|exact Hs|apply in_seq; lia].
    intros y' Hy'. apply in_seq in Hy'. apply qsum_map_nonneg. intros x' Hx'. apply in_seq in Hx'.
    apply Hn; lia. }
  apply (qsum_map_zero_inv (f y) (seq 0 nx)); [|exact Hrow|apply in_seq; lia].
  intros x' Hx'. apply in_seq in Hx'. apply Hn; lia.
Qed.
Lemma sum2d_abs ny nx f : Qabs (sum2d ny nx f) <= sum2d ny nx (fun y x => Qabs (f y x)).
Proof.
  rewrite !sum2d_eq. eapply Qle_trans; [apply qsum_map_abs|].
  apply qsum_map_le. intros y _. apply qsum_map_abs.
Qed.
(* exchange of the two summations *)
Lemma sum2d_swap ny nx f : sum2d ny nx f == sum2d nx ny (fun x y => f y x).
Proof.
  rewrite !sum2d_eq. induction ny as [|ny IH].
  - cbn [seq map]. rewrite qsum_nil. symmetry.
    transitivity (qsum (map (fun _ : nat => 0) (seq 0 nx))); [|apply qsum_map_zero].
    apply qsum_map_ext. intros x _. reflexivity.
  - rewrite seq_S, map_app, qsum_app, IH. cbn [map Nat.add]. rewrite qsum_cons, qsum_nil.
    rewrite (qsum_map_ext (fun x => qsum (map (fun y => f y x) (seq 0 ny ++ [ny])))
                          (fun x => qsum (map (fun y => f y x) (seq 0 ny)) + f ny x)).
    2:{ intros x _. rewrite map_app, qsum_app. cbn [map]. rewrite qsum_cons, qsum_nil. ring. }
    rewrite qsum_map_plus. ring.
Qed.
Lemma sum2d_reflect_x ny nx f :
  sum2d ny nx (fun y x => f y (nx - 1 - x)%nat) == sum2d ny nx f.
Proof.
  rewrite !sum2d_eq. apply qsum_map_ext. intros y _. apply (qsum_seq_reflect (f y)).
Qed.
Lemma sum2d_reflect_y ny nx f :
  sum2d ny nx (fun y x => f (ny - 1 - y)%nat x) == sum2d ny nx f.
Proof.
  rewrite !sum2d_eq. apply (qsum_seq_reflect (fun y => qsum (map (f y) (seq 0 nx)))).
Qed.
(* a sum over a sub-rectangle as a sum over the whole array with an indicator *)
Definition inbox (y0 y1 x0 x1 y x : nat) : bool :=
  ((y0 <=? y) && (y <? y1) && ((x0 <=? x) && (x <? x1)))%nat.
Lemma sum2d_range ny nx f y0 y1 x0 x1 :
  (y0 <= y1 <= ny)%nat -> (x0 <= x1 <= nx)%nat ->
  qsum (map (fun y => qsum (map (f y) (seq x0 (x1 - x0)))) (seq y0 (y1 - y0)))
  == sum2d ny nx (fun y x => if inbox y0 y1 x0 x1 y x then f y x else 0).
Proof.
  intros Hy Hx. rewrite sum2d_eq.
  rewrite (qsum_seq_range _ y0 (y1 - y0) ny) by lia.
  apply qsum_map_ext. intros y _. unfold inbox.
  replace (y0 + (y1 - y0))%nat with y1 by lia.
  destruct ((y0 <=? y) && (y <? y1))%nat; cbn [andb].
  - rewrite (qsum_seq_range _ x0 (x1 - x0) nx) by lia.
    replace (x0 + (x1 - x0))%nat with x1 by lia. reflexivity.
  - symmetry. apply qsum_map_zero.
Qed.
(* a sum over the whole array as a sum over the explicit list of its pixels *)
Definition pixels (ny nx : nat) : list (nat * nat) := list_prod (seq 0 ny) (seq 0 nx).
Lemma sum2d_pixels ny nx f :
  sum2d ny nx f == qsum (map (fun p => f (fst p) (snd p)) (pixels ny nx)).
Proof.
  rewrite sum2d_eq. unfold pixels. generalize (seq 0 ny) as ly. intros ly.
  induction ly as [|y ly IH]; cbn [list_prod map]; [reflexivity|].
  rewrite qsum_cons, map_app, qsum_app, IH, map_map. reflexivity.
Qed.
Lemma in_pixels ny nx p : In p (pixels ny nx) <-> (fst p < ny)%nat /\ (snd p < nx)%nat.
Proof.
  destruct p as [y x]. unfold pixels. rewrite in_prod_iff, !in_seq. cbn [fst snd]. lia.
Qed.

(* ---------- arrays ---------- *)
Lemma pix_tab ny nx f y x : (y < ny)%nat -> (x < nx)%nat -> pix (tab ny nx f) y x = f y x.
Proof.
  intros Hy Hx. unfold pix, tab.
  rewrite (nth_indep _ [] (map (f 0%nat) (seq 0 nx))) by (rewrite map_length, seq_length; exact Hy).
  rewrite (map_nth (fun y => map (f y) (seq 0 nx)) (seq 0 ny) 0%nat y), seq_nth by exact Hy.
  rewrite (nth_indep _ 0 (f (0 + y)%nat 0%nat)) by (rewrite map_length, seq_length; exact Hx).
  rewrite (map_nth (f (0 + y)%nat) (seq 0 nx) 0%nat x), seq_nth by exact Hx. reflexivity.
Qed.
Lemma tab_ext ny nx f g :
  (forall y x, (y < ny)%nat -> (x < nx)%nat -> f y x = g y x) -> tab ny nx f = tab ny nx g.
Proof.
  intros H. unfold tab. apply map_ext_in. intros y Hy. apply in_seq in Hy.
  apply map_ext_in. intros x Hx. apply in_seq in Hx. apply H; lia.
Qed.
(* slices of a tabulated array *)
Lemma isum_slice_tab ny nx f y0 y1 x0 x1 :
  (y0 <= y1 <= ny)%nat -> (x0 <= x1 <= nx)%nat ->
  isum (slice2 (tab ny nx f) y0 y1 x0 x1)
  == sum2d ny nx (fun y x => if inbox y0 y1 x0 x1 y x then f y x else 0).
Proof.
  intros Hy Hx. rewrite <- sum2d_range by assumption.
  unfold isum, slice2, tab.
  rewrite skipn_map, firstn_map, skipn_seq, firstn_seq, !map_map.
  replace (Nat.min (y1 - y0) (ny - y0)) with (y1 - y0)%nat by lia. cbn [Nat.add].
  apply qsum_map_ext. intros y _.
  rewrite skipn_map, firstn_map, skipn_seq, firstn_seq.
  replace (Nat.min (x1 - x0) (nx - x0)) with (x1 - x0)%nat by lia. reflexivity.
Qed.
Lemma isum_map_abs_tab ny nx f :
  isum (map (map Qabs) (tab ny nx f)) = sum2d ny nx (fun y x => Qabs (f y x)).
Proof.
  unfold sum2d, isum, tab. rewrite !map_map. f_equal. apply map_ext. intros y.
  rewrite map_map. reflexivity.
Qed.

(* ---------- counting ---------- *)
Lemma bcount_qsum ny nx p :
  qn (bcount ny nx p) == sum2d ny nx (fun y x => b2q (p y x)).
Proof.
  rewrite sum2d_pixels. unfold bcount, qn. fold (pixels ny nx).
  induction (pixels ny nx) as [|a l IH]; cbn [filter map]; [reflexivity|].
  rewrite qsum_cons, <- IH. destruct (p (fst a) (snd a)); cbn [length b2q].
  - rewrite Nat2Z.inj_succ. unfold Z.succ. rewrite inject_Z_plus. ring.
  - ring.
Qed.
Lemma bcount_length ny nx p :
  bcount ny nx p = length (filter (fun yx => p (fst yx) (snd yx)) (pixels ny nx)).
Proof. reflexivity. Qed.

(* ---------- IEEE results ---------- *)
Definition feq (a b : fval) : Prop :=
  match a, b with
  | Fin x, Fin y => x == y
  | PInf, PInf | NInf, NInf | NaN, NaN => True
  | _, _ => False
  end.
Lemma feq_refl a : feq a a.
Proof. destruct a; cbn; auto. reflexivity. Qed.
Lemma feq_sym a b : feq a b -> feq b a.
Proof. destruct a, b; cbn; auto. intros H; symmetry; exact H. Qed.
Lemma feq_trans a b c : feq a b -> feq b c -> feq a c.
Proof. destruct a, b, c; cbn; auto; try contradiction. intros H1 H2; rewrite H1; exact H2. Qed.

Lemma Qlt_bool_iff a b : Qlt_bool a b = true <-> a < b.
Proof.
  unfold Qlt_bool. rewrite negb_true_iff. split; intros H.
  - apply Qnot_le_lt. intros C. apply Qle_bool_iff in C. congruence.
  - destruct (Qle_bool b a) eqn:E; [|reflexivity]. apply Qle_bool_iff in E. lra.
Qed.
Lemma Qlt_bool_false a b : Qlt_bool a b = false <-> b <= a.
Proof.
  unfold Qlt_bool. rewrite negb_false_iff. apply Qle_bool_iff.
Qed.
Global Instance Qlt_bool_comp : Proper (Qeq ==> Qeq ==> eq) Qlt_bool.
Proof. intros a b E c d F. unfold Qlt_bool. rewrite E, F. reflexivity. Qed.

Lemma fdiv_fin a b : ~ b == 0 -> fdiv a b = Fin (a / b).
Proof.
  intros H. unfold fdiv. destruct (Qeq_bool b 0) eqn:E; [apply Qeq_bool_eq in E; contradiction|reflexivity].
Qed.
Lemma fdiv_is_fin a b : is_fin (fdiv a b) = true <-> ~ b == 0.
Proof.
  unfold fdiv. destruct (Qeq_bool b 0) eqn:E.
  - apply Qeq_bool_eq in E. destruct (Qeq_bool a 0), (Qlt_bool 0 a); cbn; split; intros; try discriminate; contradiction.
  - apply Qeq_bool_neq in E. cbn. tauto.
Qed.
Lemma fdiv_nan a b : fdiv a b = NaN <-> a == 0 /\ b == 0.
Proof.
  unfold fdiv. destruct (Qeq_bool b 0) eqn:E.
  - apply Qeq_bool_eq in E. destruct (Qeq_bool a 0) eqn:F.
    + apply Qeq_bool_eq in F. tauto.
    + apply Qeq_bool_neq in F. destruct (Qlt_bool 0 a); split; intros H; try discriminate; tauto.
  - apply Qeq_bool_neq in E. split; [discriminate|tauto].
Qed.
Global Instance fdiv_comp : Proper (Qeq ==> Qeq ==> feq) fdiv.
Proof.
  intros a b E c d F. unfold fdiv.
  rewrite (Qeqb_comp c d F 0 0 (Qeq_refl 0)), (Qeqb_comp a b E 0 0 (Qeq_refl 0)),
    (Qlt_bool_comp 0 0 (Qeq_refl 0) a b E).
  destruct (Qeq_bool d 0) eqn:G.
  - destruct (Qeq_bool b 0); [exact I|]. destruct (Qlt_bool 0 b); exact I.
  - cbn. rewrite E, F. reflexivity.
Qed.
(* a common positive factor cancels, also in the non-finite cases *)
Lemma fdiv_scale k a b : 0 < k -> feq (fdiv (k * a) (k * b)) (fdiv a b).
Proof.
  intros Hk. unfold fdiv.
  destruct (Qeq_bool b 0) eqn:Eb.
  - apply Qeq_bool_eq in Eb.
    assert (Ekb : Qeq_bool (k * b) 0 = true) by (apply Qeq_eq_bool; rewrite Eb; ring).
    rewrite Ekb. destruct (Qeq_bool a 0) eqn:Ea.
    + apply Qeq_bool_eq in Ea.
      assert (Eka : Qeq_bool (k * a) 0 = true) by (apply Qeq_eq_bool; rewrite Ea; ring).
      rewrite Eka. exact I.
    + apply Qeq_bool_neq in Ea.
      assert (Eka : Qeq_bool (k * a) 0 = false).
      { destruct (Qeq_bool (k * a) 0) eqn:G; [|reflexivity]. apply Qeq_bool_eq in G.
        exfalso. apply Ea. nra. }
      rewrite Eka. destruct (Qlt_bool 0 a) eqn:P.
      * apply Qlt_bool_iff in P.
        assert (P' : Qlt_bool 0 (k * a) = true) by (apply Qlt_bool_iff; nra). rewrite P'. exact I.
      * apply Qlt_bool_false in P.
        assert (P' : Qlt_bool 0 (k * a) = false) by (apply Qlt_bool_false; nra). rewrite P'. exact I.
  - apply Qeq_bool_neq in Eb.
    assert (Ekb : Qeq_bool (k * b) 0 = false).
    { destruct (Qeq_bool (k * b) 0) eqn:G; [|reflexivity]. apply Qeq_bool_eq in G.
      exfalso. apply Eb. nra. }
    rewrite Ekb. cbn. field. split; [exact Eb|lra].
Qed.


(* ================================================================== *)
(* 1. DAOFIND roundness1                                                *)
(* ================================================================== *)
(* decide every comparison of natural numbers in the goal by lia *)
Ltac nat_bools :=
  repeat match goal with
  | |- context [(?a <=? ?b)%nat] =>
      first [ replace (a <=? b)%nat with true by (symmetry; apply Nat.leb_le; lia)
            | replace (a <=? b)%nat with false by (symmetry; apply Nat.leb_gt; lia) ]
  | |- context [(?a <? ?b)%nat] =>
      first [ replace (a <? b)%nat with true by (symmetry; apply Nat.ltb_lt; lia)
            | replace (a <? b)%nat with false by (symmetry; apply Nat.ltb_ge; lia) ]
  | |- context [(?a =? ?b)%nat] =>
      first [ replace (a =? b)%nat with true by (symmetry; apply Nat.eqb_eq; lia)
            | replace (a =? b)%nat with false by (symmetry; apply Nat.eqb_neq; lia) ]
  end; cbn [andb orb negb].
Ltac tri a b := destruct (lt_eq_lt_dec a b) as [[?|?]|?].

(* the sign with which the code's four quadrant slices count pixel (y, x); (qy, qx) = centre:
     3 3 4 4 4        - - + + +
     3 3 4 4 4        - - + + +
     3 3 x 1 1   =    - - 0 - -      (row 0 at the bottom, as in the comment of the code)
     2 2 2 1 1        + + + - -
     2 2 2 1 1        + + + - -                                                            *)
Definition qsign (qy qx y x : nat) : Q :=
  if ((y =? qy) && (x =? qx))%nat then 0
  else if ((y <=? qy) && (qx <? x))%nat then -1
  else if ((y <? qy) && (x <=? qx))%nat then 1
  else if ((qy <=? y) && (x <? qx))%nat then -1
  else 1.
Definition is_centre (qy qx y x : nat) : bool := ((y =? qy) && (x =? qx))%nat.

Lemma sum2d_comb4 ny nx a b c d :
  sum2d ny nx (fun y x => - a y x + b y x - c y x + d y x)
  == - sum2d ny nx a + sum2d ny nx b - sum2d ny nx c + sum2d ny nx d.
Proof.
  rewrite (sum2d_ext _ _ _ (fun y x => ((fun y x => (fun y x => - a y x) y x + b y x) y x
                                        + (fun y x => - c y x) y x) + d y x))
    by (intros; ring).
  rewrite !sum2d_plus, !sum2d_opp. ring.
Qed.

Section R1.
  Variables (ny nx : nat) (c : img).
  Hypothesis Hny : (0 < ny)%nat.
  Hypothesis Hnx : (0 < nx)%nat.
  Let qy := cy ny.
  Let qx := cx nx.
  Lemma qy_lt : (qy < ny)%nat.
  Proof. unfold qy, cy. apply Nat.div_lt_upper_bound; lia. Qed.
  Lemma qx_lt : (qx < nx)%nat.
  Proof. unfold qx, cx. apply Nat.div_lt_upper_bound; lia. Qed.

  Lemma sum2_spec :
    sum2 ny nx c == sum2d ny nx (fun y x => qsign qy qx y x * pix c y x).
  Proof.
    pose proof qy_lt as Hy. pose proof qx_lt as Hx.
    unfold sum2, quad1, quad2, quad3, quad4, conv0. fold qy qx.
    rewrite !isum_slice_tab by lia.
    rewrite <- sum2d_comb4. apply sum2d_ext. intros y x Hy' Hx'.
    unfold inbox, qsign. tri y qy; tri x qx; nat_bools; ring.
  Qed.
  Lemma sum4_spec :
    sum4 ny nx c == sum2d ny nx (fun y x => if is_centre qy qx y x then 0 else Qabs (pix c y x)).
  Proof.
    unfold sum4, conv0. fold qy qx. rewrite isum_map_abs_tab. apply sum2d_ext. intros y x _ _.
    unfold is_centre. destruct ((y =? qy) && (x =? qx))%nat; reflexivity.
  Qed.
  Lemma sum4_nonneg : 0 <= sum4 ny nx c.
  Proof.
    rewrite sum4_spec. apply sum2d_nonneg. intros y x _ _.
    destruct (is_centre qy qx y x); [lra|apply Qabs_nonneg].
  Qed.
  Lemma qsign_abs y x v :
    Qabs (qsign qy qx y x * v) == (if is_centre qy qx y x then 0 else Qabs v).
  Proof.
    unfold qsign, is_centre. destruct ((y =? qy) && (x =? qx))%nat.
    - rewrite Qmult_0_l. reflexivity.
    - destruct ((y <=? qy) && (qx <? x))%nat; [|destruct ((y <? qy) && (x <=? qx))%nat;
        [|destruct ((qy <=? y) && (x <? qx))%nat]];
      rewrite Qabs_Qmult; change (Qabs (-1)) with 1; change (Qabs 1) with 1; ring.
  Qed.
  (* the triangle inequality behind |roundness1| <= 2 *)
  Lemma sum2_le_sum4 : Qabs (sum2 ny nx c) <= sum4 ny nx c.
  Proof.
    rewrite sum2_spec, sum4_spec. eapply Qle_trans; [apply sum2d_abs|].
    apply sum2d_le. intros y x _ _. rewrite qsign_abs. apply Qle_refl.
  Qed.
  Lemma roundness1_range r : roundness1 ny nx c = Fin r -> -2 <= r <= 2.
  Proof.
    unfold roundness1, fdiv. pose proof sum2_le_sum4 as H. pose proof sum4_nonneg as H0.
    destruct (Qeq_bool (sum4 ny nx c) 0) eqn:E.
    - destruct (Qeq_bool (2 * sum2 ny nx c) 0); [discriminate|].
      destruct (Qlt_bool 0 (2 * sum2 ny nx c)); discriminate.
    - apply Qeq_bool_neq in E. intros [= <-].
      assert (P : 0 < sum4 ny nx c) by (apply Qle_lt_or_eq in H0; destruct H0 as [H0|H0]; [exact H0|exfalso; apply E; symmetry; exact H0]).
      apply Qabs_Qle_condition in H. destruct H as [H1 H2].
      split; [apply Qle_shift_div_l|apply Qle_shift_div_r]; try exact P; lra.
  Qed.
  (* the only non-finite value is NaN, produced exactly when every off-centre pixel is 0 *)
  Lemma roundness1_nonfinite :
    (roundness1 ny nx c = NaN <-> sum4 ny nx c == 0)
    /\ roundness1 ny nx c <> PInf /\ roundness1 ny nx c <> NInf
    /\ (is_fin (roundness1 ny nx c) = true <-> ~ sum4 ny nx c == 0).
  Proof.
    pose proof sum2_le_sum4 as H.
    assert (Z : sum4 ny nx c == 0 -> 2 * sum2 ny nx c == 0).
    { intros E. rewrite E in H. apply Qabs_Qle_condition in H. lra. }
    unfold roundness1. repeat split.
    - intros N. apply fdiv_nan in N. tauto.
    - intros E. apply fdiv_nan. split; [apply Z|]; exact E.
    - unfold fdiv. destruct (Qeq_bool (sum4 ny nx c) 0) eqn:E; [|discriminate].
      apply Qeq_bool_eq in E. rewrite (Qeq_eq_bool _ _ (Z E)). discriminate.
    - unfold fdiv. destruct (Qeq_bool (sum4 ny nx c) 0) eqn:E; [|discriminate].
      apply Qeq_bool_eq in E. rewrite (Qeq_eq_bool _ _ (Z E)). discriminate.
    - apply fdiv_is_fin.
    - apply fdiv_is_fin.
  Qed.
  Lemma sum4_zero_iff :
    sum4 ny nx c == 0 <->
    forall y x, (y < ny)%nat -> (x < nx)%nat -> is_centre qy qx y x = false -> pix c y x == 0.
  Proof.
    rewrite sum4_spec. split.
    - intros E y x Hy Hx Hc.
      pose proof (sum2d_zero_inv ny nx _ (fun y x _ _ =>
        match is_centre qy qx y x as b return 0 <= (if b then 0 else Qabs (pix c y x)) with
        | true => Qle_refl 0 | false => Qabs_nonneg _ end) E y x Hy Hx) as P.
      cbv beta in P. rewrite Hc in P.
      pose proof (Qle_Qabs (pix c y x)) as A1. pose proof (Qle_Qabs (- pix c y x)) as A2.
      rewrite Qabs_opp in A2. lra.
    - intros Hz. rewrite <- (sum2d_zero ny nx). apply sum2d_ext. intros y x Hy Hx.
      destruct (is_centre qy qx y x) eqn:Hc; [reflexivity|]. rewrite (Hz y x Hy Hx Hc). reflexivity.
  Qed.
End R1.


Lemma cy_odd k : cy (2 * k + 1) = k.
Proof. unfold cy. replace (2 * k + 1 - 1)%nat with (k * 2)%nat by lia. apply Nat.div_mul. lia. Qed.
Lemma cx_odd k : cx (2 * k + 1) = k.
Proof. exact (cy_odd k). Qed.

(* qsign = the sign pattern of the four OPEN quadrants + the sign pattern of the four arms *)
Definition soff (qy qx y x : nat) : Q :=
  if ((y <? qy) && (x <? qx) || (qy <? y) && (qx <? x))%nat then 1
  else if ((y <? qy) && (qx <? x) || (qy <? y) && (x <? qx))%nat then -1 else 0.
Definition sarm (qy qx y x : nat) : Q :=
  if ((x =? qx) && negb (y =? qy))%nat then 1
  else if ((y =? qy) && negb (x =? qx))%nat then -1 else 0.
Lemma qsign_decomp qy qx y x : qsign qy qx y x == soff qy qx y x + sarm qy qx y x.
Proof. unfold qsign, soff, sarm. tri y qy; tri x qx; nat_bools; ring. Qed.

Lemma qsign_rot90 k a b : (a < 2 * k + 1)%nat -> (b < 2 * k + 1)%nat ->
  qsign k k (2 * k + 1 - 1 - b) a == - qsign k k a b.
Proof. intros Ha Hb. unfold qsign. tri a k; tri b k; nat_bools; ring. Qed.
Lemma is_centre_rot90 k a b : (a < 2 * k + 1)%nat -> (b < 2 * k + 1)%nat ->
  is_centre k k (2 * k + 1 - 1 - b) a = is_centre k k a b.
Proof. intros Ha Hb. unfold is_centre. tri a k; tri b k; nat_bools; reflexivity. Qed.
Lemma soff_transpose k a b : soff k k b a == soff k k a b.
Proof. unfold soff. tri a k; tri b k; nat_bools; ring. Qed.
Lemma sarm_transpose k a b : sarm k k b a == - sarm k k a b.
Proof. unfold sarm. tri a k; tri b k; nat_bools; ring. Qed.
Lemma is_centre_transpose k a b : is_centre k k b a = is_centre k k a b.
Proof. unfold is_centre. tri a k; tri b k; nat_bools; reflexivity. Qed.
Lemma soff_fliplr qy k y x : (x < 2 * k + 1)%nat ->
  soff qy k y (2 * k + 1 - 1 - x) == - soff qy k y x.
Proof. intros Hx. unfold soff. tri y qy; tri x k; nat_bools; ring. Qed.
Lemma sarm_fliplr qy k y x : (x < 2 * k + 1)%nat ->
  sarm qy k y (2 * k + 1 - 1 - x) == sarm qy k y x.
Proof. intros Hx. unfold sarm. tri y qy; tri x k; nat_bools; ring. Qed.
Lemma is_centre_fliplr qy k y x : (x < 2 * k + 1)%nat ->
  is_centre qy k y (2 * k + 1 - 1 - x) = is_centre qy k y x.
Proof. intros Hx. unfold is_centre. tri y qy; tri x k; nat_bools; reflexivity. Qed.
Lemma soff_flipud k qx y x : (y < 2 * k + 1)%nat ->
  soff k qx (2 * k + 1 - 1 - y) x == - soff k qx y x.
Proof. intros Hy. unfold soff. tri y k; tri x qx; nat_bools; ring. Qed.
Lemma sarm_flipud k qx y x : (y < 2 * k + 1)%nat ->
  sarm k qx (2 * k + 1 - 1 - y) x == sarm k qx y x.
Proof. intros Hy. unfold sarm. tri y k; tri x qx; nat_bools; ring. Qed.
Lemma is_centre_flipud k qx y x : (y < 2 * k + 1)%nat ->
  is_centre k qx (2 * k + 1 - 1 - y) x = is_centre k qx y x.
Proof. intros Hy. unfold is_centre. tri y k; tri x qx; nat_bools; reflexivity. Qed.

(* the two parts of sum2 *)
Definition Soff (ny nx : nat) (c : img) : Q :=
  sum2d ny nx (fun y x => soff (cy ny) (cx nx) y x * pix c y x).
Definition Sarm (ny nx : nat) (c : img) : Q :=
  sum2d ny nx (fun y x => sarm (cy ny) (cx nx) y x * pix c y x).
Lemma sum2_decomp ny nx c : (0 < ny)%nat -> (0 < nx)%nat ->
  sum2 ny nx c == Soff ny nx c + Sarm ny nx c.
Proof.
  intros Hy Hx. rewrite sum2_spec by assumption. unfold Soff, Sarm.
  rewrite <- sum2d_plus. apply sum2d_ext. intros y x _ _. rewrite qsign_decomp. ring.
Qed.

Section Square.
  Variable k : nat.
  Let n := (2 * k + 1)%nat.
  Variables (c c' : img).
  Lemma n_pos : (0 < n)%nat. Proof. unfold n; lia. Qed.
  Lemma cy_n : cy n = k. Proof. apply cy_odd. Qed.
  Lemma cx_n : cx n = k. Proof. apply cx_odd. Qed.

  (* c' = c rotated by a quarter turn *)
  Section Rot.
    Hypothesis Hrot : forall y x, (y < n)%nat -> (x < n)%nat -> pix c' y x == pix c x (n - 1 - y)%nat.
    Lemma sum2_rot90 : sum2 n n c' == - sum2 n n c.
    Proof.
      rewrite !sum2_spec by apply n_pos. rewrite !cy_n, !cx_n.
      rewrite <- sum2d_opp.
      rewrite (sum2d_ext n n _ (fun y x => qsign k k y x * pix c x (n - 1 - y)%nat))
        by (intros y x Hy Hx; rewrite (Hrot y x Hy Hx); reflexivity).
      rewrite sum2d_swap.
      rewrite (sum2d_ext n n _ (fun a b => (fun a b => qsign k k (n - 1 - b) a * pix c a b) a (n - 1 - b)%nat)).
      2:{ intros a b Ha Hb. cbv beta. replace (n - 1 - (n - 1 - b))%nat with b by lia. reflexivity. }
      rewrite (sum2d_reflect_x n n (fun a b => qsign k k (n - 1 - b) a * pix c a b)).
      apply sum2d_ext. intros a b Ha Hb. unfold n. rewrite qsign_rot90 by (fold n; lia). ring.
    Qed.
    Lemma sum4_rot90 : sum4 n n c' == sum4 n n c.
    Proof.
      rewrite !sum4_spec. rewrite !cy_n, !cx_n.
      rewrite (sum2d_ext n n _ (fun y x => if is_centre k k y x then 0 else Qabs (pix c x (n - 1 - y)%nat))).
      2:{ intros y x Hy Hx. destruct (is_centre k k y x); [reflexivity|]. rewrite (Hrot y x Hy Hx). reflexivity. }
      rewrite sum2d_swap.
      rewrite (sum2d_ext n n _ (fun a b => (fun a b => if is_centre k k (n - 1 - b) a then 0 else Qabs (pix c a b))
                                             a (n - 1 - b)%nat)).
      2:{ intros a b Ha Hb. cbv beta. replace (n - 1 - (n - 1 - b))%nat with b by lia. reflexivity. }
      rewrite (sum2d_reflect_x n n (fun a b => if is_centre k k (n - 1 - b) a then 0 else Qabs (pix c a b))).
      apply sum2d_ext. intros a b Ha Hb. unfold n. rewrite is_centre_rot90 by (fold n; lia). reflexivity.
    Qed.
  End Rot.

  (* c' = transpose of c *)
  Section Transpose.
    Hypothesis Htr : forall y x, (y < n)%nat -> (x < n)%nat -> pix c' y x == pix c x y.
    Lemma Soff_transpose : Soff n n c' == Soff n n c.
    Proof.
      unfold Soff. rewrite !cy_n, !cx_n.
      rewrite (sum2d_ext n n _ (fun y x => soff k k y x * pix c x y))
        by (intros y x Hy Hx; rewrite (Htr y x Hy Hx); reflexivity).
      rewrite sum2d_swap. apply sum2d_ext. intros a b _ _. rewrite soff_transpose. reflexivity.
    Qed.
    Lemma Sarm_transpose : Sarm n n c' == - Sarm n n c.
    Proof.
      unfold Sarm. rewrite !cy_n, !cx_n. rewrite <- sum2d_opp.
      rewrite (sum2d_ext n n _ (fun y x => sarm k k y x * pix c x y))
        by (intros y x Hy Hx; rewrite (Htr y x Hy Hx); reflexivity).
      rewrite sum2d_swap. apply sum2d_ext. intros a b _ _. rewrite sarm_transpose. ring.
    Qed.
    Lemma sum4_transpose : sum4 n n c' == sum4 n n c.
    Proof.
      rewrite !sum4_spec. rewrite !cy_n, !cx_n.
      rewrite (sum2d_ext n n _ (fun y x => if is_centre k k y x then 0 else Qabs (pix c x y))).
      2:{ intros y x Hy Hx. destruct (is_centre k k y x); [reflexivity|]. rewrite (Htr y x Hy Hx). reflexivity. }
      rewrite sum2d_swap. apply sum2d_ext. intros a b _ _. rewrite is_centre_transpose. reflexivity.
    Qed.
  End Transpose.
End Square.

Section Flip.
  Variables (ny k : nat).
  Let nx := (2 * k + 1)%nat.
  Variables (c c' : img).
  Hypothesis Hfl : forall y x, (y < ny)%nat -> (x < nx)%nat -> pix c' y x == pix c y (nx - 1 - x)%nat.
  Lemma cx_nx : cx nx = k. Proof. apply cx_odd. Qed.
  Lemma Soff_fliplr : Soff ny nx c' == - Soff ny nx c.
  Proof.
    unfold Soff. rewrite !cx_nx. rewrite <- sum2d_opp.
    rewrite (sum2d_ext ny nx _ (fun y x => (fun y x => soff (cy ny) k y (nx - 1 - x) * pix c y x) y (nx - 1 - x)%nat)).
    2:{ intros y x Hy Hx. cbv beta. replace (nx - 1 - (nx - 1 - x))%nat with x by lia.
        rewrite (Hfl y x Hy Hx). reflexivity. }
    rewrite (sum2d_reflect_x ny nx (fun y x => soff (cy ny) k y (nx - 1 - x) * pix c y x)).
    apply sum2d_ext. intros y x Hy Hx. unfold nx. rewrite soff_fliplr by (fold nx; lia). ring.
  Qed.
  Lemma Sarm_fliplr : Sarm ny nx c' == Sarm ny nx c.
  Proof.
    unfold Sarm. rewrite !cx_nx.
    rewrite (sum2d_ext ny nx _ (fun y x => (fun y x => sarm (cy ny) k y (nx - 1 - x) * pix c y x) y (nx - 1 - x)%nat)).
    2:{ intros y x Hy Hx. cbv beta. replace (nx - 1 - (nx - 1 - x))%nat with x by lia.
        rewrite (Hfl y x Hy Hx). reflexivity. }
    rewrite (sum2d_reflect_x ny nx (fun y x => sarm (cy ny) k y (nx - 1 - x) * pix c y x)).
    apply sum2d_ext. intros y x Hy Hx. unfold nx. rewrite sarm_fliplr by (fold nx; lia). reflexivity.
  Qed.
  Lemma sum4_fliplr : sum4 ny nx c' == sum4 ny nx c.
  Proof.
    rewrite !sum4_spec. rewrite !cx_nx.
    rewrite (sum2d_ext ny nx _ (fun y x => (fun y x => if is_centre (cy ny) k y (nx - 1 - x) then 0
                                                      else Qabs (pix c y x)) y (nx - 1 - x)%nat)).
    2:{ intros y x Hy Hx. cbv beta. replace (nx - 1 - (nx - 1 - x))%nat with x by lia.
        destruct (is_centre (cy ny) k y x); [reflexivity|]. rewrite (Hfl y x Hy Hx). reflexivity. }
    rewrite (sum2d_reflect_x ny nx (fun y x => if is_centre (cy ny) k y (nx - 1 - x) then 0 else Qabs (pix c y x))).
    apply sum2d_ext. intros y x Hy Hx. unfold nx. rewrite is_centre_fliplr by (fold nx; lia). reflexivity.
  Qed.
End Flip.


Definition fneg (v : fval) : fval :=
  match v with Fin q => Fin (- q) | PInf => NInf | NInf => PInf | NaN => NaN end.
Lemma fdiv_opp a b : feq (fdiv (- a) b) (fneg (fdiv a b)).
Proof.
  unfold fdiv. destruct (Qeq_bool b 0) eqn:Eb.
  - destruct (Qeq_bool a 0) eqn:Ea.
    + apply Qeq_bool_eq in Ea. rewrite (Qeq_eq_bool (- a) 0) by (rewrite Ea; ring). exact I.
    + apply Qeq_bool_neq in Ea.
      assert (E' : Qeq_bool (- a) 0 = false).
      { destruct (Qeq_bool (- a) 0) eqn:G; [|reflexivity]. apply Qeq_bool_eq in G. exfalso; apply Ea; lra. }
      rewrite E'. destruct (Qlt_bool 0 a) eqn:P.
      * apply Qlt_bool_iff in P. rewrite (proj2 (Qlt_bool_false 0 (- a))) by lra. exact I.
      * apply Qlt_bool_false in P. rewrite (proj2 (Qlt_bool_iff 0 (- a))) by lra. exact I.
  - apply Qeq_bool_neq in Eb. cbn. field. exact Eb.
Qed.

(* roundness1 changes sign under a quarter turn of the convolved cutout *)
Lemma roundness1_rot90 k c c' :
  let n := (2 * k + 1)%nat in
  (forall y x, (y < n)%nat -> (x < n)%nat -> pix c' y x == pix c x (n - 1 - y)%nat) ->
  feq (roundness1 n n c') (fneg (roundness1 n n c)).
Proof.
  intros n H. subst n. unfold roundness1.
  eapply feq_trans; [|apply fdiv_opp].
  apply fdiv_comp; [|apply (sum4_rot90 k c c' H)].
  rewrite (sum2_rot90 k c c' H). ring.
Qed.
Lemma roundness1_zero_rot_symmetric k c r :
  let n := (2 * k + 1)%nat in
  (forall y x, (y < n)%nat -> (x < n)%nat -> pix c y x == pix c x (n - 1 - y)%nat) ->
  roundness1 n n c = Fin r -> r == 0.
Proof.
  intros n H. subst n. pose proof (sum2_rot90 k c c H) as E.
  set (n := (2 * k + 1)%nat) in *.
  assert (Z : sum2 n n c == 0) by lra.
  unfold roundness1, fdiv. destruct (Qeq_bool (sum4 n n c) 0).
  - destruct (Qeq_bool (2 * sum2 n n c) 0); [discriminate|]. destruct (Qlt_bool 0 (2 * sum2 n n c)); discriminate.
  - intros [= <-]. rewrite Z. unfold Qdiv. ring.
Qed.
(* under transposition only the arms change sign, under a left-right flip only the open quadrants *)
Lemma sum2_transpose k c c' :
  let n := (2 * k + 1)%nat in
  (forall y x, (y < n)%nat -> (x < n)%nat -> pix c' y x == pix c x y) ->
  sum2 n n c == Soff n n c + Sarm n n c /\ sum2 n n c' == Soff n n c - Sarm n n c
  /\ sum4 n n c' == sum4 n n c.
Proof.
  intros n H. subst n. assert (P : (0 < 2 * k + 1)%nat) by lia.
  rewrite !sum2_decomp by exact P.
  rewrite (Soff_transpose k c c' H), (Sarm_transpose k c c' H).
  split; [reflexivity|]. split; [ring|apply (sum4_transpose k c c' H)].
Qed.
Lemma sum2_fliplr ny k c c' :
  let nx := (2 * k + 1)%nat in
  (0 < ny)%nat ->
  (forall y x, (y < ny)%nat -> (x < nx)%nat -> pix c' y x == pix c y (nx - 1 - x)%nat) ->
  sum2 ny nx c == Soff ny nx c + Sarm ny nx c /\ sum2 ny nx c' == - Soff ny nx c + Sarm ny nx c
  /\ sum4 ny nx c' == sum4 ny nx c.
Proof.
  intros nx Hy H. subst nx. assert (P : (0 < 2 * k + 1)%nat) by lia.
  rewrite !sum2_decomp by assumption.
  rewrite (Soff_fliplr ny k c c' H), (Sarm_fliplr ny k c c' H).
  split; [reflexivity|]. split; [ring|apply (sum4_fliplr ny k c c' H)].
Qed.
Lemma roundness1_zero_dihedral k c r :
  let n := (2 * k + 1)%nat in
  (forall y x, (y < n)%nat -> (x < n)%nat -> pix c y x == pix c x y) ->
  (forall y x, (y < n)%nat -> (x < n)%nat -> pix c y x == pix c y (n - 1 - x)%nat) ->
  roundness1 n n c = Fin r -> r == 0.
Proof.
  intros n Ht Hf. subst n.
  destruct (sum2_transpose k c c Ht) as (E1 & E2 & _).
  assert (Pn : (0 < 2 * k + 1)%nat) by lia.
  destruct (sum2_fliplr (2 * k + 1) k c c Pn Hf) as (_ & E3 & _).
  set (n := (2 * k + 1)%nat) in *.
  assert (Z : sum2 n n c == 0) by lra.
  unfold roundness1, fdiv. destruct (Qeq_bool (sum4 n n c) 0).
  - destruct (Qeq_bool (2 * sum2 n n c) 0); [discriminate|]. destruct (Qlt_bool 0 (2 * sum2 n n c)); discriminate.
  - intros [= <-]. rewrite Z. unfold Qdiv. ring.
Qed.

(* ================================================================== *)
(* 2. DAOFIND sharpness                                                 *)
(* ================================================================== *)
Lemma sum2d_single ny nx qy qx f : (qy < ny)%nat -> (qx < nx)%nat ->
  sum2d ny nx (fun y x => if is_centre qy qx y x then f y x else 0) == f qy qx.
Proof.
  intros Hy Hx.
  rewrite (sum2d_ext _ _ _ (fun y x => if inbox qy (qy + 1) qx (qx + 1) y x then f y x else 0)).
  2:{ intros y x _ _. unfold is_centre, inbox. tri y qy; tri x qx; nat_bools; reflexivity. }
  rewrite <- sum2d_range by lia.
  replace (qy + 1 - qy)%nat with 1%nat by lia. replace (qx + 1 - qx)%nat with 1%nat by lia.
  cbn [seq map]. rewrite !qsum_cons, !qsum_nil. ring.
Qed.

Lemma qsum_filter_pixels ny nx (p : nat -> nat -> bool) (f : nat -> nat -> Q) :
  qsum (map (fun a => f (fst a) (snd a)) (filter (fun a => p (fst a) (snd a)) (pixels ny nx)))
  == sum2d ny nx (fun y x => if p y x then f y x else 0).
Proof.
  rewrite qsum_filter. symmetry. apply (sum2d_pixels ny nx (fun y x => if p y x then f y x else 0)).
Qed.

Section Sharp.
  Variables (ny nx : nat) (mask : bimg).
  Hypothesis Hny : (0 < ny)%nat.
  Hypothesis Hnx : (0 < nx)%nat.
  Let qy := cy ny.
  Let qx := cx nx.
  Hypothesis Hcentre : bpix mask qy qx = true.       (* the peak pixel belongs to the kernel footprint *)

  (* the unmasked kernel pixels other than the centre, explicitly *)
  Definition others : list (nat * nat) :=
    filter (fun p => bpix mask (fst p) (snd p) && negb (is_centre qy qx (fst p) (snd p))) (pixels ny nx).

  Lemma masked_split f :
    sum2d ny nx (fun y x => f y x * b2q (bpix mask y x))
    == qsum (map (fun p => f (fst p) (snd p)) others) + f qy qx.
  Proof.
    pose proof (qy_lt ny nx Hny Hnx) as Hy. pose proof (qx_lt ny nx Hny Hnx) as Hx. fold qy in Hy. fold qx in Hx.
    unfold others.
    pose proof (qsum_filter_pixels ny nx (fun y x => bpix mask y x && negb (is_centre qy qx y x)) f) as E.
    cbv beta in E. rewrite E. clear E.
    rewrite <- (sum2d_single ny nx qy qx f Hy Hx), <- sum2d_plus.
    apply sum2d_ext. intros y x _ _. cbn [fst snd].
    destruct (is_centre qy qx y x) eqn:C.
    - unfold is_centre in C. apply andb_true_iff in C. destruct C as [C1 C2].
      apply Nat.eqb_eq in C1, C2. subst y x. rewrite Hcentre. cbn. ring.
    - destruct (bpix mask y x); cbn; ring.
  Qed.
  Lemma npixels_split : npixels ny nx mask == qn (length others) + 1.
  Proof.
    unfold npixels. rewrite bcount_qsum.
    rewrite (sum2d_ext _ _ _ (fun y x => (fun _ _ => 1) y x * b2q (bpix mask y x))) by (intros; ring).
    rewrite masked_split. rewrite qsum_map_const. unfold qn. ring.
  Qed.

  Variables (d c : img).
  Lemma data_mean_spec :
    data_mean ny nx mask d
    == qsum (map (fun p => pix d (fst p) (snd p)) others) / qn (length others).
  Proof.
    unfold data_mean, cutout_data_masked. rewrite isum_tab, masked_split, npixels_split.
    unfold data_peak. fold qy qx.
    assert (E1 : qsum (map (fun p => pix d (fst p) (snd p)) others) + pix d qy qx - pix d qy qx
                 == qsum (map (fun p => pix d (fst p) (snd p)) others)) by ring.
    assert (E2 : qn (length others) + 1 - 1 == qn (length others)) by ring.
    rewrite E1, E2. reflexivity.
  Qed.
  (* sharpness = (peak - mean of the other footprint pixels) / convolved peak *)
  Lemma sharpness_spec :
    feq (sharpness ny nx mask d c)
        (if (length others =? 0)%nat then NaN
         else fdiv (pix d qy qx - qsum (map (fun p => pix d (fst p) (snd p)) others) / qn (length others))
                   (pix c qy qx)).
  Proof.
    unfold sharpness. pose proof npixels_split as N.
    destruct (length others =? 0)%nat eqn:L.
    - apply Nat.eqb_eq in L. rewrite L in N.
      rewrite (Qeq_eq_bool (npixels ny nx mask - 1) 0) by (rewrite N; unfold qn; cbn; ring). exact I.
    - apply Nat.eqb_neq in L.
      assert (P : ~ npixels ny nx mask - 1 == 0).
      { rewrite N. unfold qn. intros E.
        assert (E' : inject_Z (Z.of_nat (length others)) == 0) by lra.
        unfold Qeq in E'. cbn in E'. lia. }
      destruct (Qeq_bool (npixels ny nx mask - 1) 0) eqn:G; [apply Qeq_bool_eq in G; contradiction|].
      apply fdiv_comp; [|reflexivity]. rewrite data_mean_spec. reflexivity.
  Qed.
  Lemma sharpness_finite_iff :
    is_fin (sharpness ny nx mask d c) = true
    <-> ~ npixels ny nx mask - 1 == 0 /\ ~ convdata_peak ny nx c == 0.
  Proof.
    unfold sharpness. destruct (Qeq_bool (npixels ny nx mask - 1) 0) eqn:G.
    - apply Qeq_bool_eq in G. cbn. split; [discriminate|tauto].
    - apply Qeq_bool_neq in G. rewrite fdiv_is_fin. tauto.
  Qed.

  (* data -> k data, convolved data -> k convolved data (k > 0) *)
  Lemma sharpness_scale k d' c' : 0 < k ->
    (forall y x, (y < ny)%nat -> (x < nx)%nat -> pix d' y x == k * pix d y x) ->
    pix c' qy qx == k * pix c qy qx ->
    feq (sharpness ny nx mask d' c') (sharpness ny nx mask d c).
  Proof.
    intros Hk Hd Hc. unfold sharpness.
    pose proof (qy_lt ny nx Hny Hnx) as Hy. pose proof (qx_lt ny nx Hny Hnx) as Hx. fold qy in Hy. fold qx in Hx.
    destruct (Qeq_bool (npixels ny nx mask - 1) 0) eqn:G; [exact I|]. apply Qeq_bool_neq in G.
    assert (Ep : data_peak ny nx d' == k * data_peak ny nx d) by (apply Hd; assumption).
    assert (Es : isum (cutout_data_masked ny nx mask d') == k * isum (cutout_data_masked ny nx mask d)).
    { unfold cutout_data_masked. rewrite !isum_tab, <- sum2d_scale. apply sum2d_ext.
      intros y x Hy' Hx'. rewrite (Hd y x Hy' Hx'). ring. }
    eapply feq_trans; [|apply (fdiv_scale k _ _ Hk)].
    apply fdiv_comp; [|exact Hc].
    unfold data_mean. rewrite Ep, Es. field. exact G.
  Qed.
  (* data -> data + t on the whole cutout, convolved data unchanged (what a zero-sum kernel gives
     for a source whose cutout lies inside the image) *)
  Lemma sharpness_offset t d' :
    (forall y x, (y < ny)%nat -> (x < nx)%nat -> pix d' y x == pix d y x + t) ->
    feq (sharpness ny nx mask d' c) (sharpness ny nx mask d c).
  Proof.
    intros Hd. unfold sharpness.
    pose proof (qy_lt ny nx Hny Hnx) as Hy. pose proof (qx_lt ny nx Hny Hnx) as Hx. fold qy in Hy. fold qx in Hx.
    destruct (Qeq_bool (npixels ny nx mask - 1) 0) eqn:G; [exact I|]. apply Qeq_bool_neq in G.
    assert (Ep : data_peak ny nx d' == data_peak ny nx d + t) by (apply Hd; assumption).
    assert (Es : isum (cutout_data_masked ny nx mask d')
                 == isum (cutout_data_masked ny nx mask d) + t * npixels ny nx mask).
    { unfold cutout_data_masked, npixels. rewrite !isum_tab, bcount_qsum, <- sum2d_scale, <- sum2d_plus.
      apply sum2d_ext. intros y x Hy' Hx'. rewrite (Hd y x Hy' Hx'). ring. }
    apply fdiv_comp; [|reflexivity].
    unfold data_mean. rewrite Ep, Es. field. exact G.
  Qed.
End Sharp.


(* ================================================================== *)
(* 3. DAOFIND marginal fits, roundness2, centroid                       *)
(* ================================================================== *)
Lemma qn_nonneg n : 0 <= qn n.
Proof. unfold qn, Qle. cbn. lia. Qed.

Section FitFacts.
  Variables (ny nx : nat) (gk : img) (s2x s2y : Q) (d : img) (axis : bool).
  Let fit := marginal_fit ny nx gk s2x s2y d axis.
  Let m1 := mask1 ny nx gk d axis.

  Lemma mask1_iff : m1 = true <-> hx_numer ny nx gk d axis <= 0 \/ hx_denom ny nx gk axis <= 0.
  Proof. unfold m1, mask1. rewrite orb_true_iff, !Qle_bool_iff. tauto. Qed.
  Lemma mask1_false : m1 = false -> 0 < hx_numer ny nx gk d axis /\ 0 < hx_denom ny nx gk axis.
  Proof.
    unfold m1, mask1. rewrite orb_false_iff. intros [A B].
    split; apply Qnot_le_lt; intros C; apply Qle_bool_iff in C; congruence.
  Qed.
  (* the amplitude is NaN exactly when the fit is rejected, otherwise finite and positive *)
  Lemma hx_cases :
    (m1 = true /\ fit = (NaN, NaN))
    \/ (m1 = false /\ snd fit = Fin (hxv ny nx gk d axis) /\ 0 < hxv ny nx gk d axis).
  Proof.
    unfold fit, marginal_fit, marginal_of.
    change (Qle_bool (hx_numer ny nx gk d axis) 0 || Qle_bool (hx_denom ny nx gk axis) 0) with m1.
    destruct m1 eqn:E; [left; auto|right].
    split; [reflexivity|]. split; [reflexivity|].
    destruct (mask1_false E) as [A B]. unfold hxv. apply Qlt_shift_div_l; lra.
  Qed.
  Lemma hsize_nonneg : 0 <= hsize ny nx axis.
  Proof. unfold hsize. pose proof (qn_nonneg (size ny nx axis)). apply Qle_shift_div_l; lra. Qed.
  (* a finite centroid shift never exceeds half the kernel size *)
  Lemma dx_bounded v : fst fit = Fin v -> Qabs v <= hsize ny nx axis.
  Proof.
    unfold fit, marginal_fit, marginal_of.
    change (Qle_bool (hx_numer ny nx gk d axis) 0 || Qle_bool (hx_denom ny nx gk axis) 0)
      with (mask1 ny nx gk d axis).
    destruct (mask1 ny nx gk d axis); [discriminate|]. cbn [fst].
    set (D0 := fdiv _ _).
    set (dx1 := if fabs_gt D0 (hsize ny nx axis) then _ else D0).
    destruct (fabs_gt dx1 (hsize ny nx axis)) eqn:G.
    - intros [= <-]. cbn. apply hsize_nonneg.
    - intros E. rewrite E in G. cbn in G. apply Qlt_bool_false in G. exact G.
  Qed.
  (* the only way to a non-finite shift of an accepted fit is 0/0 *)
  Lemma dx_nonfinite : m1 = false ->
    (is_fin (fst fit) = false <-> dx_numer ny nx gk d axis == 0 /\ dx_denom ny nx gk s2x s2y d axis == 0).
  Proof.
    intros E. unfold fit, marginal_fit, marginal_of.
    change (Qle_bool (hx_numer ny nx gk d axis) 0 || Qle_bool (hx_denom ny nx gk axis) 0) with m1.
    rewrite E. cbn [fst].
    rewrite <- fdiv_nan.
    change (fdiv (dx_numer ny nx gk d axis)
                 (hx_numer ny nx gk d axis / hx_denom ny nx gk axis * dkern_dx2_sum ny nx gk axis / sigma2 s2x s2y axis))
      with (dx0 ny nx gk s2x s2y d axis).
    change (fdiv (dx_numer ny nx gk d axis) (dx_denom ny nx gk s2x s2y d axis)) with (dx0 ny nx gk s2x s2y d axis).
    destruct (dx0 ny nx gk s2x s2y d axis) as [q| | |] eqn:D; cbn [fabs_gt].
    - destruct (Qlt_bool (hsize ny nx axis) (Qabs q)).
      + destruct (Qeq_bool (data_sum ny nx d axis) 0); cbn [fabs_gt];
          match goal with |- context [if ?b then _ else _] => destruct b end; cbn; split; intros; discriminate.
      + cbn [fabs_gt]. destruct (Qlt_bool (hsize ny nx axis) (Qabs q)); cbn; split; intros; discriminate.
    - destruct (Qeq_bool (data_sum ny nx d axis) 0); cbn [fabs_gt];
        match goal with |- context [if ?b then _ else _] => destruct b end; cbn; split; intros; discriminate.
    - destruct (Qeq_bool (data_sum ny nx d axis) 0); cbn [fabs_gt];
        match goal with |- context [if ?b then _ else _] => destruct b end; cbn; split; intros; discriminate.
    - cbn. split; reflexivity.
  Qed.
End FitFacts.

Section Round2.
  Variables (ny nx : nat) (gk : img) (s2x s2y : Q) (d : img).
  Lemma roundness2_cases :
    (roundness2 ny nx gk s2x s2y d = NaN
       /\ (mask1 ny nx gk d false = true \/ mask1 ny nx gk d true = true))
    \/ (exists r, roundness2 ny nx gk s2x s2y d = Fin r /\ -2 < r < 2
        /\ mask1 ny nx gk d false = false /\ mask1 ny nx gk d true = false).
  Proof.
    unfold roundness2, dx_hx, dy_hy.
    destruct (hx_cases ny nx gk s2x s2y d false) as [[E1 F1]|(E1 & F1 & P1)];
    destruct (hx_cases ny nx gk s2x s2y d true) as [[E2 F2]|(E2 & F2 & P2)];
    rewrite ?F1, ?F2; cbn [snd]; try (left; split; [reflexivity|tauto]).
    right. set (hx := hxv ny nx gk d false) in *. set (hy := hxv ny nx gk d true) in *.
      assert (S : ~ hx + hy == 0) by lra.
      rewrite (fdiv_fin _ _ S). eexists. split; [reflexivity|]. split; [|tauto].
      split; [apply Qlt_shift_div_l|apply Qlt_shift_div_r]; lra.
  Qed.
  (* the DAOFIND centroid of a source lies within half a kernel of its peak *)
  Lemma dao_xcentroid_near_peak xp v :
    fshift (inject_Z xp) (fst (dx_hx ny nx gk s2x s2y d)) = Fin v ->
    Qabs (v - inject_Z xp) <= qn nx / 2.
  Proof.
    unfold dx_hx. destruct (fst (marginal_fit ny nx gk s2x s2y d false)) as [q| | |] eqn:E; try discriminate.
    cbn [fshift]. intros [= <-]. pose proof (dx_bounded ny nx gk s2x s2y d false q E) as B.
    unfold hsize, size in B. setoid_replace (inject_Z xp + q - inject_Z xp) with q by ring. exact B.
  Qed.
  Lemma dao_ycentroid_near_peak yp v :
    fshift (inject_Z yp) (fst (dy_hy ny nx gk s2x s2y d)) = Fin v ->
    Qabs (v - inject_Z yp) <= qn ny / 2.
  Proof.
    unfold dy_hy. destruct (fst (marginal_fit ny nx gk s2x s2y d true)) as [q| | |] eqn:E; try discriminate.
    cbn [fshift]. intros [= <-]. pose proof (dx_bounded ny nx gk s2x s2y d true q E) as B.
    unfold hsize, size in B. setoid_replace (inject_Z yp + q - inject_Z yp) with q by ring. exact B.
  Qed.
End Round2.

(* the fit amplitude is homogeneous in the data; roundness2 is scale invariant *)
Section FitScale.
  Variables (ny nx : nat) (gk : img) (s2x s2y : Q) (d d' : img) (k : Q).
  Hypothesis Hd : forall y x, (y < ny)%nat -> (x < nx)%nat -> pix d' y x == k * pix d y x.
  Lemma marg_scale axis i : (i < size ny nx axis)%nat ->
    marg ny nx axis d' i == k * marg ny nx axis d i.
  Proof.
    intros Hi. unfold marg. rewrite <- qsum_map_scale. apply qsum_map_ext. intros j Hj. apply in_seq in Hj.
    unfold at2, size, osize in *. destruct axis; rewrite Hd by lia; ring.
  Qed.
  Lemma data_sum_scale axis : data_sum ny nx d' axis == k * data_sum ny nx d axis.
  Proof.
    unfold data_sum, sum1, data1. rewrite <- qsum_map_scale. apply qsum_map_ext. intros i Hi. apply in_seq in Hi.
    rewrite marg_scale by lia. ring.
  Qed.
  Lemma data_kern_sum_scale axis : data_kern_sum ny nx gk d' axis == k * data_kern_sum ny nx gk d axis.
  Proof.
    unfold data_kern_sum, sum1, data1. rewrite <- qsum_map_scale. apply qsum_map_ext. intros i Hi. apply in_seq in Hi.
    rewrite marg_scale by lia. ring.
  Qed.
  Lemma hx_numer_scale axis : hx_numer ny nx gk d' axis == k * hx_numer ny nx gk d axis.
  Proof.
    unfold hx_numer. rewrite data_kern_sum_scale, data_sum_scale. unfold Qdiv. ring.
  Qed.
  Lemma hxv_scale axis : hxv ny nx gk d' axis == k * hxv ny nx gk d axis.
  Proof. unfold hxv. rewrite hx_numer_scale. unfold Qdiv. ring. Qed.
  Hypothesis Hk : 0 < k.
  Lemma mask1_scale axis : mask1 ny nx gk d' axis = mask1 ny nx gk d axis.
  Proof.
    unfold mask1. f_equal.
    pose proof (hx_numer_scale axis) as E.
    destruct (Qle_bool (hx_numer ny nx gk d axis) 0) eqn:A.
    - apply Qle_bool_iff in A. apply Qle_bool_iff. nra.
    - destruct (Qle_bool (hx_numer ny nx gk d' axis) 0) eqn:B; [|reflexivity].
      apply Qle_bool_iff in B. assert (C : hx_numer ny nx gk d axis <= 0) by nra.
      apply Qle_bool_iff in C. congruence.
  Qed.
  Lemma roundness2_scale :
    feq (roundness2 ny nx gk s2x s2y d') (roundness2 ny nx gk s2x s2y d).
  Proof.
    unfold roundness2, dx_hx, dy_hy, marginal_fit, marginal_of.
    change (Qle_bool (hx_numer ny nx gk d' false) 0 || Qle_bool (hx_denom ny nx gk false) 0)
      with (mask1 ny nx gk d' false).
    change (Qle_bool (hx_numer ny nx gk d' true) 0 || Qle_bool (hx_denom ny nx gk true) 0)
      with (mask1 ny nx gk d' true).
    change (Qle_bool (hx_numer ny nx gk d false) 0 || Qle_bool (hx_denom ny nx gk false) 0)
      with (mask1 ny nx gk d false).
    change (Qle_bool (hx_numer ny nx gk d true) 0 || Qle_bool (hx_denom ny nx gk true) 0)
      with (mask1 ny nx gk d true).
    change (hx_numer ny nx gk d' false / hx_denom ny nx gk false) with (hxv ny nx gk d' false).
    change (hx_numer ny nx gk d' true / hx_denom ny nx gk true) with (hxv ny nx gk d' true).
    change (hx_numer ny nx gk d false / hx_denom ny nx gk false) with (hxv ny nx gk d false).
    change (hx_numer ny nx gk d true / hx_denom ny nx gk true) with (hxv ny nx gk d true).
    rewrite !mask1_scale.
    destruct (mask1 ny nx gk d false); [exact I|]. destruct (mask1 ny nx gk d true); [exact I|].
    cbn [snd]. eapply feq_trans; [|apply (fdiv_scale k _ _ Hk)].
    apply fdiv_comp; rewrite !hxv_scale; ring.
  Qed.
End FitScale.


(* ================================================================== *)
(* 4. image moments of a non-negative cutout (IRAFStarFinder, StarFinder) *)
(* ================================================================== *)
Lemma qn_le_pred y n : (y < n)%nat -> qn y <= qn n - 1.
Proof.
  intros H. unfold qn, Qle, Qminus, Qplus, Qopp, inject_Z. cbn [Qnum Qden]. lia.
Qed.

Lemma sq_nonneg x : 0 <= x * x.
Proof. destruct (Qlt_le_dec x 0); [setoid_replace (x * x) with ((- x) * (- x)) by ring|]; apply Qmult_le_0_compat; lra. Qed.
(* Cauchy-Schwarz for a weighted list *)
Lemma cs_step A B C w u v :
  0 <= A -> 0 <= C -> B * B <= A * C -> 0 <= w ->
  (B + w * u * v) * (B + w * u * v) <= (A + w * (u * u)) * (C + w * (v * v)).
Proof.
  intros HA HC HB Hw.
  set (K := A * (v * v) + C * (u * u) - 2 * B * u * v).
  assert (HK : 0 <= K).
  { destruct (Qlt_le_dec 0 A) as [P|P].
    - assert (Q1 : 0 <= A * K).
      { unfold K. setoid_replace (A * (A * (v * v) + C * (u * u) - 2 * B * u * v))
          with ((A * v - B * u) * (A * v - B * u) + (A * C - B * B) * (u * u)) by ring.
        assert (0 <= (A * v - B * u) * (A * v - B * u)) by apply sq_nonneg.
        assert (0 <= (A * C - B * B) * (u * u)) by (apply Qmult_le_0_compat; [lra|apply sq_nonneg]). lra. }
      apply (proj1 (Qmult_le_l 0 K A P)). rewrite Qmult_0_r. exact Q1.
    - assert (A0 : A == 0) by lra.
      assert (BB : B * B == 0) by (pose proof (sq_nonneg B); rewrite A0 in HB; lra).
      assert (B0 : B == 0) by (destruct (Qmult_integral _ _ BB); assumption).
      unfold K. rewrite A0, B0. pose proof (sq_nonneg u).
      setoid_replace (0 * (v * v) + C * (u * u) - 2 * 0 * u * v) with (C * (u * u)) by ring.
      apply Qmult_le_0_compat; assumption. }
  assert (0 <= w * K) by (apply Qmult_le_0_compat; assumption).
  assert (E : (A + w * (u * u)) * (C + w * (v * v)) - (B + w * u * v) * (B + w * u * v)
              == (A * C - B * B) + w * K) by (unfold K; ring).
  lra.
Qed.
Lemma cs_list {T} (w u v : T -> Q) l :
  (forall a, In a l -> 0 <= w a) ->
  0 <= qsum (map (fun a => w a * (u a * u a)) l) /\ 0 <= qsum (map (fun a => w a * (v a * v a)) l)
  /\ qsum (map (fun a => w a * u a * v a) l) * qsum (map (fun a => w a * u a * v a) l)
     <= qsum (map (fun a => w a * (u a * u a)) l) * qsum (map (fun a => w a * (v a * v a)) l).
Proof.
  induction l as [|a l IH]; intros Hw.
  - cbn [map]. rewrite !qsum_nil. lra.
  - destruct IH as (HA & HC & HB); [intros b Hb; apply Hw; right; exact Hb|].
    cbn [map]. rewrite !qsum_cons.
    pose proof (Hw a (or_introl eq_refl)) as Hwa.
    set (A := qsum (map (fun a => w a * (u a * u a)) l)) in *.
    set (C := qsum (map (fun a => w a * (v a * v a)) l)) in *.
    set (B := qsum (map (fun a => w a * u a * v a) l)) in *.
    assert (U2 : 0 <= w a * (u a * u a)) by (apply Qmult_le_0_compat; [exact Hwa|apply sq_nonneg]).
    assert (V2 : 0 <= w a * (v a * v a)) by (apply Qmult_le_0_compat; [exact Hwa|apply sq_nonneg]).
    split; [lra|]. split; [lra|].
    pose proof (cs_step A B C (w a) (u a) (v a) HA HC HB Hwa) as S. lra.
Qed.
Lemma cs_sum2d ny nx (w u v : nat -> nat -> Q) :
  (forall y x, (y < ny)%nat -> (x < nx)%nat -> 0 <= w y x) ->
  0 <= sum2d ny nx (fun y x => w y x * (u y x * u y x))
  /\ 0 <= sum2d ny nx (fun y x => w y x * (v y x * v y x))
  /\ sum2d ny nx (fun y x => w y x * u y x * v y x) * sum2d ny nx (fun y x => w y x * u y x * v y x)
     <= sum2d ny nx (fun y x => w y x * (u y x * u y x)) * sum2d ny nx (fun y x => w y x * (v y x * v y x)).
Proof.
  intros Hw. rewrite !sum2d_pixels.
  apply (cs_list (fun p => w (fst p) (snd p)) (fun p => u (fst p) (snd p)) (fun p => v (fst p) (snd p))).
  intros p Hp. apply in_pixels in Hp. apply Hw; tauto.
Qed.

Section MomentFacts.
  Variables (ny nx : nat) (a : img).
  Hypothesis Hpos : forall y x, (y < ny)%nat -> (x < nx)%nat -> 0 <= pix a y x.
  Let M := m00 ny nx a.

  Lemma m00_nonneg : 0 <= M.
  Proof. unfold M, m00. apply sum2d_nonneg. exact Hpos. Qed.
  Lemma m00_zero_pixels : M == 0 -> forall y x, (y < ny)%nat -> (x < nx)%nat -> pix a y x == 0.
  Proof. intros E. apply (sum2d_zero_inv ny nx (pix a) Hpos E). Qed.
  Lemma m10_bounds : 0 <= m10 ny nx a <= (qn ny - 1) * M.
  Proof.
    unfold M, m10, m00. split.
    - apply sum2d_nonneg. intros y x Hy Hx. apply Qmult_le_0_compat; [apply qn_nonneg|apply Hpos; assumption].
    - rewrite <- sum2d_scale. apply sum2d_le. intros y x Hy Hx.
      pose proof (qn_le_pred y ny Hy). pose proof (Hpos y x Hy Hx). nra.
  Qed.
  Lemma m01_bounds : 0 <= m01 ny nx a <= (qn nx - 1) * M.
  Proof.
    unfold M, m01, m00. split.
    - apply sum2d_nonneg. intros y x Hy Hx. apply Qmult_le_0_compat; [apply qn_nonneg|apply Hpos; assumption].
    - rewrite <- sum2d_scale. apply sum2d_le. intros y x Hy Hx.
      pose proof (qn_le_pred x nx Hx). pose proof (Hpos y x Hy Hx). nra.
  Qed.
  (* the centroid of the cutout is a weighted mean of pixel indices: it lies in the cutout *)
  Lemma ycen_in_cutout v : ycen ny nx a = Fin v -> 0 <= v <= qn ny - 1.
  Proof.
    unfold ycen, fdiv. fold M. pose proof m00_nonneg as H0. pose proof m10_bounds as [B1 B2].
    destruct (Qeq_bool M 0) eqn:E.
    - destruct (Qeq_bool (m10 ny nx a) 0); [discriminate|]. destruct (Qlt_bool 0 (m10 ny nx a)); discriminate.
    - apply Qeq_bool_neq in E. intros [= <-]. assert (P : 0 < M) by (destruct (Qle_lt_or_eq _ _ H0) as [L|L]; [exact L|exfalso; apply E; symmetry; exact L]).
      split; [apply Qle_shift_div_l|apply Qle_shift_div_r]; try exact P; lra.
  Qed.
  Lemma xcen_in_cutout v : xcen ny nx a = Fin v -> 0 <= v <= qn nx - 1.
  Proof.
    unfold xcen, fdiv. fold M. pose proof m00_nonneg as H0. pose proof m01_bounds as [B1 B2].
    destruct (Qeq_bool M 0) eqn:E.
    - destruct (Qeq_bool (m01 ny nx a) 0); [discriminate|]. destruct (Qlt_bool 0 (m01 ny nx a)); discriminate.
    - apply Qeq_bool_neq in E. intros [= <-]. assert (P : 0 < M) by (destruct (Qle_lt_or_eq _ _ H0) as [L|L]; [exact L|exfalso; apply E; symmetry; exact L]).
      split; [apply Qle_shift_div_l|apply Qle_shift_div_r]; try exact P; lra.
  Qed.
  (* non-finite centroid: only NaN, exactly when the cutout has no positive pixel *)
  Lemma centroid_nonfinite :
    (ycen ny nx a = NaN <-> M == 0) /\ (xcen ny nx a = NaN <-> M == 0)
    /\ (is_fin (ycen ny nx a) = true <-> ~ M == 0) /\ (is_fin (xcen ny nx a) = true <-> ~ M == 0)
    /\ ycen ny nx a <> PInf /\ ycen ny nx a <> NInf /\ xcen ny nx a <> PInf /\ xcen ny nx a <> NInf.
  Proof.
    pose proof m10_bounds as [B1 B2]. pose proof m01_bounds as [C1 C2].
    assert (Z1 : M == 0 -> m10 ny nx a == 0) by (intros E; rewrite E in B2; lra).
    assert (Z2 : M == 0 -> m01 ny nx a == 0) by (intros E; rewrite E in C2; lra).
    unfold ycen, xcen. fold M. rewrite !fdiv_nan, !fdiv_is_fin.
    repeat split; try tauto; unfold fdiv;
      (destruct (Qeq_bool M 0) eqn:E; [|discriminate]); apply Qeq_bool_eq in E;
      rewrite ?(Qeq_eq_bool _ _ (Z1 E)), ?(Qeq_eq_bool _ _ (Z2 E)); discriminate.
  Qed.

  (* central second moments *)
  Let yc := m10 ny nx a / M.
  Let xc := m01 ny nx a / M.
  Let Suu := sum2d ny nx (fun y x => pix a y x * ((qn y - yc) * (qn y - yc))).
  Let Svv := sum2d ny nx (fun y x => pix a y x * ((qn x - xc) * (qn x - xc))).
  Let Suv := sum2d ny nx (fun y x => pix a y x * (qn y - yc) * (qn x - xc)).
  Lemma mu20_eq : mu ny nx a 2 0 == Suu / M.
  Proof.
    unfold mu, Suu. fold M yc xc. apply Qdiv_comp; [|reflexivity]. apply sum2d_ext. intros; cbn [qpow]; ring.
  Qed.
  Lemma mu02_eq : mu ny nx a 0 2 == Svv / M.
  Proof.
    unfold mu, Svv. fold M yc xc. apply Qdiv_comp; [|reflexivity]. apply sum2d_ext. intros; cbn [qpow]; ring.
  Qed.
  Lemma mu11_eq : mu ny nx a 1 1 == Suv / M.
  Proof.
    unfold mu, Suv. fold M yc xc. apply Qdiv_comp; [|reflexivity]. apply sum2d_ext. intros; cbn [qpow]; ring.
  Qed.
  Lemma second_moments_cs : 0 <= Suu /\ 0 <= Svv /\ Suv * Suv <= Suu * Svv.
  Proof. apply (cs_sum2d ny nx (pix a) (fun y x => qn y - yc) (fun y x => qn x - xc) Hpos). Qed.

  (* (mu_diff^2 + 4 mu11^2) <= mu_sum^2 *)
  Lemma round_numer_le_denom :
    0 <= mu_diff ny nx a * mu_diff ny nx a + 4 * (mu ny nx a 1 1 * mu ny nx a 1 1)
      <= mu_sum ny nx a * mu_sum ny nx a.
  Proof.
    unfold mu_diff, mu_sum. rewrite mu20_eq, mu02_eq, mu11_eq.
    destruct second_moments_cs as (A & B & C).
    set (i := / M). unfold Qdiv. fold i.
    assert (I2 : 0 <= i * i) by apply sq_nonneg.
    assert (K : (Suv * i) * (Suv * i) <= (Suu * i) * (Svv * i)).
    { setoid_replace ((Suv * i) * (Suv * i)) with ((Suv * Suv) * (i * i)) by ring.
      setoid_replace ((Suu * i) * (Svv * i)) with ((Suu * Svv) * (i * i)) by ring.
      apply Qmult_le_compat_r; assumption. }
    split; [pose proof (sq_nonneg (Svv * i - Suu * i)); pose proof (sq_nonneg (Suv * i)); lra|].
    setoid_replace ((Svv * i + Suu * i) * (Svv * i + Suu * i))
      with ((Svv * i - Suu * i) * (Svv * i - Suu * i) + 4 * ((Suu * i) * (Svv * i))) by ring.
    lra.
  Qed.
  Lemma mu_sum_nonneg : 0 <= mu_sum ny nx a.
  Proof.
    unfold mu_sum. rewrite mu20_eq, mu02_eq. destruct second_moments_cs as (A & B & _).
    pose proof m00_nonneg as H0.
    assert (0 <= / M) by (apply Qinv_le_0_compat; exact H0).
    unfold Qdiv. assert (0 <= Svv * / M) by (apply Qmult_le_0_compat; assumption).
    assert (0 <= Suu * / M) by (apply Qmult_le_0_compat; assumption). lra.
  Qed.
  (* roundness^2 lies in [0, 1] *)
  Lemma round_sq_range r : round_sq ny nx a = Fin r -> 0 <= r <= 1.
  Proof.
    unfold round_sq. fold M. destruct (Qeq_bool M 0); [discriminate|].
    pose proof round_numer_le_denom as [N1 N2].
    set (N := mu_diff ny nx a * mu_diff ny nx a + 4 * (mu ny nx a 1 1 * mu ny nx a 1 1)) in *.
    set (D := mu_sum ny nx a * mu_sum ny nx a) in *.
    unfold fdiv. destruct (Qeq_bool D 0) eqn:E.
    - destruct (Qeq_bool N 0); [discriminate|]. destruct (Qlt_bool 0 N); discriminate.
    - apply Qeq_bool_neq in E. intros [= <-].
      assert (P : 0 < D) by (destruct (Qle_lt_or_eq 0 D) as [L|L]; [lra|exact L|exfalso; apply E; symmetry; exact L]).
      split; [apply Qle_shift_div_l|apply Qle_shift_div_r]; try exact P; lra.
  Qed.
  (* the only non-finite roundness is NaN: no positive pixel, or all the weight in one pixel *)
  Lemma round_sq_nonfinite :
    (round_sq ny nx a = NaN <-> M == 0 \/ mu_sum ny nx a == 0)
    /\ round_sq ny nx a <> PInf /\ round_sq ny nx a <> NInf
    /\ (is_fin (round_sq ny nx a) = true <-> ~ M == 0 /\ ~ mu_sum ny nx a == 0).
  Proof.
    pose proof round_numer_le_denom as [N1 N2].
    assert (Z : mu_sum ny nx a == 0 ->
                mu_diff ny nx a * mu_diff ny nx a + 4 * (mu ny nx a 1 1 * mu ny nx a 1 1) == 0).
    { intros E. rewrite E in N2. lra. }
    assert (Z' : mu_sum ny nx a * mu_sum ny nx a == 0 -> mu_sum ny nx a == 0) by (intros E; nra).
    unfold round_sq. fold M. destruct (Qeq_bool M 0) eqn:E0.
    - apply Qeq_bool_eq in E0. cbn. repeat split; try discriminate; tauto.
    - apply Qeq_bool_neq in E0. split; [|split; [|split]].
      + rewrite fdiv_nan. split.
        * intros [_ E]. right. apply Z', E.
        * intros [E|E]; [contradiction|]. split; [apply Z, E|rewrite E; ring].
      + unfold fdiv. destruct (Qeq_bool (mu_sum ny nx a * mu_sum ny nx a) 0) eqn:E; [|discriminate].
        apply Qeq_bool_eq in E. rewrite (Qeq_eq_bool _ _ (Z (Z' E))). discriminate.
      + unfold fdiv. destruct (Qeq_bool (mu_sum ny nx a * mu_sum ny nx a) 0) eqn:E; [|discriminate].
        apply Qeq_bool_eq in E. rewrite (Qeq_eq_bool _ _ (Z (Z' E))). discriminate.
      + rewrite fdiv_is_fin. split.
        * intros H. split; [exact E0|]. intros E. apply H. rewrite E. ring.
        * intros [_ H] E. apply H, Z', E.
  Qed.
End MomentFacts.


(* ================================================================== *)
(* 5. cutouts: extraction, translation, peak                            *)
(* ================================================================== *)
Lemma pix_cutout im ny nx yp xp y x : (y < ny)%nat -> (x < nx)%nat ->
  pix (cutout im ny nx yp xp) y x
  = iget im (yp - Z.of_nat (ny / 2) + Z.of_nat y) (xp - Z.of_nat (nx / 2) + Z.of_nat x).
Proof. intros Hy Hx. unfold cutout. rewrite pix_tab by assumption. reflexivity. Qed.
(* the central pixel of a cutout of odd shape is the pixel at the source position *)
Lemma half_odd k : ((2 * k + 1) / 2 = k)%nat.
Proof. replace (2 * k + 1)%nat with (1 + k * 2)%nat by lia. rewrite Nat.div_add by lia. reflexivity. Qed.
Lemma data_peak_is_peak im a b yp xp :
  data_peak (2 * a + 1) (2 * b + 1) (cutout im (2 * a + 1) (2 * b + 1) yp xp) = iget im yp xp.
Proof.
  unfold data_peak. rewrite pix_cutout by (rewrite ?cy_odd, ?cx_odd; lia).
  rewrite cy_odd, cx_odd, !half_odd. f_equal; lia.
Qed.
(* a cutout only sees the image through its window: translating the scene translates nothing else *)
Lemma cutout_shift im im' ny nx yp xp dy dx :
  (forall y x, (yp - Z.of_nat (ny / 2) <= y < yp - Z.of_nat (ny / 2) + Z.of_nat ny)%Z ->
               (xp - Z.of_nat (nx / 2) <= x < xp - Z.of_nat (nx / 2) + Z.of_nat nx)%Z ->
               iget im' (y + dy) (x + dx) = iget im y x) ->
  cutout im' ny nx (yp + dy) (xp + dx) = cutout im ny nx yp xp.
Proof.
  intros H. unfold cutout. apply tab_ext. intros y x Hy Hx.
  rewrite <- H by lia. f_equal; lia.
Qed.
Lemma flux_spec im ny nx yp xp :
  flux (cutout im ny nx yp xp)
  == qsum (map (fun p => iget im (yp - Z.of_nat (ny / 2) + Z.of_nat (fst p))
                                 (xp - Z.of_nat (nx / 2) + Z.of_nat (snd p))) (pixels ny nx)).
Proof.
  unfold flux, cutout. rewrite isum_tab.
  apply (sum2d_pixels ny nx (fun y x => iget im (yp - Z.of_nat (ny / 2) + Z.of_nat y)
                                                (xp - Z.of_nat (nx / 2) + Z.of_nat x))).
Qed.
Lemma flux_additive ny nx f g :
  flux (tab ny nx (fun y x => f y x + g y x)) == flux (tab ny nx f) + flux (tab ny nx g).
Proof. unfold flux. rewrite !isum_tab. apply sum2d_plus. Qed.
Lemma flux_homogeneous ny nx k f :
  flux (tab ny nx (fun y x => k * f y x)) == k * flux (tab ny nx f).
Proof. unfold flux. rewrite !isum_tab. apply sum2d_scale. Qed.

(* every DAOFIND statistic of a translated scene at the translated position is unchanged; the
   centroid moves with the source *)
Lemma dao_stats_shift ny nx mask gk s2x s2y im im' conv conv' yp xp dy dx :
  (forall y x, (yp - Z.of_nat (ny / 2) <= y < yp - Z.of_nat (ny / 2) + Z.of_nat ny)%Z ->
               (xp - Z.of_nat (nx / 2) <= x < xp - Z.of_nat (nx / 2) + Z.of_nat nx)%Z ->
               iget im' (y + dy) (x + dx) = iget im y x /\ iget conv' (y + dy) (x + dx) = iget conv y x) ->
  let d := cutout im ny nx yp xp in
  dao_stats ny nx mask gk s2x s2y im' conv' (yp + dy) (xp + dx)
  = firstn 11 (dao_stats ny nx mask gk s2x s2y im conv yp xp)
    ++ [ fshift (inject_Z (xp + dx)) (fst (dx_hx ny nx gk s2x s2y d));
         fshift (inject_Z (yp + dy)) (fst (dy_hy ny nx gk s2x s2y d)) ].
Proof.
  intros H d. unfold dao_stats.
  rewrite (cutout_shift im im' ny nx yp xp dy dx) by (intros; apply H; assumption).
  rewrite (cutout_shift conv conv' ny nx yp xp dy dx) by (intros; apply H; assumption).
  reflexivity.
Qed.
Lemma iraf_stats_shift ny nx mask im im' conv conv' yp xp dy dx :
  (forall y x, (yp - Z.of_nat (ny / 2) <= y < yp - Z.of_nat (ny / 2) + Z.of_nat ny)%Z ->
               (xp - Z.of_nat (nx / 2) <= x < xp - Z.of_nat (nx / 2) + Z.of_nat nx)%Z ->
               iget im' (y + dy) (x + dx) = iget im y x /\ iget conv' (y + dy) (x + dx) = iget conv y x) ->
  let a := iraf_cutout ny nx mask (cutout im ny nx yp xp) (cutout conv ny nx yp xp) in
  iraf_stats ny nx mask im' conv' (yp + dy) (xp + dx)
  = firstn 13 (iraf_stats ny nx mask im conv yp xp)
    ++ [ fshift (inject_Z (xp + dx) - qn (nx / 2)) (xcen ny nx a);
         fshift (inject_Z (yp + dy) - qn (ny / 2)) (ycen ny nx a) ].
Proof.
  intros H a. unfold iraf_stats.
  rewrite (cutout_shift im im' ny nx yp xp dy dx) by (intros; apply H; assumption).
  rewrite (cutout_shift conv conv' ny nx yp xp dy dx) by (intros; apply H; assumption).
  reflexivity.
Qed.

(* ================================================================== *)
(* 6. IRAFStarFinder: sky, sky-subtracted clipped cutout, centroid      *)
(* ================================================================== *)
Lemma clip0_nonneg q : 0 <= clip0 q.
Proof.
  unfold clip0. destruct (Qlt_bool q 0) eqn:E; [lra|]. apply Qlt_bool_false in E. exact E.
Qed.
Lemma clip0_comp a b : a == b -> clip0 a == clip0 b.
Proof.
  intros E. unfold clip0. rewrite (Qlt_bool_comp a b E 0 0 (Qeq_refl 0)).
  destruct (Qlt_bool b 0); [reflexivity|exact E].
Qed.
Lemma clip0_scale k q : 0 < k -> clip0 (k * q) == k * clip0 q.
Proof.
  intros Hk. unfold clip0. destruct (Qlt_bool q 0) eqn:E.
  - apply Qlt_bool_iff in E. rewrite (proj2 (Qlt_bool_iff (k * q) 0)) by nra. ring.
  - apply Qlt_bool_false in E. rewrite (proj2 (Qlt_bool_false (k * q) 0)) by nra. reflexivity.
Qed.
Lemma clip0_zero : clip0 0 == 0.
Proof. reflexivity. Qed.

Section IrafFacts.
  Variables (ny nx : nat) (mask : bimg) (d cv : img).
  Let a := iraf_cutout ny nx mask d cv.
  Let sk := sky ny nx mask d cv.

  Lemma iraf_pix y x : (y < ny)%nat -> (x < nx)%nat ->
    pix a y x = clip0 ((pix d y x - sk) * b2q (bpix mask y x)).
  Proof. intros Hy Hx. unfold a, iraf_cutout. rewrite pix_tab by assumption. reflexivity. Qed.
  Lemma iraf_pix_nonneg y x : (y < ny)%nat -> (x < nx)%nat -> 0 <= pix a y x.
  Proof. intros Hy Hx. rewrite iraf_pix by assumption. apply clip0_nonneg. Qed.
  Lemma iraf_pix_off_mask y x : (y < ny)%nat -> (x < nx)%nat -> bpix mask y x = false -> pix a y x == 0.
  Proof.
    intros Hy Hx Hm. rewrite iraf_pix by assumption. rewrite Hm. cbn [b2q].
    rewrite (clip0_comp _ 0) by ring. reflexivity.
  Qed.
  (* the explicitly enumerated sky pixels (off the kernel footprint) and object pixels *)
  Definition sky_pixels : list (nat * nat) :=
    filter (fun p => negb (bpix mask (fst p) (snd p))) (pixels ny nx).
  Definition object_pixels : list (nat * nat) :=
    filter (fun p => bpix mask (fst p) (snd p)) (pixels ny nx).
  Lemma nsky_length : nsky ny nx mask = length sky_pixels.
  Proof. reflexivity. Qed.
  (* sky = mean of the pixels off the footprint *)
  Lemma sky_spec : nsky ny nx mask <> 0%nat ->
    sk == qsum (map (fun p => pix d (fst p) (snd p)) sky_pixels) / qn (length sky_pixels).
  Proof.
    intros H. unfold sk, sky. apply Nat.eqb_neq in H. rewrite H. rewrite isum_tab, nsky_length.
    apply Qdiv_comp; [|reflexivity]. unfold sky_pixels.
    pose proof (qsum_filter_pixels ny nx (fun y x => negb (bpix mask y x)) (pix d)) as E. cbv beta in E.
    rewrite E. apply sum2d_ext. intros y x _ _. destruct (bpix mask y x); cbn; ring.
  Qed.
  (* flux = sum over the footprint pixels of the positive part of (data - sky) *)
  Lemma iraf_flux_spec :
    iraf_flux ny nx mask d cv
    == qsum (map (fun p => clip0 (pix d (fst p) (snd p) - sk)) object_pixels).
  Proof.
    unfold iraf_flux, iraf_cutout. rewrite isum_tab. fold sk. unfold object_pixels.
    pose proof (qsum_filter_pixels ny nx (bpix mask) (fun y x => clip0 (pix d y x - sk))) as E. cbv beta in E.
    rewrite E. apply sum2d_ext. intros y x _ _. destruct (bpix mask y x); cbn [b2q].
    - apply clip0_comp. ring.
    - rewrite (clip0_comp _ 0) by ring. reflexivity.
  Qed.
  Lemma iraf_m00_is_flux : m00 ny nx a == iraf_flux ny nx mask d cv.
  Proof.
    unfold m00, iraf_flux. fold a. unfold a at 2. unfold iraf_cutout. rewrite isum_tab.
    apply sum2d_ext. intros y x Hy Hx. rewrite iraf_pix by assumption. reflexivity.
  Qed.
  (* the centroid lies in the kernel box of the peak *)
  Lemma iraf_xcentroid_in_kernel_box xp v :
    fshift (inject_Z xp - qn (nx / 2)) (xcen ny nx a) = Fin v ->
    inject_Z xp - qn (nx / 2) <= v <= inject_Z xp - qn (nx / 2) + qn nx - 1.
  Proof.
    set (o := inject_Z xp - qn (nx / 2)).
    destruct (xcen ny nx a) as [q| | |] eqn:E; try discriminate. cbn [fshift]. intros [= <-].
    pose proof (xcen_in_cutout ny nx a iraf_pix_nonneg q E) as [B1 B2]. split; lra.
  Qed.
  Lemma iraf_ycentroid_in_kernel_box yp v :
    fshift (inject_Z yp - qn (ny / 2)) (ycen ny nx a) = Fin v ->
    inject_Z yp - qn (ny / 2) <= v <= inject_Z yp - qn (ny / 2) + qn ny - 1.
  Proof.
    set (o := inject_Z yp - qn (ny / 2)).
    destruct (ycen ny nx a) as [q| | |] eqn:E; try discriminate. cbn [fshift]. intros [= <-].
    pose proof (ycen_in_cutout ny nx a iraf_pix_nonneg q E) as [B1 B2]. split; lra.
  Qed.
  Lemma iraf_round_sq_range r : round_sq ny nx a = Fin r -> 0 <= r <= 1.
  Proof. apply round_sq_range. exact iraf_pix_nonneg. Qed.
End IrafFacts.

(* a constant background is absorbed by the sky: the sky-subtracted cutout does not change *)
Section IrafOffset.
  Variables (ny nx : nat) (mask : bimg) (d d' cv : img) (t : Q).
  Hypothesis Hsky : nsky ny nx mask <> 0%nat.
  Hypothesis Hd : forall y x, (y < ny)%nat -> (x < nx)%nat -> pix d' y x == pix d y x + t.
  Lemma sky_offset : sky ny nx mask d' cv == sky ny nx mask d cv + t.
  Proof.
    unfold sky. pose proof Hsky as H. apply Nat.eqb_neq in H. rewrite H. rewrite !isum_tab.
    assert (N : ~ qn (nsky ny nx mask) == 0).
    { unfold qn, Qeq. cbn. lia. }
    assert (E : sum2d ny nx (fun y x => pix d' y x * b2q (negb (bpix mask y x)))
                == sum2d ny nx (fun y x => pix d y x * b2q (negb (bpix mask y x))) + t * qn (nsky ny nx mask)).
    { unfold nsky. rewrite bcount_qsum, <- sum2d_scale, <- sum2d_plus. apply sum2d_ext.
      intros y x Hy Hx. rewrite (Hd y x Hy Hx). ring. }
    rewrite E. field. exact N.
  Qed.
  Lemma iraf_cutout_offset y x : (y < ny)%nat -> (x < nx)%nat ->
    pix (iraf_cutout ny nx mask d' cv) y x == pix (iraf_cutout ny nx mask d cv) y x.
  Proof.
    intros Hy Hx. rewrite !iraf_pix by assumption. apply clip0_comp.
    rewrite sky_offset, (Hd y x Hy Hx). ring.
  Qed.
  Lemma iraf_flux_offset : iraf_flux ny nx mask d' cv == iraf_flux ny nx mask d cv.
  Proof.
    rewrite <- !iraf_m00_is_flux. unfold m00. apply sum2d_ext. apply iraf_cutout_offset.
  Qed.
  Lemma iraf_moments_offset :
    m00 ny nx (iraf_cutout ny nx mask d' cv) == m00 ny nx (iraf_cutout ny nx mask d cv)
    /\ m10 ny nx (iraf_cutout ny nx mask d' cv) == m10 ny nx (iraf_cutout ny nx mask d cv)
    /\ m01 ny nx (iraf_cutout ny nx mask d' cv) == m01 ny nx (iraf_cutout ny nx mask d cv).
  Proof.
    unfold m00, m10, m01. repeat split; apply sum2d_ext; intros y x Hy Hx;
      rewrite (iraf_cutout_offset y x Hy Hx); reflexivity.
  Qed.
  Lemma iraf_centroid_offset :
    feq (ycen ny nx (iraf_cutout ny nx mask d' cv)) (ycen ny nx (iraf_cutout ny nx mask d cv))
    /\ feq (xcen ny nx (iraf_cutout ny nx mask d' cv)) (xcen ny nx (iraf_cutout ny nx mask d cv)).
  Proof.
    destruct iraf_moments_offset as (E0 & E1 & E2). unfold ycen, xcen.
    split; apply fdiv_comp; assumption.
  Qed.
End IrafOffset.

(* data -> k data (k > 0): sky, cutout, flux and moments scale, the centroid does not move *)
Section IrafScale.
  Variables (ny nx : nat) (mask : bimg) (d d' cv : img) (k : Q).
  Hypothesis Hsky : nsky ny nx mask <> 0%nat.
  Hypothesis Hk : 0 < k.
  Hypothesis Hd : forall y x, (y < ny)%nat -> (x < nx)%nat -> pix d' y x == k * pix d y x.
  Lemma sky_scale : sky ny nx mask d' cv == k * sky ny nx mask d cv.
  Proof.
    unfold sky. pose proof Hsky as H. apply Nat.eqb_neq in H. rewrite H. rewrite !isum_tab.
    assert (E : sum2d ny nx (fun y x => pix d' y x * b2q (negb (bpix mask y x)))
                == k * sum2d ny nx (fun y x => pix d y x * b2q (negb (bpix mask y x)))).
    { rewrite <- sum2d_scale. apply sum2d_ext. intros y x Hy Hx. rewrite (Hd y x Hy Hx). ring. }
    rewrite E. unfold Qdiv. ring.
  Qed.
  Lemma iraf_cutout_scale y x : (y < ny)%nat -> (x < nx)%nat ->
    pix (iraf_cutout ny nx mask d' cv) y x == k * pix (iraf_cutout ny nx mask d cv) y x.
  Proof.
    intros Hy Hx. rewrite !iraf_pix by assumption. rewrite <- (clip0_scale k _ Hk). apply clip0_comp.
    rewrite sky_scale, (Hd y x Hy Hx). ring.
  Qed.
  Lemma iraf_flux_scale : iraf_flux ny nx mask d' cv == k * iraf_flux ny nx mask d cv.
  Proof.
    rewrite <- !iraf_m00_is_flux. unfold m00. rewrite <- sum2d_scale. apply sum2d_ext. apply iraf_cutout_scale.
  Qed.
  Lemma iraf_centroid_scale :
    feq (ycen ny nx (iraf_cutout ny nx mask d' cv)) (ycen ny nx (iraf_cutout ny nx mask d cv))
    /\ feq (xcen ny nx (iraf_cutout ny nx mask d' cv)) (xcen ny nx (iraf_cutout ny nx mask d cv)).
  Proof.
    unfold ycen, xcen, m00, m10, m01.
    split; (eapply feq_trans; [|apply (fdiv_scale k _ _ Hk)]); apply fdiv_comp;
      rewrite <- sum2d_scale; apply sum2d_ext; intros y x Hy Hx;
      rewrite (iraf_cutout_scale y x Hy Hx); ring.
  Qed.
End IrafScale.

(* ================================================================== *)
(* 7. StarFinder                                                        *)
(* ================================================================== *)
Section SfFacts.
  Variables (ky kx : nat) (im : img) (yp xp : Z).
  Let a := sf_cutout ky kx im yp xp.
  Let sny := sf_ny ky im yp.
  Let snx := sf_nx kx im xp.
  Lemma sf_pix y x : (y < sny)%nat -> (x < snx)%nat ->
    pix a y x = clip0 (iget im (sf_ymin ky yp + Z.of_nat y) (sf_xmin kx xp + Z.of_nat x)).
  Proof. intros Hy Hx. unfold a, sf_cutout. fold sny snx. rewrite pix_tab by assumption. reflexivity. Qed.
  Lemma sf_pix_nonneg y x : (y < sny)%nat -> (x < snx)%nat -> 0 <= pix a y x.
  Proof. intros Hy Hx. rewrite sf_pix by assumption. apply clip0_nonneg. Qed.
  (* flux / M00 = sum of the positive parts of the window pixels *)
  Lemma sf_flux_spec :
    isum a == qsum (map (fun p => clip0 (iget im (sf_ymin ky yp + Z.of_nat (fst p))
                                                (sf_xmin kx xp + Z.of_nat (snd p)))) (pixels sny snx)).
  Proof.
    unfold a, sf_cutout. fold sny snx. rewrite isum_tab.
    apply (sum2d_pixels sny snx (fun y x => clip0 (iget im (sf_ymin ky yp + Z.of_nat y) (sf_xmin kx xp + Z.of_nat x)))).
  Qed.
  (* the window is the kernel box clipped at the frame *)
  Lemma sf_window :
    (0 <= sf_xmin kx xp /\ xp - Z.of_nat (kx / 2) <= sf_xmin kx xp
     /\ sf_xmax kx im xp <= imW im /\ sf_xmax kx im xp <= xp - Z.of_nat (kx / 2) + Z.of_nat kx
     /\ 0 <= sf_ymin ky yp /\ yp - Z.of_nat (ky / 2) <= sf_ymin ky yp
     /\ sf_ymax ky im yp <= imH im /\ sf_ymax ky im yp <= yp - Z.of_nat (ky / 2) + Z.of_nat ky)%Z.
  Proof. unfold sf_xmin, sf_xmax, sf_ymin, sf_ymax. lia. Qed.
  (* the centroid lies in the (trimmed) window *)
  Lemma sf_xcentroid_in_window v :
    fshift (inject_Z (sf_xmin kx xp)) (xcen sny snx a) = Fin v ->
    inject_Z (sf_xmin kx xp) <= v <= inject_Z (sf_xmax kx im xp) - 1.
  Proof.
    destruct (xcen sny snx a) as [q| | |] eqn:E; try discriminate. cbn [fshift]. intros [= <-].
    pose proof (xcen_in_cutout sny snx a sf_pix_nonneg q E) as [B1 B2].
    assert (P : 1 <= qn snx) by lra.
    assert (L : qn snx == inject_Z (sf_xmax kx im xp) - inject_Z (sf_xmin kx xp)).
    { unfold snx, sf_nx, qn in *. 
      assert (0 < Z.of_nat (Z.to_nat (sf_xmax kx im xp - sf_xmin kx xp)))%Z.
      { unfold Qle in P. cbn in P. lia. }
      rewrite Z2Nat.id by lia. unfold Zminus. rewrite inject_Z_plus, inject_Z_opp. ring. }
    split; lra.
  Qed.
  Lemma sf_ycentroid_in_window v :
    fshift (inject_Z (sf_ymin ky yp)) (ycen sny snx a) = Fin v ->
    inject_Z (sf_ymin ky yp) <= v <= inject_Z (sf_ymax ky im yp) - 1.
  Proof.
    destruct (ycen sny snx a) as [q| | |] eqn:E; try discriminate. cbn [fshift]. intros [= <-].
    pose proof (ycen_in_cutout sny snx a sf_pix_nonneg q E) as [B1 B2].
    assert (P : 1 <= qn sny) by lra.
    assert (L : qn sny == inject_Z (sf_ymax ky im yp) - inject_Z (sf_ymin ky yp)).
    { unfold sny, sf_ny, qn in *.
      assert (0 < Z.of_nat (Z.to_nat (sf_ymax ky im yp - sf_ymin ky yp)))%Z.
      { unfold Qle in P. cbn in P. lia. }
      rewrite Z2Nat.id by lia. unfold Zminus. rewrite inject_Z_plus, inject_Z_opp. ring. }
    split; lra.
  Qed.
  Lemma sf_round_sq_range r : round_sq sny snx a = Fin r -> 0 <= r <= 1.
  Proof. apply round_sq_range. exact sf_pix_nonneg. Qed.
End SfFacts.

(* ================================================================== *)
(* 8. the values compared by the DAOFIND correspondence check ARE the model's statistics *)
(* ================================================================== *)
Lemma dao_eval_is_model ny nx mask gk s2x s2y im conv yp xp :
  fst (fst (dao_eval ny nx mask gk s2x s2y (kern_sums ny nx gk false) (kern_sums ny nx gk true)
                     (cutout im ny nx yp xp) (cutout conv ny nx yp xp) yp xp))
  = dao_stats ny nx mask gk s2x s2y im conv yp xp.
Proof. reflexivity. Qed.
