(* C08 -- TRANSLATOR TIE.  gen/Gen_catindex.v is REGENERATED from the current source text of
   photutils/segmentation/catalog.py (SourceCatalog.__getitem__) on every run (harness/translate_all.py); it is
   not committed.  __getitem__ is object code (getattr / setattr / sets / try-except); what is translated is its
   DECISION STRUCTURE, with the object-level sub-expressions declared abstract:
     `if self.isscalar: raise TypeError`                                   = the first test of getitem_core
     keys = set(__dict__) & (set(_lazyproperties) | set(_extra_properties)), as the membership predicate of one
       key (each set(...) = "the key is in it"; & / | of sets = and / or)  = copied_key
     which indexing form a cached value gets: value[:, np.newaxis][index] / [value[index]] / value[index],
       depending on newcls.isscalar, key.startswith('_'), isinstance(value, np.ndarray)
                                                                           = the branches of slice_value
   (the TypeError fallback for fancy indices and the np.isscalar(value) `continue` stay tied by harness/c08.py). *)
From Coq Require Import List ZArith Bool Lia.
From PV Require Import lib.Cases lib.PyGen C08_Model gen.Gen_catindex.
Import ListNotations.
Open Scope Z_scope.

(* ---------- a scalar catalog cannot be indexed ---------- *)
Theorem gen_getitem_rejects_scalar_is_model : forall sc lz desc f n1 n2 n3 tr r extras c idx,
  exists c', snd (getitem_core sc lz desc f n1 n2 n3 tr r extras c idx) = c' /\
    (gen_getitem_rejects_scalar (scal c') = true ->
     getitem_core sc lz desc f n1 n2 n3 tr r extras c idx = (Err eType, c')).
Proof.
  intros. unfold getitem_core. cbv zeta.
  match goal with |- context [if scal ?x then _ else _] => exists x end.
  unfold gen_getitem_rejects_scalar.
  destruct (scal _) eqn:E; [split; [reflexivity|intros _; reflexivity]|].
  split; [|discriminate].
  repeat match goal with |- context [match ?m with _ => _ end] => destruct m end; reflexivity.
Qed.

(* ---------- which cached keys are carried over ---------- *)
Theorem gen_getitem_key_copied_eq : forall extras lz nm_localbkg (e : name * cval),
  copied_key true lz nm_localbkg extras e = gen_getitem_key_copied true (zmem (fst e) lz) (zmem (fst e) extras).
Proof.
  intros. unfold copied_key, gen_getitem_key_copied. cbv zeta.
  destruct (zmem (fst e) lz), (zmem (fst e) extras); reflexivity.
Qed.

(* a key that is not in __dict__ is never copied, whatever the two lists say *)
Theorem gen_getitem_key_needs_dict : forall a b, gen_getitem_key_copied false a b = false.
Proof. intros a b. unfold gen_getitem_key_copied. destruct a, b; reflexivity. Qed.

(* ---------- the indexing form of one cached value ---------- *)
Definition is_arr (k : kind) : bool := match k with KArr => true | _ => false end.
(* the model's `val = value[index]` branch *)
Definition plain_form (sc : bool) (k : kind) (sel : list V) (idx : index) : option (option cval) :=
  if sc then match sel with [x] => Some (Some (CScal x)) | _ => None end
  else match k with
       | KList | KTuple => if is_fancy idx then Some (Some (CCont KList sel)) else Some (Some (CCont k sel))
       | _ => Some (Some (CCont k sel))
       end.

Theorem gen_getitem_value_form_is_slice_value : forall desc nm_pixap sc p k l idx b pos,
  resolve idx (length l) = Some (b, pos) ->
  slice_value true desc nm_pixap sc p (CCont k l) idx =
  let sel := pick 0 l pos in
  let form := gen_getitem_value_form sc (priv (desc Main p)) (is_arr k) 0 1 2 in
  if form =? 0 then Some (Some (CCont KArr sel))            (* value[:, np.newaxis][index] *)
  else if form =? 1 then Some (Some (CCont KList sel))      (* [value[index]] *)
  else plain_form sc k sel idx.                              (* value[index] *)
Proof.
  intros desc nm_pixap sc p k l idx b pos H. unfold slice_value, gen_getitem_value_form, plain_form. rewrite H.
  cbv zeta. cbn [negb andb]. rewrite andb_true_r.
  destruct sc; destruct (priv (desc Main p)); destruct k; reflexivity.
Qed.

(* read off the regenerated code: the length-1 forms are used exactly for private keys of a scalar child *)
Theorem gen_getitem_value_form_spec : forall sc pr arr a b c,
  gen_getitem_value_form sc pr arr a b c = if sc && pr then (if arr then a else b) else c.
Proof. intros. unfold gen_getitem_value_form. destruct sc, pr, arr; reflexivity. Qed.

Print Assumptions gen_getitem_rejects_scalar_is_model.
Print Assumptions gen_getitem_key_copied_eq.
Print Assumptions gen_getitem_key_needs_dict.
Print Assumptions gen_getitem_value_form_is_slice_value.
Print Assumptions gen_getitem_value_form_spec.
