(* C05 — SegmentationImage attributes always describe the current label array.
   Property theorems only; each is closed by [exact] of a lemma of C05_Proofs.

   Vocabulary (C05_Model / C05_Proofs):
   state = core (shape, flattened label array c_data, dtype bounds c_lo/c_hi, deblend map c_dmap)
           + cache (the lazyproperty keys present in __dict__, with their values);
   [run s0 ops] = fold_left of the public operations (reads fill the cache, mutators mirror
           the repaired code line by line); [mutate o s] = (outcome, next state);
   [fresh c k] = what a freshly constructed SegmentationImage computes for attribute k from
           the core c alone (no cache);
   [good s] = all labels >= 0 and every cached entry equals the fresh value;
   [get_labels d] = np.unique(d[d != 0]);  [consec_from start d] = d mapped through the rank
           table of its own labels;  [maybe_consec relabel d] = if relabel then consec_from 1 d else d;
   [too_small c] = max(dtype) < number of labels (impossible for a real array, see
           [real_arrays_are_not_too_small]). *)
From Coq Require Import List Arith ZArith Bool.
From PV Require Import lib.Cases lib.Conn C05_Model C05_Proofs.
Import ListNotations.
Open Scope Z_scope.

(* ---------- cache coherence: reads never see a stale value ---------- *)
(* For EVERY history from a coherent state: every entry left in the cache equals the value a
   fresh object would compute on the current array, and every attribute read returns that
   value (and does not touch array, dtype or deblend map). *)
Theorem cache_coherent : forall s0 ops, good s0 ->
  let s := run s0 ops in
  (forall k v, cache s k = Some v -> v = fresh (st s) k) /\
  (forall k, fst (rd k s) = fresh (st s) k /\ st (snd (rd k s)) = st s).
Proof. exact cache_coherent_lemma. Qed.
Print Assumptions cache_coherent.

(* the three ways an object comes into being (constructor, detect_sources with pre-seeded
   labels/slices, deblend_sources with a given map) are coherent states *)
Theorem initial_objects_are_coherent : forall kind ny nx d lo hi dm,
  nonnegl d -> good (init_state kind ny nx d lo hi dm).
Proof. exact init_good. Qed.
Print Assumptions initial_objects_are_coherent.

Theorem coherence_is_preserved_by_every_operation : forall o s, good s -> good (snd (mutate o s)).
Proof. exact mutate_good. Qed.
Print Assumptions coherence_is_preserved_by_every_operation.

(* labels derived from cached raw slices = labels of the array; relabel_consecutive's
   re-seeded labels and kept slices are the fresh ones *)
Theorem labels_from_cached_slices : forall nx d, nonnegl d ->
  labels_from_raw (raw_slices nx d) = get_labels d.
Proof. exact labels_from_raw_ok. Qed.
Print Assumptions labels_from_cached_slices.
Theorem relabel_keeps_slice_list : forall nx start d, 0 < start -> nonnegl d ->
  somes (raw_slices nx (consec_from start d)) = somes (raw_slices nx d).
Proof. exact relabel_slices. Qed.
Print Assumptions relabel_keeps_slice_list.

(* ---------- documented effect of each mutator ---------- *)
(* reassign_label(s): complete case analysis of the outcome *)
Theorem op_effect_reassign_labels : forall ls new relabel s, good s ->
  good (snd (reassign ls new relabel s)) /\
  let d := c_data (st s) in let s' := snd (reassign ls new relabel s) in
  match fst (reassign ls new relabel s) with
  | Ok => valid_labels ls d /\ 0 <= new /\ (ls <> [] -> new <= c_hi (st s)) /\
          c_data (st s') = maybe_consec relabel (map (fun v => if memZ v ls then new else v) d) /\
          (st s' = st s \/ exists f, applied f (st s) (st s'))
  | ErrValue => st s' = st s /\
                (~ valid_labels ls d \/ new < 0 \/
                 (ls = [] /\ relabel = true /\ c_hi (st s) < Z.of_nat (length (get_labels d))))
  | ErrOverflow => st s' = st s /\ valid_labels ls d /\ ls <> [] /\ c_hi (st s) < new
  | _ => False
  end.
Proof. exact reassign_spec. Qed.
Print Assumptions op_effect_reassign_labels.

Theorem op_effect_relabel_consecutive : forall start s, good s ->
  good (snd (relabel_consecutive start s)) /\
  let d := c_data (st s) in let s' := snd (relabel_consecutive start s) in
  match fst (relabel_consecutive start s) with
  | Ok => 0 < start /\ get_labels d <> [] /\
          start + Z.of_nat (length (get_labels d)) - 1 <= c_hi (st s) /\
          c_data (st s') = consec_from start d /\
          (st s' = st s \/ applied (rankS start (get_labels d)) (st s) (st s'))
  | Warned => st s' = st s /\ get_labels d = []
  | ErrValue => st s' = st s /\ get_labels d <> [] /\
                (start <= 0 \/ c_hi (st s) < start + Z.of_nat (length (get_labels d)) - 1)
  | _ => False
  end.
Proof. exact relabel_consecutive_spec. Qed.
Print Assumptions op_effect_relabel_consecutive.

(* remove_label(s): pixels of the removed labels become 0, nothing else changes (then the
   optional consecutive relabelling); invalid labels: ValueError and nothing changes;
   documented arguments never fail *)
Theorem op_effect_remove_labels : forall ls relabel s, good s ->
  let r := remove ls relabel s in let d := c_data (st s) in
  good (snd r) /\
  (fst r = Ok -> valid_labels ls d /\
     c_data (st (snd r)) = maybe_consec relabel (map (fun v => if memZ v ls then 0 else v) d) /\
     (st (snd r) = st s \/ exists f, applied f (st s) (st (snd r)))) /\
  (fst r <> Ok -> st (snd r) = st s) /\
  (valid_labels ls d -> fst r = Ok \/ too_small (st s)).
Proof. exact remove_mspec. Qed.
Print Assumptions op_effect_remove_labels.

Theorem op_effect_keep_labels : forall ls relabel s, good s ->
  let r := keep ls relabel s in let d := c_data (st s) in
  good (snd r) /\
  (fst r = Ok -> valid_labels ls d /\
     c_data (st (snd r)) = maybe_consec relabel (map (fun v => if memZ v ls then v else 0) d) /\
     (st (snd r) = st s \/ exists f, applied f (st s) (st (snd r)))) /\
  (fst r <> Ok -> st (snd r) = st s) /\
  (valid_labels ls d -> fst r = Ok \/ too_small (st s)).
Proof. exact keep_mspec. Qed.
Print Assumptions op_effect_keep_labels.

Theorem op_effect_remove_masked_labels : forall mny mnx mask partial relabel s, good s ->
  let r := remove_masked mny mnx mask partial relabel s in let d := c_data (st s) in
  good (snd r) /\
  (fst r = Ok -> (mny = c_ny (st s) /\ mnx = c_nx (st s)) /\
     c_data (st (snd r)) =
       maybe_consec relabel (map (fun v => if memZ v (masked_labels mask partial d) then 0 else v) d) /\
     (st (snd r) = st s \/ exists f, applied f (st s) (st (snd r)))) /\
  (fst r <> Ok -> st (snd r) = st s) /\
  (mny = c_ny (st s) /\ mnx = c_nx (st s) -> fst r = Ok \/ too_small (st s)).
Proof. exact remove_masked_mspec. Qed.
Print Assumptions op_effect_remove_masked_labels.

(* which labels a mask removes *)
Theorem masked_labels_characterised : forall mask partial d l, length mask = length d ->
  (In l (masked_labels mask partial d) <->
   l <> 0 /\ (exists p, nth_error mask p = Some true /\ nth_error d p = Some l) /\
   (partial = false -> ~ exists p, nth_error mask p = Some false /\ nth_error d p = Some l)).
Proof. exact masked_labels_In. Qed.
Print Assumptions masked_labels_characterised.

Theorem op_effect_remove_border_labels : forall w partial relabel s, good s ->
  let ny := c_ny (st s) in let nx := c_nx (st s) in
  let r := remove_border w partial relabel s in let d := c_data (st s) in
  good (snd r) /\
  (fst r = Ok -> 2 * w < Z.min (Z.of_nat ny) (Z.of_nat nx) /\
     c_data (st (snd r)) =
       maybe_consec relabel
         (map (fun v => if memZ v (masked_labels (border_mask ny nx w) partial d) then 0 else v) d) /\
     (st (snd r) = st s \/ exists f, applied f (st s) (st (snd r)))) /\
  (fst r <> Ok -> st (snd r) = st s) /\
  (2 * w < Z.min (Z.of_nat ny) (Z.of_nat nx) -> fst r = Ok \/ too_small (st s)).
Proof. exact remove_border_mspec. Qed.
Print Assumptions op_effect_remove_border_labels.

(* the border region of width w >= 0 along one axis of length n *)
Theorem border_region : forall n w i, 0 <= w -> 0 <= i < n ->
  (in_border n w i = true <-> i < w \/ n - w <= i).
Proof. exact in_border_spec. Qed.
Print Assumptions border_region.

(* a zero border width removes nothing *)
Theorem border_zero_removes_nothing : forall partial relabel s, good s ->
  let r := remove_border 0 partial relabel s in
  (fst r = Ok -> c_data (st (snd r)) = maybe_consec relabel (c_data (st s))) /\
  (fst r <> Ok -> st (snd r) = st s) /\
  (0 < Z.min (Z.of_nat (c_ny (st s))) (Z.of_nat (c_nx (st s))) -> fst r = Ok \/ too_small (st s)).
Proof. exact border_zero_lemma. Qed.
Print Assumptions border_zero_removes_nothing.

Theorem op_effect_data_setter : forall isint ny nx d lo hi s, good s ->
  good (snd (set_data isint ny nx d lo hi s)) /\
  match fst (set_data isint ny nx d lo hi s) with
  | Ok => isint = true /\ nonnegl d /\
          st (snd (set_data isint ny nx d lo hi s)) =
            {| c_ny := ny; c_nx := nx; c_data := d; c_lo := lo; c_hi := hi; c_dmap := [] |}
  | ErrType => isint = false /\ snd (set_data isint ny nx d lo hi s) = s
  | ErrValue => isint = true /\ ~ nonnegl d /\ snd (set_data isint ny nx d lo hi s) = s
  | _ => False
  end.
Proof. exact set_data_spec. Qed.
Print Assumptions op_effect_data_setter.

(* relabel=True / relabel_consecutive: the labels become exactly start..start+N-1 (1..N for
   relabel=True); background pixels and only they stay 0; the renumbering is an
   order-preserving bijection of the old labels *)
Theorem relabel_gives_consecutive_labels : forall start d, 0 < start ->
  get_labels (consec_from start d) = zrange start (length (get_labels d)) /\
  length (consec_from start d) = length d /\
  (forall p, (p < length d)%nat -> (nth p (consec_from start d) 0 = 0 <-> nth p d 0 = 0)) /\
  (forall p q, (p < length d)%nat -> (q < length d)%nat -> nth p d 0 <> 0 -> nth q d 0 <> 0 ->
     (nth p d 0 < nth q d 0 <-> nth p (consec_from start d) 0 < nth q (consec_from start d) 0) /\
     (nth p d 0 = nth q d 0 <-> nth p (consec_from start d) 0 = nth q (consec_from start d) 0)).
Proof. exact consec_spec. Qed.
Print Assumptions relabel_gives_consecutive_labels.

(* dtype and shape are preserved by every history without a data assignment *)
Theorem dtype_and_shape_preserved : forall ops s, good s ->
  forallb (fun o => negb (is_setdata o)) ops = true -> same_frame (st s) (st (run s ops)).
Proof. exact run_frame. Qed.
Print Assumptions dtype_and_shape_preserved.

(* a call that raises changes neither array, dtype, shape nor deblend map *)
Theorem failed_calls_change_nothing : forall o s, good s ->
  is_failure (fst (mutate o s)) = true -> st (snd (mutate o s)) = st s.
Proof. exact failure_unchanged. Qed.
Print Assumptions failed_calls_change_nothing.

Theorem real_arrays_are_not_too_small : forall c, nonnegl (c_data c) -> 0 <= c_hi c ->
  Forall (fun v => v <= c_hi c) (c_data c) -> ~ too_small c.
Proof. exact bounded_not_too_small. Qed.
Print Assumptions real_arrays_are_not_too_small.

(* ---------- bookkeeping never names an absent label ---------- *)
Theorem bookkeeping_names_only_present_labels : forall s0 ops, good s0 -> dmap_ok (st s0) ->
  let s := run s0 ops in let labels := get_labels (c_data (st s)) in
  (forall p cs, In (p, cs) (c_dmap (st s)) -> cs <> [] /\ forall x, In x cs -> In x labels) /\
  (forall l, fst (rd KDebLabels s) = VL l -> forall x, In x l -> In x labels) /\
  (forall m, fst (rd KDebMap s) = VPairs m -> forall c p, In (c, p) m -> In c labels) /\
  (forall m, fst (rd KDebInv s) = VMap m -> forall p cs x, In (p, cs) m -> In x cs -> In x labels).
Proof. exact bookkeeping_lemma. Qed.
Print Assumptions bookkeeping_names_only_present_labels.

(* ---------- one polygon / segment per label ---------- *)
(* [shapes] is instantiated by the 8-connected regions of equal non-zero value (lib/Conn);
   the group keys of the sorted region list are exactly the labels, in label order, whatever
   the connectivity of the labels and whether or not the array has a background pixel; so
   zip(strict=True) in [segments] never raises and entry i belongs to label i. *)
Theorem one_polygon_and_segment_per_label : forall s0 ops, good s0 ->
  let s := run s0 ops in let labels := get_labels (c_data (st s)) in
  (forall pl, fst (rd KPolygons s) = VPoly pl -> length pl = length labels) /\
  (forall sg, fst (rd KSegments s) = VSeg sg -> map seg_label sg = labels /\ length sg = length labels).
Proof. exact one_entry_history. Qed.
Print Assumptions one_polygon_and_segment_per_label.
Theorem polygon_groups_are_the_labels : forall nx d, map fst (groupby (geo_of nx d)) = get_labels d.
Proof. exact polygon_keys. Qed.
Print Assumptions polygon_groups_are_the_labels.

(* ---------- non-vacuity ---------- *)
Definition doc_array : list Z :=
  [1;1;0;0;4;4; 0;0;0;0;0;4; 0;0;3;3;0;0; 7;0;0;0;0;5; 7;7;0;5;5;5; 7;7;0;0;5;5].
Definition doc_state := init_state 0 6 6 doc_array (-128) 127 [].
Example doc_state_good : good doc_state.
Proof. apply init_good. unfold nonnegl, doc_array. repeat constructor; discriminate. Qed.
(* read slices, remove label 1 with relabel=True, read labels again: 1..4, slices cached before
   the mutation are not served afterwards *)
Example history_example :
  let s := run doc_state [Read KSlices; Remove [1] true; Read KLabels; Read KSlices] in
  c_data (st s) = [0;0;0;0;2;2; 0;0;0;0;0;2; 0;0;1;1;0;0; 4;0;0;0;0;3; 4;4;0;3;3;3; 4;4;0;0;3;3]
  /\ cache s KLabels = Some (VL [1;2;3;4])
  /\ cache s KSlices = Some (VSl [(2,3,2,4); (0,2,4,6); (3,6,3,6); (3,6,0,2)]).
Proof. vm_compute. repeat split. Qed.
Example border_zero_example :
  c_data (st (run doc_state [RemoveBorder 0 true false])) = doc_array
  /\ c_data (st (run doc_state [RemoveBorder 1 true false])) =
       [0;0;0;0;0;0; 0;0;0;0;0;0; 0;0;3;3;0;0; 0;0;0;0;0;0; 0;0;0;0;0;0; 0;0;0;0;0;0].
Proof. vm_compute. split; reflexivity. Qed.
(* label 1 is in two pieces, there is no background pixel in the second array *)
Example polygons_example :
  fresh (st (init_state 0 3 3 [1;0;1; 0;0;0; 2;2;0] 0 255 [])) KPolygons
    = VPoly [(2, 2, (0,1,0,3)); (1, 2, (2,3,0,2))]
  /\ fresh (st (init_state 0 2 2 [1;1; 2;2] 0 255 [])) KPolygons
    = VPoly [(1, 2, (0,1,0,2)); (1, 2, (1,2,0,2))].
Proof. vm_compute. split; reflexivity. Qed.
(* deblend map {2: [2,3]}: removing child 2 leaves {2: [3]}; removing both drops the parent *)
Example deblend_map_example :
  c_dmap (st (run (init_state 2 1 4 [1;2;3;0] 0 255 [(2, [2;3])]) [Remove [2] false])) = [(2, [3])]
  /\ c_dmap (st (run (init_state 2 1 4 [1;2;3;0] 0 255 [(2, [2;3])]) [Remove [2;3] true])) = [].
Proof. vm_compute. split; reflexivity. Qed.
Example deblend_map_ok_example : dmap_ok (st (init_state 2 1 4 [1;2;3;0] 0 255 [(2, [2;3])])).
Proof.
  intros p cs [E|[]]. injection E as <- <-. split; [discriminate|].
  intros x [<-|[<-|[]]]; vm_compute; auto.
Qed.
