(* C14 -- TRANSLATOR TIE.  gen/Gen_detection.v is REGENERATED from the current source text of
   photutils/detection/core.py (StarFinderBase._find_stars) and photutils/detection/peakfinder.py
   (find_peaks) on every run (harness/translate_all.py); it is not committed.  Tied here, for ALL inputs,
   to C14_Model.v:
     the `if exclude_border:` block of _find_stars (border_width from the kernel shape / radii) = stars_border
     size = int(min_separation) and the footprint element (xx**2 + yy**2 <= min_separation**2)  = disk_fp true
     the border slice writes of find_peaks (peak_goodmask[:ny, :] ..., with their `if ny > 0` guards),
       as "is pixel (i0, i1) written", under Python slice semantics                              = in_border
   (np.arange(-size, size + 1) / np.meshgrid themselves are array constructors outside the translated subset;
   the model's index list -r .. r is the stated reading of them.) *)
From Coq Require Import List Arith ZArith QArith Qround Bool Lia ZifyBool.
From PV Require Import lib.Cases lib.PyGen C14_Model C14_Proofs gen.Gen_detection.
Import ListNotations.
Open Scope Z_scope.

Ltac Zify.zify_post_hook ::= Z.to_euclidean_division_equations.

(* ---------- border_width of _find_stars ---------- *)
Definition zpair (o : option (nat * nat)) : option (Z * Z) :=
  match o with Some (a, b) => Some (Z.of_nat a, Z.of_nat b) | None => None end.

(* kernel given as an array: (shape - 1) // 2 per axis *)
Theorem gen_find_stars_border_eq : forall (kfp : list (list bool)) eb,
  (1 <= length kfp)%nat -> (1 <= length (hd [] kfp))%nat ->
  gen_find_stars_border eb (Z.of_nat (length kfp)) (Z.of_nat (length (hd [] kfp))) = zpair (stars_border kfp eb).
Proof.
  intros kfp eb H1 H2. unfold gen_find_stars_border, stars_border, zpair. destruct eb; [|reflexivity].
  cbv zeta. struct_eq ltac:(rewrite Nat2Z.inj_div, Nat2Z.inj_sub by lia; reflexivity || lia).
Qed.

(* kernel given as a _StarFinderKernel of odd shape (n0, n1): yradius = n0 // 2 gives the same border *)
Theorem gen_find_stars_border_kernel_eq : forall eb n0 n1, n0 mod 2 = 1 -> n1 mod 2 = 1 ->
  gen_find_stars_border_kernel eb (n0 / 2) (n1 / 2) = gen_find_stars_border eb n0 n1.
Proof.
  intros eb n0 n1 H0 H1. unfold gen_find_stars_border_kernel, gen_find_stars_border. destruct eb; [|reflexivity].
  cbv zeta. struct_eq lia.
Qed.

(* no border exclusion unless asked for; otherwise strictly less than half the kernel on each side *)
Theorem gen_find_stars_border_range : forall eb n0 n1, 1 <= n0 -> 1 <= n1 ->
  match gen_find_stars_border eb n0 n1 with
  | None => eb = false
  | Some (b0, b1) => eb = true /\ 0 <= b0 /\ 2 * b0 < n0 + 1 /\ n0 <= 2 * b0 + 2 /\ 0 <= b1 /\ 2 * b1 < n1 + 1 /\ n1 <= 2 * b1 + 2
  end.
Proof.
  intros eb n0 n1 H0 H1. unfold gen_find_stars_border. destruct eb; [|reflexivity]. cbv zeta. lia.
Qed.

(* ---------- the separation footprint ---------- *)
(* int() truncates; for a non-negative separation it is the floor: min_separation = ms4/4 gives ms4 / 4 *)
Theorem gen_find_stars_size_eq : forall ms4, 0 <= ms4 -> gen_find_stars_size (ms4 # 4) = ms4 / 4.
Proof.
  intros ms4 H. unfold gen_find_stars_size. cbv zeta.
  destruct (Qle_bool (0 # 1) (ms4 # 4)) eqn:E.
  - reflexivity.
  - exfalso. apply Qle_bool_false in E. unfold Qlt in E. cbn in E. lia.
Qed.

Theorem gen_find_stars_fp_elem_eq : forall xx yy ms4,
  gen_find_stars_fp_elem xx yy (ms4 # 4) = if 16 * (xx * xx + yy * yy) <=? ms4 * ms4 then 1 else 0.
Proof.
  intros. unfold gen_find_stars_fp_elem. cbv zeta.
  match goal with |- context [Qle_bool ?a ?b] => destruct (Qle_bool a b) eqn:E end;
    [apply Qle_bool_true in E | apply Qle_bool_false in E];
    unfold Qle, Qlt in E; cbn in E; if_split; first [reflexivity | exfalso; lia].
Qed.

(* the model's repaired separation footprint is the regenerated element test on the integer offsets
   -size .. size, size = the regenerated int(min_separation) *)
Theorem disk_fp_is_gen : forall ms4, 0 <= ms4 ->
  disk_fp true ms4 =
  let r := gen_find_stars_size (ms4 # 4) in
  let idx := map (fun i => Z.of_nat i - r) (seq 0 (Z.to_nat (2 * r + 1))) in
  map (fun yy => map (fun xx => gen_find_stars_fp_elem xx yy (ms4 # 4) =? 1) idx) idx.
Proof.
  intros ms4 H. cbv zeta. rewrite gen_find_stars_size_eq by exact H. unfold disk_fp.
  apply map_ext. intro yy. apply map_ext. intro xx. rewrite gen_find_stars_fp_elem_eq.
  destruct (16 * (xx * xx + yy * yy) <=? ms4 * ms4); reflexivity.
Qed.

(* hence (offsets_disk): the footprint offsets are exactly the integer points of the closed disk of radius
   min_separation -- two selected peaks are more than min_separation apart *)
Theorem gen_footprint_is_closed_disk : forall ms4 dy dx, 0 <= ms4 ->
  let r := gen_find_stars_size (ms4 # 4) in
  (- r <= dx <= r /\ - r <= dy <= r /\ gen_find_stars_fp_elem dx dy (ms4 # 4) = 1)
  <-> In (dy, dx) (offsets (disk_fp true ms4)).
Proof.
  intros ms4 dy dx H. cbv zeta. rewrite gen_find_stars_size_eq by exact H.
  rewrite offsets_disk by exact H. rewrite gen_find_stars_fp_elem_eq.
  destruct (16 * (dx * dx + dy * dy) <=? ms4 * ms4) eqn:E.
  - split; [lia|]. intros _. repeat split; try reflexivity; nia.
  - split; [intros (_ & _ & F); discriminate | lia].
Qed.

(* ---------- the border exclusion of find_peaks ---------- *)
(* pure integer statement of what the guarded slice writes do: for a width 0 <= b <= n per axis, pixel
   (i0, i1) is cleared iff it lies within b of an edge; in particular width 0 clears NOTHING (without the
   `if ny > 0` guard, peak_goodmask[-0:, :] would clear the whole array) *)
Theorem gen_find_peaks_border_hit_iff : forall b0 b1 n0 n1 i0 i1,
  0 <= b0 <= n0 -> 0 <= b1 <= n1 -> 0 <= i0 < n0 -> 0 <= i1 < n1 ->
  (gen_find_peaks_border_hit b0 b1 n0 n1 i0 i1 = true <->
   (i0 < b0 \/ n0 - b0 <= i0 \/ i1 < b1 \/ n1 - b1 <= i1)).
Proof.
  intros. unfold gen_find_peaks_border_hit, py_in_slice, py_slice_norm. cbv zeta.
  if_split; lia.
Qed.

Theorem gen_find_peaks_border_zero_width : forall n0 n1 i0 i1, gen_find_peaks_border_hit 0 0 n0 n1 i0 i1 = false.
Proof. intros. unfold gen_find_peaks_border_hit. cbn. reflexivity. Qed.

(* the model's in_border (border widths clamped to the image by as_pair) is the regenerated write set *)
Theorem gen_find_peaks_border_hit_eq : forall ny nx b_y b_x p, (p < ny * nx)%nat ->
  gen_find_peaks_border_hit (Z.of_nat (Nat.min b_y ny)) (Z.of_nat (Nat.min b_x nx)) (Z.of_nat ny) (Z.of_nat nx)
                            (Z.of_nat (p / nx)) (Z.of_nat (p mod nx))
  = in_border ny nx (Some (b_y, b_x)) p.
Proof.
  intros ny nx b_y b_x p Hp. destruct (pos_of_lt ny nx p Hp) as (Hnx & Hy & Hx).
  unfold in_border. cbv zeta.
  remember (Nat.min b_y ny) as cy. remember (Nat.min b_x nx) as cx.
  assert (cy <= ny)%nat by lia. assert (cx <= nx)%nat by lia.
  remember (p / nx)%nat as y. remember (p mod nx)%nat as x.
  apply eq_true_iff_eq. rewrite gen_find_peaks_border_hit_iff by lia.
  rewrite orb_true_iff, !andb_true_iff, !orb_true_iff, !Nat.ltb_lt, !Nat.leb_le. lia.
Qed.

(* the restated border clause of C14: a pixel is excluded iff it is a border pixel of the model *)
Theorem gen_find_peaks_border_spec : forall ny nx b_y b_x p, (p < ny * nx)%nat ->
  (gen_find_peaks_border_hit (Z.of_nat (Nat.min b_y ny)) (Z.of_nat (Nat.min b_x nx)) (Z.of_nat ny) (Z.of_nat nx)
                             (Z.of_nat (p / nx)) (Z.of_nat (p mod nx)) = true
   <-> border_px ny nx (Some (b_y, b_x)) p).
Proof.
  intros ny nx b_y b_x p Hp. rewrite gen_find_peaks_border_hit_eq by exact Hp. apply in_border_spec. exact Hp.
Qed.

Print Assumptions gen_find_stars_border_eq.
Print Assumptions gen_find_stars_border_kernel_eq.
Print Assumptions gen_find_stars_border_range.
Print Assumptions gen_find_stars_size_eq.
Print Assumptions gen_find_stars_fp_elem_eq.
Print Assumptions disk_fp_is_gen.
Print Assumptions gen_footprint_is_closed_disk.
Print Assumptions gen_find_peaks_border_hit_iff.
Print Assumptions gen_find_peaks_border_zero_width.
Print Assumptions gen_find_peaks_border_hit_eq.
Print Assumptions gen_find_peaks_border_spec.
