(* C08 — proofs about the model of catalog indexing (C08_Model.v).
   Part 1: index resolution, association lists. *)
From Coq Require Import List ZArith Bool Lia ZifyBool.
From PV Require Import lib.Cases C08_Model.
Import ListNotations.

(* ---------- index resolution: every resolved position is in range ---------- *)
Lemma norm_int_lt n i p : norm_int n i = Some p -> p < n.
Proof.
  unfold norm_int. intros H.
  destruct ((0 <=? i)%Z && (i <? Z.of_nat n)%Z) eqn:E1.
  - injection H as <-. lia.
  - destruct ((i <? 0)%Z && (- Z.of_nat n <=? i)%Z) eqn:E2; [|discriminate].
    injection H as <-. lia.
Qed.

Lemma norm_list_lt n l pos : norm_list n l = Some pos -> Forall (fun p => p < n) pos.
Proof.
  revert pos; induction l as [|i l IH]; intros pos H; cbn in H.
  - injection H as <-. constructor.
  - destruct (norm_int n i) eqn:E1; [|discriminate].
    destruct (norm_list n l) eqn:E2; [|discriminate].
    injection H as <-. constructor; [eapply norm_int_lt; eauto|auto].
Qed.

Lemma mask_pos_lt m i : Forall (fun p => p < i + length m) (mask_pos m i).
Proof.
  revert i; induction m as [|b m IH]; intros i; cbn; [constructor|].
  specialize (IH (S i)).
  assert (H : Forall (fun p => p < i + S (length m)) (mask_pos m (S i))).
  { eapply Forall_impl; [|exact IH]. cbn; intros; lia. }
  destruct b; [constructor; [lia|exact H]|exact H].
Qed.

Lemma zrange_lt fuel n start stop step :
  (-1 <= stop <= Z.of_nat n)%Z -> (-1 <= start <= Z.of_nat n)%Z ->
  ((0 < step)%Z -> (0 <= start)%Z) -> ((step < 0)%Z -> (start < Z.of_nat n)%Z) ->
  Forall (fun p => p < n) (zrange fuel start stop step).
Proof.
  revert start; induction fuel as [|k IH]; intros start Hstop Hstart Hpos Hneg; cbn; [constructor|].
  destruct (((0 <? step)%Z && (start <? stop)%Z) || ((step <? 0)%Z && (stop <? start)%Z)) eqn:E; [|constructor].
  constructor.
  - lia.
  - destruct (Z_lt_le_dec 0 step) as [Hs|Hs].
    + destruct (Z_lt_le_dec (start + step) stop) as [Hlt|Hge].
      * apply IH; lia.
      * destruct k; cbn; [constructor|].
        replace (((0 <? step)%Z && (start + step <? stop)%Z) || ((step <? 0)%Z && (stop <? start + step)%Z))
          with false by lia. constructor.
    + destruct (Z_lt_le_dec stop (start + step)) as [Hlt|Hge].
      * apply IH; lia.
      * destruct k; cbn; [constructor|].
        replace (((0 <? step)%Z && (start + step <? stop)%Z) || ((step <? 0)%Z && (stop <? start + step)%Z))
          with false by lia. constructor.
Qed.

Lemma slice_pos_lt n a b s pos : slice_pos n a b s = Some pos -> Forall (fun p => p < n) pos.
Proof.
  unfold slice_pos. intros H.
  destruct ((match s with Some s0 => s0 | None => 1%Z end =? 0)%Z) eqn:E0; [discriminate|].
  injection H as <-.
  set (step := match s with Some s0 => s0 | None => 1%Z end) in *.
  destruct (step <? 0)%Z eqn:Eneg.
  - apply zrange_lt.
    + destruct b as [b|]; [destruct (b <? 0)%Z eqn:Eb|]; lia.
    + destruct a as [a|]; [destruct (a <? 0)%Z eqn:Ea|]; lia.
    + lia.
    + intros _. destruct a as [a|]; [destruct (a <? 0)%Z eqn:Ea|]; lia.
  - apply zrange_lt.
    + destruct b as [b|]; [destruct (b <? 0)%Z eqn:Eb|]; lia.
    + destruct a as [a|]; [destruct (a <? 0)%Z eqn:Ea|]; lia.
    + intros _. destruct a as [a|]; [destruct (a <? 0)%Z eqn:Ea|]; lia.
    + lia.
Qed.

Lemma resolve_lt idx n sc pos : resolve idx n = Some (sc, pos) -> Forall (fun p => p < n) pos.
Proof.
  destruct idx as [i|a b s|l|m]; cbn; intros H.
  - destruct (norm_int n i) eqn:E; [|discriminate]. injection H as <- <-.
    constructor; [eapply norm_int_lt; eauto|constructor].
  - destruct (slice_pos n a b s) eqn:E; [|discriminate]. injection H as <- <-.
    eapply slice_pos_lt; eauto.
  - destruct (norm_list n l) eqn:E; [|discriminate]. injection H as <- <-.
    eapply norm_list_lt; eauto.
  - destruct (length m =? n) eqn:E; [|discriminate]. injection H as <- <-.
    apply Nat.eqb_eq in E. subst n. apply (mask_pos_lt m 0).
Qed.

(* an integer index selects exactly one source; every other form yields a non-scalar child *)
Lemma resolve_scalar idx n sc pos :
  resolve idx n = Some (sc, pos) ->
  (sc = true -> exists i, pos = [i]) /\ (sc = true <-> exists i, idx = IInt i).
Proof.
  destruct idx as [i|a b s|l|m]; cbn; intros H.
  - destruct (norm_int n i) eqn:E; [|discriminate]. injection H as <- <-.
    split; [eauto|split; eauto].
  - destruct (slice_pos n a b s); [|discriminate]. injection H as <- <-.
    split; [discriminate|split; [discriminate|intros [i Hi]; discriminate]].
  - destruct (norm_list n l); [|discriminate]. injection H as <- <-.
    split; [discriminate|split; [discriminate|intros [i Hi]; discriminate]].
  - destruct (length m =? n); [|discriminate]. injection H as <- <-.
    split; [discriminate|split; [discriminate|intros [i Hi]; discriminate]].
Qed.

(* ---------- pick ---------- *)
Lemma pick_map {A B} (g : A -> B) (da : A) (db : B) (l : list A) pos :
  Forall (fun p => p < length l) pos -> pick db (map g l) pos = map g (pick da l pos).
Proof.
  unfold pick. intros H. rewrite map_map. apply map_ext_in.
  intros i Hi. rewrite Forall_forall in H. specialize (H i Hi).
  rewrite (nth_indep _ db (g da)) by (rewrite map_length; exact H).
  apply map_nth.
Qed.

Lemma pick_length {A} (d : A) l pos : length (pick d l pos) = length pos.
Proof. apply map_length. Qed.

(* ---------- association lists ---------- *)
Lemma lookup_dset p q v d : lookup p (dset q v d) = if (q =? p)%Z then Some v else lookup p d.
Proof.
  induction d as [|[k w] d IH]; cbn.
  - reflexivity.
  - destruct (k =? q)%Z eqn:E1; cbn.
    + apply Z.eqb_eq in E1. subst k. destruct (q =? p)%Z; reflexivity.
    + rewrite IH. destruct (k =? p)%Z eqn:E2; [|reflexivity].
      apply Z.eqb_eq in E2. subst k. rewrite Z.eqb_sym, E1. reflexivity.
Qed.

Lemma lookup_ddel p q d : lookup p (ddel q d) = if (q =? p)%Z then None else lookup p d.
Proof.
  unfold ddel.
  induction d as [|[k w] d IH]; cbn.
  - destruct (q =? p)%Z; reflexivity.
  - destruct (k =? q)%Z eqn:E1; cbn.
    + rewrite IH. apply Z.eqb_eq in E1. subst k. destruct (q =? p)%Z; reflexivity.
    + rewrite IH. destruct (k =? p)%Z eqn:E2; [|reflexivity].
      apply Z.eqb_eq in E2. subst k. rewrite Z.eqb_sym, E1. reflexivity.
Qed.

Lemma lookup_in_keys p d : lookup p d <> None <-> In p (dkeys d).
Proof.
  induction d as [|[k w] d IH]; cbn.
  - split; [congruence|tauto].
  - destruct (k =? p)%Z eqn:E.
    + apply Z.eqb_eq in E. split; [auto|discriminate].
    + rewrite IH. split; [auto|]. intros [H|H]; [apply Z.eqb_neq in E; contradiction|exact H].
Qed.

Lemma zmem_in p l : zmem p l = true <-> In p l.
Proof.
  unfold zmem. rewrite existsb_exists. split.
  - intros [x [Hin Hx]]. apply Z.eqb_eq in Hx. subst; exact Hin.
  - intros H. exists p. split; [exact H|apply Z.eqb_refl].
Qed.

Lemma dset_keys_nodup q v d : NoDup (dkeys d) -> NoDup (dkeys (dset q v d)).
Proof.
  induction d as [|[k w] d IH]; cbn; intros H.
  - constructor; [intros []|constructor].
  - inversion H as [|? ? Hnin Hnd]; subst.
    destruct (k =? q)%Z eqn:E; cbn.
    + constructor; assumption.
    + constructor; [|auto].
      intros Hin. apply lookup_in_keys in Hin. rewrite lookup_dset in Hin.
      rewrite Z.eqb_sym, E in Hin. apply lookup_in_keys in Hin. contradiction.
Qed.

Lemma ddel_keys_nodup q d : NoDup (dkeys d) -> NoDup (dkeys (ddel q d)).
Proof.
  induction d as [|[k w] d IH]; cbn; intros H; [constructor|].
  inversion H as [|? ? Hnin Hnd]; subst.
  destruct (k =? q)%Z eqn:E; cbn; [apply IH; exact Hnd|].
  constructor; [|apply IH; exact Hnd].
  intros Hin. change (filter (fun e => negb (fst e =? q)%Z) d) with (ddel q d) in Hin.
  apply lookup_in_keys in Hin. rewrite lookup_ddel in Hin.
  destruct (q =? k)%Z; [congruence|]. apply lookup_in_keys in Hin. contradiction.
Qed.

Lemma lookup_nodup_in p v d : NoDup (dkeys d) -> In (p, v) d -> lookup p d = Some v.
Proof.
  induction d as [|[k w] d IH]; cbn; intros Hnd Hin; [destruct Hin|].
  inversion Hnd as [|? ? Hnin Hnd']; subst.
  destruct Hin as [Heq|Hin].
  - injection Heq as -> ->. rewrite Z.eqb_refl. reflexivity.
  - destruct (k =? p)%Z eqn:E; [|auto].
    apply Z.eqb_eq in E. subst k. exfalso. apply Hnin.
    change p with (fst (p, v)). apply in_map. exact Hin.
Qed.

Lemma lookup_some_in p v d : lookup p d = Some v -> In (p, v) d.
Proof.
  induction d as [|[k w] d IH]; cbn; intros H; [discriminate|].
  destruct (k =? p)%Z eqn:E.
  - apply Z.eqb_eq in E. injection H as ->. subst. left; reflexivity.
  - right; auto.
Qed.

(* ====================================================================== *)
(* Part 2: the invariant "every cached value is the per-source value".    *)
(* ====================================================================== *)
Section Inv.
Variable sourcecat copyx : bool.
Variable lazy props internal basep : list name.
Variable desc : role -> name -> pdesc.
Variable f : role -> name -> nat -> V.
Variable nm_isscalar nm_nlabels nm_pixap nm_localbkg : name.
Variable isc_trace : list name.

Local Notation fresh := (fresh desc f).
Local Notation eval1 := (eval1 desc f).
Local Notation eval_core := (eval_core desc f).
Local Notation vrole := (vrole desc).
Local Notation eval1_cat := (eval1_cat desc f).
Local Notation eval_det := (eval_det desc f).
Local Notation eval_cat := (eval_cat desc f).
Local Notation read := (read basep desc f).

(* v is the value of property p for the sources of c, supplied by role rho, in the
   shape the class gives it *)
Definition good_val (rho : role) (c : core) (p : name) (v : cval) : Prop :=
  if pyscal (desc rho p) then v = CPy
  else elems v = map (f rho p) (src c)
       /\ (scal c = false -> exists k, v = CCont k (map (f rho p) (src c)))
       /\ (scal c = true -> priv (desc Main p) = false -> asc (desc rho p) = true -> exists x, v = CScal x)
       /\ v <> CPy.

(* one entry per source (or a python scalar) *)
Definition shaped (c : core) (v : cval) : Prop :=
  v = CPy \/ (length (elems v) = length (src c) /\ (scal c = false -> exists k l, v = CCont k l)).

Definition wf_core (rho : name -> role) (c : core) : Prop :=
  (scal c = true -> exists s, src c = [s]) /\
  NoDup (dkeys (dict c)) /\
  (forall p v, lookup p (dict c) = Some v -> shaped c v) /\
  (forall p v, lookup p (dict c) = Some v -> zmem p lazy = true -> good_val (rho p) c p v).

Lemma good_shaped rho c p v : good_val rho c p v -> shaped c v.
Proof.
  unfold good_val, shaped. destruct (pyscal (desc rho p)); [auto|].
  intros (He & Hns & _ & _). right. split.
  - rewrite He. apply map_length.
  - intros Hs. destruct (Hns Hs) as [k Hk]. eauto.
Qed.

Lemma fresh_good r c p : (scal c = true -> exists s, src c = [s]) -> good_val r c p (fresh r c p).
Proof.
  intros Hsc. unfold good_val, C08_Model.fresh.
  destruct (pyscal (desc r p)); [reflexivity|].
  destruct (scal c) eqn:Es.
  - destruct (Hsc eq_refl) as [s Hs]. rewrite Hs. cbn.
    destruct (asc (desc r p)) eqn:Ea; cbn.
    + repeat split; try discriminate. eauto.
    + repeat split; try discriminate.
  - cbn. repeat split; try discriminate. eauto.
Qed.

Lemma good_val_cache rho c q w p v : good_val rho (cache q w c) p v <-> good_val rho c p v.
Proof. reflexivity. Qed.
Lemma shaped_cache c q w v : shaped (cache q w c) v <-> shaped c v.
Proof. reflexivity. Qed.

Lemma cache_wf rho c q v :
  wf_core rho c -> shaped c v -> (zmem q lazy = true -> good_val (rho q) c q v) ->
  wf_core rho (cache q v c).
Proof.
  intros (Hs & Hnd & Hsh & Hg) Hv Hgv. split; [exact Hs|]. split; [|split].
  - cbn. apply dset_keys_nodup. exact Hnd.
  - intros p w. cbn. rewrite lookup_dset. destruct (q =? p)%Z eqn:E.
    + intros [= <-]. exact Hv.
    + apply Hsh.
  - intros p w. cbn. rewrite lookup_dset. destruct (q =? p)%Z eqn:E.
    + intros [= <-] Hl. apply Z.eqb_eq in E. subst p. apply Hgv. exact Hl.
    + apply Hg.
Qed.

Lemma eval1_src r c q : src (eval1 r c q) = src c /\ scal (eval1 r c q) = scal c.
Proof. unfold C08_Model.eval1. destruct (lookup q (dict c)); split; reflexivity. Qed.

Lemma eval1_cached r c q : exists v, lookup q (dict (eval1 r c q)) = Some v.
Proof.
  unfold C08_Model.eval1. destruct (lookup q (dict c)) eqn:E; [eauto|].
  cbn. rewrite lookup_dset, Z.eqb_refl. eauto.
Qed.

(* evaluation never changes an entry that is already cached *)
Lemma eval1_keeps r c q p v : lookup p (dict c) = Some v -> lookup p (dict (eval1 r c q)) = Some v.
Proof.
  unfold C08_Model.eval1. intros H. destruct (lookup q (dict c)) eqn:E; [exact H|].
  cbn. rewrite lookup_dset. destruct (q =? p)%Z eqn:E2; [|exact H].
  apply Z.eqb_eq in E2. subst. congruence.
Qed.

Lemma eval1_wf r rho c q : rho q = r -> wf_core rho c -> wf_core rho (eval1 r c q).
Proof.
  intros Hr Hwf. unfold C08_Model.eval1. destruct (lookup q (dict c)); [exact Hwf|].
  assert (Hg : good_val r c q (fresh r c q)) by (apply fresh_good; apply Hwf).
  apply cache_wf; [exact Hwf|eapply good_shaped; exact Hg|intros _; rewrite Hr; exact Hg].
Qed.

Lemma eval_core_wf r rho c tr : (forall q, In q tr -> rho q = r) -> wf_core rho c -> wf_core rho (eval_core r c tr).
Proof.
  unfold C08_Model.eval_core. revert c. induction tr as [|q tr IH]; intros c Hr Hwf; cbn; [exact Hwf|].
  apply IH; [intros q' Hq; apply Hr; right; exact Hq|]. apply eval1_wf; [apply Hr; left; reflexivity|exact Hwf].
Qed.

Lemma eval_core_src r c tr : src (eval_core r c tr) = src c /\ scal (eval_core r c tr) = scal c.
Proof.
  unfold C08_Model.eval_core. revert c. induction tr as [|q tr IH]; intros c; cbn; [split; reflexivity|].
  destruct (IH (eval1 r c q)) as [H1 H2]. destruct (eval1_src r c q) as [H3 H4].
  split; congruence.
Qed.

Lemma eval_core_keeps r c tr p v : lookup p (dict c) = Some v -> lookup p (dict (eval_core r c tr)) = Some v.
Proof.
  unfold C08_Model.eval_core. revert c. induction tr as [|q tr IH]; intros c H; cbn; [exact H|].
  apply IH. apply eval1_keeps. exact H.
Qed.

(* ---------- catalogs with an optional detection catalog ---------- *)
Definition hasdet (c : cat) : bool := match det c with Some _ => true | None => false end.
Definition mrole (hd : bool) (p : name) : role := vrole Main hd p.

Definition wf_cat (c : cat) : Prop :=
  wf_core (mrole (hasdet c)) (main c) /\
  match det c with
  | None => True
  | Some d => wf_core (fun _ => Det) d /\ src d = src (main c) /\ scal d = scal (main c)
  end.

Lemma good_val_transfer rho c c' p v :
  src c' = src c -> scal c' = scal c -> good_val rho c p v -> good_val rho c' p v.
Proof. unfold good_val. intros -> ->. auto. Qed.

Lemma shaped_transfer c c' v : src c' = src c -> scal c' = scal c -> shaped c v -> shaped c' v.
Proof. unfold shaped. intros -> ->. auto. Qed.

Lemma eval1_cat_frame c q :
  src (main (eval1_cat c q)) = src (main c) /\ scal (main (eval1_cat c q)) = scal (main c) /\
  xref (eval1_cat c q) = xref c /\ hasdet (eval1_cat c q) = hasdet c.
Proof.
  unfold C08_Model.eval1_cat, hasdet. destruct (lookup q (dict (main c))); [repeat split|].
  destruct (det c) as [d|] eqn:Ed; [|cbn; rewrite ?Ed; repeat split].
  destruct (udet (desc Main q)).
  - destruct (lookup q (dict (eval1 Det d q))); cbn; rewrite ?Ed; repeat split.
  - cbn. rewrite ?Ed. repeat split.
Qed.

Lemma eval1_cat_wf c q : wf_cat c -> wf_cat (eval1_cat c q).
Proof.
  intros [Hm Hd]. unfold C08_Model.eval1_cat.
  destruct (lookup q (dict (main c))) eqn:El; [split; assumption|].
  destruct (det c) as [d|] eqn:Ed.
  - destruct Hd as (Hdw & Hsrc & Hscal).
    destruct (udet (desc Main q)) eqn:Eu.
    + destruct (eval1_cached Det d q) as [v Hv]. rewrite Hv.
      assert (Hdw' : wf_core (fun _ => Det) (eval1 Det d q)) by (apply eval1_wf; auto).
      destruct (eval1_src Det d q) as [Hs1 Hs2].
      unfold wf_cat, hasdet. cbn. unfold hasdet in Hm. rewrite Ed in Hm.
      split.
      * apply cache_wf; [exact Hm| |].
        -- eapply shaped_transfer; [| |apply Hdw' with (p := q); exact Hv]; congruence.
        -- intros Hl. unfold mrole, C08_Model.vrole. rewrite Eu. cbn.
           eapply good_val_transfer; [| |apply Hdw'; [exact Hv|exact Hl]]; congruence.
      * split; [exact Hdw'|]. split; congruence.
    + unfold wf_cat, hasdet. cbn. rewrite Ed. unfold hasdet in Hm. rewrite Ed in Hm.
      assert (Hg : good_val Main (main c) q (fresh Main (main c) q)) by (apply fresh_good; apply Hm).
      split.
      * apply cache_wf; [exact Hm|eapply good_shaped; exact Hg|].
        intros _. unfold mrole, C08_Model.vrole. rewrite Eu. exact Hg.
      * split; [exact Hdw|]. split; assumption.
  - unfold wf_cat, hasdet. cbn. rewrite Ed. unfold hasdet in Hm. rewrite Ed in Hm.
    assert (Hg : good_val Main (main c) q (fresh Main (main c) q)) by (apply fresh_good; apply Hm).
    split; [|exact I].
    apply cache_wf; [exact Hm|eapply good_shaped; exact Hg|].
    intros _. unfold mrole, C08_Model.vrole. rewrite andb_false_r. exact Hg.
Qed.

Lemma eval1_cat_cached c q : wf_cat c -> exists v, lookup q (dict (main (eval1_cat c q))) = Some v.
Proof.
  intros _. unfold C08_Model.eval1_cat.
  destruct (lookup q (dict (main c))) eqn:El; [eauto|].
  destruct (det c) as [d|] eqn:Ed.
  - destruct (udet (desc Main q)).
    + destruct (eval1_cached Det d q) as [v Hv]. rewrite Hv. cbn. rewrite lookup_dset, Z.eqb_refl. eauto.
    + cbn. rewrite lookup_dset, Z.eqb_refl. eauto.
  - cbn. rewrite lookup_dset, Z.eqb_refl. eauto.
Qed.

Lemma eval1_cat_keeps c q p v :
  lookup p (dict (main c)) = Some v -> lookup p (dict (main (eval1_cat c q))) = Some v.
Proof.
  intros H. unfold C08_Model.eval1_cat.
  destruct (lookup q (dict (main c))) eqn:El; [exact H|].
  assert (Hne : (q =? p)%Z = false).
  { destruct (q =? p)%Z eqn:E; [|reflexivity]. apply Z.eqb_eq in E. subst. congruence. }
  destruct (det c) as [d|] eqn:Ed.
  - destruct (udet (desc Main q)).
    + destruct (lookup q (dict (eval1 Det d q))); [|exact H]. cbn. rewrite lookup_dset, Hne. exact H.
    + cbn. rewrite lookup_dset, Hne. exact H.
  - cbn. rewrite lookup_dset, Hne. exact H.
Qed.

Lemma eval_det_wf c trd : wf_cat c -> wf_cat (eval_det c trd).
Proof.
  intros [Hm Hd]. unfold C08_Model.eval_det. destruct (det c) as [d|] eqn:Ed; [|split; [exact Hm|rewrite Ed; exact I]].
  destruct Hd as (Hdw & Hsrc & Hscal). destruct (eval_core_src Det d trd) as [H1 H2].
  unfold wf_cat, hasdet in *. cbn. rewrite Ed in Hm. split; [exact Hm|].
  split; [apply eval_core_wf; auto|]. split; congruence.
Qed.

Lemma eval_det_frame c trd :
  main (eval_det c trd) = main c /\ xref (eval_det c trd) = xref c /\ hasdet (eval_det c trd) = hasdet c.
Proof.
  unfold C08_Model.eval_det, hasdet. destruct (det c) eqn:Ed; cbn; [repeat split|rewrite Ed; repeat split].
Qed.

Lemma fold_eval1_cat_wf tr c : wf_cat c -> wf_cat (fold_left eval1_cat tr c).
Proof. revert c. induction tr as [|q tr IH]; intros c H; cbn; [exact H|]. apply IH, eval1_cat_wf, H. Qed.

Lemma fold_eval1_cat_frame tr c :
  src (main (fold_left eval1_cat tr c)) = src (main c) /\ scal (main (fold_left eval1_cat tr c)) = scal (main c) /\
  xref (fold_left eval1_cat tr c) = xref c /\ hasdet (fold_left eval1_cat tr c) = hasdet c.
Proof.
  revert c. induction tr as [|q tr IH]; intros c; cbn; [repeat split|].
  destruct (IH (eval1_cat c q)) as (A & B & C & D). destruct (eval1_cat_frame c q) as (A' & B' & C' & D').
  repeat split; congruence.
Qed.

Lemma fold_eval1_cat_keeps tr c p v :
  lookup p (dict (main c)) = Some v -> lookup p (dict (main (fold_left eval1_cat tr c))) = Some v.
Proof. revert c. induction tr as [|q tr IH]; intros c H; cbn; [exact H|]. apply IH, eval1_cat_keeps, H. Qed.

Lemma eval_cat_wf c trm trd : wf_cat c -> wf_cat (eval_cat c trm trd).
Proof. intros H. unfold C08_Model.eval_cat. apply fold_eval1_cat_wf, eval_det_wf, H. Qed.

Lemma eval_cat_frame c trm trd :
  src (main (eval_cat c trm trd)) = src (main c) /\ scal (main (eval_cat c trm trd)) = scal (main c) /\
  xref (eval_cat c trm trd) = xref c /\ hasdet (eval_cat c trm trd) = hasdet c.
Proof.
  unfold C08_Model.eval_cat. destruct (fold_eval1_cat_frame trm (eval_det c trd)) as (A & B & C & D).
  destruct (eval_det_frame c trd) as (A' & B' & C').
  rewrite A' in A, B. repeat split; congruence.
Qed.

Lemma eval_cat_keeps c trm trd p v :
  lookup p (dict (main c)) = Some v -> lookup p (dict (main (eval_cat c trm trd))) = Some v.
Proof.
  intros H. unfold C08_Model.eval_cat. apply fold_eval1_cat_keeps.
  destruct (eval_det_frame c trd) as (A & _). rewrite A. exact H.
Qed.

Lemma eval_cat_last_cached c trm p trd :
  wf_cat c -> exists v, lookup p (dict (main (eval_cat c (trm ++ [p]) trd))) = Some v.
Proof.
  intros H. unfold C08_Model.eval_cat. rewrite fold_left_app. cbn.
  apply eval1_cat_cached. apply fold_eval1_cat_wf, eval_det_wf, H.
Qed.

(* a read returns the per-source values of the catalog, in the class's shape *)
Lemma read_good c p trm trd c' v :
  wf_cat c -> read c p trm trd = (c', v) ->
  wf_cat c' /\ src (main c') = src (main c) /\ scal (main c') = scal (main c) /\ xref c' = xref c /\
  hasdet c' = hasdet c /\
  (zmem p basep = true -> good_val Main (main c') p v) /\
  (zmem p basep = false -> zmem p lazy = true -> good_val (mrole (hasdet c) p) (main c') p v).
Proof.
  intros Hwf. unfold C08_Model.read. destruct (zmem p basep) eqn:Eb.
  - intros [= <- <-]. destruct (eval_cat_frame c trm trd) as (A & B & C & D).
    assert (Hw' := eval_cat_wf c trm trd Hwf).
    split; [exact Hw'|]. split; [exact A|]. split; [exact B|]. split; [exact C|]. split; [exact D|].
    split; [|discriminate].
    intros _. apply fresh_good. apply Hw'.
  - intros [= <- <-]. destruct (eval_cat_frame c (trm ++ [p]) trd) as (A & B & C & D).
    assert (Hw' := eval_cat_wf c (trm ++ [p]) trd Hwf).
    split; [exact Hw'|]. split; [exact A|]. split; [exact B|]. split; [exact C|]. split; [exact D|].
    split; [discriminate|].
    intros _ Hl. destruct (eval_cat_last_cached c trm p trd Hwf) as [v Hv]. rewrite Hv.
    destruct Hw' as [Hm _]. rewrite D in Hm. apply Hm; assumption.
Qed.

(* ====================================================================== *)
(* Part 3: __getitem__.                                                    *)
(* ====================================================================== *)
Local Notation slice_value := (slice_value sourcecat desc nm_pixap).
Local Notation slice_step := (slice_step sourcecat desc nm_pixap).
Local Notation copied_key := (copied_key sourcecat lazy nm_localbkg).
Local Notation getitem_core := (getitem_core sourcecat lazy desc f nm_isscalar nm_pixap nm_localbkg isc_trace).
Local Notation getitem := (getitem sourcecat copyx lazy desc f nm_isscalar nm_pixap nm_localbkg isc_trace).

Definition copied_name (extras : list name) (n : name) : bool :=
  zmem n lazy || zmem n extras || (negb sourcecat && (n =? nm_localbkg)%Z).

Lemma copied_key_name extras e : copied_key extras e = copied_name extras (fst e).
Proof. reflexivity. Qed.

Lemma lookup_filter_name (g : name -> bool) p d :
  lookup p (filter (fun e => g (fst e)) d) = if g p then lookup p d else None.
Proof.
  induction d as [|[k w] d IH]; cbn.
  - destruct (g p); reflexivity.
  - destruct (g k) eqn:Eg; cbn.
    + destruct (k =? p)%Z eqn:E; [|exact IH].
      apply Z.eqb_eq in E. subst k. rewrite Eg. reflexivity.
    + rewrite IH. destruct (k =? p)%Z eqn:E; [|reflexivity].
      apply Z.eqb_eq in E. subst k. rewrite Eg. reflexivity.
Qed.

Lemma filter_keys_nodup (g : name * cval -> bool) d : NoDup (dkeys d) -> NoDup (dkeys (filter g d)).
Proof.
  induction d as [|[k w] d IH]; cbn; intros H; [constructor|].
  inversion H as [|? ? Hnin Hnd]; subst.
  destruct (g (k, w)); cbn; [|auto].
  constructor; [|auto]. intros Hin. apply Hnin.
  unfold dkeys in *. apply in_map_iff in Hin. destruct Hin as [e [He Hin]].
  apply filter_In in Hin. apply in_map_iff. exists e. tauto.
Qed.

(* what value[index] is, for a container with one entry per source *)
Lemma slice_value_spec sc p k l idx pos :
  resolve idx (length l) = Some (sc, pos) ->
  exists v', slice_value sc p (CCont k l) idx = Some (Some v') /\
             elems v' = pick 0%Z l pos /\ v' <> CPy /\
             (sc = false -> exists k', v' = CCont k' (pick 0%Z l pos)) /\
             (sc = true -> priv (desc Main p) = false -> exists x, v' = CScal x).
Proof.
  intros Hr. unfold C08_Model.slice_value. rewrite Hr.
  destruct (resolve_scalar _ _ _ _ Hr) as [Hone _].
  destruct sc.
  - destruct (Hone eq_refl) as [i ->]. cbn [andb].
    destruct (priv (desc Main p) && negb (negb sourcecat && (p =? nm_pixap)%Z)) eqn:E.
    + destruct k; eexists; (split; [reflexivity|]); cbn;
        (split; [reflexivity|]); (split; [discriminate|]); (split; [discriminate|]);
        intros _ Hp; rewrite Hp in E; discriminate.
    + cbn. eexists; split; [reflexivity|]. cbn.
      split; [reflexivity|]. split; [discriminate|]. split; [discriminate|]. eauto.
  - cbn [andb]. destruct k; try destruct (is_fancy idx); eexists; (split; [reflexivity|]); cbn;
      (split; [reflexivity|]); (split; [discriminate|]); (split; [eauto|discriminate]).
Qed.

Lemma fold_slice_none sc idx L : fold_left (slice_step sc idx) L None = None.
Proof. induction L as [|e L IH]; cbn; auto. Qed.

Definition sliced_entry (sc : bool) (idx : index) (L : dictT) (d0 : dictT) (p : name) : option cval :=
  match lookup p L with
  | Some v => match slice_value sc p v idx with Some (Some v') => Some v' | _ => lookup p d0 end
  | None => lookup p d0
  end.

Lemma fold_slice_spec sc idx L ch0 ch :
  NoDup (dkeys L) -> fold_left (slice_step sc idx) L (Some ch0) = Some ch ->
  src ch = src ch0 /\ scal ch = scal ch0 /\ (NoDup (dkeys (dict ch0)) -> NoDup (dkeys (dict ch))) /\
  forall p, lookup p (dict ch) = sliced_entry sc idx L (dict ch0) p.
Proof.
  revert ch0. induction L as [|[q v] L IH]; intros ch0 Hnd H; cbn in H.
  - injection H as <-. repeat split; auto.
  - inversion Hnd as [|? ? Hnin Hnd']; subst.
    assert (HqL : lookup q L = None).
    { destruct (lookup q L) eqn:E; [|reflexivity]. exfalso. apply Hnin. apply lookup_in_keys. congruence. }
    destruct (slice_value sc q v idx) as [[v'|]|] eqn:Es.
    + destruct (IH _ Hnd' H) as (A & B & C & D). cbn in A, B, C.
      split; [exact A|]. split; [exact B|]. split; [intros H0; apply C, dset_keys_nodup, H0|].
      intros p. rewrite D. unfold sliced_entry. cbn [lookup].
      destruct (q =? p)%Z eqn:E.
      * apply Z.eqb_eq in E. subst p. rewrite HqL, Es. cbn. rewrite lookup_dset, Z.eqb_refl. reflexivity.
      * cbn. rewrite lookup_dset, E. reflexivity.
    + destruct (IH _ Hnd' H) as (A & B & C & D).
      split; [exact A|]. split; [exact B|]. split; [exact C|].
      intros p. rewrite D. unfold sliced_entry. cbn [lookup].
      destruct (q =? p)%Z eqn:E; [|reflexivity].
      apply Z.eqb_eq in E. subst p. rewrite HqL, Es. reflexivity.
    + rewrite fold_slice_none in H. discriminate.
Qed.

Lemma fold_slice_total sc idx L ch0 :
  (forall q v, In (q, v) L -> slice_value sc q v idx <> None) ->
  exists ch, fold_left (slice_step sc idx) L (Some ch0) = Some ch.
Proof.
  revert ch0. induction L as [|[q v] L IH]; intros ch0 H; cbn; [eauto|].
  destruct (slice_value sc q v idx) as [[v'|]|] eqn:Es.
  - apply IH. intros; apply H; right; assumption.
  - apply IH. intros; apply H; right; assumption.
  - exfalso. apply (H q v); [left; reflexivity|exact Es].
Qed.

(* the child's __dict__ entry for key p *)
Definition child_entry (r : role) (extras : list name) (c : core) (sc : bool) (idx : index) (pos : list nat)
           (p : name) : option cval :=
  let child1 := eval_core r {| src := pick 0 (src c) pos; scal := sc; dict := [] |} (isc_trace ++ [nm_isscalar]) in
  match lookup p (dict c) with
  | Some v => if copied_name extras p
              then match slice_value sc p v idx with Some (Some v') => Some v' | _ => lookup p (dict child1) end
              else lookup p (dict child1)
  | None => lookup p (dict child1)
  end.

Lemma wf_empty_core rho srcs sc :
  (sc = true -> exists s, srcs = [s]) -> wf_core rho {| src := srcs; scal := sc; dict := [] |}.
Proof.
  intros H. split; [exact H|]. split; [constructor|]. split; intros p v Hl; discriminate.
Qed.

Lemma getitem_core_spec r rho extras c idx res c' :
  wf_core rho c -> (forall q, In q (isc_trace ++ [nm_isscalar]) -> rho q = r) ->
  getitem_core r extras c idx = (res, c') ->
  wf_core rho c' /\ src c' = src c /\ scal c' = scal c /\
  (forall p v, lookup p (dict c) = Some v -> lookup p (dict c') = Some v) /\
  match res with
  | Err e => scal c = true \/ resolve idx (length (src c)) = None
  | Ok ch => scal c = false /\ exists sc pos, resolve idx (length (src c)) = Some (sc, pos) /\
             src ch = pick 0 (src c) pos /\ scal ch = sc /\ wf_core rho ch /\
             forall p, lookup p (dict ch) = child_entry r extras c' sc idx pos p
  end.
Proof.
  intros Hwf Hrho. unfold C08_Model.getitem_core.
  set (c1 := eval_core r c (isc_trace ++ [nm_isscalar])).
  assert (Hwf1 : wf_core rho c1) by (apply eval_core_wf; assumption).
  assert (Hs1 : src c1 = src c) by apply eval_core_src.
  assert (Hs2 : scal c1 = scal c) by apply eval_core_src.
  assert (Hkeep : forall p v, lookup p (dict c) = Some v -> lookup p (dict c1) = Some v)
    by (intros; apply eval_core_keeps; assumption).
  destruct (scal c1) eqn:Esc.
  { intros [= <- <-]. repeat (split; [first [assumption|congruence]|]). left. congruence. }
  destruct (resolve idx (length (src c1))) as [[sc pos]|] eqn:Er.
  2:{ intros [= <- <-]. repeat (split; [first [assumption|congruence]|]). right. congruence. }
  set (child0 := {| src := pick 0 (src c1) pos; scal := sc; dict := [] |}).
  set (child1 := eval_core r child0 (isc_trace ++ [nm_isscalar])).
  assert (Hpos : Forall (fun i => i < length (src c1)) pos) by (eapply resolve_lt; eauto).
  assert (Hone : sc = true -> exists s, pick 0 (src c1) pos = [s]).
  { intros ->. destruct (resolve_scalar _ _ _ _ Er) as [H _]. destruct (H eq_refl) as [i ->]. cbn. eauto. }
  assert (Hwfc1 : wf_core rho child1) by (apply eval_core_wf; [assumption|apply wf_empty_core; exact Hone]).
  assert (Hc1 : src child1 = pick 0 (src c1) pos) by apply (eval_core_src r child0).
  assert (Hc2 : scal child1 = sc) by apply (eval_core_src r child0).
  destruct Hwf1 as (Hsc1 & Hnd1 & Hsh1 & Hg1).
  set (L := filter (C08_Model.copied_key sourcecat lazy nm_localbkg extras) (dict c1)).
  assert (HndL : NoDup (dkeys L)) by (apply filter_keys_nodup; exact Hnd1).
  destruct (fold_left (slice_step sc idx) L (Some child1)) as [ch|] eqn:Ef.
  2:{ (* impossible: every entry can be sliced *)
      exfalso. destruct (fold_slice_total sc idx L child1) as [ch Hch]; [|unfold L in *; congruence].
      intros q v Hin. apply filter_In in Hin. destruct Hin as [Hin _].
      apply (lookup_nodup_in _ _ _ Hnd1) in Hin.
      destruct (Hsh1 _ _ Hin) as [->|[Hlen Hc]]; [discriminate|].
      destruct (Hc Esc) as (k & l & ->). cbn in Hlen.
      destruct (slice_value_spec sc q k l idx pos) as (v' & Hv' & _); [rewrite Hlen; exact Er|].
      rewrite Hv'. discriminate. }
  intros [= <- <-].
  split; [repeat split; assumption|]. split; [exact Hs1|]. split; [congruence|]. split; [exact Hkeep|].
  split; [congruence|]. exists sc, pos. rewrite <- Hs1.
  destruct (fold_slice_spec sc idx L child1 ch HndL Ef) as (A & B & C & D).
  split; [exact Er|]. split; [rewrite A, Hc1; reflexivity|]. split; [rewrite B, Hc2; reflexivity|].
  assert (Hentry : forall p, lookup p (dict ch) = child_entry r extras c1 sc idx pos p).
  { intros p. rewrite D. unfold sliced_entry, child_entry. fold child0. fold child1.
    unfold L.
    change (lookup p (filter (C08_Model.copied_key sourcecat lazy nm_localbkg extras) (dict c1)))
      with (lookup p (filter (fun e => copied_name extras (fst e)) (dict c1))).
    rewrite lookup_filter_name.
    destruct (copied_name extras p); [|destruct (lookup p (dict c1)); reflexivity].
    reflexivity. }
  split; [|exact Hentry].
  (* the child is well formed *)
  destruct Hwfc1 as (Hscc & Hndc & Hshc & Hgc).
  assert (Hsrc_ch : src ch = pick 0 (src c1) pos) by (rewrite A, Hc1; reflexivity).
  assert (Hscal_ch : scal ch = sc) by (rewrite B, Hc2; reflexivity).
  split; [rewrite Hsrc_ch, Hscal_ch; exact Hone|]. split; [apply C; exact Hndc|].
  assert (Hcase : forall p w, lookup p (dict ch) = Some w ->
            lookup p (dict child1) = Some w \/
            exists k l v', lookup p (dict c1) = Some (CCont k l) /\ length l = length (src c1) /\
                          slice_value sc p (CCont k l) idx = Some (Some v') /\ w = v').
  { intros p w Hw. rewrite Hentry in Hw. unfold child_entry in Hw. fold child0 in Hw. fold child1 in Hw.
    destruct (lookup p (dict c1)) as [v|] eqn:Elp; [|left; exact Hw].
    destruct (copied_name extras p); [|left; exact Hw].
    destruct (slice_value sc p v idx) as [[v'|]|] eqn:Es; [|left; exact Hw|left; exact Hw].
    right. destruct (Hsh1 _ _ Elp) as [->|[Hlen Hc]]; [cbn in Es; discriminate|].
    destruct (Hc Esc) as (k & l & ->). cbn in Hlen. injection Hw as <-. exists k, l, v'. auto. }
  split.
  - intros p w Hw. destruct (Hcase p w Hw) as [H1|(k & l & v' & Hl & Hlen & Hs & ->)].
    + eapply shaped_transfer; [| |eapply Hshc; exact H1]; congruence.
    + destruct (slice_value_spec sc p k l idx pos) as (v'' & Hv'' & He & Hne & Hk & _); [rewrite Hlen; exact Er|].
      rewrite Hs in Hv''. injection Hv'' as <-.
      right. split.
      * rewrite He, Hsrc_ch, !pick_length. reflexivity.
      * intros Hf. rewrite Hscal_ch in Hf. destruct (Hk Hf) as [k' ->]. eauto.
  - intros p w Hw Hlz. destruct (Hcase p w Hw) as [H1|(k & l & v' & Hl & Hlen & Hs & ->)].
    + eapply good_val_transfer; [| |eapply Hgc; [exact H1|exact Hlz]]; congruence.
    + specialize (Hg1 _ _ Hl Hlz). unfold good_val in *.
      destruct (pyscal (desc (rho p) p)); [discriminate|].
      destruct Hg1 as (He1 & _ & _ & _). cbn in He1. subst l.
      destruct (slice_value_spec sc p k (map (f (rho p) p) (src c1)) idx pos) as (v'' & Hv'' & He & Hne & Hk & Hx);
        [rewrite Hlen; exact Er|].
      rewrite Hs in Hv''. injection Hv'' as <-.
      assert (Hpm : pick 0%Z (map (f (rho p) p) (src c1)) pos = map (f (rho p) p) (src ch)).
      { rewrite Hsrc_ch. apply pick_map. exact Hpos. }
      split; [rewrite He; exact Hpm|]. split; [|split; [|exact Hne]].
      * intros Hf. rewrite Hscal_ch in Hf. destruct (Hk Hf) as [k' ->]. exists k'. rewrite Hpm. reflexivity.
      * intros Ht Hp _. rewrite Hscal_ch in Ht. apply Hx; assumption.
Qed.

Lemma getitem_core_total r rho extras c idx :
  wf_core rho c -> (forall q, In q (isc_trace ++ [nm_isscalar]) -> rho q = r) ->
  scal c = false -> resolve idx (length (src c)) <> None ->
  exists ch c', getitem_core r extras c idx = (Ok ch, c').
Proof.
  intros Hwf Hrho Hs Hr. destruct (getitem_core r extras c idx) as [res c'] eqn:E.
  destruct (getitem_core_spec _ _ _ _ _ _ _ Hwf Hrho E) as (_ & _ & _ & _ & H).
  destruct res as [ch|e]; [eauto|]. destruct H; congruence.
Qed.
(* ====================================================================== *)
(* Part 4: __getitem__ on catalogs, the extra-property registry, histories *)
(* ====================================================================== *)
Hypothesis Hlazy_internal : forall p, zmem p lazy = true -> zmem p internal = true.
Hypothesis Hisc_nodet : forall q, In q (isc_trace ++ [nm_isscalar]) -> udet (desc Main q) = false.

Lemma mrole_isc hd q : In q (isc_trace ++ [nm_isscalar]) -> mrole hd q = Main.
Proof. intros H. unfold mrole, C08_Model.vrole. rewrite (Hisc_nodet q H). reflexivity. Qed.

Definition extras_of (h : heapT) (c : cat) : list name := if sourcecat then hget h (xref c) else [].

Lemma getitem_spec h c idx h' c' r :
  wf_cat c -> getitem h c idx = (h', c', r) ->
  wf_cat c' /\ src (main c') = src (main c) /\ scal (main c') = scal (main c) /\ xref c' = xref c /\
  hasdet c' = hasdet c /\
  (forall p v, lookup p (dict (main c)) = Some v -> lookup p (dict (main c')) = Some v) /\
  match r with
  | Err _ => h' = h
  | Ok ch => scal (main c) = false /\ wf_cat ch /\ hasdet ch = hasdet c /\
             (exists sc pos, resolve idx (length (src (main c))) = Some (sc, pos) /\
                             src (main ch) = pick 0 (src (main c)) pos /\ scal (main ch) = sc /\
                             forall p, lookup p (dict (main ch)) = child_entry Main (extras_of h c) (main c') sc idx pos p) /\
             (if copyx then h' = h ++ [extras_of h c] /\ xref ch = length h else h' = h /\ xref ch = xref c)
  end.
Proof.
  intros [Hm Hd]. unfold C08_Model.getitem. fold (extras_of h c).
  destruct (getitem_core Main (extras_of h c) (main c) idx) as [rm m] eqn:E1.
  destruct (getitem_core_spec Main (mrole (hasdet c)) _ _ _ _ _ Hm (mrole_isc (hasdet c)) E1)
    as (Hwm & Hsm & Hcm & Hkm & Hres).
  destruct rm as [chm|e].
  2:{ intros [= <- <- <-]. unfold wf_cat, hasdet. cbn.
      split; [split; [exact Hwm|]|repeat split; auto].
      destruct (det c) as [d|]; [|exact I]. destruct Hd as (A & B & C). split; [exact A|]. split; congruence. }
  destruct Hres as (Hns & sc & pos & Hr & Hsrc & Hscal & Hwch & Hent).
  cbn [det set_main].
  destruct (det c) as [d|] eqn:Ed.
  - destruct Hd as (Hdw & Hdsrc & Hdscal).
    destruct (getitem_core Det [] d idx) as [rd d'] eqn:E2.
    destruct (getitem_core_spec Det (fun _ => Det) _ _ _ _ _ Hdw (fun _ _ => eq_refl) E2)
      as (Hwd & Hsd & Hcd & _ & Hresd).
    assert (Hc'wf : wf_cat (set_det d' (set_main m c))).
    { unfold wf_cat, hasdet. cbn. unfold hasdet in Hwm. rewrite Ed in Hwm. split; [exact Hwm|].
      split; [exact Hwd|]. split; congruence. }
    destruct rd as [dch|e].
    2:{ intros [= <- <- <-]. split; [exact Hc'wf|]. unfold hasdet. cbn. rewrite Ed. repeat split; auto. }
    destruct Hresd as (_ & sc' & pos' & Hr' & Hsrc' & Hscal' & Hwdch & _).
    rewrite Hdsrc, Hr in Hr'. injection Hr' as <- <-.
    assert (Hchwf : forall x, wf_cat {| main := chm; xref := x; det := Some dch |}).
    { intros x. unfold wf_cat, hasdet. cbn. unfold hasdet in Hwch. rewrite Ed in Hwch. split; [exact Hwch|].
      split; [exact Hwdch|]. split; congruence. }
    destruct copyx; intros [= <- <- <-];
      (split; [exact Hc'wf|]); (split; [exact Hsm|]); (split; [exact Hcm|]); (split; [reflexivity|]);
      (split; [unfold hasdet; cbn; rewrite Ed; reflexivity|]); (split; [exact Hkm|]);
      (split; [exact Hns|]); (split; [apply Hchwf|]); (split; [unfold hasdet; cbn; rewrite Ed; reflexivity|]);
      (split; [exists sc, pos; repeat split; assumption|]); split; reflexivity.
  - assert (Hc'wf : wf_cat (set_main m c)).
    { unfold wf_cat, hasdet. cbn. rewrite Ed. unfold hasdet in Hwm. rewrite Ed in Hwm. split; [exact Hwm|exact I]. }
    assert (Hchwf : forall x, wf_cat {| main := chm; xref := x; det := None |}).
    { intros x. unfold wf_cat, hasdet. cbn. unfold hasdet in Hwch. rewrite Ed in Hwch. split; [exact Hwch|exact I]. }
    destruct copyx; intros [= <- <- <-];
      (split; [exact Hc'wf|]); (split; [exact Hsm|]); (split; [exact Hcm|]); (split; [reflexivity|]);
      (split; [unfold hasdet; cbn; rewrite Ed; reflexivity|]); (split; [exact Hkm|]);
      (split; [exact Hns|]); (split; [apply Hchwf|]); (split; [unfold hasdet; cbn; rewrite Ed; reflexivity|]);
      (split; [exists sc, pos; repeat split; assumption|]); split; reflexivity.
Qed.

(* every valid index expression on a non-scalar catalog succeeds *)
Lemma getitem_total h c idx :
  wf_cat c -> scal (main c) = false -> resolve idx (length (src (main c))) <> None ->
  exists h' c' ch, getitem h c idx = (h', c', Ok ch).
Proof.
  intros Hwf Hs Hr. destruct (getitem h c idx) as [[h' c'] r] eqn:E.
  destruct r as [ch|e]; [eauto|]. exfalso.
  destruct Hwf as [Hm Hd]. unfold C08_Model.getitem in E. fold (extras_of h c) in E.
  destruct (getitem_core_total Main (mrole (hasdet c)) (extras_of h c) (main c) idx Hm (mrole_isc _) Hs Hr)
    as (chm & m & E1).
  rewrite E1 in E. cbn [det set_main] in E.
  destruct (det c) as [d|] eqn:Ed.
  - destruct Hd as (Hdw & Hdsrc & Hdscal).
    destruct (getitem_core_total Det (fun _ => Det) [] d idx Hdw (fun _ _ => eq_refl)) as (dch & d' & E2);
      [congruence|rewrite Hdsrc; exact Hr|].
    rewrite E2 in E. destruct copyx; discriminate.
  - destruct copyx; discriminate.
Qed.

(* ---------- the heap of extra-property lists ---------- *)
Definition heap_ok (h : heapT) : Prop := forall r nm, In nm (hget h r) -> zmem nm lazy = false.

Lemma hget_app h x r :
  hget (h ++ [x]) r = if r <? length h then hget h r else if r =? length h then x else [].
Proof.
  unfold hget. destruct (r <? length h) eqn:E1.
  - apply Nat.ltb_lt in E1. apply app_nth1. exact E1.
  - apply Nat.ltb_ge in E1. rewrite app_nth2 by exact E1.
    destruct (r =? length h) eqn:E2.
    + apply Nat.eqb_eq in E2. subst r. rewrite Nat.sub_diag. reflexivity.
    + apply Nat.eqb_neq in E2. destruct (r - length h) as [|k] eqn:E3; [lia|]. destruct k; reflexivity.
Qed.

Lemma hget_hset h r l r' :
  hget (hset h r l) r' = if (r' =? r) && (r <? length h) then l else hget h r'.
Proof.
  unfold hget. revert r r'. induction h as [|x h IH]; intros r r'; cbn.
  - rewrite andb_false_r. reflexivity.
  - destruct r as [|r]; destruct r' as [|r']; cbn; try reflexivity.
    rewrite IH. reflexivity.
Qed.

Lemma hset_length h r l : length (hset h r l) = length h.
Proof. revert r. induction h as [|x h IH]; intros [|r]; cbn; auto. Qed.

Lemma heap_ok_app h x : heap_ok h -> (forall nm, In nm x -> zmem nm lazy = false) -> heap_ok (h ++ [x]).
Proof.
  intros Hh Hx r nm. rewrite hget_app. destruct (r <? length h); [apply Hh|].
  destruct (r =? length h); [apply Hx|intros []].
Qed.

Lemma heap_ok_hset h r l : heap_ok h -> (forall nm, In nm l -> zmem nm lazy = false) -> heap_ok (hset h r l).
Proof.
  intros Hh Hl r' nm. rewrite hget_hset. destruct ((r' =? r) && (r <? length h)); [apply Hl|apply Hh].
Qed.

Local Notation add_extra := (add_extra props internal desc f nm_isscalar nm_nlabels).
Local Notation rename_extra := (rename_extra lazy props internal basep desc f nm_isscalar nm_nlabels).
Local Notation add_all := (add_all props internal desc f nm_isscalar nm_nlabels).
Local Notation photometry := (photometry props internal desc f nm_isscalar nm_nlabels).
Local Notation to_table := (to_table desc f nm_isscalar).
Local Notation getattr := (getattr lazy basep desc f).

(* same sources, same registry cell, same detection-catalog status *)
Definition same_frame (c c' : cat) : Prop :=
  src (main c') = src (main c) /\ scal (main c') = scal (main c) /\ xref c' = xref c /\ hasdet c' = hasdet c.

Lemma same_frame_refl c : same_frame c c.
Proof. repeat split. Qed.
Lemma same_frame_trans a b c : same_frame a b -> same_frame b c -> same_frame a c.
Proof. intros (A & B & C & D) (A' & B' & C' & D'). repeat split; congruence. Qed.

Lemma eval_cat_same_frame c trm trd : same_frame c (eval_cat c trm trd).
Proof. exact (eval_cat_frame c trm trd). Qed.

Lemma cache_main_wf c nm v :
  wf_cat c -> zmem nm lazy = false -> shaped (main c) v -> wf_cat (set_main (cache nm v (main c)) c).
Proof.
  intros [Hm Hd] Hnl Hsh. unfold wf_cat, hasdet in *. cbn.
  split; [apply cache_wf; [exact Hm|exact Hsh|intros H; congruence]|exact Hd].
Qed.

(* other registry cells are untouched; the heap never shrinks *)
Definition heap_frame (h h' : heapT) (own : nat) : Prop :=
  length h <= length h' /\ forall r, r <> own -> r < length h -> hget h' r = hget h r.

Lemma noop_spec (h : heapT) (c0 c : cat) :
  wf_cat c -> heap_ok h -> same_frame c0 c ->
  wf_cat c /\ heap_ok h /\ same_frame c0 c /\ length h = length h /\
  (forall r', r' <> xref c0 -> hget h r' = hget h r').
Proof. intros A B C. split; [exact A|]. split; [exact B|]. split; [exact C|]. split; reflexivity. Qed.

Lemma add_extra_spec h c nm v ow h' c' r :
  wf_cat c -> heap_ok h -> add_extra h c nm v ow = (h', c', r) ->
  (wf_cat c' /\ heap_ok h' /\ same_frame c c' /\ length h' = length h /\
   (forall r', r' <> xref c -> hget h' r' = hget h r')) /\
  match r with Ok _ => zmem nm lazy = false | Err _ => True end.
Proof.
  intros Hwf Hh. unfold C08_Model.add_extra.
  set (ex := hget h (xref c)).
  destruct ((zmem nm (dkeys (dict (main c))) || zmem nm internal) && negb (zmem nm ex)) eqn:Eint.
  { intros [= <- <- <-]. split; [apply noop_spec; [exact Hwf|exact Hh|apply same_frame_refl]|exact I]. }
  destruct (negb ow && (zmem nm (dkeys (dict (main c))) || zmem nm props || zmem nm ex)) eqn:Eow.
  { intros [= <- <- <-]. split; [apply noop_spec; [exact Hwf|exact Hh|apply same_frame_refl]|exact I]. }
  assert (Hnl : zmem nm lazy = false).
  { destruct (zmem nm lazy) eqn:El; [|reflexivity]. exfalso.
    rewrite (Hlazy_internal _ El), orb_true_r in Eint. cbn in Eint.
    destruct (zmem nm ex) eqn:Eex; [|discriminate].
    apply zmem_in in Eex. apply (Hh (xref c)) in Eex. congruence. }
  pose proof (eval_cat_wf c [nm_isscalar] [] Hwf) as Hw1.
  pose proof (eval_cat_same_frame c [nm_isscalar] []) as Hf1.
  revert Hw1 Hf1. generalize (eval_cat c [nm_isscalar] []). intros c1 Hw1 Hf1.
  destruct (scal (main c1)) eqn:Esc.
  - (* scalar catalog *)
    assert (Hfin : forall x, wf_cat (set_main (cache nm (CScal x) (main c1)) c1)).
    { intros x. apply cache_main_wf; [exact Hw1|exact Hnl|]. right. cbn. split; [|congruence].
      destruct Hw1 as [(Hs & _) _]. destruct (Hs Esc) as [s ->]. reflexivity. }
    assert (Hfr : forall x, same_frame c (set_main (cache nm (CScal x) (main c1)) c1)).
    { intros x. eapply same_frame_trans; [exact Hf1|]. repeat split. }
    assert (Hxr : xref c1 = xref c) by apply Hf1.
    destruct v as [|x|k [|x [|y l]]]; try (intros [= <- <- <-]; split; [apply noop_spec; assumption|exact I]).
    + destruct ow; intros [= <- <- <-]; (split; [|exact Hnl]).
      * split; [apply Hfin|]. split; [exact Hh|]. split; [apply Hfr|]. split; auto.
      * split; [apply Hfin|]. split.
        -- apply heap_ok_hset; [exact Hh|]. intros n Hin. apply in_app_or in Hin.
           destruct Hin as [Hin|[<-|[]]]; [apply (Hh (xref c)); exact Hin|exact Hnl].
        -- split; [apply Hfr|]. split; [apply hset_length|].
           intros r' Hr'. rewrite hget_hset. cbn. rewrite Hxr.
           destruct (r' =? xref c) eqn:E; [apply Nat.eqb_eq in E; contradiction|reflexivity].
    + destruct ow; intros [= <- <- <-]; (split; [|exact Hnl]).
      * split; [apply Hfin|]. split; [exact Hh|]. split; [apply Hfr|]. split; auto.
      * split; [apply Hfin|]. split.
        -- apply heap_ok_hset; [exact Hh|]. intros n Hin. apply in_app_or in Hin.
           destruct Hin as [Hin|[<-|[]]]; [apply (Hh (xref c)); exact Hin|exact Hnl].
        -- split; [apply Hfr|]. split; [apply hset_length|].
           intros r' Hr'. rewrite hget_hset. cbn. rewrite Hxr.
           destruct (r' =? xref c) eqn:E; [apply Nat.eqb_eq in E; contradiction|reflexivity].
  - (* one entry per source required *)
    destruct v as [|x|k l]; try (intros [= <- <- <-]; split; [apply noop_spec; assumption|exact I]).
    pose proof (eval_cat_wf c1 [nm_nlabels] [] Hw1) as Hw2.
    assert (Hf2 : same_frame c (eval_cat c1 [nm_nlabels] []))
      by (eapply same_frame_trans; [exact Hf1|apply eval_cat_same_frame]).
    revert Hw2 Hf2. generalize (eval_cat c1 [nm_nlabels] []). intros c2 Hw2 Hf2.
    destruct (length l =? length (src (main c2))) eqn:Elen.
    2:{ intros [= <- <- <-]. split; [apply noop_spec; assumption|exact I]. }
    apply Nat.eqb_eq in Elen.
    assert (Hsc2 : scal (main c2) = false).
    { destruct Hf2 as (_ & B & _). destruct Hf1 as (_ & B1 & _). congruence. }
    assert (Hfin : wf_cat (set_main (cache nm (CCont k l) (main c2)) c2)).
    { apply cache_main_wf; [exact Hw2|exact Hnl|]. right. cbn. split; [exact Elen|eauto]. }
    assert (Hfr : same_frame c (set_main (cache nm (CCont k l) (main c2)) c2)).
    { eapply same_frame_trans; [exact Hf2|]. repeat split. }
    assert (Hxr : xref c2 = xref c) by apply Hf2.
    destruct ow; intros [= <- <- <-]; (split; [|exact Hnl]).
    + split; [exact Hfin|]. split; [exact Hh|]. split; [exact Hfr|]. split; auto.
    + split; [exact Hfin|]. split.
      * apply heap_ok_hset; [exact Hh|]. intros n Hin. apply in_app_or in Hin.
        destruct Hin as [Hin|[<-|[]]]; [apply (Hh (xref c)); exact Hin|exact Hnl].
      * split; [exact Hfr|]. split; [apply hset_length|].
        intros r' Hr'. rewrite hget_hset. cbn. rewrite Hxr.
        destruct (r' =? xref c) eqn:E; [apply Nat.eqb_eq in E; contradiction|reflexivity].
Qed.
(* ---------- remove / rename / photometry / to_table ---------- *)
Lemma wf_core_ddel rho c n :
  wf_core rho c -> zmem n lazy = false ->
  wf_core rho {| src := src c; scal := scal c; dict := ddel n (dict c) |}.
Proof.
  intros (Hs & Hnd & Hsh & Hg) Hn. split; [exact Hs|]. split; [apply ddel_keys_nodup; exact Hnd|]. split.
  - intros p v. cbn. rewrite lookup_ddel. destruct (n =? p)%Z; [discriminate|]. apply Hsh.
  - intros p v. cbn. rewrite lookup_ddel. destruct (n =? p)%Z; [discriminate|]. apply Hg.
Qed.

Lemma zremove1_in p q l : In p (zremove1 q l) -> In p l.
Proof.
  induction l as [|x l IH]; cbn; [tauto|].
  destruct (x =? q)%Z; [auto|]. intros [H|H]; auto.
Qed.

Lemma remove_loop_spec rho srcs sc d ex names d' r :
  wf_core rho {| src := srcs; scal := sc; dict := d |} ->
  (forall n, In n ex -> zmem n lazy = false) ->
  remove_loop d ex names = (d', r) ->
  wf_core rho {| src := srcs; scal := sc; dict := d' |} /\
  match r with Ok ex' => forall n, In n ex' -> zmem n lazy = false | Err _ => True end.
Proof.
  revert d ex. induction names as [|n names IH]; intros d ex Hwf Hex; cbn.
  - intros [= <- <-]. split; assumption.
  - destruct (zmem n ex) eqn:En.
    + destruct (lookup n d) eqn:El.
      * intros H. eapply IH; [| |exact H].
        -- apply (wf_core_ddel rho {| src := srcs; scal := sc; dict := d |} n Hwf).
           apply Hex. apply zmem_in. exact En.
        -- intros m Hm. apply Hex. eapply zremove1_in; exact Hm.
      * intros [= <- <-]. split; [exact Hwf|exact I].
    + intros [= <- <-]. split; [exact Hwf|exact I].
Qed.

Lemma remove_extras_spec h c names h' c' r :
  wf_cat c -> heap_ok h -> remove_extras h c names = (h', c', r) ->
  wf_cat c' /\ heap_ok h' /\
  src (main c') = src (main c) /\ scal (main c') = scal (main c) /\ hasdet c' = hasdet c /\
  (forall r', r' < length h -> hget h' r' = hget h r') /\
  match r with
  | Ok _ => h' = h ++ [hget h' (length h)] /\ xref c' = length h
  | Err _ => h' = h /\ xref c' = xref c
  end.
Proof.
  intros [Hm Hd] Hh. unfold C08_Model.remove_extras.
  destruct (remove_loop (dict (main c)) (hget h (xref c)) names) as [d r0] eqn:E.
  destruct (remove_loop_spec (mrole (hasdet c)) (src (main c)) (scal (main c)) (dict (main c))
              (hget h (xref c)) names d r0) as [Hw Hex]; [destruct (main c); exact Hm|apply Hh|exact E|].
  destruct r0 as [ex'|e]; intros [= <- <- <-].
  - split; [unfold wf_cat, hasdet in *; cbn; split; [exact Hw|exact Hd]|].
    split; [apply heap_ok_app; assumption|].
    split; [reflexivity|]. split; [reflexivity|]. split; [reflexivity|].
    split.
    + intros r' Hr'. rewrite hget_app. apply Nat.ltb_lt in Hr'. rewrite Hr'. reflexivity.
    + rewrite hget_app, Nat.ltb_irrefl, Nat.eqb_refl. split; reflexivity.
  - split; [unfold wf_cat, hasdet in *; cbn; split; [exact Hw|exact Hd]|].
    split; [exact Hh|]. repeat split; reflexivity.
Qed.

Lemma getattr_spec c p trm trd c' rv :
  wf_cat c -> getattr c p trm trd = (c', rv) ->
  wf_cat c' /\ same_frame c c' /\
  match rv with Ok v => shaped (main c') v | Err _ => True end.
Proof.
  intros Hwf. unfold C08_Model.getattr.
  destruct (lookup p (dict (main c))) as [v|] eqn:El.
  - intros [= <- <-]. split; [exact Hwf|]. split; [apply same_frame_refl|].
    destruct Hwf as [(_ & _ & Hsh & _) _]. eapply Hsh; exact El.
  - destruct (zmem p lazy || zmem p basep) eqn:E.
    + destruct (read c p trm trd) as [c1 v] eqn:Er. intros [= <- <-].
      destruct (read_good _ _ _ _ _ _ Hwf Er) as (Hw' & A & B & C & D & G1 & G2).
      split; [exact Hw'|]. split; [repeat split; assumption|].
      destruct (zmem p basep) eqn:Eb.
      * eapply good_shaped. apply G1. reflexivity.
      * eapply good_shaped. apply G2; [reflexivity|]. rewrite orb_false_r in E. exact E.
    + intros [= <- <-]. split; [exact Hwf|]. split; [apply same_frame_refl|exact I].
Qed.

Lemma insert_at_in {A} i (x y : A) l : In y (insert_at i x l) -> y = x \/ In y l.
Proof.
  unfold insert_at. intros H. apply in_app_or in H. destruct H as [H|[H|H]].
  - right. rewrite <- (firstn_skipn i l). apply in_or_app. left. exact H.
  - left. congruence.
  - right. rewrite <- (firstn_skipn i l). apply in_or_app. right. exact H.
Qed.

(* the heap only grows, and only the cell [own] (or a fresh cell) changes *)
Definition heap_ext (h h' : heapT) (own : nat) : Prop :=
  length h <= length h' /\ forall r, r < length h -> r <> own -> hget h' r = hget h r.
(* the catalog keeps its registry cell or moves to a fresh one *)
Definition xref_step (h h' : heapT) (c c' : cat) : Prop :=
  xref c' = xref c \/ (length h <= xref c' /\ xref c' < length h').

Lemma heap_ext_refl h own : heap_ext h h own.
Proof. split; [lia|reflexivity]. Qed.

Lemma rename_extra_spec h c nm new trm trd h' c' r :
  wf_cat c -> heap_ok h -> rename_extra h c nm new trm trd = (h', c', r) ->
  wf_cat c' /\ heap_ok h' /\
  src (main c') = src (main c) /\ scal (main c') = scal (main c) /\ hasdet c' = hasdet c /\
  heap_ext h h' (xref c) /\ xref_step h h' c c'.
Proof.
  intros Hwf Hh. unfold C08_Model.rename_extra.
  destruct (getattr c nm trm trd) as [c1 rv] eqn:E1.
  destruct (getattr_spec _ _ _ _ _ _ Hwf E1) as (Hw1 & (A1 & B1 & C1 & D1) & _).
  destruct rv as [v|e].
  2:{ intros [= <- <- <-]. repeat (split; [assumption|]). split; [apply heap_ext_refl|left; exact C1]. }
  destruct (add_extra h c1 new v false) as [[h2 c2] r2] eqn:E2.
  destruct (add_extra_spec _ _ _ _ _ _ _ _ Hw1 Hh E2) as ((Hw2 & Hh2 & (A2 & B2 & C2 & D2) & L2 & O2) & Hnew).
  assert (Hext2 : heap_ext h h2 (xref c)).
  { split; [rewrite L2; apply Nat.le_refl|]. intros r0 _ Hr0. apply O2. congruence. }
  destruct r2 as [u|e].
  2:{ intros [= <- <- <-]. split; [exact Hw2|]. split; [exact Hh2|].
      split; [congruence|]. split; [congruence|]. split; [congruence|]. split; [exact Hext2|left; congruence]. }
  destruct (negb (zmem nm (hget h2 (xref c2)))) eqn:En.
  { intros [= <- <- <-]. split; [exact Hw2|]. split; [exact Hh2|].
    split; [congruence|]. split; [congruence|]. split; [congruence|]. split; [exact Hext2|left; congruence]. }
  destruct (remove_extras h2 c2 [nm]) as [[h3 c3] r3] eqn:E3.
  destruct (remove_extras_spec _ _ _ _ _ _ Hw2 Hh2 E3) as (Hw3 & Hh3 & A3 & B3 & D3 & O3 & R3).
  destruct r3 as [u'|e]; intros [= <- <- <-].
  - destruct R3 as [R3a R3b].
    split; [exact Hw3|]. split.
    + apply heap_ok_hset; [exact Hh3|]. intros n Hin. apply insert_at_in in Hin.
      destruct Hin as [->|Hin]; [exact Hnew|].
      apply (Hh3 (xref c3)). eapply zremove1_in. exact Hin.
    + split; [congruence|]. split; [congruence|]. split; [congruence|].
      assert (Hl3 : length h3 = S (length h2)) by (rewrite R3a, app_length; cbn; apply Nat.add_1_r).
      split.
      * split; [rewrite hset_length; clear - Hl3 L2; lia|].
        intros r0 Hr0 Hne. rewrite hget_hset.
        destruct (r0 =? xref c3) eqn:E; [apply Nat.eqb_eq in E; clear - E R3b Hr0 L2; lia|]. cbn.
        rewrite O3 by (clear - Hr0 L2; lia). apply O2. congruence.
      * right. rewrite hset_length. clear - R3b L2 Hl3. lia.
  - destruct R3 as [-> R3b].
    split; [exact Hw3|]. split; [exact Hh3|].
    split; [congruence|]. split; [congruence|]. split; [congruence|]. split; [exact Hext2|left; congruence].
Qed.

Lemma add_all_spec nv : forall h c ow h' c' r,
  wf_cat c -> heap_ok h -> add_all h c nv ow = (h', c', r) ->
  wf_cat c' /\ heap_ok h' /\ same_frame c c' /\ length h' = length h /\
  (forall r', r' <> xref c -> hget h' r' = hget h r').
Proof.
  induction nv as [|[n v] nv IH]; intros h c ow h' c' r Hwf Hh; cbn.
  - intros [= <- <- <-]. apply noop_spec; [exact Hwf|exact Hh|apply same_frame_refl].
  - destruct (add_extra h c n v ow) as [[h1 c1] r1] eqn:E1.
    destruct (add_extra_spec _ _ _ _ _ _ _ _ Hwf Hh E1) as ((Hw1 & Hh1 & Hf1 & Hl1 & Ho1) & _).
    destruct r1 as [u|e]; [|intros [= <- <- <-]; repeat (split; [assumption|]); assumption].
    intros E2. destruct (IH _ _ _ _ _ _ Hw1 Hh1 E2) as (Hw2 & Hh2 & Hf2 & Hl2 & Ho2).
    split; [exact Hw2|]. split; [exact Hh2|]. split; [eapply same_frame_trans; eassumption|].
    split; [congruence|]. intros r' Hr'. rewrite Ho2; [apply Ho1; exact Hr'|].
    destruct Hf1 as (_ & _ & X & _). congruence.
Qed.

Lemma photometry_spec h c ms names ow trm trd h' c' r :
  wf_cat c -> heap_ok h -> photometry h c ms names ow trm trd = (h', c', r) ->
  wf_cat c' /\ heap_ok h' /\ same_frame c c' /\ length h' = length h /\
  (forall r', r' <> xref c -> hget h' r' = hget h r').
Proof.
  intros Hwf Hh. unfold C08_Model.photometry.
  pose proof (eval_cat_wf c trm trd Hwf) as Hw1. pose proof (eval_cat_same_frame c trm trd) as Hf1.
  revert Hw1 Hf1. generalize (eval_cat c trm trd). intros c1 Hw1 Hf1.
  destruct (add_all h c1 (combine names (map (method_value desc f c1) ms)) ow) as [[h2 c2] r2] eqn:E.
  destruct (add_all_spec _ _ _ _ _ _ _ Hw1 Hh E) as (Hw2 & Hh2 & Hf2 & Hl2 & Ho2).
  assert (Hx : xref c1 = xref c) by apply Hf1.
  destruct r2; intros [= <- <- <-]; (split; [exact Hw2|]); (split; [exact Hh2|]);
    (split; [eapply same_frame_trans; eassumption|]); (split; [exact Hl2|]);
    intros r' Hr'; apply Ho2; congruence.
Qed.

Lemma to_table_spec cols : forall c c' r,
  wf_cat c -> to_table c cols = (c', r) -> wf_cat c' /\ same_frame c c'.
Proof.
  induction cols as [|n cols IH]; intros c c' r Hwf; cbn.
  - intros [= <- <-]. split; [exact Hwf|apply same_frame_refl].
  - destruct (lookup n (dict (main c))).
    + intros E. destruct (IH _ _ _ (eval_cat_wf c [nm_isscalar] [] Hwf) E) as [Hw Hf].
      split; [exact Hw|]. eapply same_frame_trans; [apply eval_cat_same_frame|exact Hf].
    + intros [= <- <-]. split; [exact Hwf|apply same_frame_refl].
Qed.
(* ====================================================================== *)
(* Part 6: histories.                                                      *)
(* ====================================================================== *)
Variable rootlabels : list Z.
Local Notation step := (step sourcecat copyx lazy props internal basep desc f nm_isscalar nm_nlabels
                             nm_pixap nm_localbkg isc_trace rootlabels).
Local Notation run := (run sourcecat copyx lazy props internal basep desc f nm_isscalar nm_nlabels
                           nm_pixap nm_localbkg isc_trace rootlabels).
Local Notation do_index := (do_index sourcecat copyx lazy desc f nm_isscalar nm_pixap nm_localbkg isc_trace).

Definition wf_world (w : world) : Prop := heap_ok (heap w) /\ Forall wf_cat (cats w).

Lemma dummy_wf : wf_cat dummy_cat.
Proof.
  unfold wf_cat, dummy_cat, hasdet. cbn. split; [|exact I]. apply wf_empty_core. discriminate.
Qed.

Lemma wcat_wf w j : wf_world w -> wf_cat (wcat w j).
Proof.
  intros [_ H]. unfold wcat. destruct (Nat.lt_ge_cases j (length (cats w))) as [Hlt|Hge].
  - rewrite Forall_forall in H. apply H. apply nth_In. exact Hlt.
  - rewrite nth_overflow by exact Hge. apply dummy_wf.
Qed.

Lemma set_nth_Forall {A} (P : A -> Prop) l j x : Forall P l -> P x -> Forall P (set_nth l j x).
Proof.
  revert j. induction l as [|y l IH]; intros j Hl Hx; cbn; [constructor|].
  inversion Hl; subst. destruct j; constructor; auto.
Qed.

Lemma upd_wf w h j c : Forall wf_cat (cats w) -> heap_ok h -> wf_cat c -> wf_world (upd w h j c).
Proof. intros Hc Hh Hw. split; [exact Hh|]. cbn. apply set_nth_Forall; assumption. Qed.

Lemma extras_of_ok h c : heap_ok h -> forall nm, In nm (extras_of h c) -> zmem nm lazy = false.
Proof. intros Hh nm. unfold extras_of. destruct sourcecat; [apply Hh|intros []]. Qed.

Lemma do_index_wf w j idx : wf_world w -> wf_world (fst (do_index w j idx)).
Proof.
  intros Hw. unfold C08_Model.do_index.
  destruct (getitem (heap w) (wcat w j) idx) as [[h' c'] r] eqn:E.
  destruct (getitem_spec _ _ _ _ _ _ (wcat_wf w j Hw) E) as (Hc' & _ & _ & _ & _ & _ & Hr).
  destruct Hw as [Hh Hcs].
  destruct r as [ch|e]; cbn.
  - destruct Hr as (_ & Hch & _ & _ & Hheap).
    assert (Hh' : heap_ok h').
    { destruct copyx; destruct Hheap as [-> _]; [|exact Hh]. apply heap_ok_app; [exact Hh|apply extras_of_ok; exact Hh]. }
    split; [exact Hh'|]. cbn. apply Forall_app. split; [apply set_nth_Forall; assumption|constructor; [exact Hch|constructor]].
  - subst h'. apply upd_wf; assumption.
Qed.

Lemma step_wf w o : wf_world w -> wf_world (fst (step w o)).
Proof.
  intros Hw. pose proof Hw as [Hh Hcs].
  destruct o as [j p trm trd|j trm trd|j idx|j one labs|j nm v ow|j names|j nm new trm trd|j ms names ow trm trd|j|j|j];
    cbn [C08_Model.step].
  - destruct (read (wcat w j) p trm trd) as [c v] eqn:E. cbn.
    destruct (read_good _ _ _ _ _ _ (wcat_wf w j Hw) E) as (Hc & _). apply upd_wf; assumption.
  - cbn. apply upd_wf; [assumption|assumption|]. apply eval_cat_wf, wcat_wf, Hw.
  - apply do_index_wf, Hw.
  - set (c1 := if sourcecat then wcat w j else eval_cat (wcat w j) (isc_trace ++ [nm_isscalar]) []).
    assert (Hc1 : wf_cat c1).
    { unfold c1. destruct sourcecat; [apply wcat_wf, Hw|apply eval_cat_wf, wcat_wf, Hw]. }
    assert (Hw1 : wf_world (upd w (heap w) j c1)) by (apply upd_wf; assumption).
    destruct (label_index rootlabels c1 one labs); [apply do_index_wf, Hw1|exact Hw1].
  - destruct (add_extra (heap w) (wcat w j) nm v ow) as [[h c] r] eqn:E. cbn.
    destruct (add_extra_spec _ _ _ _ _ _ _ _ (wcat_wf w j Hw) Hh E) as ((Hc & Hh' & _) & _). apply upd_wf; assumption.
  - destruct (remove_extras (heap w) (wcat w j) names) as [[h c] r] eqn:E. cbn.
    destruct (remove_extras_spec _ _ _ _ _ _ (wcat_wf w j Hw) Hh E) as (Hc & Hh' & _). apply upd_wf; assumption.
  - destruct (rename_extra (heap w) (wcat w j) nm new trm trd) as [[h c] r] eqn:E. cbn.
    destruct (rename_extra_spec _ _ _ _ _ _ _ _ _ (wcat_wf w j Hw) Hh E) as (Hc & Hh' & _). apply upd_wf; assumption.
  - destruct (photometry (heap w) (wcat w j) ms names ow trm trd) as [[h c] r] eqn:E. cbn.
    destruct (photometry_spec _ _ _ _ _ _ _ _ _ _ (wcat_wf w j Hw) Hh E) as (Hc & Hh' & _). apply upd_wf; assumption.
  - destruct (to_table (wcat w j) (hget (heap w) (xref (wcat w j)))) as [c r] eqn:E. cbn.
    destruct (to_table_spec _ _ _ _ (wcat_wf w j Hw) E) as (Hc & _). apply upd_wf; assumption.
  - exact Hw.
  - exact Hw.
Qed.

Lemma run_wf ops : forall w, wf_world w -> wf_world (fst (run w ops)).
Proof.
  induction ops as [|o ops IH]; intros w Hw; cbn; [exact Hw|].
  destruct (step w o) as [w1 b] eqn:E1. destruct (run w1 ops) as [w2 bs] eqn:E2. cbn.
  change w2 with (fst (w2, bs)). rewrite <- E2. apply IH.
  change w1 with (fst (w1, b)). rewrite <- E1. apply step_wf, Hw.
Qed.

(* the initial __dict__ of the root (ApertureStats: _local_bkg): attributes that are not
   lazyproperties, one entry per source *)
Definition d0_ok (n : nat) (d0 : dictT) : Prop :=
  NoDup (dkeys d0) /\
  forall p v, In (p, v) d0 -> zmem p lazy = false /\ exists k l, v = CCont k l /\ length l = n.

Lemma init_wf n hd d0 : d0_ok n d0 -> wf_world (init_world n hd d0).
Proof.
  intros [Hnd Hd0]. split.
  - intros r nm. cbn. destruct r as [|[|r]]; intros [].
  - cbn. constructor; [|constructor]. unfold wf_cat, hasdet. cbn. split.
    + split; [discriminate|]. split; [exact Hnd|]. cbn. split.
      * intros p v Hl. apply lookup_some_in in Hl. destruct (Hd0 _ _ Hl) as (_ & k & l & -> & Hlen).
        right. cbn. rewrite seq_length. split; [exact Hlen|eauto].
      * intros p v Hl Hlz. apply lookup_some_in in Hl. destruct (Hd0 _ _ Hl) as (Hnl & _). congruence.
    + destruct hd; [|exact I]. split; [apply wf_empty_core; discriminate|]. split; reflexivity.
Qed.

(* ---------- the commutation theorem ---------- *)
(* p is defined per source (not a python scalar such as isscalar / nlabels) *)
Definition per_source (p : name) : Prop :=
  (zmem p basep = true /\ pyscal (desc Main p) = false) \/
  (zmem p basep = false /\ zmem p lazy = true /\ forall r, pyscal (desc r p) = false).
(* public, as_scalar-decorated *)
Definition public_scalar (p : name) : Prop := priv (desc Main p) = false /\ forall r, asc (desc r p) = true.

Lemma good_val_unfold rho c p v :
  pyscal (desc rho p) = false -> good_val rho c p v ->
  elems v = map (f rho p) (src c) /\
  (scal c = false -> exists k, v = CCont k (map (f rho p) (src c))) /\
  (scal c = true -> priv (desc Main p) = false -> asc (desc rho p) = true -> exists x, v = CScal x).
Proof. unfold good_val. intros ->. tauto. Qed.

(* the role that supplies p, and the value read from a well-formed catalog *)
Definition prole (hd : bool) (p : name) : role := if zmem p basep then Main else mrole hd p.

Lemma read_per_source c p trm trd c' v :
  wf_cat c -> per_source p -> read c p trm trd = (c', v) ->
  wf_cat c' /\ same_frame c c' /\
  elems v = map (f (prole (hasdet c) p) p) (src (main c)) /\
  (scal (main c) = false -> exists k, v = CCont k (map (f (prole (hasdet c) p) p) (src (main c)))) /\
  (scal (main c) = true -> public_scalar p -> exists x, v = CScal x).
Proof.
  intros Hwf Hp E. destruct (read_good _ _ _ _ _ _ Hwf E) as (Hw' & A & B & C & D & G1 & G2).
  split; [exact Hw'|]. split; [repeat split; assumption|]. unfold prole.
  destruct Hp as [[Hb Hpy]|(Hb & Hl & Hpy)]; rewrite Hb.
  - destruct (good_val_unfold _ _ _ _ Hpy (G1 Hb)) as (X & Y & Z). rewrite A, B in *.
    split; [exact X|]. split; [exact Y|]. intros Hs [Hpr Ha]. apply Z; auto.
  - destruct (good_val_unfold _ _ _ _ (Hpy _) (G2 Hb Hl)) as (X & Y & Z). rewrite A, B in *.
    split; [exact X|]. split; [exact Y|]. intros Hs [Hpr Ha]. apply Z; auto.
Qed.

Lemma getitem_commutes_wf h c idx h' c' ch :
  wf_cat c -> getitem h c idx = (h', c', Ok ch) ->
  exists sc pos, resolve idx (length (src (main c))) = Some (sc, pos) /\ scal (main ch) = sc /\
    forall p, per_source p ->
    forall trm trd trm' trd',
      let vch := snd (read ch p trm trd) in
      let vpar := snd (read c' p trm' trd') in
      elems vch = pick 0%Z (elems vpar) pos /\
      (sc = true -> public_scalar p -> exists x, vch = CScal x) /\
      (sc = false -> exists k, vch = CCont k (pick 0%Z (elems vpar) pos)).
Proof.
  intros Hwf E.
  destruct (getitem_spec _ _ _ _ _ _ Hwf E) as (Hc' & A & B & C & D & _ & _ & Hch & Dch & (sc & pos & Hr & Hsrc & Hscal & _) & _).
  exists sc, pos. split; [exact Hr|]. split; [exact Hscal|].
  intros p Hp trm trd trm' trd'.
  destruct (read ch p trm trd) as [c1 v1] eqn:E1. destruct (read c' p trm' trd') as [c2 v2] eqn:E2. cbn.
  destruct (read_per_source _ _ _ _ _ _ Hch Hp E1) as (_ & _ & X1 & Y1 & Z1).
  destruct (read_per_source _ _ _ _ _ _ Hc' Hp E2) as (_ & _ & X2 & _ & _).
  rewrite Dch in *. rewrite D in *. rewrite A in X2. rewrite Hsrc in X1, Y1. rewrite Hscal in Y1, Z1.
  assert (Hpos : Forall (fun i => i < length (src (main c))) pos) by (eapply resolve_lt; exact Hr).
  assert (Hpm : pick 0%Z (elems v2) pos = map (f (prole (hasdet c) p) p) (pick 0 (src (main c)) pos)).
  { rewrite X2. apply pick_map. exact Hpos. }
  rewrite Hpm. split; [exact X1|]. split; [exact Z1|exact Y1].
Qed.

(* reading p on the parent gives the same per-source values before and after the indexing *)
Lemma getitem_parent_unchanged h c idx h' c' r :
  wf_cat c -> getitem h c idx = (h', c', r) ->
  forall p, per_source p -> forall trm trd trm' trd',
    elems (snd (read c' p trm trd)) = elems (snd (read c p trm' trd')).
Proof.
  intros Hwf E p Hp trm trd trm' trd'.
  destruct (getitem_spec _ _ _ _ _ _ Hwf E) as (Hc' & A & B & C & D & _).
  destruct (read c' p trm trd) as [c1 v1] eqn:E1. destruct (read c p trm' trd') as [c2 v2] eqn:E2. cbn.
  destruct (read_per_source _ _ _ _ _ _ Hc' Hp E1) as (_ & _ & X1 & _).
  destruct (read_per_source _ _ _ _ _ _ Hwf Hp E2) as (_ & _ & X2 & _).
  rewrite X1, X2, A, D. reflexivity.
Qed.
(* ====================================================================== *)
(* Part 7: a slice is independent of its parent (repaired __getitem__).    *)
(* ====================================================================== *)
Lemma nth_set_nth {A} (l : list A) j x k d :
  nth k (set_nth l j x) d = if (k =? j) && (j <? length l) then x else nth k l d.
Proof.
  revert j k. induction l as [|y l IH]; intros j k; cbn.
  - rewrite andb_false_r. reflexivity.
  - destruct j as [|j]; destruct k as [|k]; cbn; try reflexivity. rewrite IH. reflexivity.
Qed.

Lemma set_nth_length {A} (l : list A) j x : length (set_nth l j x) = length l.
Proof. revert j. induction l as [|y l IH]; intros [|j]; cbn; auto. Qed.

Definition sep_world (w : world) : Prop :=
  (forall k, k < length (cats w) -> xref (wcat w k) < length (heap w)) /\
  (forall i k, i < length (cats w) -> k < length (cats w) -> i <> k -> xref (wcat w i) <> xref (wcat w k)).

(* what catalog k reports: its own state and its registry cell *)
Definition report (w : world) (k : nat) : cat * list name := (wcat w k, hget (heap w) (xref (wcat w k))).

Definition op_target (o : op) : nat :=
  match o with
  | OEval j _ _ _ | OTouch j _ _ | OIndex j _ | OLabel j _ _ | OAdd j _ _ _ | ORemove j _
  | ORename j _ _ _ _ | OPhot j _ _ _ _ _ | OTable j | OExtras j | ODict j => j
  end.

Lemma upd_sep w j h' c' :
  sep_world w -> j < length (cats w) ->
  heap_ext (heap w) h' (xref (wcat w j)) -> xref_step (heap w) h' (wcat w j) c' ->
  sep_world (upd w h' j c') /\ length (cats (upd w h' j c')) = length (cats w) /\
  forall k, k < length (cats w) -> k <> j -> report (upd w h' j c') k = report w k.
Proof.
  intros [Hlt Hne] Hj [Hlen Hcell] Hx.
  assert (Hw : forall k, wcat (upd w h' j c') k = if k =? j then c' else wcat w k).
  { intros k. unfold wcat, upd. cbn. rewrite nth_set_nth.
    apply Nat.ltb_lt in Hj. rewrite Hj, andb_true_r. reflexivity. }
  assert (Hxj : xref c' < length h' /\ forall k, k < length (cats w) -> k <> j -> xref c' <> xref (wcat w k)).
  { destruct Hx as [Hx|[Hx1 Hx2]].
    - rewrite Hx. split; [specialize (Hlt j Hj); lia|]. intros k Hk Hkj. apply Hne; auto.
    - split; [exact Hx2|]. intros k Hk Hkj. specialize (Hlt k Hk). lia. }
  split; [|split].
  - split.
    + intros k. cbn [cats upd]. rewrite set_nth_length. intros Hk. rewrite Hw.
      destruct (k =? j) eqn:E; [apply Hxj|]. cbn [heap upd]. specialize (Hlt k Hk). lia.
    + intros i k. cbn [cats upd]. rewrite set_nth_length. intros Hi Hk Hik. rewrite !Hw.
      destruct (i =? j) eqn:Ei; destruct (k =? j) eqn:Ek.
      * apply Nat.eqb_eq in Ei, Ek. congruence.
      * apply Nat.eqb_neq in Ek. apply Hxj; assumption.
      * apply Nat.eqb_neq in Ei. intros Heq. symmetry in Heq. revert Heq. apply Hxj; assumption.
      * apply Hne; assumption.
  - cbn. apply set_nth_length.
  - intros k Hk Hkj. unfold report. rewrite Hw. apply Nat.eqb_neq in Hkj. rewrite Hkj.
    f_equal. cbn [heap upd]. apply Hcell; [apply Hlt; exact Hk|]. apply Hne; auto. apply Nat.eqb_neq. exact Hkj.
Qed.

Hypothesis Hcopy : copyx = true.

Lemma do_index_sep w j idx :
  wf_world w -> sep_world w -> j < length (cats w) ->
  sep_world (fst (do_index w j idx)) /\ length (cats w) <= length (cats (fst (do_index w j idx))) /\
  forall k, k < length (cats w) -> k <> j -> report (fst (do_index w j idx)) k = report w k.
Proof.
  intros Hw Hs Hj. unfold C08_Model.do_index.
  destruct (getitem (heap w) (wcat w j) idx) as [[h' c'] r] eqn:E.
  destruct (getitem_spec _ _ _ _ _ _ (wcat_wf w j Hw) E) as (_ & _ & _ & Hx & _ & _ & Hr).
  destruct r as [ch|e]; cbn [fst].
  - destruct Hr as (_ & _ & _ & _ & Hheap). rewrite Hcopy in Hheap. destruct Hheap as [-> Hxch].
    set (ex := extras_of (heap w) (wcat w j)) in *.
    assert (Hext : heap_ext (heap w) (heap w ++ [ex]) (xref (wcat w j))).
    { split; [rewrite app_length; lia|]. intros r Hr _. rewrite hget_app. apply Nat.ltb_lt in Hr. rewrite Hr. reflexivity. }
    destruct (upd_sep w j (heap w ++ [ex]) c' Hs Hj Hext (or_introl Hx)) as ([S1 S2] & Sl & Sr).
    cbn [upd heap cats] in *.
    assert (Hnth : forall k, wcat {| heap := heap w ++ [ex]; cats := set_nth (cats w) j c' ++ [ch] |} k =
                             if k <? length (cats w) then wcat (upd w (heap w ++ [ex]) j c') k
                             else if k =? length (cats w) then ch else dummy_cat).
    { intros k. unfold wcat. cbn [cats upd]. destruct (k <? length (cats w)) eqn:El.
      - apply Nat.ltb_lt in El. apply app_nth1. rewrite set_nth_length. exact El.
      - apply Nat.ltb_ge in El. rewrite app_nth2 by (rewrite set_nth_length; exact El).
        rewrite set_nth_length. destruct (k =? length (cats w)) eqn:E2.
        + apply Nat.eqb_eq in E2. subst k. rewrite Nat.sub_diag. reflexivity.
        + apply Nat.eqb_neq in E2. destruct (k - length (cats w)) as [|m] eqn:E3; [lia|]. destruct m; reflexivity. }
    assert (Hlen : length (set_nth (cats w) j c' ++ [ch]) = S (length (cats w))).
    { rewrite app_length, set_nth_length. cbn. lia. }
    split; [|split].
    + split.
      * intros k. cbn [cats heap]. rewrite Hlen, Hnth. intros Hk.
        destruct (k <? length (cats w)) eqn:El.
        -- apply Nat.ltb_lt in El. apply (S1 k). rewrite Sl. exact El.
        -- apply Nat.ltb_ge in El. replace (k =? length (cats w)) with true by (symmetry; apply Nat.eqb_eq; lia).
           rewrite Hxch, app_length. cbn. lia.
      * intros i k. cbn [cats]. rewrite Hlen, !Hnth. intros Hi Hk Hik.
        assert (Hold : forall m, m < length (cats w) -> xref (wcat (upd w (heap w ++ [ex]) j c') m) < length (heap w)).
        { intros m Hm. unfold wcat, upd. cbn. rewrite nth_set_nth.
          destruct ((m =? j) && (j <? length (cats w))); [rewrite Hx|]; apply Hs; assumption. }
        destruct (i <? length (cats w)) eqn:Eli; destruct (k <? length (cats w)) eqn:Elk.
        -- apply Nat.ltb_lt in Eli, Elk. apply S2; rewrite ?Sl; assumption.
        -- apply Nat.ltb_lt in Eli. apply Nat.ltb_ge in Elk.
           replace (k =? length (cats w)) with true by (symmetry; apply Nat.eqb_eq; lia).
           rewrite Hxch. specialize (Hold i Eli). lia.
        -- apply Nat.ltb_lt in Elk. apply Nat.ltb_ge in Eli.
           replace (i =? length (cats w)) with true by (symmetry; apply Nat.eqb_eq; lia).
           rewrite Hxch. specialize (Hold k Elk). lia.
        -- apply Nat.ltb_ge in Eli, Elk. lia.
    + cbn [cats]. rewrite Hlen. lia.
    + intros k Hk Hkj. unfold report. cbn [heap]. rewrite Hnth. apply Nat.ltb_lt in Hk. rewrite Hk.
      apply Nat.ltb_lt in Hk. apply (Sr k Hk Hkj).
  - subst h'.
    destruct (upd_sep w j (heap w) c' Hs Hj (heap_ext_refl _ _) (or_introl Hx)) as (S1 & Sl & Sr).
    split; [exact S1|]. split; [rewrite Sl; lia|exact Sr].
Qed.

Lemma step_independent w o :
  wf_world w -> sep_world w -> op_target o < length (cats w) ->
  sep_world (fst (step w o)) /\ length (cats w) <= length (cats (fst (step w o))) /\
  forall k, k < length (cats w) -> k <> op_target o -> report (fst (step w o)) k = report w k.
Proof.
  intros Hw Hs Hj. pose proof Hw as [Hh Hcs].
  assert (Hsame : forall c', xref c' = xref (wcat w (op_target o)) ->
            sep_world (upd w (heap w) (op_target o) c') /\
            length (cats w) <= length (cats (upd w (heap w) (op_target o) c')) /\
            forall k, k < length (cats w) -> k <> op_target o -> report (upd w (heap w) (op_target o) c') k = report w k).
  { intros c' Hx. destruct (upd_sep w (op_target o) (heap w) c' Hs Hj (heap_ext_refl _ _) (or_introl Hx)) as (A & B & C).
    split; [exact A|]. split; [rewrite B; lia|exact C]. }
  assert (Hgen : forall h' c', heap_ext (heap w) h' (xref (wcat w (op_target o))) ->
            xref_step (heap w) h' (wcat w (op_target o)) c' ->
            sep_world (upd w h' (op_target o) c') /\
            length (cats w) <= length (cats (upd w h' (op_target o) c')) /\
            forall k, k < length (cats w) -> k <> op_target o -> report (upd w h' (op_target o) c') k = report w k).
  { intros h' c' He Hx. destruct (upd_sep w (op_target o) h' c' Hs Hj He Hx) as (A & B & C).
    split; [exact A|]. split; [rewrite B; lia|exact C]. }
  destruct o as [j p trm trd|j trm trd|j idx|j one labs|j nm v ow|j names|j nm new trm trd|j ms names ow trm trd|j|j|j];
    cbn [C08_Model.step op_target] in *.
  - destruct (read (wcat w j) p trm trd) as [c v] eqn:E. cbn [fst].
    destruct (read_good _ _ _ _ _ _ (wcat_wf w j Hw) E) as (_ & _ & _ & Hx & _). apply Hsame, Hx.
  - cbn [fst]. apply Hsame. apply (eval_cat_frame (wcat w j) trm trd).
  - apply do_index_sep; assumption.
  - set (c1 := if sourcecat then wcat w j else eval_cat (wcat w j) (isc_trace ++ [nm_isscalar]) []).
    assert (Hc1 : wf_cat c1).
    { unfold c1. destruct sourcecat; [apply wcat_wf, Hw|apply eval_cat_wf, wcat_wf, Hw]. }
    assert (Hx1 : xref c1 = xref (wcat w j)).
    { unfold c1. destruct sourcecat; [reflexivity|apply (eval_cat_frame (wcat w j))]. }
    assert (Hw1 : wf_world (upd w (heap w) j c1)) by (apply upd_wf; assumption).
    destruct (Hsame c1 Hx1) as (S1 & L1 & R1).
    destruct (label_index rootlabels c1 one labs) as [idx|]; cbn [fst]; [|split; [exact S1|split; [exact L1|exact R1]]].
    assert (Hj1 : j < length (cats (upd w (heap w) j c1))) by (cbn; rewrite set_nth_length; exact Hj).
    destruct (do_index_sep _ j idx Hw1 S1 Hj1) as (S2 & L2 & R2).
    split; [exact S2|]. split; [lia|].
    intros k Hk Hkj. rewrite R2; [apply R1; assumption| |exact Hkj]. cbn. rewrite set_nth_length. exact Hk.
  - destruct (add_extra (heap w) (wcat w j) nm v ow) as [[h c] r] eqn:E. cbn [fst].
    destruct (add_extra_spec _ _ _ _ _ _ _ _ (wcat_wf w j Hw) Hh E) as ((_ & _ & (_ & _ & Hx & _) & Hl & Ho) & _).
    apply Hgen; [|left; exact Hx]. split; [rewrite Hl; apply Nat.le_refl|]. intros r0 _ Hr0. apply Ho, Hr0.
  - destruct (remove_extras (heap w) (wcat w j) names) as [[h c] r] eqn:E. cbn [fst].
    destruct (remove_extras_spec _ _ _ _ _ _ (wcat_wf w j Hw) Hh E) as (_ & _ & _ & _ & _ & Ho & Hr).
    destruct r as [u|e].
    + destruct Hr as [Hr1 Hr2]. apply Hgen.
      * split; [rewrite Hr1, app_length; lia|]. intros r0 Hr0 _. apply Ho, Hr0.
      * right. rewrite Hr2. split; [apply Nat.le_refl|]. rewrite Hr1, app_length. cbn. lia.
    + destruct Hr as [-> Hr2]. apply Hsame, Hr2.
  - destruct (rename_extra (heap w) (wcat w j) nm new trm trd) as [[h c] r] eqn:E. cbn [fst].
    destruct (rename_extra_spec _ _ _ _ _ _ _ _ _ (wcat_wf w j Hw) Hh E) as (_ & _ & _ & _ & _ & He & Hx).
    apply Hgen; assumption.
  - destruct (photometry (heap w) (wcat w j) ms names ow trm trd) as [[h c] r] eqn:E. cbn [fst].
    destruct (photometry_spec _ _ _ _ _ _ _ _ _ _ (wcat_wf w j Hw) Hh E) as (_ & _ & (_ & _ & Hx & _) & Hl & Ho).
    apply Hgen; [|left; exact Hx]. split; [rewrite Hl; apply Nat.le_refl|]. intros r0 _ Hr0. apply Ho, Hr0.
  - destruct (to_table (wcat w j) (hget (heap w) (xref (wcat w j)))) as [c r] eqn:E. cbn [fst].
    destruct (to_table_spec _ _ _ _ (wcat_wf w j Hw) E) as (_ & (_ & _ & Hx & _)). apply Hsame, Hx.
  - cbn [fst]. split; [exact Hs|]. split; [apply Nat.le_refl|reflexivity].
  - cbn [fst]. split; [exact Hs|]. split; [apply Nat.le_refl|reflexivity].
Qed.

(* histories in which every operation addresses an existing catalog *)
Fixpoint valid_run (w : world) (ops : list op) : Prop :=
  match ops with
  | [] => True
  | o :: r => op_target o < length (cats w) /\ valid_run (fst (step w o)) r
  end.

Lemma run_sep ops : forall w, wf_world w -> sep_world w -> valid_run w ops ->
  wf_world (fst (run w ops)) /\ sep_world (fst (run w ops)).
Proof.
  induction ops as [|o ops IH]; intros w Hw Hs Hv; cbn; [split; assumption|].
  destruct Hv as [Hj Hv].
  destruct (step w o) as [w1 b] eqn:E1. destruct (run w1 ops) as [w2 bs] eqn:E2. cbn [fst].
  change w2 with (fst (w2, bs)). rewrite <- E2.
  assert (Hw1 : wf_world w1) by (change w1 with (fst (w1, b)); rewrite <- E1; apply step_wf, Hw).
  assert (Hs1 : sep_world w1).
  { change w1 with (fst (w1, b)). rewrite <- E1. apply step_independent; assumption. }
  apply IH; [exact Hw1|exact Hs1|exact Hv].
Qed.

Lemma init_sep n hd d0 : sep_world (init_world n hd d0).
Proof.
  split.
  - intros k Hk. cbn in *. destruct k; [cbn; lia|lia].
  - intros i k Hi Hk Hik. cbn in *. lia.
Qed.

(* observations of catalog k depend on the world only through [report w k] *)
Definition observes (o : op) : bool :=
  match o with OEval _ _ _ _ | OTouch _ _ _ | OTable _ | OExtras _ | ODict _ => true | _ => false end.

Lemma obs_report w w' o :
  observes o = true -> report w (op_target o) = report w' (op_target o) -> snd (step w o) = snd (step w' o).
Proof.
  unfold report. intros Ho [= Hc Hx].
  destruct o; try discriminate; cbn [C08_Model.step op_target] in *; cbv zeta.
  - rewrite <- Hc. destruct (read (wcat w j) p trm trd); reflexivity.
  - reflexivity.
  - rewrite <- Hx, <- Hc.
    destruct (to_table (wcat w j) (hget (heap w) (xref (wcat w j)))); reflexivity.
  - cbn. rewrite Hx. reflexivity.
  - cbn. rewrite Hc. reflexivity.
Qed.
(* ====================================================================== *)
(* Part 8: the theorems about histories.                                   *)
(* ====================================================================== *)
Lemma eval1_keys r c q p :
  lookup p (dict (eval1 r c q)) <> None <-> (lookup p (dict c) <> None \/ p = q).
Proof.
  unfold C08_Model.eval1. destruct (lookup q (dict c)) eqn:E.
  - split; [auto|]. intros [H | ->]; [exact H|congruence].
  - cbn. rewrite lookup_dset. destruct (q =? p)%Z eqn:E2.
    + apply Z.eqb_eq in E2. subst. split; [auto|discriminate].
    + apply Z.eqb_neq in E2. split; [auto|]. intros [H | ->]; [exact H|contradiction].
Qed.

Lemma eval_core_keys r tr : forall c p,
  lookup p (dict (eval_core r c tr)) <> None <-> (lookup p (dict c) <> None \/ In p tr).
Proof.
  unfold C08_Model.eval_core. induction tr as [|q tr IH]; intros c p; cbn.
  - tauto.
  - rewrite IH, eval1_keys. split; [intros [[H|H]|H]; auto|intros [H|[H|H]]; auto].
Qed.

(* which keys the child inherits *)
Lemma child_keys h c idx h' c' ch :
  wf_cat c -> getitem h c idx = (h', c', Ok ch) ->
  forall p, lookup p (dict (main ch)) <> None <->
            (In p (isc_trace ++ [nm_isscalar]) \/
             (copied_name (extras_of h c) p = true /\ exists k l, lookup p (dict (main c')) = Some (CCont k l))).
Proof.
  intros Hwf E p.
  destruct (getitem_spec _ _ _ _ _ _ Hwf E) as (Hc' & A & B & _ & _ & _ & Hns & _ & _ & (sc & pos & Hr & _ & _ & Hent) & _).
  rewrite Hent. unfold child_entry.
  set (child1 := eval_core Main {| src := pick 0 (src (main c')) pos; scal := sc; dict := [] |} (isc_trace ++ [nm_isscalar])).
  assert (Hk1 : lookup p (dict child1) <> None <-> In p (isc_trace ++ [nm_isscalar])).
  { unfold child1. rewrite eval_core_keys. cbn. split; [intros [H|H]; [congruence|exact H]|auto]. }
  destruct (lookup p (dict (main c'))) as [v|] eqn:El.
  2:{ rewrite Hk1. split; [auto|]. intros [H|(_ & k & l & H)]; [exact H|discriminate]. }
  destruct (copied_name (extras_of h c) p) eqn:Ec.
  2:{ rewrite Hk1. split; [auto|]. intros [H|(H & _)]; [exact H|discriminate]. }
  destruct Hc' as [(_ & _ & Hsh & _) _].
  destruct (Hsh _ _ El) as [->|[Hlen Hcont]].
  - cbn. rewrite Hk1. split; [auto|]. intros [H|(_ & k & l & H)]; [exact H|discriminate].
  - rewrite B in Hcont. destruct (Hcont Hns) as (k & l & ->). cbn in Hlen.
    destruct (slice_value_spec sc p k l idx pos) as (v' & Hv' & _); [rewrite Hlen, A; exact Hr|].
    rewrite Hv'. split; [intros _; right; split; [reflexivity|eauto]|discriminate].
Qed.

Section Runs.
Variables (n : nat) (hd : bool) (d0 : dictT).
Hypothesis Hd0 : d0_ok n d0.

Lemma reach_wf ops : wf_world (fst (run (init_world n hd d0) ops)).
Proof. apply run_wf, init_wf, Hd0. Qed.

Lemma getitem_commutes_run ops j idx h' c' ch :
  let w := fst (run (init_world n hd d0) ops) in
  getitem (heap w) (wcat w j) idx = (h', c', Ok ch) ->
  exists sc pos, resolve idx (length (src (main (wcat w j)))) = Some (sc, pos) /\ scal (main ch) = sc /\
    forall p, per_source p ->
    forall trm trd trm' trd',
      let vch := snd (read ch p trm trd) in
      let vpar := snd (read c' p trm' trd') in
      elems vch = pick 0%Z (elems vpar) pos /\
      (sc = true -> public_scalar p -> exists x, vch = CScal x) /\
      (sc = false -> exists k, vch = CCont k (pick 0%Z (elems vpar) pos)).
Proof. intros w E. eapply getitem_commutes_wf; [apply wcat_wf, reach_wf|exact E]. Qed.

Lemma getitem_parent_unchanged_run ops j idx h' c' r :
  let w := fst (run (init_world n hd d0) ops) in
  getitem (heap w) (wcat w j) idx = (h', c', r) ->
  forall p, per_source p -> forall trm trd trm' trd',
    elems (snd (read c' p trm trd)) = elems (snd (read (wcat w j) p trm' trd')).
Proof. intros w E. eapply getitem_parent_unchanged; [apply wcat_wf, reach_wf|exact E]. Qed.

Lemma getitem_total_run ops j idx :
  let w := fst (run (init_world n hd d0) ops) in
  scal (main (wcat w j)) = false -> resolve idx (length (src (main (wcat w j)))) <> None ->
  exists h' c' ch, getitem (heap w) (wcat w j) idx = (h', c', Ok ch).
Proof. intros w. apply getitem_total, wcat_wf, reach_wf. Qed.

Lemma child_cache_keys_run ops j idx h' c' ch :
  let w := fst (run (init_world n hd d0) ops) in
  getitem (heap w) (wcat w j) idx = (h', c', Ok ch) ->
  (exists sc pos, resolve idx (length (src (main (wcat w j)))) = Some (sc, pos) /\
     forall p, lookup p (dict (main ch)) = child_entry Main (extras_of (heap w) (wcat w j)) (main c') sc idx pos p) /\
  forall p, lookup p (dict (main ch)) <> None <->
            (In p (isc_trace ++ [nm_isscalar]) \/
             (copied_name (extras_of (heap w) (wcat w j)) p = true /\
              exists k l, lookup p (dict (main c')) = Some (CCont k l))).
Proof.
  intros w E. split.
  - destruct (getitem_spec _ _ _ _ _ _ (wcat_wf w j (reach_wf ops)) E)
      as (_ & _ & _ & _ & _ & _ & _ & _ & _ & (sc & pos & Hr & _ & _ & Hent) & _).
    exists sc, pos. split; assumption.
  - eapply child_keys; [apply wcat_wf, reach_wf|exact E].
Qed.

Lemma slices_independent_run ops o k :
  let w := fst (run (init_world n hd d0) ops) in
  valid_run (init_world n hd d0) ops -> op_target o < length (cats w) ->
  k < length (cats w) -> k <> op_target o ->
  report (fst (step w o)) k = report w k /\
  forall o', observes o' = true -> op_target o' = k -> snd (step (fst (step w o)) o') = snd (step w o').
Proof.
  intros w Hv Ho Hk Hne.
  destruct (run_sep ops (init_world n hd d0) (init_wf n hd d0 Hd0) (init_sep n hd d0) Hv) as [Hw Hs].
  destruct (step_independent w o Hw Hs Ho) as (_ & _ & Hr).
  split; [apply Hr; assumption|].
  intros o' Hobs <-. apply obs_report; [exact Hobs|]. apply Hr; assumption.
Qed.
End Runs.
End Inv.

(* ====================================================================== *)
(* Part 9: get_label(s) / get_id(s), the class record, closed statements.  *)
(* ====================================================================== *)
Lemma find_pos_spec rl srcs lab : forall i0 z,
  find_pos rl srcs lab i0 = Some z ->
  exists i, z = Z.of_nat (i0 + i) /\ i < length srcs /\ nth (nth i srcs 0) rl 0%Z = lab.
Proof.
  induction srcs as [|s srcs IH]; intros i0 z; cbn; [discriminate|].
  destruct (nth s rl 0 =? lab)%Z eqn:E.
  - intros [= <-]. exists 0. rewrite Nat.add_0_r. split; [reflexivity|]. split; [lia|]. apply Z.eqb_eq. exact E.
  - intros H. destruct (IH _ _ H) as (i & -> & Hi & Hl). exists (S i).
    split; [f_equal; lia|]. split; [lia|exact Hl].
Qed.

Lemma norm_int_nat n i : i < n -> norm_int n (Z.of_nat i) = Some i.
Proof.
  intros H. unfold norm_int.
  replace ((0 <=? Z.of_nat i)%Z && (Z.of_nat i <? Z.of_nat n)%Z) with true by lia.
  rewrite Nat2Z.id. reflexivity.
Qed.

Lemma find_all_spec rl srcs labs : forall zs,
  find_all rl srcs labs = Some zs ->
  exists pos, norm_list (length srcs) zs = Some pos /\
              map (fun i => nth (nth i srcs 0) rl 0%Z) pos = labs /\
              (forall i, zs = [i] -> exists p, pos = [p] /\ norm_int (length srcs) i = Some p).
Proof.
  induction labs as [|l labs IH]; intros zs; cbn.
  - intros [= <-]. exists []. repeat split. intros i H; discriminate.
  - destruct (find_pos rl srcs l 0) as [z|] eqn:E1; [|discriminate].
    destruct (find_all rl srcs labs) as [zs'|] eqn:E2; [|discriminate].
    intros [= <-]. destruct (IH _ eq_refl) as (pos & Hn & Hm & _).
    destruct (find_pos_spec _ _ _ _ _ E1) as (i & -> & Hi & Hl). cbn [Nat.add] in *.
    exists (i :: pos). cbn. rewrite (norm_int_nat _ _ Hi), Hn. split; [reflexivity|].
    split; [cbn; rewrite Hl, Hm; reflexivity|].
    intros i' [= <- ->]. cbn in Hn. injection Hn as <-. exists i. split; [reflexivity|apply norm_int_nat, Hi].
Qed.

(* get_label(s)/get_id(s) select exactly the sources that carry the requested labels *)
Lemma label_index_spec rl c one labs idx :
  label_index rl c one labs = Some idx ->
  exists pos, resolve idx (length (src (main c))) = Some (one, pos) /\
              map (fun i => nth (nth i (src (main c)) 0) rl 0%Z) pos = labs.
Proof.
  unfold label_index. destruct (find_all rl (src (main c)) labs) as [zs|] eqn:E; [|discriminate].
  destruct (find_all_spec _ _ _ _ E) as (pos & Hn & Hm & Hone).
  destruct one.
  - destruct zs as [|i [|? ?]]; try discriminate. intros [= <-].
    destruct (Hone i eq_refl) as (p & -> & Hp). exists [p]. cbn. rewrite Hp. split; [reflexivity|exact Hm].
  - intros [= <-]. exists pos. cbn. rewrite Hn. split; [reflexivity|exact Hm].
Qed.

(* ---------- the class description as one record ---------- *)
Record cls := {
  c_sourcecat : bool; c_copyx : bool;
  c_lazy : list name; c_props : list name; c_internal : list name; c_basep : list name;
  c_desc : role -> name -> pdesc; c_f : role -> name -> nat -> V;
  c_isscalar : name; c_nlabels : name; c_pixap : name; c_localbkg : name;
  c_isc_trace : list name; c_rootlabels : list Z
}.

(* facts about the real classes, checked by the harness on every run: every lazyproperty
   is a property (hence cannot be used as the name of an extra property); isscalar and
   what it reads are not use_detcat properties *)
Definition cls_ok (K : cls) : Prop :=
  (forall p, zmem p (c_lazy K) = true -> zmem p (c_internal K) = true) /\
  (forall q, In q (c_isc_trace K ++ [c_isscalar K]) -> udet (c_desc K Main q) = false).

Definition Step (K : cls) := step (c_sourcecat K) (c_copyx K) (c_lazy K) (c_props K) (c_internal K) (c_basep K)
  (c_desc K) (c_f K) (c_isscalar K) (c_nlabels K) (c_pixap K) (c_localbkg K) (c_isc_trace K) (c_rootlabels K).
Definition Run (K : cls) := run (c_sourcecat K) (c_copyx K) (c_lazy K) (c_props K) (c_internal K) (c_basep K)
  (c_desc K) (c_f K) (c_isscalar K) (c_nlabels K) (c_pixap K) (c_localbkg K) (c_isc_trace K) (c_rootlabels K).
Definition Getitem (K : cls) := getitem (c_sourcecat K) (c_copyx K) (c_lazy K) (c_desc K) (c_f K)
  (c_isscalar K) (c_pixap K) (c_localbkg K) (c_isc_trace K).
Definition Read (K : cls) := read (c_basep K) (c_desc K) (c_f K).
Definition Valid_run (K : cls) := valid_run (c_sourcecat K) (c_copyx K) (c_lazy K) (c_props K) (c_internal K)
  (c_basep K) (c_desc K) (c_f K) (c_isscalar K) (c_nlabels K) (c_pixap K) (c_localbkg K) (c_isc_trace K)
  (c_rootlabels K).
Definition Extras_of (K : cls) := extras_of (c_sourcecat K).
Definition Copied (K : cls) := copied_name (c_sourcecat K) (c_lazy K) (c_localbkg K).
Definition Child_entry (K : cls) := child_entry (c_sourcecat K) (c_lazy K) (c_desc K) (c_f K) (c_isscalar K)
  (c_pixap K) (c_localbkg K) (c_isc_trace K) Main.
Definition Per_source (K : cls) := per_source (c_lazy K) (c_basep K) (c_desc K).
Definition Public_scalar (K : cls) := public_scalar (c_desc K).
Definition Reachable (K : cls) (n : nat) (hd : bool) (d0 : dictT) (w : world) : Prop :=
  exists ops, w = fst (Run K (init_world n hd d0) ops).

Lemma getitem_commutes_K K n hd d0 ops j idx h' c' ch :
  cls_ok K -> d0_ok (c_lazy K) n d0 ->
  let w := fst (Run K (init_world n hd d0) ops) in
  Getitem K (heap w) (wcat w j) idx = (h', c', Ok ch) ->
  exists sc pos, resolve idx (length (src (main (wcat w j)))) = Some (sc, pos) /\ scal (main ch) = sc /\
    forall p, Per_source K p ->
    forall trm trd trm' trd',
      let vch := snd (Read K ch p trm trd) in
      let vpar := snd (Read K c' p trm' trd') in
      elems vch = pick 0%Z (elems vpar) pos /\
      (sc = true -> Public_scalar K p -> exists x, vch = CScal x) /\
      (sc = false -> exists k, vch = CCont k (pick 0%Z (elems vpar) pos)).
Proof. intros [H1 H2] Hd. destruct K. exact (getitem_commutes_run _ _ _ _ _ _ _ _ _ _ _ _ _ H1 H2 _ _ _ _ Hd ops j idx h' c' ch). Qed.

Lemma getitem_parent_unchanged_K K n hd d0 ops j idx h' c' r :
  cls_ok K -> d0_ok (c_lazy K) n d0 ->
  let w := fst (Run K (init_world n hd d0) ops) in
  Getitem K (heap w) (wcat w j) idx = (h', c', r) ->
  forall p, Per_source K p -> forall trm trd trm' trd',
    elems (snd (Read K c' p trm trd)) = elems (snd (Read K (wcat w j) p trm' trd')).
Proof. intros [H1 H2] Hd. destruct K. exact (getitem_parent_unchanged_run _ _ _ _ _ _ _ _ _ _ _ _ _ H1 H2 _ _ _ _ Hd ops j idx h' c' r). Qed.

Lemma getitem_total_K K n hd d0 ops j idx :
  cls_ok K -> d0_ok (c_lazy K) n d0 ->
  let w := fst (Run K (init_world n hd d0) ops) in
  scal (main (wcat w j)) = false -> resolve idx (length (src (main (wcat w j)))) <> None ->
  exists h' c' ch, Getitem K (heap w) (wcat w j) idx = (h', c', Ok ch).
Proof. intros [H1 H2] Hd. destruct K. exact (getitem_total_run _ _ _ _ _ _ _ _ _ _ _ _ _ H1 H2 _ _ _ _ Hd ops j idx). Qed.

Lemma child_cache_keys_K K n hd d0 ops j idx h' c' ch :
  cls_ok K -> d0_ok (c_lazy K) n d0 ->
  let w := fst (Run K (init_world n hd d0) ops) in
  Getitem K (heap w) (wcat w j) idx = (h', c', Ok ch) ->
  (exists sc pos, resolve idx (length (src (main (wcat w j)))) = Some (sc, pos) /\
     forall p, lookup p (dict (main ch)) = Child_entry K (Extras_of K (heap w) (wcat w j)) (main c') sc idx pos p) /\
  forall p, lookup p (dict (main ch)) <> None <->
            (In p (c_isc_trace K ++ [c_isscalar K]) \/
             (Copied K (Extras_of K (heap w) (wcat w j)) p = true /\
              exists k l, lookup p (dict (main c')) = Some (CCont k l))).
Proof. intros [H1 H2] Hd. destruct K. exact (child_cache_keys_run _ _ _ _ _ _ _ _ _ _ _ _ _ H1 H2 _ _ _ _ Hd ops j idx h' c' ch). Qed.

Lemma slices_independent_K K n hd d0 ops o k :
  cls_ok K -> c_copyx K = true -> d0_ok (c_lazy K) n d0 ->
  let w := fst (Run K (init_world n hd d0) ops) in
  Valid_run K (init_world n hd d0) ops -> op_target o < length (cats w) ->
  k < length (cats w) -> k <> op_target o ->
  report (fst (Step K w o)) k = report w k /\
  forall o', observes o' = true -> op_target o' = k -> snd (Step K (fst (Step K w o)) o') = snd (Step K w o').
Proof. intros [H1 H2] Hc Hd. destruct K. cbn in Hc. exact (slices_independent_run _ _ _ _ _ _ _ _ _ _ _ _ _ H1 H2 _ Hc _ _ _ Hd ops o k). Qed.

(* ---------- a tiny class for examples and for the refutation ---------- *)
(* names: 1 isscalar, 2 nlabels, 3 area (public, as_scalar), 4 _xcentroid (private), 10.. extras *)
Definition ex_desc (r : role) (p : name) : pdesc :=
  if (p =? 1)%Z || (p =? 2)%Z
  then {| priv := false; asc := false; udet := false; pyscal := true; kind0 := KArr; kind1 := KArr |}
  else if (p =? 4)%Z
  then {| priv := true; asc := false; udet := true; pyscal := false; kind0 := KArr; kind1 := KArr |}
  else {| priv := false; asc := true; udet := (p =? 3)%Z; pyscal := false; kind0 := KList; kind1 := KList |}.
Definition ex_cls (copy : bool) : cls :=
  {| c_sourcecat := true; c_copyx := copy; c_lazy := [1; 2; 3; 4]%Z; c_props := [1; 2; 3; 4; 5]%Z;
     c_internal := [1; 2; 3; 4; 6]%Z; c_basep := [7]%Z; c_desc := ex_desc;
     c_f := fun r p s => (Z.of_nat s + 100 * p + match r with Main => 0 | Det => 1000 end)%Z;
     c_isscalar := 1%Z; c_nlabels := 2%Z; c_pixap := 0%Z; c_localbkg := 0%Z; c_isc_trace := [];
     c_rootlabels := [5; 9; 7]%Z |}.

Lemma ex_cls_ok copy : cls_ok (ex_cls copy).
Proof.
  split.
  - intros p. cbn. intros H. repeat rewrite orb_true_iff in *. intuition.
  - intros q [<-|[]]. reflexivity.
Qed.

Lemma ex_d0_ok n : d0_ok [1; 2; 3; 4]%Z n [].
Proof. split; [constructor|intros p v []]. Qed.

(* the unrepaired __getitem__: adding an extra property to a slice changes what the parent reports *)
Definition refuting_history : list op :=
  [OIndex 0 (ISlice (Some 0%Z) (Some 2%Z) None)].
Lemma slices_not_independent_shared :
  let K := ex_cls false in
  let w := fst (Run K (init_world 3 false []) refuting_history) in
  let o := OAdd 1 10%Z (CCont KArr [41; 42]%Z) false in
  Valid_run K (init_world 3 false []) refuting_history /\ op_target o < length (cats w) /\
  snd (Step K w (OExtras 0)) = BNames [] /\
  snd (Step K (fst (Step K w o)) (OExtras 0)) = BNames [10%Z] /\
  snd (Step K (fst (Step K w o)) (OTable 0)) = BErr eAttr.
Proof. vm_compute. repeat split; lia. Qed.

(* the same history with the repaired __getitem__ *)
Lemma slices_independent_example :
  let K := ex_cls true in
  let w := fst (Run K (init_world 3 false []) refuting_history) in
  let o := OAdd 1 10%Z (CCont KArr [41; 42]%Z) false in
  snd (Step K (fst (Step K w o)) (OExtras 0)) = BNames [] /\
  snd (Step K (fst (Step K w o)) (OTable 0)) = BUnit /\
  snd (Step K (fst (Step K w o)) (OExtras 1)) = BNames [10%Z].
Proof. vm_compute. repeat split. Qed.

(* every read on every reachable catalog returns the per-source values, whatever was
   evaluated, indexed, added or removed before *)
Definition Prole (K : cls) := prole (c_basep K) (c_desc K).
Lemma read_reachable_K K n hd d0 ops j p trm trd :
  cls_ok K -> d0_ok (c_lazy K) n d0 -> Per_source K p ->
  let w := fst (Run K (init_world n hd d0) ops) in
  let c := wcat w j in
  let v := snd (Read K c p trm trd) in
  elems v = map (c_f K (Prole K (hasdet c) p) p) (src (main c)) /\
  (scal (main c) = false -> exists k, v = CCont k (map (c_f K (Prole K (hasdet c) p) p) (src (main c)))) /\
  (scal (main c) = true -> Public_scalar K p -> exists x, v = CScal x).
Proof.
  intros [H1 H2] Hd Hp. cbv zeta. destruct K. cbn in *.
  match goal with |- context [wcat ?w j] => set (c := wcat w j) end.
  assert (Hwf : wf_cat c_lazy0 c_desc0 c_f0 c).
  { apply wcat_wf. eapply reach_wf; eassumption. }
  unfold Read. cbn.
  destruct (read c_basep0 c_desc0 c_f0 c p trm trd) as [c1 v1] eqn:E. cbn.
  destruct (read_per_source _ _ _ _ _ _ _ _ _ _ Hwf Hp E) as (_ & _ & X & Y & Z).
  split; [exact X|]. split; [exact Y|exact Z].
Qed.
