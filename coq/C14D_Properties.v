(* C14D -- theorems about the per-source statistics of DAOStarFinder, IRAFStarFinder and StarFinder
   (model: C14D_Model, tied to the raw catalogs of the implementation by harness/c14d.py).
   Every theorem is over Q / Z / nat: "Closed under the global context".

   Groups
     A  definitions-as-specification: each statistic is the defining sum over explicitly
        enumerated pixels (no slicing / masking arithmetic in the statement)
     B  DAOFIND roundness1: range, non-finite cases, behaviour under the symmetries of the square
     C  DAOFIND sharpness: scale and offset invariance, finiteness
     D  DAOFIND marginal fits: amplitude, centroid shift, roundness2, centroid near the peak
     E  image moments (IRAF / StarFinder): centroid in the cutout, roundness**2 in [0, 1],
        non-finite cases
     F  IRAFStarFinder: sky, clipped cutout, background / scale invariance, centroid in the kernel box
     G  StarFinder: trimmed window, centroid in the window
     H  translation of the scene
   Statements quoted as false in comments are refuted by an [Example] with a witness. *)
From Coq Require Import List Arith ZArith QArith Qabs Bool Lia.
From PV Require Import C14D_Model C14D_Proofs.
Import ListNotations.
Open Scope Q_scope.

(* ================================================================== *)
(* A. definitions as specification                                      *)
(* ================================================================== *)
(* sum2 of roundness1 = sum over ALL cutout pixels of sign(y, x) * conv(y, x), the sign pattern
   [qsign] being the one the four slices of the code produce (centre 0) *)
Theorem roundness1_sum2_is_signed_sum : forall (ny nx : nat) (c : img),
  (0 < ny)%nat -> (0 < nx)%nat ->
  sum2 ny nx c == sum2d ny nx (fun y x => qsign (cy ny) (cx nx) y x * pix c y x).
Proof. exact sum2_spec. Qed.
Print Assumptions roundness1_sum2_is_signed_sum.

Theorem roundness1_sum4_is_abs_sum_off_centre : forall (ny nx : nat) (c : img),
  sum4 ny nx c == sum2d ny nx (fun y x => if is_centre (cy ny) (cx nx) y x then 0 else Qabs (pix c y x)).
Proof. exact sum4_spec. Qed.
Print Assumptions roundness1_sum4_is_abs_sum_off_centre.

(* sharpness = (peak - mean of the OTHER footprint pixels) / convolved peak, when the peak pixel
   belongs to the footprint (true for every _StarFinderKernel: circular_radius <= 2 is included) *)
Theorem sharpness_is_peak_minus_mean_of_others : forall (ny nx : nat) (mask : bimg),
  (0 < ny)%nat -> (0 < nx)%nat -> bpix mask (cy ny) (cx nx) = true ->
  forall d c : img,
  feq (sharpness ny nx mask d c)
      (if (length (others ny nx mask) =? 0)%nat then NaN
       else fdiv (pix d (cy ny) (cx nx)
                  - qsum (map (fun p => pix d (fst p) (snd p)) (others ny nx mask))
                    / qn (length (others ny nx mask)))
                 (pix c (cy ny) (cx nx))).
Proof. exact sharpness_spec. Qed.
Print Assumptions sharpness_is_peak_minus_mean_of_others.

Theorem dao_flux_is_sum_of_window_pixels : forall (im : img) (ny nx : nat) (yp xp : Z),
  flux (cutout im ny nx yp xp)
  == qsum (map (fun p => iget im (yp - Z.of_nat (ny / 2) + Z.of_nat (fst p))
                                 (xp - Z.of_nat (nx / 2) + Z.of_nat (snd p))) (pixels ny nx)).
Proof. exact flux_spec. Qed.
Print Assumptions dao_flux_is_sum_of_window_pixels.

Theorem dao_peak_is_pixel_at_position : forall (im : img) (a b : nat) (yp xp : Z),
  data_peak (2 * a + 1) (2 * b + 1) (cutout im (2 * a + 1) (2 * b + 1) yp xp) = iget im yp xp.
Proof. exact data_peak_is_peak. Qed.
Print Assumptions dao_peak_is_pixel_at_position.

Theorem iraf_sky_is_mean_off_footprint : forall (ny nx : nat) (mask : bimg) (d cv : img),
  nsky ny nx mask <> 0%nat ->
  sky ny nx mask d cv
  == qsum (map (fun p => pix d (fst p) (snd p)) (sky_pixels ny nx mask)) / qn (length (sky_pixels ny nx mask)).
Proof. exact sky_spec. Qed.
Print Assumptions iraf_sky_is_mean_off_footprint.

Theorem iraf_cutout_pixel : forall (ny nx : nat) (mask : bimg) (d cv : img) (y x : nat),
  (y < ny)%nat -> (x < nx)%nat ->
  pix (iraf_cutout ny nx mask d cv) y x = clip0 ((pix d y x - sky ny nx mask d cv) * b2q (bpix mask y x)).
Proof. exact iraf_pix. Qed.
Print Assumptions iraf_cutout_pixel.

Theorem iraf_flux_is_clipped_sum_over_footprint : forall (ny nx : nat) (mask : bimg) (d cv : img),
  iraf_flux ny nx mask d cv
  == qsum (map (fun p => clip0 (pix d (fst p) (snd p) - sky ny nx mask d cv)) (object_pixels ny nx mask)).
Proof. exact iraf_flux_spec. Qed.
Print Assumptions iraf_flux_is_clipped_sum_over_footprint.

Theorem sf_flux_is_clipped_sum_over_window : forall (ky kx : nat) (im : img) (yp xp : Z),
  isum (sf_cutout ky kx im yp xp)
  == qsum (map (fun p => clip0 (iget im (sf_ymin ky yp + Z.of_nat (fst p)) (sf_xmin kx xp + Z.of_nat (snd p))))
               (pixels (sf_ny ky im yp) (sf_nx kx im xp))).
Proof. exact sf_flux_spec. Qed.
Print Assumptions sf_flux_is_clipped_sum_over_window.

(* ================================================================== *)
(* B. roundness1                                                        *)
(* ================================================================== *)
(* |sum2| <= sum4 with NO sign condition on the pixels: a finite roundness1 is always in [-2, 2] *)
Theorem roundness1_in_minus2_2 : forall (ny nx : nat) (c : img),
  (0 < ny)%nat -> (0 < nx)%nat -> forall r : Q, roundness1 ny nx c = Fin r -> -2 <= r <= 2.
Proof. exact roundness1_range. Qed.
Print Assumptions roundness1_in_minus2_2.

(* the isfinite filter removes a source for roundness1 exactly when sum4 = 0, i.e. every
   off-centre pixel of the convolved cutout is 0; the value is then NaN, never +-inf *)
Theorem roundness1_nonfinite_iff : forall (ny nx : nat) (c : img),
  (0 < ny)%nat -> (0 < nx)%nat ->
  (roundness1 ny nx c = NaN <-> sum4 ny nx c == 0)
  /\ roundness1 ny nx c <> PInf /\ roundness1 ny nx c <> NInf
  /\ (is_fin (roundness1 ny nx c) = true <-> ~ sum4 ny nx c == 0).
Proof. exact roundness1_nonfinite. Qed.
Print Assumptions roundness1_nonfinite_iff.

Theorem roundness1_sum4_zero_iff_all_off_centre_zero : forall (ny nx : nat) (c : img),
  sum4 ny nx c == 0 <->
  (forall y x : nat, (y < ny)%nat -> (x < nx)%nat -> is_centre (cy ny) (cx nx) y x = false -> pix c y x == 0).
Proof. exact sum4_zero_iff. Qed.
Print Assumptions roundness1_sum4_zero_iff_all_off_centre_zero.

(* a quarter turn of the convolved cutout negates roundness1 (odd square kernel) *)
Theorem roundness1_antisymmetric_under_quarter_turn : forall (k : nat) (c c' : img),
  let n := (2 * k + 1)%nat in
  (forall y x : nat, (y < n)%nat -> (x < n)%nat -> pix c' y x == pix c x (n - 1 - y)%nat) ->
  feq (roundness1 n n c') (fneg (roundness1 n n c)).
Proof. exact roundness1_rot90. Qed.
Print Assumptions roundness1_antisymmetric_under_quarter_turn.

Theorem roundness1_zero_for_fourfold_symmetric_cutout : forall (k : nat) (c : img) (r : Q),
  let n := (2 * k + 1)%nat in
  (forall y x : nat, (y < n)%nat -> (x < n)%nat -> pix c y x == pix c x (n - 1 - y)%nat) ->
  roundness1 n n c = Fin r -> r == 0.
Proof. exact roundness1_zero_rot_symmetric. Qed.
Print Assumptions roundness1_zero_for_fourfold_symmetric_cutout.

(* sum2 = Soff (open quadrants) + Sarm (the four arms through the centre).  Transposition
   keeps Soff and negates Sarm; a left-right flip negates Soff and keeps Sarm.  So roundness1
   is antisymmetric under transposition only for cutouts with Soff = 0 and under a reflection
   only for cutouts with Sarm = 0 (refuted in general below). *)
Theorem roundness1_under_transposition : forall (k : nat) (c c' : img),
  let n := (2 * k + 1)%nat in
  (forall y x : nat, (y < n)%nat -> (x < n)%nat -> pix c' y x == pix c x y) ->
  sum2 n n c == Soff n n c + Sarm n n c /\ sum2 n n c' == Soff n n c - Sarm n n c
  /\ sum4 n n c' == sum4 n n c.
Proof. exact sum2_transpose. Qed.
Print Assumptions roundness1_under_transposition.

Theorem roundness1_under_left_right_flip : forall (ny k : nat) (c c' : img),
  let nx := (2 * k + 1)%nat in
  (0 < ny)%nat ->
  (forall y x : nat, (y < ny)%nat -> (x < nx)%nat -> pix c' y x == pix c y (nx - 1 - x)%nat) ->
  sum2 ny nx c == Soff ny nx c + Sarm ny nx c /\ sum2 ny nx c' == - Soff ny nx c + Sarm ny nx c
  /\ sum4 ny nx c' == sum4 ny nx c.
Proof. exact sum2_fliplr. Qed.
Print Assumptions roundness1_under_left_right_flip.

Theorem roundness1_zero_for_mirror_and_diagonal_symmetric_cutout : forall (k : nat) (c : img) (r : Q),
  let n := (2 * k + 1)%nat in
  (forall y x : nat, (y < n)%nat -> (x < n)%nat -> pix c y x == pix c x y) ->
  (forall y x : nat, (y < n)%nat -> (x < n)%nat -> pix c y x == pix c y (n - 1 - x)%nat) ->
  roundness1 n n c = Fin r -> r == 0.
Proof. exact roundness1_zero_dihedral. Qed.
Print Assumptions roundness1_zero_for_mirror_and_diagonal_symmetric_cutout.

(* ================================================================== *)
(* C. sharpness                                                         *)
(* ================================================================== *)
Theorem sharpness_scale_invariant : forall (ny nx : nat) (mask : bimg),
  (0 < ny)%nat -> (0 < nx)%nat ->
  forall (d c : img) (k : Q) (d' c' : img), 0 < k ->
  (forall y x : nat, (y < ny)%nat -> (x < nx)%nat -> pix d' y x == k * pix d y x) ->
  pix c' (cy ny) (cx nx) == k * pix c (cy ny) (cx nx) ->
  feq (sharpness ny nx mask d' c') (sharpness ny nx mask d c).
Proof. exact sharpness_scale. Qed.
Print Assumptions sharpness_scale_invariant.

(* adding a constant to every pixel of the data cutout leaves sharpness unchanged PROVIDED the
   convolved peak is unchanged (zero-sum kernel, cutout inside the image); adding it to the data
   peak alone, or to data and convolved data alike, does change it *)
Theorem sharpness_offset_invariant_at_fixed_convolved_peak : forall (ny nx : nat) (mask : bimg),
  (0 < ny)%nat -> (0 < nx)%nat ->
  forall (d c : img) (t : Q) (d' : img),
  (forall y x : nat, (y < ny)%nat -> (x < nx)%nat -> pix d' y x == pix d y x + t) ->
  feq (sharpness ny nx mask d' c) (sharpness ny nx mask d c).
Proof. exact sharpness_offset. Qed.
Print Assumptions sharpness_offset_invariant_at_fixed_convolved_peak.

Theorem sharpness_finite_iff_convolved_peak_nonzero : forall (ny nx : nat) (mask : bimg) (d c : img),
  is_fin (sharpness ny nx mask d c) = true
  <-> ~ npixels ny nx mask - 1 == 0 /\ ~ convdata_peak ny nx c == 0.
Proof. exact sharpness_finite_iff. Qed.
Print Assumptions sharpness_finite_iff_convolved_peak_nonzero.

(* ================================================================== *)
(* D. marginal fits                                                     *)
(* ================================================================== *)
(* hx (hy) is NaN exactly when the fit is rejected (hx_numer <= 0 or hx_denom <= 0); otherwise it
   is finite and POSITIVE; it is never +-inf *)
Theorem marginal_amplitude_nan_or_positive :
  forall (ny nx : nat) (gk : img) (s2x s2y : Q) (d : img) (axis : bool),
  (mask1 ny nx gk d axis = true /\ marginal_fit ny nx gk s2x s2y d axis = (NaN, NaN))
  \/ (mask1 ny nx gk d axis = false
      /\ snd (marginal_fit ny nx gk s2x s2y d axis) = Fin (hxv ny nx gk d axis)
      /\ 0 < hxv ny nx gk d axis).
Proof. exact hx_cases. Qed.
Print Assumptions marginal_amplitude_nan_or_positive.

Theorem marginal_shift_at_most_half_kernel :
  forall (ny nx : nat) (gk : img) (s2x s2y : Q) (d : img) (axis : bool) (v : Q),
  fst (marginal_fit ny nx gk s2x s2y d axis) = Fin v -> Qabs v <= hsize ny nx axis.
Proof. exact dx_bounded. Qed.
Print Assumptions marginal_shift_at_most_half_kernel.

Theorem marginal_shift_nonfinite_iff_zero_over_zero :
  forall (ny nx : nat) (gk : img) (s2x s2y : Q) (d : img) (axis : bool),
  mask1 ny nx gk d axis = false ->
  (is_fin (fst (marginal_fit ny nx gk s2x s2y d axis)) = false
   <-> dx_numer ny nx gk d axis == 0 /\ dx_denom ny nx gk s2x s2y d axis == 0).
Proof. exact dx_nonfinite. Qed.
Print Assumptions marginal_shift_nonfinite_iff_zero_over_zero.

(* roundness2 is NaN iff one of the two fits is rejected, otherwise strictly inside (-2, 2) *)
Theorem roundness2_nan_or_strictly_within_2 : forall (ny nx : nat) (gk : img) (s2x s2y : Q) (d : img),
  (roundness2 ny nx gk s2x s2y d = NaN
   /\ (mask1 ny nx gk d false = true \/ mask1 ny nx gk d true = true))
  \/ (exists r : Q, roundness2 ny nx gk s2x s2y d = Fin r /\ -2 < r < 2
      /\ mask1 ny nx gk d false = false /\ mask1 ny nx gk d true = false).
Proof. exact roundness2_cases. Qed.
Print Assumptions roundness2_nan_or_strictly_within_2.

Theorem roundness2_scale_invariant : forall (ny nx : nat) (gk : img) (s2x s2y : Q) (d d' : img) (k : Q),
  (forall y x : nat, (y < ny)%nat -> (x < nx)%nat -> pix d' y x == k * pix d y x) -> 0 < k ->
  feq (roundness2 ny nx gk s2x s2y d') (roundness2 ny nx gk s2x s2y d).
Proof. exact roundness2_scale. Qed.
Print Assumptions roundness2_scale_invariant.

Theorem marginal_amplitude_homogeneous : forall (ny nx : nat) (gk d d' : img) (k : Q),
  (forall y x : nat, (y < ny)%nat -> (x < nx)%nat -> pix d' y x == k * pix d y x) ->
  forall axis : bool, hxv ny nx gk d' axis == k * hxv ny nx gk d axis.
Proof. exact hxv_scale. Qed.
Print Assumptions marginal_amplitude_homogeneous.

(* C14's "centroid lies within the kernel of a detected peak", DAOStarFinder: a finite centroid is
   within half the kernel size of the peak pixel on each axis *)
Theorem dao_xcentroid_within_half_kernel_of_peak :
  forall (ny nx : nat) (gk : img) (s2x s2y : Q) (d : img) (xp : Z) (v : Q),
  fshift (inject_Z xp) (fst (dx_hx ny nx gk s2x s2y d)) = Fin v -> Qabs (v - inject_Z xp) <= qn nx / 2.
Proof. exact dao_xcentroid_near_peak. Qed.
Print Assumptions dao_xcentroid_within_half_kernel_of_peak.

Theorem dao_ycentroid_within_half_kernel_of_peak :
  forall (ny nx : nat) (gk : img) (s2x s2y : Q) (d : img) (yp : Z) (v : Q),
  fshift (inject_Z yp) (fst (dy_hy ny nx gk s2x s2y d)) = Fin v -> Qabs (v - inject_Z yp) <= qn ny / 2.
Proof. exact dao_ycentroid_near_peak. Qed.
Print Assumptions dao_ycentroid_within_half_kernel_of_peak.

(* ================================================================== *)
(* E. image moments of a non-negative cutout                            *)
(* ================================================================== *)
Theorem moment_centroid_in_cutout : forall (ny nx : nat) (a : img),
  (forall y x : nat, (y < ny)%nat -> (x < nx)%nat -> 0 <= pix a y x) ->
  (forall v : Q, ycen ny nx a = Fin v -> 0 <= v <= qn ny - 1)
  /\ (forall v : Q, xcen ny nx a = Fin v -> 0 <= v <= qn nx - 1).
Proof. intros ny nx a H. split; [exact (ycen_in_cutout ny nx a H)|exact (xcen_in_cutout ny nx a H)]. Qed.
Print Assumptions moment_centroid_in_cutout.

Theorem moment_centroid_nonfinite_iff_no_flux : forall (ny nx : nat) (a : img),
  (forall y x : nat, (y < ny)%nat -> (x < nx)%nat -> 0 <= pix a y x) ->
  (ycen ny nx a = NaN <-> m00 ny nx a == 0) /\ (xcen ny nx a = NaN <-> m00 ny nx a == 0)
  /\ (is_fin (ycen ny nx a) = true <-> ~ m00 ny nx a == 0)
  /\ (is_fin (xcen ny nx a) = true <-> ~ m00 ny nx a == 0)
  /\ ycen ny nx a <> PInf /\ ycen ny nx a <> NInf /\ xcen ny nx a <> PInf /\ xcen ny nx a <> NInf.
Proof. exact centroid_nonfinite. Qed.
Print Assumptions moment_centroid_nonfinite_iff_no_flux.

(* Cauchy-Schwarz: mu_diff^2 + 4 mu11^2 <= mu_sum^2 *)
Theorem second_moment_inequality : forall (ny nx : nat) (a : img),
  (forall y x : nat, (y < ny)%nat -> (x < nx)%nat -> 0 <= pix a y x) ->
  0 <= mu_diff ny nx a * mu_diff ny nx a + 4 * (mu ny nx a 1 1 * mu ny nx a 1 1)
    <= mu_sum ny nx a * mu_sum ny nx a.
Proof. exact round_numer_le_denom. Qed.
Print Assumptions second_moment_inequality.

Theorem roundness_squared_in_0_1 : forall (ny nx : nat) (a : img),
  (forall y x : nat, (y < ny)%nat -> (x < nx)%nat -> 0 <= pix a y x) ->
  forall r : Q, round_sq ny nx a = Fin r -> 0 <= r <= 1.
Proof. exact round_sq_range. Qed.
Print Assumptions roundness_squared_in_0_1.

Theorem roundness_nonfinite_iff : forall (ny nx : nat) (a : img),
  (forall y x : nat, (y < ny)%nat -> (x < nx)%nat -> 0 <= pix a y x) ->
  (round_sq ny nx a = NaN <-> m00 ny nx a == 0 \/ mu_sum ny nx a == 0)
  /\ round_sq ny nx a <> PInf /\ round_sq ny nx a <> NInf
  /\ (is_fin (round_sq ny nx a) = true <-> ~ m00 ny nx a == 0 /\ ~ mu_sum ny nx a == 0).
Proof. exact round_sq_nonfinite. Qed.
Print Assumptions roundness_nonfinite_iff.

(* ================================================================== *)
(* F. IRAFStarFinder                                                    *)
(* ================================================================== *)
Theorem iraf_cutout_nonnegative : forall (ny nx : nat) (mask : bimg) (d cv : img) (y x : nat),
  (y < ny)%nat -> (x < nx)%nat -> 0 <= pix (iraf_cutout ny nx mask d cv) y x.
Proof. exact iraf_pix_nonneg. Qed.
Print Assumptions iraf_cutout_nonnegative.

Theorem iraf_cutout_zero_off_footprint : forall (ny nx : nat) (mask : bimg) (d cv : img) (y x : nat),
  (y < ny)%nat -> (x < nx)%nat -> bpix mask y x = false -> pix (iraf_cutout ny nx mask d cv) y x == 0.
Proof. exact iraf_pix_off_mask. Qed.
Print Assumptions iraf_cutout_zero_off_footprint.

(* C14's "centroid lies within the kernel of a detected peak", IRAFStarFinder *)
Theorem iraf_centroid_in_kernel_box : forall (ny nx : nat) (mask : bimg) (d cv : img) (yp xp : Z),
  (forall v : Q, fshift (inject_Z xp - qn (nx / 2)) (xcen ny nx (iraf_cutout ny nx mask d cv)) = Fin v ->
                 inject_Z xp - qn (nx / 2) <= v <= inject_Z xp - qn (nx / 2) + qn nx - 1)
  /\ (forall v : Q, fshift (inject_Z yp - qn (ny / 2)) (ycen ny nx (iraf_cutout ny nx mask d cv)) = Fin v ->
                    inject_Z yp - qn (ny / 2) <= v <= inject_Z yp - qn (ny / 2) + qn ny - 1).
Proof.
  intros ny nx mask d cv yp xp. split.
  - exact (iraf_xcentroid_in_kernel_box ny nx mask d cv xp).
  - exact (iraf_ycentroid_in_kernel_box ny nx mask d cv yp).
Qed.
Print Assumptions iraf_centroid_in_kernel_box.

Theorem iraf_roundness_squared_in_0_1 : forall (ny nx : nat) (mask : bimg) (d cv : img) (r : Q),
  round_sq ny nx (iraf_cutout ny nx mask d cv) = Fin r -> 0 <= r <= 1.
Proof. exact iraf_round_sq_range. Qed.
Print Assumptions iraf_roundness_squared_in_0_1.

(* a constant background is absorbed by the sky estimate: cutout, flux, moments, centroid unchanged *)
Theorem iraf_background_invariant : forall (ny nx : nat) (mask : bimg) (d d' cv : img) (t : Q),
  nsky ny nx mask <> 0%nat ->
  (forall y x : nat, (y < ny)%nat -> (x < nx)%nat -> pix d' y x == pix d y x + t) ->
  sky ny nx mask d' cv == sky ny nx mask d cv + t
  /\ (forall y x : nat, (y < ny)%nat -> (x < nx)%nat ->
        pix (iraf_cutout ny nx mask d' cv) y x == pix (iraf_cutout ny nx mask d cv) y x)
  /\ iraf_flux ny nx mask d' cv == iraf_flux ny nx mask d cv
  /\ feq (ycen ny nx (iraf_cutout ny nx mask d' cv)) (ycen ny nx (iraf_cutout ny nx mask d cv))
  /\ feq (xcen ny nx (iraf_cutout ny nx mask d' cv)) (xcen ny nx (iraf_cutout ny nx mask d cv)).
Proof.
  intros ny nx mask d d' cv t H1 H2. split; [exact (sky_offset ny nx mask d d' cv t H1 H2)|].
  split; [exact (iraf_cutout_offset ny nx mask d d' cv t H1 H2)|].
  split; [exact (iraf_flux_offset ny nx mask d d' cv t H1 H2)|].
  exact (iraf_centroid_offset ny nx mask d d' cv t H1 H2).
Qed.
Print Assumptions iraf_background_invariant.

(* flux is positively homogeneous (NOT additive: the clipping is non-linear); centroid scale free *)
Theorem iraf_scale_covariant : forall (ny nx : nat) (mask : bimg) (d d' cv : img) (k : Q),
  nsky ny nx mask <> 0%nat -> 0 < k ->
  (forall y x : nat, (y < ny)%nat -> (x < nx)%nat -> pix d' y x == k * pix d y x) ->
  sky ny nx mask d' cv == k * sky ny nx mask d cv
  /\ iraf_flux ny nx mask d' cv == k * iraf_flux ny nx mask d cv
  /\ feq (ycen ny nx (iraf_cutout ny nx mask d' cv)) (ycen ny nx (iraf_cutout ny nx mask d cv))
  /\ feq (xcen ny nx (iraf_cutout ny nx mask d' cv)) (xcen ny nx (iraf_cutout ny nx mask d cv)).
Proof.
  intros ny nx mask d d' cv k H1 H2 H3. split; [exact (sky_scale ny nx mask d d' cv k H1 H3)|].
  split; [exact (iraf_flux_scale ny nx mask d d' cv k H1 H2 H3)|].
  exact (iraf_centroid_scale ny nx mask d d' cv k H1 H2 H3).
Qed.
Print Assumptions iraf_scale_covariant.

Theorem dao_flux_linear : forall (ny nx : nat) (k : Q) (f g : nat -> nat -> Q),
  flux (tab ny nx (fun y x => f y x + g y x)) == flux (tab ny nx f) + flux (tab ny nx g)
  /\ flux (tab ny nx (fun y x => k * f y x)) == k * flux (tab ny nx f).
Proof. intros. split; [apply flux_additive|apply flux_homogeneous]. Qed.
Print Assumptions dao_flux_linear.

(* ================================================================== *)
(* G. StarFinder                                                        *)
(* ================================================================== *)
Theorem sf_window_is_clipped_kernel_box : forall (ky kx : nat) (im : img) (yp xp : Z),
  (0 <= sf_xmin kx xp /\ xp - Z.of_nat (kx / 2) <= sf_xmin kx xp
   /\ sf_xmax kx im xp <= imW im /\ sf_xmax kx im xp <= xp - Z.of_nat (kx / 2) + Z.of_nat kx
   /\ 0 <= sf_ymin ky yp /\ yp - Z.of_nat (ky / 2) <= sf_ymin ky yp
   /\ sf_ymax ky im yp <= imH im /\ sf_ymax ky im yp <= yp - Z.of_nat (ky / 2) + Z.of_nat ky)%Z.
Proof. exact sf_window. Qed.
Print Assumptions sf_window_is_clipped_kernel_box.

(* C14's "centroid lies within the kernel of a detected peak", StarFinder: inside the kernel box
   clipped at the frame *)
Theorem sf_centroid_in_window : forall (ky kx : nat) (im : img) (yp xp : Z),
  (forall v : Q,
     fshift (inject_Z (sf_xmin kx xp)) (xcen (sf_ny ky im yp) (sf_nx kx im xp) (sf_cutout ky kx im yp xp)) = Fin v ->
     inject_Z (sf_xmin kx xp) <= v <= inject_Z (sf_xmax kx im xp) - 1)
  /\ (forall v : Q,
     fshift (inject_Z (sf_ymin ky yp)) (ycen (sf_ny ky im yp) (sf_nx kx im xp) (sf_cutout ky kx im yp xp)) = Fin v ->
     inject_Z (sf_ymin ky yp) <= v <= inject_Z (sf_ymax ky im yp) - 1).
Proof.
  intros ky kx im yp xp. split.
  - exact (sf_xcentroid_in_window ky kx im yp xp).
  - exact (sf_ycentroid_in_window ky kx im yp xp).
Qed.
Print Assumptions sf_centroid_in_window.

Theorem sf_roundness_squared_in_0_1 : forall (ky kx : nat) (im : img) (yp xp : Z) (r : Q),
  round_sq (sf_ny ky im yp) (sf_nx kx im xp) (sf_cutout ky kx im yp xp) = Fin r -> 0 <= r <= 1.
Proof. exact sf_round_sq_range. Qed.
Print Assumptions sf_roundness_squared_in_0_1.

(* ================================================================== *)
(* H. translation (supports C03)                                        *)
(* ================================================================== *)
(* if the scene seen through the kernel window of (yp, xp) reappears displaced by (dy, dx), every
   DAOFIND statistic at (yp + dy, xp + dx) is IDENTICAL and the centroid is displaced by (dy, dx) *)
Theorem dao_statistics_translation :
  forall (ny nx : nat) (mask : bimg) (gk : img) (s2x s2y : Q) (im im' conv conv' : img) (yp xp dy dx : Z),
  (forall y x : Z,
     (yp - Z.of_nat (ny / 2) <= y < yp - Z.of_nat (ny / 2) + Z.of_nat ny)%Z ->
     (xp - Z.of_nat (nx / 2) <= x < xp - Z.of_nat (nx / 2) + Z.of_nat nx)%Z ->
     iget im' (y + dy) (x + dx) = iget im y x /\ iget conv' (y + dy) (x + dx) = iget conv y x) ->
  let d := cutout im ny nx yp xp in
  dao_stats ny nx mask gk s2x s2y im' conv' (yp + dy) (xp + dx)
  = firstn 11 (dao_stats ny nx mask gk s2x s2y im conv yp xp)
    ++ [ fshift (inject_Z (xp + dx)) (fst (dx_hx ny nx gk s2x s2y d));
         fshift (inject_Z (yp + dy)) (fst (dy_hy ny nx gk s2x s2y d)) ].
Proof. exact dao_stats_shift. Qed.
Print Assumptions dao_statistics_translation.

Theorem iraf_statistics_translation :
  forall (ny nx : nat) (mask : bimg) (im im' conv conv' : img) (yp xp dy dx : Z),
  (forall y x : Z,
     (yp - Z.of_nat (ny / 2) <= y < yp - Z.of_nat (ny / 2) + Z.of_nat ny)%Z ->
     (xp - Z.of_nat (nx / 2) <= x < xp - Z.of_nat (nx / 2) + Z.of_nat nx)%Z ->
     iget im' (y + dy) (x + dx) = iget im y x /\ iget conv' (y + dy) (x + dx) = iget conv y x) ->
  let a := iraf_cutout ny nx mask (cutout im ny nx yp xp) (cutout conv ny nx yp xp) in
  iraf_stats ny nx mask im' conv' (yp + dy) (xp + dx)
  = firstn 13 (iraf_stats ny nx mask im conv yp xp)
    ++ [ fshift (inject_Z (xp + dx) - qn (nx / 2)) (xcen ny nx a);
         fshift (inject_Z (yp + dy) - qn (ny / 2)) (ycen ny nx a) ].
Proof. exact iraf_stats_shift. Qed.
Print Assumptions iraf_statistics_translation.

(* ================================================================== *)
(* I. the correspondence check compares the model                       *)
(* ================================================================== *)
(* C14D_Model.check_case evaluates the DAOFIND sums once and shares them ([dao_eval]); the list of
   values it compares with the implementation is exactly [dao_stats] *)
Theorem dao_check_compares_the_model :
  forall (ny nx : nat) (mask : bimg) (gk : img) (s2x s2y : Q) (im conv : img) (yp xp : Z),
  fst (fst (dao_eval ny nx mask gk s2x s2y (kern_sums ny nx gk false) (kern_sums ny nx gk true)
                     (cutout im ny nx yp xp) (cutout conv ny nx yp xp) yp xp))
  = dao_stats ny nx mask gk s2x s2y im conv yp xp.
Proof. exact dao_eval_is_model. Qed.
Print Assumptions dao_check_compares_the_model.

(* ================================================================== *)
(* Examples: hypotheses are satisfiable, instances are non-trivial, false variants are refuted  *)
(* ================================================================== *)
Definition ex_conv : img :=     (* a convolved cutout, not symmetric *)
  [[0; 1; 2; 1; 0]; [1; 3; 5; 4; 1]; [2; 6; 9; 5; 1]; [1; 2; 4; 2; 0]; [0; 1; 1; 0; -1]].
Definition ex_mask : bimg :=    (* the 13-pixel footprint circular_radius <= 2 *)
  [[false; false; true; false; false]; [false; true; true; true; false]; [true; true; true; true; true];
   [false; true; true; true; false]; [false; false; true; false; false]].
Definition ex_data : img :=
  [[1; 2; 3; 2; 1]; [2; 5; 9; 6; 2]; [3; 10; 20; 9; 2]; [2; 4; 8; 5; 1]; [1; 2; 2; 1; 0]].
Definition ex_gk : img :=       (* a positive, symmetric, peaked "kernel" with rational values *)
  tab 5 5 (fun y x => 1 / (1 + qn ((y - 2) * (y - 2) + (2 - y) * (2 - y) + (x - 2) * (x - 2) + (2 - x) * (2 - x)))).

Example ex_roundness1_value : feq (roundness1 5 5 ex_conv) (Fin (-3 # 11)).
Proof. vm_compute. reflexivity. Qed.
Example ex_sharpness_value : feq (sharpness 5 5 ex_mask ex_data ex_conv) (Fin (29 # 18)).
Proof. vm_compute. reflexivity. Qed.
Example ex_mask_centre_and_others :
  bpix ex_mask (cy 5) (cx 5) = true /\ length (others 5 5 ex_mask) = 12%nat /\ nsky 5 5 ex_mask = 12%nat.
Proof. vm_compute. auto. Qed.
Example ex_marginal_fit_accepted :
  mask1 5 5 ex_gk ex_data false = false /\ mask1 5 5 ex_gk ex_data true = false
  /\ is_fin (fst (dx_hx 5 5 ex_gk 1 1 ex_data)) = true /\ is_fin (roundness2 5 5 ex_gk 1 1 ex_data) = true.
Proof. vm_compute. auto. Qed.
Example ex_marginal_fit_rejected_on_flat_data :
  marginal_fit 5 5 ex_gk 1 1 (tab 5 5 (fun _ _ => 7)) false = (NaN, NaN).
Proof. vm_compute. reflexivity. Qed.
Example ex_iraf_statistics :
  feq (Fin (sky 5 5 ex_mask ex_data ex_conv)) (Fin (17 # 12))
  /\ is_fin (round_sq 5 5 (iraf_cutout 5 5 ex_mask ex_data ex_conv)) = true
  /\ is_fin (xcen 5 5 (iraf_cutout 5 5 ex_mask ex_data ex_conv)) = true.
Proof. vm_compute. auto. Qed.
(* all NaN / inf cases are reachable *)
Example ex_roundness1_nan : roundness1 5 5 (tab 5 5 (fun y x => if ((y =? 2) && (x =? 2))%nat then 3 else 0)) = NaN.
Proof. vm_compute. reflexivity. Qed.
Example ex_sharpness_inf_and_nan :
  sharpness 5 5 ex_mask ex_data (tab 5 5 (fun _ _ => 0)) = PInf
  /\ sharpness 5 5 ex_mask (tab 5 5 (fun _ _ => 4)) (tab 5 5 (fun _ _ => 0)) = NaN
  /\ sharpness 5 5 ex_mask (tab 5 5 (fun y x => if ((y =? 2) && (x =? 2))%nat then 0 else 1))
               (tab 5 5 (fun _ _ => 0)) = NInf.
Proof. vm_compute. auto. Qed.
Example ex_iraf_no_flux_all_nan :
  let a := iraf_cutout 5 5 ex_mask (tab 5 5 (fun _ _ => 4)) ex_conv in
  xcen 5 5 a = NaN /\ round_sq 5 5 a = NaN /\ iraf_flux 5 5 ex_mask (tab 5 5 (fun _ _ => 4)) ex_conv == 0.
Proof. vm_compute. auto. Qed.
Example ex_single_pixel_roundness_nan :      (* all the weight in one pixel: mu_sum = 0 *)
  let a := tab 5 5 (fun y x => if ((y =? 1) && (x =? 3))%nat then 6 else 0) in
  round_sq 5 5 a = NaN /\ xcen 5 5 a = Fin (18 # 6).
Proof. vm_compute. auto. Qed.
(* StarFinder at the corner: the window is trimmed to 2 x 3 *)
Example ex_sf_corner_window :
  sf_ny 3 ex_data 0 = 2%nat /\ sf_nx 5 ex_data 0 = 3%nat /\ sf_ymin 3 0 = 0%Z /\ sf_xmin 5 0 = 0%Z.
Proof. vm_compute. auto. Qed.

(* a 4-fold symmetric cutout: the premise of roundness1_zero_for_fourfold_symmetric_cutout holds *)
Definition ex_sym : img :=
  [[1; 2; 3; 2; 1]; [2; 4; 5; 4; 2]; [3; 5; 9; 5; 3]; [2; 4; 5; 4; 2]; [1; 2; 3; 2; 1]].
Example ex_fourfold_symmetric :
  forall y x : nat, (y < 5)%nat -> (x < 5)%nat -> pix ex_sym y x == pix ex_sym x (5 - 1 - y)%nat.
Proof.
  intros y x Hy Hx.
  do 5 (destruct y as [|y]; [do 5 (destruct x as [|x]; [vm_compute; reflexivity|]); lia|]). lia.
Qed.
Example ex_fourfold_roundness1 : roundness1 5 5 ex_sym = Fin (0 # 68).
Proof. vm_compute. reflexivity. Qed.

(* REFUTED: "roundness1 is antisymmetric under transposition" -- an off-axis pixel keeps its sign *)
Definition ex_off : img := tab 5 5 (fun y x => if ((y =? 1) && (x =? 3))%nat then 1 else 0).
Definition ex_off_T : img := tab 5 5 (fun y x => pix ex_off x y).
Example roundness1_transposition_antisymmetry_refuted :
  roundness1 5 5 ex_off = Fin (-2 # 1) /\ roundness1 5 5 ex_off_T = Fin (-2 # 1).
Proof. vm_compute. auto. Qed.
(* REFUTED: "roundness1 is antisymmetric under a left-right reflection" -- an arm pixel keeps its sign *)
Definition ex_arm : img := tab 5 5 (fun y x => if ((y =? 2) && (x =? 3))%nat then 1 else 0).
Definition ex_arm_F : img := tab 5 5 (fun y x => pix ex_arm y (4 - x)).
Example roundness1_reflection_antisymmetry_refuted :
  roundness1 5 5 ex_arm = Fin (-2 # 1) /\ roundness1 5 5 ex_arm_F = Fin (-2 # 1).
Proof. vm_compute. auto. Qed.
(* REFUTED: "sharpness is invariant under adding a constant to data AND convolved data" *)
Example sharpness_common_offset_refuted :
  ~ feq (sharpness 5 5 ex_mask (tab 5 5 (fun y x => pix ex_data y x + 1)) (tab 5 5 (fun y x => pix ex_conv y x + 1)))
        (sharpness 5 5 ex_mask ex_data ex_conv).
Proof. vm_compute. intros H. discriminate H. Qed.
(* REFUTED: "IRAF flux is additive" -- clipping after sky subtraction is not linear *)
Example iraf_flux_additivity_refuted :
  let d1 := tab 5 5 (fun y x => if ((y =? 2) && (x =? 2))%nat then 12 else 0) in
  let d2 := tab 5 5 (fun y x => if ((y =? 0) && (x =? 0))%nat then 12 else 0) in
  ~ iraf_flux 5 5 ex_mask (tab 5 5 (fun y x => pix d1 y x + pix d2 y x)) ex_conv
    == iraf_flux 5 5 ex_mask d1 ex_conv + iraf_flux 5 5 ex_mask d2 ex_conv.
Proof. vm_compute. intros H. discriminate H. Qed.
