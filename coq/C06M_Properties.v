(* C06M — theorems about the model of the multi-threshold marker logic of
   photutils.segmentation.deblend._SingleSourceDeblender (C06M_Model.v).  Property theorems only; each is
   closed by [exact] of a lemma of C06M_Proofs.
   Notation: a source is a cutout of [npx ny nx] pixels in raster order; [level_fg ... t] is the foreground
   data > t && footprint of level t; [pconn] / [comp_size] / [qualifies] are C04's connected-component notions
   (reflexive-transitive closure of 4-/8-adjacency inside the foreground; exact component size; foreground and
   component size >= npixels); [sorted_q] is the ordering guard on the level list; [ws_ok] says that the
   Section variable [ws] (skimage's watershed) satisfies [ws_spec_b] on every well-formed marker array. *)
From Coq Require Import List Arith ZArith QArith Bool.
From PV Require Import lib.Cases lib.Conn C04_Model C04_Proofs C04_PathModel C04_PathProofs C06M_Model C06M_Proofs.
Import ListNotations.
Close Scope Q_scope.
Local Open Scope nat_scope.

(* per-level segmentation = C04's semantics on the cutout restricted to the footprint: the returned array
   is non-zero exactly on the pixels whose component has >= npixels pixels, two such pixels carry the same
   number iff they are connected, and the code returns it only when >= 2 components are left *)
Theorem level_detection_is_C04_components : forall ny nx conn8 npix fgl img,
  detect_nr ny nx conn8 npix fgl = Some img ->
  length img = npx ny nx /\
  (forall p, p < npx ny nx -> (nth p img 0 <> 0 <-> qualifies ny nx conn8 npix fgl p)) /\
  (forall p q, p < npx ny nx -> q < npx ny nx -> nth p img 0 <> 0 ->
     (nth q img 0 = nth p img 0 <-> pconn ny nx conn8 fgl p q)) /\
  2 <= length (fresh_labels img).
Proof. exact detect_nr_spec. Qed.
Print Assumptions level_detection_is_C04_components.

(* MARKERS.  For a non-decreasing level list: every marker is a WHOLE connected component (4/8 per the
   connectivity), with >= npixels pixels, of the foreground of one of the levels *)
Theorem markers_are_level_components : forall ny nx conn8 npix data smask t0 rest M,
  sorted_q (t0 :: rest) = true ->
  make_markers ny nx conn8 npix data smask t0 rest = Some M ->
  length M = npx ny nx /\
  forall p, p < npx ny nx -> nth p M 0 <> 0 ->
    exists t, In t (t0 :: rest) /\ qualifies ny nx conn8 npix (level_fg ny nx data smask t) p /\
      forall q, q < npx ny nx -> (nth q M 0 = nth p M 0 <-> pconn ny nx conn8 (level_fg ny nx data smask t) p q).
Proof. exact markers_spec_lemma. Qed.
Print Assumptions markers_are_level_components.

(* ... they lie inside the parent footprint *)
Theorem markers_inside_footprint : forall ny nx conn8 npix data smask t0 rest M,
  sorted_q (t0 :: rest) = true -> make_markers ny nx conn8 npix data smask t0 rest = Some M ->
  forall p, nth p M 0 <> 0 -> p < npx ny nx /\ msk smask p = true.
Proof. exact markers_in_footprint_lemma. Qed.
Print Assumptions markers_inside_footprint.

(* ... each has at least npixels pixels *)
Theorem markers_have_npixels : forall ny nx conn8 npix data smask t0 rest M,
  sorted_q (t0 :: rest) = true -> make_markers ny nx conn8 npix data smask t0 rest = Some M ->
  forall p, nth p M 0 <> 0 -> npix <= count_occ Nat.eq_dec M (nth p M 0).
Proof. exact markers_size_lemma. Qed.
Print Assumptions markers_have_npixels.

(* ... each is connected in itself (a path inside the marker joins any two of its pixels) *)
Theorem markers_connected : forall ny nx conn8 npix data smask t0 rest M,
  sorted_q (t0 :: rest) = true -> make_markers ny nx conn8 npix data smask t0 rest = Some M ->
  forall p q, p < npx ny nx -> q < npx ny nx -> nth p M 0 <> 0 -> nth q M 0 = nth p M 0 ->
  pconn ny nx conn8 (map (fun x => nth x M 0 =? nth p M 0) (seq 0 (npx ny nx))) p q.
Proof. exact markers_connected_lemma. Qed.
Print Assumptions markers_connected.

(* ... they are pairwise disjoint (a label array) and, more, two different markers never touch *)
Theorem markers_pairwise_separated : forall ny nx conn8 npix data smask t0 rest M,
  sorted_q (t0 :: rest) = true -> make_markers ny nx conn8 npix data smask t0 rest = Some M ->
  forall p q, nth p M 0 <> 0 -> nth q M 0 <> 0 -> adj nx conn8 p q = true -> nth p M 0 = nth q M 0.
Proof. exact markers_not_adjacent_lemma. Qed.
Print Assumptions markers_pairwise_separated.

(* ... tree structure: a marker found at level t is nested in ONE component (>= npixels) of every lower level *)
Theorem markers_nested_in_lower_levels : forall ny nx conn8 npix data smask t0 rest M,
  sorted_q (t0 :: rest) = true -> make_markers ny nx conn8 npix data smask t0 rest = Some M ->
  forall p, nth p M 0 <> 0 ->
  exists t, In t (t0 :: rest) /\
    forall t', qleb t' t = true ->
      qualifies ny nx conn8 npix (level_fg ny nx data smask t') p /\
      forall q, q < npx ny nx -> nth q M 0 = nth p M 0 -> pconn ny nx conn8 (level_fg ny nx data smask t') p q.
Proof. exact markers_nested_lemma. Qed.
Print Assumptions markers_nested_in_lower_levels.

(* no markers at all  <->  no level has two components of >= npixels pixels ("fewer than 2 markers") *)
Theorem no_markers_iff_no_level_splits : forall ny nx conn8 npix data smask t0 rest,
  make_markers ny nx conn8 npix data smask t0 rest = None <->
  forall t, In t (t0 :: rest) -> detect_nr ny nx conn8 npix (level_fg ny nx data smask t) = None.
Proof. exact markers_none_iff_lemma. Qed.
Print Assumptions no_markers_iff_no_level_splits.

(* after the watershed loop the source is "not deblended" iff the loop ended, the guard passed and exactly one
   label survived the contrast pruning *)
Theorem not_deblended_iff_one_survivor : forall ny nx data smask ws contrast w1 w2 M,
  d_res (finish_source ny nx data smask ws contrast w1 w2 M) = DNone <->
  exists tr w, apply_watershed ny nx data smask ws contrast M = (tr, Some w) /\
    (length w =? npx ny nx) && forallb (fun p => Bool.eqb (msk smask p) (negb (nth p w 0 =? 0))) (seq 0 (npx ny nx)) = true /\
    length (fresh_labels w) = 1.
Proof. exact not_deblended_iff_lemma. Qed.
Print Assumptions not_deblended_iff_one_survivor.

(* WATERSHED LOOP, assuming only [ws_spec_b] of skimage's watershed: the array returned by apply_watershed
   labels footprint pixels only; every label is the label of an original marker, the WHOLE marker carries it
   (markers are never shrunk, also not by the re-flooding after a pruning), hence every child has >= npixels
   pixels.  This discharges C06's hypothesis (W) "child >= npixels" down to the watershed contract. *)
Theorem watershed_children_contain_markers : forall ny nx conn8 npix data smask ws contrast t0 rest M tr w,
  sorted_q (t0 :: rest) = true ->
  make_markers ny nx conn8 npix data smask t0 rest = Some M ->
  ws_ok ny nx conn8 smask ws ->
  apply_watershed ny nx data smask ws contrast M = (tr, Some w) ->
  length w = npx ny nx /\
  (forall p, p < npx ny nx -> nth p w 0 <> 0 -> msk smask p = true) /\
  (forall p, p < npx ny nx -> nth p w 0 <> 0 ->
     npix <= count_occ Nat.eq_dec w (nth p w 0) /\
     exists q, q < npx ny nx /\ nth q M 0 = nth p w 0 /\
       forall x, x < npx ny nx -> nth x M 0 = nth q M 0 -> nth x w 0 = nth p w 0).
Proof. exact raw_children_big_lemma. Qed.
Print Assumptions watershed_children_contain_markers.

(* the children returned by deblend_source (any mode, with or without the two mode switches): they cover
   exactly the footprint (the guard), each has >= npixels pixels *)
Theorem children_partition_footprint_and_have_npixels : forall ny nx conn8 npix data smask ws contrast mode lin nonlin ch,
  (forall t0 rest, lin = t0 :: rest -> sorted_q lin = true) ->
  (forall t0 rest, nonlin = t0 :: rest -> sorted_q nonlin = true) ->
  ws_ok ny nx conn8 smask ws ->
  d_res (deblend_source ny nx conn8 npix data smask ws contrast mode lin nonlin) = DSome ch ->
  length ch = npx ny nx /\
  (forall p, p < npx ny nx -> (nth p ch 0 <> 0 <-> msk smask p = true)) /\
  (forall p, p < npx ny nx -> nth p ch 0 <> 0 -> npix <= count_occ Nat.eq_dec ch (nth p ch 0)).
Proof. exact deblend_children_lemma. Qed.
Print Assumptions children_partition_footprint_and_have_npixels.

(* each child contains a whole marker *)
Theorem children_contain_their_marker : forall ny nx conn8 npix data smask ws contrast t0 rest M w1 w2 ch,
  sorted_q (t0 :: rest) = true ->
  make_markers ny nx conn8 npix data smask t0 rest = Some M ->
  ws_ok ny nx conn8 smask ws ->
  d_res (finish_source ny nx data smask ws contrast w1 w2 M) = DSome ch ->
  length ch = npx ny nx /\
  (forall p, p < npx ny nx -> (nth p ch 0 <> 0 <-> msk smask p = true)) /\
  (forall p, p < npx ny nx -> nth p ch 0 <> 0 -> npix <= count_occ Nat.eq_dec ch (nth p ch 0)) /\
  (forall p, p < npx ny nx -> nth p ch 0 <> 0 ->
     exists q, q < npx ny nx /\ nth q M 0 <> 0 /\
       forall x, x < npx ny nx -> nth x M 0 = nth q M 0 -> nth x ch 0 = nth p ch 0).
Proof. exact finish_children_lemma. Qed.
Print Assumptions children_contain_their_marker.

(* ---------------- examples / witnesses ---------------- *)
Definition qi (z : Z) : Q := inject_Z z.
(* a 1 x 5 source 6 0 2 -3 0, npixels 1, linear levels 0 and 3: two markers; the recorded watershed calls
   satisfy the contract; with contrast = 0 the second marker (flux 2 - 3 + 0 = -1 < 0 * 5) is pruned and the
   source is NOT deblended: "contrast = 0 keeps every marker" is false for sources with negative pixels *)
Definition ex_calls := [([1;0;2;0;0], [1;1;2;2;2]); ([1;1;0;0;0], [1;1;1;1;1])].
Example contrast_zero_keeps_every_marker_refuted :
  make_markers 1 5 true 1 [6;0;2;-3;0]%Z (repeat true 5) (qi 0) [qi 3] = Some [1;0;2;0;0] /\
  forallb (fun mr => markers_wf_b 1 5 (repeat true 5) (fst mr) && ws_spec_b 1 5 true (repeat true 5) (fst mr) (snd mr)) ex_calls = true /\
  levels_ok 1 5 [6;0;2;-3;0]%Z (repeat true 5) 2 [qi 0; qi 3] = true /\
  d_res (deblend_source 1 5 true 1 [6;0;2;-3;0]%Z (repeat true 5) (ws_tab ex_calls) (qi 0) Linear [qi 0; qi 3] []) = DNone.
Proof. vm_compute. auto. Qed.

(* a source with all pixels >= 0 (6 0 2 1 0) and contrast 0: both markers survive, two children *)
Example contrast_zero_nonnegative_source_keeps_both :
  d_res (deblend_source 1 5 true 1 [6;0;2;1;0]%Z (repeat true 5) (ws_tab [([1;0;2;2;0], [1;1;2;2;2])]) (qi 0) Linear [qi 0; qi 3] [])
  = DSome [1;1;2;2;2].
Proof. vm_compute. reflexivity. Qed.

(* contrast = 1 at the per-source level: a zero-sum source whose two children both have zero flux is STILL
   split (0/0 = NaN compares false); deblend_sources never gets there because of its early return for
   contrast == 1 (C06's contrast_one_is_identity) *)
Example contrast_one_zero_sum_source_still_split_witness :
  d_res (deblend_source 1 5 true 1 [2;-2;0;-2;2]%Z (repeat true 5) (ws_tab [([1;0;0;0;2], [1;1;2;2;2])]) (qi 1) Linear [qi 0] [])
  = DSome [1;1;2;2;2].
Proof. vm_compute. reflexivity. Qed.
