(* C06M — theorems about the model of the multi-threshold marker logic of
   photutils.segmentation.deblend._SingleSourceDeblender (C06M_Model.v).  Property theorems only; each is
   closed by [exact] of a lemma of C06M_Proofs.
   Notation: a source is a cutout of [npx ny nx] pixels in raster order; [level_fg ... t] is the foreground
   data > t && footprint of level t; [pconn] / [comp_size] / [qualifies] are C04's connected-component notions
   (reflexive-transitive closure of 4-/8-adjacency inside the foreground; exact component size; foreground and
   component size >= npixels); [sorted_q] is the ordering guard on the level list; [ws_ok] says that the
   Section variable [ws] (skimage's watershed) satisfies [ws_spec_b] on every well-formed marker array. *)
From Coq Require Import List Arith ZArith QArith Bool.
From PV Require Import lib.Cases lib.Conn C04_Model C04_Proofs C04_PathModel C04_PathProofs C06M_Model C06M_Proofs C06M_Link.
From PV Require C06_Model C06_Proofs.
Import ListNotations.
Close Scope Q_scope.
Local Open Scope nat_scope.

(* per-level segmentation = C04's semantics on the cutout restricted to the footprint: the returned array
   is non-zero exactly on the pixels whose component has >= npixels pixels, two such pixels carry the same
   number iff they are connected, and the code returns it only when >= 2 components are left *)
Theorem level_detection_is_C04_components : forall ny nx conn8 npix fgl img,
  detect_nr ny nx conn8 npix fgl = Some img ->
  length img = npx ny nx /\
  (forall p, p < npx ny nx -> (nth p img 0 <> 0 <-> qualifies ny nx conn8 npix fgl p)) /\
  (forall p q, p < npx ny nx -> q < npx ny nx -> nth p img 0 <> 0 ->
     (nth q img 0 = nth p img 0 <-> pconn ny nx conn8 fgl p q)) /\
  2 <= length (fresh_labels img).
Proof. exact detect_nr_spec. Qed.
Print Assumptions level_detection_is_C04_components.

(* MARKERS.  For a non-decreasing level list: every marker is a WHOLE connected component (4/8 per the
   connectivity), with >= npixels pixels, of the foreground of one of the levels *)
Theorem markers_are_level_components : forall ny nx conn8 npix data smask t0 rest M,
  sorted_q (t0 :: rest) = true ->
  make_markers ny nx conn8 npix data smask t0 rest = Some M ->
  length M = npx ny nx /\
  forall p, p < npx ny nx -> nth p M 0 <> 0 ->
    exists t, In t (t0 :: rest) /\ qualifies ny nx conn8 npix (level_fg ny nx data smask t) p /\
      forall q, q < npx ny nx -> (nth q M 0 = nth p M 0 <-> pconn ny nx conn8 (level_fg ny nx data smask t) p q).
Proof. exact markers_spec_lemma. Qed.
Print Assumptions markers_are_level_components.

(* ... they lie inside the parent footprint *)
Theorem markers_inside_footprint : forall ny nx conn8 npix data smask t0 rest M,
  sorted_q (t0 :: rest) = true -> make_markers ny nx conn8 npix data smask t0 rest = Some M ->
  forall p, nth p M 0 <> 0 -> p < npx ny nx /\ msk smask p = true.
Proof. exact markers_in_footprint_lemma. Qed.
Print Assumptions markers_inside_footprint.

(* ... each has at least npixels pixels *)
Theorem markers_have_npixels : forall ny nx conn8 npix data smask t0 rest M,
  sorted_q (t0 :: rest) = true -> make_markers ny nx conn8 npix data smask t0 rest = Some M ->
  forall p, nth p M 0 <> 0 -> npix <= count_occ Nat.eq_dec M (nth p M 0).
Proof. exact markers_size_lemma. Qed.
Print Assumptions markers_have_npixels.

(* ... each is connected in itself (a path inside the marker joins any two of its pixels) *)
Theorem markers_connected : forall ny nx conn8 npix data smask t0 rest M,
  sorted_q (t0 :: rest) = true -> make_markers ny nx conn8 npix data smask t0 rest = Some M ->
  forall p q, p < npx ny nx -> q < npx ny nx -> nth p M 0 <> 0 -> nth q M 0 = nth p M 0 ->
  pconn ny nx conn8 (map (fun x => nth x M 0 =? nth p M 0) (seq 0 (npx ny nx))) p q.
Proof. exact markers_connected_lemma. Qed.
Print Assumptions markers_connected.

(* ... they are pairwise disjoint (a label array) and, more, two different markers never touch *)
Theorem markers_pairwise_separated : forall ny nx conn8 npix data smask t0 rest M,
  sorted_q (t0 :: rest) = true -> make_markers ny nx conn8 npix data smask t0 rest = Some M ->
  forall p q, nth p M 0 <> 0 -> nth q M 0 <> 0 -> adj nx conn8 p q = true -> nth p M 0 = nth q M 0.
Proof. exact markers_not_adjacent_lemma. Qed.
Print Assumptions markers_pairwise_separated.

(* ... tree structure: a marker found at level t is nested in ONE component (>= npixels) of every lower level *)
Theorem markers_nested_in_lower_levels : forall ny nx conn8 npix data smask t0 rest M,
  sorted_q (t0 :: rest) = true -> make_markers ny nx conn8 npix data smask t0 rest = Some M ->
  forall p, nth p M 0 <> 0 ->
  exists t, In t (t0 :: rest) /\
    forall t', qleb t' t = true ->
      qualifies ny nx conn8 npix (level_fg ny nx data smask t') p /\
      forall q, q < npx ny nx -> nth q M 0 = nth p M 0 -> pconn ny nx conn8 (level_fg ny nx data smask t') p q.
Proof. exact markers_nested_lemma. Qed.
Print Assumptions markers_nested_in_lower_levels.

(* no markers at all  <->  no level has two components of >= npixels pixels ("fewer than 2 markers") *)
Theorem no_markers_iff_no_level_splits : forall ny nx conn8 npix data smask t0 rest,
  make_markers ny nx conn8 npix data smask t0 rest = None <->
  forall t, In t (t0 :: rest) -> detect_nr ny nx conn8 npix (level_fg ny nx data smask t) = None.
Proof. exact markers_none_iff_lemma. Qed.
Print Assumptions no_markers_iff_no_level_splits.

(* after the watershed loop the source is "not deblended" iff the loop ended, the guard passed and exactly one
   label survived the contrast pruning *)
Theorem not_deblended_iff_one_survivor : forall ny nx data smask ws contrast w1 w2 M,
  d_res (finish_source ny nx data smask ws contrast w1 w2 M) = DNone <->
  exists tr w, apply_watershed ny nx data smask ws contrast M = (tr, Some w) /\
    (length w =? npx ny nx) && forallb (fun p => Bool.eqb (msk smask p) (negb (nth p w 0 =? 0))) (seq 0 (npx ny nx)) = true /\
    length (fresh_labels w) = 1.
Proof. exact not_deblended_iff_lemma. Qed.
Print Assumptions not_deblended_iff_one_survivor.

(* WATERSHED LOOP, assuming only [ws_spec_b] of skimage's watershed: the array returned by apply_watershed
   labels footprint pixels only; every label is the label of an original marker, the WHOLE marker carries it
   (markers are never shrunk, also not by the re-flooding after a pruning), hence every child has >= npixels
   pixels.  This discharges C06's hypothesis (W) "child >= npixels" down to the watershed contract. *)
Theorem watershed_children_contain_markers : forall ny nx conn8 npix data smask ws contrast t0 rest M tr w,
  sorted_q (t0 :: rest) = true ->
  make_markers ny nx conn8 npix data smask t0 rest = Some M ->
  ws_ok ny nx conn8 smask ws ->
  apply_watershed ny nx data smask ws contrast M = (tr, Some w) ->
  length w = npx ny nx /\
  (forall p, p < npx ny nx -> nth p w 0 <> 0 -> msk smask p = true) /\
  (forall p, p < npx ny nx -> nth p w 0 <> 0 ->
     npix <= count_occ Nat.eq_dec w (nth p w 0) /\
     exists q, q < npx ny nx /\ nth q M 0 = nth p w 0 /\
       forall x, x < npx ny nx -> nth x M 0 = nth q M 0 -> nth x w 0 = nth p w 0).
Proof. exact raw_children_big_lemma. Qed.
Print Assumptions watershed_children_contain_markers.

(* the children returned by deblend_source (any mode, with or without the two mode switches): they cover
   exactly the footprint (the guard), each has >= npixels pixels *)
Theorem children_partition_footprint_and_have_npixels : forall ny nx conn8 npix data smask ws contrast mode lin nonlin ch,
  (forall t0 rest, lin = t0 :: rest -> sorted_q lin = true) ->
  (forall t0 rest, nonlin = t0 :: rest -> sorted_q nonlin = true) ->
  ws_ok ny nx conn8 smask ws ->
  d_res (deblend_source ny nx conn8 npix data smask ws contrast mode lin nonlin) = DSome ch ->
  length ch = npx ny nx /\
  (forall p, p < npx ny nx -> (nth p ch 0 <> 0 <-> msk smask p = true)) /\
  (forall p, p < npx ny nx -> nth p ch 0 <> 0 -> npix <= count_occ Nat.eq_dec ch (nth p ch 0)).
Proof. exact deblend_children_lemma. Qed.
Print Assumptions children_partition_footprint_and_have_npixels.

(* each child contains a whole marker *)
Theorem children_contain_their_marker : forall ny nx conn8 npix data smask ws contrast t0 rest M w1 w2 ch,
  sorted_q (t0 :: rest) = true ->
  make_markers ny nx conn8 npix data smask t0 rest = Some M ->
  ws_ok ny nx conn8 smask ws ->
  d_res (finish_source ny nx data smask ws contrast w1 w2 M) = DSome ch ->
  length ch = npx ny nx /\
  (forall p, p < npx ny nx -> (nth p ch 0 <> 0 <-> msk smask p = true)) /\
  (forall p, p < npx ny nx -> nth p ch 0 <> 0 -> npix <= count_occ Nat.eq_dec ch (nth p ch 0)) /\
  (forall p, p < npx ny nx -> nth p ch 0 <> 0 ->
     exists q, q < npx ny nx /\ nth q M 0 <> 0 /\
       forall x, x < npx ny nx -> nth x M 0 = nth q M 0 -> nth x ch 0 = nth p ch 0).
Proof. exact finish_children_lemma. Qed.
Print Assumptions children_contain_their_marker.

(* whenever make_markers returns an array it carries at least two different marker labels *)
Theorem markers_at_least_two : forall ny nx conn8 npix data smask t0 rest M,
  sorted_q (t0 :: rest) = true ->
  make_markers ny nx conn8 npix data smask t0 rest = Some M ->
  2 <= length (fresh_labels M).
Proof. exact markers_two_lemma. Qed.
Print Assumptions markers_at_least_two.

(* THE CONTRAST RULE, exactly as coded: a child is pruned-eligible iff flux / source_sum < contrast, i.e.
   flux < contrast * source_sum when source_sum > 0, the REVERSED inequality when source_sum < 0, and
   flux < 0 when source_sum = 0 (0/0 = NaN and +inf compare false) *)
Theorem contrast_rule_positive_sum : forall flux ssum c, (0 < ssum)%Z ->
  (fv_ltq (frac_of flux ssum) c = true <-> (inject_Z flux < c * inject_Z ssum)%Q).
Proof. exact contrast_rule_pos_lemma. Qed.
Print Assumptions contrast_rule_positive_sum.
Theorem contrast_rule_negative_sum : forall flux ssum c, (ssum < 0)%Z ->
  (fv_ltq (frac_of flux ssum) c = true <-> (c * inject_Z ssum < inject_Z flux)%Q).
Proof. exact contrast_rule_neg_lemma. Qed.
Print Assumptions contrast_rule_negative_sum.
Theorem contrast_rule_zero_sum : forall flux c, (0 <= Qnum c)%Z ->
  (fv_ltq (frac_of flux 0) c = true <-> (flux < 0)%Z).
Proof. exact contrast_rule_zero_lemma. Qed.
Print Assumptions contrast_rule_zero_sum.

(* contrast = 1 at the per-source level (for ANY watershed, no contract needed): when source_sum <> 0 the
   source is never split -- the footprint guard makes the children's fluxes add up to source_sum, so two or
   more fractions cannot all be >= 1.  (deblend_sources itself returns early for contrast == 1: C06's
   contrast_one_is_identity.)  The unconditional form is false: see
   contrast_one_zero_sum_source_still_split_witness below. *)
Theorem contrast_one_nonzero_sum_never_splits : forall ny nx data smask ws contrast w1 w2 M ch,
  Qnum contrast = Zpos (Qden contrast) -> ssum ny nx data smask <> 0%Z ->
  d_res (finish_source ny nx data smask ws contrast w1 w2 M) = DSome ch -> False.
Proof. exact contrast_one_lemma. Qed.
Print Assumptions contrast_one_nonzero_sum_never_splits.

(* the array returned by apply_watershed inside deblend_source (C06_Model's [raw]): footprint pixels only,
   every label on >= npixels pixels *)
Theorem watershed_output_labels_have_npixels : forall ny nx conn8 npix data smask ws contrast mode lin nonlin w,
  (forall t0 rest, lin = t0 :: rest -> sorted_q lin = true) ->
  (forall t0 rest, nonlin = t0 :: rest -> sorted_q nonlin = true) ->
  ws_ok ny nx conn8 smask ws ->
  d_raw (deblend_source ny nx conn8 npix data smask ws contrast mode lin nonlin) = Some w ->
  length w = npx ny nx /\
  (forall p, p < npx ny nx -> nth p w 0 <> 0 -> msk smask p = true) /\
  (forall p, p < npx ny nx -> nth p w 0 <> 0 -> npix <= count_occ Nat.eq_dec w (nth p w 0)).
Proof. exact deblend_raw_lemma. Qed.
Print Assumptions watershed_output_labels_have_npixels.

(* LINK INTO C06.  [raw_model l] = the modelled per-source deblender run on the tight cutout of parent l
   (data[slc], segm[slc] == l flattened in raster order; flat index p <-> pixel (y0 + p / w, x0 + p mod w)),
   in the 2-D form C06_Model expects.  It satisfies C06's hypothesis (W) [watershed_big] given only the
   watershed contract and the ordering guard ... *)
Theorem c06_watershed_hypothesis_discharged :
  forall ny nx seg dat2 conn8 npix contrast mode (lin nonlin : nat -> list Q) (ws : nat -> list nat -> list nat),
  (forall l t0 rest, lin l = t0 :: rest -> sorted_q (lin l) = true) ->
  (forall l t0 rest, nonlin l = t0 :: rest -> sorted_q (nonlin l) = true) ->
  (forall l, ws_ok (cut_h ny nx seg l) (cut_w ny nx seg l) conn8 (cut_mask ny nx seg l) (ws l)) ->
  forall l, C06_Proofs.watershed_big ny nx seg npix l
              (raw_model ny nx seg dat2 conn8 npix contrast mode lin nonlin ws l).
Proof. exact watershed_big_of_model. Qed.
Print Assumptions c06_watershed_hypothesis_discharged.

(* ... hence C06's clause "each child >= npixels" (C06_Properties.child_size_ge_npixels_partial) holds for
   deblend_sources running the modelled deblender, without hypothesis (W) *)
Theorem c06_children_ge_npixels_from_watershed_contract :
  forall ny nx seg dat2 conn8 npix contrast mode (lin nonlin : nat -> list Q) (ws : nat -> list nat -> list nat),
  (forall l t0 rest, lin l = t0 :: rest -> sorted_q (lin l) = true) ->
  (forall l t0 rest, nonlin l = t0 :: rest -> sorted_q (nonlin l) = true) ->
  (forall l, ws_ok (cut_h ny nx seg l) (cut_w ny nx seg l) conn8 (cut_mask ny nx seg l) (ws l)) ->
  forall warns inmap labels_arg nlevels cn cd mode_ok relabel dtmax nproc order r,
  C06_Model.deblend_sources ny nx seg (raw_model ny nx seg dat2 conn8 npix contrast mode lin nonlin ws)
    warns inmap npix labels_arg nlevels (cn, cd) mode_ok relabel dtmax nproc order = C06_Model.Ok r ->
  cn <> cd -> C06_Proofs.valid_schedule ny nx seg npix labels_arg order ->
  forall p cs c, In (p, cs) (C06_Model.r_dmap r) -> In c cs ->
    exists ps : list (nat * nat), NoDup ps /\ npix <= length ps /\
      forall y x, In (y, x) ps -> y < ny /\ x < nx /\ C06_Model.at2 (C06_Model.r_data r) y x = c.
Proof. exact c06_child_size_lemma. Qed.
Print Assumptions c06_children_ge_npixels_from_watershed_contract.

(* ---------------- examples / witnesses ---------------- *)
Definition qi (z : Z) : Q := inject_Z z.
(* a 1 x 5 source 6 0 2 -3 0, npixels 1, linear levels 0 and 3: two markers; the recorded watershed calls
   satisfy the contract; with contrast = 0 the second marker (flux 2 - 3 + 0 = -1 < 0 * 5) is pruned and the
   source is NOT deblended: "contrast = 0 keeps every marker" is false for sources with negative pixels *)
Definition ex_calls := [([1;0;2;0;0], [1;1;2;2;2]); ([1;1;0;0;0], [1;1;1;1;1])].
Example contrast_zero_keeps_every_marker_refuted :
  make_markers 1 5 true 1 [6;0;2;-3;0]%Z (repeat true 5) (qi 0) [qi 3] = Some [1;0;2;0;0] /\
  forallb (fun mr => markers_wf_b 1 5 (repeat true 5) (fst mr) && ws_spec_b 1 5 true (repeat true 5) (fst mr) (snd mr)) ex_calls = true /\
  levels_ok 1 5 [6;0;2;-3;0]%Z (repeat true 5) 2 [qi 0; qi 3] = true /\
  d_res (deblend_source 1 5 true 1 [6;0;2;-3;0]%Z (repeat true 5) (ws_tab ex_calls) (qi 0) Linear [qi 0; qi 3] []) = DNone.
Proof. vm_compute. auto. Qed.

(* a source with all pixels >= 0 (6 0 2 1 0) and contrast 0: both markers survive, two children *)
Example contrast_zero_nonnegative_source_keeps_both :
  d_res (deblend_source 1 5 true 1 [6;0;2;1;0]%Z (repeat true 5) (ws_tab [([1;0;2;2;0], [1;1;2;2;2])]) (qi 0) Linear [qi 0; qi 3] [])
  = DSome [1;1;2;2;2].
Proof. vm_compute. reflexivity. Qed.

(* contrast = 1 at the per-source level: a zero-sum source whose two children both have zero flux is STILL
   split (0/0 = NaN compares false); deblend_sources never gets there because of its early return for
   contrast == 1 (C06's contrast_one_is_identity) *)
Example contrast_one_zero_sum_source_still_split_witness :
  d_res (deblend_source 1 5 true 1 [2;-2;0;-2;2]%Z (repeat true 5) (ws_tab [([1;0;0;0;2], [1;1;2;2;2])]) (qi 1) Linear [qi 0] [])
  = DSome [1;1;2;2;2].
Proof. vm_compute. reflexivity. Qed.
