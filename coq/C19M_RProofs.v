(* C19M (real-number part, A2) -- the 'exact' weights of concentric circles are monotone in the
   radius.  On top of C01R (read-only import): the exact circle kernel returns
   [rect_disc_area] = RInt (section_len ymin ymax r) xmin xmax (C01R_Properties.single_exact_is_area);
   the integrand is monotone in r at every abscissa, hence so is the integral ([RInt_le]).
   Uses the Coq standard library reals and Coquelicot: the axioms of the standard-library reals
   are listed by Print Assumptions in C19M_Properties.v.  No axiom is declared here. *)
From Coq Require Import Reals Lra.
Set Warnings "-ambiguous-paths".
From Coquelicot Require Import Coquelicot.
Set Warnings "ambiguous-paths".
From PV Require Import C01R_Model C01R_Proofs.
Open Scope R_scope.

Lemma half_chord_monotone r1 r2 x : 0 <= r1 -> r1 <= r2 -> half_chord r1 x <= half_chord r2 x.
Proof.
  intros H0 H1. unfold half_chord. apply sqrt_le_1_alt. apply Rle_max_compat_l.
  assert (r1 ^ 2 <= r2 ^ 2) by (apply pow_incr; lra). lra.
Qed.

(* the vertical section of (strip ymin..ymax) /\ disc only grows with the radius *)
Lemma section_len_monotone ymin ymax r1 r2 x :
  0 <= r1 -> r1 <= r2 -> section_len ymin ymax r1 x <= section_len ymin ymax r2 x.
Proof.
  intros H0 H1. unfold section_len.
  pose proof (half_chord_monotone r1 r2 x H0 H1) as Hh.
  apply Rle_max_compat_l.
  pose proof (Rle_min_compat_l _ _ ymax Hh) as Hmin.
  assert (Hneg : - half_chord r2 x <= - half_chord r1 x) by lra.
  pose proof (Rle_max_compat_l _ _ ymin Hneg) as Hmax.
  lra.
Qed.

(* A2: the area of rectangle /\ disc is monotone in the radius (any rectangle with xmin <= xmax) *)
Lemma rect_disc_area_monotone xmin ymin xmax ymax r1 r2 :
  0 <= r1 -> r1 <= r2 -> xmin <= xmax ->
  rect_disc_area xmin ymin xmax ymax r1 <= rect_disc_area xmin ymin xmax ymax r2.
Proof.
  intros H0 H1 Hx. unfold rect_disc_area.
  apply RInt_le; [exact Hx|apply ex_RInt_section_len|apply ex_RInt_section_len|].
  intros x _. apply section_len_monotone; assumption.
Qed.

(* hence the value returned by circular_overlap_single_exact ... *)
Lemma exact_kernel_monotone xmin ymin xmax ymax r1 r2 v1 v2 :
  0 <= r1 -> r1 <= r2 -> xmin <= xmax -> ymin <= ymax ->
  circular_overlap_single_exact single_exact_fuel xmin ymin xmax ymax r1 = Some v1 ->
  circular_overlap_single_exact single_exact_fuel xmin ymin xmax ymax r2 = Some v2 ->
  v1 <= v2.
Proof.
  intros H0 H1 Hx Hy E1 E2.
  rewrite single_exact_is_area in E1 by lra. rewrite single_exact_is_area in E2 by lra.
  injection E1 as <-. injection E2 as <-. apply rect_disc_area_monotone; assumption.
Qed.

(* ... and the weight frac[j,i] = single_exact(...) / (dx * dy) stored by circular_overlap_grid *)
Lemma exact_weight_monotone xmin ymin xmax ymax r1 r2 v1 v2 :
  0 <= r1 -> r1 <= r2 -> xmin < xmax -> ymin < ymax ->
  circular_overlap_single_exact single_exact_fuel xmin ymin xmax ymax r1 = Some v1 ->
  circular_overlap_single_exact single_exact_fuel xmin ymin xmax ymax r2 = Some v2 ->
  v1 / ((xmax - xmin) * (ymax - ymin)) <= v2 / ((xmax - xmin) * (ymax - ymin)).
Proof.
  intros H0 H1 Hx Hy E1 E2.
  pose proof (exact_kernel_monotone xmin ymin xmax ymax r1 r2 v1 v2 H0 H1
                (Rlt_le _ _ Hx) (Rlt_le _ _ Hy) E1 E2) as Hv.
  assert (P : 0 < (xmax - xmin) * (ymax - ymin)) by (apply Rmult_lt_0_compat; lra).
  unfold Rdiv. apply Rmult_le_compat_r; [|exact Hv]. left. apply Rinv_0_lt_compat, P.
Qed.

(* total form: both calls return, and the returned weights compare *)
Lemma exact_weight_monotone_total xmin ymin xmax ymax r1 r2 :
  0 <= r1 -> r1 <= r2 -> xmin < xmax -> ymin < ymax ->
  exists v1 v2,
    circular_overlap_single_exact single_exact_fuel xmin ymin xmax ymax r1 = Some v1 /\
    circular_overlap_single_exact single_exact_fuel xmin ymin xmax ymax r2 = Some v2 /\
    0 <= v1 / ((xmax - xmin) * (ymax - ymin)) <= v2 / ((xmax - xmin) * (ymax - ymin)) /\
    v2 / ((xmax - xmin) * (ymax - ymin)) <= 1.
Proof.
  intros H0 H1 Hx Hy.
  exists (rect_disc_area xmin ymin xmax ymax r1), (rect_disc_area xmin ymin xmax ymax r2).
  assert (E1 := single_exact_is_area xmin ymin xmax ymax r1 H0 (Rlt_le _ _ Hx) (Rlt_le _ _ Hy)).
  assert (E2 := single_exact_is_area xmin ymin xmax ymax r2 ltac:(lra) (Rlt_le _ _ Hx) (Rlt_le _ _ Hy)).
  split; [exact E1|]. split; [exact E2|].
  destruct (exact_weight_is_area_fraction xmin ymin xmax ymax r1 _ H0 Hx Hy E1) as [_ [L1 _]].
  destruct (exact_weight_is_area_fraction xmin ymin xmax ymax r2 _ ltac:(lra) Hx Hy E2) as [_ [_ U2]].
  split; [split; [exact L1|]|exact U2].
  apply (exact_weight_monotone xmin ymin xmax ymax r1 r2); assumption.
Qed.

(* strictness is not claimed (and false in general: a pixel wholly inside the smaller disc has
   weight 1 for both radii).  Sanity that the monotone quantity is not constant: the unit pixel
   [4,5] x [4,5] has exact weight 0 in the disc of radius 5 and 1 in the disc of radius 8 *)
Lemma exact_weight_instance :
  rect_disc_area 4 4 5 5 5 = 0 /\ rect_disc_area 4 4 5 5 8 = 1.
Proof.
  split.
  - rewrite <- area_spec_is_rect_disc_area by lra. symmetry. apply core_case_outside; lra.
  - rewrite <- area_spec_is_rect_disc_area by lra.
    rewrite <- (core_case_inside 4 4 5 5 8) by lra. ring.
Qed.
