(* C10 — "no public call modifies the arrays, tables or models passed to it".

   Array-effects IR, its heap semantics and the may-alias ("taint") analysis.

   The Python sources of the scoped photutils functions are translated on every run
   by harness/c10_translate.py (fail-closed, Python `ast`) into terms of type [stmt];
   [check_case] evaluates the analysis on them (vm_compute).  C10_Proofs.v proves,
   once and for all programs, that a program accepted by the analysis never writes
   to a buffer that was reachable from a tainted (= caller-supplied) variable.

   Values.  A Python value (ndarray, MaskedArray, Quantity, NDData, list of arrays,
   object with array attributes ...) is abstracted by the finite set (list) of
   *buffers* that can be written through it.  A view shares the buffers of its base;
   a copy owns one new buffer; a composite (MaskedArray(data, mask=m), a tuple, an
   object storing its arguments) reaches the buffers of all its parts.
   The heap is a version counter per buffer: every write through a value bumps the
   version of every buffer the value reaches, so "bit-for-bit unchanged" is
   over-approximated by "version unchanged".

   Control.  Big-step semantics with outcomes (normal, return v, exception, break,
   continue).  Branches, the number of loop iterations and [EMaybeView] (numpy calls
   that return either a view or a copy depending on dtype/contiguity, e.g.
   np.asarray(x, dtype=..), reshape, ravel, x[index]) are non-deterministic, and
   ANY statement may raise (rule [XExn]).  [Scope x b] is an inlined call of a
   photutils-internal function whose body is [b] and whose result is bound to [x];
   [Call x muts als] is a call of an external (numpy/astropy/scipy) function given
   by its summary: it writes through the variables [muts] and its result may reach
   the buffers of the variables [als] and one new buffer. *)
From Coq Require Import List Arith NArith Bool.
Import ListNotations.

(* variables are binary numbers (the translated programs have a few thousand of them and the
   analysis compares them all the time under vm_compute); buffers stay unary, they are never
   computed with *)
Definition var := N.
Definition buf := nat.

Inductive expr :=
| EFresh                       (* a new array: copy(), astype(), arithmetic, np.where, ... *)
| EScalar                      (* no buffer at all: shapes, floats, None, strings *)
| EView (x : var)              (* certainly shares: basic slice, .T, .value, .data, .mask *)
| EMaybeView (x : var)         (* view or copy: asarray(dtype=), reshape, ravel, x[idx] *)
| EJoin (xs : list var).       (* new composite reaching all of xs: tuples, MaskedArray(d, mask=m) *)

Inductive stmt :=
| Skip
| Seq (s1 s2 : stmt)
| Assign (x : var) (e : expr)
| InPlace (x : var)                      (* x[...] = v, x op= v, x.sort(), np.copyto(x, ..), out=x *)
| Call (x : var) (muts als : list var)   (* external call by summary *)
| If (s1 s2 : stmt)
| Loop (b : stmt)
| Try (b h : stmt)
| Scope (x : var) (b : stmt)             (* x := result of the inlined function body b *)
| Return (e : expr)
| Raise | Break | Continue.

(* ---------------- concrete semantics ---------------- *)
Record cstate := { st : var -> list buf; ver : buf -> nat; next : buf }.

Definition mem (b : nat) (l : list nat) : bool := existsb (Nat.eqb b) l.
Definition memv (x : var) (l : list var) : bool := existsb (N.eqb x) l.
Definition upd (s : var -> list buf) (x : var) (v : list buf) : var -> list buf :=
  fun y => if N.eqb y x then v else s y.
Definition bump (h : buf -> nat) (bs : list buf) : buf -> nat :=
  fun b => if mem b bs then S (h b) else h b.
Definition reach (c : cstate) (xs : list var) : list buf := flat_map (st c) xs.
Definition bind (c : cstate) (x : var) (v : list buf) : cstate :=
  {| st := upd (st c) x v; ver := ver c; next := next c |}.

Inductive eval (c : cstate) : expr -> list buf -> buf -> Prop :=
| EvFresh : eval c EFresh [next c] (S (next c))
| EvScalar : eval c EScalar [] (next c)
| EvView x : eval c (EView x) (st c x) (next c)
| EvMaybeV x : eval c (EMaybeView x) (st c x) (next c)
| EvMaybeF x : eval c (EMaybeView x) [next c] (S (next c))
| EvJoin xs : eval c (EJoin xs) (next c :: reach c xs) (S (next c)).

Inductive outcome := ONorm | ORet (v : list buf) | OExn | OBrk | OCnt.

Inductive exec : cstate -> stmt -> outcome -> cstate -> Prop :=
| XExn c s : exec c s OExn c
| XSkip c : exec c Skip ONorm c
| XSeqN c s1 s2 c1 o c2 :
    exec c s1 ONorm c1 -> exec c1 s2 o c2 -> exec c (Seq s1 s2) o c2
| XSeqA c s1 s2 o c1 :
    exec c s1 o c1 -> o <> ONorm -> exec c (Seq s1 s2) o c1
| XAssign c x e v n :
    eval c e v n ->
    exec c (Assign x e) ONorm {| st := upd (st c) x v; ver := ver c; next := n |}
| XInPlace c x :
    exec c (InPlace x) ONorm {| st := st c; ver := bump (ver c) (st c x); next := next c |}
| XCall c x muts als v :
    (forall b, In b v -> b = next c \/ In b (reach c als)) ->
    exec c (Call x muts als) ONorm
         {| st := upd (st c) x v; ver := bump (ver c) (reach c muts); next := S (next c) |}
| XIfL c s1 s2 o c1 : exec c s1 o c1 -> exec c (If s1 s2) o c1
| XIfR c s1 s2 o c1 : exec c s2 o c1 -> exec c (If s1 s2) o c1
| XLoop0 c b : exec c (Loop b) ONorm c
| XLoopN c b c1 o c2 :
    exec c b ONorm c1 -> exec c1 (Loop b) o c2 -> exec c (Loop b) o c2
| XLoopC c b c1 o c2 :
    exec c b OCnt c1 -> exec c1 (Loop b) o c2 -> exec c (Loop b) o c2
| XLoopB c b c1 : exec c b OBrk c1 -> exec c (Loop b) ONorm c1
| XLoopR c b v c1 : exec c b (ORet v) c1 -> exec c (Loop b) (ORet v) c1
| XLoopE c b c1 : exec c b OExn c1 -> exec c (Loop b) OExn c1
| XTryOk c b h o c1 : exec c b o c1 -> o <> OExn -> exec c (Try b h) o c1
| XTryH c b h c1 o c2 : exec c b OExn c1 -> exec c1 h o c2 -> exec c (Try b h) o c2
| XScopeR c x b v c1 : exec c b (ORet v) c1 -> exec c (Scope x b) ONorm (bind c1 x v)
| XScopeN c x b c1 : exec c b ONorm c1 -> exec c (Scope x b) ONorm (bind c1 x [])
| XScopeE c x b c1 : exec c b OExn c1 -> exec c (Scope x b) OExn c1
| XReturn c e v n :
    eval c e v n -> exec c (Return e) (ORet v) {| st := st c; ver := ver c; next := n |}
| XRaise c : exec c Raise OExn c
| XBreak c : exec c Break OBrk c
| XContinue c : exec c Continue OCnt c.

(* ---------------- the analysis ---------------- *)
(* abstract state = the set of variables that MAY reach a protected buffer *)
Definition astate := list var.
Definition aget (a : astate) (x : var) : bool := memv x a.
Definition aset (a : astate) (x : var) (t : bool) : astate :=
  if t then x :: a else filter (fun y => negb (N.eqb y x)) a.
Definition ajoin (a b : astate) : astate := a ++ filter (fun x => negb (memv x a)) b.
Definition aleb (a b : astate) : bool := forallb (fun x => memv x b) a.

Definition aeval (a : astate) (e : expr) : bool :=
  match e with
  | EFresh | EScalar => false
  | EView x | EMaybeView x => aget a x
  | EJoin xs => existsb (aget a) xs
  end.

(* a_norm: state on normal completion; a_acc: join of the states at every program
   point passed so far in the current scope (covers the state at a raise / return);
   a_brk / a_cnt: join of the states at break / continue statements of the current
   loop; a_ret: may a returned value reach a protected buffer *)
Record ares := { a_norm : astate; a_acc : astate; a_brk : astate; a_cnt : astate; a_ret : bool }.

(* strong update of x on the normal path; the accumulator only needs x added when x becomes
   tainted, because a_norm is always included in a_acc (invariant wfA of the proofs) *)
Definition set_norm (A : ares) (x : var) (t : bool) : ares :=
  {| a_norm := aset (a_norm A) x t; a_acc := if t then x :: a_acc A else a_acc A;
     a_brk := a_brk A; a_cnt := a_cnt A; a_ret := a_ret A |}.

Section Analyze.
Variable fuel : nat.

(* invariant search for a loop whose body transfer function is [body]: Kleene iteration
   from the entry state, at most k rounds (out of fuel = rejection) *)
Fixpoint loop_it (body : ares -> option ares) (A : ares) (k : nat) (inv : astate) {struct k}
  : option ares :=
  match k with
  | 0 => None
  | S k' =>
      match body {| a_norm := inv; a_acc := ajoin (a_acc A) inv; a_brk := [];
                    a_cnt := []; a_ret := a_ret A |} with
      | None => None
      | Some B =>
          let back := ajoin (a_norm B) (a_cnt B) in
          if aleb back inv
          then Some {| a_norm := ajoin inv (a_brk B); a_acc := ajoin (a_acc B) (a_brk B);
                       a_brk := a_brk A; a_cnt := a_cnt A; a_ret := a_ret B |}
          else loop_it body A k' (ajoin inv back)
      end
  end.

Fixpoint analyze (s : stmt) (A : ares) {struct s} : option ares :=
  match s with
  | Skip => Some A
  | Seq s1 s2 => match analyze s1 A with Some A1 => analyze s2 A1 | None => None end
  | Assign x e => Some (set_norm A x (aeval (a_norm A) e))
  | InPlace x => if aget (a_norm A) x then None else Some A
  | Call x muts als =>
      if existsb (aget (a_norm A)) muts then None
      else Some (set_norm A x (existsb (aget (a_norm A)) als))
  | If s1 s2 =>
      match analyze s1 A with
      | None => None
      | Some A1 =>
          match analyze s2 {| a_norm := a_norm A; a_acc := a_acc A1; a_brk := a_brk A1;
                              a_cnt := a_cnt A1; a_ret := a_ret A1 |} with
          | None => None
          | Some A2 => Some {| a_norm := ajoin (a_norm A1) (a_norm A2); a_acc := a_acc A2;
                               a_brk := a_brk A2; a_cnt := a_cnt A2; a_ret := a_ret A2 |}
          end
      end
  | Loop b => loop_it (analyze b) A fuel (a_norm A)
  | Try b h =>
      match analyze b {| a_norm := a_norm A; a_acc := a_norm A; a_brk := a_brk A;
                         a_cnt := a_cnt A; a_ret := a_ret A |} with
      | None => None
      | Some A1 =>
          match analyze h {| a_norm := a_acc A1; a_acc := a_acc A1; a_brk := a_brk A1;
                             a_cnt := a_cnt A1; a_ret := a_ret A1 |} with
          | None => None
          | Some A2 => Some {| a_norm := ajoin (a_norm A1) (a_norm A2);
                               a_acc := ajoin (a_acc A) (a_acc A2);
                               a_brk := a_brk A2; a_cnt := a_cnt A2; a_ret := a_ret A2 |}
          end
      end
  | Scope x b =>
      match analyze b {| a_norm := a_norm A; a_acc := a_norm A; a_brk := []; a_cnt := [];
                         a_ret := false |} with
      | None => None
      | Some B =>
          let a' := aset (a_acc B) x (a_ret B) in
          Some {| a_norm := a'; a_acc := ajoin (a_acc A) (ajoin (a_acc B) a');
                  a_brk := a_brk A; a_cnt := a_cnt A; a_ret := a_ret A |}
      end
  | Return e =>
      Some {| a_norm := a_norm A; a_acc := a_acc A; a_brk := a_brk A; a_cnt := a_cnt A;
              a_ret := a_ret A || aeval (a_norm A) e |}
  | Raise => Some A
  | Break => Some {| a_norm := a_norm A; a_acc := a_acc A; a_brk := ajoin (a_brk A) (a_norm A);
                     a_cnt := a_cnt A; a_ret := a_ret A |}
  | Continue => Some {| a_norm := a_norm A; a_acc := a_acc A; a_brk := a_brk A;
                        a_cnt := ajoin (a_cnt A) (a_norm A); a_ret := a_ret A |}
  end.
End Analyze.

Definition init (params : list var) : ares :=
  {| a_norm := params; a_acc := params; a_brk := []; a_cnt := []; a_ret := false |}.

(* number of distinct variables is at most the size of the term; the chain of loop
   invariants is strictly increasing, so this fuel is generous; running out of fuel is
   a rejection (fail-closed) *)
Fixpoint size (s : stmt) : nat :=
  match s with
  | Seq a b | If a b | Try a b => S (size a + size b)
  | Loop b | Scope _ b => S (size b)
  | _ => 1
  end.

Definition analyze_prog (params : list var) (s : stmt) : option ares :=
  analyze (size s + length params + 2) s (init params).

(* accepted: the analysis succeeds (no write through a possibly-protected variable) *)
Definition accepts (params : list var) (s : stmt) : bool :=
  match analyze_prog params s with Some _ => true | None => false end.
(* may the returned value alias a parameter?  (None = rejected) *)
Definition ret_may_alias (params : list var) (s : stmt) : option bool :=
  match analyze_prog params s with Some A => Some (a_ret A) | None => None end.

(* ---------------- correspondence cases ----------------
   One case = one translated function (or one class life cycle):
   (protected parameters, program, expected verdict of [accepts],
    for each parameter taken alone: does the implementation's result share memory
    with it (observed), to be included in the analysis' may-alias answer). *)
Definition case := (list var * stmt * bool * list (var * bool))%type.

Definition check_case (c : case) : bool :=
  let '(params, prog, want, observed) := c in
  Bool.eqb (accepts params prog) want &&
  forallb (fun '(p, shares) =>
             match ret_may_alias [p] prog with
             | Some predicted => implb shares predicted
             | None => true      (* rejected for this parameter alone: nothing is claimed *)
             end) observed.

Definition model_out (c : case) : (bool * list (var * option bool)) :=
  let '(params, prog, _, observed) := c in
  (accepts params prog, map (fun '(p, _) => (p, ret_may_alias [p] prog)) observed).

(* which single parameters make the analysis fail (certificate for a rejection) *)
Definition culprits (params : list var) (prog : stmt) : list var :=
  filter (fun p => negb (accepts [p] prog)) params.
