(* C16 -- TRANSLATOR TIE.  gen/Gen_apstats.v is REGENERATED from the current source text of
   photutils/aperture/stats.py on every run (harness/translate_all.py); it is not committed.
   The local `origin` of ApertureStats.centroid (np.maximum(bbox_xmin, 0), np.maximum(bbox_ymin, 0), one
   aperture = one row of the transposed pair; fix C16-1) is tied, for ALL boxes, to [centroid_origin] of
   C16_Model.v, and shown to be the origin of the TRIMMED cutout the moments are computed on. *)
From Coq Require Import List ZArith Bool Lia ZifyBool.
From PV Require Import lib.Cases lib.PyGen C16_Model gen.Gen_apstats gen.Gen_bbox.
Import ListNotations.
Open Scope Z_scope.

Theorem gen_centroid_origin_eq : forall b, gen_centroid_origin (ixmin b) (iymin b) = centroid_origin b.
Proof. intros. unfold gen_centroid_origin, centroid_origin. cbv zeta. struct_eq lia. Qed.

(* it is the (x, y) start of slices_large, i.e. the array position of cutout pixel (0, 0) -- not the
   bounding-box corner (ixmin, iymin) that the unrepaired code added *)
Theorem gen_centroid_origin_is_cutout_origin : forall b ny nx ly0 ly1 lx0 lx1 small,
  overlap_slices b ny nx = Some (((ly0, ly1), (lx0, lx1)), small) ->
  gen_centroid_origin (ixmin b) (iymin b) = (lx0, ly0).
Proof.
  intros * H. rewrite gen_centroid_origin_eq. unfold centroid_origin. unfold overlap_slices in H.
  match type of H with (if ?c then _ else _) = _ => destruct c; [discriminate|] end.
  injection H as <- _ <- _ _. reflexivity.
Qed.

Theorem gen_centroid_origin_differs_from_corner : forall b, (ixmin b < 0 \/ iymin b < 0) ->
  gen_centroid_origin (ixmin b) (iymin b) <> centroid_origin_v0 b.
Proof.
  intros b H. rewrite gen_centroid_origin_eq. unfold centroid_origin, centroid_origin_v0. intro E.
  injection E as E1 E2. lia.
Qed.

(* C16_Model.v's copy of overlap_slices mirrors the repaired BoundingBox.get_overlap_slices including
   the zero-size-image clause (fix C01-1): the regenerated function agrees with it for ALL boxes and shapes *)
Definition slices_pair (o : option (slices2 * slices2)) : option slices2 * option slices2 :=
  match o with None => (None, None) | Some (l, s) => (Some l, Some s) end.
Theorem gen_get_overlap_slices_eq : forall b ny nx,
  gen_get_overlap_slices (ixmin b) (ixmax b) (iymin b) (iymax b) ny nx = slices_pair (overlap_slices b ny nx).
Proof.
  intros b ny nx. unfold gen_get_overlap_slices, overlap_slices, slices_pair. if_split; z_leaf.
Qed.
(* kept under its earlier name (non-empty images) for anything that cites it *)
Theorem gen_get_overlap_slices_eq_nonempty_image : forall b ny nx, 0 < ny -> 0 < nx ->
  gen_get_overlap_slices (ixmin b) (ixmax b) (iymin b) (iymax b) ny nx = slices_pair (overlap_slices b ny nx).
Proof. intros b ny nx _ _. apply gen_get_overlap_slices_eq. Qed.

Print Assumptions gen_centroid_origin_eq.
Print Assumptions gen_get_overlap_slices_eq.
Print Assumptions gen_get_overlap_slices_eq_nonempty_image.
Print Assumptions gen_centroid_origin_is_cutout_origin.
Print Assumptions gen_centroid_origin_differs_from_corner.
