(* C13 -- TRANSLATOR TIE.  gen/Gen_psf.v is REGENERATED from the current source text of
   photutils/psf/gridded_models.py and photutils/psf/image_models.py on every run
   (harness/translate_all.py); it is not committed.  Tied here, for ALL inputs:
     GriddedPSFModel._calc_bilinear_weights            = C13_Model.bilinear_weights
     ImagePSF.evaluate / GriddedPSFModel.evaluate:  the values of the locals xi, yi (oversampled
       index coordinates) and invalid (outside-the-grid mask)  = C13_Model.ip_xi / ip_yi / invalid
   followed by the C13 theorems about them restated for the regenerated definitions.
   (xi, yi, invalid are "value of a local after its assignments" targets: the tie covers the formulas,
   the surrounding control flow is tied by the correspondence run of harness/c13.py.) *)
From Coq Require Import QArith Qround Qminmax Qabs ZArith List Bool Lia Lqa Morphisms Setoid.
From PV Require Import lib.Cases lib.PyGen C13_Model C13_Proofs C13_ProofsB gen.Gen_psf.
Import ListNotations.
Open Scope Q_scope.

(* ---------- _calc_bilinear_weights ---------- *)
Ltac q_leaf := first [reflexivity | ring | (apply Qdiv_comp; ring)].

Theorem gen_calc_bilinear_weights_eq : forall xi yi x0 x1 y0 y1,
  Forall2 Qeq (gen_calc_bilinear_weights xi yi x0 x1 y0 y1) (bilinear_weights xi yi (x0, x1, y0, y1)).
Proof.
  intros. unfold gen_calc_bilinear_weights, bilinear_weights, Qclip. cbv zeta.
  q_split; q_hyps; try (exfalso; lra); repeat constructor; q_leaf.
Qed.

Lemma Forall2_Qeq_nonneg l l' : Forall2 Qeq l l' -> Forall (fun w => 0 <= w) l' -> Forall (fun w => 0 <= w) l.
Proof.
  induction 1 as [|a b l l' E _ IH]; intro H; [constructor|].
  inversion H; subst. constructor; [rewrite E; assumption | auto].
Qed.
Lemma Forall2_Qeq_qlsum l l' : Forall2 Qeq l l' -> qlsum l == qlsum l'.
Proof. induction 1 as [|a b l l' E _ IH]; cbn; [reflexivity | rewrite E, IH; reflexivity]. Qed.
Lemma Forall2_Qeq_trans l1 l2 l3 : Forall2 Qeq l1 l2 -> Forall2 Qeq l2 l3 -> Forall2 Qeq l1 l3.
Proof.
  intros H; revert l3. induction H as [|a b l l' E _ IH]; intros l3 H3; inversion H3; subst; constructor.
  - etransitivity; eassumption.
  - auto.
Qed.

(* gridded_weights for the regenerated function: on a cell x0 <= x1, y0 <= y1 (zero-width allowed) the
   four weights are >= 0, sum to 1 and are the products of the per-axis weights *)
Theorem gen_gridded_weights : forall xi yi x0 x1 y0 y1, x0 <= x1 -> y0 <= y1 ->
  Forall (fun w => 0 <= w) (gen_calc_bilinear_weights xi yi x0 x1 y0 y1) /\
  qlsum (gen_calc_bilinear_weights xi yi x0 x1 y0 y1) == 1 /\
  Forall2 Qeq (gen_calc_bilinear_weights xi yi x0 x1 y0 y1)
    [ axis_lo_w xi x0 x1 * axis_lo_w yi y0 y1; axis_hi_w xi x0 x1 * axis_lo_w yi y0 y1;
      axis_lo_w xi x0 x1 * axis_hi_w yi y0 y1; axis_hi_w xi x0 x1 * axis_hi_w yi y0 y1 ].
Proof.
  intros xi yi x0 x1 y0 y1 Hx Hy.
  pose proof (gen_calc_bilinear_weights_eq xi yi x0 x1 y0 y1) as E.
  destruct (bilinear_weights_all xi yi x0 x1 y0 y1 Hx Hy) as (A & B & C).
  split; [eapply Forall2_Qeq_nonneg; eassumption|].
  split; [rewrite (Forall2_Qeq_qlsum _ _ E); exact B|].
  eapply Forall2_Qeq_trans; eassumption.
Qed.

(* ---------- ImagePSF.evaluate: xi, yi, invalid ---------- *)
(* arguments: oversampling = (osy, osx) in (y, x) order, origin = (ox, oy) in (x, y) order; the theorem
   also fixes WHICH components are used: xi uses oversampling[1] and origin[0], yi the other two *)
Theorem gen_imagepsf_xi_eq : forall osy osx ox oy x x_0, gen_imagepsf_xi osy osx ox oy x x_0 == ip_xi osx ox x x_0.
Proof. intros. unfold gen_imagepsf_xi, ip_xi. cbv zeta. ring. Qed.
Theorem gen_imagepsf_yi_eq : forall osy osx ox oy y y_0, gen_imagepsf_yi osy osx ox oy y y_0 == ip_yi osy oy y y_0.
Proof. intros. unfold gen_imagepsf_yi, ip_yi. cbv zeta. ring. Qed.
Theorem gen_imagepsf_invalid_eq : forall nx ny xi yi, gen_imagepsf_invalid nx ny xi yi = invalid nx ny xi yi.
Proof.
  intros. unfold gen_imagepsf_invalid, invalid, C13_Model.Qltb, PyGen.Qltb. cbv zeta. qbool_tie.
Qed.

(* ---------- GriddedPSFModel.evaluate: the same three locals ---------- *)
Theorem gen_gridded_xi_eq : forall osy osx ox oy x x_0, gen_gridded_xi osy osx ox oy x x_0 == ip_xi osx ox x x_0.
Proof. intros. unfold gen_gridded_xi, ip_xi. cbv zeta. ring. Qed.
Theorem gen_gridded_yi_eq : forall osy osx ox oy y y_0, gen_gridded_yi osy osx ox oy y y_0 == ip_yi osy oy y y_0.
Proof. intros. unfold gen_gridded_yi, ip_yi. cbv zeta. ring. Qed.
Theorem gen_gridded_invalid_eq : forall nx ny xi yi, gen_gridded_invalid nx ny xi yi = invalid nx ny xi yi.
Proof.
  intros. unfold gen_gridded_invalid, invalid, C13_Model.Qltb, PyGen.Qltb. cbv zeta. qbool_tie.
Qed.

Lemma invalid_comp nx ny xi xi' yi yi' : xi == xi' -> yi == yi' -> invalid nx ny xi yi = invalid nx ny xi' yi'.
Proof. intros E1 E2. unfold invalid, C13_Model.Qltb. rewrite E1, E2. reflexivity. Qed.

(* the regenerated xi is the model's index coordinate of GriddedPSFModel.g_point (origin = centre of the stamp) *)
Theorem gen_gridded_xi_is_model_coordinate : forall g x y x_0 y_0,
  gen_gridded_xi (g_osy g) (g_osx g) ((inject_Z (g_nx g) - 1) / 2) ((inject_Z (g_ny g) - 1) / 2) x x_0
    == inject_Z (g_osx g) * (x - x_0) + (inject_Z (g_nx g) - 1) / 2 /\
  gen_gridded_yi (g_osy g) (g_osx g) ((inject_Z (g_nx g) - 1) / 2) ((inject_Z (g_ny g) - 1) / 2) y y_0
    == inject_Z (g_osy g) * (y - y_0) + (inject_Z (g_ny g) - 1) / 2.
Proof. intros. rewrite gen_gridded_xi_eq, gen_gridded_yi_eq. unfold ip_xi, ip_yi. split; reflexivity. Qed.

(* imagepsf_sample_points for the regenerated index arithmetic: at x = x_0 + (i - origin_x)/oversampling_x
   the interpolation coordinate is exactly i, and that is the only such point *)
Theorem gen_imagepsf_sample_points : forall osy osx ox oy x_0 y_0 t, (0 < osx)%Z -> (0 < osy)%Z ->
  gen_imagepsf_xi osy osx ox oy (sample_at osx ox x_0 t) x_0 == t /\
  gen_imagepsf_yi osy osx ox oy (sample_at osy oy y_0 t) y_0 == t /\
  (forall x, x == sample_at osx ox x_0 (gen_imagepsf_xi osy osx ox oy x x_0)) /\
  (forall y, y == sample_at osy oy y_0 (gen_imagepsf_yi osy osx ox oy y y_0)).
Proof.
  intros osy osx ox oy x_0 y_0 t Hx Hy.
  destruct (ip_index_exact osy osx ox oy x_0 y_0 t Hx Hy) as (A & B & C & D).
  split; [rewrite gen_imagepsf_xi_eq; exact A|]. split; [rewrite gen_imagepsf_yi_eq; exact B|].
  split.
  - intro x. unfold sample_at. rewrite gen_imagepsf_xi_eq. exact (C x).
  - intro y. unfold sample_at. rewrite gen_imagepsf_yi_eq. exact (D y).
Qed.

(* imagepsf_fill_outside: the regenerated invalid mask at the regenerated coordinates is exactly
   "outside the sampled range" in evaluation coordinates *)
Theorem gen_imagepsf_invalid_iff_outside : forall (data : list (list Q)) osy osx ox oy x y x_0 y_0,
  (0 < osx)%Z -> (0 < osy)%Z ->
  (gen_imagepsf_invalid (ncols data) (nrows data)
     (gen_imagepsf_xi osy osx ox oy x x_0) (gen_imagepsf_yi osy osx ox oy y y_0) = true <->
   (x < sample_at osx ox x_0 0 \/ sample_at osx ox x_0 (inject_Z (ncols data - 1)) < x \/
    y < sample_at osy oy y_0 0 \/ sample_at osy oy y_0 (inject_Z (nrows data - 1)) < y)).
Proof.
  intros data osy osx ox oy x y x_0 y_0 Hx Hy.
  rewrite gen_imagepsf_invalid_eq.
  rewrite (invalid_comp _ _ _ (ip_xi osx ox x x_0) _ (ip_yi osy oy y y_0))
    by (apply gen_imagepsf_xi_eq || apply gen_imagepsf_yi_eq).
  exact (proj1 (ip_fill_outside (fun _ _ _ => 0) data osy osx ox oy None x y 0 x_0 y_0 Hx Hy)).
Qed.

(* the same for the gridded model (origin = centre of the stamp) *)
Theorem gen_gridded_invalid_iff_outside : forall (data : list (list Q)) osy osx ox oy x y x_0 y_0,
  (0 < osx)%Z -> (0 < osy)%Z ->
  (gen_gridded_invalid (ncols data) (nrows data)
     (gen_gridded_xi osy osx ox oy x x_0) (gen_gridded_yi osy osx ox oy y y_0) = true <->
   (x < sample_at osx ox x_0 0 \/ sample_at osx ox x_0 (inject_Z (ncols data - 1)) < x \/
    y < sample_at osy oy y_0 0 \/ sample_at osy oy y_0 (inject_Z (nrows data - 1)) < y)).
Proof.
  intros data osy osx ox oy x y x_0 y_0 Hx Hy.
  rewrite gen_gridded_invalid_eq.
  rewrite (invalid_comp _ _ _ (ip_xi osx ox x x_0) _ (ip_yi osy oy y y_0))
    by (apply gen_gridded_xi_eq || apply gen_gridded_yi_eq).
  exact (proj1 (ip_fill_outside (fun _ _ _ => 0) data osy osx ox oy None x y 0 x_0 y_0 Hx Hy)).
Qed.

Print Assumptions gen_calc_bilinear_weights_eq.
Print Assumptions Forall2_Qeq_nonneg.
Print Assumptions Forall2_Qeq_qlsum.
Print Assumptions Forall2_Qeq_trans.
Print Assumptions gen_gridded_weights.
Print Assumptions gen_imagepsf_xi_eq.
Print Assumptions gen_imagepsf_yi_eq.
Print Assumptions gen_imagepsf_invalid_eq.
Print Assumptions gen_gridded_xi_eq.
Print Assumptions gen_gridded_yi_eq.
Print Assumptions gen_gridded_invalid_eq.
Print Assumptions invalid_comp.
Print Assumptions gen_gridded_xi_is_model_coordinate.
Print Assumptions gen_imagepsf_sample_points.
Print Assumptions gen_imagepsf_invalid_iff_outside.
Print Assumptions gen_gridded_invalid_iff_outside.
