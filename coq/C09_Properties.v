(* C09 — results never depend on access order or on earlier calls.
   Property theorems only; each is closed by [exact] of a lemma of C09_Proofs.

   Every machine of C09_Model mirrors the cache / state protocol of one photutils class;
   the numerics are ARBITRARY functions (universally quantified below), so "equals what
   a fresh object returns" is equality of the same function applied to the same
   constructor / call arguments.  [legacy = false] is the repaired code
   (fixes/C09-1..4; C09-2 makes data_profile the un-cached property
   raw / normalization_value), [legacy = true] the code as found (refuted below).
   Histories are arbitrary finite lists ([brun], [pobserve], [arun], [psrun], [itrun],
   [erun], [grun], [sfrun] fold the step function over them). *)
From Coq Require Import List ZArith Bool.
From PV Require Import lib.Cases C09_Model C09_Proofs.
Import ListNotations.

(* ------------------------------------------------------------------------- *)
(* (a) Background2D: for EVERY history of reads of background_mesh,
   background_rms_mesh, the two medians, background, background_rms, npixels_mesh,
   npixels_map, every read returns exactly what a fresh object returns for that read,
   and none raises -- for every configuration (threshold / no threshold / threshold
   below the minimum / 1x1 filter) and whatever the numeric functions are. *)
Theorem bkg_reads_fresh :
  forall (V : Type) (interp_grid filt_plain median image blockrep : V -> V) (filt_sel : V -> V -> V)
         (c : bcfg V) (h : list bread),
    map fst (brun V interp_grid filt_plain median image blockrep filt_sel false c (binit V c) h)
    = map (fun r => Val (bfresh V interp_grid filt_plain median image blockrep filt_sel c r)) h.
Proof. exact bkg_reads_fresh_lemma. Qed.
Print Assumptions bkg_reads_fresh.

(* the code as found: background_rms_mesh, then background_mesh, with a filter
   threshold: the second read raises TypeError (code 1) *)
Theorem bkg_legacy_refuted :
  exists thr low f11 h,
    let c := tb_cfg thr low f11 in
    map fst (brun term (Ap1 1) (Ap1 2) (Ap1 3) (Ap1 4) (Ap1 5) (Ap2 6) true c (binit term c) h)
    <> map (fun r => Val (tb_fresh c r)) h
    /\ nth 1 (map fst (brun term (Ap1 1) (Ap1 2) (Ap1 3) (Ap1 4) (Ap1 5) (Ap2 6) true c (binit term c) h)) (Raise 0)
       = Raise 1.
Proof. exact bkg_legacy_refuted_lemma. Qed.
Print Assumptions bkg_legacy_refuted.

(* ------------------------------------------------------------------------- *)
(* (b) RadialProfile / CurveOfGrowth.  [pobserve legacy c h o] = what operation [o]
   (read of profile / profile_error / data_profile / normalization_value, normalize
   'max'|'sum', unnormalize) returns after history [h] on one instance.
   For EVERY history: the observation equals that of a fresh object that was given
   only the normalize / unnormalize calls of the history (reads, in any position and
   any number, change nothing) ... *)
Theorem profile_reads_fresh :
  forall (T : Type) (mul div : T -> T -> T) (norm_of : bool -> list T -> T) (is_zero : T -> bool) (one : T)
         (c : pcfg T) (h : list pop) (o : pop),
    pobserve T mul div norm_of is_zero one false c h o
    = pobserve T mul div norm_of is_zero one false c (filter is_mut h) o.
Proof. exact profile_reads_fresh_lemma. Qed.
Print Assumptions profile_reads_fresh.

(* ... so two histories with the same normalize/unnormalize calls cannot be told apart *)
Theorem profile_order_independent :
  forall (T : Type) (mul div : T -> T -> T) (norm_of : bool -> list T -> T) (is_zero : T -> bool) (one : T)
         (c : pcfg T) (h1 h2 : list pop) (o : pop),
    filter is_mut h1 = filter is_mut h2 ->
    pobserve T mul div norm_of is_zero one false c h1 o = pobserve T mul div norm_of is_zero one false c h2 o.
Proof. exact profile_order_independent_lemma. Qed.
Print Assumptions profile_order_independent.

(* ... and equals the answer of the cache-free reference object [vstep]/[vrun] of
   C09_Model (no lazy attributes at all: profile and profile_error rescaled by every
   normalize/unnormalize, data_profile = raw / normalization_value) *)
Theorem profile_obs_is_reference :
  forall (T : Type) (mul div : T -> T -> T) (norm_of : bool -> list T -> T) (is_zero : T -> bool) (one : T)
         (c : pcfg T) (h : list pop) (o : pop),
    pobserve T mul div norm_of is_zero one false c h o
    = snd (vstep T mul div norm_of is_zero one c
             (vrun T mul div norm_of is_zero one c (filter is_mut h) (view T c (pinit T one))) o).
Proof. exact profile_obs_reference. Qed.
Print Assumptions profile_obs_is_reference.

(* no operation raises because of the history: the only exception is AttributeError
   (code 3) for data_profile on a class without that attribute (CurveOfGrowth), which a
   fresh object raises too *)
Theorem profile_no_raise :
  forall (T : Type) (mul div : T -> T -> T) (norm_of : bool -> list T -> T) (is_zero : T -> bool) (one : T)
         (c : pcfg T) (h : list pop) (o : pop) (e : Z),
    pobserve T mul div norm_of is_zero one false c h o = ORaise T e ->
    o = PRead AData /\ p_DR T c = None /\ e = 3%Z.
Proof. exact profile_no_raise_lemma. Qed.
Print Assumptions profile_no_raise.

(* the code as found: data_profile is rescaled only if it was read before normalize *)
Theorem profile_legacy_refuted :
  exists (c : pcfg Z) (h1 h2 : list pop) (o : pop),
    filter is_mut h1 = filter is_mut h2 /\
    pobserve Z Z.mul Z.div (fun _ l => fold_left Z.max l 0%Z) (Z.eqb 0) 1%Z true c h1 o
    <> pobserve Z Z.mul Z.div (fun _ l => fold_left Z.max l 0%Z) (Z.eqb 0) 1%Z true c h2 o.
Proof. exact profile_legacy_refuted_lemma. Qed.
Print Assumptions profile_legacy_refuted.

(* ------------------------------------------------------------------------- *)
(* (c) pixel apertures.  [ctor_ops 0 vs] = the constructor's assignments of the
   parameters [vs] (index 0 = positions); [h] = ANY interleaving of assignments to the
   declared parameters (valid or rejected by the validator) and reads of shape,
   isscalar, _positions, _xy_extents, _bbox, bbox, _centered_edges, area, to_mask(m).
   Every read returns what a fresh aperture built from the CURRENT parameters computes
   ([afresh], no cache), rejected assignments raise ValueError and change nothing, and
   nothing else raises.  Holds for both cache layouts ([lazy_ext]/[lazy_area]: circular
   apertures cache _xy_extents and area, the others recompute them). *)
Theorem aperture_reads_fresh :
  forall (V : Type) (F_shape F_isscalar F_pos2d : V -> V) (F_ext F_area : params V -> V)
         (F_bbox F_pick F_edges : V -> V -> V) (F_mask : Z -> params V -> V -> V -> V) (noval : V)
         (cl : acls) (vs : list V) (h : list (aop V)),
    Forall (wf_op V (length vs)) h ->
    map fst (arun V F_shape F_isscalar F_pos2d F_ext F_area F_bbox F_pick F_edges F_mask noval cl
                  (ainit V) (ctor_ops V 0 vs ++ h))
    = repeat (Val noval) (length vs)
      ++ aspec V F_shape F_isscalar F_pos2d F_ext F_area F_bbox F_pick F_edges F_mask noval (map Some vs) h.
Proof. exact aperture_history_fresh_lemma. Qed.
Print Assumptions aperture_reads_fresh.

(* ------------------------------------------------------------------------- *)
(* (d) PSFPhotometry.__call__: for EVERY sequence of calls (any data, init_params absent /
   present / with a group_id column) every outcome (result table, None, or the
   configuration error) is the outcome of the same call on a fresh object *)
Theorem psf_calls_fresh :
  forall (G R : Type) (fit : option G -> pargs -> option R) (c : pscfg) (g0 : option G) (h : list pargs),
    map fst (psrun G R fit false c (psinit G R g0) h)
    = map (fun a => snd (pscall G R fit false c (psinit G R g0) a)) h.
Proof. exact psf_calls_fresh_lemma. Qed.
Print Assumptions psf_calls_fresh.

(* the only exception a call can raise in the model is ValueError for "no finder and no
   init_params", whatever happened before *)
Theorem psf_raise_only_config :
  forall (G R : Type) (fit : option G -> pargs -> option R) (c : pscfg) (s : psst G R) (a : pargs) (e : Z),
    snd (pscall G R fit false c s a) = Raise e -> ps_finder c = false /\ pa_init a = None /\ e = 2%Z.
Proof. exact psf_raise_lemma. Qed.
Print Assumptions psf_raise_only_config.

(* IterativePSFPhotometry.__call__ (inner calls decided by an arbitrary [next]) *)
Theorem iterative_calls_fresh :
  forall (G R : Type) (fit : option G -> pargs -> option R) (next : list (outcome (option R)) -> option pargs)
         (c : pscfg) (n : nat) (g0 : option G) (h : list pargs),
    map fst (itrun G R fit next false c n (psinit G R g0) h)
    = map (fun a => snd (itcall G R fit next false c n (psinit G R g0) a)) h.
Proof. exact iterative_calls_fresh_lemma. Qed.
Print Assumptions iterative_calls_fresh.

(* the code as found: self.grouper = None after a call with a group_id column *)
Theorem psf_legacy_refuted :
  exists (c : pscfg) (g0 : option Z) (h : list pargs),
    map fst (psrun Z term tfit true c (psinit Z term g0) h)
    <> map (fun a => snd (pscall Z term tfit true c (psinit Z term g0) a)) h.
Proof. exact psf_legacy_refuted_lemma. Qed.
Print Assumptions psf_legacy_refuted.

(* Ellipse.fit_image.  NOTE: fix C09-4 is NOT applied in /repo (the geometry persistence is the
   recorded known finding Ellipse.fit_image:geometry-persists): the code in /repo is
   [legacy = true], refuted by [ellipse_legacy_refuted] below and tied to the implementation
   through [echeck true]; the positive theorem is about the proposed repair ([legacy = false]):
   every call returns what a fresh Ellipse (same geometry) returns for
   the same linear / fix_* arguments, and the geometry configuration is unchanged after
   every call *)
Theorem ellipse_calls_fresh :
  forall (R : Type) (efit : geo -> eargs -> R) (eempty : R) (g : geo) (h : list eargs),
    map fst (erun R efit eempty false g h) = map (fun a => snd (ecall R efit eempty false g a)) h /\
    Forall (fun rg => snd rg = g) (erun R efit eempty false g h).
Proof. exact ellipse_calls_fresh_lemma. Qed.
Print Assumptions ellipse_calls_fresh.

Theorem ellipse_legacy_refuted :
  exists (g : geo) (h : list eargs),
    map fst (erun term tefit (Atom 49) true g h) <> map (fun a => snd (ecall term tefit (Atom 49) true g a)) h.
Proof. exact ellipse_legacy_refuted_lemma. Qed.
Print Assumptions ellipse_legacy_refuted.

(* GriddedPSFModel: the four interpolators used by every evaluation of every history are
   those a fresh model builds (the cache keyed by grid position never goes stale) *)
Theorem grid_evals_fresh :
  forall (V : Type) (spline : Z * Z -> V) (xg yg : list Z) (h : list (Z * Z)),
    map fst (grun V spline xg yg [] h) = map (fun xy => snd (geval V spline xg yg [] xy)) h.
Proof. exact grid_evals_fresh_lemma. Qed.
Print Assumptions grid_evals_fresh.

(* StarFinder (repaired code, fix C10-3: the kernel attribute is only read, a normalised copy
   is used): every call returns what a fresh finder returns and the attribute is unchanged *)
Theorem starfinder_calls_fresh :
  forall (K I R : Type) (norm : K -> K) (find : K -> I -> R) (k0 : K) (h : list I),
    map fst (sfrun K I R norm find false k0 h) = map (fun i => snd (sfcall K I R norm find false k0 i)) h /\
    Forall (fun rk => snd rk = k0) (sfrun K I R norm find false k0 h).
Proof. exact starfinder_calls_fresh_lemma. Qed.
Print Assumptions starfinder_calls_fresh.

(* the code as found normalised the attribute in place on every call: fresh results only under
   the hypothesis that the normalisation is idempotent (PARTIAL), and not without it *)
Theorem starfinder_inplace_calls_fresh_partial :
  forall (K I R : Type) (norm : K -> K) (find : K -> I -> R),
    (forall k, norm (norm k) = norm k) ->
    forall (k0 : K) (h : list I),
      map fst (sfrun K I R norm find true k0 h) = map (fun i => snd (sfcall K I R norm find true k0 i)) h.
Proof. exact starfinder_inplace_calls_fresh_lemma. Qed.
Print Assumptions starfinder_inplace_calls_fresh_partial.
Theorem starfinder_inplace_refuted :
  exists (k0 : Z) (h : list Z),
    map fst (sfrun Z Z Z (fun k => k / 2)%Z (fun k i => k + i)%Z true k0 h)
    <> map (fun i => snd (sfcall Z Z Z (fun k => k / 2)%Z (fun k i => k + i)%Z true k0 i)) h.
Proof. exact starfinder_inplace_refuted_lemma. Qed.
Print Assumptions starfinder_inplace_refuted.

(* DAOStarFinder / IRAFStarFinder (configuration only read): full *)
Theorem readonly_finder_calls_fresh :
  forall (K I R : Type) (find : K -> I -> R) (k0 : K) (h : list I),
    map fst (sfrun K I R (fun k => k) find false k0 h) = map (fun i => find k0 i) h.
Proof. exact readonly_finder_calls_fresh_lemma. Qed.
Print Assumptions readonly_finder_calls_fresh.

(* ------------------------------------------------------------------------- *)
(* the correspondence predicates evaluated by the harness accept only observation
   lists on which the IMPLEMENTATION satisfied the property: every accepted step raised
   nothing and was recorded as "equal to the fresh object's value" (for PSFPhotometry:
   or is the configuration error that a fresh object raises too).  So a passing (K) run
   is at least as strong as the direct fresh-object oracle on the same histories. *)
Theorem bkg_check_sound :
  forall thr low f11 (h : list bobs),
    bcheck (tb_cfg thr low f11) (binit term (tb_cfg thr low f11)) h = true -> Forall bobs_ok h.
Proof. exact bcheck_sound_lemma. Qed.
Print Assumptions bkg_check_sound.

Theorem aperture_check_sound :
  forall le la (vs : list term) (hc h : list aobsv),
    map aop_of hc = ctor_ops term 0 vs -> Forall (wf_op term (length vs)) (map aop_of h) ->
    acheck {| lazy_ext := le; lazy_area := la |} (ainit term) (hc ++ h) = true -> Forall aobs_ok h.
Proof. exact acheck_sound_lemma. Qed.
Print Assumptions aperture_check_sound.

Theorem psf_check_sound :
  forall (c : pscfg) (g0 : option Z) (h : list psobsv),
    pscheck c g0 (psinit Z term g0) h = true -> Forall (psobs_ok c) h.
Proof. exact pscheck_sound_lemma. Qed.
Print Assumptions psf_check_sound.

Theorem ellipse_check_sound :
  forall (g0 : geo) (h : list eobsv), echeck false g0 g0 h = true -> Forall eobs_ok h.
Proof. exact echeck_sound_lemma. Qed.
Print Assumptions ellipse_check_sound.

Theorem grid_check_sound :
  forall (xg yg : list Z) (h : list gobsv), gcheck xg yg [] h = true -> Forall gobs_ok h.
Proof. exact gcheck_sound_lemma. Qed.
Print Assumptions grid_check_sound.

(* ------------------------------------------------------------------------- *)
(* non-vacuity / concrete instances *)
(* the well-formedness premise of [aperture_reads_fresh] is satisfiable by a history that
   reassigns and reads *)
Example aperture_wf_example :
  Forall (wf_op term 2) [ARead term ABbox; ASet term 1 (Atom 7) true; ARead term ABbox; ASet term 0 (Atom 8) false;
                         ARead term (AMask 2)].
Proof. repeat constructor. Qed.
(* the idempotence premise of [starfinder_inplace_calls_fresh_partial] is satisfiable by a
   non-identity normalisation *)
Example norm_idem_example : forall k : Z, Z.min (Z.min k 1) 1 = Z.min k 1.
Proof. intros k. apply Z.min_l, Z.le_min_r. Qed.
(* Background2D, repaired: rms mesh first, then mesh, with a threshold: both fine, box
   statistics deleted afterwards *)
Example bkg_example :
  let c := tb_cfg true false false in
  map (fun '(o, s) => (o, is_some (bkg_stats term s)))
      (brun term (Ap1 1) (Ap1 2) (Ap1 3) (Ap1 4) (Ap1 5) (Ap2 6) false c (binit term c) [RRmsMesh; RMesh])
  = [(Val (Ap2 6 (Ap1 1 (Atom 2)) (Ap1 1 (Atom 1))), true); (Val (Ap2 6 (Ap1 1 (Atom 1)) (Ap1 1 (Atom 1))), false)].
Proof. vm_compute. reflexivity. Qed.
(* profiles over Z (mul, div): normalize before the first read of data_profile rescales it *)
Example profile_example :
  pobserve Z Z.mul Z.div (fun _ l => fold_left Z.max l 0%Z) (Z.eqb 0) 1%Z false
           {| p_PR := [2; 4]%Z; p_ER := [1; 1]%Z; p_DR := Some [8; 12]%Z |} [PNorm false] (PRead AData)
  = OArr Z [2; 3]%Z.
Proof. vm_compute. reflexivity. Qed.
