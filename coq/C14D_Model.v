(* C14D -- the PER-SOURCE STATISTICS of the three star finders, brought inside the model.

   C14_Model.run_finder is parametric in [stat] (the measurements of one source).  This file
   models those measurements themselves, in exact rational arithmetic (Q), from
     - the image and the convolved image (list (list Q); pixels outside are the fill value 0),
     - the integer peak position (yp, xp),
     - the kernel: shape (ny, nx), mask, and -- for the DAOFIND marginal fits -- the values of
       kernel.gaussian_kernel_unmasked and xsigma**2, ysigma**2.  The kernel CONSTRUCTION
       (exp, sqrt: core.py _StarFinderKernel.__init__) is not modelled: those numbers are inputs.

   Mirrored code (photutils/detection):
     daofinder.py  _DAOStarFinderCatalog: make_cutouts, data_peak, convdata_peak, roundness1,
                   sharpness, daofind_marginal_fit (dx_hx, dy_hy), roundness2, x/ycentroid, flux, npix
     irafstarfinder.py _IRAFStarFinderCatalog: sky, cutout_data (sky subtraction, mask, negative
                   clipping), npix, moments, cutout_centroid, x/ycentroid, peak, flux,
                   moments_central, mu_sum, mu_diff and roundness**2 (the sqrt is not taken),
     starfinder.py _StarFinderCatalog: slices (trimmed window), cutout_data (negative clipping),
                   moments, centroid, max_value, flux, mu_sum, mu_diff, roundness**2.
   NOT modelled (transcendental): mag, daofind_mag, fwhm = 2 sqrt(ln2 mu_sum), IRAF sharpness =
   fwhm / kernel.fwhm, pa (arctan2), roundness = sqrt(roundness**2).

   A floating-point result is [fval]: a finite rational or +inf / -inf / NaN, so that the exact
   conditions under which the code produces a non-finite value (what the finders' isfinite filter
   removes) are part of the model. *)
From Coq Require Import List Arith ZArith QArith Qabs Qminmax Qreduction Bool Lia.
Import ListNotations.
Open Scope Q_scope.

Definition img := list (list Q).
Definition bimg := list (list bool).

(* ---------- IEEE results ---------- *)
Inductive fval := Fin (q : Q) | PInf | NInf | NaN.

Definition Qlt_bool (a b : Q) : bool := negb (Qle_bool b a).
(* a / b in IEEE arithmetic for finite a, b (b = 0 is +0.0) *)
Definition fdiv (a b : Q) : fval :=
  if Qeq_bool b 0
  then (if Qeq_bool a 0 then NaN else if Qlt_bool 0 a then PInf else NInf)
  else Fin (a / b).
Definition is_fin (v : fval) : bool := match v with Fin _ => true | _ => false end.
(* np.abs(v) > h *)
Definition fabs_gt (v : fval) (h : Q) : bool :=
  match v with Fin q => Qlt_bool h (Qabs q) | PInf | NInf => true | NaN => false end.
(* q + v *)
Definition fshift (q : Q) (v : fval) : fval :=
  match v with Fin a => Fin (q + a) | o => o end.

(* ---------- sums and arrays ---------- *)
(* np.sum: exact; each partial sum is stored reduced (Qred q == q) *)
Definition qsum (l : list Q) : Q := fold_right (fun a s => Qred (a + s)) 0 l.
Definition isum (a : img) : Q := qsum (map qsum a).
Definition pix (a : img) (y x : nat) : Q := nth x (nth y a []) 0.
Definition bpix (m : bimg) (y x : nat) : bool := nth x (nth y m []) false.
Definition b2q (b : bool) : Q := if b then 1 else 0.
Definition qn (n : nat) : Q := inject_Z (Z.of_nat n).
(* an (ny, nx) array given elementwise *)
Definition tab (ny nx : nat) (f : nat -> nat -> Q) : img :=
  map (fun y => map (f y) (seq 0 nx)) (seq 0 ny).
Definition sum2d (ny nx : nat) (f : nat -> nat -> Q) : Q := isum (tab ny nx f).
(* a[y0:y1, x0:x1] *)
Definition slice2 (a : img) (y0 y1 x0 x1 : nat) : img :=
  map (fun r => firstn (x1 - x0) (skipn x0 r)) (firstn (y1 - y0) (skipn y0 a)).
(* np.max over all pixels (0 for an empty array: never reached) *)
Definition imax (a : img) : Q :=
  match concat a with [] => 0 | h :: t => fold_left Qmax t h end.
Definition bcount (ny nx : nat) (p : nat -> nat -> bool) : nat :=
  length (filter (fun yx => p (fst yx) (snd yx)) (list_prod (seq 0 ny) (seq 0 nx))).

(* ---------- cutouts ---------- *)
(* image pixel with the fill value 0.0 outside the image *)
Definition iget (im : img) (y x : Z) : Q :=
  if ((0 <=? y) && (0 <=? x))%Z then pix im (Z.to_nat y) (Z.to_nat x) else 0.
(* extract_array(data, (ny, nx), (yp, xp), fill_value=0.0) at an integer position: rows
   yp - ny//2 .. yp - ny//2 + ny - 1 *)
Definition cutout (im : img) (ny nx : nat) (yp xp : Z) : img :=
  tab ny nx (fun y x => iget im (yp - Z.of_nat (ny / 2) + Z.of_nat y)
                                (xp - Z.of_nat (nx / 2) + Z.of_nat x)).

(* the branch structure of daofind_marginal_fit on the sums it has formed:
   hsz = size/2, sg2 = sigma**2, n = hx_numer, dn = hx_denom, dxn = the numerator of dx,
   dk2 = dkern_dx2_sum, ds = data_sum, ddx = data_dx_sum  ->  (dx, hx) *)
Definition marginal_of (hsz sg2 n dn dxn dk2 ds ddx : Q) : fval * fval :=
  if Qle_bool n 0 || Qle_bool dn 0                      (* mask1: hx, dx = NaN *)
  then (NaN, NaN)
  else
    let hx := n / dn in
    let dx0 := fdiv dxn (hx * dk2 / sg2) in
    let m3 := Qeq_bool ds 0 in
    let dx1 := if fabs_gt dx0 hsz                        (* mask2 *)
               then (if m3 then Fin 0 else Fin (ddx / ds)) else dx0 in   (* mask4 / mask5 *)
    let dx2 := if fabs_gt dx1 hsz then Fin 0 else dx1 in (* mask6 *)
    (dx2, Fin hx).

(* ================================================================== *)
(* DAOStarFinder                                                        *)
(* ================================================================== *)
Section DAO.
  Variables (ny nx : nat).                 (* kernel.shape = cutout_shape (odd) *)
  Variable mask : bimg.                    (* kernel.mask *)
  Variable gk : img.                       (* kernel.gaussian_kernel_unmasked *)
  Variables (s2x s2y : Q).                 (* kernel.xsigma**2, kernel.ysigma**2 *)
  Variables (d c : img).                   (* cutout_data, cutout_convdata of one source *)

  Definition cy : nat := (ny - 1) / 2.     (* cutout_center *)
  Definition cx : nat := (nx - 1) / 2.
  (* kernel.npixels = mask.sum() *)
  Definition npixels : Q := qn (bcount ny nx (bpix mask)).
  Definition data_peak : Q := pix d cy cx.
  Definition convdata_peak : Q := pix c cy cx.

  (* --- roundness1 --- *)
  (* cutout_conv.copy() with the central pixel set to 0 *)
  Definition conv0 : img :=
    tab ny nx (fun y x => if ((y =? cy) && (x =? cx))%nat then 0 else pix c y x).
  Definition quad1 : img := slice2 conv0 0 (cy + 1) (cx + 1) nx.
  Definition quad2 : img := slice2 conv0 0 cy 0 (cx + 1).
  Definition quad3 : img := slice2 conv0 cy ny 0 cx.
  Definition quad4 : img := slice2 conv0 (cy + 1) ny cx nx.
  Definition sum2 : Q := - isum quad1 + isum quad2 - isum quad3 + isum quad4.
  Definition sum4 : Q := isum (map (map Qabs) conv0).
  Definition roundness1 : fval := fdiv (2 * sum2) sum4.

  (* --- sharpness --- *)
  Definition cutout_data_masked : img := tab ny nx (fun y x => pix d y x * b2q (bpix mask y x)).
  (* real kernels have npixels >= 13; npixels = 1 (0/0 or x/0 in data_mean) is reported as NaN *)
  Definition data_mean : Q := (isum cutout_data_masked - data_peak) / (npixels - 1).
  Definition sharpness : fval :=
    if Qeq_bool (npixels - 1) 0 then NaN else fdiv (data_peak - data_mean) convdata_peak.

  Definition flux : Q := isum d.
  Definition npix : Q := qn (ny * nx).     (* kernel.data.size *)

  (* --- daofind_marginal_fit --- *)
  (* triangular weights: cen - |i - cen| + 1 *)
  Definition tri (cen i : nat) : Q :=
    inject_Z (Z.of_nat cen - Z.abs (Z.of_nat i - Z.of_nat cen) + 1).
  Section Fit.
    Variable axis : bool.                  (* false: axis=0 (marginal along x); true: axis=1 *)
    Definition size : nat := if axis then ny else nx.
    Definition center : nat := if axis then cy else cx.
    Definition osize : nat := if axis then nx else ny.
    Definition ocenter : nat := if axis then cx else cy.
    (* element i along the fitted axis, k along the summed one *)
    Definition at2 (a : img) (i k : nat) : Q := if axis then pix a i k else pix a k i.
    Definition sigma2 : Q := if axis then s2y else s2x.
    Definition wt (i : nat) : Q := tri center i.
    Definition dxv (i : nat) : Q := qn center - qn i.                       (* dx = center - arange *)
    Definition dxx (i : nat) : Q := if axis then qn i - qn center else qn center - qn i.
    Definition sum1 (f : nat -> Q) : Q := qsum (map f (seq 0 size)).
    Definition marg (a : img) (i : nat) : Q :=
      qsum (map (fun k => at2 a i k * tri ocenter k) (seq 0 osize)).
    Definition kern1 := marg gk.           (* kern_sum_1d *)
    Definition data1 := marg d.            (* data_sum_1d *)
    Definition wt_sum := sum1 wt.
    Definition kern_sum := sum1 (fun i => kern1 i * wt i).
    Definition kern2_sum := sum1 (fun i => kern1 i * kern1 i * wt i).
    Definition dkern (i : nat) : Q := kern1 i * dxv i.                      (* dkern_dx *)
    Definition dkern_dx_sum := sum1 (fun i => dkern i * wt i).
    Definition dkern_dx2_sum := sum1 (fun i => dkern i * dkern i * wt i).
    Definition kern_dkern_dx_sum := sum1 (fun i => kern1 i * dkern i * wt i).
    Definition data_sum := sum1 (fun i => data1 i * wt i).
    Definition data_kern_sum := sum1 (fun i => data1 i * kern1 i * wt i).
    Definition data_dkern_dx_sum := sum1 (fun i => data1 i * dkern i * wt i).
    Definition data_dx_sum := sum1 (fun i => data1 i * dxx i * wt i).
    Definition hx_numer : Q := data_kern_sum - data_sum * kern_sum / wt_sum.
    Definition hx_denom : Q := kern2_sum - kern_sum * kern_sum / wt_sum.
    Definition mask1 : bool := Qle_bool hx_numer 0 || Qle_bool hx_denom 0.
    Definition hxv : Q := hx_numer / hx_denom.
    Definition dx_numer : Q :=
      kern_dkern_dx_sum - (data_dkern_dx_sum - dkern_dx_sum * data_sum).
    Definition dx_denom : Q := hxv * dkern_dx2_sum / sigma2.
    Definition dx0 : fval := fdiv dx_numer dx_denom.
    Definition hsize : Q := qn size / 2.
    (* (dx, hx) of one source *)
    Definition marginal_fit : fval * fval :=
      marginal_of hsize sigma2 hx_numer hx_denom dx_numer dkern_dx2_sum data_sum data_dx_sum.
  End Fit.

  Definition dx_hx := marginal_fit false.
  Definition dy_hy := marginal_fit true.
  (* 2 (hx - hy) / (hx + hy) *)
  Definition roundness2 : fval :=
    match snd dx_hx, snd dy_hy with
    | Fin hx, Fin hy => fdiv (2 * (hx - hy)) (hx + hy)
    | _, _ => NaN
    end.
End DAO.

(* the statistics of the source at the integer peak position (yp, xp):
   [data_peak; convdata_peak; roundness1; sharpness; flux; npix; dx; hx; dy; hy; roundness2;
    xcentroid; ycentroid] *)
Definition dao_stats (ny nx : nat) (mask : bimg) (gk : img) (s2x s2y : Q) (im conv : img)
    (yp xp : Z) : list fval :=
  let d := cutout im ny nx yp xp in
  let c := cutout conv ny nx yp xp in
  let fx := dx_hx ny nx gk s2x s2y d in
  let fy := dy_hy ny nx gk s2x s2y d in
  [ Fin (data_peak ny nx d); Fin (convdata_peak ny nx c); roundness1 ny nx c;
    sharpness ny nx mask d c; Fin (flux d); Fin (npix ny nx);
    fst fx; snd fx; fst fy; snd fy; roundness2 ny nx gk s2x s2y d;
    fshift (inject_Z xp) (fst fx); fshift (inject_Z yp) (fst fy) ].

(* ================================================================== *)
(* image moments (utils/_moments.py) of a non-negative cutout            *)
(* ================================================================== *)
Section Moments.
  Variables (ny nx : nat) (a : img).
  (* _moments(arr, order=1): M[j, i] = sum y^j x^i arr[y, x] *)
  Definition m00 : Q := sum2d ny nx (fun y x => pix a y x).
  Definition m10 : Q := sum2d ny nx (fun y x => qn y * pix a y x).
  Definition m01 : Q := sum2d ny nx (fun y x => qn x * pix a y x).
  Definition ycen : fval := fdiv m10 m00.            (* cutout_ycentroid *)
  Definition xcen : fval := fdiv m01 m00.
  (* _moments_central(arr, center=(xc, yc), order=2)[p, q] / M00 *)
  Definition qpow (b : Q) (e : nat) : Q := match e with O => 1 | S O => b | _ => b * b end.
  Definition mu (p q : nat) : Q :=
    let yc := m10 / m00 in let xc := m01 / m00 in
    sum2d ny nx (fun y x => qpow (qn y - yc) p * qpow (qn x - xc) q * pix a y x) / m00.
  Definition mu_sum : Q := mu 0 2 + mu 2 0.
  Definition mu_diff : Q := mu 0 2 - mu 2 0.
  (* roundness**2 = (mu_diff**2 + 4 mu11**2) / mu_sum**2; M00 = 0 makes every central moment NaN *)
  Definition round_sq : fval :=
    if Qeq_bool m00 0 then NaN
    else fdiv (mu_diff * mu_diff + 4 * (mu 1 1 * mu 1 1)) (mu_sum * mu_sum).
  (* [M00; M10; M01; ycen; xcen; mu_sum; mu_diff; mu11; roundness**2] *)
  Definition moment_stats : list fval :=
    let nf (q : Q) := if Qeq_bool m00 0 then NaN else Fin q in
    [ Fin m00; Fin m10; Fin m01; ycen; xcen; nf mu_sum; nf mu_diff; nf (mu 1 1); round_sq ].
End Moments.

Definition clip0 (q : Q) : Q := if Qlt_bool q 0 then 0 else q.      (* data[data < 0] = 0 *)
Definition count_nonzero (ny nx : nat) (a : img) : nat :=
  bcount ny nx (fun y x => negb (Qeq_bool (pix a y x) 0)).

(* ================================================================== *)
(* IRAFStarFinder                                                       *)
(* ================================================================== *)
Section IRAF.
  Variables (ny nx : nat) (mask : bimg).
  Variables (d cv : img).                  (* cutout_data_nosub, cutout_convdata *)
  (* skymask = ~kernel.mask: 1 = sky *)
  Definition nsky : nat := bcount ny nx (fun y x => negb (bpix mask y x)).
  Definition sky : Q :=
    if (nsky =? 0)%nat then imax d - imax cv
    else isum (tab ny nx (fun y x => pix d y x * b2q (negb (bpix mask y x)))) / qn nsky.
  (* (cutout_data_nosub - sky) * mask, negative pixels set to 0 *)
  Definition iraf_cutout : img :=
    tab ny nx (fun y x => clip0 ((pix d y x - sky) * b2q (bpix mask y x))).
  Definition iraf_npix : Q := qn (count_nonzero ny nx iraf_cutout).
  Definition iraf_peak : Q := imax iraf_cutout.
  Definition iraf_flux : Q := isum iraf_cutout.
End IRAF.

(* [sky; npix; peak; flux; M00; M10; M01; ycen; xcen; mu_sum; mu_diff; mu11; roundness**2;
    xcentroid; ycentroid] *)
Definition iraf_stats (ny nx : nat) (mask : bimg) (im conv : img) (yp xp : Z) : list fval :=
  let d := cutout im ny nx yp xp in
  let cv := cutout conv ny nx yp xp in
  let a := iraf_cutout ny nx mask d cv in
  [ Fin (sky ny nx mask d cv); Fin (iraf_npix ny nx mask d cv); Fin (iraf_peak ny nx mask d cv);
    Fin (iraf_flux ny nx mask d cv) ]
  ++ moment_stats ny nx a
  ++ [ fshift (inject_Z xp - qn (nx / 2)) (xcen ny nx a);      (* cutout_xorigin = xpos - xradius *)
       fshift (inject_Z yp - qn (ny / 2)) (ycen ny nx a) ].

(* ================================================================== *)
(* StarFinder                                                           *)
(* ================================================================== *)
Section SF.
  Variables (ky kx : nat).                 (* kernel.shape *)
  Variable im : img.
  Variables (yp xp : Z).
  Definition imH : Z := Z.of_nat (length im).
  Definition imW : Z := Z.of_nat (length (hd [] im)).
  (* overlap_slices(data.shape, shape, (ypos, xpos), mode='trim') *)
  Definition sf_ymin : Z := Z.max 0 (yp - Z.of_nat (ky / 2)).
  Definition sf_ymax : Z := Z.min imH (yp - Z.of_nat (ky / 2) + Z.of_nat ky).
  Definition sf_xmin : Z := Z.max 0 (xp - Z.of_nat (kx / 2)).
  Definition sf_xmax : Z := Z.min imW (xp - Z.of_nat (kx / 2) + Z.of_nat kx).
  Definition sf_ny : nat := Z.to_nat (sf_ymax - sf_ymin).
  Definition sf_nx : nat := Z.to_nat (sf_xmax - sf_xmin).
  Definition sf_cutout : img :=
    tab sf_ny sf_nx (fun y x => clip0 (iget im (sf_ymin + Z.of_nat y) (sf_xmin + Z.of_nat x))).
  (* [bbox_ymin; bbox_xmin; max_value; flux; M00; ...; roundness**2; xcentroid; ycentroid] *)
  Definition sf_stats : list fval :=
    [ Fin (inject_Z sf_ymin); Fin (inject_Z sf_xmin); Fin (imax sf_cutout); Fin (isum sf_cutout) ]
    ++ moment_stats sf_ny sf_nx sf_cutout
    ++ [ fshift (inject_Z sf_xmin) (xcen sf_ny sf_nx sf_cutout);
         fshift (inject_Z sf_ymin) (ycen sf_ny sf_nx sf_cutout) ].
End SF.

(* ================================================================== *)
(* correspondence                                                       *)
(* ================================================================== *)
(* every double is a dyadic rational m * 2^(-k) *)
Definition dy (m k : Z) : Q :=
  if (k <? 0)%Z then inject_Z (m * 2 ^ (- k)) else Qmake m (Z.to_pos (2 ^ k)).
Definition zq (m : Z) : Q := inject_Z m.

Definition tol : Q := Qmake 1 (Z.to_pos (2 ^ 40)).
(* |impl - model| <= 2^-40 * scale, where [scale] bounds the magnitude of the operands of the
   floating-point expression (first-order forward error, unit roundoff 2^-53: the factor 2^13
   covers the operation counts, at most a few hundred); scale = 0 demands equality.
   Non-finite values must agree exactly in kind. *)
Definition close (scale : Q) (impl model : fval) : bool :=
  if Qlt_bool scale 0 then true else       (* scale < 0: no finite bound exists (see mom_scales) *)
  match impl, model with
  | Fin a, Fin b => Qle_bool (Qabs (a - b)) (tol * scale)
  | PInf, PInf | NInf, NInf | NaN, NaN => true
  | _, _ => false
  end.
Definition fv (v : fval) : Q := match v with Fin q => q | _ => 0 end.
Definition absimg (a : img) : img := map (map Qabs) a.
Fixpoint all3 {A B C} (f : A -> B -> C -> bool) (la : list A) (lb : list B) (lc : list C) : bool :=
  match la, lb, lc with
  | [], [], [] => true
  | a :: la', b :: lb', c :: lc' => f a b c && all3 f la' lb' lc'
  | _, _, _ => false
  end.
(* a comparison [v ? 0] or [|v| ? h] of the implementation is decided by rounding when the exact
   value lies within the error bound of the boundary *)
Definition near (v bound scale : Q) : bool :=
  negb (Qeq_bool scale 0)                  (* all operands 0: the float result is exact *)
  && Qle_bool (Qabs (v - bound)) (tol * scale).

(* The DAOFIND check evaluates every sum ONCE (the kernel-only sums once per case) and feeds them to
   the model's own branch function [marginal_of]; C14D_Proofs.dao_eval_is_model proves that the list
   of values it compares is literally [dao_stats]. *)
Definition kern_sums (ny nx : nat) (gk : img) (axis : bool) : Q * Q * Q * Q * Q * Q :=
  (kern_sum ny nx gk axis, kern2_sum ny nx gk axis, dkern_dx_sum ny nx gk axis,
   dkern_dx2_sum ny nx gk axis, kern_dkern_dx_sum ny nx gk axis, wt_sum ny nx axis).
Definition data_sums (ny nx : nat) (gk d : img) (axis : bool) : Q * Q * Q * Q :=
  (data_sum ny nx d axis, data_kern_sum ny nx gk d axis, data_dkern_dx_sum ny nx gk d axis,
   data_dx_sum ny nx d axis).
(* -> ((dx, hx), (scale of hx, scale of dx, a branch is decided by rounding), hx as a rational) *)
Definition fit_eval (hsz sg2 sz : Q) (K : Q * Q * Q * Q * Q * Q) (D DA : Q * Q * Q * Q)
    : (fval * fval) * (Q * Q * bool) * Q :=
  let '(ks, k2, dks, dk2, kdk, ws) := K in
  let '(ds, dkn, ddk, ddx) := D in
  let '(dsA, dknA, _, _) := DA in
  let n := dkn - ds * ks / ws in
  let dn := k2 - ks * ks / ws in
  let dxn := kdk - (ddk - dks * ds) in
  let fit := marginal_of hsz sg2 n dn dxn dk2 ds ddx in
  (* the error scales are computed on reduced copies (short numerals) *)
  let n' := Qred n in
  let dn' := Qred dn in
  let nabs := Qred (dknA + dsA * ks / ws) in
  let dabs := Qred (k2 + ks * ks / ws) in
  let hx := Qred (n' / dn') in
  let shx := Qred (nabs / Qabs dn' + Qabs n' * dabs / (dn' * dn') + Qabs hx) in
  let aabs := Qred (sz * (k2 + dknA + ks * dsA)) in
  let b := Qred (hx * dk2 / sg2) in
  let dxq := Qred (dxn / b) in
  let sdx := Qred (aabs / Qabs b + Qabs dxq * (shx / Qabs hx + 4) + sz) in
  let amb := near n' 0 nabs || near dn' 0 dabs || (negb (Qeq_bool b 0) && near (Qabs dxq) hsz sdx) in
  (fit, (shx, sdx, amb), hx).

Section DaoCheck.
  Variables (ny nx : nat) (mask : bimg) (gk : img) (s2x s2y : Q).
  Variables (Kx Ky : Q * Q * Q * Q * Q * Q).      (* kern_sums ... false / true *)
  Variables (d c : img) (yp xp : Z).
  (* -> (the model's statistics, their error scales, ambiguous) *)
  Definition dao_eval : list fval * list Q * bool :=
    let A := absimg d in
    let '(fx, (shx, sdx, ax), hx) :=
      fit_eval (hsize ny nx false) s2x (qn nx) Kx (data_sums ny nx gk d false) (data_sums ny nx gk A false) in
    let '(fy, (shy, sdy, ay), hy) :=
      fit_eval (hsize ny nx true) s2y (qn ny) Ky (data_sums ny nx gk d true) (data_sums ny nx gk A true) in
    let r2 := match snd fx, snd fy with
              | Fin h1, Fin h2 => fdiv (2 * (h1 - h2)) (h1 + h2)
              | _, _ => NaN
              end in
    let sr2 := Qred (4 * (shx + shy) / Qabs (hx + hy) + 8) in
    let ssharp := Qred ((Qabs (data_peak ny nx d)
                   + (isum (cutout_data_masked ny nx mask A) + Qabs (data_peak ny nx d))
                     / (npixels ny nx mask - 1)) / Qabs (convdata_peak ny nx c)) in
    ([ Fin (data_peak ny nx d); Fin (convdata_peak ny nx c); roundness1 ny nx c;
       sharpness ny nx mask d c; Fin (flux d); Fin (npix ny nx);
       fst fx; snd fx; fst fy; snd fy; r2;
       fshift (inject_Z xp) (fst fx); fshift (inject_Z yp) (fst fy) ],
     [0; 0; 4; ssharp; 0; 0; sdx; shx; sdy; shy; sr2; sdx + 64; sdy + 64], ax || ay).
End DaoCheck.

(* indices 6.. (dx hx dy hy roundness2 xcentroid ycentroid) are not compared when ambiguous *)
Definition dao_check_src ny nx mask gk s2x s2y Kx Ky im conv (s : Z * Z * list fval) : bool :=
  let '(yp, xp, impl) := s in
  let d := cutout im ny nx yp xp in
  let c := cutout conv ny nx yp xp in
  let '(model, scales, amb) := dao_eval ny nx mask gk s2x s2y Kx Ky d c yp xp in
  if amb then all3 close (firstn 6 scales) (firstn 6 impl) (firstn 6 model)
              && (length impl =? length model)%nat
  else all3 close scales impl model.

Section MomScales.
  Variables (ny nx : nat) (a : img).
  Variable pe : Q.                          (* bound on the absolute error of one pixel / 2^-53 *)
  (* A quotient x / y whose denominator lies within ITS OWN error bound of 0 has no finite error
     bound (exactly 0/0 = NaN may be computed as tiny/tiny, any value): its scale is -1 =
     unconstrained, and it is counted ([case_unambiguous]).  Otherwise the denominator enters the
     scale diminished by its error bound.  This concerns M00 (inexact sky only) and mu_sum (all the
     weight in one pixel: mu_sum = 0 exactly, e.g. 4e-31 after the rounding of the centroid). *)
  Definition mom_scales : list Q :=
    let n := qn (ny * nx) in let l := qn (ny + nx) in
    let m := m00 ny nx a in
    let em := tol * (4 * n * pe) in                      (* error bound of M00 *)
    if negb (Qeq_bool pe 0) && Qle_bool (Qabs m) em
    then [ 4 * n * pe; 4 * n * pe * l; 4 * n * pe * l; -1; -1; -1; -1; -1; -1 ]
    else
      let m' := Qabs m - em in
      let sc := 8 * n * pe * l / m' + l in
      let smu := l * l * (32 * n * pe / m' + 2 * n) in
      let ems := tol * (2 * smu) in                      (* error bound of mu_sum *)
      let ms := Qabs (mu_sum ny nx a) in
      [ 4 * n * pe; 4 * n * pe * l; 4 * n * pe * l; sc; sc; 2 * smu; 2 * smu; smu;
        (* M00 = 0 exactly (exact sky): every central moment is NaN on both sides, compared in kind *)
        if Qeq_bool m 0 then 4 else if Qle_bool ms ems then -1 else 16 * smu / (ms - ems) + 4 ].
  Definition mom_unconstrained : bool := existsb (fun q => Qlt_bool q 0) mom_scales.
End MomScales.

Fixpoint is_pow2 (p : positive) : bool :=
  match p with xH => true | xO p' => is_pow2 p' | xI _ => false end.

(* a scale built on an unconstrained one is unconstrained *)
Definition sadd (sc extra : Q) : Q := if Qlt_bool sc 0 then -1 else sc + extra.
(* the sky (hence every cutout pixel) is exact when the mean is a short dyadic rational *)
Definition iraf_pe (d : img) (sk : Q) : Q :=
  if is_pow2 (Qden (Qred sk)) then 0 else imax (absimg d) + Qabs sk + 1.

Definition iraf_check_src ny nx mask im conv (s : Z * Z * list fval) : bool :=
  let '(yp, xp, impl) := s in
  let d := cutout im ny nx yp xp in
  let cv := cutout conv ny nx yp xp in
  let a := iraf_cutout ny nx mask d cv in
  let sk := sky ny nx mask d cv in
  let pe := iraf_pe d sk in
  let ms := mom_scales ny nx a pe in
  let n := qn (ny * nx) in
  let sc := nth 3 ms 0 in
  let scales := [pe; 0; 2 * pe; 4 * n * pe] ++ ms
                ++ [sadd sc (qn (nx + ny) + Qabs (inject_Z xp)); sadd sc (qn (nx + ny) + Qabs (inject_Z yp))] in
  all3 close scales impl (iraf_stats ny nx mask im conv yp xp).

Definition sf_check_src ky kx im (s : Z * Z * list fval) : bool :=
  let '(yp, xp, impl) := s in
  let a := sf_cutout ky kx im yp xp in
  let sny := sf_ny ky im yp in let snx := sf_nx kx im xp in
  let ms := mom_scales sny snx a 0 in
  let sc := nth 3 ms 0 in
  let scales := [0; 0; 0; 0] ++ ms
                ++ [sadd sc (Qabs (inject_Z xp) + qn kx); sadd sc (Qabs (inject_Z yp) + qn ky)] in
  all3 close scales impl (sf_stats ky kx im yp xp).

Inductive case :=
| CDao (ny nx : nat) (mask : bimg) (gk : img) (s2x s2y : Q) (im conv : img)
       (srcs : list (Z * Z * list fval))
| CIraf (ny nx : nat) (mask : bimg) (im conv : img) (srcs : list (Z * Z * list fval))
| CSf (ky kx : nat) (im : img) (srcs : list (Z * Z * list fval)).

Definition check_case (cs : case) : bool :=
  match cs with
  | CDao ny nx mask gk s2x s2y im conv srcs =>
      let Kx := kern_sums ny nx gk false in
      let Ky := kern_sums ny nx gk true in
      forallb (dao_check_src ny nx mask gk s2x s2y Kx Ky im conv) srcs
  | CIraf ny nx mask im conv srcs => forallb (iraf_check_src ny nx mask im conv) srcs
  | CSf ky kx im srcs => forallb (sf_check_src ky kx im) srcs
  end.

(* false when some source of the case has a rounding-decided branch / an unconstrained quotient
   (statistics only) *)
Definition case_unambiguous (cs : case) : bool :=
  match cs with
  | CDao ny nx mask gk s2x s2y im conv srcs =>
      let Kx := kern_sums ny nx gk false in
      let Ky := kern_sums ny nx gk true in
      forallb (fun s : Z * Z * list fval =>
                 let '(yp, xp, _) := s in
                 negb (snd (dao_eval ny nx mask gk s2x s2y Kx Ky (cutout im ny nx yp xp)
                                     (cutout conv ny nx yp xp) yp xp))) srcs
  | CIraf ny nx mask im conv srcs =>
      forallb (fun s : Z * Z * list fval =>
                 let '(yp, xp, _) := s in
                 let d := cutout im ny nx yp xp in
                 let cv := cutout conv ny nx yp xp in
                 negb (mom_unconstrained ny nx (iraf_cutout ny nx mask d cv)
                                         (iraf_pe d (sky ny nx mask d cv)))) srcs
  | CSf ky kx im srcs =>
      forallb (fun s : Z * Z * list fval =>
                 let '(yp, xp, _) := s in
                 negb (mom_unconstrained (sf_ny ky im yp) (sf_nx kx im xp) (sf_cutout ky kx im yp xp) 0)) srcs
  end.

Definition model_out (cs : case) : list (list fval) :=
  match cs with
  | CDao ny nx mask gk s2x s2y im conv srcs =>
      map (fun s : Z * Z * list fval =>
             let '(yp, xp, _) := s in
             map (fun v => match v with Fin q => Fin (Qred q) | o => o end)
                 (dao_stats ny nx mask gk s2x s2y im conv yp xp)) srcs
  | CIraf ny nx mask im conv srcs =>
      map (fun s : Z * Z * list fval =>
             let '(yp, xp, _) := s in
             map (fun v => match v with Fin q => Fin (Qred q) | o => o end)
                 (iraf_stats ny nx mask im conv yp xp)) srcs
  | CSf ky kx im srcs =>
      map (fun s : Z * Z * list fval =>
             let '(yp, xp, _) := s in
             map (fun v => match v with Fin q => Fin (Qred q) | o => o end)
                 (sf_stats ky kx im yp xp)) srcs
  end.
