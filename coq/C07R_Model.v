(* C07R — real-number model of the second-moment SHAPE PARAMETERS of
   photutils/segmentation/catalog.py (SourceCatalog) and photutils/aperture/stats.py
   (ApertureStats): everything the code derives from the (regularised) covariance matrix

        covar = [[a, b], [b, c]]     a = covar[0,0] = covar_sigx2
                                     b = covar[0,1] = covar[1,0] = covar_sigxy
                                     c = covar[1,1] = covar_sigy2

   The exact Z/Q models C07_Model.v / C16_Model.v stop at this matrix (numerators over a common
   denominator, after the 1/12 loop).  This file transcribes, over Coq's real numbers, the
   formulas of the code that come AFTER it, in the form in which the code writes them.  No proofs
   here.

   MODELLING ASSUMPTIONS (stated, not proved — they are the interface to numpy/astropy):
   (E)  `np.linalg.eigvals(M)` of a real symmetric 2x2 matrix M returns, in an unspecified
        order, the two numbers  (a+c)/2 + sqrt(((a-c)/2)^2 + b^2)  and
        (a+c)/2 - sqrt(((a-c)/2)^2 + b^2).  The unspecified order is the parameter [swap] of
        [eigvals_raw]; C07R_Proofs shows that nothing observable depends on it.  That the two
        closed forms are exactly the eigenvalues of M (roots of the characteristic polynomial,
        with eigenvectors) is PROVED (eigenvalues_are_roots, char_poly_roots_complete, ...).
   (R)  floats are real numbers: no rounding, no signed zeros (np.arctan2(-0.0, x<0) = -pi is
        outside the model), NaN is modelled by [None] where the code produces it on purpose.
   (D)  `orientation` is an astropy Quantity in degrees; `np.cos(q)`/`np.sin(q)` of a Quantity
        in degrees convert to radians by multiplication with pi/180 ([deg2rad]);
        `x * 180.0 / np.pi` (catalog.py) and `np.rad2deg(x)` (stats.py) are both [rad2deg].
   (Z)  division: where the code divides by a quantity that can be zero numpy yields inf/NaN,
        Coq's total division yields x/0 = 0.  Every theorem that involves such a quotient
        carries the non-zero hypothesis explicitly; [*_defined] below names them. *)
From Coq Require Import Reals.
Open Scope R_scope.

(* ------------------------------------------------------------------ *)
(* np.arctan2(y, x): the angle in (-pi, pi] of the point (x, y); 0 at the origin.               *)
(* (Coq 8.16's Reals has atan but no two-argument arctangent.)                                  *)
(* ------------------------------------------------------------------ *)
Definition atan2 (y x : R) : R :=
  if Rlt_dec 0 x then atan (y / x)
  else if Rlt_dec x 0 then
         (if Rle_dec 0 y then atan (y / x) + PI else atan (y / x) - PI)
  else (* x = 0 *)
    if Rlt_dec 0 y then PI / 2
    else if Rlt_dec y 0 then - (PI / 2)
    else 0.

(* ------------------------------------------------------------------ *)
(* _covariance: the 1/12 regularisation loop (the part after mu_norm)                          *)
(* ------------------------------------------------------------------ *)
Definition delta : R := 1 / 12.                    (* delta = 1.0 / 12 *)
Definition delta2 : R := delta ^ 2.                (* delta2 = delta**2 *)
Definition cov_det (a b c : R) : R := a * c - b * b.   (* np.linalg.det of [[a,b],[b,c]] *)

(*  idx = np.where(covar_det < delta2)[0]
    while idx.size > 0:
        covar[idx, 0, 0] += delta ; covar[idx, 1, 1] += delta
        covar_det = np.linalg.det(covar) ; idx = np.where(covar_det < delta2)[0]
   (per source; fuel only makes the definition structurally recursive, [None] = out of fuel) *)
Fixpoint regularise (fuel : nat) (a b c : R) : option (R * R * R) :=
  if Rlt_dec (cov_det a b c) delta2 then
    match fuel with
    | O => None
    | S f => regularise f (a + delta) b (c + delta)
    end
  else Some (a, b, c).

(* stats.py additionally sets the matrix to NaN when the initial determinant is negative
   (NaN < delta2 is False, so the loop leaves it alone): [None] = NaN matrix *)
Definition regularise_stats (fuel : nat) (a b c : R) : option (R * R * R) :=
  if Rlt_dec (cov_det a b c) 0 then None else regularise fuel a b c.

(* ------------------------------------------------------------------ *)
(* covariance_eigvals                                                   *)
(* ------------------------------------------------------------------ *)
Definition half_gap (a b c : R) : R := sqrt (((a - c) / 2) ^ 2 + b ^ 2).
Definition eig_plus (a b c : R) : R := (a + c) / 2 + half_gap a b c.
Definition eig_minus (a b c : R) : R := (a + c) / 2 - half_gap a b c.

(* assumption (E): np.linalg.eigvals, order unspecified *)
Definition eigvals_raw (swap : bool) (a b c : R) : R * R :=
  if swap then (eig_minus a b c, eig_plus a b c) else (eig_plus a b c, eig_minus a b c).

(*  idx2 = np.unique(np.where(eigvals < 0)[0]) ; eigvals[idx2] = (nan, nan)   ([None] = NaN pair) *)
Definition neg_check (p : R * R) : option (R * R) :=
  if Rlt_dec (fst p) 0 then None else if Rlt_dec (snd p) 0 then None else Some p.
(*  eigvals.sort(axis=1) *)
Definition sort_asc (p : R * R) : R * R := (Rmin (fst p) (snd p), Rmax (fst p) (snd p)).
(*  eigvals = np.fliplr(eigvals) *)
Definition fliplr (p : R * R) : R * R := (snd p, fst p).

Definition covariance_eigvals (swap : bool) (a b c : R) : option (R * R) :=
  option_map (fun p => fliplr (sort_asc p)) (neg_check (eigvals_raw swap a b c)).

(* the value the theorems show it to be for every positive-semidefinite matrix *)
Definition eig_pair (a b c : R) : R * R := (eig_plus a b c, eig_minus a b c).

(* ------------------------------------------------------------------ *)
(* quantities computed from the eigenvalue pair  ev = (eigvals[:,0], eigvals[:,1])             *)
(* ------------------------------------------------------------------ *)
Definition semimajor_of (ev : R * R) : R := sqrt (fst ev).     (* np.sqrt(eigvals[:, 0]) *)
Definition semiminor_of (ev : R * R) : R := sqrt (snd ev).     (* np.sqrt(eigvals[:, 1]) *)
(*  2.0 * np.sqrt(np.log(2.0) * (semimajor_sigma**2 + semiminor_sigma**2)) *)
Definition fwhm_of (ev : R * R) : R :=
  2 * sqrt (ln 2 * (semimajor_of ev ^ 2 + semiminor_of ev ^ 2)).
(*  semimajor_var, semiminor_var = np.transpose(covariance_eigvals)
    np.sqrt(1.0 - (semiminor_var / semimajor_var)) *)
Definition eccentricity_of (ev : R * R) : R := sqrt (1 - snd ev / fst ev).
(*  semimajor_sigma / semiminor_sigma *)
Definition elongation_of (ev : R * R) : R := semimajor_of ev / semiminor_of ev.
(*  1.0 - (semiminor_sigma / semimajor_sigma) *)
Definition ellipticity_of (ev : R * R) : R := 1 - semiminor_of ev / semimajor_of ev.

(* ------------------------------------------------------------------ *)
(* orientation                                                          *)
(* ------------------------------------------------------------------ *)
(*  orient_radians = 0.5 * np.arctan2(2.0 * covar[:, 0, 1], (covar[:, 0, 0] - covar[:, 1, 1])) *)
Definition orientation_rad (a b c : R) : R := (1 / 2) * atan2 (2 * b) (a - c).
(*  orient_radians * 180.0 / np.pi * u.deg      |     np.rad2deg(orient_radians) * u.deg *)
Definition rad2deg (x : R) : R := x * 180 / PI.
Definition orientation (a b c : R) : R := rad2deg (orientation_rad a b c).   (* degrees *)
(* assumption (D): trigonometric ufuncs on a Quantity in degrees *)
Definition deg2rad (q : R) : R := q * (PI / 180).
Definition cos_deg (q : R) : R := cos (deg2rad q).
Definition sin_deg (q : R) : R := sin (deg2rad q).

(* ------------------------------------------------------------------ *)
(* ellipse coefficients, from orientation (degrees) and the semi-axes                          *)
(* ------------------------------------------------------------------ *)
(*  (np.cos(orientation) / semimajor_sigma)**2 + (np.sin(orientation) / semiminor_sigma)**2 *)
Definition cxx_of (ev : R * R) (o : R) : R :=
  (cos_deg o / semimajor_of ev) ^ 2 + (sin_deg o / semiminor_of ev) ^ 2.
(*  (np.sin(orientation) / semimajor_sigma)**2 + (np.cos(orientation) / semiminor_sigma)**2 *)
Definition cyy_of (ev : R * R) (o : R) : R :=
  (sin_deg o / semimajor_of ev) ^ 2 + (cos_deg o / semiminor_of ev) ^ 2.
(*  2.0 * np.cos(orientation) * np.sin(orientation)
        * ((1.0 / semimajor_sigma**2) - (1.0 / semiminor_sigma**2)) *)
Definition cxy_of (ev : R * R) (o : R) : R :=
  2 * cos_deg o * sin_deg o * (1 / semimajor_of ev ^ 2 - 1 / semiminor_of ev ^ 2).

(*  np.sqrt(area / np.pi) *)
Definition equivalent_radius (area : R) : R := sqrt (area / PI).

(* ------------------------------------------------------------------ *)
(* the row of shape parameters the code produces for one source                                *)
(* ------------------------------------------------------------------ *)
Record shape := {
  s_eigvals : R * R;          (* covariance_eigvals, decreasing *)
  s_semimajor : R; s_semiminor : R; s_fwhm : R;
  s_eccentricity : R; s_elongation : R; s_ellipticity : R;
  s_cxx : R; s_cyy : R; s_cxy : R }.

Definition shape_of_eig (ev : R * R) (o : R) : shape := {|
  s_eigvals := ev;
  s_semimajor := semimajor_of ev; s_semiminor := semiminor_of ev; s_fwhm := fwhm_of ev;
  s_eccentricity := eccentricity_of ev; s_elongation := elongation_of ev;
  s_ellipticity := ellipticity_of ev;
  s_cxx := cxx_of ev o; s_cyy := cyy_of ev o; s_cxy := cxy_of ev o |}.

(* [None]: the eigenvalue pair was set to NaN by the negative-variance check, which makes every
   quantity of the record NaN (orientation does not read the eigenvalues and stays a number) *)
Definition shape_row (swap : bool) (a b c : R) : option shape :=
  option_map (fun ev => shape_of_eig ev (orientation a b c)) (covariance_eigvals swap a b c).

(* ------------------------------------------------------------------ *)
(* specification vocabulary used by the theorems                                                *)
(* ------------------------------------------------------------------ *)
Definition PSD (a b c : R) : Prop := 0 <= a /\ 0 <= c /\ 0 <= cov_det a b c.
(* characteristic polynomial det(M - x I) *)
Definition char_poly (a b c x : R) : R := x ^ 2 - (a + c) * x + cov_det a b c.
(* (u, v) is an eigenvector of [[a,b],[b,c]] for the value lam *)
Definition eigvec (a b c lam u v : R) : Prop :=
  a * u + b * v = lam * u /\ b * u + c * v = lam * v.
(* shorthands on the proved eigenvalue pair *)
Definition semimajor (a b c : R) : R := semimajor_of (eig_pair a b c).
Definition semiminor (a b c : R) : R := semiminor_of (eig_pair a b c).
Definition fwhm (a b c : R) : R := fwhm_of (eig_pair a b c).
Definition eccentricity (a b c : R) : R := eccentricity_of (eig_pair a b c).
Definition elongation (a b c : R) : R := elongation_of (eig_pair a b c).
Definition ellipticity (a b c : R) : R := ellipticity_of (eig_pair a b c).
Definition cxx (a b c : R) : R := cxx_of (eig_pair a b c) (orientation a b c).
Definition cyy (a b c : R) : R := cyy_of (eig_pair a b c) (orientation a b c).
Definition cxy (a b c : R) : R := cxy_of (eig_pair a b c) (orientation a b c).
(* the quotients of the code that numpy evaluates to inf/NaN instead of a number: assumption (Z) *)
Definition eccentricity_defined (a b c : R) : Prop := eig_plus a b c <> 0.
Definition elongation_defined (a b c : R) : Prop := semiminor a b c <> 0.
Definition ellipticity_defined (a b c : R) : Prop := semimajor a b c <> 0.
Definition ellipse_coeffs_defined (a b c : R) : Prop := semimajor a b c <> 0 /\ semiminor a b c <> 0.
