(* C06 -- TRANSLATOR TIE.  gen/Gen_deblend.v is REGENERATED from the current source text of
   photutils/segmentation/deblend.py on every run (harness/translate_all.py); it is not committed.
   The pure integer / rational logic of deblend_sources is tied, for ALL inputs, to C06_Model.v:
     the argument guards  nlevels < 1,  contrast < 0 or contrast > 1,  contrast == 1,  mode not in (...)
                                                                     = the first tests of deblend_sources
     mask = areas[...] >= npixels * 2  (one label)                   = the filter of [selected]
     max_label += len(new_labels)  in the serial AND in the parallel merge loop = maxlab of merge_one
     max_label > np.iinfo(dtype).max                                 = the overflow test of [finish]
     _create_relabel_map: len(labels) == 0 and the "already consecutive" test   = create_relabel_map
     deblend_source: len(_get_labels(markers)) == 1                  = the PNone test of deblend_source_post
   Array-valued sub-expressions (areas[...], len(new_labels), labels[0], np.iinfo(...).max) are declared
   abstract integer arguments. *)
From Coq Require Import List Arith ZArith QArith Bool String Lia ZifyBool.
From PV Require Import lib.Cases lib.PyGen C06_Model gen.Gen_deblend.
Import ListNotations.
Open Scope Z_scope.

(* ---------- argument guards ---------- *)
Theorem gen_nlevels_invalid_eq : forall n, gen_nlevels_invalid n = (n <? 1).
Proof. intros. unfold gen_nlevels_invalid. lia. Qed.

(* contrast = cn / cd *)
Theorem gen_contrast_invalid_eq : forall cn (cd : positive),
  gen_contrast_invalid (cn # cd) = ((cn <? 0) || (Zpos cd <? cn)).
Proof.
  intros. unfold gen_contrast_invalid. q_split; q_hyps; unfold Qlt, Qle in *; cbn [Qnum Qden] in *; lia.
Qed.
Theorem gen_contrast_no_deblending_eq : forall cn (cd : positive),
  gen_contrast_no_deblending (cn # cd) = (cn =? Zpos cd).
Proof.
  intros. unfold gen_contrast_no_deblending. q_split; q_hyps; unfold Qeq in *; cbn [Qnum Qden] in *; lia.
Qed.

Theorem gen_mode_invalid_iff : forall m : string,
  gen_mode_invalid m = false <-> (m = "exponential" \/ m = "linear" \/ m = "sinh")%string.
Proof.
  intros. unfold gen_mode_invalid. rewrite negb_false_iff, !orb_true_iff, !String.eqb_eq. tauto.
Qed.

(* the model's deblend_sources starts with exactly these tests, in the order of the code *)
Theorem gen_deblend_argument_guards : forall ny nx seg raw warns inmap npix labels_arg nlevels cn (cd : positive)
    mode_ok relabel dtmax nproc order,
  let run := deblend_sources ny nx seg raw warns inmap npix labels_arg nlevels (cn, Zpos cd) mode_ok relabel dtmax nproc order in
  (gen_nlevels_invalid nlevels = true -> run = Err ValueErr) /\
  (gen_nlevels_invalid nlevels = false -> gen_contrast_invalid (cn # cd) = true -> run = Err ValueErr) /\
  (gen_nlevels_invalid nlevels = false -> gen_contrast_invalid (cn # cd) = false ->
   gen_contrast_no_deblending (cn # cd) = true ->
   run = Ok {| r_data := seg; r_dmap := inmap; r_npm := []; r_nmk := []; r_input := seg |}) /\
  (gen_nlevels_invalid nlevels = false -> gen_contrast_invalid (cn # cd) = false ->
   gen_contrast_no_deblending (cn # cd) = false -> mode_ok = false -> run = Err ValueErr).
Proof.
  intros. subst run. unfold deblend_sources.
  rewrite gen_nlevels_invalid_eq, gen_contrast_invalid_eq, gen_contrast_no_deblending_eq.
  repeat split.
  - intros ->. reflexivity.
  - intros -> ->. reflexivity.
  - intros -> -> ->. reflexivity.
  - intros -> -> -> ->. reflexivity.
Qed.

(* ---------- the 2 * npixels selection ---------- *)
Theorem gen_label_selected_eq : forall (npix a : nat),
  gen_label_selected (Z.of_nat npix) (Z.of_nat a) = (2 * npix <=? a)%nat.
Proof. intros. unfold gen_label_selected. cbv zeta. lia. Qed.

Theorem gen_selected_is_filter : forall ny nx seg npix labels_arg,
  selected ny nx seg npix labels_arg =
  option_map (filter (fun l => gen_label_selected (Z.of_nat npix) (Z.of_nat (area ny nx seg l))))
    (match labels_arg with
     | None => Some (uniq_labels (segvals ny nx seg))
     | Some ls => if check_labels (uniq_labels (segvals ny nx seg)) ls then Some ls else None
     end).
Proof.
  intros. unfold selected. cbv zeta.
  match goal with |- match ?x with _ => _ end = option_map _ ?y => change y with x; destruct x as [l0|] end;
    [|reflexivity].
  cbn [option_map]. f_equal. apply filter_ext. intro l. rewrite gen_label_selected_eq. reflexivity.
Qed.

(* ---------- label bookkeeping ---------- *)
Theorem gen_max_label_same_in_both_loops : forall m n, gen_max_label_serial m n = gen_max_label_parallel m n.
Proof. intros. unfold gen_max_label_serial, gen_max_label_parallel. cbv zeta. lia. Qed.

Lemma lookup_dict_set_same k v d : lookup k (dict_set k v d) = Some v.
Proof.
  induction d as [|[k' v'] d IH]; cbn.
  - rewrite Nat.eqb_refl. reflexivity.
  - destruct (k' =? k)%nat eqn:E; cbn; rewrite ?E; [rewrite Nat.eqb_refl; reflexivity|exact IH].
Qed.

(* merging a deblended source: max_label grows by the number of new labels recorded for the parent *)
Theorem gen_max_label_is_merge_one : forall ny nx seg s l child w,
  let s' := merge_one ny nx seg s (l, (PSome child, w)) in
  exists newl, lookup l (dmap s') = Some newl /\
    Z.of_nat (maxlab s') = gen_max_label_serial (Z.of_nat (maxlab s)) (Z.of_nat (List.length newl)).
Proof.
  intros ny nx seg s l child [w1 w2]. cbv zeta. unfold merge_one. cbn [dmap maxlab].
  eexists. split; [apply lookup_dict_set_same|]. unfold gen_max_label_serial. cbv zeta. lia.
Qed.

Theorem gen_labels_overflow_eq : forall (ml : nat) m, gen_labels_overflow (Z.of_nat ml) m = (m <? Z.of_nat ml).
Proof. intros. unfold gen_labels_overflow. lia. Qed.

Theorem gen_labels_overflow_rejects : forall ny nx seg relabel m s,
  gen_labels_overflow (Z.of_nat (maxlab s)) m = true -> finish ny nx seg relabel (Some m) s = Err ValueErr.
Proof. intros * H. rewrite gen_labels_overflow_eq in H. unfold finish. rewrite H. reflexivity. Qed.

(* ---------- _create_relabel_map ---------- *)
Theorem gen_create_relabel_map_tests : forall labs : list nat, (labs = [] \/ 1 <= last labs 0)%nat ->
  create_relabel_map labs =
  if gen_relabel_no_labels (Z.of_nat (List.length labs)) then None
  else if gen_relabel_consecutive 1 (Z.of_nat (List.length labs)) (Z.of_nat (hd 0%nat labs)) (Z.of_nat (last labs 0%nat))
       then None else Some (relabel_fun labs).
Proof.
  intros labs H. unfold create_relabel_map, gen_relabel_no_labels, gen_relabel_consecutive.
  destruct (List.length labs =? 0)%nat eqn:E0.
  - assert (Z.of_nat (List.length labs) =? 0 = true) as -> by lia. reflexivity.
  - assert (Z.of_nat (List.length labs) =? 0 = false) as -> by lia.
    destruct H as [->|H]; [cbn in E0; discriminate|].
    match goal with |- (if ?a then _ else _) = (if ?b then _ else _) => assert (a = b) as -> by lia end.
    reflexivity.
Qed.

Theorem gen_single_marker_eq : forall labs : list nat,
  gen_single_marker (Z.of_nat (List.length labs)) = (List.length labs =? 1)%nat.
Proof. intros. unfold gen_single_marker. lia. Qed.

Print Assumptions gen_nlevels_invalid_eq.
Print Assumptions gen_contrast_invalid_eq.
Print Assumptions gen_contrast_no_deblending_eq.
Print Assumptions gen_mode_invalid_iff.
Print Assumptions gen_deblend_argument_guards.
Print Assumptions gen_label_selected_eq.
Print Assumptions gen_selected_is_filter.
Print Assumptions gen_max_label_same_in_both_loops.
Print Assumptions lookup_dict_set_same.
Print Assumptions gen_max_label_is_merge_one.
Print Assumptions gen_labels_overflow_eq.
Print Assumptions gen_labels_overflow_rejects.
Print Assumptions gen_create_relabel_map_tests.
Print Assumptions gen_single_marker_eq.
