(* C08 — indexing a catalog commutes with evaluating its properties; a sliced catalog is
   independent of its parent.  Statements only; proofs in C08_Proofs.v.

   Reading guide.  [K : cls] is the class description (SourceCatalog or ApertureStats:
   lazyproperty names, decorator flags, per-source value function [c_f K role p s]);
   [Run K (init_world n hd d0) ops] is the world reached from a fresh catalog of [n] sources
   (with/without detection catalog) by an arbitrary history [ops] of reads (with arbitrary
   traces), indexings, add/rename/remove_extra_property, photometry methods and to_table;
   [Getitem K] is __getitem__; [Read K c p trm trd] is [c.p] (lazy evaluation with trace).
   [cls_ok] are two facts about the real classes that the harness re-checks on every run. *)
From Coq Require Import List ZArith Bool.
From PV Require Import lib.Cases C08_Model C08_Proofs.
Import ListNotations.

(* cat[idx].p = select idx (cat.p) for every history before the indexing (so: whether p was
   evaluated before or not, on parent or child), every valid index form, every property p
   defined per source, including the scalar shape of single-source results. *)
Theorem getitem_commutes :
  forall K n hd d0 ops j idx h' c' ch,
  cls_ok K -> d0_ok (c_lazy K) n d0 ->
  let w := fst (Run K (init_world n hd d0) ops) in
  Getitem K (heap w) (wcat w j) idx = (h', c', Ok ch) ->
  exists sc pos, resolve idx (length (src (main (wcat w j)))) = Some (sc, pos) /\ scal (main ch) = sc /\
    forall p, Per_source K p ->
    forall trm trd trm' trd',
      let vch := snd (Read K ch p trm trd) in
      let vpar := snd (Read K c' p trm' trd') in
      elems vch = pick 0%Z (elems vpar) pos /\
      (sc = true -> Public_scalar K p -> exists x, vch = CScal x) /\
      (sc = false -> exists k, vch = CCont k (pick 0%Z (elems vpar) pos)).
Proof. exact getitem_commutes_K. Qed.
Print Assumptions getitem_commutes.

(* ... and the parent reports the same values after the indexing as before *)
Theorem getitem_parent_unchanged :
  forall K n hd d0 ops j idx h' c' r,
  cls_ok K -> d0_ok (c_lazy K) n d0 ->
  let w := fst (Run K (init_world n hd d0) ops) in
  Getitem K (heap w) (wcat w j) idx = (h', c', r) ->
  forall p, Per_source K p -> forall trm trd trm' trd',
    elems (snd (Read K c' p trm trd)) = elems (snd (Read K (wcat w j) p trm' trd')).
Proof. exact getitem_parent_unchanged_K. Qed.
Print Assumptions getitem_parent_unchanged.

(* every index expression that is valid for the catalog length succeeds (no IndexError /
   TypeError while re-slicing whatever happens to be cached) *)
Theorem getitem_total :
  forall K n hd d0 ops j idx,
  cls_ok K -> d0_ok (c_lazy K) n d0 ->
  let w := fst (Run K (init_world n hd d0) ops) in
  scal (main (wcat w j)) = false -> resolve idx (length (src (main (wcat w j)))) <> None ->
  exists h' c' ch, Getitem K (heap w) (wcat w j) idx = (h', c', Ok ch).
Proof. exact getitem_total_K. Qed.
Print Assumptions getitem_total.

(* every read on every reachable catalog is the per-source value function: results do not
   depend on the history *)
Theorem reads_are_per_source :
  forall K n hd d0 ops j p trm trd,
  cls_ok K -> d0_ok (c_lazy K) n d0 -> Per_source K p ->
  let w := fst (Run K (init_world n hd d0) ops) in
  let c := wcat w j in
  let v := snd (Read K c p trm trd) in
  elems v = map (c_f K (Prole K (hasdet c) p) p) (src (main c)) /\
  (scal (main c) = false -> exists k, v = CCont k (map (c_f K (Prole K (hasdet c) p) p) (src (main c)))) /\
  (scal (main c) = true -> Public_scalar K p -> exists x, v = CScal x).
Proof. exact read_reachable_K. Qed.
Print Assumptions reads_are_per_source.

(* which __dict__ keys the child inherits, and with which value *)
Theorem child_cache_keys :
  forall K n hd d0 ops j idx h' c' ch,
  cls_ok K -> d0_ok (c_lazy K) n d0 ->
  let w := fst (Run K (init_world n hd d0) ops) in
  Getitem K (heap w) (wcat w j) idx = (h', c', Ok ch) ->
  (exists sc pos, resolve idx (length (src (main (wcat w j)))) = Some (sc, pos) /\
     forall p, lookup p (dict (main ch)) = Child_entry K (Extras_of K (heap w) (wcat w j)) (main c') sc idx pos p) /\
  forall p, lookup p (dict (main ch)) <> None <->
            (In p (c_isc_trace K ++ [c_isscalar K]) \/
             (Copied K (Extras_of K (heap w) (wcat w j)) p = true /\
              exists k l, lookup p (dict (main c')) = Some (CCont k l))).
Proof. exact child_cache_keys_K. Qed.
Print Assumptions child_cache_keys.

(* repaired __getitem__ (the child owns a copy of the _extra_properties list): no operation
   on one catalog changes the state or the registry of any other catalog of the world, hence
   no observation (extra_properties, to_table, __dict__, any read) of the other changes *)
Theorem slices_independent :
  forall K n hd d0 ops o k,
  cls_ok K -> c_copyx K = true -> d0_ok (c_lazy K) n d0 ->
  let w := fst (Run K (init_world n hd d0) ops) in
  Valid_run K (init_world n hd d0) ops -> op_target o < length (cats w) ->
  k < length (cats w) -> k <> op_target o ->
  report (fst (Step K w o)) k = report w k /\
  forall o', observes o' = true -> op_target o' = k -> snd (Step K (fst (Step K w o)) o') = snd (Step K w o').
Proof. exact slices_independent_K. Qed.
Print Assumptions slices_independent.

(* the unrepaired __getitem__ (list copied by reference) violates it: after child =
   cat[0:2]; child.add_extra_property(...), the parent's extra_properties lists the new
   name and parent.to_table(columns=extra_properties) raises AttributeError *)
Theorem slices_independent_refuted :
  exists K ops o, cls_ok K /\ c_copyx K = false /\
    let w := fst (Run K (init_world 3 false []) ops) in
    Valid_run K (init_world 3 false []) ops /\ op_target o < length (cats w) /\ op_target o <> 0 /\
    snd (Step K (fst (Step K w o)) (OExtras 0)) <> snd (Step K w (OExtras 0)) /\
    snd (Step K (fst (Step K w o)) (OTable 0)) = BErr eAttr.
Proof.
  exists (ex_cls false), refuting_history, (OAdd 1 10%Z (CCont KArr [41; 42]%Z) false).
  split; [apply ex_cls_ok|]. split; [reflexivity|].
  destruct slices_not_independent_shared as (A & B & C & D & E).
  split; [exact A|]. split; [exact B|]. split; [discriminate|]. split; [|exact E].
  rewrite C, D. discriminate.
Qed.
Print Assumptions slices_independent_refuted.

(* index forms: positions are in range; only an integer index gives a scalar child *)
Theorem index_positions_in_range :
  forall idx n sc pos, resolve idx n = Some (sc, pos) -> Forall (fun p => p < n) pos.
Proof. exact resolve_lt. Qed.
Print Assumptions index_positions_in_range.

Theorem scalar_iff_integer_index :
  forall idx n sc pos, resolve idx n = Some (sc, pos) ->
  (sc = true -> exists i, pos = [i]) /\ (sc = true <-> exists i, idx = IInt i).
Proof. exact resolve_scalar. Qed.
Print Assumptions scalar_iff_integer_index.

(* get_label(s) / get_id(s) index exactly the sources carrying the requested labels *)
Theorem get_label_selects :
  forall rl c one labs idx, label_index rl c one labs = Some idx ->
  exists pos, resolve idx (length (src (main c))) = Some (one, pos) /\
              map (fun i => nth (nth i (src (main c)) 0) rl 0%Z) pos = labs.
Proof. exact label_index_spec. Qed.
Print Assumptions get_label_selects.

(* ---------- the hypotheses are satisfiable; concrete instances ---------- *)
Example cls_ok_satisfiable : cls_ok (ex_cls true) /\ d0_ok (c_lazy (ex_cls true)) 3 [].
Proof. split; [apply ex_cls_ok|apply ex_d0_ok]. Qed.

Example per_source_satisfiable :
  Per_source (ex_cls true) 3%Z /\ Public_scalar (ex_cls true) 3%Z /\ Per_source (ex_cls true) 4%Z.
Proof.
  split; [right; repeat split; intros []; reflexivity|].
  split; [split; [reflexivity|intros []; reflexivity]|right; repeat split; intros []; reflexivity].
Qed.

(* catalog with detection catalog; area (3) evaluated before, _xcentroid (4) after; index [2, 0] and -1 *)
Example commute_instance :
  let K := ex_cls true in
  let w := fst (Run K (init_world 3 true []) [OEval 0 3%Z [] [4%Z; 3%Z]]) in
  match Getitem K (heap w) (wcat w 0) (IList [2; 0]%Z), Getitem K (heap w) (wcat w 0) (IInt (-1)) with
  | (_, c', Ok ch), (_, _, Ok ch1) =>
      snd (Read K ch 3%Z [] []) = CCont KList [1302; 1300]%Z /\
      snd (Read K c' 3%Z [] []) = CCont KList [1300; 1301; 1302]%Z /\
      snd (Read K ch 4%Z [] [4%Z]) = CCont KArr [1402; 1400]%Z /\
      snd (Read K ch1 3%Z [] []) = CScal 1302%Z /\
      snd (Read K ch1 4%Z [] [4%Z]) = CCont KArr [1402]%Z
  | _, _ => False
  end.
Proof. vm_compute. repeat split. Qed.

Example valid_run_satisfiable :
  Valid_run (ex_cls true) (init_world 3 false [])
    [OIndex 0 (IMask [true; false; true]); OAdd 1 10%Z (CCont KArr [41; 42]%Z) false; ORename 1 10%Z 11%Z [] [];
     OIndex 1 (IInt 0); ORemove 1 [11%Z]; OTable 0].
Proof. vm_compute. repeat split; apply Nat.leb_le; reflexivity. Qed.
