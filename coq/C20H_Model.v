(* C20H — stretch of C20: the HARMONIC ANALYSIS and the GEOMETRY CORRECTORS of the isophote
   fitter, in exact arithmetic over Q.  (C20_Model.v has the control skeleton of fit_image and
   the fitter loop driven by oracle observations; C20I_Model.v has the sampling code.  Here the
   oracle observations of the fitter loop are COMPUTED from the harmonic amplitudes, the
   gradient and the geometry, with the formulas of the code.)

   Modelled, statement by statement, as coded on /repo:

   (1) harmonics.py:26-55  first_and_second_harmonic_function
         c[0] + c[1]*sin(phi) + c[2]*cos(phi) + c[3]*sin(2*phi) + c[4]*cos(2*phi)
       harmonics.py:58-93  fit_first_and_second_harmonics,  96-134 fit_upper_harmonic
         (1, sin(order*phi), cos(order*phi)):  scipy.optimize.leastsq on residuals that are
       LINEAR in the coefficients.  leastsq itself (MINPACK lmdif, iterative) is NOT modelled:
       its answer is specified as "a coefficient vector satisfying the normal equations"
       ([normal_eq], a relation), and, separately, computed by a fraction-free (Bareiss) inversion of the Gram matrix that is checked over Q
       ([ls_solve]) for the correspondence.  The design matrix is a function  A i j  (sample i,
       column j); the values sin(phi_i), cos(phi_i), sin(2 phi_i), cos(2 phi_i) are INPUTS
       (exact rationals recorded from numpy).  No trigonometric fact is needed for the
       least-squares theorems; c^2+s^2 = 1 and the double-angle relations c2 = c^2-s^2,
       s2 = 2 s c are hypotheses of the first-order response lemmas only (C20H_Proofs).
   (2) fitter.py:305-377  _PositionCorrector0/1, _AngleCorrector, _EllipticityCorrector, with the
       gradient, sma, and math.sin/cos(pa) as inputs; `% np.pi` is Python's float modulo
       (np.pi is a binary64 number, i.e. a rational: [pymod]).
   (3) fitter.py:199-200 the convergence test
         conver * sample.sector_area * np.std(residual) > np.abs(largest_harmonic)  and  i >= minit-1
       decided on squares ([conv_test]; np.std is a square root), and the whole loop
       fitter.py:148-251 by INSTANTIATING the oracle observations of C20_Model.fit_loop
       ([obs_of], [obs_along], [hfit]); the choice of the corrector is C20_Model.argmax_masked and
       the loop is C20_Model.fit_loop — neither is re-modelled.

   Where the code divides by zero (gradient = 0 is excluded by the loop before a corrector runs;
   eps = 0 or eps = 2 in the angle corrector; sma = 0) numpy returns inf/nan; Coq's  x / 0 = 0.
   Those inputs are outside the model ([corr_defined]). *)
From Coq Require Import List ZArith Bool QArith Qround.
From PV Require Import lib.Cases C20_Model.
Import ListNotations.
Open Scope Q_scope.

(* ------------------------------------------------------------------ *)
(* sums                                                                *)
(* ------------------------------------------------------------------ *)
(* sum_{i < n} f i : [sumu] plain, [sumn] the same value in lowest terms *)
Fixpoint sumu (n : nat) (f : nat -> Q) : Q :=
  match n with O => 0 | S m => sumu m f + f m end.
Definition sumn (n : nat) (f : nat -> Q) : Q := Qred (sumu n f).

(* ------------------------------------------------------------------ *)
(* (1) linear least squares: residuals, normal equations               *)
(* ------------------------------------------------------------------ *)
Section LeastSquares.
Variables (n k : nat).               (* number of samples, number of coefficients *)
Variable A : nat -> nat -> Q.        (* design matrix: A i j, sample i < n, column j < k *)
Variable y : nat -> Q.               (* data *)

Definition dotr (c : nat -> Q) (i : nat) : Q := sumn k (fun j => A i j * c j).     (* (A c)_i *)
Definition resid (c : nat -> Q) (i : nat) : Q := dotr c i - y i.                   (* optimize_func *)
Definition rss (c : nat -> Q) : Q := sumn n (fun i => resid c i * resid c i).
(* (A^T (A c - y))_j *)
Definition grad (c : nat -> Q) (j : nat) : Q := sumn n (fun i => A i j * resid c i).
Definition normal_eq (c : nat -> Q) : Prop := forall j, (j < k)%nat -> grad c j == 0.
Definition minimiser (c : nat -> Q) : Prop := forall c', rss c <= rss c'.
(* Gram matrix A^T A and right-hand side A^T y *)
Definition gram (j j' : nat) : Q := sumn n (fun i => A i j * A i j').
Definition rhs (j : nat) : Q := sumn n (fun i => A i j * y i).
(* the data are exactly of the model's form with coefficients cs *)
Definition exact_form (cs : nat -> Q) : Prop := forall i, (i < n)%nat -> y i == dotr cs i.
End LeastSquares.

(* ---- lists ---- *)
Definition Aof (rows : list (list Q)) (i j : nat) : Q := nth j (nth i rows []) 0.
Definition vof (l : list Q) (i : nat) : Q := nth i l 0.
Definition tab (k : nat) (f : nat -> Q) : list Q := map f (seq 0 k).
Definition tab2 (k : nat) (f : nat -> nat -> Q) : list (list Q) := map (fun j => tab k (f j)) (seq 0 k).

(* harmonics.py:54-55: one row of the design matrix / the fitted function, (s, c, s2, c2) =
   (sin phi, cos phi, sin 2phi, cos 2phi) *)
Definition harm_row (t : Q * Q * Q * Q) : list Q := let '(s, c, s2, c2) := t in [1; s; c; s2; c2].
Definition harm_fun (t : Q * Q * Q * Q) (co : list Q) : Q :=
  let '(s, c, s2, c2) := t in
  vof co 0 + vof co 1 * s + vof co 2 * c + vof co 3 * s2 + vof co 4 * c2.
(* harmonics.py:131-132: (sn, cn) = (sin(order*phi), cos(order*phi)) *)
Definition upper_row (t : Q * Q) : list Q := let '(sn, cn) := t in [1; sn; cn].
Definition upper_fun (t : Q * Q) (co : list Q) : Q :=
  let '(sn, cn) := t in vof co 0 + vof co 1 * sn + vof co 2 * cn.

Definition gram_l (rows : list (list Q)) (k : nat) : list (list Q) :=
  tab2 k (fun j j' => gram (length rows) (Aof rows) j j').
Definition rhs_l (rows : list (list Q)) (ys : list Q) (k : nat) : list Q :=
  tab k (fun j => rhs (length rows) (Aof rows) (vof ys) j).
Definition grad_l (rows : list (list Q)) (ys : list Q) (k : nat) (c : list Q) : list Q :=
  tab k (fun j => grad (length rows) k (Aof rows) (vof ys) (vof c) j).
Definition Qabs' (q : Q) : Q := if Qle_bool 0 q then q else - q.
(* every normal equation holds up to tol *)
Definition ne_check (rows : list (list Q)) (ys : list Q) (k : nat) (c : list Q) (tol : Q) : bool :=
  forallb (fun g => Qle_bool (Qabs' g) tol) (grad_l rows ys k c).

(* ---- a computable solver: fraction-free Gauss-Jordan (Bareiss) inversion of the Gram matrix ----
   The matrix is scaled to integers by the least common denominator; nothing about the elimination is
   trusted: its result is CHECKED to be a two-sided inverse by [inverse_ok]. *)
Fixpoint qmap2 (f : Q -> Q -> Q) (a b : list Q) : list Q :=
  match a, b with x :: a', y :: b' => f x y :: qmap2 f a' b' | _, _ => [] end.
Fixpoint zmap2 (f : Z -> Z -> Z) (a b : list Z) : list Z :=
  match a, b with x :: a', y :: b' => f x y :: zmap2 f a' b' | _, _ => [] end.
(* first row with a non-zero entry in column col, and the other rows in order *)
Fixpoint find_pivot (col : nat) (rows : list (list Z)) : option (list Z * list (list Z)) :=
  match rows with
  | [] => None
  | r :: rest =>
      if (nth col r 0 =? 0)%Z
      then match find_pivot col rest with
           | Some (p, others) => Some (p, r :: others)
           | None => None
           end
      else Some (r, rest)
  end.
(* one step: every other row r becomes (p r - r[col] pivot_row) / previous_pivot (exact division) *)
Fixpoint bareiss (steps col : nat) (pp : Z) (done todo : list (list Z)) : option (Z * list (list Z)) :=
  match steps with
  | O => Some (pp, done)
  | S st =>
      match find_pivot col todo with
      | None => None
      | Some (pr, others) =>
          let p := nth col pr 0%Z in
          let elim r := zmap2 (fun x y => ((p * x - nth col r 0 * y) / pp)%Z) r pr in
          bareiss st (S col) p (map elim done ++ [pr]) (map elim others)
      end
  end.
Definition common_den (G : list (list Q)) : Z :=
  fold_right (fun r d => fold_right (fun q d' => Z.lcm (Z.pos (Qden q)) d') d r) 1%Z G.
Definition inverse (k : nat) (G : list (list Q)) : option (list (list Q)) :=
  let G := map (map Qred) G in
  let D := common_den G in
  let aug := map (fun j => map (fun q => (QArith_base.Qnum q * (D / Z.pos (Qden q)))%Z) (firstn k (nth j G []))
                           ++ map (fun j' => if Nat.eqb j j' then 1%Z else 0%Z) (seq 0 k)) (seq 0 k) in
  match bareiss k 0 1%Z [] aug with
  | None => None
  | Some (d, rows) =>
      if (d =? 0)%Z then None
      else Some (map (fun r => map (fun z => Qred (inject_Z (z * D) / inject_Z d)) (skipn k r)) rows)
  end.

Definition mmul (k : nat) (M G : nat -> nat -> Q) (l j' : nat) : Q := sumu k (fun j => M l j * G j j').
Definition delta (l j : nat) : Q := if Nat.eqb l j then 1 else 0.
Definition is_identity (k : nat) (P : nat -> nat -> Q) : bool :=
  forallb (fun l => forallb (fun j => Qeq_bool (P l j) (delta l j)) (seq 0 k)) (seq 0 k).
(* M is a two-sided inverse of G: decided by computation, nothing about the elimination is trusted *)
Definition inverse_ok (k : nat) (G M : list (list Q)) : bool :=
  is_identity k (mmul k (Aof M) (Aof G)) && is_identity k (mmul k (Aof G) (Aof M)).
(* THE RANK CONDITION as a computable predicate: the k x k Gram matrix of the rows has a
   (computed and checked) inverse *)
Definition gram_inverse (rows : list (list Q)) (k : nat) : option (list (list Q)) :=
  match inverse k (gram_l rows k) with
  | Some M => if inverse_ok k (gram_l rows k) M then Some M else None
  | None => None
  end.
Definition nonsingular (rows : list (list Q)) (k : nat) : bool :=
  match gram_inverse rows k with Some _ => true | None => false end.
Definition mvec (k : nat) (M : list (list Q)) (b : list Q) : list Q :=
  tab k (fun l => sumn k (fun j => Aof M l j * vof b j)).
Definition ls_solve (rows : list (list Q)) (ys : list Q) (k : nat) : option (list Q) :=
  option_map (fun M => mvec k M (rhs_l rows ys k)) (gram_inverse rows k).

(* ------------------------------------------------------------------ *)
(* (2) the four correctors                                             *)
(* ------------------------------------------------------------------ *)
Notation geomQ := (geom Qnum).
Definition gx (g : geomQ) : Q := g_x0 Qnum g.
Definition gy (g : geomQ) : Q := g_y0 Qnum g.
Definition gpa (g : geomQ) : Q := g_pa Qnum g.
Definition geps (g : geomQ) : Q := g_eps Qnum g.
Definition mkg (x y pa eps : Q) : geomQ := mkgeom Qnum x y pa eps.

(* Python  x % p  for floats, p > 0: fmod is exact, the result has the sign of p *)
Definition pymod (x p : Q) : Q := x - inject_Z (Qfloor (x / p)) * p.
Definition qmin (a b : Q) : Q := pymin Qnum a b.                 (* builtin min(a, b) *)

Section Correctors.
Variables (max_eps pi_ : Q).         (* MAX_EPS, np.pi *)
Variables (sma grad_ : Q).           (* sample.geometry.sma, sample.gradient *)
Variables (sinpa cospa : Q).         (* math.sin(sample.geometry.pa), math.cos(sample.geometry.pa) *)

(* (the new values are kept in lowest terms: Qred does not change the value)
   fitter.py:320-327 *)
Definition pos0_aux (h : Q) (g : geomQ) : Q := - h * (1 - geps g) / grad_.
Definition pos0 (h : Q) (g : geomQ) : geomQ :=
  let aux := pos0_aux h g in
  let dx := - aux * sinpa in
  let dy := aux * cospa in
  mkg (Qred (gx g + dx)) (Qred (gy g + dy)) (gpa g) (geps g).
(* fitter.py:330-337 *)
Definition pos1_aux (h : Q) : Q := - h / grad_.
Definition pos1 (h : Q) (g : geomQ) : geomQ :=
  let aux := pos1_aux h in
  let dx := aux * cospa in
  let dy := aux * sinpa in
  mkg (Qred (gx g + dx)) (Qred (gy g + dy)) (gpa g) (geps g).
(* fitter.py:340-358 *)
Definition angle_correction (h : Q) (g : geomQ) : Q :=
  h * 2 * (1 - geps g) / sma / grad_ / ((1 - geps g) * (1 - geps g) - 1).
Definition angle_corr (h : Q) (g : geomQ) : geomQ :=
  mkg (gx g) (gy g) (Qred (pymod (gpa g + angle_correction h g) pi_)) (geps g).
(* fitter.py:361-377 *)
Definition eps_correction (h : Q) (g : geomQ) : Q := Qred (h * 2 * (1 - geps g) / sma / grad_).
Definition eps_corr (h : Q) (g : geomQ) : geomQ :=
  mkg (gx g) (gy g) (gpa g) (qmin (geps g - eps_correction h g) max_eps).

(* _CORRECTORS[k].correct(sample, harmonic) *)
Definition corrector (k : nat) (h : Q) (g : geomQ) : geomQ :=
  match k with
  | 0%nat => pos0 h g
  | 1%nat => pos1 h g
  | 2%nat => angle_corr h g
  | _ => eps_corr h g
  end.
End Correctors.

(* where the code does not divide by zero *)
Definition corr_defined (sma grad_ : Q) (g : geomQ) : Prop :=
  ~ grad_ == 0 /\ ~ sma == 0 /\ ~ (1 - geps g) * (1 - geps g) - 1 == 0.

(* ------------------------------------------------------------------ *)
(* (3) the convergence test and the loop                               *)
(* ------------------------------------------------------------------ *)
(* conver * sector_area * std > |h|   with  var = std^2 (std >= 0) *)
Definition conv_test (conver area var h : Q) : bool :=
  let s := conver * area in
  Qltb 0 s && Qltb (h * h) (s * s * var).

(* what the numerics deliver in one iteration of EllipseFitter.fit, for the geometry the loop
   has at that iteration *)
Record hin := mkhin {
  hi_empty : bool;                 (* len(values[2]) < 1 *)
  hi_fitfail : bool;               (* fit_first_and_second_harmonics raised *)
  hi_coeffs : list Q;              (* coeffs[1:] = [a1; b1; a2; b2] *)
  hi_var : Q;                      (* np.std(values[2] - model) ** 2 *)
  hi_area : Q;                     (* sample.sector_area *)
  hi_fewpts : bool;                (* actual_points < total_points * fflag *)
  hi_grad : Q;                     (* sample.gradient *)
  hi_sinpa : Q; hi_cospa : Q;      (* math.sin / math.cos of sample.geometry.pa *)
  hi_grad_ok : bool;               (* of the CORRECTED sample: gradient_error and relative error truthy *)
  hi_grad_bad : bool               (*   relative error > maxgerr or gradient >= 0 *)
}.

Section Fit.
Variables (conver max_eps min_eps pi2 pi_ sma shape_x shape_y : Q).
Variable mask : list bool.           (* sample.geometry.fix *)

Definition chosen (h : hin) : nat := argmax_masked Qnum (hi_coeffs h) mask.
Definition largest (h : hin) : Q := nth (chosen h) (hi_coeffs h) 0.
(* the geometry of the sample built by the chosen corrector *)
Definition corrected (g : geomQ) (h : hin) : geomQ :=
  corrector max_eps pi_ sma (hi_grad h) (hi_sinpa h) (hi_cospa h) (chosen h) (largest h) g.
(* fitter.py:272-276 *)
Definition off_frame (g : geomQ) : bool :=
  Qltb (gx g) 1 || Qltb shape_x (gx g) || Qltb (gy g) 1 || Qltb shape_y (gy g).

(* the oracle observation of C20_Model.fit_loop, computed *)
Definition obs_of (g : geomQ) (h : hin) : obs Qnum :=
  let gc := corrected g h in
  mkobs Qnum (hi_empty h) (hi_fitfail h) (hi_coeffs h)
        (conv_test conver (hi_area h) (hi_var h) (largest h))
        (hi_fewpts h)
        (Qeq_bool (hi_grad h) 0)
        (gx gc) (gy gc) (gpa gc)
        (eps_correction sma (hi_grad h) (largest h) g)
        (hi_grad_ok h) (hi_grad_bad h) (off_frame gc).

(* the observations along the trajectory of the loop: iteration i+1 works on the corrected and
   normalised geometry of iteration i (the entries after a stop are never consulted) *)
Fixpoint obs_along (hs : list hin) (g : geomQ) : list (obs Qnum) :=
  match hs with
  | [] => []
  | h :: hs' =>
      let o := obs_of g h in
      o :: obs_along hs' (normalise Qnum max_eps min_eps pi2 (nth 2 mask false)
                                    (correct Qnum max_eps (chosen h) g o))
  end.
End Fit.

(* EllipseFitter(sample).fit(conver, minit, maxit = length hs, going_inwards):
   ((stop_code, valid, geometry of the returned isophote), corrector trace) *)
Definition hfit (conver max_eps min_eps pi2 pi_ sma shape_x shape_y : Q) (fc fpa feps inwards : bool)
           (minit : nat) (hs : list hin) (g : geomQ) :=
  fit Qnum max_eps min_eps pi2 fc fpa feps inwards minit
      (obs_along conver max_eps min_eps pi2 pi_ sma shape_x shape_y (fix_mask fc fpa feps) hs g) g.

(* ------------------------------------------------------------------ *)
(* correspondence                                                      *)
(* ------------------------------------------------------------------ *)
Definition dy := (Z * Z)%type.                       (* binary64 m * 2^e, exactly *)
Definition dyQ (d : dy) : Q :=
  let '(m, e) := d in
  if (0 <=? e)%Z then inject_Z (m * 2 ^ e) else Qmake m (Z.to_pos (2 ^ (- e))).
Definition close (a b tol : Q) : bool := Qle_bool (Qabs' (a - b)) tol.
Definition two_m (k : positive) : Q := 1 # (2 ^ k).
Definition sumabs (l : list Q) : Q := fold_right (fun x s => Qred (Qabs' x + s)) 0 l.

(* ---- (a) a least-squares fit of the real code ----
   (rows of the design matrix as recorded from numpy, data, the coefficients returned by
    fit_first_and_second_harmonics / fit_upper_harmonic, relative tolerance as 2^-tolbits,
    expected coefficients for exactly-harmonic data) *)
Definition ls_case :=
  (list (list dy) * list dy * list dy * positive * option (list dy * positive) * option (list dy))%type.
(* last component: None = FULL check (Coq inverts the Gram matrix itself; exact rational arithmetic on
   53-bit inputs is slow in vm_compute, so the harness asks for it on a subset of the cases);
   Some msums = LIGHT check: the row sums of |G^-1| are supplied by the harness and are used ONLY to
   scale the tolerance of the recovery test *)

(* scale of the j-th normal equation: sum_i |A i j| (|y i| + sum_j' |A i j'| |c j'|) *)
Definition ne_scale (rows : list (list Q)) (ys c : list Q) : Q :=
  sumn (length rows) (fun i =>
    sumabs (nth i rows []) * (Qabs' (vof ys i) + sumabs (qmap2 Qmult (nth i rows []) c))).

Definition check_ls_case (cs : ls_case) : bool :=
  let '(rows, ys, impl, tolbits, expect, light) := cs in
  let rows := map (map dyQ) rows in
  let ys := map dyQ ys in
  let impl := map dyQ impl in
  let k := length impl in
  let tol := two_m tolbits * ne_scale rows ys impl in
  (* the implementation's coefficients satisfy the normal equations up to tol *)
  ne_check rows ys k impl tol &&
  let recovered (msum : nat -> Q) (sol : option (list Q)) :=
    match expect with
    | None => true
    | Some (cstar, ebits) =>
        (* exactly-harmonic data (up to the binary64 rounding of each datum): the generating
           coefficients satisfy the normal equations up to 2^-44 scale, and are recovered *)
        let cstar := map dyQ cstar in
        let etol := two_m ebits * (sumabs cstar + 1) in
        ne_check rows ys k cstar (two_m 44 * ne_scale rows ys cstar) &&
        forallb (fun l => close (vof impl l) (vof cstar l) (etol * (1 + msum l))
                          && match sol with
                             | Some s => close (vof s l) (vof cstar l) (etol * (1 + msum l))
                             | None => true
                             end) (seq 0 k)
    end in
  match light with
  | Some msums => recovered (vof (map dyQ msums)) None
  | None =>
      match gram_inverse rows k with
      | None => false                                 (* generators only produce full-rank designs *)
      | Some M =>
          let sol := mvec k M (rhs_l rows ys k) in
          (* the model's solution satisfies them exactly ... *)
          ne_check rows ys k sol 0 &&
          (* ... and the implementation is within the tolerance scaled by the conditioning:
             c_impl - c_model = G^-1 grad(c_impl), so |.|_l <= (sum_j |M l j|) tol *)
          forallb (fun l => close (vof impl l) (vof sol l) (sumabs (nth l M []) * tol)) (seq 0 k) &&
          recovered (fun l => sumabs (nth l M [])) (Some sol)
      end
  end.
Definition ls_model_out (cs : ls_case) :=
  let '(rows, ys, impl, tolbits, expect, light) := cs in
  let rows := map (map dyQ) rows in
  let ys := map dyQ ys in
  let impl := map dyQ impl in
  let k := length impl in
  (match light with None => option_map (map Qred) (ls_solve rows ys k) | Some _ => None end,
   map Qred (grad_l rows ys k impl),
   Qred (two_m tolbits * ne_scale rows ys impl)).

(* ---- (b) one call of a real corrector ----
   (k, harmonic, gradient, sma, (x0, y0, pa, eps), sin pa, cos pa, np.pi, MAX_EPS,
    geometry of the returned sample, exact?) *)
Definition corr_case :=
  (Z * dy * dy * dy * (dy * dy * dy * dy) * dy * dy * dy * dy * (dy * dy * dy * dy) * bool)%type.
Definition G4 (t : dy * dy * dy * dy) : geomQ :=
  let '(a, b, c, d) := t in mkg (dyQ a) (dyQ b) (dyQ c) (dyQ d).
Definition relclose (bits : positive) (a b scale : Q) : bool :=
  close a b (two_m bits * (Qabs' a + scale)).
Definition check_corr_case (c : corr_case) : bool :=
  let '(k, h, gr, sma, g, sinpa, cospa, pi_, maxeps, res, exact) := c in
  let g := G4 g in
  let r := G4 res in
  let m := corrector (dyQ maxeps) (dyQ pi_) (dyQ sma) (dyQ gr) (dyQ sinpa) (dyQ cospa) (Z.to_nat k) (dyQ h) g in
  let cmp a b scale := if exact then Qeq_bool a b else relclose 40 a b scale in
  (* the parameters outside the corrector's group are handed over untouched *)
  match Z.to_nat k with
  | 0%nat | 1%nat => Qeq_bool (gpa r) (gpa g) && Qeq_bool (geps r) (geps g)
  | 2%nat => Qeq_bool (gx r) (gx g) && Qeq_bool (gy r) (gy g) && Qeq_bool (geps r) (geps g)
  | _ => Qeq_bool (gx r) (gx g) && Qeq_bool (gy r) (gy g) && Qeq_bool (gpa r) (gpa g)
  end &&
  cmp (gx m) (gx r) (Qabs' (gx m - gx g)) && cmp (gy m) (gy r) (Qabs' (gy m - gy g)) &&
  (* the angle is compared modulo pi (a value within rounding of 0 or pi may wrap) *)
  (* the binary64 value of (1-eps)^2 - 1 loses up to 2^-53 / |(1-eps)^2 - 1| (cancellation for small eps) and
     the correction is reduced modulo pi afterwards: the absolute tolerance scales with both *)
  (let ac := angle_correction (dyQ sma) (dyQ gr) (dyQ h) g in
   let asc := 1 + Qabs' ac * (1 + 1 / Qabs' ((1 - geps g) * (1 - geps g) - 1)) in
   cmp (gpa m) (gpa r) asc || (negb exact && (relclose 40 (gpa m + dyQ pi_) (gpa r) asc || relclose 40 (gpa m) (gpa r + dyQ pi_) asc))) &&
  cmp (geps m) (geps r) 1.
Definition corr_model_out (c : corr_case) :=
  let '(k, h, gr, sma, g, sinpa, cospa, pi_, maxeps, res, exact) := c in
  let m := corrector (dyQ maxeps) (dyQ pi_) (dyQ sma) (dyQ gr) (dyQ sinpa) (dyQ cospa) (Z.to_nat k) (dyQ h) (G4 g) in
  (Qred (gx m), Qred (gy m), Qred (gpa m), Qred (geps m)).

(* ---- (c) a whole EllipseFitter.fit run with every iteration's numerics recorded ----
   (conver, MAX_EPS, MIN_EPS, pi/2, pi, sma, shape[1], shape[0]), (fix_center, fix_pa, fix_eps,
   going_inwards), minit, per-iteration records, starting geometry,
   returned (stop_code, valid, geometry), tolerance bits *)
(* (empty, fitfail, coeffs[1:], np.std(residual) [squared here], sector_area, fewpts, gradient,
    sin pa, cos pa, grad_ok, grad_bad) *)
Definition hin_c := (bool * bool * list dy * dy * dy * bool * dy * dy * dy * bool * bool)%type.
Definition to_hin (t : hin_c) : hin :=
  let '(e, f, co, v, a, fp, gr, s, c, gok, gbad) := t in
  mkhin e f (map dyQ co) (dyQ v * dyQ v) (dyQ a) fp (dyQ gr) (dyQ s) (dyQ c) gok gbad.
Definition fit_case :=
  ((dy * dy * dy * dy * dy * dy * dy * dy) * (bool * bool * bool * bool) * Z * list hin_c
   * (dy * dy * dy * dy) * (Z * bool * (dy * dy * dy * dy)) * positive)%type.
Definition fit_model (c : fit_case) :=
  let '((conver, maxe, mine, pi2, pi_, sma, sx, sy), (fc, fpa, feps, inw), minit, hs, g, _, _) := c in
  fst (hfit (dyQ conver) (dyQ maxe) (dyQ mine) (dyQ pi2) (dyQ pi_) (dyQ sma) (dyQ sx) (dyQ sy)
            fc fpa feps inw (Z.to_nat minit) (map to_hin hs) (G4 g)).
Definition check_fit_case (c : fit_case) : bool :=
  let '(_, _, _, _, _, (code, valid, res), bits) := c in
  let '(mcode, mvalid, m) := fit_model c in
  let r := G4 res in
  (mcode =? code)%Z && Bool.eqb mvalid valid &&
  relclose bits (gx m) (gx r) 1 && relclose bits (gy m) (gy r) 1 &&
  relclose bits (gpa m) (gpa r) 1 && relclose bits (geps m) (geps r) 1.
Definition fit_model_out (c : fit_case) :=
  let '(mcode, mvalid, m) := fit_model c in
  (mcode, mvalid, (Qred (gx m), Qred (gy m), Qred (gpa m), Qred (geps m))).
