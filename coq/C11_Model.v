(* C11 — model of photutils.background.Background2D (edge_method='pad', the only
   non-deprecated mode; units are not modelled).

   Pixel values are scaled integers ([option Z], [None] = NaN/inf); statistics are
   exact rationals [Q].  The model follows background_2d.py:
     _combine_all_masks        -> [masked] / [pix]   (mask OR coverage OR non-finite)
     _calculate_stats          -> four code paths with their own index arithmetic
                                  ([core_coords], [row_coords], [col_coords],
                                  [crn_coords]; the pixel ORDER inside a box follows the
                                  reshape/moveaxis/transpose of the code); the
                                  vstack/hstack assembly is written as one [mk2] over the
                                  mesh grid dispatching on the path ([cell_coords])
     _compute_box_statistics   -> [box_stat]: sigma clip, estimators, ngood counted AFTER
                                  clipping, exclusion against the FULL box size
     "All boxes contain <= ..." -> [AllExcluded]
     _interpolate_grid         -> [interp_grid]: cells that are not NaN are kept, NaN cells
                                  get the Shepard value [idw] (library numerics: section
                                  variable) clipped to the range of the good cells (the
                                  REPAIRED code, fixes/C11-2-*.patch)
     _filter_grid / _selective_filter -> [filter_grid] (window arithmetic modelled; the
                                  median function itself is a section variable, the
                                  concrete [qmedian] is used in the correspondence)
     BkgZoomInterpolator.__call__ / _calculate_image -> [calc_image]: ptp == 0 branch,
                                  zoom (section variable [interp]), crop, clip to the
                                  mesh range, coverage fill.
   The exclusion rule is the REPAIRED one (fixes/C11-1-*.patch):
     excluded  <->  ngood < (1 - p/100) * box_npixels  \/  ngood = 0
   (the unrepaired code used  ngood <= ...  which excludes boxes that have exactly the
   allowed number of masked pixels and every box when exclude_percentile = 0;
   [excluded_unrepaired] is kept only for the refutation theorem). *)
From Coq Require Import List Arith ZArith QArith Bool Lia.
From PV Require Import lib.Cases.
Import ListNotations.
Open Scope nat_scope.

Definition img (A : Type) := list (list A).
Definition get2 {A} (d : A) (m : img A) (y x : nat) : A := nth x (nth y m []) d.
Definition mk2 {A} (h w : nat) (f : nat -> nat -> A) : img A :=
  map (fun y => map (fun x => f y x) (seq 0 w)) (seq 0 h).

(* as_pair(..., upper_bound=data.shape): a box larger than the image is reset *)
Definition clipbox (b n : nat) : nat := if n <? b then n else b.

(* ------------------------------------------------------------------ *)
Section Geometry.
Variables (ny nx by_ bx : nat).

Definition nby := ny / by_.
Definition nbx := nx / bx.
Definition y1 := nby * by_.
Definition x1 := nbx * bx.
Definition extra_row := y1 <? ny.
Definition extra_col := x1 <? nx.
Definition nmy := nby + (if extra_row then 1 else 0).
Definition nmx := nbx + (if extra_col then 1 else 0).

(* core boxes: reshape_as_blocks(data[:y1,:x1], box).reshape(nby, nbx, -1): row-major *)
Definition core_coords (i j : nat) : list (nat * nat) :=
  flat_map (fun dy => map (fun dx => (i * by_ + dy, j * bx + dx)) (seq 0 bx)) (seq 0 by_).
(* extra row: blocks (1, bx), moveaxis(0,-1): for each column of the box, all extra rows *)
Definition row_coords (j : nat) : list (nat * nat) :=
  flat_map (fun dx => map (fun r => (y1 + r, j * bx + dx)) (seq 0 (ny - y1))) (seq 0 bx).
(* extra column: blocks (by, 1), transpose(0,3,1,2): for each extra column, the box rows *)
Definition col_coords (i : nat) : list (nat * nat) :=
  flat_map (fun c => map (fun dy => (i * by_ + dy, x1 + c)) (seq 0 by_)) (seq 0 (nx - x1)).
(* corner: data[y1:, x1:] with axis=None *)
Definition crn_coords : list (nat * nat) :=
  flat_map (fun r => map (fun c => (y1 + r, x1 + c)) (seq 0 (nx - x1))) (seq 0 (ny - y1)).

Definition cell_coords (i j : nat) : list (nat * nat) :=
  if i <? nby then (if j <? nbx then core_coords i j else col_coords i)
  else (if j <? nbx then row_coords j else crn_coords).
End Geometry.

(* ------------------------------------------------------------------ *)
Definition goodvals (l : list (option Z)) : list Z :=
  flat_map (fun o => match o with Some v => [v] | None => [] end) l.

Definition Qlt_bool (a b : Q) : bool := negb (Qle_bool b a).

Section Stats.
Variables (ny nx by_ bx : nat).
Variable data : img (option Z).
Variables mask cov : img bool.
Variable p : Q.                               (* exclude_percentile *)
Variables est rms : list Z -> Q.              (* bkg_estimator / bkgrms_estimator *)
Variable clip : list Z -> list Z.             (* sigma_clip: returns the surviving values *)

Definition masked (y x : nat) : bool := get2 false mask y x || get2 false cov y x.
(* the NaN-substituted array the statistics see *)
Definition pix (y x : nat) : option Z := if masked y x then None else get2 None data y x.

Definition box_npixels : nat := by_ * bx.
Definition good_thr : Q := ((1 - p / 100) * inject_Z (Z.of_nat box_npixels))%Q.
Definition excluded (n : nat) : bool :=
  Qlt_bool (inject_Z (Z.of_nat n)) good_thr || (n =? 0).

(* the rule of the unrepaired code: ngood <= threshold *)
Definition excluded_unrepaired (n : nat) : bool := Qle_bool (inject_Z (Z.of_nat n)) good_thr.

Definition box_vals (coords : list (nat * nat)) : list Z :=
  clip (goodvals (map (fun c => pix (fst c) (snd c)) coords)).
Definition box_stat (coords : list (nat * nat)) : option Q * option Q * nat :=
  let v := box_vals coords in
  let n := length v in
  if excluded n then (None, None, n) else (Some (est v), Some (rms v), n).

Definition stat_mesh : img (option Q * option Q * nat) :=
  mk2 (nmy ny by_) (nmx nx bx) (fun i j => box_stat (cell_coords ny nx by_ bx i j)).
Definition bkg_stats : img (option Q) := map (map (fun t => fst (fst t))) stat_mesh.
Definition rms_stats : img (option Q) := map (map (fun t => snd (fst t))) stat_mesh.
Definition ngood_mesh : img nat := map (map snd) stat_mesh.
Definition isnone {A} (o : option A) : bool := match o with None => true | Some _ => false end.
Definition nan_mask : img bool := map (map isnone) bkg_stats.
Definition all_excluded : bool := forallb (forallb isnone) bkg_stats.
End Stats.

(* ------------------------------------------------------------------ *)
(* list min / max over Q (np.min / np.max / nanmin) *)
Definition qmin2 (a b : Q) : Q := if Qle_bool a b then a else b.
Definition qmax2 (a b : Q) : Q := if Qle_bool a b then b else a.
Definition qminl (l : list Q) : Q := match l with [] => 0%Q | a :: r => fold_left qmin2 r a end.
Definition qmaxl (l : list Q) : Q := match l with [] => 0%Q | a :: r => fold_left qmax2 r a end.
Definition somes {A} (l : list (option A)) : list A :=
  flat_map (fun o => match o with Some v => [v] | None => [] end) l.

Definition width {A} (m : img A) : nat := length (hd [] m).
Definition clipq (lo hi v : Q) : Q :=
  if Qle_bool v lo then lo else if Qle_bool hi v then hi else v.

(* _interpolate_grid: NaN cells are filled with the Shepard IDW value of the good cells,
   clipped to [min, max] of the good cells; without NaN cell the grid is returned as is *)
Section InterpGrid.
Variable idw : img (option Q) -> nat -> nat -> Q.
Definition interp_grid (g : img (option Q)) : img Q :=
  let good := somes (concat g) in
  let lo := qminl good in let hi := qmaxl good in
  mk2 (length g) (width g) (fun i j =>
    match get2 None g i j with
    | Some v => v
    | None => clipq lo hi (idw g i j)
    end).
End InterpGrid.

Section Filter.
Variable median : list Q -> Q.       (* np.median / nanmedian of a window *)
Variables (fy fx : nat).             (* filter_size (odd) *)
Variable fthr : option Q.            (* filter_threshold *)

(* data[max(i-hy,0) : min(i-hy+fy, H), max(j-hx,0) : min(j-hx+fx, W)]; generic_filter with
   mode='constant', cval=nan and nanmedian sees the same cells *)
Definition window (H W : nat) (m : img Q) (i j : nat) : list Q :=
  let hy := fy / 2 in let hx := fx / 2 in
  let y0 := i - hy in let y1 := Nat.min (i + fy - hy) H in
  let x0 := j - hx in let x1 := Nat.min (j + fx - hx) W in
  flat_map (fun y => map (fun x => get2 0%Q m y x) (seq x0 (x1 - x0))) (seq y0 (y1 - y0)).

Definition full_filter (m : img Q) : img Q :=
  let H := length m in let W := width m in
  mk2 H W (fun i j => median (window H W m i j)).
Definition selective_filter (t : Q) (bkg_interp m : img Q) : img Q :=
  let H := length m in let W := width m in
  mk2 H W (fun i j => if Qlt_bool t (get2 0%Q bkg_interp i j)
                      then median (window H W m i j) else get2 0%Q m i j).
(* min_bkg = nanmin(_bkg_stats); bkg_interp = _interpolate_grid(_bkg_stats) *)
Definition filter_grid (min_bkg : Q) (bkg_interp m : img Q) : img Q :=
  if (fy =? 1) && (fx =? 1) then m
  else match fthr with
       | None => full_filter m
       | Some t => if Qlt_bool t min_bkg then full_filter m
                   else selective_filter t bkg_interp m
       end.
End Filter.

(* ------------------------------------------------------------------ *)
Section Image.
Variables (ny nx : nat).
Variable cov : img bool.
Variable fill : Q.
Variable do_clip : bool.                      (* BkgZoomInterpolator(clip=True) *)
Variable interp : img Q -> nat -> nat -> Q.   (* scipy zoom / Shepard IDW upscaling *)

Definition calc_image (mesh : img Q) : img Q :=
  let fl := concat mesh in
  let lo := qminl fl in let hi := qmaxl fl in
  let raw := if Qeq_bool hi lo then (fun _ _ : nat => lo)          (* np.ptp(data) == 0 *)
             else if do_clip then (fun y x => clipq lo hi (interp mesh y x))
             else interp mesh in
  mk2 ny nx (fun y x => if get2 false cov y x then fill else raw y x).
End Image.

(* ------------------------------------------------------------------ *)
(* the whole pipeline *)
Section Pipeline.
Variables (ny nx by0 bx0 : nat).
Variable data : img (option Z).
Variables mask cov : img bool.
Variable p : Q.
Variables est rms : list Z -> Q.
Variable clip : list Z -> list Z.
Variable idw : img (option Q) -> nat -> nat -> Q.   (* raw Shepard IDW value of a NaN cell *)
Variable median : list Q -> Q.
Variables (fy fx : nat) (fthr : option Q).
Variables (fill : Q) (do_clip : bool).
Variable interp : img Q -> nat -> nat -> Q.

Inductive result :=
| AllExcluded
| Maps (npixels : img nat) (nanmask : img bool) (bkg_mesh rms_mesh bkg rmsmap : img Q).

Definition background2d : result :=
  let by_ := clipbox by0 ny in let bx := clipbox bx0 nx in
  let bs := bkg_stats ny nx by_ bx data mask cov p est rms clip in
  let rs := rms_stats ny nx by_ bx data mask cov p est rms clip in
  if all_excluded ny nx by_ bx data mask cov p est rms clip then AllExcluded
  else
    let b0 := interp_grid idw bs in let r0 := interp_grid idw rs in
    let minb := qminl (somes (concat bs)) in
    let bF := filter_grid median fy fx fthr minb b0 b0 in
    let rF := filter_grid median fy fx fthr minb b0 r0 in
    Maps (ngood_mesh ny nx by_ bx data mask cov p est rms clip)
         (nan_mask ny nx by_ bx data mask cov p est rms clip)
         bF rF
         (calc_image ny nx cov fill do_clip interp bF)
         (calc_image ny nx cov fill do_clip interp rF).
End Pipeline.

(* ------------------------------------------------------------------ *)
(* concrete estimators used by the correspondence (sigma_clip=None) *)
Definition zsum (l : list Z) : Z := fold_left Z.add l 0%Z.
Definition qmean (l : list Z) : Q :=                       (* MeanBackground *)
  Qmake (zsum l) (Pos.of_nat (length l)).
(* n^2 * variance = n * sum x^2 - (sum x)^2                  StdBackgroundRMS ** 2 *)
Definition qvar (l : list Z) : Q :=
  let n := Z.of_nat (length l) in
  Qmake (n * zsum (map (fun x => x * x)%Z l) - zsum l * zsum l)
        (Pos.of_nat (length l * length l)).

Fixpoint qinsert (a : Q) (l : list Q) : list Q :=
  match l with
  | [] => [a]
  | b :: r => if Qle_bool a b then a :: l else b :: qinsert a r
  end.
Definition qsort (l : list Q) : list Q := fold_right qinsert [] l.
Definition qmedian (l : list Q) : Q :=
  let s := qsort l in let n := length s in
  if Nat.even n then ((nth (n / 2 - 1) s 0 + nth (n / 2) s 0) / 2)%Q else nth (n / 2) s 0%Q.
Definition qmedianZ (l : list Z) : Q := qmedian (map inject_Z l).   (* MedianBackground *)

(* ------------------------------------------------------------------ *)
(* correspondence: each stage of the model is run on the implementation's observable of
   the previous stage (all read through the public API) and compared with the
   implementation's observable of this stage.
     stage A  data, masks            -> npixels_mesh, excluded set, mesh (filter_size=1)
     stage B  unfiltered meshes      -> background_mesh / background_rms_mesh
     stage C  filtered mesh          -> background / background_rms
   Library numerics enter as oracles: the IDW values of excluded cells and the zoom
   output are taken from the implementation ([idw] and [interp] instantiated with them). *)
Definition zq := (Z * Z)%type.                    (* num, den *)
Definition toQ (a : zq) : Q := Qmake (fst a) (Z.to_pos (snd a)).
Definition Qabs' (a : Q) : Q := Qmake (Z.abs (Qnum a)) (Qden a).
(* |v - q| <= 2^-(prec-1) |q| : one rounding of the exact value *)
Definition close (prec : Z) (v q : Q) : bool :=
  Qle_bool (Qabs' (v - q) * inject_Z (2 ^ (prec - 1)))%Q (Qabs' q).
(* |s^2 - var| <= (4n + 40) R^2 2^-prec, R = 1 + max |x|: two-pass variance + sqrt *)
Definition close_var (prec : Z) (vals : list Z) (s var : Q) : bool :=
  let R := (1 + fold_left Z.max (map Z.abs vals) 0)%Z in
  Qle_bool (Qabs' (s * s - var) * inject_Z (2 ^ prec))%Q
           (inject_Z ((4 * Z.of_nat (length vals) + 40) * R * R))
  && (negb (Qeq_bool var 0%Q) || Qeq_bool s 0%Q).

Definition implA := (img Z * img bool * img zq * img zq)%type.     (* npix, excluded, b0, r0 *)
Definition implB := (img zq * img zq)%type.                        (* bF, rF *)
Definition implC := (img zq * img zq)%type.                        (* background, rms *)
Definition case :=
  (Z * Z * Z * Z * img (option Z) * img bool * img bool * zq * Z * Z
   * (Z * Z * option zq) * (bool * zq)
   * option (implA * implB * option implC))%type.

Fixpoint forall2b {A B} (f : A -> B -> bool) (a : list A) (b : list B) : bool :=
  match a, b with
  | [], [] => true
  | x :: a', y :: b' => f x y && forall2b f a' b'
  | _, _ => false
  end.
Definition img_forall2 {A B} (f : A -> B -> bool) (a : img A) (b : img B) : bool :=
  forall2b (forall2b f) a b.
Definition has_shape {A} (h w : nat) (m : img A) : bool :=
  (length m =? h) && forallb (fun r => length r =? w) m.

Definition est_of (estk : Z) : list Z -> Q := if (estk =? 0)%Z then qmean else qmedianZ.
Definition noclip (l : list Z) : list Z := l.

(* the implementation's values of the cells it did not exclude *)
Definition goods (excl : img bool) (m : img Q) : list Q :=
  flat_map (fun pr => if fst pr : bool then [] else [snd pr]) (combine (concat excl) (concat m)).
(* [interp_grid] with [idw] instantiated by the implementation's own value v: clip leaves it *)
Definition in_range (l : list Q) (v : Q) : bool := Qeq_bool (clipq (qminl l) (qmaxl l) v) v.

Definition check_A (ny nx by_ bx : nat) data mask cov (p : Q) (estk prec : Z) (A : implA) : bool :=
  let '(npix, excl, b0, r0) := A in
  let H := nmy ny by_ in let W := nmx nx bx in
  let est := est_of estk in
  let sm := stat_mesh ny nx by_ bx data mask cov p est qvar noclip in
  let gb := goods excl (map (map toQ) b0) in let gr := goods excl (map (map toQ) r0) in
  has_shape H W npix && has_shape H W excl && has_shape H W b0 && has_shape H W r0
  && forallb (fun i => forallb (fun j =>
       let vals := box_vals data mask cov noclip (cell_coords ny nx by_ bx i j) in
       let '(ob, orr, n) := get2 (None, None, 0) sm i j in
       (Z.of_nat n =? get2 (-1)%Z npix i j)%Z
       && Bool.eqb (isnone ob) (get2 false excl i j)
       && match ob, orr with
          | Some qb, Some qr =>
              close prec (toQ (get2 (0, 1)%Z b0 i j)) qb
              && close_var prec vals (toQ (get2 (0, 1)%Z r0 i j)) qr
          | _, _ => in_range gb (toQ (get2 (0, 1)%Z b0 i j)) && in_range gr (toQ (get2 (0, 1)%Z r0 i j))
          end) (seq 0 W)) (seq 0 H).

Definition check_B (prec : Z) (fy fx : nat) (fthr : option Q) (A : implA) (B : implB) : bool :=
  let '(npix, excl, b0, r0) := A in
  let '(bF, rF) := B in
  let b0q := map (map toQ) b0 in let r0q := map (map toQ) r0 in
  let minb := qminl (goods excl b0q) in
  img_forall2 (fun v q => close prec (toQ v) q) bF (filter_grid qmedian fy fx fthr minb b0q b0q)
  && img_forall2 (fun v q => close prec (toQ v) q) rF (filter_grid qmedian fy fx fthr minb b0q r0q).

Definition check_C (ny nx : nat) cov (fill : Q) (do_clip : bool) (B : implB) (C : implC) : bool :=
  let '(bF, rF) := B in
  let '(bm, rm) := C in
  let bmq := map (map toQ) bm in let rmq := map (map toQ) rm in
  img_forall2 Qeq_bool (calc_image ny nx cov fill do_clip (fun _ y x => get2 0%Q bmq y x) (map (map toQ) bF)) bmq
  && img_forall2 Qeq_bool (calc_image ny nx cov fill do_clip (fun _ y x => get2 0%Q rmq y x) (map (map toQ) rF)) rmq.

Definition check_case (c : case) : bool :=
  let '(ny, nx, by0, bx0, data, mask, cov, p, estk, prec, (fy, fx, fthr), (do_clip, fill), impl) := c in
  let ny := Z.to_nat ny in let nx := Z.to_nat nx in
  let by_ := clipbox (Z.to_nat by0) ny in let bx := clipbox (Z.to_nat bx0) nx in
  let allex := all_excluded ny nx by_ bx data mask cov (toQ p) (est_of estk) qvar noclip in
  match impl with
  | None => allex
  | Some (A, B, C) =>
      negb allex
      && check_A ny nx by_ bx data mask cov (toQ p) estk prec A
      && check_B prec (Z.to_nat fy) (Z.to_nat fx) (option_map toQ fthr) A B
      && match C with
         | None => true
         | Some C => check_C ny nx cov (toQ fill) do_clip B C
         end
  end.

(* the model's own stage-A answer for one case (diagnostics) *)
Definition model_out (c : case) :=
  let '(ny, nx, by0, bx0, data, mask, cov, p, estk, prec, flt, img_, impl) := c in
  let ny := Z.to_nat ny in let nx := Z.to_nat nx in
  let by_ := clipbox (Z.to_nat by0) ny in let bx := clipbox (Z.to_nat bx0) nx in
  (all_excluded ny nx by_ bx data mask cov (toQ p) (est_of estk) qvar noclip,
   map (map (fun t => (option_map Qred (fst (fst t)), option_map Qred (snd (fst t)), snd t)))
       (stat_mesh ny nx by_ bx data mask cov (toQ p) (est_of estk) qvar noclip)).
