(* C03 -- proofs about the self-contained definitions of C03_Model.v:
   crop/embed algebra, the generic re-basing theorem, from_float / overlap-slice covariance,
   bounding box of a label, weighted sums and image moments under embedding and transposition,
   the foreground map of detect_sources under embedding. *)
From Coq Require Import List ZArith QArith Qround Bool Lia ZifyBool Arith.
From PV Require Import lib.Cases C03_Model.
Import ListNotations.
Open Scope Z_scope.

(* ================================================================== *)
(* lists                                                                *)
(* ================================================================== *)
Lemma skipn_repeat_app {A} (z : A) n k (l : list A) : skipn (n + k) (repeat z n ++ l) = skipn k l.
Proof.
  rewrite skipn_app, repeat_length. replace (n + k - n)%nat with k by lia.
  rewrite skipn_all2; [reflexivity|]. rewrite repeat_length. lia.
Qed.

Lemma firstn_skipn_app {A} (l t : list A) a b :
  (b <= length l)%nat -> firstn (b - a) (skipn a (l ++ t)) = firstn (b - a) (skipn a l).
Proof.
  intros Hb. rewrite skipn_app, firstn_app, skipn_length.
  replace (b - a - (length l - a))%nat with 0%nat by lia. cbn. apply app_nil_r.
Qed.

Lemma In_firstn {A} (x : A) n l : In x (firstn n l) -> In x l.
Proof.
  revert l. induction n as [|n IH]; intros [|a l]; cbn; try tauto. intros [->|H]; auto.
Qed.
Lemma In_skipn' {A} (x : A) n l : In x (skipn n l) -> In x l.
Proof.
  revert l. induction n as [|n IH]; intros [|a l]; cbn; try tauto. intros H. right. auto.
Qed.
Lemma Forall_firstn_skipn {A} (P : A -> Prop) (l : list A) a b :
  Forall P l -> Forall P (firstn b (skipn a l)).
Proof.
  intros H. apply Forall_forall. intros x Hx. rewrite Forall_forall in H. apply H.
  eapply In_skipn', In_firstn, Hx.
Qed.

Lemma nth_repeat_any {A} (z d : A) n k : nth k (repeat z n) d = if (k <? n)%nat then z else d.
Proof.
  revert k. induction n as [|n IH]; intros [|k]; cbn [repeat nth]; try reflexivity.
  rewrite IH. destruct (k <? n)%nat eqn:E1, (S k <? S n)%nat eqn:E2; try reflexivity; lia.
Qed.

(* ================================================================== *)
(* embed / crop                                                         *)
(* ================================================================== *)
Section EmbedCrop.
Context {A : Type} (z : A).

Lemma pad_row_length dx NX (r : list A) : (dx + length r <= NX)%nat -> length (pad_row z dx NX r) = NX.
Proof. intros H. unfold pad_row. rewrite !app_length, !repeat_length. lia. Qed.

Lemma embed_rect dy dx NY NX ny nx (a : img A) :
  rect ny nx a -> (dy + ny <= NY)%nat -> (dx + nx <= NX)%nat -> rect NY NX (embed z dy dx NY NX a).
Proof.
  intros [Hl Hr] Hy Hx. unfold embed, rect. split.
  - rewrite !app_length, !repeat_length, map_length. lia.
  - rewrite !Forall_app. repeat split.
    + apply Forall_forall. intros r Hin. apply repeat_spec in Hin. subst. apply repeat_length.
    + apply Forall_forall. intros r Hin. apply in_map_iff in Hin. destruct Hin as [r0 [<- Hin]].
      rewrite Forall_forall in Hr. apply pad_row_length. rewrite (Hr _ Hin). exact Hx.
    + apply Forall_forall. intros r Hin. apply repeat_spec in Hin. subst. apply repeat_length.
Qed.

Lemma crop_row_pad dx NX (r : list A) x0 x1 :
  (x1 <= length r)%nat ->
  firstn (dx + x1 - (dx + x0)) (skipn (dx + x0) (pad_row z dx NX r)) = firstn (x1 - x0) (skipn x0 r).
Proof.
  intros H. unfold pad_row. replace (dx + x1 - (dx + x0))%nat with (x1 - x0)%nat by lia.
  rewrite skipn_repeat_app. apply firstn_skipn_app. exact H.
Qed.

(* the cutout of the canvas at the translated box is the cutout of the image, pixel for pixel,
   as soon as the box does not reach beyond the original frame *)
Lemma crop_embed dy dx NY NX ny nx (a : img A) y0 y1 x0 x1 :
  rect ny nx a -> (y1 <= ny)%nat -> (x1 <= nx)%nat ->
  crop (dy + y0) (dy + y1) (dx + x0) (dx + x1) (embed z dy dx NY NX a) = crop y0 y1 x0 x1 a.
Proof.
  intros [Hl Hr] Hy Hx. unfold crop, embed.
  replace (dy + y1 - (dy + y0))%nat with (y1 - y0)%nat by lia.
  rewrite skipn_repeat_app, firstn_skipn_app by (rewrite map_length; lia).
  rewrite skipn_map, firstn_map, map_map. apply map_ext_in. intros r Hin.
  apply crop_row_pad.
  assert (HF : Forall (fun r => length r = nx) (firstn (y1 - y0) (skipn y0 a)))
    by (apply Forall_firstn_skipn; exact Hr).
  rewrite Forall_forall in HF. rewrite (HF _ Hin). exact Hx.
Qed.

Lemma cropz_embed dy dx NY NX ny nx (a : img A) b :
  rect ny nx a -> inside ny nx b ->
  cropz (shift_box (Z.of_nat dy) (Z.of_nat dx) b) (embed z dy dx NY NX a) = cropz b a.
Proof.
  destruct b as [[[y0 y1] x0] x1]. intros Hr (Hy0 & Hy1 & Hx0 & Hx1). cbn [shift_box cropz].
  replace (Z.to_nat (y0 + Z.of_nat dy)) with (dy + Z.to_nat y0)%nat by lia.
  replace (Z.to_nat (y1 + Z.of_nat dy)) with (dy + Z.to_nat y1)%nat by lia.
  replace (Z.to_nat (x0 + Z.of_nat dx)) with (dx + Z.to_nat x0)%nat by lia.
  replace (Z.to_nat (x1 + Z.of_nat dx)) with (dx + Z.to_nat x1)%nat by lia.
  apply (crop_embed dy dx NY NX ny nx); [exact Hr|lia|lia].
Qed.

(* pixel view of the canvas *)
Lemma get_embed_in (d : A) dy dx NY NX (a : img A) y x :
  (y < length a)%nat -> (x < length (nth y a []))%nat ->
  get d (embed z dy dx NY NX a) (dy + y) (dx + x) = get d a y x.
Proof.
  intros Hy Hx. unfold get, embed.
  rewrite app_nth2 by (rewrite repeat_length; lia). rewrite repeat_length.
  replace (dy + y - dy)%nat with y by lia.
  rewrite app_nth1 by (rewrite map_length; exact Hy).
  rewrite (nth_indep _ [] (pad_row z dx NX [])) by (rewrite map_length; exact Hy).
  rewrite map_nth. unfold pad_row.
  rewrite app_nth2 by (rewrite repeat_length; lia). rewrite repeat_length.
  replace (dx + x - dx)%nat with x by lia. rewrite app_nth1 by exact Hx. reflexivity.
Qed.

(* outside the embedded frame the canvas holds the padding value *)
Lemma get_embed_out dy dx NY NX ny nx (a : img A) y x :
  rect ny nx a -> (dy + ny <= NY)%nat -> (dx + nx <= NX)%nat -> (y < NY)%nat -> (x < NX)%nat ->
  ~ ((dy <= y < dy + ny)%nat /\ (dx <= x < dx + nx)%nat) ->
  get z (embed z dy dx NY NX a) y x = z.
Proof.
  intros [Hl Hr] HY HX Hy Hx Hout. unfold get, embed.
  destruct (Nat.lt_ge_cases y dy) as [H1|H1].
  { rewrite app_nth1 by (rewrite repeat_length; exact H1).
    rewrite nth_repeat_any. destruct (y <? dy)%nat eqn:E; [|lia].
    rewrite nth_repeat_any. destruct (x <? NX)%nat; reflexivity. }
  rewrite app_nth2 by (rewrite repeat_length; lia). rewrite repeat_length.
  destruct (Nat.lt_ge_cases (y - dy) ny) as [H2|H2].
  - rewrite app_nth1 by (rewrite map_length; lia).
    rewrite (nth_indep _ [] (pad_row z dx NX [])) by (rewrite map_length; lia).
    rewrite map_nth. unfold pad_row.
    assert (Hlen : length (nth (y - dy) a []) = nx).
    { rewrite Forall_forall in Hr. apply Hr. apply nth_In. lia. }
    destruct (Nat.lt_ge_cases x dx) as [H3|H3].
    { rewrite app_nth1 by (rewrite repeat_length; exact H3). rewrite nth_repeat_any.
      destruct (x <? dx)%nat; reflexivity. }
    rewrite app_nth2 by (rewrite repeat_length; lia). rewrite repeat_length.
    rewrite app_nth2 by lia. rewrite nth_repeat_any. destruct (_ <? _)%nat; reflexivity.
  - rewrite app_nth2 by (rewrite map_length; lia). rewrite nth_repeat_any.
    destruct (_ <? _)%nat; [|destruct x; reflexivity].
    rewrite nth_repeat_any. destruct (x <? NX)%nat; reflexivity.
Qed.
End EmbedCrop.

Lemma map_repeat' {A B} (g : A -> B) (z : A) n : map g (repeat z n) = repeat (g z) n.
Proof. induction n; cbn; congruence. Qed.

Lemma embed_map {A B} (g : A -> B) (z : A) dy dx NY NX (a : img A) :
  map (map g) (embed z dy dx NY NX a) = embed (g z) dy dx NY NX (map (map g) a).
Proof.
  unfold embed. rewrite !map_app, !map_repeat', !map_map, map_length. f_equal. f_equal.
  apply map_ext. intros r. unfold pad_row. rewrite !map_app, !map_repeat', map_length. reflexivity.
Qed.

Lemma rect_map {A B} (g : A -> B) ny nx (a : img A) : rect ny nx a -> rect ny nx (map (map g) a).
Proof.
  intros [Hl Hr]. split; [rewrite map_length; exact Hl|].
  apply Forall_forall. intros r Hin. apply in_map_iff in Hin. destruct Hin as [r0 [<- Hin]].
  rewrite map_length. rewrite Forall_forall in Hr. auto.
Qed.

(* ================================================================== *)
(* the generic theorem                                                  *)
(* ================================================================== *)
(* R is the notion of equality of results (Leibniz equality for indices and boxes, Qeq on both
   coordinates for float positions); the only thing asked of the origin action is that adding
   (y0 + dy, x0 + dx) is adding (y0, x0) and then (dy, dx). *)
Lemma rebased_covariant_gen {A P} (R : P -> P -> Prop) (z : A) (act : Z -> Z -> P -> P)
      (box : img A -> zbox) (f : img A -> P) (a : img A) ny nx dy dx NY NX :
  (forall y0 x0 y1 x1 p, R (act (y0 + y1) (x0 + x1) p) (act y1 x1 (act y0 x0 p))) ->
  rect ny nx a -> inside ny nx (box a) ->
  box (embed z dy dx NY NX a) = shift_box (Z.of_nat dy) (Z.of_nat dx) (box a) ->
  R (rebased act box f (embed z dy dx NY NX a))
    (act (Z.of_nat dy) (Z.of_nat dx) (rebased act box f a)).
Proof.
  intros Hact Hr Hin Hbox. unfold rebased. rewrite Hbox.
  rewrite (cropz_embed z dy dx NY NX ny nx a (box a) Hr Hin).
  destruct (box a) as [[[y0 y1] x0] x1]. cbn [shift_box]. apply Hact.
Qed.

Lemma rebased_covariant_eq {A P} (z : A) (act : Z -> Z -> P -> P)
      (box : img A -> zbox) (f : img A -> P) (a : img A) ny nx dy dx NY NX :
  (forall y0 x0 y1 x1 p, act (y0 + y1) (x0 + x1) p = act y1 x1 (act y0 x0 p)) ->
  rect ny nx a -> inside ny nx (box a) ->
  box (embed z dy dx NY NX a) = shift_box (Z.of_nat dy) (Z.of_nat dx) (box a) ->
  rebased act box f (embed z dy dx NY NX a) = act (Z.of_nat dy) (Z.of_nat dx) (rebased act box f a).
Proof. apply (rebased_covariant_gen eq). Qed.

(* the three origin actions of the anchored code satisfy the action law *)
Lemma act_index_law y0 x0 y1 x1 p : act_index (y0 + y1) (x0 + x1) p = act_index y1 x1 (act_index y0 x0 p).
Proof. destruct p as [a b]. unfold act_index. cbn [fst snd]. rewrite !Z.add_assoc. reflexivity. Qed.
Lemma act_box_law y0 x0 y1 x1 b : act_box (y0 + y1) (x0 + x1) b = act_box y1 x1 (act_box y0 x0 b).
Proof. destruct b as [[[a b] c] d]. unfold act_box, shift_box. rewrite !Z.add_assoc. reflexivity. Qed.
Definition qq_eq (p q : Q * Q) : Prop := (fst p == fst q)%Q /\ (snd p == snd q)%Q.
Lemma act_xy_law y0 x0 y1 x1 p : qq_eq (act_xy (y0 + y1) (x0 + x1) p) (act_xy y1 x1 (act_xy y0 x0 p)).
Proof. unfold act_xy, qq_eq. cbn. rewrite !inject_Z_plus. split; ring. Qed.

Lemma rebased_index_covariant {A} (z : A) box (f : img A -> Z * Z) a ny nx dy dx NY NX :
  rect ny nx a -> inside ny nx (box a) ->
  box (embed z dy dx NY NX a) = shift_box (Z.of_nat dy) (Z.of_nat dx) (box a) ->
  rebased act_index box f (embed z dy dx NY NX a) =
  (fst (rebased act_index box f a) + Z.of_nat dy, snd (rebased act_index box f a) + Z.of_nat dx).
Proof. intros. eapply (rebased_covariant_eq z act_index); eauto using act_index_law. Qed.

Lemma rebased_box_covariant {A} (z : A) box (f : img A -> zbox) a ny nx dy dx NY NX :
  rect ny nx a -> inside ny nx (box a) ->
  box (embed z dy dx NY NX a) = shift_box (Z.of_nat dy) (Z.of_nat dx) (box a) ->
  rebased act_box box f (embed z dy dx NY NX a) =
  shift_box (Z.of_nat dy) (Z.of_nat dx) (rebased act_box box f a).
Proof. intros. eapply (rebased_covariant_eq z act_box); eauto using act_box_law. Qed.

Lemma rebased_xy_covariant {A} (z : A) box (f : img A -> Q * Q) a ny nx dy dx NY NX :
  rect ny nx a -> inside ny nx (box a) ->
  box (embed z dy dx NY NX a) = shift_box (Z.of_nat dy) (Z.of_nat dx) (box a) ->
  (fst (rebased act_xy box f (embed z dy dx NY NX a)) == fst (rebased act_xy box f a) + inject_Z (Z.of_nat dx))%Q /\
  (snd (rebased act_xy box f (embed z dy dx NY NX a)) == snd (rebased act_xy box f a) + inject_Z (Z.of_nat dy))%Q.
Proof. intros. eapply (rebased_covariant_gen qq_eq z act_xy); eauto using act_xy_law. Qed.

(* ================================================================== *)
(* from_float and get_overlap_slices                                    *)
(* ================================================================== *)
Lemma Qfloor_add_Z (q : Q) (k : Z) : Qfloor (q + inject_Z k) = Qfloor q + k.
Proof.
  destruct q as [n d]. unfold Qfloor, Qplus, inject_Z. cbn [Qnum Qden].
  rewrite Pos.mul_1_r, Z.mul_1_r. apply Z.div_add. discriminate.
Qed.
Lemma Qceiling_add_Z (q : Q) (k : Z) : Qceiling (q + inject_Z k) = Qceiling q + k.
Proof.
  unfold Qceiling.
  assert (E : (- (q + inject_Z k) == - q + inject_Z (- k))%Q) by (rewrite inject_Z_opp; ring).
  rewrite (Qfloor_comp _ _ E), Qfloor_add_Z. lia.
Qed.

Lemma from_float_shift_lemma xmin xmax ymin ymax (dy dx : Z) :
  from_float (xmin + inject_Z dx) (xmax + inject_Z dx) (ymin + inject_Z dy) (ymax + inject_Z dy) =
  shift_box dy dx (from_float xmin xmax ymin ymax).
Proof.
  unfold from_float, shift_box.
  assert (E : forall q k, (q + inject_Z k + half == q + half + inject_Z k)%Q) by (intros; ring).
  rewrite (Qfloor_comp _ _ (E ymin dy)), (Qfloor_comp _ _ (E xmin dx)).
  rewrite (Qceiling_comp _ _ (E ymax dy)), (Qceiling_comp _ _ (E xmax dx)).
  rewrite !Qfloor_add_Z, !Qceiling_add_Z. reflexivity.
Qed.

Lemma from_float_swap_lemma xmin xmax ymin ymax :
  from_float ymin ymax xmin xmax = swap_box (from_float xmin xmax ymin ymax).
Proof. reflexivity. Qed.

(* a non-empty box inside the frame: the large slices are the box itself, the small slices the
   whole mask; after embedding, the large slices move with the box and the small ones stay *)
Lemma overlap_slices_inside y0 y1 x0 x1 ny nx :
  0 <= y0 < y1 -> y1 <= ny -> 0 <= x0 < x1 -> x1 <= nx ->
  overlap_slices (y0, y1, x0, x1) ny nx = Some (((y0, y1), (x0, x1)), ((0, y1 - y0), (0, x1 - x0))).
Proof.
  intros Hy Hy1 Hx Hx1. unfold overlap_slices.
  destruct ((x0 >=? nx) || (y0 >=? ny) || (x1 <=? 0) || (y1 <=? 0)) eqn:E; [lia|].
  replace (Z.max y0 0) with y0 by lia. replace (Z.min y1 ny) with y1 by lia.
  replace (Z.max x0 0) with x0 by lia. replace (Z.min x1 nx) with x1 by lia.
  replace (Z.max (- y0) 0) with 0 by lia. replace (Z.min (y1 - y0) (ny - y0)) with (y1 - y0) by lia.
  replace (Z.max (- x0) 0) with 0 by lia. replace (Z.min (x1 - x0) (nx - x0)) with (x1 - x0) by lia.
  reflexivity.
Qed.

Lemma overlap_slices_shift_lemma y0 y1 x0 x1 ny nx dy dx NY NX :
  0 <= y0 < y1 -> y1 <= ny -> 0 <= x0 < x1 -> x1 <= nx ->
  0 <= dy -> 0 <= dx -> dy + ny <= NY -> dx + nx <= NX ->
  exists ly lx s,
    overlap_slices (y0, y1, x0, x1) ny nx = Some ((ly, lx), s) /\
    overlap_slices (shift_box dy dx (y0, y1, x0, x1)) NY NX = Some ((shift_slc dy ly, shift_slc dx lx), s) /\
    ly = (y0, y1) /\ lx = (x0, x1) /\ s = ((0, y1 - y0), (0, x1 - x0)).
Proof.
  intros. exists (y0, y1), (x0, x1), ((0, y1 - y0), (0, x1 - x0)).
  split; [apply overlap_slices_inside; lia|]. split; [|auto].
  cbn [shift_box shift_slc fst snd]. rewrite overlap_slices_inside by lia.
  replace (y1 + dy - (y0 + dy)) with (y1 - y0) by lia.
  replace (x1 + dx - (x0 + dx)) with (x1 - x0) by lia. reflexivity.
Qed.

(* transposition swaps the roles of the two axes, for every box (also one straddling the frame) *)
Lemma overlap_slices_swap_lemma b ny nx :
  overlap_slices (swap_box b) nx ny =
  option_map (fun r => let '((ly, lx), (sy, sx)) := r in ((lx, ly), (sx, sy))) (overlap_slices b ny nx).
Proof.
  destruct b as [[[y0 y1] x0] x1]. unfold swap_box, overlap_slices.
  destruct ((x0 >=? nx) || (y0 >=? ny) || (x1 <=? 0) || (y1 <=? 0)) eqn:E1,
           ((y0 >=? ny) || (x0 >=? nx) || (y1 <=? 0) || (x1 <=? 0)) eqn:E2; try lia; reflexivity.
Qed.

(* ================================================================== *)
(* the tight bounding box of a label                                    *)
(* ================================================================== *)
Definition zrow0 (NX : nat) : list Z := repeat 0 NX.

Lemma has_label_repeat0 l n : l <> 0 -> has_label l (repeat 0 n) = false.
Proof. intros Hl. unfold has_label. induction n as [|n IH]; cbn; [reflexivity|]. rewrite IH. lia. Qed.

Lemma has_label_pad l dx NX r : l <> 0 -> has_label l (pad_row 0 dx NX r) = has_label l r.
Proof.
  intros Hl. unfold pad_row, has_label. rewrite !existsb_app.
  fold (has_label l (repeat 0 dx)). fold (has_label l (repeat 0 (NX - dx - length r))).
  rewrite !has_label_repeat0 by exact Hl. cbn. apply orb_false_r.
Qed.

Lemma rows_with_app l k s t :
  rows_with l k (s ++ t) = rows_with l k s ++ rows_with l (k + Z.of_nat (length s)) t.
Proof.
  revert k. induction s as [|r s IH]; intros k; cbn [rows_with app length].
  - f_equal. lia.
  - rewrite IH. replace (k + 1 + Z.of_nat (length s)) with (k + Z.of_nat (S (length s))) by lia.
    destruct (has_label l r); reflexivity.
Qed.

Lemma rows_with_zero_rows l k NX n : l <> 0 -> rows_with l k (repeat (repeat 0 NX) n) = [].
Proof.
  intros Hl. revert k. induction n as [|n IH]; intros k; cbn [repeat rows_with]; [reflexivity|].
  rewrite has_label_repeat0 by exact Hl. apply IH.
Qed.

Lemma rows_with_pad l k dx NX s : l <> 0 -> rows_with l k (map (pad_row 0 dx NX) s) = rows_with l k s.
Proof.
  intros Hl. revert k. induction s as [|r s IH]; intros k; cbn [map rows_with]; [reflexivity|].
  rewrite has_label_pad by exact Hl. rewrite IH. reflexivity.
Qed.

Lemma rows_with_offset l k d s : rows_with l (k + d) s = map (fun y => y + d) (rows_with l k s).
Proof.
  revert k. induction s as [|r s IH]; intros k; cbn [rows_with map]; [reflexivity|].
  replace (k + d + 1) with (k + 1 + d) by lia. rewrite IH.
  destruct (has_label l r); reflexivity.
Qed.

Lemma rows_with_embed l dy dx NY NX s : l <> 0 ->
  rows_with l 0 (embed 0 dy dx NY NX s) = map (fun y => y + Z.of_nat dy) (rows_with l 0 s).
Proof.
  intros Hl. unfold embed. rewrite !rows_with_app, !rows_with_zero_rows by exact Hl.
  rewrite rows_with_pad by exact Hl. rewrite app_nil_r, repeat_length. cbn [app].
  apply rows_with_offset.
Qed.

Lemma cols_in_row_app l k r t :
  cols_in_row l k (r ++ t) = cols_in_row l k r ++ cols_in_row l (k + Z.of_nat (length r)) t.
Proof.
  revert k. induction r as [|v r IH]; intros k; cbn [cols_in_row app length].
  - f_equal. lia.
  - rewrite IH. replace (k + 1 + Z.of_nat (length r)) with (k + Z.of_nat (S (length r))) by lia.
    destruct (l =? v); reflexivity.
Qed.

Lemma cols_in_row_repeat0 l k n : l <> 0 -> cols_in_row l k (repeat 0 n) = [].
Proof.
  intros Hl. revert k. induction n as [|n IH]; intros k; cbn [repeat cols_in_row]; [reflexivity|].
  destruct (l =? 0) eqn:E; [lia|]. apply IH.
Qed.

Lemma cols_in_row_offset l k d r : cols_in_row l (k + d) r = map (fun x => x + d) (cols_in_row l k r).
Proof.
  revert k. induction r as [|v r IH]; intros k; cbn [cols_in_row map]; [reflexivity|].
  replace (k + d + 1) with (k + 1 + d) by lia. rewrite IH. destruct (l =? v); reflexivity.
Qed.

Lemma cols_in_row_pad l dx NX r : l <> 0 ->
  cols_in_row l 0 (pad_row 0 dx NX r) = map (fun x => x + Z.of_nat dx) (cols_in_row l 0 r).
Proof.
  intros Hl. unfold pad_row. rewrite !cols_in_row_app, !cols_in_row_repeat0 by exact Hl.
  rewrite app_nil_r, repeat_length. cbn [app]. apply cols_in_row_offset.
Qed.

Lemma flat_map_nil_repeat {A B} (f : A -> list B) (r : A) n : f r = [] -> flat_map f (repeat r n) = [].
Proof. intros H. induction n as [|n IH]; cbn; [reflexivity|]. rewrite H, IH. reflexivity. Qed.

Lemma cols_with_embed l dy dx NY NX s : l <> 0 ->
  cols_with l (embed 0 dy dx NY NX s) = map (fun x => x + Z.of_nat dx) (cols_with l s).
Proof.
  intros Hl. unfold cols_with, embed. rewrite !flat_map_app.
  rewrite !flat_map_nil_repeat by (apply cols_in_row_repeat0; exact Hl).
  rewrite app_nil_r. cbn [app].
  induction s as [|r s IH]; cbn [map flat_map]; [reflexivity|].
  rewrite IH, cols_in_row_pad by exact Hl. rewrite map_app. reflexivity.
Qed.

Lemma zmin_offset ys y d : zmin (map (fun v => v + d) ys) (y + d) = zmin ys y + d.
Proof. induction ys as [|a ys IH]; cbn; [reflexivity|]. unfold zmin in IH. rewrite IH. lia. Qed.
Lemma zmax_offset ys y d : zmax (map (fun v => v + d) ys) (y + d) = zmax ys y + d.
Proof. induction ys as [|a ys IH]; cbn; [reflexivity|]. unfold zmax in IH. rewrite IH. lia. Qed.

Lemma seg_bbox_embed l dy dx NY NX s : l <> 0 ->
  seg_bbox l (embed 0 dy dx NY NX s) = option_map (shift_box (Z.of_nat dy) (Z.of_nat dx)) (seg_bbox l s).
Proof.
  intros Hl. unfold seg_bbox. rewrite rows_with_embed, cols_with_embed by exact Hl.
  destruct (rows_with l 0 s) as [|y ys]; [reflexivity|].
  destruct (cols_with l s) as [|x xs]; [reflexivity|].
  cbn [map option_map shift_box]. rewrite !zmin_offset, !zmax_offset.
  replace (zmax ys y + Z.of_nat dy + 1) with (zmax ys y + 1 + Z.of_nat dy) by lia.
  replace (zmax xs x + Z.of_nat dx + 1) with (zmax xs x + 1 + Z.of_nat dx) by lia.
  reflexivity.
Qed.

(* the box lies inside the frame *)
Lemma rows_with_bounds l k s y : In y (rows_with l k s) -> k <= y < k + Z.of_nat (length s).
Proof.
  revert k. induction s as [|r s IH]; intros k; cbn [rows_with length]; [intros []|].
  destruct (has_label l r).
  - intros [<-|H]; [lia|]. apply IH in H. lia.
  - intros H. apply IH in H. lia.
Qed.
Lemma cols_in_row_bounds l k r x : In x (cols_in_row l k r) -> k <= x < k + Z.of_nat (length r).
Proof.
  revert k. induction r as [|v r IH]; intros k; cbn [cols_in_row length]; [intros []|].
  destruct (l =? v).
  - intros [<-|H]; [lia|]. apply IH in H. lia.
  - intros H. apply IH in H. lia.
Qed.
Lemma cols_with_bounds l ny nx s x : rect ny nx s -> In x (cols_with l s) -> 0 <= x < Z.of_nat nx.
Proof.
  intros [_ Hr] Hin. unfold cols_with in Hin. apply in_flat_map in Hin. destruct Hin as [r [Hr1 Hx]].
  rewrite Forall_forall in Hr. apply cols_in_row_bounds in Hx. rewrite (Hr _ Hr1) in Hx. lia.
Qed.
Lemma zmin_bounds ys y lo hi : (forall v, In v (y :: ys) -> lo <= v < hi) -> lo <= zmin ys y < hi.
Proof.
  induction ys as [|a ys IH]; intros H; cbn.
  - apply H. now left.
  - assert (lo <= a < hi) by (apply H; right; now left).
    assert (lo <= zmin ys y < hi) by (apply IH; intros v [->|Hv]; apply H; [now left|right; now right]).
    unfold zmin in *. lia.
Qed.
Lemma zmax_bounds ys y lo hi : (forall v, In v (y :: ys) -> lo <= v < hi) -> lo <= zmax ys y < hi.
Proof.
  induction ys as [|a ys IH]; intros H; cbn.
  - apply H. now left.
  - assert (lo <= a < hi) by (apply H; right; now left).
    assert (lo <= zmax ys y < hi) by (apply IH; intros v [->|Hv]; apply H; [now left|right; now right]).
    unfold zmax in *. lia.
Qed.
Lemma zmin_le_zmax ys y : zmin ys y <= zmax ys y.
Proof. induction ys as [|a ys IH]; cbn; [lia|]. unfold zmin, zmax in *. lia. Qed.

Lemma seg_bbox_inside l ny nx s b : rect ny nx s -> seg_bbox l s = Some b -> inside ny nx b.
Proof.
  intros Hr. unfold seg_bbox.
  destruct (rows_with l 0 s) as [|y ys] eqn:Ey; [discriminate|].
  destruct (cols_with l s) as [|x xs] eqn:Ex; [discriminate|]. intros [= <-].
  assert (By : forall v, In v (y :: ys) -> 0 <= v < Z.of_nat ny).
  { intros v Hv. rewrite <- Ey in Hv. apply rows_with_bounds in Hv. destruct Hr as [Hl _]. lia. }
  assert (Bx : forall v, In v (x :: xs) -> 0 <= v < Z.of_nat nx).
  { intros v Hv. rewrite <- Ex in Hv. eapply cols_with_bounds; eauto. }
  pose proof (zmin_bounds ys y _ _ By). pose proof (zmax_bounds ys y _ _ By).
  pose proof (zmin_bounds xs x _ _ Bx). pose proof (zmax_bounds xs x _ _ Bx).
  pose proof (zmin_le_zmax ys y). pose proof (zmin_le_zmax xs x).
  unfold inside. lia.
Qed.

(* any measurement of the segment cutout of label l, re-based with the slice origin, is
   covariant.  The image pixels are pairs (value, label); the canvas is padded with (zv, 0). *)
Definition labels_of {V} (a : img (V * Z)) : img Z := map (map snd) a.
Definition seg_box {V} (l : Z) (a : img (V * Z)) : zbox := seg_bbox0 l (labels_of a).

Lemma seg_box_embed {V} (zv : V) l dy dx NY NX (a : img (V * Z)) b :
  l <> 0 -> seg_bbox l (labels_of a) = Some b ->
  seg_box l (embed (zv, 0) dy dx NY NX a) = shift_box (Z.of_nat dy) (Z.of_nat dx) (seg_box l a).
Proof.
  intros Hl Hb. unfold seg_box, seg_bbox0, labels_of. rewrite embed_map. cbn [snd].
  rewrite seg_bbox_embed by exact Hl. unfold labels_of in Hb. rewrite Hb. reflexivity.
Qed.

Lemma segment_rebased_gen {V P} (R : P -> P -> Prop) (zv : V) (act : Z -> Z -> P -> P)
      (f : img (V * Z) -> P) l (a : img (V * Z)) b ny nx dy dx NY NX :
  (forall y0 x0 y1 x1 p, R (act (y0 + y1) (x0 + x1) p) (act y1 x1 (act y0 x0 p))) ->
  l <> 0 -> rect ny nx a -> seg_bbox l (labels_of a) = Some b ->
  R (rebased act (seg_box l) f (embed (zv, 0) dy dx NY NX a))
    (act (Z.of_nat dy) (Z.of_nat dx) (rebased act (seg_box l) f a)).
Proof.
  intros Hact Hl Hr Hb. apply (rebased_covariant_gen R (zv, 0) act (seg_box l) f a ny nx); auto.
  - unfold seg_box, seg_bbox0. rewrite Hb. eapply seg_bbox_inside; [|exact Hb].
    apply rect_map. exact Hr.
  - eapply seg_box_embed; eauto.
Qed.

(* ================================================================== *)
(* weighted sums                                                        *)
(* ================================================================== *)
Lemma rowsum_ext w w' x r : (forall k, w k = w' k) -> rowsum w x r = rowsum w' x r.
Proof. intros H. revert x. induction r as [|d r IH]; intros x; cbn; [reflexivity|]. rewrite H, IH. reflexivity. Qed.
Lemma rowsum_app w x r t : rowsum w x (r ++ t) = rowsum w x r + rowsum w (x + Z.of_nat (length r)) t.
Proof.
  revert x. induction r as [|d r IH]; intros x; cbn [rowsum app length].
  - replace (x + Z.of_nat 0) with x by lia. lia.
  - rewrite IH. replace (x + 1 + Z.of_nat (length r)) with (x + Z.of_nat (S (length r))) by lia. lia.
Qed.
Lemma rowsum_repeat0 w x n : rowsum w x (repeat 0 n) = 0.
Proof. revert x. induction n as [|n IH]; intros x; cbn [repeat rowsum]; [reflexivity|]. rewrite IH. lia. Qed.
Lemma rowsum_offset w x k r : rowsum w (x + k) r = rowsum (fun v => w (v + k)) x r.
Proof.
  revert x. induction r as [|d r IH]; intros x; cbn [rowsum]; [reflexivity|].
  replace (x + k + 1) with (x + 1 + k) by lia. rewrite IH. reflexivity.
Qed.
Lemma rowsum_pad w dx NX r : rowsum w 0 (pad_row 0 dx NX r) = rowsum (fun v => w (v + Z.of_nat dx)) 0 r.
Proof.
  unfold pad_row. rewrite !rowsum_app, !rowsum_repeat0, repeat_length.
  rewrite <- rowsum_offset. cbn. lia.
Qed.
Lemma rowsum_add w1 w2 x r : rowsum (fun k => w1 k + w2 k) x r = rowsum w1 x r + rowsum w2 x r.
Proof. revert x. induction r as [|d r IH]; intros x; cbn [rowsum]; [reflexivity|]. rewrite IH. lia. Qed.
Lemma rowsum_scale c w x r : rowsum (fun k => c * w k) x r = c * rowsum w x r.
Proof. revert x. induction r as [|d r IH]; intros x; cbn [rowsum]; [lia|]. rewrite IH. lia. Qed.

Lemma imgsum_ext w w' y a : (forall i j, w i j = w' i j) -> imgsum w y a = imgsum w' y a.
Proof.
  intros H. revert y. induction a as [|r a IH]; intros y; cbn [imgsum]; [reflexivity|].
  rewrite IH. f_equal. apply rowsum_ext. intros k. apply H.
Qed.
Lemma imgsum_app w y a t : imgsum w y (a ++ t) = imgsum w y a + imgsum w (y + Z.of_nat (length a)) t.
Proof.
  revert y. induction a as [|r a IH]; intros y; cbn [imgsum app length].
  - replace (y + Z.of_nat 0) with y by lia. lia.
  - rewrite IH. replace (y + 1 + Z.of_nat (length a)) with (y + Z.of_nat (S (length a))) by lia. lia.
Qed.
Lemma imgsum_zero_rows w y NX n : imgsum w y (repeat (repeat 0 NX) n) = 0.
Proof.
  revert y. induction n as [|n IH]; intros y; cbn [repeat imgsum]; [reflexivity|].
  rewrite IH, rowsum_repeat0. lia.
Qed.
Lemma imgsum_offset w y k a : imgsum w (y + k) a = imgsum (fun i j => w (i + k) j) y a.
Proof.
  revert y. induction a as [|r a IH]; intros y; cbn [imgsum]; [reflexivity|].
  replace (y + k + 1) with (y + 1 + k) by lia. rewrite IH. reflexivity.
Qed.
Lemma imgsum_pad w y dx NX a :
  imgsum w y (map (pad_row 0 dx NX) a) = imgsum (fun i j => w i (j + Z.of_nat dx)) y a.
Proof.
  revert y. induction a as [|r a IH]; intros y; cbn [map imgsum]; [reflexivity|].
  rewrite IH, rowsum_pad. reflexivity.
Qed.

Lemma wsum_ext w w' a : (forall y x, w y x = w' y x) -> wsum w a = wsum w' a.
Proof. apply imgsum_ext. Qed.
Lemma wsum_add w1 w2 a : wsum (fun y x => w1 y x + w2 y x) a = wsum w1 a + wsum w2 a.
Proof.
  unfold wsum. generalize 0 at 1 2 3. induction a as [|r a IH]; intros y; cbn [imgsum]; [reflexivity|].
  rewrite IH, rowsum_add. lia.
Qed.
Lemma wsum_scale c w a : wsum (fun y x => c * w y x) a = c * wsum w a.
Proof.
  unfold wsum. generalize 0 at 1 2. induction a as [|r a IH]; intros y; cbn [imgsum]; [lia|].
  rewrite IH, rowsum_scale. lia.
Qed.

(* the sum over the canvas is the sum over the image with translated weights: no hypothesis *)
Lemma wsum_embed w dy dx NY NX a :
  wsum w (embed 0 dy dx NY NX a) = wsum (fun y x => w (y + Z.of_nat dy) (x + Z.of_nat dx)) a.
Proof.
  unfold wsum, embed. rewrite !imgsum_app, !imgsum_zero_rows, repeat_length, imgsum_pad.
  replace (0 + Z.of_nat dy) with (0 + Z.of_nat dy) by reflexivity. rewrite imgsum_offset. lia.
Qed.

(* transposition *)
Fixpoint zsum (l : list Z) : Z := match l with [] => 0 | v :: r => v + zsum r end.
Lemma zsum_map_add {A} (f g : A -> Z) l : zsum (map (fun i => f i + g i) l) = zsum (map f l) + zsum (map g l).
Proof. induction l as [|a l IH]; cbn; [reflexivity|]. rewrite IH. lia. Qed.
Lemma zsum_map_ext {A} (f g : A -> Z) l : (forall i, In i l -> f i = g i) -> zsum (map f l) = zsum (map g l).
Proof.
  induction l as [|a l IH]; intros H; cbn; [reflexivity|].
  rewrite H by (now left). rewrite IH; [reflexivity|]. intros i Hi. apply H. now right.
Qed.
Lemma zsum_map_zero {A} (l : list A) : zsum (map (fun _ => 0) l) = 0.
Proof. induction l; cbn; lia. Qed.

Lemma imgsum_map_seq (w : Z -> Z -> Z) (g : nat -> list Z) s n :
  imgsum w (Z.of_nat s) (map g (seq s n)) = zsum (map (fun j => rowsum (w (Z.of_nat j)) 0 (g j)) (seq s n)).
Proof.
  revert s. induction n as [|n IH]; intros s; cbn [seq map imgsum zsum]; [reflexivity|].
  replace (Z.of_nat s + 1) with (Z.of_nat (S s)) by lia. rewrite IH. reflexivity.
Qed.

Lemma rowsum_as_zsum (w : Z -> Z) (r : list Z) s :
  rowsum w (Z.of_nat s) r = zsum (map (fun j => w (Z.of_nat j) * nth (j - s) r 0) (seq s (length r))).
Proof.
  revert s. induction r as [|d r IH]; intros s; cbn [rowsum length seq map zsum]; [reflexivity|].
  replace (Z.of_nat s + 1) with (Z.of_nat (S s)) by lia. rewrite IH.
  replace (s - s)%nat with 0%nat by lia. cbn [nth]. f_equal.
  apply zsum_map_ext. intros j Hj. apply in_seq in Hj.
  replace (j - s)%nat with (S (j - S s)) by lia. reflexivity.
Qed.

Lemma imgsum_map_seq0 (w : Z -> Z -> Z) (g : nat -> list Z) n :
  imgsum w 0 (map g (seq 0 n)) = zsum (map (fun j => rowsum (w (Z.of_nat j)) 0 (g j)) (seq 0 n)).
Proof. exact (imgsum_map_seq w g 0 n). Qed.
Lemma rowsum_as_zsum0 (w : Z -> Z) (r : list Z) :
  rowsum w 0 r = zsum (map (fun j => w (Z.of_nat j) * nth j r 0) (seq 0 (length r))).
Proof.
  etransitivity; [exact (rowsum_as_zsum w r 0)|]. apply zsum_map_ext. intros j _.
  replace (j - 0)%nat with j by lia. reflexivity.
Qed.

Lemma wsum_transpose w ny nx a : rect ny nx a ->
  wsum w (transpose 0 nx a) = wsum (fun y x => w x y) a.
Proof.
  revert w ny. induction a as [|r a IH]; intros w ny [Hl Hr].
  - unfold wsum, transpose. rewrite imgsum_map_seq0. cbn [map rowsum imgsum]. apply zsum_map_zero.
  - inversion Hr as [|? ? Hr1 Hr2]; subst.
    assert (Hra : rect (length a) (length r) a) by (split; [reflexivity|exact Hr2]).
    specialize (IH (fun y x => w y (x + 1)) (length a) Hra).
    unfold wsum in *. unfold transpose in *. rewrite imgsum_map_seq0 in IH. rewrite imgsum_map_seq0.
    cbn [imgsum].
    transitivity (zsum (map (fun j : nat => w (Z.of_nat j) 0 * nth j r 0 +
                       rowsum (fun v => w (Z.of_nat j) (v + 1)) 0 (map (fun r' : list Z => nth j r' 0) a))
                     (seq 0 (length r)))).
    + apply zsum_map_ext. intros j _. cbn [map rowsum]. rewrite (rowsum_offset _ 0 1). reflexivity.
    + rewrite zsum_map_add, IH. f_equal.
      * symmetry. apply (rowsum_as_zsum0 (fun x => w x 0) r).
      * symmetry. apply (imgsum_offset (fun y x => w x y) 0 1 a).
Qed.

(* ================================================================== *)
(* moments                                                              *)
(* ================================================================== *)
Lemma moment_transpose_lemma i j ny nx a : rect ny nx a -> moment i j (transpose 0 nx a) = moment j i a.
Proof.
  intros Hr. unfold moment. rewrite (wsum_transpose _ ny nx a Hr). apply wsum_ext. intros y x. lia.
Qed.

Lemma M00_embed dy dx NY NX a : M00 (embed 0 dy dx NY NX a) = M00 a.
Proof. unfold M00, moment. rewrite wsum_embed. apply wsum_ext. intros; reflexivity. Qed.

Lemma M10_embed dy dx NY NX a : M10 (embed 0 dy dx NY NX a) = M10 a + Z.of_nat dx * M00 a.
Proof.
  unfold M10, M00, moment. rewrite wsum_embed. rewrite <- wsum_scale, <- wsum_add.
  apply wsum_ext. intros y x. cbn [Z.of_nat]. rewrite !Z.pow_0_r, !Z.pow_1_r. lia.
Qed.
Lemma M01_embed dy dx NY NX a : M01 (embed 0 dy dx NY NX a) = M01 a + Z.of_nat dy * M00 a.
Proof.
  unfold M01, M00, moment. rewrite wsum_embed. rewrite <- wsum_scale, <- wsum_add.
  apply wsum_ext. intros y x. cbn [Z.of_nat]. rewrite !Z.pow_0_r, !Z.pow_1_r. lia.
Qed.

(* central moments of EVERY order are unchanged by the embedding *)
Lemma cmoment_embed i j dy dx NY NX a : cmoment i j (embed 0 dy dx NY NX a) = cmoment i j a.
Proof.
  unfold cmoment. rewrite wsum_embed, M00_embed, M10_embed, M01_embed.
  apply wsum_ext. intros y x. f_equal; f_equal; ring.
Qed.

Lemma cmoment_transpose i j ny nx a : rect ny nx a -> cmoment i j (transpose 0 nx a) = cmoment j i a.
Proof.
  intros Hr. unfold cmoment, M00, M10, M01.
  rewrite !(moment_transpose_lemma _ _ ny nx a Hr), (wsum_transpose _ ny nx a Hr).
  apply wsum_ext. intros y x. ring.
Qed.

Lemma centroid_embed dy dx NY NX a : M00 a <> 0 ->
  (centroid_x (embed 0%Z dy dx NY NX a) == centroid_x a + inject_Z (Z.of_nat dx))%Q /\
  (centroid_y (embed 0%Z dy dx NY NX a) == centroid_y a + inject_Z (Z.of_nat dy))%Q.
Proof.
  intros H0. unfold centroid_x, centroid_y, qdiv. rewrite M00_embed, M10_embed, M01_embed.
  assert (Hq : ~ (inject_Z (M00 a) == 0)%Q).
  { intros E. apply H0. unfold Qeq in E. cbn in E. lia. }
  rewrite !inject_Z_plus, !inject_Z_mult. split; field; exact Hq.
Qed.

Lemma centroid_transpose ny nx a : rect ny nx a ->
  centroid_x (transpose 0 nx a) = centroid_y a /\ centroid_y (transpose 0 nx a) = centroid_x a.
Proof.
  intros Hr. unfold centroid_x, centroid_y, M00, M10, M01.
  rewrite !(moment_transpose_lemma _ _ ny nx a Hr). split; reflexivity.
Qed.

Lemma cov_embed dy dx NY NX a :
  cov_xx (embed 0 dy dx NY NX a) = cov_xx a /\ cov_xy (embed 0 dy dx NY NX a) = cov_xy a /\
  cov_yy (embed 0 dy dx NY NX a) = cov_yy a.
Proof. unfold cov_xx, cov_xy, cov_yy. rewrite !cmoment_embed, M00_embed. auto. Qed.

Lemma cov_transpose ny nx a : rect ny nx a ->
  cov_xx (transpose 0 nx a) = cov_yy a /\ cov_xy (transpose 0 nx a) = cov_xy a /\
  cov_yy (transpose 0 nx a) = cov_xx a.
Proof.
  intros Hr. unfold cov_xx, cov_xy, cov_yy, M00.
  rewrite !(cmoment_transpose _ _ ny nx a Hr), (moment_transpose_lemma _ _ ny nx a Hr). auto.
Qed.

(* SourceCatalog.centroid of a segment cutout inside the frame *)
Lemma catalog_centroid_embed dy dx NY NX ny nx a b :
  rect ny nx a -> inside ny nx b ->
  qq_eq (catalog_centroid (shift_box (Z.of_nat dy) (Z.of_nat dx) b) (embed 0 dy dx NY NX a))
        (act_xy (Z.of_nat dy) (Z.of_nat dx) (catalog_centroid b a)).
Proof.
  intros Hr Hin. unfold catalog_centroid. rewrite (cropz_embed 0 dy dx NY NX ny nx a b Hr Hin).
  destruct b as [[[y0 y1] x0] x1]. cbn [shift_box]. apply act_xy_law.
Qed.

(* ================================================================== *)
(* foreground map of detect_sources                                     *)
(* ================================================================== *)
Lemma map3_app {A B C D} (f : A -> B -> C -> D) a a' b b' c c' :
  length a = length b -> length a = length c ->
  map3 f (a ++ a') (b ++ b') (c ++ c') = map3 f a b c ++ map3 f a' b' c'.
Proof.
  revert b c. induction a as [|x a IH]; intros [|y b] [|z c]; cbn; try discriminate; intros H1 H2.
  - reflexivity.
  - f_equal. apply IH; lia.
Qed.
Lemma map3_repeat {A B C D} (f : A -> B -> C -> D) x y z n :
  map3 f (repeat x n) (repeat y n) (repeat z n) = repeat (f x y z) n.
Proof. induction n; cbn; congruence. Qed.

Lemma fg_row_pad zd zt zm dx NX rd rt rm :
  fg_px zd zt zm = false -> length rd = length rt -> length rd = length rm ->
  map3 fg_px (pad_row zd dx NX rd) (pad_row zt dx NX rt) (pad_row zm dx NX rm) =
  pad_row false dx NX (map3 fg_px rd rt rm).
Proof.
  intros Hz H1 H2. unfold pad_row.
  assert (Hl : length (map3 fg_px rd rt rm) = length rd).
  { clear Hz. revert rt rm H1 H2. induction rd as [|x rd IH]; intros [|y rt] [|z rm]; cbn; try discriminate; auto. }
  rewrite map3_app by (rewrite !repeat_length; reflexivity).
  rewrite map3_app by assumption. rewrite <- H1, <- H2, Hl, !map3_repeat, Hz. reflexivity.
Qed.

Lemma fg_img_length data thr mask ny nx :
  rect ny nx data -> rect ny nx thr -> rect ny nx mask -> length (fg_img data thr mask) = ny.
Proof.
  intros [H1 _] [H2 _] [H3 _]. unfold fg_img. subst ny. revert thr mask H2 H3.
  induction data as [|x d IH]; intros [|y t] [|z m]; cbn; try discriminate; auto.
Qed.

(* padding that is not above its threshold (or is masked) stays background: the foreground map
   of the canvas is the embedded foreground map *)
Lemma fg_img_embed zd zt zm dy dx NY NX ny nx data thr mask :
  fg_px zd zt zm = false ->
  rect ny nx data -> rect ny nx thr -> rect ny nx mask ->
  fg_img (embed zd dy dx NY NX data) (embed zt dy dx NY NX thr) (embed zm dy dx NY NX mask) =
  embed false dy dx NY NX (fg_img data thr mask).
Proof.
  intros Hz Hd Ht Hm. pose proof (fg_img_length _ _ _ _ _ Hd Ht Hm) as Hlen.
  destruct Hd as [Hd1 Hd2], Ht as [Ht1 Ht2], Hm as [Hm1 Hm2].
  unfold fg_img, embed.
  rewrite map3_app by (rewrite !repeat_length; reflexivity).
  rewrite map3_app by (rewrite !map_length; lia).
  rewrite !map3_repeat, Hz.
  unfold fg_img in Hlen. rewrite Hlen, Hd1, Ht1, Hm1, !map3_repeat, Hz.
  f_equal. f_equal.
  clear Hlen. subst ny. revert thr mask Ht1 Hm1 Ht2 Hm2.
  induction Hd2 as [|rd data Hrd Hd2 IH]; intros [|rt thr] [|rm mask]; cbn [length map map3]; try discriminate; auto.
  intros Ht1 Hm1 Ht2 Hm2. inversion Ht2; subst. inversion Hm2; subst.
  rewrite fg_row_pad by (assumption || congruence). f_equal. apply IH; auto.
Qed.

(* pixel view of the embedding, both halves *)
Lemma embed_pixels {A} (z : A) dy dx NY NX ny nx (a : img A) :
  rect ny nx a -> (dy + ny <= NY)%nat -> (dx + nx <= NX)%nat ->
  (forall y x, (y < ny)%nat -> (x < nx)%nat -> get z (embed z dy dx NY NX a) (dy + y) (dx + x) = get z a y x) /\
  (forall y x, (y < NY)%nat -> (x < NX)%nat ->
     ~ ((dy <= y < dy + ny)%nat /\ (dx <= x < dx + nx)%nat) -> get z (embed z dy dx NY NX a) y x = z).
Proof.
  intros Hr HY HX. split.
  - intros y x Hy Hx. destruct Hr as [Hl Hrows]. apply get_embed_in; [lia|].
    rewrite Forall_forall in Hrows. rewrite (Hrows (nth y a [])); [exact Hx|]. apply nth_In. lia.
  - intros y x Hy Hx Hout. apply (get_embed_out z dy dx NY NX ny nx a y x); assumption.
Qed.

(* ================================================================== *)
(* background at the centroid (bilinear interpolation)                  *)
(* ================================================================== *)
Lemma bilinear_embed dy dx NY NX ny nx a y x fy fx s :
  rect ny nx a -> (S y < ny)%nat -> (S x < nx)%nat ->
  bilinear (embed 0 dy dx NY NX a) (dy + y) (dx + x) fy fx s = bilinear a y x fy fx s.
Proof.
  intros [Hl Hr] Hy Hx. unfold bilinear.
  assert (G : forall j i, (j < ny)%nat -> (i < nx)%nat ->
            get 0 (embed 0 dy dx NY NX a) (dy + j) (dx + i) = get 0 a j i).
  { intros j i Hj Hi. apply get_embed_in; [lia|].
    rewrite Forall_forall in Hr. rewrite (Hr (nth j a [])); [exact Hi|]. apply nth_In. lia. }
  replace (S (dy + y)) with (dy + S y)%nat by lia. replace (S (dx + x)) with (dx + S x)%nat by lia.
  rewrite !G by lia. reflexivity.
Qed.

(* the unrepaired order of coordinates is not covariant: a 2 x 3 ramp, offset (0, 1) *)
Lemma bilinear_head_not_covariant :
  exists (a : img Z) (dy dx NY NX y x : nat) (fy fx s : Z),
    rect 2 3 a /\ (S y < 2)%nat /\ (S x < 3)%nat /\
    bilinear_head (embed 0 dy dx NY NX a) (dy + y) (dx + x) fy fx s <> bilinear_head a y x fy fx s.
Proof.
  exists [[1; 2; 3]; [4; 5; 6]], 0%nat, 1%nat, 2%nat, 4%nat, 0%nat, 1%nat, 0, 0, 1.
  split; [split; [reflexivity|repeat constructor]|]. split; [lia|]. split; [lia|].
  vm_compute. discriminate.
Qed.
