(* C03 -- proofs about the self-contained definitions of C03_Model.v:
   crop/embed algebra, the generic re-basing theorem, from_float / overlap-slice covariance,
   bounding box of a label, weighted sums and image moments under embedding and transposition,
   the foreground map of detect_sources under embedding. *)
From Coq Require Import List ZArith QArith Qround Bool Lia ZifyBool Arith.
From PV Require Import lib.Cases C03_Model.
Import ListNotations.
Open Scope Z_scope.

(* ================================================================== *)
(* lists                                                                *)
(* ================================================================== *)
Lemma skipn_repeat_app {A} (z : A) n k (l : list A) : skipn (n + k) (repeat z n ++ l) = skipn k l.
Proof.
  rewrite skipn_app, repeat_length. replace (n + k - n)%nat with k by lia.
  rewrite skipn_all2; [reflexivity|]. rewrite repeat_length. lia.
Qed.

Lemma firstn_skipn_app {A} (l t : list A) a b :
  (b <= length l)%nat -> firstn (b - a) (skipn a (l ++ t)) = firstn (b - a) (skipn a l).
Proof.
  intros Hb. rewrite skipn_app, firstn_app, skipn_length.
  replace (b - a - (length l - a))%nat with 0%nat by lia. cbn. apply app_nil_r.
Qed.

Lemma In_firstn {A} (x : A) n l : In x (firstn n l) -> In x l.
Proof.
  revert l. induction n as [|n IH]; intros [|a l]; cbn; try tauto. intros [->|H]; auto.
Qed.
Lemma In_skipn' {A} (x : A) n l : In x (skipn n l) -> In x l.
Proof.
  revert l. induction n as [|n IH]; intros [|a l]; cbn; try tauto. intros H. right. auto.
Qed.
Lemma Forall_firstn_skipn {A} (P : A -> Prop) (l : list A) a b :
  Forall P l -> Forall P (firstn b (skipn a l)).
Proof.
  intros H. apply Forall_forall. intros x Hx. rewrite Forall_forall in H. apply H.
  eapply In_skipn', In_firstn, Hx.
Qed.

Lemma nth_repeat_any {A} (z d : A) n k : nth k (repeat z n) d = if (k <? n)%nat then z else d.
Proof.
  revert k. induction n as [|n IH]; intros [|k]; cbn [repeat nth]; try reflexivity.
  rewrite IH. destruct (k <? n)%nat eqn:E1, (S k <? S n)%nat eqn:E2; try reflexivity; lia.
Qed.

(* ================================================================== *)
(* embed / crop                                                         *)
(* ================================================================== *)
Section EmbedCrop.
Context {A : Type} (z : A).

Lemma pad_row_length dx NX (r : list A) : (dx + length r <= NX)%nat -> length (pad_row z dx NX r) = NX.
Proof. intros H. unfold pad_row. rewrite !app_length, !repeat_length. lia. Qed.

Lemma embed_rect dy dx NY NX ny nx (a : img A) :
  rect ny nx a -> (dy + ny <= NY)%nat -> (dx + nx <= NX)%nat -> rect NY NX (embed z dy dx NY NX a).
Proof.
  intros [Hl Hr] Hy Hx. unfold embed, rect. split.
  - rewrite !app_length, !repeat_length, map_length. lia.
  - rewrite !Forall_app. repeat split.
    + apply Forall_forall. intros r Hin. apply repeat_spec in Hin. subst. apply repeat_length.
    + apply Forall_forall. intros r Hin. apply in_map_iff in Hin. destruct Hin as [r0 [<- Hin]].
      rewrite Forall_forall in Hr. apply pad_row_length. rewrite (Hr _ Hin). exact Hx.
    + apply Forall_forall. intros r Hin. apply repeat_spec in Hin. subst. apply repeat_length.
Qed.

Lemma crop_row_pad dx NX (r : list A) x0 x1 :
  (x1 <= length r)%nat ->
  firstn (dx + x1 - (dx + x0)) (skipn (dx + x0) (pad_row z dx NX r)) = firstn (x1 - x0) (skipn x0 r).
Proof.
  intros H. unfold pad_row. replace (dx + x1 - (dx + x0))%nat with (x1 - x0)%nat by lia.
  rewrite skipn_repeat_app. apply firstn_skipn_app. exact H.
Qed.

(* the cutout of the canvas at the translated box is the cutout of the image, pixel for pixel,
   as soon as the box does not reach beyond the original frame *)
Lemma crop_embed dy dx NY NX ny nx (a : img A) y0 y1 x0 x1 :
  rect ny nx a -> (y1 <= ny)%nat -> (x1 <= nx)%nat ->
  crop (dy + y0) (dy + y1) (dx + x0) (dx + x1) (embed z dy dx NY NX a) = crop y0 y1 x0 x1 a.
Proof.
  intros [Hl Hr] Hy Hx. unfold crop, embed.
  replace (dy + y1 - (dy + y0))%nat with (y1 - y0)%nat by lia.
  rewrite skipn_repeat_app, firstn_skipn_app by (rewrite map_length; lia).
  rewrite skipn_map, firstn_map, map_map. apply map_ext_in. intros r Hin.
  apply crop_row_pad.
  assert (HF : Forall (fun r => length r = nx) (firstn (y1 - y0) (skipn y0 a)))
    by (apply Forall_firstn_skipn; exact Hr).
  rewrite Forall_forall in HF. rewrite (HF _ Hin). exact Hx.
Qed.

Lemma cropz_embed dy dx NY NX ny nx (a : img A) b :
  rect ny nx a -> inside ny nx b ->
  cropz (shift_box (Z.of_nat dy) (Z.of_nat dx) b) (embed z dy dx NY NX a) = cropz b a.
Proof.
  destruct b as [[[y0 y1] x0] x1]. intros Hr (Hy0 & Hy1 & Hx0 & Hx1). cbn [shift_box cropz].
  replace (Z.to_nat (y0 + Z.of_nat dy)) with (dy + Z.to_nat y0)%nat by lia.
  replace (Z.to_nat (y1 + Z.of_nat dy)) with (dy + Z.to_nat y1)%nat by lia.
  replace (Z.to_nat (x0 + Z.of_nat dx)) with (dx + Z.to_nat x0)%nat by lia.
  replace (Z.to_nat (x1 + Z.of_nat dx)) with (dx + Z.to_nat x1)%nat by lia.
  apply (crop_embed dy dx NY NX ny nx); [exact Hr|lia|lia].
Qed.

(* pixel view of the canvas *)
Lemma get_embed_in (d : A) dy dx NY NX (a : img A) y x :
  (y < length a)%nat -> (x < length (nth y a []))%nat ->
  get d (embed z dy dx NY NX a) (dy + y) (dx + x) = get d a y x.
Proof.
  intros Hy Hx. unfold get, embed.
  rewrite app_nth2 by (rewrite repeat_length; lia). rewrite repeat_length.
  replace (dy + y - dy)%nat with y by lia.
  rewrite app_nth1 by (rewrite map_length; exact Hy).
  rewrite (nth_indep _ [] (pad_row z dx NX [])) by (rewrite map_length; exact Hy).
  rewrite map_nth. unfold pad_row.
  rewrite app_nth2 by (rewrite repeat_length; lia). rewrite repeat_length.
  replace (dx + x - dx)%nat with x by lia. rewrite app_nth1 by exact Hx. reflexivity.
Qed.

(* outside the embedded frame the canvas holds the padding value *)
Lemma get_embed_out dy dx NY NX ny nx (a : img A) y x :
  rect ny nx a -> (dy + ny <= NY)%nat -> (dx + nx <= NX)%nat -> (y < NY)%nat -> (x < NX)%nat ->
  ~ ((dy <= y < dy + ny)%nat /\ (dx <= x < dx + nx)%nat) ->
  get z (embed z dy dx NY NX a) y x = z.
Proof.
  intros [Hl Hr] HY HX Hy Hx Hout. unfold get, embed.
  destruct (Nat.lt_ge_cases y dy) as [H1|H1].
  { rewrite app_nth1 by (rewrite repeat_length; exact H1).
    rewrite nth_repeat_any. destruct (y <? dy)%nat eqn:E; [|lia].
    rewrite nth_repeat_any. destruct (x <? NX)%nat; reflexivity. }
  rewrite app_nth2 by (rewrite repeat_length; lia). rewrite repeat_length.
  destruct (Nat.lt_ge_cases (y - dy) ny) as [H2|H2].
  - rewrite app_nth1 by (rewrite map_length; lia).
    rewrite (nth_indep _ [] (pad_row z dx NX [])) by (rewrite map_length; lia).
    rewrite map_nth. unfold pad_row.
    assert (Hlen : length (nth (y - dy) a []) = nx).
    { rewrite Forall_forall in Hr. apply Hr. apply nth_In. lia. }
    destruct (Nat.lt_ge_cases x dx) as [H3|H3].
    { rewrite app_nth1 by (rewrite repeat_length; exact H3). rewrite nth_repeat_any.
      destruct (x <? dx)%nat; reflexivity. }
    rewrite app_nth2 by (rewrite repeat_length; lia). rewrite repeat_length.
    rewrite app_nth2 by lia. rewrite nth_repeat_any. destruct (_ <? _)%nat; reflexivity.
  - rewrite app_nth2 by (rewrite map_length; lia). rewrite nth_repeat_any.
    destruct (_ <? _)%nat; [|destruct x; reflexivity].
    rewrite nth_repeat_any. destruct (x <? NX)%nat; reflexivity.
Qed.
End EmbedCrop.

Lemma map_repeat' {A B} (g : A -> B) (z : A) n : map g (repeat z n) = repeat (g z) n.
Proof. induction n; cbn; congruence. Qed.

Lemma embed_map {A B} (g : A -> B) (z : A) dy dx NY NX (a : img A) :
  map (map g) (embed z dy dx NY NX a) = embed (g z) dy dx NY NX (map (map g) a).
Proof.
  unfold embed. rewrite !map_app, !map_repeat', !map_map, map_length. f_equal. f_equal.
  apply map_ext. intros r. unfold pad_row. rewrite !map_app, !map_repeat', map_length. reflexivity.
Qed.

Lemma rect_map {A B} (g : A -> B) ny nx (a : img A) : rect ny nx a -> rect ny nx (map (map g) a).
Proof.
  intros [Hl Hr]. split; [rewrite map_length; exact Hl|].
  apply Forall_forall. intros r Hin. apply in_map_iff in Hin. destruct Hin as [r0 [<- Hin]].
  rewrite map_length. rewrite Forall_forall in Hr. auto.
Qed.

(* ================================================================== *)
(* the generic theorem                                                  *)
(* ================================================================== *)
(* R is the notion of equality of results (Leibniz equality for indices and boxes, Qeq on both
   coordinates for float positions); the only thing asked of the origin action is that adding
   (y0 + dy, x0 + dx) is adding (y0, x0) and then (dy, dx). *)
Lemma rebased_covariant_gen {A P} (R : P -> P -> Prop) (z : A) (act : Z -> Z -> P -> P)
      (box : img A -> zbox) (f : img A -> P) (a : img A) ny nx dy dx NY NX :
  (forall y0 x0 y1 x1 p, R (act (y0 + y1) (x0 + x1) p) (act y1 x1 (act y0 x0 p))) ->
  rect ny nx a -> inside ny nx (box a) ->
  box (embed z dy dx NY NX a) = shift_box (Z.of_nat dy) (Z.of_nat dx) (box a) ->
  R (rebased act box f (embed z dy dx NY NX a))
    (act (Z.of_nat dy) (Z.of_nat dx) (rebased act box f a)).
Proof.
  intros Hact Hr Hin Hbox. unfold rebased. rewrite Hbox.
  rewrite (cropz_embed z dy dx NY NX ny nx a (box a) Hr Hin).
  destruct (box a) as [[[y0 y1] x0] x1]. cbn [shift_box]. apply Hact.
Qed.

Lemma rebased_covariant_eq {A P} (z : A) (act : Z -> Z -> P -> P)
      (box : img A -> zbox) (f : img A -> P) (a : img A) ny nx dy dx NY NX :
  (forall y0 x0 y1 x1 p, act (y0 + y1) (x0 + x1) p = act y1 x1 (act y0 x0 p)) ->
  rect ny nx a -> inside ny nx (box a) ->
  box (embed z dy dx NY NX a) = shift_box (Z.of_nat dy) (Z.of_nat dx) (box a) ->
  rebased act box f (embed z dy dx NY NX a) = act (Z.of_nat dy) (Z.of_nat dx) (rebased act box f a).
Proof. apply (rebased_covariant_gen eq). Qed.

(* the three origin actions of the anchored code satisfy the action law *)
Lemma act_index_law y0 x0 y1 x1 p : act_index (y0 + y1) (x0 + x1) p = act_index y1 x1 (act_index y0 x0 p).
Proof. destruct p as [a b]. unfold act_index. cbn [fst snd]. apply f_equal2; lia. Qed.
Lemma act_box_law y0 x0 y1 x1 b : act_box (y0 + y1) (x0 + x1) b = act_box y1 x1 (act_box y0 x0 b).
Proof. destruct b as [[[a b] c] d]. unfold act_box, shift_box. repeat apply f_equal2; lia. Qed.
Definition qq_eq (p q : Q * Q) : Prop := (fst p == fst q)%Q /\ (snd p == snd q)%Q.
Lemma act_xy_law y0 x0 y1 x1 p : qq_eq (act_xy (y0 + y1) (x0 + x1) p) (act_xy y1 x1 (act_xy y0 x0 p)).
Proof. unfold act_xy, qq_eq. cbn. rewrite !inject_Z_plus. split; ring. Qed.

Lemma rebased_index_covariant {A} (z : A) box (f : img A -> Z * Z) a ny nx dy dx NY NX :
  rect ny nx a -> inside ny nx (box a) ->
  box (embed z dy dx NY NX a) = shift_box (Z.of_nat dy) (Z.of_nat dx) (box a) ->
  rebased act_index box f (embed z dy dx NY NX a) =
  (fst (rebased act_index box f a) + Z.of_nat dy, snd (rebased act_index box f a) + Z.of_nat dx).
Proof. intros. eapply (rebased_covariant_eq z act_index); eauto using act_index_law. Qed.

Lemma rebased_box_covariant {A} (z : A) box (f : img A -> zbox) a ny nx dy dx NY NX :
  rect ny nx a -> inside ny nx (box a) ->
  box (embed z dy dx NY NX a) = shift_box (Z.of_nat dy) (Z.of_nat dx) (box a) ->
  rebased act_box box f (embed z dy dx NY NX a) =
  shift_box (Z.of_nat dy) (Z.of_nat dx) (rebased act_box box f a).
Proof. intros. eapply (rebased_covariant_eq z act_box); eauto using act_box_law. Qed.

Lemma rebased_xy_covariant {A} (z : A) box (f : img A -> Q * Q) a ny nx dy dx NY NX :
  rect ny nx a -> inside ny nx (box a) ->
  box (embed z dy dx NY NX a) = shift_box (Z.of_nat dy) (Z.of_nat dx) (box a) ->
  (fst (rebased act_xy box f (embed z dy dx NY NX a)) == fst (rebased act_xy box f a) + inject_Z (Z.of_nat dx))%Q /\
  (snd (rebased act_xy box f (embed z dy dx NY NX a)) == snd (rebased act_xy box f a) + inject_Z (Z.of_nat dy))%Q.
Proof. intros. eapply (rebased_covariant_gen qq_eq z act_xy); eauto using act_xy_law. Qed.

(* ================================================================== *)
(* from_float and get_overlap_slices                                    *)
(* ================================================================== *)
Lemma Qfloor_add_Z (q : Q) (k : Z) : Qfloor (q + inject_Z k) = Qfloor q + k.
Proof.
  destruct q as [n d]. unfold Qfloor, Qplus, inject_Z. cbn [Qnum Qden].
  rewrite Pos.mul_1_r, Z.mul_1_r. apply Z.div_add. discriminate.
Qed.
Lemma Qceiling_add_Z (q : Q) (k : Z) : Qceiling (q + inject_Z k) = Qceiling q + k.
Proof.
  unfold Qceiling.
  assert (E : (- (q + inject_Z k) == - q + inject_Z (- k))%Q) by (rewrite inject_Z_opp; ring).
  rewrite (Qfloor_comp _ _ E), Qfloor_add_Z. lia.
Qed.

Lemma from_float_shift_lemma xmin xmax ymin ymax (dy dx : Z) :
  from_float (xmin + inject_Z dx) (xmax + inject_Z dx) (ymin + inject_Z dy) (ymax + inject_Z dy) =
  shift_box dy dx (from_float xmin xmax ymin ymax).
Proof.
  unfold from_float, shift_box.
  assert (E : forall q k, (q + inject_Z k + half == q + half + inject_Z k)%Q) by (intros; ring).
  rewrite (Qfloor_comp _ _ (E ymin dy)), (Qfloor_comp _ _ (E xmin dx)).
  rewrite (Qceiling_comp _ _ (E ymax dy)), (Qceiling_comp _ _ (E xmax dx)).
  rewrite !Qfloor_add_Z, !Qceiling_add_Z. reflexivity.
Qed.

Lemma from_float_swap_lemma xmin xmax ymin ymax :
  from_float ymin ymax xmin xmax = swap_box (from_float xmin xmax ymin ymax).
Proof. reflexivity. Qed.

(* a non-empty box inside the frame: the large slices are the box itself, the small slices the
   whole mask; after embedding, the large slices move with the box and the small ones stay *)
Lemma overlap_slices_inside y0 y1 x0 x1 ny nx :
  0 <= y0 < y1 -> y1 <= ny -> 0 <= x0 < x1 -> x1 <= nx ->
  overlap_slices (y0, y1, x0, x1) ny nx = Some (((y0, y1), (x0, x1)), ((0, y1 - y0), (0, x1 - x0))).
Proof.
  intros Hy Hy1 Hx Hx1. unfold overlap_slices.
  destruct ((x0 >=? nx) || (y0 >=? ny) || (x1 <=? 0) || (y1 <=? 0)) eqn:E; [lia|].
  repeat f_equal; lia.
Qed.

Lemma overlap_slices_shift_lemma y0 y1 x0 x1 ny nx dy dx NY NX :
  0 <= y0 < y1 -> y1 <= ny -> 0 <= x0 < x1 -> x1 <= nx ->
  0 <= dy -> 0 <= dx -> dy + ny <= NY -> dx + nx <= NX ->
  exists ly lx s,
    overlap_slices (y0, y1, x0, x1) ny nx = Some ((ly, lx), s) /\
    overlap_slices (shift_box dy dx (y0, y1, x0, x1)) NY NX = Some ((shift_slc dy ly, shift_slc dx lx), s) /\
    ly = (y0, y1) /\ lx = (x0, x1) /\ s = ((0, y1 - y0), (0, x1 - x0)).
Proof.
  intros. exists (y0, y1), (x0, x1), ((0, y1 - y0), (0, x1 - x0)).
  split; [apply overlap_slices_inside; lia|]. split; [|auto].
  cbn [shift_box shift_slc fst snd]. rewrite overlap_slices_inside by lia. repeat f_equal; lia.
Qed.

(* transposition swaps the roles of the two axes, for every box (also one straddling the frame) *)
Lemma overlap_slices_swap_lemma b ny nx :
  overlap_slices (swap_box b) nx ny =
  option_map (fun r => let '((ly, lx), (sy, sx)) := r in ((lx, ly), (sx, sy))) (overlap_slices b ny nx).
Proof.
  destruct b as [[[y0 y1] x0] x1]. unfold swap_box, overlap_slices.
  destruct ((x0 >=? nx) || (y0 >=? ny) || (x1 <=? 0) || (y1 <=? 0)) eqn:E1,
           ((y0 >=? ny) || (x0 >=? nx) || (y1 <=? 0) || (x1 <=? 0)) eqn:E2; try lia; reflexivity.
Qed.
