(* C10 — no public call modifies the arrays, tables or models passed to it.
   Property theorems only; each is closed by [exact] of a lemma of C10_Proofs.

   Reading guide.  [stmt] is the array-effects IR into which harness/c10_translate.py
   translates the CURRENT source text of the scoped photutils functions on every run;
   a value is the set of buffers writable through it, [ver c b] is the number of writes
   buffer [b] has received, [exec c s o c'] is the (non-deterministic: branches, loop
   counts, view-or-copy calls, exceptions anywhere) big-step semantics with outcome [o]
   (normal / return v / exception / break / continue), [accepts params s] is the
   may-alias analysis run from "exactly the variables [params] may reach caller-owned
   buffers".  The per-run obligations are [accepts params (IR of f) = true], one per
   scoped function, evaluated by vm_compute on the regenerated IR ([check_case]). *)
From Coq Require Import List Arith NArith Bool.
From PV Require Import C10_Model C10_Proofs.
Import ListNotations.

(* analysis_sound [core, full]: for an arbitrary set P of protected buffers and an
   arbitrary entry state in which only variables listed in [params] reach P (and P was
   allocated before), every execution of an accepted program - whatever its outcome,
   return OR raise - leaves the version of every protected buffer unchanged. *)
Theorem analysis_sound : forall (P : buf -> bool) params s c o c',
  accepts params s = true -> R P params c -> exec c s o c' ->
  forall b, P b = true -> ver c' b = ver c b.
Proof. exact accepts_sound. Qed.
Print Assumptions analysis_sound.

(* the same with the protected set spelled out: every buffer reachable from a parameter
   at entry is unchanged at return or raise *)
Theorem params_unchanged : forall params s c o c',
  accepts params s = true -> entry_ok params c -> exec c s o c' ->
  forall x b, In x params -> In b (st c x) -> ver c' b = ver c b.
Proof. exact params_unchanged_lemma. Qed.
Print Assumptions params_unchanged.

(* when the analysis answers "the result does not alias a parameter", the returned value
   reaches no buffer of any parameter (so a caller writing into the result cannot change
   its own inputs); this is the direction the observed-aliasing correspondence checks *)
Theorem result_fresh : forall params s c v c',
  ret_may_alias params s = Some false -> entry_ok params c -> exec c s (ORet v) c' ->
  forall x b, In x params -> In b (st c x) -> ~ In b v.
Proof. exact result_fresh_lemma. Qed.
Print Assumptions result_fresh.

(* the invariant behind it, statement by statement, for every sub-program and every fuel:
   the abstract result covers the concrete state for each of the five outcomes *)
Theorem analysis_invariant : forall (P : buf -> bool) s fuel A A',
  wfA A -> analyze fuel s A = Some A' ->
  mono A A' /\
  forall c o c', R P (a_norm A) c -> exec c s o c' -> untouched P c c' /\ post P A' o c'.
Proof. intros P s. exact (all_sound P s). Qed.
Print Assumptions analysis_invariant.

(* the semantics is not vacuous: writing through a view of a parameter changes it ... *)
Theorem semantics_sees_view_writes :
  exists c', exec c_entry (Seq (Assign 1%N (EView 0%N)) (InPlace 1%N)) ONorm c' /\
             ver c' 0 <> ver c_entry 0.
Proof. exact view_write_changes. Qed.
Print Assumptions semantics_sees_view_writes.

(* ... and the IR of the UNREPAIRED ProfileBase._compute_mask (DESIGN section 6 no. 12) is
   rejected and has an execution that modifies the caller's mask; the repaired one is
   accepted (the harness replays the witness on the implementation) *)
Theorem compute_mask_unrepaired_refuted :
  accepts [0%N; 1%N; 2%N] compute_mask_defect = false /\
  exists c c' v, entry_ok [0%N; 1%N; 2%N] c /\ exec c compute_mask_defect (ORet v) c' /\
                 exists b, In b (st c 2%N) /\ ver c' b <> ver c b.
Proof. exact compute_mask_defect_refuted. Qed.
Print Assumptions compute_mask_unrepaired_refuted.

Theorem compute_mask_repaired_accepted :
  accepts [0%N; 1%N; 2%N] compute_mask_fixed = true /\
  ret_may_alias [0%N; 1%N; 2%N] compute_mask_fixed = Some false.
Proof. exact compute_mask_fixed_accepted. Qed.
Print Assumptions compute_mask_repaired_accepted.

(* premises are satisfiable: an entry state for one parameter holding one buffer *)
Example entry_ok_satisfiable : entry_ok [0%N] c_entry.
Proof. exact entry_ok_c_entry. Qed.

(* copy-then-write is accepted; write-through-asanyarray is not; a loop that re-binds a
   name to a view of the parameter after cleaning a copy needs the loop invariant *)
Local Open Scope N_scope.
Example copy_then_write :
  accepts [0] (Seq (Assign 0 EFresh) (InPlace 0)) = true.
Proof. vm_compute. reflexivity. Qed.
Example maybe_view_then_write :
  accepts [0] (Seq (Assign 1 (EMaybeView 0)) (InPlace 1)) = false.
Proof. vm_compute. reflexivity. Qed.
Example loop_carried_view :
  accepts [0] (Seq (Assign 1 EFresh) (Loop (Seq (InPlace 1) (Assign 1 (EView 0))))) = false.
Proof. vm_compute. reflexivity. Qed.
Example loop_copy_each_time :
  accepts [0] (Loop (Seq (Assign 1 (EView 0)) (Seq (Assign 1 EFresh) (InPlace 1)))) = true.
Proof. vm_compute. reflexivity. Qed.
Example scope_returns_view :
  ret_may_alias [0] (Seq (Scope 1 (Return (EView 0))) (Return (EJoin [1; 2]))) = Some true.
Proof. vm_compute. reflexivity. Qed.
