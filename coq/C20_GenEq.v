(* C20 -- TRANSLATOR TIE.  gen/Gen_isophote.v is REGENERATED from the current source text of
   photutils/isophote/geometry.py on every run (harness/translate_all.py); it is not committed.
   EllipseGeometry.update_sma / reset_sma (the growth arithmetic of the semi-major-axis schedule of
   Ellipse.fit_image) are tied, for ALL rationals, to [update_sma Qnum] / [reset_sma Qnum] of C20_Model.v
   (the schedule theorems of C20 are about these), and the growth theorems are restated for the regenerated
   definitions.  Arguments: self.sma, self.linear_growth, step.  Pure-Python float division by zero raises:
   reset_sma with geometric growth and step = -1 is [Raise ZeroDivisionError] (the model's total division
   returns 0 there); the tie is stated for 1 + step <> 0. *)
From Coq Require Import List ZArith Bool QArith Lia Lqa.
From PV Require Import lib.Cases lib.PyGen C20_Model C20_Proofs gen.Gen_isophote.
Open Scope Q_scope.

Theorem gen_update_sma_eq : forall sma lin step, gen_update_sma sma lin step == update_sma Qnum lin sma step.
Proof. intros. unfold gen_update_sma, update_sma. destruct lin; cbn; ring. Qed.

Ltac nz H := first [assumption | (intro; apply H; lra)].
Ltac q_eq H := first [reflexivity | ring | (field; nz H)
                     | (apply Qmult_comp; [reflexivity|]; apply Qdiv_comp; ring)
                     | (unfold Qminus; apply Qplus_comp; [|reflexivity]; apply Qdiv_comp; ring)].

Theorem gen_reset_sma_eq : forall sma lin step, lin = true \/ ~ 1 + step == 0 ->
  exists a s, gen_reset_sma sma lin step = Ok (a, s) /\
              a == fst (reset_sma Qnum lin sma step) /\ s == snd (reset_sma Qnum lin sma step).
Proof.
  intros sma lin step H. unfold gen_reset_sma, reset_sma. destruct lin; cbn.
  - eexists; eexists; split; [reflexivity|]. split; ring.
  - destruct H as [H|H]; [discriminate|].
    q_split; q_hyps; try (exfalso; apply H; lra).
    eexists; eexists; split; [reflexivity|]. cbn. split; q_eq H.
Qed.

Theorem gen_reset_sma_zero_division : forall sma step, 1 + step == 0 ->
  gen_reset_sma sma false step = Raise ZeroDivisionError.
Proof.
  intros sma step H. unfold gen_reset_sma. q_split; q_hyps; [reflexivity|exfalso; apply Heqb; lra].
Qed.

(* ---- the growth theorems of C20 for the regenerated definitions ---- *)
(* outward steps strictly increase a positive sma (both growth modes) and preserve order *)
Theorem gen_update_sma_increases : forall lin sma step, 0 < step -> 0 < sma -> sma < gen_update_sma sma lin step.
Proof. intros. rewrite gen_update_sma_eq. apply update_sma_increases; assumption. Qed.

Theorem gen_update_sma_monotone : forall lin a b step, 0 < step -> a < b ->
  gen_update_sma a lin step < gen_update_sma b lin step.
Proof. intros. rewrite !gen_update_sma_eq. apply update_sma_monotone; assumption. Qed.

(* reset_sma: the first inward sma is below the start, every inward step shrinks a positive sma, and one
   outward step from the first inward sma returns to the start *)
Theorem gen_reset_sma_spec : forall lin a step, 0 < step ->
  exists sin istep, gen_reset_sma a lin step = Ok (sin, istep) /\
    (0 < a -> sin < a) /\ (forall x, 0 < x -> gen_update_sma x lin istep < x) /\
    gen_update_sma sin lin step == a.
Proof.
  intros lin a step Hs.
  destruct (gen_reset_sma_eq a lin step) as (sin & istep & E & E1 & E2); [right; lra|].
  exists sin, istep. split; [exact E|].
  destruct (reset_sma Qnum lin a step) as [s0 i0] eqn:R. cbn [fst snd] in E1, E2.
  destruct (reset_sma_spec lin a step s0 i0 Hs R) as [A B].
  pose proof (reset_sma_inverse lin a step s0 i0 Hs R) as C.
  split; [intro Ha; rewrite E1; auto|]. split.
  - intros x Hx. rewrite gen_update_sma_eq. specialize (B x Hx).
    revert B. unfold update_sma. destruct lin; cbn; rewrite E2; auto.
  - rewrite gen_update_sma_eq. revert C. unfold update_sma. destruct lin; cbn; rewrite E1; auto.
Qed.

Print Assumptions gen_update_sma_eq.
Print Assumptions gen_reset_sma_eq.
Print Assumptions gen_reset_sma_zero_division.
Print Assumptions gen_update_sma_increases.
Print Assumptions gen_update_sma_monotone.
Print Assumptions gen_reset_sma_spec.
