(* C12L — stretch of C12: the LINEAR part of PSF fitting (the fluxes), in exact arithmetic over Q.

   C12_Model.v has the bookkeeping of PSFPhotometry.__call__ with the fitter as an ORACLE
   ([fitter : nat -> callin -> fitout]).  Here the part of that oracle that is linear least
   squares is COMPUTED:  with the positions FIXED (psf_model.x_0.fixed = y_0.fixed = True, flux
   free) the fit of one group

       photometry.py:1074-1092   for sources_ in sources:
                                     psf_model = self._make_psf_model(sources_)          (sum of the sub-models)
                                     yi, xi, cutout = self._define_fit_data(sources_, data, mask)
                                     weights = 1.0 / error[yi, xi]        (None without an error map)
                                     fit_model = self.fitter(psf_model, xi, yi, cutout, weights=weights)

   minimises (astropy.modeling.fitting: objective = ravel(weights * (model(xi, yi) - cutout)))

       sum_i  w_i^2 ( sum_s flux_s P_s(pixel_i) - (data[pixel_i] - local_bkg_{owner(i)}) )^2

   where, as coded in _define_fit_data (photometry.py:895-957),
     * the rows i are the CONCATENATION over the sources of the group (table order inside the group)
       of the UNMASKED pixels of that source's fit_shape window, trimmed at the image edge, in raster
       order ([C12_Model.fit_data]: re-used, not re-modelled).  It is a concatenation, not a union: a pixel
       lying in the windows of two sources of the group is a row TWICE (once per owner);
     * the local background subtracted in row i is the one of the OWNER of the row (line 936);
     * w_i = 1/error[pixel_i]  (so the objective is chi^2 with sigma = error; NOT 1/error^2), 1 without error map;
     * P_s(pixel) is the unit-flux PSF of source s (at its fixed position) evaluated at the pixel: an INPUT
       here ([psf]; recorded from photutils by the harness).  No Gaussian / spline is modelled.

   The least-squares theory (rss, grad, normal_eq, minimiser, gram, the CHECKED Bareiss inverse,
   ls_solve, ne_check) is C20H_Model's / C20H_Proofs', imported, not copied.

   The fitter itself (astropy TRFLSQFitter -> scipy least_squares 'trf', iterative, finite-difference
   Jacobian) is NOT modelled: its answer is specified as "a vector satisfying the normal equations of the
   group's design" and is compared with that specification up to a tolerance ([check_flux_case]). *)
From Coq Require Import List ZArith Bool QArith Qround.
From PV Require Import lib.Cases lib.Conn C20_Model C20H_Model C12_Model.
Import ListNotations.
Open Scope Q_scope.

Definition pix := (Z * Z)%type.                       (* (y, x), as in C12_Model *)

(* ------------------------------------------------------------------ *)
(* (1) the design of one group                                         *)
(* ------------------------------------------------------------------ *)
Section Group.
Variables (ny nx fy fx sc : Z).          (* data.shape, fit_shape, lattice of the positions (C12_Model) *)
Variable msk : option (list bool).       (* the mask returned by _make_mask *)
Variable dataQ : pix -> Q.               (* data[y, x] *)
Variable errQ : option (pix -> Q).       (* error[y, x]; None: no error map *)
Variable psf : Z -> pix -> Q.            (* P_s(pixel): unit-flux PSF of the source with id s at the pixel *)
Variable bkgQ : Z -> Q.                  (* local_bkg of the source with id s *)

(* the rows: (owner id, pixel), owner by owner, each owner's unmasked window pixels in raster order *)
Definition grows (g : list src) (fd : list (list pix * option nat)) : list (Z * pix) :=
  flat_map (fun sd => map (fun p => (s_id (fst sd), p)) (fst (snd sd))) (combine g fd).
(* photometry.py:1081  weights = 1.0 / error[yi, xi] *)
Definition wgt (p : pix) : Q := match errQ with None => 1 | Some e => / e p end.
(* one row of the design: weights * d(model)/d(flux_s) *)
Definition drow (ids : list Z) (r : Z * pix) : list Q := map (fun id => wgt (snd r) * psf id (snd r)) ids.
(* photometry.py:936 cutout = data[yy, xx] - local_bkg (of the row's owner), times the weight *)
Definition dval (r : Z * pix) : Q := wgt (snd r) * (dataQ (snd r) - bkgQ (fst r)).
Definition design_of (ids : list Z) (rs : list (Z * pix)) : list (list Q) := map (drow ids) rs.
Definition dvec_of (rs : list (Z * pix)) : list Q := map dval rs.

(* what the fitter is given for the group g: None = _define_fit_data raised *)
Definition group_rows (g : list src) : option (list (Z * pix)) :=
  match fit_data ny nx fy fx sc msk g with inr fd => Some (grows g fd) | inl _ => None end.
Definition group_problem (g : list src) : option (list (list Q) * list Q) :=
  option_map (fun rs => (design_of (map s_id g) rs, dvec_of rs)) (group_rows g).
(* the exact flux vector of the group (None: error, or the Gram matrix has no inverse) *)
Definition group_solve (g : list src) : option (list Q) :=
  match group_problem g with
  | Some (rows, ys) => ls_solve rows ys (length g)
  | None => None
  end.
(* the residual image on the fit pixels, row by row: weights * (model - cutout) *)
Definition group_residuals (g : list src) (flux : list Q) : option (list Q) :=
  option_map (fun pr => map (fun i => resid (length g) (Aof (fst pr)) (vof (snd pr)) (vof flux) i)
                            (seq 0 (length (fst pr)))) (group_problem g).
End Group.

(* the data are EXACTLY the group's own light on the group's rows:
   data[p] - local_bkg(owner) = sum_j fstar_j P_{id_j}(p)   for every row (owner, p) *)
Definition own_light_only (dataQ : pix -> Q) (psf : Z -> pix -> Q) (bkgQ : Z -> Q)
           (ids : list Z) (rs : list (Z * pix)) (fstar : nat -> Q) : Prop :=
  forall r, In r rs ->
    dataQ (snd r) - bkgQ (fst r) == sumn (length ids) (fun j => psf (nth j ids 0%Z) (snd r) * fstar j).

(* ------------------------------------------------------------------ *)
(* (2) generic operations on a least-squares problem                   *)
(* ------------------------------------------------------------------ *)
(* row weights *)
Definition wA (w : nat -> Q) (A : nat -> nat -> Q) (i j : nat) : Q := w i * A i j.
Definition wy (w : nat -> Q) (y : nat -> Q) (i : nat) : Q := w i * y i.
(* deleting rows (masking): keep the rows whose flag is true *)
Fixpoint select {T} (keep : list bool) (l : list T) : list T :=
  match keep, l with
  | b :: keep', a :: l' => if b then a :: select keep' l' else select keep' l'
  | _, _ => []
  end.
(* the lower-right block of a matrix / the tail of a vector *)
Definition shiftA (n1 k1 : nat) (A : nat -> nat -> Q) (i j : nat) : Q := A (n1 + i)%nat (k1 + j)%nat.
Definition shiftv (n1 : nat) (y : nat -> Q) (i : nat) : Q := y (n1 + i)%nat.
(* two sets of columns are mutually dark: the first k1 columns vanish on the rows from n1 on, the
   others vanish on the first n1 rows (disjoint supports on the fit pixels) *)
Definition mutually_dark (n1 n k1 k : nat) (A : nat -> nat -> Q) : Prop :=
  (forall i j, (i < n1)%nat -> (k1 <= j < k)%nat -> A i j == 0) /\
  (forall i j, (n1 <= i < n)%nat -> (j < k1)%nat -> A i j == 0).

(* the linearised model of ANY parametrisation: J i j = d model_i / d theta_j (inputs), r_i the residual;
   gradient of RSS/2 with respect to parameter j *)
Definition jgrad (n : nat) (J : nat -> nat -> Q) (r : nat -> Q) (j : nat) : Q := sumn n (fun i => J i j * r i).
(* RSS of an arbitrary (non-linear) parametrised model m theta i *)
Definition prss {P} (n : nat) (m : P -> nat -> Q) (y : nat -> Q) (theta : P) : Q :=
  sumn n (fun i => (m theta i - y i) * (m theta i - y i)).

(* ------------------------------------------------------------------ *)
(* (3) the fitter of C12_Model as a least-squares solver                *)
(* ------------------------------------------------------------------ *)
(* the design the k-th fitter call is given, read off the call itself (C12_Model.callin; values are
   integers scaled by sc): columns = the sub-models (ci_ids), rows = the pixels (ci_yi, ci_xi),
   data = ci_cut / sc *)
Section Call.
Variable sc : Z.
Variable psf : Z -> pix -> Q.
Variable wq : pix -> Q.
Definition zq (z : Z) : Q := inject_Z z / inject_Z sc.
Definition call_pixels (ci : callin) : list pix := combine (ci_yi ci) (ci_xi ci).
Definition call_design (ci : callin) : list (list Q) :=
  map (fun p => map (fun id => wq p * psf id p) (ci_ids ci)) (call_pixels ci).
Definition call_data (ci : callin) : list Q :=
  map (fun pc => wq (fst pc) * match snd pc with Some v => zq v | None => 0 end)
      (combine (call_pixels ci) (ci_cut ci)).
(* fluxes returned by a fitter call, as rationals *)
Definition call_flux (fo : fitout) : list Q := map (fun t => zq (snd t)) (fo_par fo).
(* "the fitter is a least-squares solver for the fluxes": whatever it is given, the fluxes it returns
   satisfy the normal equations of the design it was given *)
Definition solves_flux (fitter : nat -> callin -> fitout) : Prop :=
  forall k ci,
    length (fo_par (fitter k ci)) = length (ci_ids ci) /\
    normal_eq (length (call_design ci)) (length (ci_ids ci)) (Aof (call_design ci)) (vof (call_data ci))
              (vof (call_flux (fitter k ci))).
End Call.

(* ------------------------------------------------------------------ *)
(* correspondence                                                      *)
(* ------------------------------------------------------------------ *)
(* Cost note.  C20H's sums are  Qred (x_1 + ... + x_n)  with Q's un-normalised addition: over 150 rows of
   53-bit dyadics the denominator grows to thousands of bits before the single final gcd, which dominates
   vm_compute.  The correspondence therefore evaluates the model on an EQUIVALENT problem whose numbers are
   all integers: with a = 2^sw 2^sp, b = 2^sf
       psf' = 2^sp psf,   error' = error / 2^sw,   data' = 2^sp 2^sf data,   local_bkg' = 2^sp 2^sf local_bkg
   give the design a A and the data vector a b y; c solves the normal equations of (A, y) iff b c solves those
   of (a A, a b y) (C12L_Proofs.normal_eq_rescale), the gradient and C20H's ne_scale both scale by a^2 b, so
   every RELATIVE test below is the same test.  The exponents (sp, sf, sw) are chosen by the harness so that
   the numbers are integral; any choice gives an equivalent test (nothing is trusted). *)
Fixpoint zindex (x : Z) (l : list Z) : nat :=
  match l with [] => 0%nat | a :: r => if (a =? x)%Z then 0%nat else S (zindex x r) end.
Definition pix_eqb (a b : pix) : bool := ((fst a =? fst b) && (snd a =? snd b))%Z.
(* 2^s * (m * 2^e), with denominator 1 whenever that is an integer *)
Definition dyQs (s : Z) (d : dy) : Q :=
  let '(m, e) := d in
  if (0 <=? s + e)%Z then inject_Z (m * 2 ^ (s + e)) else Qmake m (Z.to_pos (2 ^ (- (s + e)))).
Definition dymul (a b : dy) : dy := ((fst a * fst b)%Z, (snd a + snd b)%Z).
(* per-pixel table: pixel -> (data, error, [P_s(pixel) for s in the group]) *)
Definition ptab := list (pix * (dy * dy * list dy)).
Fixpoint plook (t : ptab) (p : pix) : option (dy * dy * list dy) :=
  match t with
  | [] => None
  | (q, v) :: r => if pix_eqb q p then Some v else plook r p
  end.
Definition tab_data (s : Z) (kk : dy) (t : ptab) (p : pix) : Q :=
  match plook t p with Some (d, _, _) => dyQs s (dymul kk d) | None => 0 end.
Definition tab_err (s : Z) (t : ptab) (p : pix) : Q :=
  match plook t p with Some (_, e, _) => dyQs (- s) e | None => 1 end.
Definition tab_psf (s : Z) (t : ptab) (ids : list Z) (id : Z) (p : pix) : Q :=
  match plook t p with Some (_, _, ps) => dyQs s (nth (zindex id ids) ps (0%Z, 0%Z)) | None => 0 end.
Definition bkg_of (s : Z) (kk : dy) (bs : list (Z * dy)) (id : Z) : Q :=
  match find (fun b => (fst b =? id)%Z) bs with Some b => dyQs s (dymul kk (snd b)) | None => 0 end.

(* one group of one real PSFPhotometry run with fixed positions:
   cfg (ny nx fy fx sc), mask, has_error, (sp, sf, sw), per-pixel table, the sources of the group in table order
   (id, x, y scaled by sc, local_bkg), the pixels (yi, xi) the real fitter was handed,
   flux_fit of those ids read from the result table, tolerance bits,
   expectation for exact scenes (fstar, bits), re-run on k * data: (k, flux_fit),
   every source fitted alone: flux_fit, light/full *)
Definition flux_case :=
  ((Z * Z * Z * Z * Z) * option (list bool) * bool * (Z * Z * Z) * ptab * list (Z * Z * Z * dy) * list pix
   * list dy * positive * option (list dy * positive) * option (dy * list dy) * option (list dy)
   * option (list dy))%type.

Definition mk_group (srcs : list (Z * Z * Z * dy)) : list src :=
  map (fun '(id, x, y, _) => mkSrc id 0 x y 0 0) srcs.
Definition mk_bkgs (srcs : list (Z * Z * Z * dy)) : list (Z * dy) :=
  map (fun '(id, _, _, b) => (id, b)) srcs.

(* the (rescaled) problem of the sub-group g of the case, for the image kk * data *)
Definition case_problem (c : flux_case) (kk : dy) (g : list src) : option (list (list Q) * list Q) :=
  let '(cf, msk, haserr, sh, t, srcs, _, _, _, _, _, _, _) := c in
  let '(ny, nx, fy, fx, sc) := cf in
  let '(sp, sf, sw) := sh in
  let ids := map s_id (mk_group srcs) in
  group_problem ny nx fy fx sc msk (tab_data (sp + sf) kk t)
                (if haserr then Some (tab_err sw t) else None) (tab_psf sp t ids)
                (bkg_of (sp + sf) kk (mk_bkgs srcs)) g.
Definition dy1 : dy := (1%Z, 0%Z).

(* the normal equations in matrix form, G s = A^T y, decided exactly (equivalent to grad s = 0 by
   C20H_Proofs.grad_gram; k^2 products instead of sums of large rationals over all the rows) *)
Definition gram_check (rows : list (list Q)) (ys : list Q) (k : nat) (s : list Q) : bool :=
  let G := gram_l rows k in
  let r := rhs_l rows ys k in
  forallb (fun j => Qeq_bool (sumu k (fun j' => Aof G j j' * vof s j')) (vof r j)) (seq 0 k).

(* |c - exact solution|_l <= (sum_j |G^-1 l j|) * (bound on the gradient at c) *)
Definition within (msum : nat -> Q) (a b : list Q) (tol : Q) : bool :=
  forallb (fun l => C20H_Model.close (vof a l) (vof b l) (msum l * tol)) (seq 0 (length a)).

Definition check_flux_case (c : flux_case) : bool :=
  let '(cf, msk, haserr, sh, t, srcs, recpix, impl, tolbits, expect, scaled, singles, light) := c in
  let '(ny, nx, fy, fx, sc) := cf in
  let '(sp, sf, sw) := sh in
  let g := mk_group srcs in
  let k := length g in
  let fl := dyQs sf in                               (* fluxes in the rescaled problem: b * flux *)
  let a2 := dyQs (2 * (sp + (if haserr then sw else 0))) dy1 in     (* a^2 *)
  let impl := map fl impl in
  match case_problem c dy1 g with
  | None => false
  | Some (rows, ys) =>
      (* the pixels the real fitter was handed are the model's rows, in the model's order *)
      let rs := match group_rows ny nx fy fx sc msk g with Some rs => rs | None => [] end in
      list_eqb pix_eqb (map snd rs) recpix &&
      (length impl =? k)%nat &&
      let tol := two_m tolbits * ne_scale rows ys impl in
      (* flux_fit satisfies the normal equations of the model's design up to tol *)
      ne_check rows ys k impl tol &&
      let full := match light with
                  | Some ms => Some (fun l => vof (map dyQ ms) l / a2, None)
                  | None => match gram_inverse rows k with
                            | Some M => Some (fun l => sumabs (nth l M []), Some (mvec k M (rhs_l rows ys k)))
                            | None => None
                            end
                  end in
      match full with
      | None => false                                  (* generators only produce full-rank groups *)
      | Some (msum, sol) =>
          (* FULL: the model's solution satisfies the normal equations exactly, flux_fit is within the
             conditioning-scaled tolerance of it *)
          match sol with
          | Some s => gram_check rows ys k s && within msum impl s tol
          | None => true
          end &&
          (* exact scenes: the rendered fluxes satisfy the normal equations (up to the one rounding per
             datum) and are recovered by flux_fit (and by the model's solution) *)
          match expect with
          | None => true
          | Some (fstar, ebits) =>
              let fstar := map fl fstar in
              let etol := two_m ebits * (sumabs fstar + fl dy1) in
              ne_check rows ys k fstar (two_m 44 * ne_scale rows ys fstar) &&
              forallb (fun l => C20H_Model.close (vof impl l) (vof fstar l) (etol * (1 + msum l * a2))
                                && match sol with
                                   | Some s => C20H_Model.close (vof s l) (vof fstar l) (etol * (1 + msum l * a2))
                                   | None => true
                                   end) (seq 0 k)
          end &&
          (* scaling: the run on kk * data satisfies the normal equations of kk * y and is kk * flux_fit *)
          match scaled with
          | None => true
          | Some (kk, impl') =>
              let impl' := map fl impl' in
              match case_problem c kk g with
              | None => false
              | Some (rows', ys') =>
                  let tol' := two_m tolbits * ne_scale rows' ys' impl' in
                  ne_check rows' ys' k impl' tol' &&
                  within msum impl' (map (Qmult (dyQ kk)) impl) (tol' + Qabs' (dyQ kk) * tol)
              end
          end &&
          (* every source fitted alone: each flux satisfies its own one-column normal equation; when source j
             and the rest of the group are mutually dark (column j vanishes on the rows owned by the others,
             the other columns vanish on the rows owned by j) the single fit equals the grouped fit *)
          match singles with
          | None => true
          | Some fs =>
              let fs := map fl fs in
              (length fs =? k)%nat &&
              forallb (fun j =>
                match case_problem c dy1 [nth j g src0] with
                | None => false
                | Some (rows1, ys1) =>
                    let f1 := [vof fs j] in
                    let tol1 := two_m tolbits * ne_scale rows1 ys1 f1 in
                    ne_check rows1 ys1 1 f1 tol1 &&
                    let idj := s_id (nth j g src0) in
                    let dark :=
                      forallb (fun i =>
                        if (fst (nth i rs (0%Z, (0%Z, 0%Z))) =? idj)%Z
                        then forallb (fun j' => Nat.eqb j j' || Qeq_bool (Aof rows i j') 0) (seq 0 k)
                        else Qeq_bool (Aof rows i j) 0)
                        (seq 0 (length rows)) in
                    (negb dark ||
                     C20H_Model.close (vof fs j) (vof impl j)
                        (msum j * tol + tol1 / (gram (length rows1) (Aof rows1) 0 0)))
                end) (seq 0 k)
          end
      end
  end.

(* diagnostics, in the ORIGINAL units: rows, exact solution (full cases), gradient at flux_fit, tolerance *)
Definition flux_model_out (c : flux_case) :=
  let '(cf, msk, haserr, sh, t, srcs, recpix, impl, tolbits, expect, scaled, singles, light) := c in
  let '(ny, nx, fy, fx, sc) := cf in
  let '(sp, sf, sw) := sh in
  let g := mk_group srcs in
  let k := length g in
  let impl := map (dyQs sf) impl in
  let a2b := dyQs (2 * (sp + (if haserr then sw else 0)) + sf) dy1 in
  match case_problem c dy1 g with
  | None => None
  | Some (rows, ys) =>
      Some (match group_rows ny nx fy fx sc msk g with Some rs => map snd rs | None => [] end,
            match light with
            | None => option_map (map (fun v => Qred (v / dyQs sf dy1))) (ls_solve rows ys k)
            | Some _ => None
            end,
            map (fun v => Qred (v / a2b)) (grad_l rows ys k impl),
            Qred (two_m tolbits * ne_scale rows ys impl / a2b))
  end.

(* positions FREE, started at the truth on an exact scene: (truth (x, y, flux), returned (x, y, flux)) per
   source, tolerance bits: |returned - truth| <= 2^-bits (1 + |truth|) *)
Definition free_case := (list ((dy * dy * dy) * (dy * dy * dy)) * positive)%type.
Definition check_free_case (c : free_case) : bool :=
  let '(l, bits) := c in
  forallb (fun '((x, y, f), (x', y', f')) =>
             relclose bits (dyQ x) (dyQ x') 1 && relclose bits (dyQ y) (dyQ y') 1 &&
             relclose bits (dyQ f) (dyQ f') 1) l.
