(* C13R_Proofs.v -- proofs about the real-number transcription C13R_Model.v.
   (statements are collected, with comments, in C13R_Properties.v) *)
From Coq Require Import Reals Lra Lia.
Set Warnings "-ambiguous-paths".
From Coquelicot Require Import Coquelicot.
Set Warnings "ambiguous-paths".
From PV Require Import C13R_Model.
Open Scope R_scope.

(* ------------------------------------------------------------------ *)
(* 0. constants                                                         *)
(* ------------------------------------------------------------------ *)
Lemma half_eq : 0.5 = / 2. Proof. lra. Qed.

Lemma mhalf_eq : -0.5 = - / 2. Proof. lra. Qed.

Lemma ln2_pos : 0 < ln 2.
Proof. rewrite <- ln_1. apply ln_increasing; lra. Qed.

Lemma sqrt_2ln2_pos : 0 < sqrt (2 * ln 2).
Proof. apply sqrt_lt_R0. generalize ln2_pos; lra. Qed.

Lemma f2s_pos : 0 < GAUSSIAN_FWHM_TO_SIGMA.
Proof.
  unfold GAUSSIAN_FWHM_TO_SIGMA. apply Rdiv_lt_0_compat; [lra|].
  generalize sqrt_2ln2_pos; lra.
Qed.

(* 1 / GAUSSIAN_FWHM_TO_SIGMA^2 = 8 ln 2 *)
Lemma f2s_sqr : GAUSSIAN_FWHM_TO_SIGMA ^ 2 = 1 / (8 * ln 2).
Proof.
  unfold GAUSSIAN_FWHM_TO_SIGMA.
  assert (H := sqrt_2ln2_pos). assert (L := ln2_pos).
  assert (S : sqrt (2 * ln 2) ^ 2 = 2 * ln 2).
  { simpl. rewrite Rmult_1_r. apply sqrt_sqrt. lra. }
  replace ((1 / (2 * sqrt (2 * ln 2))) ^ 2) with (1 / (4 * sqrt (2 * ln 2) ^ 2)) by (field; lra).
  rewrite S. field. lra.
Qed.

Lemma cg_sigma_pos fwhm : 0 < fwhm -> 0 < cg_sigma fwhm.
Proof. intro H. unfold cg_sigma. apply Rmult_lt_0_compat; [exact H | exact f2s_pos]. Qed.

Lemma rsq_nonneg x y x_0 y_0 : 0 <= rsq x y x_0 y_0.
Proof. unfold rsq. generalize (pow2_ge_0 (x - x_0)) (pow2_ge_0 (y - y_0)). lra. Qed.

Lemma sqrt_rsq_sqr x y x_0 y_0 : sqrt (rsq x y x_0 y_0) ^ 2 = rsq x y x_0 y_0.
Proof. apply pow2_sqrt, rsq_nonneg. Qed.

Lemma rsq_ray x_0 y_0 r phi : rsq (x_0 + r * cos phi) (y_0 + r * sin phi) x_0 y_0 = r ^ 2.
Proof.
  unfold rsq. generalize (sin2_cos2 phi). unfold Rsqr. intro H.
  replace ((x_0 + r * cos phi - x_0) ^ 2 + (y_0 + r * sin phi - y_0) ^ 2)
    with (r ^ 2 * (sin phi * sin phi + cos phi * cos phi)) by ring.
  rewrite H. ring.
Qed.

(* ------------------------------------------------------------------ *)
(* 1. radial structure                                                  *)
(* ------------------------------------------------------------------ *)

(* the models read (x, y) only through rsq: no hypothesis at all *)
Lemma cg_psf_is_radial x y x' y' flux x_0 y_0 fwhm :
  rsq x y x_0 y_0 = rsq x' y' x_0 y_0 ->
  circular_gaussian_psf x y flux x_0 y_0 fwhm = circular_gaussian_psf x' y' flux x_0 y_0 fwhm.
Proof. unfold rsq, circular_gaussian_psf. cbv zeta. intros ->. reflexivity. Qed.

Lemma moffat_psf_is_radial x y x' y' flux x_0 y_0 alpha beta :
  rsq x y x_0 y_0 = rsq x' y' x_0 y_0 ->
  moffat_psf x y flux x_0 y_0 alpha beta = moffat_psf x' y' flux x_0 y_0 alpha beta.
Proof. unfold rsq, moffat_psf. cbv zeta. intros ->. reflexivity. Qed.

(* ... and are the textbook profiles of r = sqrt rsq *)
Lemma cg_psf_profile_r2 x y flux x_0 y_0 fwhm r :
  0 < fwhm -> rsq x y x_0 y_0 = r ^ 2 ->
  circular_gaussian_psf x y flux x_0 y_0 fwhm = gauss_profile flux (cg_sigma fwhm) r.
Proof.
  intros Hf Hr. assert (Hs := cg_sigma_pos fwhm Hf).
  unfold circular_gaussian_psf, gauss_profile. cbv zeta.
  fold (cg_sigma fwhm). fold (rsq x y x_0 y_0). rewrite Hr.
  f_equal. f_equal. rewrite mhalf_eq. field. lra.
Qed.

Lemma cg_psf_profile x y flux x_0 y_0 fwhm :
  0 < fwhm ->
  circular_gaussian_psf x y flux x_0 y_0 fwhm
  = gauss_profile flux (cg_sigma fwhm) (sqrt (rsq x y x_0 y_0)).
Proof. intro Hf. apply cg_psf_profile_r2; [exact Hf|]. symmetry. apply sqrt_rsq_sqr. Qed.

Lemma cg_psf_on_ray flux x_0 y_0 fwhm phi r :
  0 < fwhm ->
  circular_gaussian_psf (x_0 + r * cos phi) (y_0 + r * sin phi) flux x_0 y_0 fwhm
  = gauss_profile flux (cg_sigma fwhm) r.
Proof. intro Hf. apply cg_psf_profile_r2; [exact Hf|]. apply rsq_ray. Qed.

Lemma moffat_psf_profile_r2 x y flux x_0 y_0 alpha beta r :
  rsq x y x_0 y_0 = r ^ 2 ->
  moffat_psf x y flux x_0 y_0 alpha beta = moffat_profile flux alpha beta r.
Proof.
  intros Hr. unfold moffat_psf, moffat_profile. cbv zeta.
  fold (rsq x y x_0 y_0). rewrite Hr. reflexivity.
Qed.

Lemma moffat_psf_profile x y flux x_0 y_0 alpha beta :
  moffat_psf x y flux x_0 y_0 alpha beta
  = moffat_profile flux alpha beta (sqrt (rsq x y x_0 y_0)).
Proof. apply moffat_psf_profile_r2. symmetry. apply sqrt_rsq_sqr. Qed.

Lemma moffat_psf_on_ray flux x_0 y_0 alpha beta phi r :
  moffat_psf (x_0 + r * cos phi) (y_0 + r * sin phi) flux x_0 y_0 alpha beta
  = moffat_profile flux alpha beta r.
Proof. apply moffat_psf_profile_r2. apply rsq_ray. Qed.

(* ------------------------------------------------------------------ *)
(* 2. GaussianPSF: affine image of the circular Gaussian                *)
(* ------------------------------------------------------------------ *)

(* in the rotated, scaled coordinates (u, v) the quadratic form a dx^2 + b dx dy + c dy^2 of
   the code is (u^2 + v^2) / 2 *)
Lemma gaussian_psf_unit_form x y flux x_0 y_0 xf yf theta :
  0 < xf -> 0 < yf ->
  gaussian_psf x y flux x_0 y_0 xf yf theta
  = flux / (2 * PI * cg_sigma xf * cg_sigma yf)
    * exp (- (ell_u x_0 y_0 (cg_sigma xf) theta x y ^ 2
              + ell_v x_0 y_0 (cg_sigma yf) theta x y ^ 2) / 2).
Proof.
  intros Hx Hy. assert (Sx := cg_sigma_pos xf Hx). assert (Sy := cg_sigma_pos yf Hy).
  unfold gaussian_psf, ell_u, ell_v. cbv zeta.
  fold (cg_sigma xf). fold (cg_sigma yf).
  rewrite sin_2a. rewrite half_eq.
  set (c := cos (deg2rad theta)). set (s := sin (deg2rad theta)).
  f_equal. f_equal. field. lra.
Qed.

Lemma ell_u_of_image x_0 y_0 sx sy theta u v :
  sx <> 0 ->
  ell_u x_0 y_0 sx theta (ell_x x_0 sx sy theta u v) (ell_y y_0 sx sy theta u v) = u.
Proof.
  intro H. unfold ell_u, ell_x, ell_y.
  set (c := cos (deg2rad theta)). set (s := sin (deg2rad theta)).
  assert (E : s * s + c * c = 1) by apply sin2_cos2.
  replace ((x_0 + sx * u * c - sy * v * s - x_0) * c + (y_0 + sx * u * s + sy * v * c - y_0) * s)
    with (sx * u * (s * s + c * c)) by ring.
  rewrite E. field. exact H.
Qed.

Lemma ell_v_of_image x_0 y_0 sx sy theta u v :
  sy <> 0 ->
  ell_v x_0 y_0 sy theta (ell_x x_0 sx sy theta u v) (ell_y y_0 sx sy theta u v) = v.
Proof.
  intro H. unfold ell_v, ell_x, ell_y.
  set (c := cos (deg2rad theta)). set (s := sin (deg2rad theta)).
  assert (E : s * s + c * c = 1) by apply sin2_cos2.
  replace (- (x_0 + sx * u * c - sy * v * s - x_0) * s + (y_0 + sx * u * s + sy * v * c - y_0) * c)
    with (sy * v * (s * s + c * c)) by ring.
  rewrite E. field. exact H.
Qed.

(* (ell_x, ell_y) and (ell_u, ell_v) are mutually inverse: the change of variables is a bijection *)
Lemma ell_image_of_uv x_0 y_0 sx sy theta x y :
  sx <> 0 -> sy <> 0 ->
  ell_x x_0 sx sy theta (ell_u x_0 y_0 sx theta x y) (ell_v x_0 y_0 sy theta x y) = x /\
  ell_y y_0 sx sy theta (ell_u x_0 y_0 sx theta x y) (ell_v x_0 y_0 sy theta x y) = y.
Proof.
  intros Hx Hy. unfold ell_u, ell_v, ell_x, ell_y.
  set (c := cos (deg2rad theta)). set (s := sin (deg2rad theta)).
  assert (E : s * s + c * c = 1) by apply sin2_cos2.
  split.
  - replace (x_0 + sx * (((x - x_0) * c + (y - y_0) * s) / sx) * c
             - sy * ((- (x - x_0) * s + (y - y_0) * c) / sy) * s)
      with (x_0 + (x - x_0) * (s * s + c * c)) by (field; split; assumption).
    rewrite E. ring.
  - replace (y_0 + sx * (((x - x_0) * c + (y - y_0) * s) / sx) * s
             + sy * ((- (x - x_0) * s + (y - y_0) * c) / sy) * c)
      with (y_0 + (y - y_0) * (s * s + c * c)) by (field; split; assumption).
    rewrite E. ring.
Qed.

Lemma ell_jacobian_value sx sy theta : ell_jacobian sx sy theta = sx * sy.
Proof.
  unfold ell_jacobian.
  set (c := cos (deg2rad theta)). set (s := sin (deg2rad theta)).
  assert (E : s * s + c * c = 1) by apply sin2_cos2.
  replace (sx * c * (sy * c) - - sy * s * (sx * s)) with (sx * sy * (s * s + c * c)) by ring.
  rewrite E. ring.
Qed.

(* the partial derivatives of (ell_x, ell_y) are the entries used in ell_jacobian *)
Lemma ell_partials x_0 y_0 sx sy theta u v :
  is_derive (fun u => ell_x x_0 sx sy theta u v) u (sx * cos (deg2rad theta)) /\
  is_derive (fun v => ell_x x_0 sx sy theta u v) v (- sy * sin (deg2rad theta)) /\
  is_derive (fun u => ell_y y_0 sx sy theta u v) u (sx * sin (deg2rad theta)) /\
  is_derive (fun v => ell_y y_0 sx sy theta u v) v (sy * cos (deg2rad theta)).
Proof.
  unfold ell_x, ell_y. split; [|split; [|split]]; auto_derive; auto; ring.
Qed.

Lemma unit_fwhm_sigma : cg_sigma (1 / GAUSSIAN_FWHM_TO_SIGMA) = 1.
Proof. unfold cg_sigma. field. generalize f2s_pos; lra. Qed.

Lemma gaussian_psf_affine_image flux x_0 y_0 xf yf theta u v :
  0 < xf -> 0 < yf ->
  gaussian_psf (ell_x x_0 (cg_sigma xf) (cg_sigma yf) theta u v)
               (ell_y y_0 (cg_sigma xf) (cg_sigma yf) theta u v) flux x_0 y_0 xf yf theta
  * ell_jacobian (cg_sigma xf) (cg_sigma yf) theta
  = circular_gaussian_psf u v flux 0 0 (1 / GAUSSIAN_FWHM_TO_SIGMA).
Proof.
  intros Hx Hy. assert (Sx := cg_sigma_pos xf Hx). assert (Sy := cg_sigma_pos yf Hy).
  rewrite gaussian_psf_unit_form by assumption.
  rewrite ell_u_of_image, ell_v_of_image by lra.
  rewrite ell_jacobian_value.
  assert (F : 0 < 1 / GAUSSIAN_FWHM_TO_SIGMA).
  { apply Rdiv_lt_0_compat; [lra | exact f2s_pos]. }
  assert (Q : sqrt (u ^ 2 + v ^ 2) ^ 2 = u ^ 2 + v ^ 2).
  { apply pow2_sqrt. generalize (pow2_ge_0 u) (pow2_ge_0 v). lra. }
  rewrite (cg_psf_profile_r2 u v flux 0 0 _ (sqrt (u ^ 2 + v ^ 2)) F).
  2:{ unfold rsq. rewrite !Rminus_0_r. symmetry. exact Q. }
  unfold gauss_profile. rewrite unit_fwhm_sigma.
  rewrite Q.
  replace (- (u ^ 2 + v ^ 2) / (2 * 1 ^ 2)) with (- (u ^ 2 + v ^ 2) / 2) by field.
  field. generalize PI_RGT_0. lra.
Qed.

(* equal widths: the elliptical model is the circular one for every theta *)
Lemma gaussian_psf_equal_widths x y flux x_0 y_0 fwhm theta :
  0 < fwhm ->
  gaussian_psf x y flux x_0 y_0 fwhm fwhm theta = circular_gaussian_psf x y flux x_0 y_0 fwhm.
Proof.
  intros Hf. assert (S := cg_sigma_pos fwhm Hf).
  rewrite gaussian_psf_unit_form by assumption.
  rewrite cg_psf_profile by assumption. unfold gauss_profile. rewrite sqrt_rsq_sqr.
  unfold ell_u, ell_v, rsq.
  set (c := cos (deg2rad theta)). set (s := sin (deg2rad theta)).
  assert (E : s * s + c * c = 1) by apply sin2_cos2.
  f_equal; [field; generalize PI_RGT_0; lra|]. f_equal.
  replace (- ((((x - x_0) * c + (y - y_0) * s) / cg_sigma fwhm) ^ 2
              + ((- (x - x_0) * s + (y - y_0) * c) / cg_sigma fwhm) ^ 2) / 2)
    with (- (((x - x_0) ^ 2 + (y - y_0) ^ 2) * (s * s + c * c)) / (2 * cg_sigma fwhm ^ 2))
    by (field; lra).
  rewrite E. f_equal. ring.
Qed.

(* ------------------------------------------------------------------ *)
(* 3. radial normalisation integrals                                    *)
(* ------------------------------------------------------------------ *)

(* generic: partial integrals with a limit give the improper integral on [a, +oo) *)
Lemma is_RInt_gen_from_partial (f I : R -> R) (a l : R) :
  (forall b, is_RInt f a b (I b)) ->
  filterlim I (Rbar_locally p_infty) (locally l) ->
  is_RInt_gen f (at_point a) (Rbar_locally p_infty) l.
Proof.
  intros HI Hl P HP. unfold filtermapi.
  specialize (Hl P HP).
  apply (Filter_prod _ _ _ (fun x => x = a) (fun b => P (I b))).
  - reflexivity.
  - exact Hl.
  - intros x y Hx Hy. simpl in *. subst x. exists (I y). split; [apply HI | exact Hy].
Qed.

Lemma moffat_base_pos alpha r : 0 < 1 + r ^ 2 / alpha ^ 2.
Proof.
  assert (0 <= r ^ 2 / alpha ^ 2); [|lra].
  unfold Rdiv. destruct (Req_dec alpha 0) as [->|Ha].
  - replace (0 ^ 2) with 0 by ring. rewrite Rinv_0. lra.
  - apply Rmult_le_pos; [apply pow2_ge_0|]. left. apply Rinv_0_lt_compat.
    assert (0 <= alpha ^ 2) by apply pow2_ge_0.
    assert (alpha ^ 2 <> 0) by (apply pow_nonzero; exact Ha). lra.
Qed.

(* 3a. antiderivatives of the shells *)
Lemma gauss_shell_prim_derive flux sigma r :
  0 < sigma ->
  is_derive (gauss_shell_prim flux sigma) r (gauss_shell flux sigma r).
Proof.
  intro Hs. unfold gauss_shell_prim, gauss_shell, gauss_profile.
  auto_derive.
  - repeat split; lra.
  - simpl; unfold Rdiv. field. split; [lra | generalize PI_RGT_0; lra].
Qed.

Lemma moffat_shell_prim_derive flux alpha beta r :
  0 < alpha ->
  is_derive (moffat_shell_prim flux alpha beta) r (moffat_shell flux alpha beta r).
Proof.
  intro Ha. assert (B := moffat_base_pos alpha r).
  unfold moffat_shell_prim, moffat_shell, moffat_profile, Rpower.
  auto_derive.
  - exact B.
  - simpl in *; unfold Rdiv in *.
    set (base := 1 + r * (r * 1) * / (alpha * (alpha * 1))) in *.
    replace (- beta * ln base) with ((1 - beta) * ln base + - ln base) by ring.
    rewrite exp_plus, exp_Ropp, exp_ln by exact B.
    unfold base. field. repeat split; try lra; [nra | generalize PI_RGT_0; lra].
Qed.

Lemma gauss_shell_continuous flux sigma r :
  0 < sigma -> continuous (gauss_shell flux sigma) r.
Proof.
  intro Hs. apply (ex_derive_continuous (gauss_shell flux sigma)).
  unfold gauss_shell, gauss_profile. auto_derive. repeat split; try lra.
Qed.

Lemma moffat_shell_continuous flux alpha beta r :
  0 < alpha -> continuous (moffat_shell flux alpha beta) r.
Proof.
  intro Ha. assert (B := moffat_base_pos alpha r).
  apply (ex_derive_continuous (moffat_shell flux alpha beta)).
  unfold moffat_shell, moffat_profile, Rpower. auto_derive. exact B.
Qed.

(* 3b. the partial integrals, closed form (any two bounds, in particular 0 and rad) *)
Lemma gauss_shell_RInt_ab flux sigma a b :
  0 < sigma ->
  is_RInt (gauss_shell flux sigma) a b
          (gauss_shell_prim flux sigma b - gauss_shell_prim flux sigma a).
Proof.
  intro Hs.
  apply (is_RInt_derive (gauss_shell_prim flux sigma) (gauss_shell flux sigma)).
  - intros x _. apply gauss_shell_prim_derive, Hs.
  - intros x _. apply gauss_shell_continuous, Hs.
Qed.

Lemma gauss_shell_RInt flux sigma rad :
  0 < sigma ->
  is_RInt (gauss_shell flux sigma) 0 rad (gauss_encircled flux sigma rad).
Proof.
  intro Hs. replace (gauss_encircled flux sigma rad)
    with (gauss_shell_prim flux sigma rad - gauss_shell_prim flux sigma 0).
  - apply gauss_shell_RInt_ab, Hs.
  - unfold gauss_shell_prim, gauss_encircled.
    replace (- 0 ^ 2 / (2 * sigma ^ 2)) with 0 by (field; lra).
    rewrite exp_0. ring.
Qed.

Lemma moffat_shell_RInt_ab flux alpha beta a b :
  0 < alpha ->
  is_RInt (moffat_shell flux alpha beta) a b
          (moffat_shell_prim flux alpha beta b - moffat_shell_prim flux alpha beta a).
Proof.
  intro Hs.
  apply (is_RInt_derive (moffat_shell_prim flux alpha beta) (moffat_shell flux alpha beta)).
  - intros x _. apply moffat_shell_prim_derive, Hs.
  - intros x _. apply moffat_shell_continuous, Hs.
Qed.

Lemma Rpower_1_l y : Rpower 1 y = 1.
Proof. unfold Rpower. rewrite ln_1, Rmult_0_r. apply exp_0. Qed.

Lemma moffat_shell_RInt flux alpha beta rad :
  0 < alpha ->
  is_RInt (moffat_shell flux alpha beta) 0 rad (moffat_encircled flux alpha beta rad).
Proof.
  intro Hs. replace (moffat_encircled flux alpha beta rad)
    with (moffat_shell_prim flux alpha beta rad - moffat_shell_prim flux alpha beta 0).
  - apply moffat_shell_RInt_ab, Hs.
  - unfold moffat_shell_prim, moffat_encircled.
    replace (1 + 0 ^ 2 / alpha ^ 2) with 1 by (field; lra).
    rewrite Rpower_1_l. ring.
Qed.

(* 3c. the tails vanish *)
Lemma gauss_tail_lim sigma :
  0 < sigma -> is_lim (fun rad => exp (- rad ^ 2 / (2 * sigma ^ 2))) p_infty 0.
Proof.
  intro Hs.
  apply (is_lim_comp (fun y => exp y) (fun rad => - rad ^ 2 / (2 * sigma ^ 2)) p_infty 0 m_infty).
  - exact is_lim_exp_m.
  - intros P [M HM]. exists (Rmax 1 (- M * (2 * sigma ^ 2))). intros x Hx. apply HM.
    assert (H1 : 1 < x) by (eapply Rle_lt_trans; [apply Rmax_l | exact Hx]).
    assert (H2 : - M * (2 * sigma ^ 2) < x) by (eapply Rle_lt_trans; [apply Rmax_r | exact Hx]).
    assert (K : 0 < 2 * sigma ^ 2) by nra.
    assert (X : x < x ^ 2) by nra.
    apply (Rmult_lt_reg_r (2 * sigma ^ 2)); [exact K|].
    replace (- x ^ 2 / (2 * sigma ^ 2) * (2 * sigma ^ 2)) with (- x ^ 2) by (field; lra).
    lra.
  - exists 0. intros x _ H. discriminate H.
Qed.

Lemma moffat_tail_lim alpha beta :
  0 < alpha -> 1 < beta ->
  is_lim (fun rad => Rpower (1 + rad ^ 2 / alpha ^ 2) (1 - beta)) p_infty 0.
Proof.
  intros Ha Hb. unfold Rpower.
  apply (is_lim_comp (fun y => exp y) (fun rad => (1 - beta) * ln (1 + rad ^ 2 / alpha ^ 2))
                     p_infty 0 m_infty).
  - exact is_lim_exp_m.
  - intros P [M HM].
    exists (Rmax 1 (alpha ^ 2 * exp (- M / (beta - 1)))). intros x Hx. apply HM.
    assert (H1 : 1 < x) by (eapply Rle_lt_trans; [apply Rmax_l | exact Hx]).
    assert (H2 : alpha ^ 2 * exp (- M / (beta - 1)) < x)
      by (eapply Rle_lt_trans; [apply Rmax_r | exact Hx]).
    assert (K : 0 < alpha ^ 2) by nra.
    assert (X : x < x ^ 2) by nra.
    assert (E : exp (- M / (beta - 1)) < 1 + x ^ 2 / alpha ^ 2).
    { assert (exp (- M / (beta - 1)) < x ^ 2 / alpha ^ 2); [|lra].
      apply (Rmult_lt_reg_r (alpha ^ 2)); [exact K|].
      replace (x ^ 2 / alpha ^ 2 * alpha ^ 2) with (x ^ 2) by (field; lra). lra. }
    assert (L : - M / (beta - 1) < ln (1 + x ^ 2 / alpha ^ 2)).
    { rewrite <- (ln_exp (- M / (beta - 1))). apply ln_increasing; [apply exp_pos | exact E]. }
    assert (L2 : - M < (beta - 1) * ln (1 + x ^ 2 / alpha ^ 2)).
    { apply (Rmult_lt_compat_l (beta - 1)) in L; [|lra].
      replace ((beta - 1) * (- M / (beta - 1))) with (- M) in L by (field; lra). exact L. }
    lra.
  - exists 0. intros x _ H. discriminate H.
Qed.

(* 3d. limits of the encircled flux *)
Lemma gauss_encircled_lim flux sigma :
  0 < sigma -> is_lim (gauss_encircled flux sigma) p_infty flux.
Proof.
  intro Hs. unfold gauss_encircled.
  replace (Finite flux) with (Rbar_mult flux (Finite (1 - 0)))
    by (simpl; f_equal; ring).
  apply (is_lim_scal_l (fun rad => 1 - exp (- rad ^ 2 / (2 * sigma ^ 2)))).
  apply (is_lim_minus' (fun _ => 1) (fun rad => exp (- rad ^ 2 / (2 * sigma ^ 2)))).
  - apply is_lim_const.
  - apply gauss_tail_lim, Hs.
Qed.

Lemma moffat_encircled_lim flux alpha beta :
  0 < alpha -> 1 < beta -> is_lim (moffat_encircled flux alpha beta) p_infty flux.
Proof.
  intros Ha Hb. unfold moffat_encircled.
  replace (Finite flux) with (Rbar_mult flux (Finite (1 - 0)))
    by (simpl; f_equal; ring).
  apply (is_lim_scal_l (fun rad => 1 - Rpower (1 + rad ^ 2 / alpha ^ 2) (1 - beta))).
  apply (is_lim_minus' (fun _ => 1) (fun rad => Rpower (1 + rad ^ 2 / alpha ^ 2) (1 - beta))).
  - apply is_lim_const.
  - apply moffat_tail_lim; assumption.
Qed.

Lemma is_lim_filterlim_p_infty (f : R -> R) (l : R) :
  is_lim f p_infty l -> filterlim f (Rbar_locally p_infty) (locally l).
Proof. intro H. exact H. Qed.

(* 3e. improper integrals on [0, +oo) *)
Lemma gauss_shell_RInt_gen flux sigma :
  0 < sigma ->
  is_RInt_gen (gauss_shell flux sigma) (at_point 0) (Rbar_locally p_infty) flux.
Proof.
  intro Hs. apply (is_RInt_gen_from_partial _ (gauss_encircled flux sigma)).
  - intro b. apply gauss_shell_RInt, Hs.
  - apply is_lim_filterlim_p_infty, gauss_encircled_lim, Hs.
Qed.

Lemma moffat_shell_RInt_gen flux alpha beta :
  0 < alpha -> 1 < beta ->
  is_RInt_gen (moffat_shell flux alpha beta) (at_point 0) (Rbar_locally p_infty) flux.
Proof.
  intros Ha Hb. apply (is_RInt_gen_from_partial _ (moffat_encircled flux alpha beta)).
  - intro b. apply moffat_shell_RInt, Ha.
  - apply is_lim_filterlim_p_infty, moffat_encircled_lim; assumption.
Qed.

(* ------------------------------------------------------------------ *)
(* 4. sign and monotonicity                                             *)
(* ------------------------------------------------------------------ *)
Lemma sq_pos x : 0 < x -> 0 < x ^ 2.
Proof. intro. apply pow_lt. assumption. Qed.
Lemma two_pi_sq_pos sigma : 0 < sigma -> 0 < 2 * PI * sigma ^ 2.
Proof.
  intro H. apply Rmult_lt_0_compat; [|apply sq_pos, H].
  generalize PI_RGT_0; lra.
Qed.
Lemma pi_sq_pos alpha : 0 < alpha -> 0 < PI * alpha ^ 2.
Proof. intro H. apply Rmult_lt_0_compat; [exact PI_RGT_0 | apply sq_pos, H]. Qed.

Lemma gauss_profile_nonneg flux sigma r : 0 <= flux -> 0 < sigma -> 0 <= gauss_profile flux sigma r.
Proof.
  intros Hf Hs. unfold gauss_profile. apply Rmult_le_pos; [|left; apply exp_pos].
  apply Rmult_le_pos; [exact Hf|]. left. apply Rinv_0_lt_compat.
  first [apply two_pi_sq_pos; assumption | apply pi_sq_pos; assumption].
Qed.

Lemma moffat_profile_nonneg flux alpha beta r :
  0 <= flux -> 0 < alpha -> 1 <= beta -> 0 <= moffat_profile flux alpha beta r.
Proof.
  intros Hf Ha Hb. unfold moffat_profile.
  apply Rmult_le_pos; [|left; apply exp_pos].
  apply Rmult_le_pos; [apply Rmult_le_pos; lra|]. left. apply Rinv_0_lt_compat.
  first [apply two_pi_sq_pos; assumption | apply pi_sq_pos; assumption].
Qed.

Lemma gauss_shell_nonneg flux sigma r :
  0 <= flux -> 0 < sigma -> 0 <= r -> 0 <= gauss_shell flux sigma r.
Proof.
  intros Hf Hs Hr. unfold gauss_shell.
  apply Rmult_le_pos; [|apply gauss_profile_nonneg; assumption].
  generalize PI_RGT_0. intro. nra.
Qed.

Lemma moffat_shell_nonneg flux alpha beta r :
  0 <= flux -> 0 < alpha -> 1 <= beta -> 0 <= r -> 0 <= moffat_shell flux alpha beta r.
Proof.
  intros Hf Ha Hb Hr. unfold moffat_shell.
  apply Rmult_le_pos; [|apply moffat_profile_nonneg; assumption].
  generalize PI_RGT_0. intro. nra.
Qed.

Lemma sq_le_of_le r1 r2 : 0 <= r1 <= r2 -> r1 ^ 2 <= r2 ^ 2.
Proof. intros. nra. Qed.
Lemma sq_lt_of_lt r1 r2 : 0 <= r1 < r2 -> r1 ^ 2 < r2 ^ 2.
Proof. intros. nra. Qed.

Lemma gauss_arg_decr sigma r1 r2 :
  0 < sigma -> r1 ^ 2 <= r2 ^ 2 -> - r2 ^ 2 / (2 * sigma ^ 2) <= - r1 ^ 2 / (2 * sigma ^ 2).
Proof.
  intros Hs H. unfold Rdiv. apply Rmult_le_compat_r; [|lra].
  left. apply Rinv_0_lt_compat. nra.
Qed.
Lemma gauss_arg_decr_strict sigma r1 r2 :
  0 < sigma -> r1 ^ 2 < r2 ^ 2 -> - r2 ^ 2 / (2 * sigma ^ 2) < - r1 ^ 2 / (2 * sigma ^ 2).
Proof.
  intros Hs H. unfold Rdiv. apply Rmult_lt_compat_r; [|lra].
  apply Rinv_0_lt_compat. nra.
Qed.

Lemma exp_le_mono a b : a <= b -> exp a <= exp b.
Proof. intros [H | ->]; [left; apply exp_increasing, H | right; reflexivity]. Qed.

(* profiles decrease with the radius *)
Lemma gauss_profile_decreasing flux sigma r1 r2 :
  0 <= flux -> 0 < sigma -> 0 <= r1 <= r2 ->
  gauss_profile flux sigma r2 <= gauss_profile flux sigma r1.
Proof.
  intros Hf Hs Hr. unfold gauss_profile. apply Rmult_le_compat_l.
  - apply Rmult_le_pos; [exact Hf|]. left. apply Rinv_0_lt_compat.
    first [apply two_pi_sq_pos; assumption | apply pi_sq_pos; assumption].
  - apply exp_le_mono, gauss_arg_decr; [exact Hs | apply sq_le_of_le, Hr].
Qed.

Lemma gauss_profile_strictly_decreasing flux sigma r1 r2 :
  0 < flux -> 0 < sigma -> 0 <= r1 < r2 ->
  gauss_profile flux sigma r2 < gauss_profile flux sigma r1.
Proof.
  intros Hf Hs Hr. unfold gauss_profile. apply Rmult_lt_compat_l.
  - apply Rmult_lt_0_compat; [exact Hf|]. apply Rinv_0_lt_compat.
    first [apply two_pi_sq_pos; assumption | apply pi_sq_pos; assumption].
  - apply exp_increasing, gauss_arg_decr_strict; [exact Hs | apply sq_lt_of_lt, Hr].
Qed.

Lemma moffat_base_mono alpha r1 r2 :
  0 < alpha -> r1 ^ 2 <= r2 ^ 2 -> 1 + r1 ^ 2 / alpha ^ 2 <= 1 + r2 ^ 2 / alpha ^ 2.
Proof.
  intros Ha H. apply Rplus_le_compat_l. unfold Rdiv. apply Rmult_le_compat_r; [|exact H].
  left. apply Rinv_0_lt_compat. nra.
Qed.
Lemma moffat_base_mono_strict alpha r1 r2 :
  0 < alpha -> r1 ^ 2 < r2 ^ 2 -> 1 + r1 ^ 2 / alpha ^ 2 < 1 + r2 ^ 2 / alpha ^ 2.
Proof.
  intros Ha H. apply Rplus_lt_compat_l. unfold Rdiv. apply Rmult_lt_compat_r; [|exact H].
  apply Rinv_0_lt_compat. nra.
Qed.

(* x |-> x^e is decreasing on x > 0 for e <= 0 *)
Lemma Rpower_neg_exponent_decr x1 x2 e :
  0 < x1 -> x1 <= x2 -> e <= 0 -> Rpower x2 e <= Rpower x1 e.
Proof.
  intros H1 H12 He. unfold Rpower. apply exp_le_mono.
  assert (ln x1 <= ln x2).
  { destruct H12 as [H | ->]; [left; apply ln_increasing; assumption | right; reflexivity]. }
  nra.
Qed.
Lemma Rpower_neg_exponent_decr_strict x1 x2 e :
  0 < x1 -> x1 < x2 -> e < 0 -> Rpower x2 e < Rpower x1 e.
Proof.
  intros H1 H12 He. unfold Rpower. apply exp_increasing.
  assert (ln x1 < ln x2) by (apply ln_increasing; assumption).
  nra.
Qed.

Lemma moffat_profile_decreasing flux alpha beta r1 r2 :
  0 <= flux -> 0 < alpha -> 1 <= beta -> 0 <= r1 <= r2 ->
  moffat_profile flux alpha beta r2 <= moffat_profile flux alpha beta r1.
Proof.
  intros Hf Ha Hb Hr. unfold moffat_profile. apply Rmult_le_compat_l.
  - apply Rmult_le_pos; [apply Rmult_le_pos; lra|]. left. apply Rinv_0_lt_compat.
    first [apply two_pi_sq_pos; assumption | apply pi_sq_pos; assumption].
  - apply Rpower_neg_exponent_decr; [apply moffat_base_pos| |lra].
    apply moffat_base_mono; [exact Ha | apply sq_le_of_le, Hr].
Qed.

Lemma moffat_profile_strictly_decreasing flux alpha beta r1 r2 :
  0 < flux -> 0 < alpha -> 1 < beta -> 0 <= r1 < r2 ->
  moffat_profile flux alpha beta r2 < moffat_profile flux alpha beta r1.
Proof.
  intros Hf Ha Hb Hr. unfold moffat_profile. apply Rmult_lt_compat_l.
  - apply Rmult_lt_0_compat; [apply Rmult_lt_0_compat; lra|]. apply Rinv_0_lt_compat.
    first [apply two_pi_sq_pos; assumption | apply pi_sq_pos; assumption].
  - apply Rpower_neg_exponent_decr_strict; [apply moffat_base_pos| |lra].
    apply moffat_base_mono_strict; [exact Ha | apply sq_lt_of_lt, Hr].
Qed.

(* encircled flux: increasing in the radius, between 0 and flux, strictly below flux *)
Lemma gauss_encircled_mono flux sigma r1 r2 :
  0 <= flux -> 0 < sigma -> 0 <= r1 <= r2 ->
  gauss_encircled flux sigma r1 <= gauss_encircled flux sigma r2.
Proof.
  intros Hf Hs Hr. unfold gauss_encircled. apply Rmult_le_compat_l; [exact Hf|].
  assert (exp (- r2 ^ 2 / (2 * sigma ^ 2)) <= exp (- r1 ^ 2 / (2 * sigma ^ 2))); [|lra].
  apply exp_le_mono, gauss_arg_decr; [exact Hs | apply sq_le_of_le, Hr].
Qed.

Lemma gauss_encircled_bounds flux sigma rad :
  0 <= flux -> 0 < sigma -> 0 <= gauss_encircled flux sigma rad <= flux.
Proof.
  intros Hf Hs. unfold gauss_encircled.
  assert (E0 := exp_pos (- rad ^ 2 / (2 * sigma ^ 2))).
  assert (E1 : exp (- rad ^ 2 / (2 * sigma ^ 2)) <= 1).
  { rewrite <- exp_0. apply exp_le_mono.
    replace 0 with (- 0 ^ 2 / (2 * sigma ^ 2)) by (field; lra).
    apply gauss_arg_decr; [exact Hs|]. generalize (pow2_ge_0 rad). lra. }
  split; nra.
Qed.

Lemma gauss_encircled_lt_flux flux sigma rad :
  0 < flux -> gauss_encircled flux sigma rad < flux.
Proof.
  intros Hf. unfold gauss_encircled.
  assert (E0 := exp_pos (- rad ^ 2 / (2 * sigma ^ 2))). nra.
Qed.

Lemma moffat_encircled_mono flux alpha beta r1 r2 :
  0 <= flux -> 0 < alpha -> 1 <= beta -> 0 <= r1 <= r2 ->
  moffat_encircled flux alpha beta r1 <= moffat_encircled flux alpha beta r2.
Proof.
  intros Hf Ha Hb Hr. unfold moffat_encircled. apply Rmult_le_compat_l; [exact Hf|].
  assert (Rpower (1 + r2 ^ 2 / alpha ^ 2) (1 - beta)
          <= Rpower (1 + r1 ^ 2 / alpha ^ 2) (1 - beta)); [|lra].
  apply Rpower_neg_exponent_decr; [apply moffat_base_pos| |lra].
  apply moffat_base_mono; [exact Ha | apply sq_le_of_le, Hr].
Qed.

Lemma moffat_encircled_bounds flux alpha beta rad :
  0 <= flux -> 0 < alpha -> 1 <= beta -> 0 <= moffat_encircled flux alpha beta rad <= flux.
Proof.
  intros Hf Ha Hb. unfold moffat_encircled.
  assert (E0 : 0 < Rpower (1 + rad ^ 2 / alpha ^ 2) (1 - beta)) by apply exp_pos.
  assert (E1 : Rpower (1 + rad ^ 2 / alpha ^ 2) (1 - beta) <= 1).
  { apply Rle_trans with (Rpower 1 (1 - beta)); [|rewrite Rpower_1_l; lra].
    apply Rpower_neg_exponent_decr; [lra| |lra].
    replace 1 with (1 + 0 ^ 2 / alpha ^ 2) at 1 by (field; lra).
    apply moffat_base_mono; [exact Ha|]. generalize (pow2_ge_0 rad). lra. }
  split; nra.
Qed.

Lemma moffat_encircled_lt_flux flux alpha beta rad :
  0 < flux -> moffat_encircled flux alpha beta rad < flux.
Proof.
  intros Hf. unfold moffat_encircled.
  assert (E0 : 0 < Rpower (1 + rad ^ 2 / alpha ^ 2) (1 - beta)) by apply exp_pos. nra.
Qed.

(* ------------------------------------------------------------------ *)
(* 5. FWHM                                                              *)
(* ------------------------------------------------------------------ *)
Lemma exp_m_ln2 : exp (- ln 2) = / 2.
Proof. rewrite exp_Ropp, exp_ln by lra. reflexivity. Qed.

Lemma gauss_profile_centre flux sigma : gauss_profile flux sigma 0 = flux / (2 * PI * sigma ^ 2).
Proof.
  unfold gauss_profile. replace (- 0 ^ 2 / (2 * sigma ^ 2)) with 0 by (unfold Rdiv; ring).
  rewrite exp_0. ring.
Qed.

Lemma gauss_profile_half_max flux fwhm :
  0 < fwhm ->
  gauss_profile flux (cg_sigma fwhm) (fwhm / 2) = gauss_profile flux (cg_sigma fwhm) 0 / 2.
Proof.
  intro Hf. rewrite gauss_profile_centre. unfold gauss_profile.
  assert (L := ln2_pos).
  replace (- (fwhm / 2) ^ 2 / (2 * cg_sigma fwhm ^ 2)) with (- ln 2).
  - rewrite exp_m_ln2. reflexivity.
  - unfold cg_sigma. rewrite Rpow_mult_distr, f2s_sqr. field. lra.
Qed.

Lemma moffat_profile_centre flux alpha beta :
  0 < alpha -> moffat_profile flux alpha beta 0 = flux * (beta - 1) / (PI * alpha ^ 2).
Proof.
  intro Ha. unfold moffat_profile.
  replace (1 + 0 ^ 2 / alpha ^ 2) with 1 by (field; lra).
  rewrite Rpower_1_l. ring.
Qed.

Lemma two_pow_inv_ge_1 beta : 0 < beta -> 1 <= Rpower 2 (1 / beta).
Proof.
  intro Hb. unfold Rpower. rewrite <- exp_0 at 1. apply exp_le_mono.
  apply Rmult_le_pos; [|left; exact ln2_pos].
  left. apply Rdiv_lt_0_compat; lra.
Qed.

Lemma moffat_half_fwhm_sq alpha beta :
  0 < alpha -> 0 < beta ->
  1 + (moffat_fwhm alpha beta / 2) ^ 2 / alpha ^ 2 = Rpower 2 (1 / beta).
Proof.
  intros Ha Hb. unfold moffat_fwhm.
  assert (G := two_pow_inv_ge_1 beta Hb).
  replace ((2 * alpha * sqrt (Rpower 2 (1 / beta) - 1) / 2) ^ 2)
    with (alpha ^ 2 * sqrt (Rpower 2 (1 / beta) - 1) ^ 2) by field.
  rewrite pow2_sqrt by lra. field. lra.
Qed.

Lemma moffat_profile_half_max flux alpha beta :
  0 < alpha -> 0 < beta ->
  moffat_profile flux alpha beta (moffat_fwhm alpha beta / 2)
  = moffat_profile flux alpha beta 0 / 2.
Proof.
  intros Ha Hb. rewrite moffat_profile_centre by exact Ha. unfold moffat_profile.
  rewrite moffat_half_fwhm_sq by assumption.
  rewrite Rpower_mult.
  replace (Rpower 2 (1 / beta * - beta)) with (/ 2); [reflexivity|].
  unfold Rpower. replace (1 / beta * - beta * ln 2) with (- ln 2) by (field; lra).
  symmetry. apply exp_m_ln2.
Qed.

Lemma moffat_fwhm_pos alpha beta : 0 < alpha -> 0 < beta -> 0 < moffat_fwhm alpha beta.
Proof.
  intros Ha Hb. unfold moffat_fwhm. apply Rmult_lt_0_compat; [lra|].
  apply sqrt_lt_R0. unfold Rpower.
  assert (exp 0 < exp (1 / beta * ln 2)); [|rewrite exp_0 in *; lra].
  apply exp_increasing. apply Rmult_lt_0_compat; [|exact ln2_pos].
  apply Rdiv_lt_0_compat; lra.
Qed.

(* ------------------------------------------------------------------ *)
(* 6. statements about the transcribed models                           *)
(* ------------------------------------------------------------------ *)

(* 6a. half maximum at distance fwhm/2 from the centre, in every direction *)
Lemma cg_psf_fwhm_half_max x y flux x_0 y_0 fwhm :
  0 < fwhm -> rsq x y x_0 y_0 = (fwhm / 2) ^ 2 ->
  circular_gaussian_psf x y flux x_0 y_0 fwhm
  = circular_gaussian_psf x_0 y_0 flux x_0 y_0 fwhm / 2.
Proof.
  intros Hf Hr.
  rewrite (cg_psf_profile_r2 x y flux x_0 y_0 fwhm (fwhm / 2) Hf Hr).
  rewrite (cg_psf_profile_r2 x_0 y_0 flux x_0 y_0 fwhm 0 Hf) by (unfold rsq; ring).
  apply gauss_profile_half_max, Hf.
Qed.

Lemma moffat_psf_fwhm_half_max x y flux x_0 y_0 alpha beta :
  0 < alpha -> 0 < beta -> rsq x y x_0 y_0 = (moffat_fwhm alpha beta / 2) ^ 2 ->
  moffat_psf x y flux x_0 y_0 alpha beta = moffat_psf x_0 y_0 flux x_0 y_0 alpha beta / 2.
Proof.
  intros Ha Hb Hr.
  rewrite (moffat_psf_profile_r2 x y flux x_0 y_0 alpha beta _ Hr).
  rewrite (moffat_psf_profile_r2 x_0 y_0 flux x_0 y_0 alpha beta 0) by (unfold rsq; ring).
  apply moffat_profile_half_max; assumption.
Qed.

(* 6b. non-negative, peak at the centre, decreasing with the distance from the centre *)
Lemma sqrt_rsq_mono x y x' y' x_0 y_0 :
  rsq x y x_0 y_0 <= rsq x' y' x_0 y_0 ->
  0 <= sqrt (rsq x y x_0 y_0) <= sqrt (rsq x' y' x_0 y_0).
Proof. intro H. split; [apply sqrt_pos | apply sqrt_le_1_alt, H]. Qed.

Lemma cg_psf_nonneg x y flux x_0 y_0 fwhm :
  0 <= flux -> 0 < fwhm -> 0 <= circular_gaussian_psf x y flux x_0 y_0 fwhm.
Proof.
  intros Hf Hw. rewrite cg_psf_profile by exact Hw.
  apply gauss_profile_nonneg; [exact Hf | apply cg_sigma_pos, Hw].
Qed.

Lemma cg_psf_radially_decreasing x y x' y' flux x_0 y_0 fwhm :
  0 <= flux -> 0 < fwhm -> rsq x y x_0 y_0 <= rsq x' y' x_0 y_0 ->
  circular_gaussian_psf x' y' flux x_0 y_0 fwhm <= circular_gaussian_psf x y flux x_0 y_0 fwhm.
Proof.
  intros Hf Hw Hr. rewrite !cg_psf_profile by exact Hw.
  apply gauss_profile_decreasing; [exact Hf | apply cg_sigma_pos, Hw | apply sqrt_rsq_mono, Hr].
Qed.

Lemma cg_psf_radially_strictly_decreasing x y x' y' flux x_0 y_0 fwhm :
  0 < flux -> 0 < fwhm -> rsq x y x_0 y_0 < rsq x' y' x_0 y_0 ->
  circular_gaussian_psf x' y' flux x_0 y_0 fwhm < circular_gaussian_psf x y flux x_0 y_0 fwhm.
Proof.
  intros Hf Hw Hr. rewrite !cg_psf_profile by exact Hw.
  apply gauss_profile_strictly_decreasing; [exact Hf | apply cg_sigma_pos, Hw |].
  split; [apply sqrt_pos | apply sqrt_lt_1_alt; split; [apply rsq_nonneg | exact Hr]].
Qed.

Lemma cg_psf_peak_at_centre x y flux x_0 y_0 fwhm :
  0 <= flux -> 0 < fwhm ->
  circular_gaussian_psf x y flux x_0 y_0 fwhm <= circular_gaussian_psf x_0 y_0 flux x_0 y_0 fwhm.
Proof.
  intros Hf Hw. apply cg_psf_radially_decreasing; [exact Hf | exact Hw |].
  replace (rsq x_0 y_0 x_0 y_0) with 0 by (unfold rsq; ring). apply rsq_nonneg.
Qed.

Lemma moffat_psf_nonneg x y flux x_0 y_0 alpha beta :
  0 <= flux -> 0 < alpha -> 1 <= beta -> 0 <= moffat_psf x y flux x_0 y_0 alpha beta.
Proof. intros. rewrite moffat_psf_profile. apply moffat_profile_nonneg; assumption. Qed.

Lemma moffat_psf_radially_decreasing x y x' y' flux x_0 y_0 alpha beta :
  0 <= flux -> 0 < alpha -> 1 <= beta -> rsq x y x_0 y_0 <= rsq x' y' x_0 y_0 ->
  moffat_psf x' y' flux x_0 y_0 alpha beta <= moffat_psf x y flux x_0 y_0 alpha beta.
Proof.
  intros Hf Ha Hb Hr. rewrite !moffat_psf_profile.
  apply moffat_profile_decreasing; try assumption. apply sqrt_rsq_mono, Hr.
Qed.

Lemma moffat_psf_radially_strictly_decreasing x y x' y' flux x_0 y_0 alpha beta :
  0 < flux -> 0 < alpha -> 1 < beta -> rsq x y x_0 y_0 < rsq x' y' x_0 y_0 ->
  moffat_psf x' y' flux x_0 y_0 alpha beta < moffat_psf x y flux x_0 y_0 alpha beta.
Proof.
  intros Hf Ha Hb Hr. rewrite !moffat_psf_profile.
  apply moffat_profile_strictly_decreasing; try assumption.
  split; [apply sqrt_pos | apply sqrt_lt_1_alt; split; [apply rsq_nonneg | exact Hr]].
Qed.

Lemma moffat_psf_peak_at_centre x y flux x_0 y_0 alpha beta :
  0 <= flux -> 0 < alpha -> 1 <= beta ->
  moffat_psf x y flux x_0 y_0 alpha beta <= moffat_psf x_0 y_0 flux x_0 y_0 alpha beta.
Proof.
  intros Hf Ha Hb. apply moffat_psf_radially_decreasing; try assumption.
  replace (rsq x_0 y_0 x_0 y_0) with 0 by (unfold rsq; ring). apply rsq_nonneg.
Qed.

(* GaussianPSF: level sets are the ellipses u^2 + v^2 = const; decreasing in u^2 + v^2 *)
Definition ell_rsq (x_0 y_0 sx sy theta x y : R) : R :=
  ell_u x_0 y_0 sx theta x y ^ 2 + ell_v x_0 y_0 sy theta x y ^ 2.

Lemma gaussian_psf_elliptically_decreasing x y x' y' flux x_0 y_0 xf yf theta :
  0 <= flux -> 0 < xf -> 0 < yf ->
  ell_rsq x_0 y_0 (cg_sigma xf) (cg_sigma yf) theta x y
  <= ell_rsq x_0 y_0 (cg_sigma xf) (cg_sigma yf) theta x' y' ->
  gaussian_psf x' y' flux x_0 y_0 xf yf theta <= gaussian_psf x y flux x_0 y_0 xf yf theta.
Proof.
  intros Hf Hx Hy Hr. rewrite !gaussian_psf_unit_form by assumption.
  fold (ell_rsq x_0 y_0 (cg_sigma xf) (cg_sigma yf) theta x y).
  fold (ell_rsq x_0 y_0 (cg_sigma xf) (cg_sigma yf) theta x' y').
  assert (Sx := cg_sigma_pos xf Hx). assert (Sy := cg_sigma_pos yf Hy).
  apply Rmult_le_compat_l.
  - apply Rmult_le_pos; [exact Hf|]. left. apply Rinv_0_lt_compat.
    apply Rmult_lt_0_compat; [|exact Sy]. apply Rmult_lt_0_compat; [|exact Sx].
    generalize PI_RGT_0; lra.
  - apply exp_le_mono. lra.
Qed.

Lemma gaussian_psf_nonneg x y flux x_0 y_0 xf yf theta :
  0 <= flux -> 0 < xf -> 0 < yf -> 0 <= gaussian_psf x y flux x_0 y_0 xf yf theta.
Proof.
  intros Hf Hx Hy. rewrite gaussian_psf_unit_form by assumption.
  assert (Sx := cg_sigma_pos xf Hx). assert (Sy := cg_sigma_pos yf Hy).
  apply Rmult_le_pos; [|left; apply exp_pos].
  apply Rmult_le_pos; [exact Hf|]. left. apply Rinv_0_lt_compat.
  apply Rmult_lt_0_compat; [|exact Sy]. apply Rmult_lt_0_compat; [|exact Sx].
  generalize PI_RGT_0; lra.
Qed.

Lemma gaussian_psf_peak_at_centre x y flux x_0 y_0 xf yf theta :
  0 <= flux -> 0 < xf -> 0 < yf ->
  gaussian_psf x y flux x_0 y_0 xf yf theta <= gaussian_psf x_0 y_0 flux x_0 y_0 xf yf theta.
Proof.
  intros Hf Hx Hy. apply gaussian_psf_elliptically_decreasing; try assumption.
  unfold ell_rsq at 1. unfold ell_u, ell_v.
  replace (((x_0 - x_0) * cos (deg2rad theta) + (y_0 - y_0) * sin (deg2rad theta)) / cg_sigma xf)
    with 0 by (unfold Rdiv; ring).
  replace ((- (x_0 - x_0) * sin (deg2rad theta) + (y_0 - y_0) * cos (deg2rad theta)) / cg_sigma yf)
    with 0 by (unfold Rdiv; ring).
  unfold ell_rsq.
  generalize (pow2_ge_0 (ell_u x_0 y_0 (cg_sigma xf) theta x y))
             (pow2_ge_0 (ell_v x_0 y_0 (cg_sigma yf) theta x y)). lra.
Qed.

(* 6c. normalisation in polar form, stated on the transcribed models along an arbitrary ray
       (x_0 + r cos phi, y_0 + r sin phi) *)
Lemma cg_psf_shell flux x_0 y_0 fwhm phi r :
  0 < fwhm ->
  2 * PI * r * circular_gaussian_psf (x_0 + r * cos phi) (y_0 + r * sin phi) flux x_0 y_0 fwhm
  = gauss_shell flux (cg_sigma fwhm) r.
Proof. intro Hf. unfold gauss_shell. rewrite cg_psf_on_ray by exact Hf. reflexivity. Qed.

Lemma moffat_psf_shell flux x_0 y_0 alpha beta phi r :
  2 * PI * r * moffat_psf (x_0 + r * cos phi) (y_0 + r * sin phi) flux x_0 y_0 alpha beta
  = moffat_shell flux alpha beta r.
Proof. unfold moffat_shell. rewrite moffat_psf_on_ray. reflexivity. Qed.

Lemma cg_psf_encircled_polar flux x_0 y_0 fwhm phi rad :
  0 < fwhm ->
  is_RInt (fun r => 2 * PI * r *
             circular_gaussian_psf (x_0 + r * cos phi) (y_0 + r * sin phi) flux x_0 y_0 fwhm)
          0 rad (gauss_encircled flux (cg_sigma fwhm) rad).
Proof.
  intro Hf. apply (is_RInt_ext (gauss_shell flux (cg_sigma fwhm))).
  - intros r _. symmetry. apply cg_psf_shell, Hf.
  - apply gauss_shell_RInt, cg_sigma_pos, Hf.
Qed.

Lemma cg_psf_normalised_polar flux x_0 y_0 fwhm phi :
  0 < fwhm ->
  is_RInt_gen (fun r => 2 * PI * r *
                 circular_gaussian_psf (x_0 + r * cos phi) (y_0 + r * sin phi) flux x_0 y_0 fwhm)
              (at_point 0) (Rbar_locally p_infty) flux.
Proof.
  intro Hf. apply (is_RInt_gen_from_partial _ (gauss_encircled flux (cg_sigma fwhm))).
  - intro b. apply cg_psf_encircled_polar, Hf.
  - apply is_lim_filterlim_p_infty, gauss_encircled_lim, cg_sigma_pos, Hf.
Qed.

Lemma moffat_psf_encircled_polar flux x_0 y_0 alpha beta phi rad :
  0 < alpha ->
  is_RInt (fun r => 2 * PI * r *
             moffat_psf (x_0 + r * cos phi) (y_0 + r * sin phi) flux x_0 y_0 alpha beta)
          0 rad (moffat_encircled flux alpha beta rad).
Proof.
  intro Ha. apply (is_RInt_ext (moffat_shell flux alpha beta)).
  - intros r _. symmetry. apply moffat_psf_shell.
  - apply moffat_shell_RInt, Ha.
Qed.

Lemma moffat_psf_normalised_polar flux x_0 y_0 alpha beta phi :
  0 < alpha -> 1 < beta ->
  is_RInt_gen (fun r => 2 * PI * r *
                 moffat_psf (x_0 + r * cos phi) (y_0 + r * sin phi) flux x_0 y_0 alpha beta)
              (at_point 0) (Rbar_locally p_infty) flux.
Proof.
  intros Ha Hb. apply (is_RInt_gen_from_partial _ (moffat_encircled flux alpha beta)).
  - intro b. apply moffat_psf_encircled_polar, Ha.
  - apply is_lim_filterlim_p_infty, moffat_encircled_lim; assumption.
Qed.

(* GaussianPSF: in the coordinates (u, v) = (r cos phi, r sin phi) of the unit circular
   Gaussian, with the Jacobian sigma_x sigma_y of the change of variables *)
Lemma gaussian_psf_shell flux x_0 y_0 xf yf theta phi r :
  0 < xf -> 0 < yf ->
  2 * PI * r *
  (gaussian_psf (ell_x x_0 (cg_sigma xf) (cg_sigma yf) theta (r * cos phi) (r * sin phi))
                (ell_y y_0 (cg_sigma xf) (cg_sigma yf) theta (r * cos phi) (r * sin phi))
                flux x_0 y_0 xf yf theta
   * ell_jacobian (cg_sigma xf) (cg_sigma yf) theta)
  = gauss_shell flux 1 r.
Proof.
  intros Hx Hy. rewrite gaussian_psf_affine_image by assumption.
  unfold gauss_shell. f_equal.
  assert (F : 0 < 1 / GAUSSIAN_FWHM_TO_SIGMA).
  { apply Rdiv_lt_0_compat; [lra | exact f2s_pos]. }
  replace (r * cos phi) with (0 + r * cos phi) by ring.
  replace (r * sin phi) with (0 + r * sin phi) by ring.
  rewrite (cg_psf_on_ray flux 0 0 _ phi r F). rewrite unit_fwhm_sigma. reflexivity.
Qed.

Lemma gaussian_psf_encircled_polar flux x_0 y_0 xf yf theta phi rad :
  0 < xf -> 0 < yf ->
  is_RInt (fun r => 2 * PI * r *
    (gaussian_psf (ell_x x_0 (cg_sigma xf) (cg_sigma yf) theta (r * cos phi) (r * sin phi))
                  (ell_y y_0 (cg_sigma xf) (cg_sigma yf) theta (r * cos phi) (r * sin phi))
                  flux x_0 y_0 xf yf theta
     * ell_jacobian (cg_sigma xf) (cg_sigma yf) theta))
    0 rad (gauss_encircled flux 1 rad).
Proof.
  intros Hx Hy. apply (is_RInt_ext (gauss_shell flux 1)).
  - intros r _. symmetry. apply gaussian_psf_shell; assumption.
  - apply gauss_shell_RInt. lra.
Qed.

Lemma gaussian_psf_normalised_polar flux x_0 y_0 xf yf theta phi :
  0 < xf -> 0 < yf ->
  is_RInt_gen (fun r => 2 * PI * r *
    (gaussian_psf (ell_x x_0 (cg_sigma xf) (cg_sigma yf) theta (r * cos phi) (r * sin phi))
                  (ell_y y_0 (cg_sigma xf) (cg_sigma yf) theta (r * cos phi) (r * sin phi))
                  flux x_0 y_0 xf yf theta
     * ell_jacobian (cg_sigma xf) (cg_sigma yf) theta))
    (at_point 0) (Rbar_locally p_infty) flux.
Proof.
  intros Hx Hy. apply (is_RInt_gen_from_partial _ (gauss_encircled flux 1)).
  - intro b. apply gaussian_psf_encircled_polar; assumption.
  - apply is_lim_filterlim_p_infty, gauss_encircled_lim. lra.
Qed.

(* ------------------------------------------------------------------ *)
(* 7. packaged statements (as quoted by C13R_Properties.v)              *)
(* ------------------------------------------------------------------ *)
Lemma f2s_constant : 0 < GAUSSIAN_FWHM_TO_SIGMA /\ GAUSSIAN_FWHM_TO_SIGMA ^ 2 = 1 / (8 * ln 2).
Proof. split; [exact f2s_pos | exact f2s_sqr]. Qed.

Lemma gauss_half_flux_within_fwhm flux fwhm :
  0 < fwhm -> gauss_encircled flux (cg_sigma fwhm) (fwhm / 2) = flux / 2.
Proof.
  intro Hf. unfold gauss_encircled. assert (L := ln2_pos).
  replace (- (fwhm / 2) ^ 2 / (2 * cg_sigma fwhm ^ 2)) with (- ln 2).
  - rewrite exp_m_ln2. field.
  - unfold cg_sigma. rewrite Rpow_mult_distr, f2s_sqr. field. lra.
Qed.

Lemma moffat_half_flux_radius flux alpha beta :
  0 < alpha -> 1 < beta ->
  moffat_encircled flux alpha beta (alpha * sqrt (Rpower 2 (1 / (beta - 1)) - 1)) = flux / 2.
Proof.
  intros Ha Hb. unfold moffat_encircled.
  assert (G := two_pow_inv_ge_1 (beta - 1)). assert (0 < beta - 1) as Hb1 by lra.
  specialize (G Hb1).
  replace (1 + (alpha * sqrt (Rpower 2 (1 / (beta - 1)) - 1)) ^ 2 / alpha ^ 2)
    with (Rpower 2 (1 / (beta - 1))).
  - rewrite Rpower_mult.
    replace (Rpower 2 (1 / (beta - 1) * (1 - beta))) with (/ 2); [field|].
    unfold Rpower. replace (1 / (beta - 1) * (1 - beta) * ln 2) with (- ln 2) by (field; lra).
    symmetry. apply exp_m_ln2.
  - rewrite Rpow_mult_distr, pow2_sqrt by lra. field. lra.
Qed.

(* GaussianPSF: half maximum at distance x_fwhm/2 along the rotated x axis and y_fwhm/2 along
   the rotated y axis *)
Lemma ell_uv_centre x_0 y_0 sx sy theta :
  ell_u x_0 y_0 sx theta x_0 y_0 = 0 /\ ell_v x_0 y_0 sy theta x_0 y_0 = 0.
Proof. unfold ell_u, ell_v, Rdiv. split; ring. Qed.

Lemma ell_uv_x_axis x_0 y_0 sx sy theta d :
  ell_u x_0 y_0 sx theta (x_0 + d * cos (deg2rad theta)) (y_0 + d * sin (deg2rad theta)) = d / sx /\
  ell_v x_0 y_0 sy theta (x_0 + d * cos (deg2rad theta)) (y_0 + d * sin (deg2rad theta)) = 0.
Proof.
  unfold ell_u, ell_v.
  set (c := cos (deg2rad theta)). set (s := sin (deg2rad theta)).
  assert (E : s * s + c * c = 1) by apply sin2_cos2. split.
  - replace ((x_0 + d * c - x_0) * c + (y_0 + d * s - y_0) * s) with (d * (s * s + c * c)) by ring.
    rewrite E, Rmult_1_r. reflexivity.
  - unfold Rdiv. ring.
Qed.

Lemma ell_uv_y_axis x_0 y_0 sx sy theta d :
  ell_u x_0 y_0 sx theta (x_0 - d * sin (deg2rad theta)) (y_0 + d * cos (deg2rad theta)) = 0 /\
  ell_v x_0 y_0 sy theta (x_0 - d * sin (deg2rad theta)) (y_0 + d * cos (deg2rad theta)) = d / sy.
Proof.
  unfold ell_u, ell_v.
  set (c := cos (deg2rad theta)). set (s := sin (deg2rad theta)).
  assert (E : s * s + c * c = 1) by apply sin2_cos2. split.
  - unfold Rdiv. ring.
  - replace (- (x_0 - d * s - x_0) * s + (y_0 + d * c - y_0) * c) with (d * (s * s + c * c)) by ring.
    rewrite E, Rmult_1_r. reflexivity.
Qed.

Lemma gaussian_psf_centre_value flux x_0 y_0 xf yf theta :
  0 < xf -> 0 < yf ->
  gaussian_psf x_0 y_0 flux x_0 y_0 xf yf theta = flux / (2 * PI * cg_sigma xf * cg_sigma yf).
Proof.
  intros Hx Hy. rewrite gaussian_psf_unit_form by assumption.
  destruct (ell_uv_centre x_0 y_0 (cg_sigma xf) (cg_sigma yf) theta) as [-> ->].
  replace (- (0 ^ 2 + 0 ^ 2) / 2) with 0 by (unfold Rdiv; ring).
  rewrite exp_0. ring.
Qed.

Lemma half_fwhm_exponent fwhm :
  0 < fwhm -> - ((fwhm / 2 / cg_sigma fwhm) ^ 2 + 0 ^ 2) / 2 = - ln 2.
Proof.
  intro Hf. assert (L := ln2_pos). unfold cg_sigma.
  replace (- ((fwhm / 2 / (fwhm * GAUSSIAN_FWHM_TO_SIGMA)) ^ 2 + 0 ^ 2) / 2)
    with (- (1 / (8 * GAUSSIAN_FWHM_TO_SIGMA ^ 2))) by (field; generalize f2s_pos; lra).
  rewrite f2s_sqr. field. lra.
Qed.

Lemma gaussian_psf_fwhm_half_max_x flux x_0 y_0 xf yf theta :
  0 < xf -> 0 < yf ->
  gaussian_psf (x_0 + xf / 2 * cos (deg2rad theta)) (y_0 + xf / 2 * sin (deg2rad theta))
               flux x_0 y_0 xf yf theta
  = gaussian_psf x_0 y_0 flux x_0 y_0 xf yf theta / 2.
Proof.
  intros Hx Hy. rewrite gaussian_psf_centre_value by assumption.
  rewrite gaussian_psf_unit_form by assumption.
  destruct (ell_uv_x_axis x_0 y_0 (cg_sigma xf) (cg_sigma yf) theta (xf / 2)) as [-> ->].
  rewrite half_fwhm_exponent by exact Hx. rewrite exp_m_ln2. reflexivity.
Qed.

Lemma gaussian_psf_fwhm_half_max_y flux x_0 y_0 xf yf theta :
  0 < xf -> 0 < yf ->
  gaussian_psf (x_0 - yf / 2 * sin (deg2rad theta)) (y_0 + yf / 2 * cos (deg2rad theta))
               flux x_0 y_0 xf yf theta
  = gaussian_psf x_0 y_0 flux x_0 y_0 xf yf theta / 2.
Proof.
  intros Hx Hy. rewrite gaussian_psf_centre_value by assumption.
  rewrite gaussian_psf_unit_form by assumption.
  destruct (ell_uv_y_axis x_0 y_0 (cg_sigma xf) (cg_sigma yf) theta (yf / 2)) as [-> ->].
  replace (0 ^ 2 + (yf / 2 / cg_sigma yf) ^ 2) with ((yf / 2 / cg_sigma yf) ^ 2 + 0 ^ 2) by ring.
  rewrite half_fwhm_exponent by exact Hy. rewrite exp_m_ln2. reflexivity.
Qed.

(* ------------------------------------------------------------------ *)
(* 8. more packaged statements                                          *)
(* ------------------------------------------------------------------ *)
Lemma ell_change_of_variables_bijective x_0 y_0 sx sy theta :
  sx <> 0 -> sy <> 0 ->
  (forall u v,
     ell_u x_0 y_0 sx theta (ell_x x_0 sx sy theta u v) (ell_y y_0 sx sy theta u v) = u /\
     ell_v x_0 y_0 sy theta (ell_x x_0 sx sy theta u v) (ell_y y_0 sx sy theta u v) = v) /\
  (forall x y,
     ell_x x_0 sx sy theta (ell_u x_0 y_0 sx theta x y) (ell_v x_0 y_0 sy theta x y) = x /\
     ell_y y_0 sx sy theta (ell_u x_0 y_0 sx theta x y) (ell_v x_0 y_0 sy theta x y) = y).
Proof.
  intros Hx Hy. split.
  - intros u v. split; [apply ell_u_of_image, Hx | apply ell_v_of_image, Hy].
  - intros x y. apply ell_image_of_uv; assumption.
Qed.

Lemma ell_jacobian_is_sx_sy x_0 y_0 sx sy theta u v :
  is_derive (fun u => ell_x x_0 sx sy theta u v) u (sx * cos (deg2rad theta)) /\
  is_derive (fun v => ell_x x_0 sx sy theta u v) v (- sy * sin (deg2rad theta)) /\
  is_derive (fun u => ell_y y_0 sx sy theta u v) u (sx * sin (deg2rad theta)) /\
  is_derive (fun v => ell_y y_0 sx sy theta u v) v (sy * cos (deg2rad theta)) /\
  ell_jacobian sx sy theta = sx * sy.
Proof.
  destruct (ell_partials x_0 y_0 sx sy theta u v) as [A [B [C D]]].
  repeat (split; [assumption|]). apply ell_jacobian_value.
Qed.

Lemma shell_antiderivatives :
  (forall flux sigma r, 0 < sigma ->
     is_derive (gauss_shell_prim flux sigma) r (gauss_shell flux sigma r)) /\
  (forall flux alpha beta r, 0 < alpha ->
     is_derive (moffat_shell_prim flux alpha beta) r (moffat_shell flux alpha beta r)).
Proof.
  split; intros; [apply gauss_shell_prim_derive | apply moffat_shell_prim_derive]; assumption.
Qed.

Lemma shell_integrals_closed_form :
  (forall flux sigma rad, 0 < sigma ->
     is_RInt (gauss_shell flux sigma) 0 rad (gauss_encircled flux sigma rad)) /\
  (forall flux alpha beta rad, 0 < alpha ->
     is_RInt (moffat_shell flux alpha beta) 0 rad (moffat_encircled flux alpha beta rad)).
Proof.
  split; intros; [apply gauss_shell_RInt | apply moffat_shell_RInt]; assumption.
Qed.

Lemma gauss_encircled_monotone_bounded flux sigma :
  0 <= flux -> 0 < sigma ->
  (forall r1 r2, 0 <= r1 <= r2 -> gauss_encircled flux sigma r1 <= gauss_encircled flux sigma r2) /\
  (forall rad, 0 <= gauss_encircled flux sigma rad <= flux) /\
  (0 < flux -> forall rad, gauss_encircled flux sigma rad < flux) /\
  (forall r, 0 <= r -> 0 <= gauss_shell flux sigma r).
Proof.
  intros Hf Hs. repeat split.
  - intros. apply gauss_encircled_mono; assumption.
  - apply gauss_encircled_bounds; assumption.
  - apply gauss_encircled_bounds; assumption.
  - intros. apply gauss_encircled_lt_flux; assumption.
  - intros. apply gauss_shell_nonneg; assumption.
Qed.

Lemma moffat_encircled_monotone_bounded flux alpha beta :
  0 <= flux -> 0 < alpha -> 1 <= beta ->
  (forall r1 r2, 0 <= r1 <= r2 ->
     moffat_encircled flux alpha beta r1 <= moffat_encircled flux alpha beta r2) /\
  (forall rad, 0 <= moffat_encircled flux alpha beta rad <= flux) /\
  (0 < flux -> forall rad, moffat_encircled flux alpha beta rad < flux) /\
  (forall r, 0 <= r -> 0 <= moffat_shell flux alpha beta r).
Proof.
  intros Hf Ha Hb. repeat split.
  - intros. apply moffat_encircled_mono; assumption.
  - apply moffat_encircled_bounds; assumption.
  - apply moffat_encircled_bounds; assumption.
  - intros. apply moffat_encircled_lt_flux; assumption.
  - intros. apply moffat_shell_nonneg; assumption.
Qed.

Lemma cg_psf_shape x y x' y' flux x_0 y_0 fwhm :
  0 < fwhm ->
  (0 <= flux -> 0 <= circular_gaussian_psf x y flux x_0 y_0 fwhm) /\
  (0 <= flux ->
     circular_gaussian_psf x y flux x_0 y_0 fwhm <= circular_gaussian_psf x_0 y_0 flux x_0 y_0 fwhm) /\
  (0 <= flux -> rsq x y x_0 y_0 <= rsq x' y' x_0 y_0 ->
     circular_gaussian_psf x' y' flux x_0 y_0 fwhm <= circular_gaussian_psf x y flux x_0 y_0 fwhm) /\
  (0 < flux -> rsq x y x_0 y_0 < rsq x' y' x_0 y_0 ->
     circular_gaussian_psf x' y' flux x_0 y_0 fwhm < circular_gaussian_psf x y flux x_0 y_0 fwhm).
Proof.
  intro Hw. repeat split; intros.
  - apply cg_psf_nonneg; assumption.
  - apply cg_psf_peak_at_centre; assumption.
  - apply cg_psf_radially_decreasing; assumption.
  - apply cg_psf_radially_strictly_decreasing; assumption.
Qed.

Lemma moffat_psf_shape x y x' y' flux x_0 y_0 alpha beta :
  0 < alpha ->
  (0 <= flux -> 1 <= beta -> 0 <= moffat_psf x y flux x_0 y_0 alpha beta) /\
  (0 <= flux -> 1 <= beta ->
     moffat_psf x y flux x_0 y_0 alpha beta <= moffat_psf x_0 y_0 flux x_0 y_0 alpha beta) /\
  (0 <= flux -> 1 <= beta -> rsq x y x_0 y_0 <= rsq x' y' x_0 y_0 ->
     moffat_psf x' y' flux x_0 y_0 alpha beta <= moffat_psf x y flux x_0 y_0 alpha beta) /\
  (0 < flux -> 1 < beta -> rsq x y x_0 y_0 < rsq x' y' x_0 y_0 ->
     moffat_psf x' y' flux x_0 y_0 alpha beta < moffat_psf x y flux x_0 y_0 alpha beta).
Proof.
  intro Ha. repeat split; intros.
  - apply moffat_psf_nonneg; assumption.
  - apply moffat_psf_peak_at_centre; assumption.
  - apply moffat_psf_radially_decreasing; assumption.
  - apply moffat_psf_radially_strictly_decreasing; assumption.
Qed.

Lemma gaussian_psf_shape x y x' y' flux x_0 y_0 xf yf theta :
  0 <= flux -> 0 < xf -> 0 < yf ->
  0 <= gaussian_psf x y flux x_0 y_0 xf yf theta /\
  gaussian_psf x y flux x_0 y_0 xf yf theta <= gaussian_psf x_0 y_0 flux x_0 y_0 xf yf theta /\
  (ell_rsq x_0 y_0 (cg_sigma xf) (cg_sigma yf) theta x y
   <= ell_rsq x_0 y_0 (cg_sigma xf) (cg_sigma yf) theta x' y' ->
   gaussian_psf x' y' flux x_0 y_0 xf yf theta <= gaussian_psf x y flux x_0 y_0 xf yf theta).
Proof.
  intros Hf Hx Hy. repeat split.
  - apply gaussian_psf_nonneg; assumption.
  - apply gaussian_psf_peak_at_centre; assumption.
  - intro. apply gaussian_psf_elliptically_decreasing; assumption.
Qed.

Lemma gaussian_psf_fwhm_half_max flux x_0 y_0 xf yf theta :
  0 < xf -> 0 < yf ->
  gaussian_psf (x_0 + xf / 2 * cos (deg2rad theta)) (y_0 + xf / 2 * sin (deg2rad theta))
               flux x_0 y_0 xf yf theta
  = gaussian_psf x_0 y_0 flux x_0 y_0 xf yf theta / 2 /\
  gaussian_psf (x_0 - yf / 2 * sin (deg2rad theta)) (y_0 + yf / 2 * cos (deg2rad theta))
               flux x_0 y_0 xf yf theta
  = gaussian_psf x_0 y_0 flux x_0 y_0 xf yf theta / 2.
Proof.
  intros Hx Hy. split;
    [apply gaussian_psf_fwhm_half_max_x | apply gaussian_psf_fwhm_half_max_y]; assumption.
Qed.

Lemma encircled_limits :
  (forall flux sigma, 0 < sigma -> is_lim (gauss_encircled flux sigma) p_infty flux) /\
  (forall flux alpha beta, 0 < alpha -> 1 < beta ->
     is_lim (moffat_encircled flux alpha beta) p_infty flux).
Proof.
  split; intros; [apply gauss_encircled_lim | apply moffat_encircled_lim]; assumption.
Qed.

Lemma moffat_fwhm_half_max_and_pos x y flux x_0 y_0 alpha beta :
  0 < alpha -> 0 < beta ->
  0 < moffat_fwhm alpha beta /\
  (rsq x y x_0 y_0 = (moffat_fwhm alpha beta / 2) ^ 2 ->
   moffat_psf x y flux x_0 y_0 alpha beta = moffat_psf x_0 y_0 flux x_0 y_0 alpha beta / 2).
Proof.
  intros Ha Hb. split; [apply moffat_fwhm_pos; assumption|].
  intro. apply moffat_psf_fwhm_half_max; assumption.
Qed.
