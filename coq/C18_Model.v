(* C18 — model of photutils.datasets.make_model_image (images.py:226-334, after the
   fixes C18-1/C18-2), of the window computation it uses
   (photutils.utils.cutouts._overlap_slices -> astropy.nddata.overlap_slices(mode='trim'))
   and of ModelImageMixin.make_residual_image (np.subtract(data, model_image)).

   Scaling.  Every parameter value / table entry v is handed over as the integer 8*v
   (positions are multiples of 1/8 pixel), pixel values as 65536*v.  Shapes and pixel
   indices are plain integers.

   Not modelled (section variables, any function allowed):
     ev st y x      value of the discretised model with parameter state st at pixel (y,x)
                    (center / linear_interp / oversample / integrate all have this form:
                    the value of a pixel does not depend on the extent of the window)
     bbox_shape f st  _model_shape_from_bbox(model, bbox_factor=f) for parameter state st
     ev_unit st     output unit of the model (None = plain float array)
   The correspondence instantiates them with the polynomial test model of harness/c18.py.

   File layout: python dicts; table / config; assign; overlap_slices; images; Section Render
   (the repaired loop [render], [residual]); vocabulary of the property statement (Section
   Spec: rstate, in_box, in_window, term, overlaps, accepted, units_uniform); the UNREPAIRED
   loop [render_orig] (only for the refutation witnesses and for the tie to /repo HEAD); the
   polynomial test model; the correspondence ([case], [check_case], [check_case_orig]).

   Python dicts are association lists with dict semantics ([dset] replaces in place or
   appends).  The iteration order of the set intersection at images.py:240 is modelled by
   the order of param_names; it only influences which of several ValueErrors would be
   raised first and the (irrelevant) order of the setattr calls on distinct keys. *)
From Coq Require Import List ZArith Bool String Lia.
From PV Require Import lib.Cases.
Import ListNotations.
Open Scope Z_scope.

(* ---------- python dict ---------- *)
Definition dict (V : Type) := list (string * V).
Fixpoint dget {V} (k : string) (d : dict V) : option V :=
  match d with
  | [] => None
  | (k', v) :: r => if String.eqb k k' then Some v else dget k r
  end.
Fixpoint dset {V} (k : string) (v : V) (d : dict V) : dict V :=
  match d with
  | [] => [(k, v)]
  | (k', v') :: r => if String.eqb k k' then (k, v) :: r else (k', v') :: dset k v r
  end.
Definition dupdate {V} (d e : dict V) : dict V :=
  fold_left (fun acc kv => dset (fst kv) (snd kv) acc) e d.
Definition smem (s : string) (l : list string) : bool := existsb (String.eqb s) l.

(* ---------- table, model, arguments ---------- *)
Definition pstate := dict Z.                    (* model parameters: name -> 8*value *)
Record row := { rvals : list Z;                 (* entries of the value columns, 8*value *)
                rshape : Z * Z;                 (* entry of the 'model_shape' column (ny, nx) *)
                rbkg : Z }.                     (* entry of the 'local_bkg' column, 65536*value *)
Record table := { colnames : list string;       (* value columns *)
                  has_shape_col : bool; has_bkg_col : bool;
                  rows : list row }.
Record config := {
  ny : Z; nx : Z;
  pinit : pstate;                  (* the input model's parameters, in param_names order *)
  has_bbox : bool;                 (* model.bounding_box is implemented *)
  x_name : string; y_name : string;
  pmap : option (dict string);     (* params_map argument *)
  mshape : option (Z * Z);         (* model_shape argument after as_pair *)
  bfactor : option Z }.            (* bbox_factor argument (2*factor) *)

Definition pnames (c : config) := map fst (pinit c).
Definition pget (k : string) (st : pstate) : Z := match dget k st with Some v => v | None => 0 end.

Fixpoint col_index (c : string) (cols : list string) : nat :=
  match cols with [] => 0%nat | a :: r => if String.eqb c a then 0%nat else S (col_index c r) end.
(* source[param] *)
Definition rget (cols : list string) (r : row) (c : string) : Z := nth (col_index c cols) (rvals r) 0.

(* images.py:236-247 *)
Definition build_map (c : config) (t : table) : dict string :=
  let m0 := dset (y_name c) (y_name c) (dset (x_name c) (x_name c) []) in
  let matched := filter (fun p => smem p (colnames t)) (pnames c) in
  let m1 := fold_left (fun acc p => dset p p acc) matched m0 in
  match pmap c with None => m1 | Some pm => dupdate m1 pm end.
(* images.py:249-254 *)
Definition valid_map (c : config) (t : table) (m : dict string) : bool :=
  forallb (fun kv => smem (fst kv) (pnames c) && smem (snd kv) (colnames t)) m.

(* images.py:288-289: setattr(model, key, source[param]) for every mapped parameter *)
Definition assign (m : dict string) (cols : list string) (r : row) (st : pstate) : pstate :=
  fold_left (fun s kv => dset (fst kv) (rget cols r (snd kv)) s) m st.

(* ---------- astropy overlap_slices(mode='trim') + zero-size patch ---------- *)
Definition cdiv (a b : Z) : Z := - ((- a) / b).
(* int(np.ceil(pos - small_shape / 2.0)), pos = pos8/8 *)
Definition e_min (pos8 sh : Z) : Z := cdiv (2 * pos8 - 8 * sh) 16.
Definition window := ((Z * Z) * (Z * Z))%type.      (* ((ylo, yhi), (xlo, xhi)) half-open *)
(* None = NoOverlapError *)
Definition overlap_slices (ny nx : Z) (sh : Z * Z) (y8 x8 : Z) : option window :=
  let '(shy, shx) := sh in
  let ymin := e_min y8 shy in let xmin := e_min x8 shx in
  let ymax := ymin + shy in let xmax := xmin + shx in
  let nz := negb ((shy =? 0) && (shx =? 0)) in           (* small_array_shape != (0, 0) *)
  if (ymax <? 0) || ((ymax =? 0) && nz) || ((xmax <? 0) || ((xmax =? 0) && nz)) then None
  else if (ny <=? ymin) || (nx <=? xmin) then None
  else
    let ylo := Z.max 0 ymin in let yhi := Z.min ny ymax in
    let xlo := Z.max 0 xmin in let xhi := Z.min nx xmax in
    (* photutils.utils.cutouts._overlap_slices: zero-size slice -> NoOverlapError *)
    if (yhi - ylo =? 0) || (xhi - xlo =? 0) then None
    else Some ((ylo, yhi), (xlo, xhi)).

(* ---------- images ---------- *)
Definition image := list (list Z).
Fixpoint mapi_from {A B} (f : Z -> A -> B) (i : Z) (l : list A) : list B :=
  match l with [] => [] | a :: r => f i a :: mapi_from f (i + 1) r end.
Definition in_rng (lo hi i : Z) : bool := (lo <=? i) && (i <? hi).
(* image[slc] += f on the window *)
Definition add_window (img : image) (w : window) (f : Z -> Z -> Z) : image :=
  let '((ylo, yhi), (xlo, xhi)) := w in
  mapi_from (fun y rowv =>
               if in_rng ylo yhi y
               then mapi_from (fun x v => if in_rng xlo xhi x then v + f y x else v) 0 rowv
               else rowv) 0 img.
Definition zeros (ny nx : Z) : image := repeat (repeat 0 (Z.to_nat nx)) (Z.to_nat ny).
Definition pixel (img : image) (y x : Z) : Z := nth (Z.to_nat x) (nth (Z.to_nat y) img []) 0.

Inductive result := Err | Img (unit : option Z) (img : image).

Section Render.
Variable ev : pstate -> Z -> Z -> Z.
Variable bbox_shape : option Z -> pstate -> Z * Z.
Variable ev_unit : pstate -> option Z.
Variable c : config.
Variable t : table.

(* the loop body images.py:287-332; acc = (i, model copy, image, unit tag) *)
Definition step (m : dict string) (shapes : list (Z * Z)) (bkgs : list Z)
           (acc : nat * pstate * image * option Z) (r : row) : nat * pstate * image * option Z :=
  let '(i, st, img, u) := acc in
  let st' := assign m (colnames t) r st in
  let x0 := pget (x_name c) st' in
  let y0 := pget (y_name c) st' in
  let u' := if Nat.eqb i 0 then ev_unit st' else u in       (* fix C18-1 *)
  let sh := if has_shape_col t then nth i shapes (0, 0)
            else match mshape c with
                 | None => bbox_shape (bfactor c) st'
                 | Some s => s
                 end in
  match overlap_slices (ny c) (nx c) sh y0 x0 with
  | None => (S i, st', img, u')                                 (* except NoOverlapError: continue *)
  | Some w => (S i, st', add_window img w (fun y x => ev st' y x + nth i bkgs 0), u')
  end.

Definition render : result :=
  let m := build_map c t in
  if negb (valid_map c t m) then Err
  else if negb (has_shape_col t) && negb (has_bbox c)
          && match mshape c with None => true | Some _ => false end then Err
  else
    let shapes := map rshape (rows t) in
    let bkgs := if has_bkg_col t then map rbkg (rows t) else repeat 0 (List.length (rows t)) in
    let '(_, _, img, u) :=
      fold_left (step m shapes bkgs) (rows t) (0%nat, pinit c, zeros (ny c) (nx c), None) in
    Img u img.

(* make_residual_image: np.subtract(data, model_image) *)
Definition sub_image (a b : image) : image :=
  map (fun ab => map (fun vw => fst vw - snd vw) (combine (fst ab) (snd ab))) (combine a b).
Definition residual (data : image) : option image :=
  match render with Err => None | Img _ img => Some (sub_image data img) end.
End Render.

(* ---------- vocabulary of the property statement (used by C18_Proofs / C18_Properties) ----------
   None of this is used by [render]; the theorems relate [render] to it. *)
Definition with_rows (t : table) (l : list row) : table :=
  {| colnames := colnames t; has_shape_col := has_shape_col t; has_bkg_col := has_bkg_col t; rows := l |}.
Definition with_shape (c : config) (ny' nx' : Z) : config :=
  {| ny := ny'; nx := nx'; pinit := pinit c; has_bbox := has_bbox c; x_name := x_name c; y_name := y_name c;
     pmap := pmap c; mshape := mshape c; bfactor := bfactor c |}.

Section Spec.
Variable ev : pstate -> Z -> Z -> Z.
Variable bbox_shape : option Z -> pstate -> Z * Z.
Variable ev_unit : pstate -> option Z.
Variable c : config.
Variable t : table.
(* the parameters of the model for one row: the INPUT model's parameters with the mapped
   ones replaced by the row's entries (no dependence on the rows rendered before) *)
Definition rstate (r : row) : pstate := assign (build_map c t) (colnames t) r (pinit c).
Definition row_y8 (r : row) : Z := pget (y_name c) (rstate r).
Definition row_x8 (r : row) : Z := pget (x_name c) (rstate r).
Definition shape_of (r : row) : Z * Z :=
  if has_shape_col t then rshape r
  else match mshape c with None => bbox_shape (bfactor c) (rstate r) | Some s => s end.
Definition bkg_of (r : row) : Z := if has_bkg_col t then rbkg r else 0.
(* pixel centre k lies in the half-open box of [sh] pixels centred on pos = pos8/8:
   pos - sh/2 <= k < pos + sh/2 *)
Definition in_box (pos8 sh k : Z) : Prop := 2 * pos8 - 8 * sh <= 16 * k < 2 * pos8 + 8 * sh.
Definition in_boxb (pos8 sh k : Z) : bool := (2 * pos8 - 8 * sh <=? 16 * k) && (16 * k <? 2 * pos8 + 8 * sh).
(* pixel (y, x) belongs to the row's model_shape window clipped to the image *)
Definition in_window (r : row) (y x : Z) : Prop :=
  0 <= y < ny c /\ 0 <= x < nx c /\
  in_box (row_y8 r) (fst (shape_of r)) y /\ in_box (row_x8 r) (snd (shape_of r)) x.
Definition in_windowb (r : row) (y x : Z) : bool :=
  in_rng 0 (ny c) y && in_rng 0 (nx c) x &&
  in_boxb (row_y8 r) (fst (shape_of r)) y && in_boxb (row_x8 r) (snd (shape_of r)) x.
(* what one row contributes to pixel (y, x) *)
Definition term (y x : Z) (r : row) : Z :=
  if in_windowb r y x then ev (rstate r) y x + bkg_of r else 0.
Definition overlaps (r : row) : bool :=
  match overlap_slices (ny c) (nx c) (shape_of r) (row_y8 r) (row_x8 r) with None => false | Some _ => true end.
(* the call is accepted (no ValueError) *)
Definition accepted : bool :=
  valid_map c t (build_map c t)
  && negb (negb (has_shape_col t) && negb (has_bbox c) && match mshape c with None => true | Some _ => false end).
Definition units_uniform : Prop :=
  forall r r', In r (rows t) -> In r' (rows t) -> ev_unit (rstate r) = ev_unit (rstate r').
End Spec.

Definition zsum (l : list Z) : Z := fold_right Z.add 0 l.
Definition rect (ny nx : Z) (img : image) : Prop :=
  List.length img = Z.to_nat ny /\ Forall (fun r => List.length r = Z.to_nat nx) img.
Definition img_add (a b : image) : image :=
  map (fun ab => map (fun vw => fst vw + snd vw) (combine (fst ab) (snd ab))) (combine a b).

(* ---------- the UNREPAIRED loop (images.py at /repo HEAD), only for the refutation witnesses ----------
   (a) the unit is attached only when row 0 overlaps; adding a Quantity sub-image to a plain
       image raises UnitTypeError (Err);
   (b) mod_shape is an ndarray whenever it comes from the model_shape argument or column, and
       astropy's test [e_max == 0 and small_array_shape != (0, 0)] then raises ValueError. *)
Inductive ov3 := OvErr | OvNone | OvSome (w : window).
Definition overlap_slices_orig (arr : bool) (ny nx : Z) (sh : Z * Z) (y8 x8 : Z) : ov3 :=
  let lift := match overlap_slices ny nx sh y8 x8 with None => OvNone | Some w => OvSome w end in
  let ymax := e_min y8 (fst sh) + fst sh in let xmax := e_min x8 (snd sh) + snd sh in
  if arr then
    if ymax <? 0 then OvNone else if ymax =? 0 then OvErr
    else if xmax <? 0 then OvNone else if xmax =? 0 then OvErr else lift
  else lift.

Section RenderOrig.
Variable ev : pstate -> Z -> Z -> Z.
Variable bbox_shape : option Z -> pstate -> Z * Z.
Variable ev_unit : pstate -> option Z.
Variable c : config.
Variable t : table.
Definition step_orig (m : dict string) (shapes : list (Z * Z)) (bkgs : list Z)
           (acc : option (nat * pstate * image * option Z)) (r : row) :=
  match acc with
  | None => None
  | Some (i, st, img, u) =>
    let st' := assign m (colnames t) r st in
    let arr := has_shape_col t || match mshape c with None => false | Some _ => true end in
    let sh := if has_shape_col t then nth i shapes (0, 0)
              else match mshape c with None => bbox_shape (bfactor c) st' | Some s => s end in
    match overlap_slices_orig arr (ny c) (nx c) sh (pget (y_name c) st') (pget (x_name c) st') with
    | OvErr => None
    | OvNone => Some (S i, st', img, u)
    | OvSome w =>
      let u' := if Nat.eqb i 0 then ev_unit st' else u in
      match ev_unit st', u' with
      | Some _, None => None                                    (* UnitTypeError *)
      | _, _ => Some (S i, st', add_window img w (fun y x => ev st' y x + nth i bkgs 0), u')
      end
    end
  end.
Definition render_orig : result :=
  let m := build_map c t in
  if negb (accepted c t) then Err
  else
    let shapes := map rshape (rows t) in
    let bkgs := if has_bkg_col t then map rbkg (rows t) else repeat 0 (List.length (rows t)) in
    match fold_left (step_orig m shapes bkgs) (rows t) (Some (0%nat, pinit c, zeros (ny c) (nx c), None)) with
    | None => Err
    | Some (_, _, img, u) => Img u img
    end.
End RenderOrig.

(* ---------- the polynomial test model of harness/c18.py ---------- *)
(* parameters by position: 0 flux, 1 x, 2 y, 3 tx, 4 ty, 5 q, 6 r *)
Definition pval (k : nat) (st : pstate) : Z := snd (nth k st (EmptyString, 0)).
(* 4096 * flux*(1 + tx*dx + ty*dy + q*dx*dx) at the point (X8/8, Y8/8) *)
Definition poly_point (st : pstate) (X8 Y8 : Z) : Z :=
  let dx := X8 - pval 1 st in let dy := Y8 - pval 2 st in
  pval 0 st * (512 + 8 * pval 3 st * dx + 8 * pval 4 st * dy + pval 5 st * dx * dx).
(* sample offsets (1/8 pixel) per axis: 0 center, 1 linear_interp (corner mean),
   2 / 4 oversample with that factor *)
Definition offsets (mode : Z) : list Z :=
  if mode =? 1 then [-4; 4] else if mode =? 2 then [-2; 2] else if mode =? 4 then [-3; -1; 1; 3] else [0].
(* 65536 * pixel value *)
Definition poly_ev (mode : Z) (st : pstate) (y x : Z) : Z :=
  let offs := offsets mode in
  let n := Z.of_nat (List.length offs) in
  (16 / (n * n)) *
  zsum (flat_map (fun oy => map (fun ox => poly_point st (8 * x + ox) (8 * y + oy)) offs) offs).
(* bounding_box(factor) = ((y-h, y+h), (x-h-1/2, x+h+1/2)), h = factor*r; f2 = 2*factor *)
Definition poly_bbox (f2 : option Z) (st : pstate) : Z * Z :=
  let f := match f2 with Some f => f | None => 2 end in
  (cdiv (f * pval 6 st) 8, cdiv (f * pval 6 st + 8) 8).

(* ---------- correspondence ---------- *)
Definition crow := (list Z * (Z * Z) * Z)%type.
Definition case :=
  ((Z * Z) * Z * (list (string * Z) * bool) * (string * string * option (list (string * string)))
   * (option (Z * Z) * option Z) * (list string * bool * bool * list crow) * option Z
   * option (option Z * list (list Z)))%type.

Definition mk_row (r : crow) : row :=
  let '(v, s, b) := r in {| rvals := v; rshape := s; rbkg := b |}.

Definition model_out (cs : case) : result :=
  let '(shape, mode, (pin, hb), (xn, yn, pm), (ms, bf), (cols, hs, hk, rws), un, _) := cs in
  render (poly_ev mode) poly_bbox (fun _ => un)
    {| ny := fst shape; nx := snd shape; pinit := pin; has_bbox := hb; x_name := xn; y_name := yn;
       pmap := pm; mshape := ms; bfactor := bf |}
    {| colnames := cols; has_shape_col := hs; has_bkg_col := hk; rows := map mk_row rws |}.

Definition check_case (cs : case) : bool :=
  let '(_, _, _, _, _, _, _, expected) := cs in
  match model_out cs, expected with
  | Err, None => true
  | Img u img, Some (u', img') => opt_eqb Z.eqb u u' && zimg_eqb img img'
  | _, _ => false
  end.

(* the same comparison against the model of the UNREPAIRED loop (run by the harness only when
   the implementation under test shows the two known defects, to tie [render_orig] to /repo HEAD) *)
Definition model_out_orig (cs : case) : result :=
  let '(shape, mode, (pin, hb), (xn, yn, pm), (ms, bf), (cols, hs, hk, rws), un, _) := cs in
  render_orig (poly_ev mode) poly_bbox (fun _ => un)
    {| ny := fst shape; nx := snd shape; pinit := pin; has_bbox := hb; x_name := xn; y_name := yn;
       pmap := pm; mshape := ms; bfactor := bf |}
    {| colnames := cols; has_shape_col := hs; has_bkg_col := hk; rows := map mk_row rws |}.
Definition check_case_orig (cs : case) : bool :=
  let '(_, _, _, _, _, _, _, expected) := cs in
  match model_out_orig cs, expected with
  | Err, None => true
  | Img u img, Some (u', img') => opt_eqb Z.eqb u u' && zimg_eqb img img'
  | _, _ => false
  end.
